(* Proofs/ViewPrepare.v — C04 (stretch): BInv is preserved by the setup of a target:
   _prepare_file_creation (when the target path is not a directory on disk, i.e. without
   _make_room) followed by BuildDirs.started_building_file. *)
From Coq Require Import List String Ascii NArith ZArith Bool Arith Lia.
From FB.Base Require Import PyVal Fs.
From FB.Model Require Import Types Monad CreatedFiles BuildDirs SimpleOps Builder.
From FB.Proofs Require Import FsLemmas CleanLaws JsonLaws CoreLawsChildren ReplayLaws
     ViewDefs ViewLemmas ViewScan ViewQueries ViewAnswers ViewPres ViewFrame.
Import ListNotations.
Open Scope list_scope.
Open Scope m_scope.

(* everything BInv looks at, except the tree *)
Definition same_core (w w1 : world) : Prop :=
  w_bd w1 = w_bd w /\ w_old w1 = w_old w /\ w_new w1 = w_new w /\ w_cachefile w1 = w_cachefile w.

Lemma same_core_refl : forall w, same_core w w.
Proof. intro w. repeat split. Qed.

Lemma same_core_trans : forall a b c, same_core a b -> same_core b c -> same_core a c.
Proof. intros a b c (A1 & A2 & A3 & A4) (B1 & B2 & B3 & B4). repeat split; congruence. Qed.

(* ---- dirs_to_make returns ancestors-or-self of its argument ---- *)
Lemma dirs_to_make_suffix : forall d cf w w1 ds, dirs_to_make d cf w = (w1, inl ds) -> forall q, In q ds -> suffix q d.
Proof.
  induction d as [|n d IH]; intros cf w w1 ds H q Hq; cbn [dirs_to_make] in H.
  - apply bind_inv in H. destruct H as [[wa [isd [_ H]]]|[e [_ H]]]; [|discriminate].
    apply bind_inv in H. destruct H as [[wb [isf [_ H]]]|[e [_ H]]]; [|discriminate].
    destruct isf; [discriminate|]. destruct isd; [inversion H; subst; destruct Hq|].
    apply bind_inv in H. destruct H as [[wc [icf [_ H]]]|[e [_ H]]]; [|discriminate].
    destruct icf; discriminate.
  - apply bind_inv in H. destruct H as [[wa [isd [_ H]]]|[e [_ H]]]; [|discriminate].
    apply bind_inv in H. destruct H as [[wb [isf [_ H]]]|[e [_ H]]]; [|discriminate].
    destruct isf; [discriminate|]. destruct isd; [inversion H; subst; destruct Hq|].
    apply bind_inv in H. destruct H as [[wc [icf [_ H]]]|[e [_ H]]]; [|discriminate].
    destruct icf; [discriminate|].
    apply bind_inv in H. destruct H as [[wd [r [Hr H]]]|[e [_ H]]]; [|discriminate].
    inversion H; subst. apply in_app_iff in Hq. destruct Hq as [Hq|[<-|[]]].
    + apply suffix_cons. eapply IH; eassumption.
    + apply suffix_refl.
Qed.

(* ---- effects ---- *)
Lemma effect_ok : forall what p f w w1 u, effect what p f w = (w1, inl u) ->
  f (w_fs w) = inl (w_fs w1) /\ same_core w w1.
Proof.
  intros what p f w w1 u H. unfold effect in H.
  destruct (existsb (Nat.eqb (w_effects w)) (w_faults w)); [discriminate|].
  cbn [w_fs set_effects] in H. destruct (f (w_fs w)) as [fs'|e] eqn:E; [|discriminate].
  inversion H; subst. split; [reflexivity|]. repeat split.
Qed.

Lemma effect_err : forall what p f w w1 e, effect what p f w = (w1, inr e) ->
  w_fs w1 = w_fs w /\ same_core w w1.
Proof.
  intros what p f w w1 e H. unfold effect in H.
  destruct (existsb (Nat.eqb (w_effects w)) (w_faults w)); [inversion H; subst; split; [reflexivity|repeat split]|].
  cbn [w_fs set_effects] in H. destruct (f (w_fs w)) as [fs'|e'] eqn:E; [discriminate|].
  inversion H; subst. split; [reflexivity|repeat split].
Qed.

(* what one step may do to the tree: nothing, or change the single path q keeping the tree well formed *)
Definition step_at (q : path) (w w1 : world) : Prop :=
  same_core w w1 /\ (fs_wf (w_fs w) -> fs_wf (w_fs w1)) /\
  (forall x, x <> q -> lookup (w_fs w1) x = lookup (w_fs w) x).

Lemma step_at_refl : forall q w, step_at q w w.
Proof. intros q w. split; [apply same_core_refl|]. split; auto. Qed.

Lemma step_at_trans : forall q a b c, step_at q a b -> step_at q b c -> step_at q a c.
Proof.
  intros q a b c (A1 & A2 & A3) (B1 & B2 & B3). split; [eapply same_core_trans; eassumption|].
  split; [auto|]. intros x Hx. rewrite (B3 x Hx). apply A3. exact Hx.
Qed.

Lemma back_up_file_step : forall q w w1 r, isfile (w_fs w) q = true -> back_up_and_remove q w = (w1, r) -> step_at q w w1.
Proof.
  intros q w w1 r Hf H. unfold back_up_and_remove in H. apply bind_inv in H.
  destruct H as [[wa [u [E H]]]|[e [E _]]].
  2:{ apply effect_err in E. destruct E as [E1 E2]. split; [exact E2|]. split; [rewrite E1; auto|intros; rewrite E1; reflexivity]. }
  apply effect_ok in E. destruct E as [E1 E2]. inversion E1 as [E1'].
  assert (Sa: step_at q w wa).
  { split; [exact E2|]. split; [rewrite <- E1'; auto|intros; rewrite <- E1'; reflexivity]. }
  eapply step_at_trans; [exact Sa|]. clear Sa.
  rewrite E1' in Hf.
  destruct (existsb (Nat.eqb (w_effects wa)) (w_faults wa)); [inversion H; subst; split; [repeat split|split; auto]|].
  cbn [w_fs set_effects] in H.
  destruct (rename_out (w_fs wa) q) as [[fs' nd]|e] eqn:E.
  - destruct nd as [f|].
    + apply rename_out_file_frame in E. destruct E as (R1 & R2 & R3).
      inversion H; subst. split; [repeat split|]. cbn [w_fs set_log set_backups set_fs set_effects]. split; [|exact R3].
      intro W. apply (wf_change_one (w_fs wa) fs' q W); auto.
      * intro; subst; discriminate.
      * intro K. congruence.
      * intros n Hn. exfalso. destruct (lookup (w_fs wa) (n :: q)) as [x|] eqn:E'; [|congruence].
        pose proof (W _ _ E') as Hp. cbn [dirname tl] in Hp. congruence.
    + exfalso. unfold rename_out in E. apply isfile_lookup in Hf. destruct Hf as [f Hf]. rewrite Hf in E.
      destruct q; discriminate.
  - destruct e; inversion H; subst; (split; [repeat split|split; auto]).
Qed.

Lemma mkdir_step : forall q w w1 r, effect "mkdir" q (fun fs => mkdir fs q) w = (w1, r) -> step_at q w w1.
Proof.
  intros q w w1 r H. destruct r as [u|e].
  - apply effect_ok in H. destruct H as [E1 E2]. split; [exact E2|].
    pose proof (mkdir_frame _ _ _ E1) as (M1 & M2 & M3). split; [|exact M3].
    intro W. assert (Hq: q <> []) by (intro; subst; discriminate).
    apply (wf_change_one (w_fs w) (w_fs w1) q W Hq M3).
    + intros _. unfold mkdir in E1. destruct q as [|n d]; [contradiction|]. cbn [dirname tl].
      destruct (lookup (w_fs w) (n :: d)); [discriminate|].
      destruct (lookup (w_fs w) d) as [[f|]|]; try discriminate. reflexivity.
    + intros n0 _. exact M1.
  - apply effect_err in H. destruct H as [E1 E2]. split; [exact E2|]. split; [rewrite E1; auto|intros; rewrite E1; reflexivity].
Qed.

Lemma make_one_dir_step : forall q w w1 r, make_one_dir q w = (w1, r) -> step_at q w w1.
Proof.
  intros q w w1 r H. unfold make_one_dir in H. apply bind_inv in H. unfold get in H.
  destruct H as [[wa [w0 [E H]]]|[e [E _]]]; [|discriminate]. inversion E; subst wa w0.
  apply bind_inv in H.
  assert (Hfirst: forall wa (r0 : unit + exn),
            (if isfile (w_fs w) q && cache_created_file (w_old w) q
             then b <- back_up_and_remove q ;; ret tt else ret tt) w = (wa, r0) -> step_at q w wa).
  { intros wa r0 H0. destruct (isfile (w_fs w) q && cache_created_file (w_old w) q) eqn:Ec.
    - apply andb_true_iff in Ec. destruct Ec as [Ec _].
      apply bind_inv in H0. destruct H0 as [[wb [bb [Eb H0]]]|[e [Eb _]]].
      + inversion H0; subst. eapply back_up_file_step; eassumption.
      + eapply back_up_file_step; eassumption.
    - inversion H0; subst. apply step_at_refl. }
  destruct H as [[wa [u [E1 H]]]|[e [E1 _]]]; [|eapply Hfirst; exact E1].
  eapply step_at_trans; [eapply Hfirst; exact E1|].
  unfold catch in H.
  destruct ((effect "mkdir" q (fun fs => mkdir fs q) ;;; ret true) wa) as [wb [bb|e]] eqn:E2.
  - inversion H; subst. apply bind_inv in E2. destruct E2 as [[wc [u' [E3 E4]]]|[e [E3 E4]]]; [|discriminate].
    inversion E4; subst. eapply mkdir_step; exact E3.
  - apply bind_inv in E2. destruct E2 as [[wc [u' [E3 E4]]]|[e' [E3 E4]]]; [discriminate|].
    assert (S: step_at q wa wb) by (eapply mkdir_step; exact E3).
    destruct (is_os_class XFileExists e); inversion H; subst; exact S.
Qed.

(* ---- the loop: only the listed directories change ---- *)
Definition steps_in (ds : list path) (w w1 : world) : Prop :=
  same_core w w1 /\ (fs_wf (w_fs w) -> fs_wf (w_fs w1)) /\
  (forall x, ~ In x ds -> lookup (w_fs w1) x = lookup (w_fs w) x).

Lemma make_dirs_loop_ok : forall ds made w w1 u, make_dirs_loop ds made w = (w1, inl u) -> steps_in ds w w1.
Proof.
  induction ds as [|q ds IH]; intros made w w1 u H; cbn [make_dirs_loop] in H.
  - inversion H; subst. split; [apply same_core_refl|]. split; auto.
  - apply bind_inv in H. destruct H as [[wa [res [E H]]]|[e [E _]]].
    2:{ unfold attempt in E. destruct (make_one_dir q w); discriminate. }
    unfold attempt in E. destruct (make_one_dir q w) as [wb rr] eqn:E1. inversion E; subst wb res.
    pose proof (make_one_dir_step _ _ _ _ E1) as (S1 & S2 & S3).
    destruct rr as [bb|e].
    + apply IH in H. destruct H as (T1 & T2 & T3). split; [eapply same_core_trans; eassumption|].
      split; [auto|]. intros x Hx. rewrite T3 by (intro K; apply Hx; right; exact K).
      apply S3. intro; subst. apply Hx. left. reflexivity.
    + destruct (is_os e).
      * apply bind_inv in H. destruct H as [[wc [u' [_ H]]]|[e' [_ H]]]; discriminate.
      * discriminate.
Qed.

(* ---- the setup of a target whose path is not a directory on disk ---- *)
Theorem prepare_started_BInv : forall w n d w1 created w2 locked,
  BInv w -> isdir (w_fs w) (n :: d) = false ->
  prepare_file_creation (n :: d) w = (w1, inl created) ->
  m_bd_started (n :: d) created w1 = (w2, inl locked) ->
  BInv w2 /\
  (forall x, in_counts (w_bd w2) x = false -> dead w2 x = dead w x) /\
  (forall x, suffix x d -> in_counts (w_bd w2) x = true) /\
  (forall q, ~ suffix q d -> lookup (w_fs w2) q = lookup (w_fs w) q).
Proof.
  intros w n d w1 created w2 locked HB Hnd Hprep Hst.
  unfold prepare_file_creation in Hprep. apply bind_inv in Hprep. unfold get in Hprep.
  destruct Hprep as [[wa [w0 [E H]]]|[e [E _]]]; [|discriminate]. inversion E; subst wa w0.
  rewrite Hnd in H. apply bind_inv in H. destruct H as [[wa [u [E1 H]]]|[e [E1 _]]]; [|discriminate].
  inversion E1; subst wa u. cbn [dirname tl] in H.
  unfold make_dirs in H. apply bind_inv in H. destruct H as [[wa [ds [Eds H]]]|[e [_ H]]]; [|discriminate].
  pose proof (dirs_to_make_good _ _ _ _ _ HB Eds) as Ga.
  apply bind_inv in H. destruct H as [[wb [u [Eloop H]]]|[e [_ H]]]; [|discriminate].
  inversion H; subst wb created. clear H.
  pose proof (make_dirs_loop_ok _ _ _ _ _ Eloop) as ((C1 & C2 & C3 & C4) & S2 & S3).
  pose proof (good_BInv _ _ Ga) as Ba.
  unfold m_bd_started in Hst. destruct (bd_started (w_bd w1) (n :: d) ds) as [b' l] eqn:Eb. inversion Hst; subst w2 locked.
  assert (Hoth: forall q, ~ suffix q d -> lookup (w_fs w1) q = lookup (w_fs wa) q).
  { intros q Hq. apply S3. intro Hin. apply Hq. eapply dirs_to_make_suffix; eassumption. }
  destruct (started_BInv wa n d ds (w_fs w1) (set_bd b' w1) Ba (S2 (bi_wf _ Ba)) Hoth) as (R1 & R2 & R3); auto.
  { cbn [w_bd set_bd]. rewrite <- C1, Eb. reflexivity. }
  split; [exact R1|]. split; [|split; [exact R3|]].
  - intros x Hx. rewrite (R2 x Hx). apply (sv_dead _ _ (good_sv _ _ Ga)).
  - intros q Hq. cbn [w_fs set_bd]. rewrite (Hoth q Hq). rewrite (sv_fs _ _ (good_sv _ _ Ga)). reflexivity.
Qed.

Print Assumptions prepare_started_BInv.
