(* Proofs/CoreRebuildEx.v — validation by computation of the statement of the rebuild theorem
   (Proofs/CoreRebuild*.v) on concrete scenarios, before and independently of its proof. *)
From Coq Require Import List String NArith ZArith Bool Arith.
From FB.Base Require Import PyVal Fs.
From FB.Gen Require Import JsonUtilGen.
From FB.Spec Require Import JsonSpec Prog Ref Oracle Faithful.
From FB.Model Require Import Types SimpleOps Builder Persist Dsl Core CoreOracle CoreCache.
From FB.Proofs Require Import CoreLaws2 CoreLaws3 CoreLawsEx CoreRebuildDefs.
Import ListNotations.
Open Scope list_scope.
Open Scope string_scope.

(* ---- a program whose calls all succeed: root-level queries, a subbuild with nested targets, a
   build_file function that builds a sibling target, a root-level setup failure (duplicate target) ---- *)
Definition f_nest (p : path) (a k : pyval) : prog :=
  BuildFile false ("n" :: tl p) HASH "copy" PNone (PDict []) f_copy (fun o =>
  Ask false (QRead ("n" :: tl p) HASH) (fun r =>
  match r with inl (PStr s) => Write (s ++ "+") (Ret (PInt 2)) | _ => Raise (XUser 1) end)).
Definition s_subc (a k : pyval) : prog :=
  BuildFile false ["o2"; "d"] HASH "copy" a k f_copy (fun o =>
  BuildFile false ["o3"; "e"; "d"] METADATA "nest" PNone (PDict []) f_nest (fun o' =>
  Ask false (QWalk ["d"] true) (fun _ =>
  match o with inl v => Ret (PTuple [v; PStr "done"]) | inr e => Raise e end))).
Definition root_c : prog :=
  Ask false (QExists ["src"]) (fun _ =>
  BuildFile false ["out"] METADATA "copy" (PList [PInt 1]) (PDict []) f_copy (fun _ =>
  Subbuild false "sub" (PInt 2) (PDict []) s_subc (fun _ =>
  Ask false (QListDir []) (fun _ =>
  BuildFile false ["a"; "b"; "c"] HASH "lister" PNone (PDict []) f_lister (fun _ =>
  BuildFile false ["out"] METADATA "copy" PNone (PDict []) f_copy (fun dup =>
  Ask false (QIsFile ["out"]) (fun _ =>
  Subbuild false "sub" (PFloat (FFin false 1 1)) (PDict []) s_subc (fun dup2 =>
  match dup, dup2 with
  | inr (XRuntime RDupFile), inr (XRuntime RDupSubbuild) => Ret (PStr "ok")
  | _, _ => Ret (PStr "unexpected")
  end)))))))).

Definition versc : pyval := PDict [(PStr "copy", PInt 1); (PStr "nest", PInt 1); (PStr "lister", PInt 1); (PStr "sub", PInt 1)].
Definition cfc : path := ["cache"; "k"].       (* the cache file lives in a directory the build makes *)

Definition dflt : kstate :=
  {| k_fs := []; k_stale := []; k_staledirs := []; k_claimedF := []; k_claimedS := []; k_need := []; k_made := [];
     k_clock := 0; k_nextid := 0; k_log := []; k_cachefile := []; k_old := empty_cache "" PNone; k_vers := PNone;
     k_newF := []; k_newS := [] |}.
Definition st_of (cr : core_result) : kstate := match cr_state cr with Some s => s | None => dflt end.

Definition same_tree (a b : fsT) : bool :=
  forallb (fun p => match lookup a p, lookup b p with
                    | None, None => true
                    | Some NDir, Some NDir => true
                    | Some (NFile f), Some (NFile g) =>
                        String.eqb (f_bytes f) (f_bytes g) && N.eqb (f_mtime f) (f_mtime g) && N.eqb (f_id f) (f_id g)
                    | _, _ => false
                    end) (support a ++ support b).

(* all hypotheses of the theorem that are decidable, and its conclusion *)
Definition hyps (fs : fsT) (cf : path) (old : cache) (cr1 : core_result) : bool :=
  let s1 := st_of cr1 in
  match cr_outcome cr1 with inl _ => true | inr _ => false end &&
  match cr_state cr1 with Some _ => true | None => false end &&
  records_clean s1 && records_distinct s1 &&
  forallb (fun p => negb (isfile (start_tree fs cf old) p)) (map fst (k_newF s1)) &&
  negb (isdir fs cf).

Definition concl (fs : fsT) (cf : path) (old : cache) (vers : pyval) (clock nextid : N) (root : prog)
           (cr1 cr2 : core_result) : bool :=
  String.eqb (show_outcome (cr_outcome cr1)) (show_outcome (cr_outcome cr2)) &&
  str_list_eqb (flat_map show_log1 (cr_log cr2))
               (flat_map show_log1 (LInvoke "<root>" None PNone PNone :: build_top fs cf old vers clock nextid root)) &&
  forallb (fun e => match e with LInvoke f _ _ _ => String.eqb f "<root>" | _ => true end) (cr_log cr2) &&
  same_tree (cr_tree cr2) (cr_tree cr1).

(* build 1 from scratch, build 2 = rebuild, build 3 = rebuild after a build that was itself served from the cache *)
Definition c1 := core_build fs0 cfc (empty_cache "b" versc) versc 10 10 root_c.
Definition new1 := CoreCache.cache_of_state "b" (st_of c1).
Definition fsn1 := next_fs cfc (st_of c1).
Definition c2 := core_build fsn1 cfc new1 versc 50 50 root_c.
Definition new2 := CoreCache.cache_of_state "b" (st_of c2).
Definition fsn2 := next_fs cfc (st_of c2).
Definition c3 := core_build fsn2 cfc new2 versc 90 90 root_c.

Example c1_ok : cr_outcome c1 = inl (PStr "ok").
Proof. vm_compute. reflexivity. Qed.
Example c1_hyps : hyps fs0 cfc (empty_cache "b" versc) c1 = true.
Proof. vm_compute. reflexivity. Qed.
Example c2_concl : concl fs0 cfc (empty_cache "b" versc) versc 10 10 root_c c1 c2 = true.
Proof. vm_compute. reflexivity. Qed.
Example c2_hyps : hyps fsn1 cfc new1 c2 = true.
Proof. vm_compute. reflexivity. Qed.
Example c3_concl : concl fsn1 cfc new1 versc 50 50 root_c c2 c3 = true.
Proof. vm_compute. reflexivity. Qed.
(* the logs: 3 root-level answers and the root entry; the first build made 6 calls *)
Example c_logs : (List.length (cr_log c1), List.length (cr_log c2), List.length (cr_log c3)) = (20%nat, 4%nat, 4%nat).
Proof. vm_compute. reflexivity. Qed.

(* a build after a change of the input: some calls hit, others run; then its rebuild *)
Definition fsn1' : fsT := upd ["src"] (Some (NFile src1)) fsn1.
Definition d2 := core_build fsn1' cfc new1 versc 50 50 root_c.
Definition newd := CoreCache.cache_of_state "b" (st_of d2).
Definition fsd := next_fs cfc (st_of d2).
Definition d3 := core_build fsd cfc newd versc 90 90 root_c.
Example d2_hyps : hyps fsn1' cfc new1 d2 = true.
Proof. vm_compute. reflexivity. Qed.
Example d3_concl : concl fsn1' cfc new1 versc 50 50 root_c d2 d3 = true.
Proof. vm_compute. reflexivity. Qed.

(* ---- the scenario of CoreLawsEx (root1): the calls of "boom" and the call of "outer" raise.  The
   hypotheses fail (records not clean).  The rebuild re-runs the two ROOT-LEVEL raised calls ("outer" on
   /deep, whose nested output is served from the cache, and "boom" on /e/bm); the subbuild "sub", whose
   record contains the raised record of "boom" on /d/o3, is served from the cache without re-running it:
   a raised record nested in a successful one is replayed ("the path is still free"), only a DIRECT call
   whose record is raised is never served ---- *)
Definition e2 := core_build fs1 cf old1 vers 20 20 root1.
Example root1_not_clean : records_clean st1 = false.
Proof. vm_compute. reflexivity. Qed.
Example root1_rebuild :
  flat_map show_log1 (cr_log e2) =
  flat_map show_log1 [LInvoke "<root>" None PNone PNone;
                      LInvoke "outer" (Some ["deep"]) PNone (PDict []);
                      LInvoke "boom" (Some ["bm"; "e"]) PNone (PDict []); LAnswer (QExists ["nothing"]) (inl (PBool false))]
  /\ same_tree (cr_tree e2) (cr_tree b1) = true
  /\ show_outcome (cr_outcome e2) = show_outcome (cr_outcome b1).
Proof. vm_compute. repeat split; reflexivity. Qed.

(* ---- the hypothesis "no foreign regular file at a target path" is needed: the first build overwrites a
   foreign file at /out after having seen it; the rebuild starts from the cleaned tree, where /out is gone ---- *)
Definition root_f : prog :=
  Ask false (QExists ["out"]) (fun r =>
  BuildFile false ["out"] METADATA "copy" PNone (PDict []) f_copy (fun _ =>
  match r with inl v => Ret v | inr e => Raise e end)).
Definition fsF : fsT := upd ["out"] (Some (NFile {| f_bytes := "foreign"; f_mtime := 2; f_id := 7; f_json := None |})) fs0.
Definition g1 := core_build fsF cfc (empty_cache "b" versc) versc 10 10 root_f.
Definition g2 := core_build (next_fs cfc (st_of g1)) cfc (CoreCache.cache_of_state "b" (st_of g1)) versc 50 50 root_f.
Example foreign_target_breaks :
  hyps fsF cfc (empty_cache "b" versc) g1 = false /\
  records_clean (st_of g1) = true /\ records_distinct (st_of g1) = true /\
  show_outcome (cr_outcome g1) = "ok:T" /\ show_outcome (cr_outcome g2) = "ok:F".
Proof. vm_compute. repeat split; reflexivity. Qed.

(* ---- a path that no record observes can still matter: cleaning observes whether the directories the
   previous build made are empty.  The subbuild "obs" asks whether /d exists (no) and then builds /d/o.
   Between the builds a foreign file /d/x appears: no recorded operation looked at /d/x, but /d can no
   longer be pruned, "exists /d" now answers yes, and the subbuild is re-run.  (This is the behaviour of the
   reference semantics too — the build sees the cleaned tree — so the frame property must count the paths
   below a directory listed in c_dirs as observed.) ---- *)
Fixpoint observes (o : op) (q : path) {struct o} : bool :=
  match o with
  | OSimple (QListDir p) _ _ => path_eqb p q || path_eqb p (dirname q)
  | OSimple (QWalk p _) _ _ => path_eqb p q || is_ancestor p q
  | OSimple qq _ _ => path_eqb (spec_query_path qq) q
  | OBuildFile p _ _ _ _ subs _ _ _ _ => path_eqb p q || is_ancestor q p || existsb (fun x => observes x q) subs
  | OSubbuild _ _ _ subs _ _ _ => existsb (fun x => observes x q) subs
  end.
Definition observed_by (s : kstate) (q : path) : bool :=
  existsb (fun e => observes (snd e) q) (k_newF s) || existsb (fun e => observes (snd e) q) (k_newS s).

Definition s_obs (a k : pyval) : prog :=
  Ask false (QExists ["d"]) (fun r =>
  BuildFile false ["o"; "d"] HASH "copy" PNone (PDict []) f_copy (fun _ =>
  match r with inl v => Ret v | inr e => Raise e end)).
Definition root_o : prog := Subbuild false "obs" PNone (PDict []) s_obs (fun o => match o with inl v => Ret v | inr e => Raise e end).
Definition verso : pyval := PDict [(PStr "copy", PInt 1); (PStr "obs", PInt 1)].
Definition h1 := core_build fs0 cfc (empty_cache "b" verso) verso 10 10 root_o.
Definition fsh : fsT := next_fs cfc (st_of h1).
Definition fshx : fsT := upd ["x"; "d"] (Some (NFile {| f_bytes := "foreign"; f_mtime := 30; f_id := 77; f_json := None |})) fsh.
Definition h2 := core_build fsh cfc (CoreCache.cache_of_state "b" (st_of h1)) verso 50 50 root_o.
Definition h2x := core_build fshx cfc (CoreCache.cache_of_state "b" (st_of h1)) verso 50 50 root_o.
Example unobserved_path_matters :
  hyps fs0 cfc (empty_cache "b" verso) h1 = true /\
  observed_by (st_of h1) ["x"; "d"] = false /\ mem_path ["d"] (k_made (st_of h1)) = true /\
  flat_map show_log1 (cr_log h2) = ["invoke <root> - N N"] /\
  flat_map show_log1 (cr_log h2x) =
    ["invoke <root> - N N"; "invoke obs - N {}"; "answer exists('/d') = T"] /\
  show_outcome (cr_outcome h2) = "ok:F" /\ show_outcome (cr_outcome h2x) = "ok:T".
Proof. vm_compute. repeat split; reflexivity. Qed.

(* ---- records that are not clean: "only calls that raised last time are re-run" does not extend to them as
   stated.  The build_file function "u" builds /n and then asks for /n again: the second call is refused
   (duplicate target), "u" catches that and writes its own target /u — a successful call whose record
   contains a setup failure.  Such a record can never be replayed, so "u" is re-run by every build and
   rewrites /u (new modification time).  "rd" reads /u comparing METADATA and succeeded; in the unchanged
   rebuild its recorded read no longer matches the rewritten /u, so it is re-run too, although nothing it
   depends on changed and neither "rd" nor anything inside it raised.  With HASH comparison it is served ---- *)
Definition f_u (p : path) (a k : pyval) : prog :=
  BuildFile false ["n"] HASH "copy" PNone (PDict []) f_copy (fun _ =>
  BuildFile false ["n"] HASH "copy" PNone (PDict []) f_copy (fun _ => Write "u" (Ret (PInt 5)))).
Definition f_rd (c : cmpmode) (p : path) (a k : pyval) : prog :=
  Ask false (QRead ["u"] c) (fun o =>
  match o with inl (PStr s) => Write (s ++ "?") (Ret (PInt 6)) | inl _ => Raise (XUser 3) | inr e => Raise e end).
Definition root_u (c : cmpmode) : prog :=
  BuildFile false ["u"] HASH "u" PNone (PDict []) f_u (fun _ =>
  BuildFile false ["r"] HASH "rd" PNone (PDict []) (f_rd c) (fun o => match o with inl v => Ret v | inr e => Raise e end)).
Definition versu : pyval := PDict [(PStr "copy", PInt 1); (PStr "u", PInt 1); (PStr "rd", PInt 1)].
Definition u1 (c : cmpmode) := core_build fs0 cfc (empty_cache "b" versu) versu 10 10 (root_u c).
Definition u2 (c : cmpmode) :=
  core_build (next_fs cfc (st_of (u1 c))) cfc (CoreCache.cache_of_state "b" (st_of (u1 c))) versu 50 50 (root_u c).
Example unclean_success_reruns_dependents :
  show_outcome (cr_outcome (u1 METADATA)) = "ok:6" /\ records_clean (st_of (u1 METADATA)) = false /\
  map (fun e => (fst e, op_raised (snd e), op_clean (snd e))) (k_newF (st_of (u1 METADATA))) =
    [(["n"], false, true); (["u"], false, false); (["r"], false, true)] /\
  flat_map show_log1 (cr_log (u2 METADATA)) =
    ["invoke <root> - N N"; "invoke u /u N {}"; "invoke rd /r N {}"; "answer read('/u','METADATA') = 'u'"] /\
  flat_map show_log1 (cr_log (u2 HASH)) = ["invoke <root> - N N"; "invoke u /u N {}"] /\
  same_tree (cr_tree (u2 METADATA)) (cr_tree (u1 METADATA)) = false /\
  str_list_eqb (red_tree (cr_tree (u2 METADATA)) cfc) (red_tree (cr_tree (u1 METADATA)) cfc) = true.
Proof. vm_compute. repeat split; reflexivity. Qed.
