(* Proofs/CacheGenLaws.v — the definitions regenerated from the in-memory half of file_builder/cache.py
   (Gen/CacheGen.v, written by tools/translate/cache_tr.py) against the hand-written cache routines the rest
   of the development uses: Model/Types.v (record cache), Model/SimpleOps.v (cache_has_file, cache_get_file,
   cache_created_file), Model/Builder.v (new_*, assert_no_repeats, register_op, subbuild_key, func_version),
   Model/Persist.v (empty_cache, cache_created_files), Model/Build.v (set_created_dirs).

   The generated state [gcache] has one field per Python attribute; the model's [cache] has no
   _norm_cased_files (os.path.normcase = identity makes it a second copy of _files) and no
   _operation_versions.  [of_cache ov c] is the object that represents c (both dicts = c_files c,
   _operation_versions = ov); [to_cache] forgets the two extra fields.  For a routine X the lemma
   [gen_c_X_eq] has the form  gen_c_X (of_cache ov c) args = <result built from of_cache ov (model_X c args)>,
   so it also says that the Python keeps the two dicts equal.  [.._M] lemmas restate it against the monadic
   routine of Builder.v ([run_new] installs the resulting object as w_new).

   Where the hand-written model is not the translation of the Python, the lemma carries the hypothesis under
   which it is, and an [Example ..._differs] exhibits a concrete input outside it:
   - abort_building_file: list.remove deletes the first occurrence, del_path all of them (equal when
     c_built has no duplicates: [built_ok], an invariant of every routine, section "invariant");
   - records of the wrong class (a SimpleOperation where a ComplexOperation is expected): Python raises
     AttributeError, the model's accessors are total (created_file, created_files, finish_building_file,
     use_cached_operation, assert_doesnt_have_subbuild, subbuild_key);
   - use_cached_operation: Python raises the RuntimeError of the first repeated record in the tree, the model
     the one that belongs to the class of the root record ([first_repeat] vs [top_kind]).
   Nothing is assumed: every lemma is closed under the global context. *)
From Coq Require Import List String Bool Arith.
From FB.Base Require Import PyVal Fs.
From FB.Gen Require Import JsonUtilGen CacheGen.
From FB.Model Require Import Types Monad CreatedFiles BuildDirs SimpleOps Builder Persist Build.
Import ListNotations.
Open Scope string_scope.
Open Scope list_scope.

(* ================= the representation ================= *)
Definition of_cache (ov : pyval) (c : cache) : gcache :=
  {| g_name := c_name c; g_files := c_files c; g_subs := c_subs c; g_dirs := c_dirs c; g_fvers := c_fvers c;
     g_opvers := ov; g_built := c_built c; g_ncfiles := c_files c |}.
Definition to_cache (s : gcache) : cache :=
  {| c_name := g_name s; c_files := g_files s; c_subs := g_subs s; c_dirs := g_dirs s; c_fvers := g_fvers s;
     c_built := g_built s |}.
(* the two dicts agree *)
Definition gc_ok (s : gcache) : Prop := g_ncfiles s = g_files s.

Lemma to_of_cache : forall ov c, to_cache (of_cache ov c) = c.
Proof. intros ov [n f su d v b]. reflexivity. Qed.

Lemma of_to_cache : forall s, gc_ok s -> of_cache (g_opvers s) (to_cache s) = s.
Proof. intros [n f su d v o b nf] H. unfold gc_ok in H. simpl in H. subst nf. reflexivity. Qed.

Lemma gc_ok_of_cache : forall ov c, gc_ok (of_cache ov c).
Proof. reflexivity. Qed.

(* a record that has func_name / kwargs / suboperations / raised / setup_failed *)
Definition is_complex (o : op) : bool := match o with OSimple _ _ _ => false | _ => true end.
Definition is_build_file (o : op) : bool := match o with OBuildFile _ _ _ _ _ _ _ _ _ _ => true | _ => false end.

(* the result of a generated method, as a step of the model's monad on the new cache *)
Definition run_new {A} (w : world) (r : cres gcache A) : world * (A + exn) :=
  match r with
  | CRet s a => (set_new (to_cache s) w, inl a)
  | CRaise s e => (set_new (to_cache s) w, inr e)
  end.

Lemma set_new_same : forall w, set_new (w_new w) w = w.
Proof. intros []. reflexivity. Qed.

(* ---- small facts ---- *)
Lemma cg_path_eqb_refl : forall p, path_eqb p p = true.
Proof. induction p as [|x p IH]; simpl; [reflexivity|]. rewrite String.eqb_refl. exact IH. Qed.

Lemma cg_path_eqb_eq : forall p q, path_eqb p q = true -> p = q.
Proof.
  induction p as [|x p IH]; destruct q as [|y q]; simpl; intro H; try discriminate; [reflexivity|].
  apply andb_true_iff in H. destruct H as [H1 H2]. apply String.eqb_eq in H1. apply IH in H2. congruence.
Qed.

Lemma cg_mem_path_In : forall p l, mem_path p l = true <-> In p l.
Proof.
  induction l as [|q r IH]; simpl; [split; [discriminate|tauto]|].
  rewrite orb_true_iff, IH. split; intros [H|H]; auto.
  - left. apply cg_path_eqb_eq. exact H.
  - left. subst. apply cg_path_eqb_refl.
Qed.

Lemma fdict_del_eq : forall l p, fdict_del l p = files_del l p.
Proof. induction l as [|[q o] r IH]; intro p; simpl; [reflexivity|]. rewrite IH. reflexivity. Qed.

(* list.remove(x) (first occurrence) is del_path (all occurrences) on a list without duplicates *)
Lemma cg_del_absent : forall p l, ~ In p l -> del_path p l = l.
Proof.
  induction l as [|q r IH]; simpl; intro H; [reflexivity|].
  destruct (path_eqb q p) eqn:E.
  - apply cg_path_eqb_eq in E. subst. tauto.
  - rewrite IH by tauto. reflexivity.
Qed.

Lemma remove_first_del : forall p l, NoDup l -> remove_first_path p l = del_path p l.
Proof.
  induction l as [|q r IH]; simpl; intro H; [reflexivity|].
  inversion H as [|? ? Hq Hr]; subst.
  destruct (path_eqb q p) eqn:E.
  - apply cg_path_eqb_eq in E. subst. rewrite cg_del_absent by exact Hq. reflexivity.
  - rewrite IH by exact Hr. reflexivity.
Qed.

(* ================= class constants ================= *)
(* cache_to_json / cache_of_json of Persist.v use PNone, PDict [] and "file_builder" inline *)
Lemma gen_c_const_CACHE_FILE_VERSION_eq : gen_c_const_CACHE_FILE_VERSION = PNone.
Proof. reflexivity. Qed.
Lemma gen_c_const_OPERATION_VERSIONS_eq : gen_c_const_OPERATION_VERSIONS = PDict [].
Proof. reflexivity. Qed.
Lemma gen_c_const_SOFTWARE_eq : gen_c_const_SOFTWARE = "file_builder".
Proof. reflexivity. Qed.

(* ================= constructor ================= *)
(* the loop that fills _norm_cased_files rebuilds [files] when its keys are distinct, which is what makes the
   list a dict *)
Lemma files_set_fresh : forall l p o, ~ In p (map fst l) -> files_set l p o = l ++ [(p, o)].
Proof.
  induction l as [|[q o'] r IH]; intros p o H; simpl in *; [reflexivity|].
  destruct (path_eqb q p) eqn:E.
  - apply cg_path_eqb_eq in E. tauto.
  - rewrite IH by tauto. reflexivity.
Qed.

Lemma gen_c_init_eq : forall nm files subs dirs fv ov mut,
  NoDup (map fst files) ->
  gen_c_init nm files subs dirs fv ov mut
  = of_cache ov {| c_name := nm; c_files := files; c_subs := subs; c_dirs := dirs; c_fvers := fv; c_built := [] |}.
Proof.
  intros nm files subs dirs fv ov mut H. unfold gen_c_init, of_cache. cbn [c_name c_files c_subs c_dirs c_fvers c_built].
  assert (G : forall xs acc, NoDup (map fst (acc ++ xs)) ->
            forall s, g_ncfiles s = acc ->
            (fix loop1 (xs1 : list (path * option op)) (s : gcache) {struct xs1} : gcache :=
               match xs1 with
               | [] => s
               | (filename, operation) :: xs1' =>
                   let s0 := set_g_ncfiles s (files_set (g_ncfiles s) filename operation) in loop1 xs1' s0
               end) xs s = set_g_ncfiles s (acc ++ xs)).
  { induction xs as [|[p o] r IH]; intros acc Hn s Hs.
    - rewrite app_nil_r. destruct s. simpl in Hs. subst. reflexivity.
    - cbv zeta. rewrite (IH (acc ++ [(p, o)])).
      + rewrite <- app_assoc. reflexivity.
      + rewrite <- app_assoc. exact Hn.
      + unfold set_g_ncfiles. cbn [g_ncfiles]. rewrite Hs. apply files_set_fresh.
        rewrite map_app in Hn. apply NoDup_remove_2 in Hn. intro Hin. apply Hn.
        rewrite in_app_iff. left. exact Hin. }
  rewrite (G files [] H) by reflexivity. reflexivity.
Qed.

(* a list with a repeated key is not a dict: the copy keeps one entry per key *)
Example gen_c_init_repeated_key :
  let p := ["f"] in
  g_ncfiles (gen_c_init "" [(p, None); (p, None)] [] [] PNone PNone false) = [(p, None)].
Proof. reflexivity. Qed.

Lemma gen_c_create_empty_mutable_eq : forall nm fv, gen_c_create_empty_mutable nm fv = of_cache (PDict []) (empty_cache nm fv).
Proof. reflexivity. Qed.
Lemma gen_c_create_empty_immutable_eq : forall nm fv, gen_c_create_empty_immutable nm fv = of_cache (PDict []) (empty_cache nm fv).
Proof. reflexivity. Qed.
Lemma gen_c_priv_create_empty_eq : forall nm fv mut, gen_c_priv_create_empty nm fv mut = of_cache (PDict []) (empty_cache nm fv).
Proof. reflexivity. Qed.

(* ================= accessors ================= *)
Lemma gen_c_build_name_eq : forall ov c, gen_c_build_name (of_cache ov c) = c_name c.
Proof. reflexivity. Qed.
Lemma gen_c_get_file_eq : forall ov c p, gen_c_get_file (of_cache ov c) p = cache_get_file c p.
Proof. reflexivity. Qed.
Lemma gen_c_get_norm_cased_file_eq : forall ov c p, gen_c_get_norm_cased_file (of_cache ov c) p = cache_get_file c p.
Proof. reflexivity. Qed.
Lemma gen_c_has_norm_cased_file_eq : forall ov c p, gen_c_has_norm_cased_file (of_cache ov c) p = cache_has_file c p.
Proof. reflexivity. Qed.
Lemma gen_c_built_files_eq : forall ov c, gen_c_built_files (of_cache ov c) = c_built c.
Proof. reflexivity. Qed.
Lemma gen_c_created_dirs_eq : forall ov c, gen_c_created_dirs (of_cache ov c) = c_dirs c.
Proof. reflexivity. Qed.
Lemma gen_c_get_func_version_eq : forall ov c f, gen_c_get_func_version (of_cache ov c) f = func_version c f.
Proof. reflexivity. Qed.
(* the model has no _operation_versions: the accessor reads the extra field *)
Lemma gen_c_get_operation_version_eq : forall ov c f, gen_c_get_operation_version (of_cache ov c) f = py_dict_get (PStr f) ov.
Proof. reflexivity. Qed.
(* subbuild_cache_lookup reads the dict with subs_get and treats "absent" and "in progress" alike *)
Lemma gen_c_get_subbuild_eq : forall ov c k,
  gen_c_get_subbuild (of_cache ov c) k = match subs_get (c_subs c) k with Some o => o | None => None end.
Proof. reflexivity. Qed.
Lemma gen_c_has_subbuild_eq : forall ov c k, gen_c_has_subbuild (of_cache ov c) k = cache_has_subbuild c k.
Proof. reflexivity. Qed.

(* ================= files: assert / start / abort / finish ================= *)
(* the message argument [filename] is not looked at *)
Lemma gen_c_priv_assert_doesnt_have_norm_cased_file_eq : forall ov c p q,
  gen_c_priv_assert_doesnt_have_norm_cased_file (of_cache ov c) p q
  = if cache_has_file c p then CRaise (of_cache ov c) (XRuntime RDupFile) else CRet (of_cache ov c) tt.
Proof. reflexivity. Qed.

Lemma gen_c_assert_doesnt_have_norm_cased_file_eq : forall ov c p q,
  gen_c_assert_doesnt_have_norm_cased_file (of_cache ov c) p q
  = if cache_has_file c p then CRaise (of_cache ov c) (XRuntime RDupFile) else CRet (of_cache ov c) tt.
Proof.
  intros. unfold gen_c_assert_doesnt_have_norm_cased_file.
  rewrite gen_c_priv_assert_doesnt_have_norm_cased_file_eq. destruct (cache_has_file c p); reflexivity.
Qed.

Lemma gen_c_assert_doesnt_have_norm_cased_file_M : forall ov w p q,
  new_assert_no_file p w = run_new w (gen_c_assert_doesnt_have_norm_cased_file (of_cache ov (w_new w)) p q).
Proof.
  intros. rewrite gen_c_assert_doesnt_have_norm_cased_file_eq.
  unfold new_assert_no_file, bind, get, raise, ret.
  destruct (cache_has_file (w_new w) p); cbn [run_new]; rewrite to_of_cache, set_new_same; reflexivity.
Qed.

Lemma gen_c_start_building_file_eq : forall ov c p,
  gen_c_start_building_file (of_cache ov c) p
  = if cache_has_file c p then CRaise (of_cache ov c) (XRuntime RDupFile)
    else CRet (of_cache ov (cache_with c (files_set (c_files c) p None) (c_subs c) (c_dirs c) (c_built c ++ [p]))) tt.
Proof.
  intros. unfold gen_c_start_building_file. rewrite gen_c_priv_assert_doesnt_have_norm_cased_file_eq.
  destruct (cache_has_file c p); reflexivity.
Qed.

Lemma gen_c_start_building_file_M : forall ov w p,
  new_start_building_file p w = run_new w (gen_c_start_building_file (of_cache ov (w_new w)) p).
Proof.
  intros. rewrite gen_c_start_building_file_eq.
  unfold new_start_building_file, new_assert_no_file, bind, get, raise, ret, modify.
  destruct (cache_has_file (w_new w) p); cbn [run_new]; rewrite to_of_cache, ?set_new_same; reflexivity.
Qed.

(* the file is in _built_files at most once *)
Lemma gen_c_abort_building_file_eq : forall ov c p,
  NoDup (c_built c) ->
  gen_c_abort_building_file (of_cache ov c) p
  = of_cache ov (cache_with c (files_del (c_files c) p) (c_subs c) (c_dirs c) (del_path p (c_built c))).
Proof.
  intros ov c p H. unfold gen_c_abort_building_file, of_cache, cache_with, set_g_files, set_g_ncfiles, set_g_built.
  cbn [g_name g_files g_subs g_dirs g_fvers g_opvers g_built g_ncfiles c_name c_files c_subs c_dirs c_fvers c_built].
  rewrite !fdict_del_eq.
  destruct (mem_path p (c_built c)) eqn:E.
  - rewrite remove_first_del by exact H. reflexivity.
  - rewrite cg_del_absent; [reflexivity|]. intro Hin. apply cg_mem_path_In in Hin. congruence.
Qed.

Lemma gen_c_abort_building_file_M : forall ov w p,
  NoDup (c_built (w_new w)) ->
  new_abort_building_file p w = (set_new (to_cache (gen_c_abort_building_file (of_cache ov (w_new w)) p)) w, inl tt).
Proof.
  intros. rewrite gen_c_abort_building_file_eq by assumption. rewrite to_of_cache. reflexivity.
Qed.

(* without that hypothesis: Python removes one occurrence, the model all of them *)
Example gen_c_abort_building_file_differs :
  let p := ["f"] in
  let c := {| c_name := ""; c_files := []; c_subs := []; c_dirs := []; c_fvers := PDict []; c_built := [p; p] |} in
  c_built (to_cache (gen_c_abort_building_file (of_cache PNone c) p)) = [p]
  /\ c_built (cache_with c (files_del (c_files c) p) (c_subs c) (c_dirs c) (del_path p (c_built c))) = [].
Proof. split; reflexivity. Qed.

(* the model's routine receives the file name next to the record; Python reads it from the record *)
Lemma gen_c_finish_building_file_eq : forall ov c p cm f a k subs r cr ra sf,
  let o := OBuildFile p cm f a k subs r cr ra sf in
  gen_c_finish_building_file (of_cache ov c) o
  = CRet (of_cache ov (cache_with c (files_set (c_files c) p (Some o)) (c_subs c) (c_dirs c) (c_built c))) tt.
Proof. reflexivity. Qed.

Lemma gen_c_finish_building_file_M : forall ov w p cm f a k subs r cr ra sf,
  let o := OBuildFile p cm f a k subs r cr ra sf in
  new_finish_building_file p o w = run_new w (gen_c_finish_building_file (of_cache ov (w_new w)) o).
Proof.
  intros. subst o. rewrite gen_c_finish_building_file_eq. cbn [run_new]. rewrite to_of_cache. reflexivity.
Qed.

Lemma gen_c_finish_building_file_other : forall s o,
  is_build_file o = false -> gen_c_finish_building_file s o = CRaise s (XCrash "AttributeError").
Proof. intros s [] H; try discriminate; reflexivity. Qed.

(* created_file / created_norm_cased_file: the entry, if any, is a record that has .raised *)
Lemma gen_c_created_file_eq : forall ov c p,
  (forall o, cache_get_file c p = Some o -> is_complex o = true) ->
  gen_c_created_file (of_cache ov c) p = CRet (of_cache ov c) (cache_created_file c p).
Proof.
  intros ov c p H. unfold gen_c_created_file, cache_created_file. cbv zeta.
  change (fdict_get (g_files (of_cache ov c)) p) with (cache_get_file c p).
  destruct (cache_get_file c p) as [o|]; [|reflexivity].
  specialize (H o eq_refl). destruct o; try discriminate; reflexivity.
Qed.

Lemma gen_c_created_norm_cased_file_eq : forall ov c p,
  (forall o, cache_get_file c p = Some o -> is_complex o = true) ->
  gen_c_created_norm_cased_file (of_cache ov c) p = CRet (of_cache ov c) (cache_created_file c p).
Proof.
  intros ov c p H. unfold gen_c_created_norm_cased_file, cache_created_file. cbv zeta.
  change (fdict_get (g_ncfiles (of_cache ov c)) p) with (cache_get_file c p).
  destruct (cache_get_file c p) as [o|]; [|reflexivity].
  specialize (H o eq_refl). destruct o; try discriminate; reflexivity.
Qed.

Example gen_c_created_file_differs :
  let p := ["f"] in
  let c := {| c_name := ""; c_files := [(p, Some (OSimple (QExists p) PNone None))]; c_subs := []; c_dirs := [];
              c_fvers := PDict []; c_built := [] |} in
  gen_c_created_file (of_cache PNone c) p = CRaise (of_cache PNone c) (XCrash "AttributeError")
  /\ cache_created_file c p = true.
Proof. split; reflexivity. Qed.

(* created_files() *)
Definition files_typed (l : list (path * option op)) : Prop :=
  Forall (fun e => forall o, snd e = Some o -> is_complex o = true) l.

Lemma gen_c_created_files_eq : forall ov c,
  files_typed (c_files c) ->
  gen_c_created_files (of_cache ov c) = CRet (of_cache ov c) (cache_created_files c).
Proof.
  intros ov c H. unfold gen_c_created_files, cache_created_files. cbv zeta.
  change (g_files (of_cache ov c)) with (c_files c).
  generalize (of_cache ov c) as s. intro s. unfold files_typed in H.
  match goal with
  | |- ?L (c_files c) s [] = CRet s (flat_map ?f (c_files c)) =>
      assert (G : forall xs acc, Forall (fun e => forall o, snd e = Some o -> is_complex o = true) xs ->
                                 L xs s acc = CRet s (acc ++ flat_map f xs))
  end.
  { induction xs as [|[p [o|]] r IH]; intros acc Hx.
    - rewrite app_nil_r. reflexivity.
    - inversion Hx as [|? ? H1 H2]; subst. specialize (H1 o eq_refl).
      cbn [flat_map fst snd]. destruct o as [| ? ? ? ? ? ? ? ? ra ? | ? ? ? ? ? ra ?]; try discriminate;
        cbn [op_raised]; destruct ra; cbn [negb app]; rewrite (IH _ H2); try reflexivity;
        rewrite <- app_assoc; reflexivity.
    - inversion Hx as [|? ? H1 H2]; subst. cbn [flat_map fst snd app]. apply (IH _ H2). }
  apply (G _ [] H).
Qed.

(* ================= subbuilds ================= *)
(* the static method takes the record; the model's function its three fields *)
Lemma gen_c_subbuild_key_eq : forall o,
  gen_c_subbuild_key o
  = match o with
    | OSimple _ _ _ => inr (XCrash "AttributeError")
    | OBuildFile _ _ f a k _ _ _ _ _ => inl (subbuild_key f a k)
    | OSubbuild f a k _ _ _ _ => inl (subbuild_key f a k)
    end.
Proof. intros []; reflexivity. Qed.

(* the record is only used for the message; reading it fails on a SimpleOperation *)
Lemma gen_c_priv_assert_doesnt_have_subbuild_eq : forall ov c k o,
  is_complex o = true ->
  gen_c_priv_assert_doesnt_have_subbuild (of_cache ov c) k o
  = if cache_has_subbuild c k then CRaise (of_cache ov c) (XRuntime RDupSubbuild) else CRet (of_cache ov c) tt.
Proof.
  intros ov c k o H. unfold gen_c_priv_assert_doesnt_have_subbuild.
  change (sdict_mem (g_subs (of_cache ov c)) k) with (cache_has_subbuild c k).
  destruct (cache_has_subbuild c k); [|reflexivity]. destruct o; try discriminate; reflexivity.
Qed.

Lemma gen_c_assert_doesnt_have_subbuild_eq : forall ov c k o,
  is_complex o = true ->
  gen_c_assert_doesnt_have_subbuild (of_cache ov c) k o
  = if cache_has_subbuild c k then CRaise (of_cache ov c) (XRuntime RDupSubbuild) else CRet (of_cache ov c) tt.
Proof.
  intros. unfold gen_c_assert_doesnt_have_subbuild. rewrite gen_c_priv_assert_doesnt_have_subbuild_eq by assumption.
  destruct (cache_has_subbuild c k); reflexivity.
Qed.

Lemma gen_c_assert_doesnt_have_subbuild_M : forall ov w k o,
  is_complex o = true ->
  new_assert_no_subbuild k w = run_new w (gen_c_assert_doesnt_have_subbuild (of_cache ov (w_new w)) k o).
Proof.
  intros. rewrite gen_c_assert_doesnt_have_subbuild_eq by assumption.
  unfold new_assert_no_subbuild, bind, get, raise, ret.
  destruct (cache_has_subbuild (w_new w) k); cbn [run_new]; rewrite to_of_cache, set_new_same; reflexivity.
Qed.

Example gen_c_assert_doesnt_have_subbuild_differs :
  let k := PStr "k" in
  let c := {| c_name := ""; c_files := []; c_subs := [(k, None)]; c_dirs := []; c_fvers := PDict []; c_built := [] |} in
  let w := fun w0 => set_new c w0 in
  gen_c_assert_doesnt_have_subbuild (of_cache PNone c) k (OSimple (QExists []) PNone None)
  = CRaise (of_cache PNone c) (XCrash "AttributeError")
  /\ forall w0, snd (new_assert_no_subbuild k (w w0)) = inr (XRuntime RDupSubbuild).
Proof. split; [reflexivity|]. intros []. reflexivity. Qed.

Lemma gen_c_start_subbuild_eq : forall ov c k o,
  is_complex o = true ->
  gen_c_start_subbuild (of_cache ov c) k o
  = if cache_has_subbuild c k then CRaise (of_cache ov c) (XRuntime RDupSubbuild)
    else CRet (of_cache ov (cache_with c (c_files c) (subs_set (c_subs c) k None) (c_dirs c) (c_built c))) tt.
Proof.
  intros. unfold gen_c_start_subbuild. rewrite gen_c_priv_assert_doesnt_have_subbuild_eq by assumption.
  destruct (cache_has_subbuild c k); reflexivity.
Qed.

Lemma gen_c_start_subbuild_M : forall ov w k o,
  is_complex o = true ->
  new_start_subbuild k w = run_new w (gen_c_start_subbuild (of_cache ov (w_new w)) k o).
Proof.
  intros. rewrite gen_c_start_subbuild_eq by assumption.
  unfold new_start_subbuild, new_assert_no_subbuild, bind, get, raise, ret, modify.
  destruct (cache_has_subbuild (w_new w) k); cbn [run_new]; rewrite to_of_cache, ?set_new_same; reflexivity.
Qed.

Lemma gen_c_finish_subbuild_eq : forall ov c k o,
  gen_c_finish_subbuild (of_cache ov c) k o
  = of_cache ov (cache_with c (c_files c) (subs_set (c_subs c) k (Some o)) (c_dirs c) (c_built c)).
Proof. reflexivity. Qed.

Lemma gen_c_finish_subbuild_M : forall ov w k o,
  new_finish_subbuild k o w = (set_new (to_cache (gen_c_finish_subbuild (of_cache ov (w_new w)) k o)) w, inl tt).
Proof. intros. rewrite gen_c_finish_subbuild_eq, to_of_cache. reflexivity. Qed.

(* ================= created directories ================= *)
Lemma gen_c_add_created_dirs_eq : forall ov c ds,
  gen_c_add_created_dirs (of_cache ov c) ds
  = of_cache ov (cache_with c (c_files c) (c_subs c) (union_paths (c_dirs c) ds) (c_built c)).
Proof. reflexivity. Qed.

(* FileBuilder._set_created_dirs stores the directories with add_created_dirs *)
Lemma gen_c_add_created_dirs_M : forall ov w ccd,
  let created := bd_created (w_bd w) in
  let extra := filter (fun d => negb (mem_path d created)) ccd in
  fst (set_created_dirs ccd w)
  = set_new (to_cache (gen_c_add_created_dirs (of_cache ov (w_new w)) (created ++ extra))) w.
Proof. intros. rewrite gen_c_add_created_dirs_eq, to_of_cache. reflexivity. Qed.

(* ================= use_cached_operation ================= *)
Section OpInd.
  Variable P : op -> Prop.
  Hypothesis HS : forall q r e, P (OSimple q r e).
  Hypothesis HB : forall p c f a k subs r cr ra sf, Forall P subs -> P (OBuildFile p c f a k subs r cr ra sf).
  Hypothesis HU : forall f a k subs r ra sf, Forall P subs -> P (OSubbuild f a k subs r ra sf).
  Fixpoint cg_op_ind (o : op) : P o :=
    let go := fix go (l : list op) : Forall P l :=
      match l with [] => Forall_nil _ | x :: xs => Forall_cons _ (cg_op_ind x) (go xs) end in
    match o with
    | OSimple q r e => HS q r e
    | OBuildFile p c f a k subs r cr ra sf => HB p c f a k subs r cr ra sf (go subs)
    | OSubbuild f a k subs r ra sf => HU f a k subs r ra sf (go subs)
    end.
End OpInd.

(* the loop `for suboperation in operation.suboperations: if isinstance(suboperation, ComplexOperation):
   self.<m>(suboperation)` as the translator writes it, with the method abstracted *)
Definition sub_loop (m : gcache -> op -> cres gcache unit) : list op -> gcache -> cres gcache unit :=
  fix loop (xs : list op) (s : gcache) {struct xs} : cres gcache unit :=
    match xs with
    | [] => CRet s tt
    | suboperation :: xs' =>
        match suboperation with
        | OSimple _ _ _ => loop xs' s
        | OBuildFile _ _ _ _ _ _ _ _ _ _ =>
            match m s suboperation with CRaise s e_ => CRaise s e_ | CRet s _ => loop xs' s end
        | OSubbuild _ _ _ _ _ _ _ =>
            match m s suboperation with CRaise s e_ => CRaise s e_ | CRet s _ => loop xs' s end
        end
    end.

(* one unfolding of the two generated Fixpoints *)
Lemma gen_c_priv_assert_no_repeats_unfold : forall s o,
  gen_c_priv_assert_no_repeats s o
  = match o with
    | OSimple _ _ _ => CRaise s (XCrash "AttributeError")
    | OBuildFile p _ _ _ _ subs _ _ _ sf =>
        if negb sf then
          match gen_c_priv_assert_doesnt_have_norm_cased_file s p p with
          | CRaise s e => CRaise s e
          | CRet s _ => sub_loop gen_c_priv_assert_no_repeats subs s
          end
        else sub_loop gen_c_priv_assert_no_repeats subs s
    | OSubbuild f a k subs _ _ sf =>
        if negb sf then
          match gen_c_priv_assert_doesnt_have_subbuild s (subbuild_key f a k) o with
          | CRaise s e => CRaise s e
          | CRet s _ => sub_loop gen_c_priv_assert_no_repeats subs s
          end
        else sub_loop gen_c_priv_assert_no_repeats subs s
    end.
Proof. intros s []; reflexivity. Qed.

Lemma gen_c_priv_use_cached_operation_unfold : forall s o,
  gen_c_priv_use_cached_operation s o
  = match o with
    | OSimple _ _ _ => CRaise s (XCrash "AttributeError")
    | OBuildFile p _ _ _ _ subs _ _ _ sf =>
        if negb sf then
          sub_loop gen_c_priv_use_cached_operation subs
            (set_g_ncfiles (set_g_files s (files_set (g_files s) p (Some o)))
                           (files_set (g_ncfiles (set_g_files s (files_set (g_files s) p (Some o)))) p (Some o)))
        else sub_loop gen_c_priv_use_cached_operation subs s
    | OSubbuild f a k subs _ _ sf =>
        if negb sf then
          sub_loop gen_c_priv_use_cached_operation subs (set_g_subs s (subs_set (g_subs s) (subbuild_key f a k) (Some o)))
        else sub_loop gen_c_priv_use_cached_operation subs s
    end.
Proof. intros s []; reflexivity. Qed.

(* what _assert_no_repeats raises: the kind of the first repeated record, in pre-order *)
Fixpoint first_repeat (c : cache) (o : op) : option rtkind :=
  let go := fix go (l : list op) : option rtkind :=
    match l with
    | [] => None
    | x :: r => match first_repeat c x with Some k => Some k | None => go r end
    end in
  match o with
  | OSimple _ _ _ => None
  | OBuildFile p _ _ _ _ subs _ _ _ sf => if negb sf && cache_has_file c p then Some RDupFile else go subs
  | OSubbuild f a k subs _ _ sf =>
      if negb sf && cache_has_subbuild c (subbuild_key f a k) then Some RDupSubbuild else go subs
  end.
Definition first_repeat_list (c : cache) : list op -> option rtkind :=
  fix go (l : list op) : option rtkind :=
    match l with
    | [] => None
    | x :: r => match first_repeat c x with Some k => Some k | None => go r end
    end.
(* what the model raises *)
Definition top_kind (o : op) : rtkind := match o with OSubbuild _ _ _ _ _ _ _ => RDupSubbuild | _ => RDupFile end.

Lemma first_repeat_unfold : forall c o,
  first_repeat c o
  = match o with
    | OSimple _ _ _ => None
    | OBuildFile p _ _ _ _ subs _ _ _ sf =>
        if negb sf && cache_has_file c p then Some RDupFile else first_repeat_list c subs
    | OSubbuild f a k subs _ _ sf =>
        if negb sf && cache_has_subbuild c (subbuild_key f a k) then Some RDupSubbuild else first_repeat_list c subs
    end.
Proof. intros c []; reflexivity. Qed.

(* the model's boolean is "no repeat" *)
Lemma assert_no_repeats_first_repeat : forall c o,
  assert_no_repeats c o = match first_repeat c o with None => true | Some _ => false end.
Proof.
  intros c o. induction o as [q r e | p cm f a k subs r cr ra sf IH | f a k subs r ra sf IH] using cg_op_ind;
    [reflexivity| |]; rewrite first_repeat_unfold; cbn [assert_no_repeats].
  - destruct sf; cbn [negb orb andb];
      [|destruct (cache_has_file c p); cbn [negb andb]; [reflexivity|]];
      induction IH as [|x l Hx _ IHl]; cbn [forallb first_repeat_list]; try reflexivity;
      rewrite Hx; destruct (first_repeat c x); cbn [andb]; auto.
  - destruct sf; cbn [negb orb andb];
      [|destruct (cache_has_subbuild c (subbuild_key f a k)); cbn [negb andb]; [reflexivity|]];
      induction IH as [|x l Hx _ IHl]; cbn [forallb first_repeat_list]; try reflexivity;
      rewrite Hx; destruct (first_repeat c x); cbn [andb]; auto.
Qed.

Definition anr_spec (ov : pyval) (c : cache) (r : option rtkind) : cres gcache unit :=
  match r with None => CRet (of_cache ov c) tt | Some k => CRaise (of_cache ov c) (XRuntime k) end.

Lemma gen_c_priv_assert_no_repeats_eq : forall ov c o,
  is_complex o = true ->
  gen_c_priv_assert_no_repeats (of_cache ov c) o = anr_spec ov c (first_repeat c o).
Proof.
  intros ov c o. induction o as [q r e | p cm f a k subs r cr ra sf IH | f a k subs r ra sf IH] using cg_op_ind;
    intro Hc; [discriminate| |]; rewrite gen_c_priv_assert_no_repeats_unfold, first_repeat_unfold.
  - assert (L : sub_loop gen_c_priv_assert_no_repeats subs (of_cache ov c) = anr_spec ov c (first_repeat_list c subs)).
    { clear Hc. induction IH as [|x l Hx _ IHl]; [reflexivity|].
      cbn [sub_loop first_repeat_list]. destruct x as [q0 r0 e0| |]; [exact IHl| |];
        rewrite (Hx eq_refl); destruct (first_repeat c _); cbn [anr_spec]; auto. }
    rewrite gen_c_priv_assert_doesnt_have_norm_cased_file_eq.
    destruct sf; cbn [negb andb]; [exact L|]. destruct (cache_has_file c p); [reflexivity|exact L].
  - assert (L : sub_loop gen_c_priv_assert_no_repeats subs (of_cache ov c) = anr_spec ov c (first_repeat_list c subs)).
    { clear Hc. induction IH as [|x l Hx _ IHl]; [reflexivity|].
      cbn [sub_loop first_repeat_list]. destruct x as [q0 r0 e0| |]; [exact IHl| |];
        rewrite (Hx eq_refl); destruct (first_repeat c _); cbn [anr_spec]; auto. }
    rewrite gen_c_priv_assert_doesnt_have_subbuild_eq by reflexivity.
    destruct sf; cbn [negb andb]; [exact L|]. destruct (cache_has_subbuild c _); [reflexivity|exact L].
Qed.

(* _use_cached_operation registers the record, then its children in order: register_op *)
Lemma gen_c_priv_use_cached_operation_eq : forall ov o c,
  is_complex o = true ->
  gen_c_priv_use_cached_operation (of_cache ov c) o = CRet (of_cache ov (register_op c o)) tt.
Proof.
  intros ov o. induction o as [q r e | p cm f a k subs r cr ra sf IH | f a k subs r ra sf IH] using cg_op_ind;
    intros c Hc; [discriminate| |]; rewrite gen_c_priv_use_cached_operation_unfold; cbn [register_op].
  - assert (L : forall c1, sub_loop gen_c_priv_use_cached_operation subs (of_cache ov c1)
                           = CRet (of_cache ov (fold_left register_op subs c1)) tt).
    { clear Hc. induction IH as [|x l Hx _ IHl]; intro c1; [reflexivity|].
      cbn [sub_loop fold_left]. destruct x as [q0 r0 e0| |]; [exact (IHl c1)| |];
        rewrite (Hx c1 eq_refl); apply IHl. }
    destruct sf; cbn [negb]; [apply L|]. apply (L (cache_with c (files_set (c_files c) p _) (c_subs c) (c_dirs c) (c_built c))).
  - assert (L : forall c1, sub_loop gen_c_priv_use_cached_operation subs (of_cache ov c1)
                           = CRet (of_cache ov (fold_left register_op subs c1)) tt).
    { clear Hc. induction IH as [|x l Hx _ IHl]; intro c1; [reflexivity|].
      cbn [sub_loop fold_left]. destruct x as [q0 r0 e0| |]; [exact (IHl c1)| |];
        rewrite (Hx c1 eq_refl); apply IHl. }
    destruct sf; cbn [negb]; [apply L|]. apply (L (cache_with c (c_files c) (subs_set (c_subs c) _ _) (c_dirs c) (c_built c))).
Qed.

Lemma gen_c_use_cached_operation_eq : forall ov c o,
  is_complex o = true ->
  gen_c_use_cached_operation (of_cache ov c) o
  = match first_repeat c o with
    | None => CRet (of_cache ov (register_op c o)) tt
    | Some k => CRaise (of_cache ov c) (XRuntime k)
    end.
Proof.
  intros ov c o H. unfold gen_c_use_cached_operation. rewrite gen_c_priv_assert_no_repeats_eq by exact H.
  destruct (first_repeat c o); cbn [anr_spec]; [reflexivity|].
  rewrite gen_c_priv_use_cached_operation_eq by exact H. reflexivity.
Qed.

(* against Builder.new_use_cached_operation: same success / failure and same state; when a repeat is found both
   raise a RuntimeError, Python the one of the first repeated record, the model the one of the root's class *)
Lemma gen_c_use_cached_operation_M : forall ov w o,
  is_complex o = true ->
  match first_repeat (w_new w) o with
  | None => new_use_cached_operation o w = run_new w (gen_c_use_cached_operation (of_cache ov (w_new w)) o)
  | Some k => new_use_cached_operation o w = (w, inr (XRuntime (top_kind o)))
              /\ run_new w (gen_c_use_cached_operation (of_cache ov (w_new w)) o) = (w, inr (XRuntime k))
  end.
Proof.
  intros ov w o H. rewrite gen_c_use_cached_operation_eq by exact H.
  unfold new_use_cached_operation, bind, get, put, raise. rewrite assert_no_repeats_first_repeat.
  destruct (first_repeat (w_new w) o); cbn [run_new]; rewrite to_of_cache, ?set_new_same.
  - split; [|reflexivity]. destruct o; reflexivity.
  - reflexivity.
Qed.

Corollary gen_c_use_cached_operation_M_same_kind : forall ov w o,
  is_complex o = true ->
  (forall k, first_repeat (w_new w) o = Some k -> k = top_kind o) ->
  new_use_cached_operation o w = run_new w (gen_c_use_cached_operation (of_cache ov (w_new w)) o).
Proof.
  intros ov w o H K. pose proof (gen_c_use_cached_operation_M ov w o H) as G.
  destruct (first_repeat (w_new w) o) as [k|]; [|exact G].
  destruct G as [G1 G2]. rewrite G1, G2, (K k eq_refl). reflexivity.
Qed.

(* a build-file record whose tree holds a subbuild that was already performed *)
Example gen_c_use_cached_operation_kind_differs :
  let sb := OSubbuild "g" (PList []) (PDict []) [] PNone false false in
  let o := OBuildFile ["f"] METADATA "h" (PList []) (PDict []) [sb] PNone PNone false false in
  let c := {| c_name := ""; c_files := []; c_subs := [(subbuild_key "g" (PList []) (PDict []), None)]; c_dirs := [];
              c_fvers := PDict []; c_built := [] |} in
  gen_c_use_cached_operation (of_cache PNone c) o = CRaise (of_cache PNone c) (XRuntime RDupSubbuild)
  /\ forall w0, snd (new_use_cached_operation o (set_new c w0)) = inr (XRuntime RDupFile).
Proof. split; [reflexivity|]. intros []. reflexivity. Qed.

(* a SimpleOperation at the root: AttributeError in Python, a no-op in the model *)
Example gen_c_use_cached_operation_simple_differs :
  let o := OSimple (QExists []) PNone None in
  forall ov c, gen_c_use_cached_operation (of_cache ov c) o = CRaise (of_cache ov c) (XCrash "AttributeError")
               /\ forall w0, new_use_cached_operation o (set_new c w0) = (set_new c w0, inl tt).
Proof.
  intros o ov c. split; [reflexivity|]. intros []. unfold new_use_cached_operation, bind, get, put. cbn.
  destruct c. reflexivity.
Qed.

(* ================= invariant: _built_files has no duplicates =================
   The hypothesis of gen_c_abort_building_file_eq holds in every state the routines can produce from a new
   object: a file name enters _built_files only in start_building_file, after the check that it has no entry
   in _files, and every name in _built_files has an entry in _files. *)
Definition built_ok (c : cache) : Prop :=
  NoDup (c_built c) /\ forall p, In p (c_built c) -> cache_has_file c p = true.
Definition res_ok {A} (r : cres gcache A) : Prop :=
  match r with CRet s _ | CRaise s _ => gc_ok s /\ built_ok (to_cache s) end.

Lemma cg_has_set_same : forall l p o, fdict_mem (files_set l p o) p = true.
Proof.
  unfold fdict_mem. induction l as [|[q o'] r IH]; intros p o; simpl.
  - rewrite cg_path_eqb_refl. reflexivity.
  - destruct (path_eqb q p) eqn:E; simpl; rewrite E; [reflexivity|apply IH].
Qed.

Lemma cg_has_set_mono : forall l p o q, fdict_mem l q = true -> fdict_mem (files_set l p o) q = true.
Proof.
  unfold fdict_mem. induction l as [|[q0 o'] r IH]; intros p o q H; simpl in *; [discriminate|].
  destruct (path_eqb q0 p) eqn:E; simpl; destruct (path_eqb q0 q) eqn:E2; try reflexivity; try exact H.
  apply IH. exact H.
Qed.

Lemma cg_has_del_other : forall l p q, q <> p -> fdict_mem (files_del l p) q = fdict_mem l q.
Proof.
  unfold fdict_mem. induction l as [|[q0 o'] r IH]; intros p q H; simpl; [reflexivity|].
  destruct (path_eqb q0 p) eqn:E; simpl.
  - destruct (path_eqb q0 q) eqn:E2.
    + apply cg_path_eqb_eq in E. apply cg_path_eqb_eq in E2. congruence.
    + apply IH. exact H.
  - destruct (path_eqb q0 q); [reflexivity|]. apply IH. exact H.
Qed.

Lemma cg_in_del : forall p q l, In q (del_path p l) -> In q l /\ q <> p.
Proof.
  induction l as [|x r IH]; simpl; [tauto|].
  destruct (path_eqb x p) eqn:E; simpl; intro H.
  - destruct (IH H). tauto.
  - destruct H as [H|H].
    + subst. split; [tauto|]. intro. subst. rewrite cg_path_eqb_refl in E. discriminate.
    + destruct (IH H). tauto.
Qed.

Lemma cg_nodup_del : forall p l, NoDup l -> NoDup (del_path p l).
Proof.
  induction l as [|x r IH]; simpl; intro H; [constructor|]. inversion H; subst.
  destruct (path_eqb x p); [auto|]. constructor; [|auto]. intro Hin. apply cg_in_del in Hin. tauto.
Qed.

Lemma built_ok_nil : forall c, c_built c = [] -> built_ok c.
Proof. intros c H. unfold built_ok. rewrite H. split; [constructor|]. intros p []. Qed.

Lemma cg_nodup_snoc : forall (p : path) l, NoDup l -> ~ In p l -> NoDup (l ++ [p]).
Proof.
  induction l as [|x r IH]; simpl; intros N Hn.
  - constructor; [tauto|constructor].
  - inversion N as [|? ? Hx Hr]; subst. constructor.
    + rewrite in_app_iff. simpl. intros [Hin|[Heq|[]]]; [tauto|]. apply Hn. left. symmetry. exact Heq.
    + apply IH; [exact Hr|tauto].
Qed.

Lemma built_ok_start : forall c p,
  built_ok c -> cache_has_file c p = false ->
  built_ok (cache_with c (files_set (c_files c) p None) (c_subs c) (c_dirs c) (c_built c ++ [p])).
Proof.
  intros c p [N H] Hp. split; cbn [cache_with c_built c_files].
  - apply cg_nodup_snoc; [exact N|]. intro Hin. rewrite (H p Hin) in Hp. discriminate.
  - intros q Hq. apply in_app_iff in Hq. destruct Hq as [Hq|[Hq|[]]].
    + apply (cg_has_set_mono (c_files c)). apply H. exact Hq.
    + subst. apply (cg_has_set_same (c_files c)).
Qed.

Lemma built_ok_abort : forall c p,
  built_ok c -> built_ok (cache_with c (files_del (c_files c) p) (c_subs c) (c_dirs c) (del_path p (c_built c))).
Proof.
  intros c p [N H]. split; cbn [cache_with c_built c_files].
  - apply cg_nodup_del. exact N.
  - intros q Hq. apply cg_in_del in Hq. destruct Hq as [Hq Hne].
    change (fdict_mem (files_del (c_files c) p) q = true). rewrite cg_has_del_other by exact Hne. apply H. exact Hq.
Qed.

Lemma built_ok_files_set : forall c p o subs dirs,
  built_ok c -> built_ok (cache_with c (files_set (c_files c) p o) subs dirs (c_built c)).
Proof.
  intros c p o subs dirs [N H]. split; [exact N|]. intros q Hq. apply (cg_has_set_mono (c_files c)). apply H. exact Hq.
Qed.

Lemma built_ok_same_files : forall c subs dirs, built_ok c -> built_ok (cache_with c (c_files c) subs dirs (c_built c)).
Proof. intros c subs dirs H. exact H. Qed.

Lemma register_op_built : forall o c,
  c_built (register_op c o) = c_built c
  /\ forall q, cache_has_file c q = true -> cache_has_file (register_op c o) q = true.
Proof.
  induction o as [q r e | p cm f a k subs r cr ra sf IH | f a k subs r ra sf IH] using cg_op_ind; intro c;
    [split; auto| |]; cbn [register_op].
  - assert (L : forall c1, c_built (fold_left register_op subs c1) = c_built c1
                           /\ forall q, cache_has_file c1 q = true -> cache_has_file (fold_left register_op subs c1) q = true).
    { induction IH as [|x l Hx _ IHl]; intro c1; [split; auto|]. cbn [fold_left].
      destruct (IHl (register_op c1 x)) as [A B]. destruct (Hx c1) as [A1 B1]. split; [congruence|auto]. }
    destruct sf; [apply L|]. destruct (L (cache_with c (files_set (c_files c) p (Some (OBuildFile p cm f a k subs r cr ra false))) (c_subs c) (c_dirs c) (c_built c))) as [A B].
    split; [exact A|]. intros q Hq. apply B. apply (cg_has_set_mono (c_files c)). exact Hq.
  - assert (L : forall c1, c_built (fold_left register_op subs c1) = c_built c1
                           /\ forall q, cache_has_file c1 q = true -> cache_has_file (fold_left register_op subs c1) q = true).
    { induction IH as [|x l Hx _ IHl]; intro c1; [split; auto|]. cbn [fold_left].
      destruct (IHl (register_op c1 x)) as [A B]. destruct (Hx c1) as [A1 B1]. split; [congruence|auto]. }
    destruct sf; [apply L|].
    exact (L (cache_with c (c_files c) (subs_set (c_subs c) (subbuild_key f a k) (Some (OSubbuild f a k subs r ra false)))
                         (c_dirs c) (c_built c))).
Qed.

Lemma built_ok_register : forall c o, built_ok c -> built_ok (register_op c o).
Proof.
  intros c o [N H]. destruct (register_op_built o c) as [A B]. split; rewrite A; [exact N|].
  intros q Hq. apply B. apply H. exact Hq.
Qed.

(* every routine that changes the object keeps the two dicts equal and _built_files duplicate-free *)
Lemma gen_c_init_ok : forall nm files subs dirs fv ov mut,
  NoDup (map fst files) ->
  gc_ok (gen_c_init nm files subs dirs fv ov mut) /\ built_ok (to_cache (gen_c_init nm files subs dirs fv ov mut)).
Proof. intros. rewrite gen_c_init_eq by assumption. rewrite to_of_cache. split; [reflexivity|]. apply built_ok_nil. reflexivity. Qed.

Lemma gen_c_start_building_file_ok : forall ov c p, built_ok c -> res_ok (gen_c_start_building_file (of_cache ov c) p).
Proof.
  intros ov c p H. rewrite gen_c_start_building_file_eq. destruct (cache_has_file c p) eqn:E; cbn [res_ok];
    rewrite to_of_cache; (split; [reflexivity|]); [exact H|]. apply built_ok_start; assumption.
Qed.

Lemma gen_c_abort_building_file_ok : forall ov c p,
  built_ok c -> gc_ok (gen_c_abort_building_file (of_cache ov c) p)
                /\ built_ok (to_cache (gen_c_abort_building_file (of_cache ov c) p)).
Proof.
  intros ov c p H. rewrite gen_c_abort_building_file_eq by apply H. rewrite to_of_cache.
  split; [reflexivity|]. apply built_ok_abort. exact H.
Qed.

Lemma gen_c_finish_building_file_ok : forall ov c o, built_ok c -> res_ok (gen_c_finish_building_file (of_cache ov c) o).
Proof.
  intros ov c o H. destruct o as [q r e | p cm f a k subs r cr ra sf | f a k subs r ra sf].
  - cbn. rewrite to_of_cache. split; [reflexivity|exact H].
  - rewrite gen_c_finish_building_file_eq. cbn [res_ok]. rewrite to_of_cache. split; [reflexivity|].
    apply built_ok_files_set. exact H.
  - cbn. rewrite to_of_cache. split; [reflexivity|exact H].
Qed.

Lemma gen_c_start_subbuild_ok : forall ov c k o, built_ok c -> res_ok (gen_c_start_subbuild (of_cache ov c) k o).
Proof.
  intros ov c k o H. unfold gen_c_start_subbuild, gen_c_priv_assert_doesnt_have_subbuild.
  destruct (sdict_mem _ k); [destruct o|]; cbn [res_ok]; (split; [reflexivity|]);
    try (rewrite to_of_cache; exact H).
  change (built_ok (cache_with c (c_files c) (subs_set (c_subs c) k None) (c_dirs c) (c_built c))). exact H.
Qed.

Lemma gen_c_finish_subbuild_ok : forall ov c k o,
  built_ok c -> gc_ok (gen_c_finish_subbuild (of_cache ov c) k o) /\ built_ok (to_cache (gen_c_finish_subbuild (of_cache ov c) k o)).
Proof. intros ov c k o H. rewrite gen_c_finish_subbuild_eq, to_of_cache. split; [reflexivity|exact H]. Qed.

Lemma gen_c_add_created_dirs_ok : forall ov c ds,
  built_ok c -> gc_ok (gen_c_add_created_dirs (of_cache ov c) ds) /\ built_ok (to_cache (gen_c_add_created_dirs (of_cache ov c) ds)).
Proof. intros ov c ds H. rewrite gen_c_add_created_dirs_eq, to_of_cache. split; [reflexivity|exact H]. Qed.

Lemma gen_c_use_cached_operation_ok : forall ov c o,
  is_complex o = true -> built_ok c -> res_ok (gen_c_use_cached_operation (of_cache ov c) o).
Proof.
  intros ov c o Hc H. rewrite gen_c_use_cached_operation_eq by exact Hc.
  destruct (first_repeat c o); cbn [res_ok]; rewrite to_of_cache; (split; [reflexivity|]); [exact H|].
  apply built_ok_register. exact H.
Qed.
