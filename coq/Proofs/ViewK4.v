(* Proofs/ViewK4.v — C04, the link to Core, part 4: Sim3 (ViewK3) when the root function
   starts, and along a query — which records related results, gives the same answer to the
   user and logs the same entry on both sides; in particular the bytes that the running
   function has already written (on disk in the mechanism model, pending in Core) cannot be
   observed: its target is hidden.                                                       *)
From Coq Require Import List String Ascii NArith ZArith Bool Arith Lia.
From FB.Base Require Import PyVal Fs.
From FB.Gen Require Import JsonUtilGen.
From FB.Spec Require Import Prog Ref Oracle Faithful.
From FB.Model Require Import Types Monad CreatedFiles BuildDirs SimpleOps Builder Persist Build Run Frame Core CoreOracle.
From FB.Proofs Require Import FsLemmas CleanLaws JsonLaws CoreLawsChildren CoreLawsJson ReplayLaws FrameLaws CoreLaws1
     ViewDefs ViewLemmas ViewScan ViewQueries ViewAnswers ViewInit ViewClean ViewPres
     ViewXDefs ViewXQuery ViewXMake1 ViewXFail ViewXRun ViewK1 ViewK2 ViewK3.
Import ListNotations.
Open Scope list_scope.

(* ------------------------------------------------------------------ the relation on trees *)
Definition trel (W : list path) (a b : fsT) : Prop :=
  forall p, if mem_path p W then node_equiv (lookup a p) (lookup b p) else lookup a p = lookup b p.

Lemma trel_te : forall W a b, trel W a b -> tree_equiv a b.
Proof.
  intros W a b H p. specialize (H p). destruct (mem_path p W); [exact H|]. rewrite H. apply node_equiv_refl.
Qed.

Lemma trel_exact : forall a b, (forall p, lookup a p = lookup b p) -> trel [] a b.
Proof. intros a b H p. cbn. apply H. Qed.

Lemma trel_ext_l : forall W a a' b, (forall p, lookup a' p = lookup a p) -> trel W a b -> trel W a' b.
Proof. intros W a a' b E H p. specialize (H p). rewrite (E p). exact H. Qed.

Lemma trel_mono : forall W W' a b, (forall p, mem_path p W = true -> mem_path p W' = true) -> trel W a b -> trel W' a b.
Proof.
  intros W W' a b Hs H p. specialize (H p). destruct (mem_path p W) eqn:E.
  - rewrite (Hs p E). exact H.
  - destruct (mem_path p W'); [rewrite H; apply node_equiv_refl|exact H].
Qed.

Lemma Sim3_trel : forall W w s, Sim3 W w s -> trel W (view_fs w) (k_fs s).
Proof. intros W w s H. exact (s3_tree _ _ _ H). Qed.

(* ------------------------------------------------------------------ what a query records *)
Lemma cmp_of_rel : forall c f g, f_bytes f = f_bytes g -> val_rel (cmp_of c f) (cmp_of c g).
Proof.
  intros c f g E. destruct c; cbn [cmp_of].
  - rewrite E. apply vr_meta.
  - rewrite E. apply vr_eq.
Qed.

Definition ans_rel (a b : pyval + errclass) : Prop :=
  match a, b with
  | inl v, inl v' => val_rel v v'
  | inr c, inr c' => c = c'
  | _, _ => False
  end.

Lemma record_answer_trel : forall W a b q, trel W a b -> ans_rel (record_answer a q) (record_answer b q).
Proof.
  intros W a b q H. pose proof (trel_te _ _ _ H) as TE.
  assert (Hraw: forall q0, record_answer a q0 = spec_answer_raw a q0 -> record_answer b q0 = spec_answer_raw b q0 ->
                ans_rel (record_answer a q0) (record_answer b q0)).
  { intros q0 E1 E2. rewrite E1, E2, (spec_answer_raw_te a b q0 TE). destruct (spec_answer_raw b q0); cbn; [apply vr_eq|reflexivity]. }
  destruct q as [p|p|p|p|p td|p|p c]; try (apply Hraw; reflexivity).
  cbn [record_answer]. pose proof (H p) as Hp. pose proof (TE p) as Tp.
  destruct (lookup a p) as [[f|]|] eqn:Ea; destruct (lookup b p) as [[g|]|] eqn:Eb; cbn in Tp; try contradiction; cbn [ans_rel].
  - apply cmp_of_rel. exact Tp.
  - reflexivity.
  - unfold stat_err. rewrite (absent_err_te a b p TE). reflexivity.
Qed.

Lemma record_of_rel : forall q x y, ans_rel x y -> rec_rel (record_of q x) (record_of q y).
Proof.
  intros q [v|c] [v'|c'] H; cbn in H; try contradiction; cbn [record_of rec_rel].
  - auto.
  - subst c'. split; [reflexivity|]. split; [apply vr_eq|reflexivity].
Qed.

(* ------------------------------------------------------------------ a query *)
Lemma vis_log_cons_answer : forall q a l, vis_log (LAnswer q a :: l) = LAnswer q a :: vis_log l.
Proof. reflexivity. Qed.

Theorem sim3_query : forall T W w s q w1 r o,
  Sim3 W w s -> RInv T w -> path_ok (spec_query_path q) = true ->
  (forall p td, q = QWalk p td -> vdir w p = true -> maxlen (w_fs w) < walk_fuel + List.length p) ->
  (forall p c, q = QRead p c -> c = METADATA \/ hash_ok w) ->
  m_query q w = (w1, (r, o)) ->
  let a := spec_answer (k_fs s) q in
  let ua := match a with inl v => inl v | inr c => inr (XOS c) end in
  (exists o', o = Some o' /\ rec_rel o' (record_of q (record_answer (k_fs s) q))) /\
  user_answer q r w1 = ua /\
  Sim3 W (log_answer q ua w1) (klog (LAnswer q a) s) /\
  RInv T (log_answer q ua w1) /\ w_fs (log_answer q ua w1) = w_fs w /\ w_new (log_answer q ua w1) = w_new w.
Proof.
  intros T W w s q w1 r o HS HR Hp Hwalk Hread H a ua.
  pose proof (RInv_X _ _ HR) as HX. pose proof (x_binv _ _ HX) as HB.
  destruct (exec_query_view w q HB Hp Hwalk Hread) as [w' [E G]].
  pose proof (Sim3_trel _ _ _ HS) as HT. pose proof (trel_te _ _ _ HT) as TE.
  pose proof (record_answer_trel W _ _ q HT) as Hrec.
  pose proof (spec_answer_te _ _ q TE) as Hspec. fold a in Hspec.
  unfold m_query in H. rewrite E in H.
  pose proof (query_footprint _ _ _ _ _ E) as (A1 & A2 & A3 & A4 & A5 & A6 & A7 & A8 & A9 & A10 & A11).
  assert (HR1: RInv T w') by (apply (qrel_RInv T _ _ (exec_query_q _ _ _ _ _ E) HR)).
  assert (Hview: forall p, lookup (view_fs w') p = lookup (view_fs w) p) by (intro p; rewrite (same_view_view_fs _ _ (good_sv _ _ G)); reflexivity).
  (* Sim3 after logging *)
  assert (Hsim: forall lg, Sim3 W (set_log (lg :: w_log w') w') (klog lg s)).
  { intro lg. destruct HS as [S1 S2 S3 S4 S5 S6 S7 S8 S9 S10].
    constructor; cbn [klog ks_with k_fs k_cachefile k_old k_vers k_claimedF k_claimedS k_log k_newF k_newS k_stale
                           w_cachefile w_old w_new w_log w_fs set_log].
    - intro p. specialize (S1 p). change (view_fs (set_log (lg :: w_log w') w')) with (view_fs w'). rewrite (Hview p). exact S1.
    - congruence.
    - congruence.
    - intro f. rewrite A5. apply S4.
    - intro p. rewrite A5. apply S5.
    - intro k. rewrite A5. apply S6.
    - destruct lg; cbn [vis_log filter]; rewrite A9; fold (vis_log (w_log w)); fold (vis_log (k_log s)); rewrite S7; reflexivity.
    - intro p. rewrite A5. apply S8.
    - intro k. rewrite A5. apply S9.
    - intro p. rewrite A1, A4, A5. apply S10. }
  assert (HRl: forall lg, RInv T (set_log (lg :: w_log w') w')).
  { intro lg. eapply RInv_fields; [exact HR1|..]; reflexivity. }
  (* the raw result on the view *)
  destruct (record_answer (view_fs w) q) as [v|c] eqn:Ea; cbn [to_res] in H.
  - inversion H; subst w1 r o.
    destruct (record_answer (k_fs s) q) as [v'|c'] eqn:Eb; cbn [ans_rel] in Hrec; [|contradiction].
    split; [eexists; split; [reflexivity|]; cbn [record_of rec_rel]; auto|].
    (* the answer to the user *)
    assert (Hua: user_answer q (inl v) w' = ua /\ exists u, ua = inl u).
    { unfold ua. destruct q as [p|p|p|p|p td|p|p c];
        try (match goal with |- user_answer ?q0 _ _ = _ /\ _ =>
               assert (K: spec_answer (view_fs w) q0 = inl v) by (unfold spec_answer; cbn [record_answer] in Ea; rewrite Ea; reflexivity) end;
             rewrite Hspec in K; rewrite K; split; [reflexivity|eauto]).
      (* read: the content of the visible file *)
      cbn [record_answer] in Ea. destruct (lookup (view_fs w) p) as [[f|]|] eqn:El; try discriminate.
      assert (Hfs: lookup (w_fs w') p = Some (NFile f)).
      { rewrite A1. destruct p as [|n d]; [cbn in El; discriminate|]. rewrite lookup_view in El by discriminate.
        destruct (visible w (n :: d)); [exact El|discriminate]. }
      unfold user_answer, canon_err. cbv beta iota zeta. rewrite Hfs.
      destruct (te_file _ _ _ _ TE El) as (g & Eg & Ebytes).
      unfold a, spec_answer. cbn [spec_answer_raw]. rewrite Eg. rewrite Ebytes. split; [reflexivity|eauto]. }
    destruct Hua as [Hua [u Eu]]. split; [exact Hua|]. rewrite Eu. cbn [log_answer].
    assert (Ea': a = inl u) by (unfold ua in Eu; destruct a; inversion Eu; reflexivity).
    rewrite Ea'. split; [apply Hsim|]. split; [apply HRl|]. split; [exact A1|exact A5].
  - inversion H; subst w1 r o.
    destruct (record_answer (k_fs s) q) as [v'|c'] eqn:Eb; cbn [ans_rel] in Hrec; [contradiction|]. subst c'.
    split; [eexists; split; [reflexivity|]; cbn [record_of rec_rel]; split; [reflexivity|split; [apply vr_eq|reflexivity]]|].
    assert (K: spec_answer (view_fs w) q = inr c).
    { pose proof (answer_err _ _ _ Ea) as K. rewrite K. unfold user_class. rewrite Hp. reflexivity. }
    rewrite Hspec in K. unfold ua. rewrite K.
    assert (Hua: user_answer q (inr (XOS c)) w' = inr (XOS c)).
    { unfold user_answer. cbn [canon_err]. rewrite spec_query_path_eq, Hp. destruct q; reflexivity. }
    split; [exact Hua|]. cbn [log_answer]. split; [apply Hsim|]. split; [apply HRl|]. split; [exact A1|exact A5].
Qed.

(* the bytes that the running function has written are not observable: its target is hidden,
   so the view (hence every answer, by sim3_query) shows no regular file there *)
Lemma in_progress_hidden : forall w p, files_get (c_files (w_new w)) p = Some None -> isfile (view_fs w) p = false.
Proof.
  intros w p H. rewrite isfile_view. unfold vfile, hid, cache_has_file, cache_get_file. rewrite H. cbn.
  rewrite orb_true_r. apply andb_false_r.
Qed.

Corollary pending_not_observable : forall tg pend w p, pend_rel tg pend w -> tg = Some p ->
  isfile (view_fs w) p = false /\ spec_answer (view_fs w) (QIsFile p) = inl (PBool false).
Proof.
  intros tg pend w p H ->. cbn [pend_rel] in H. destruct H as [H _].
  pose proof (in_progress_hidden w p H) as K. split; [exact K|]. unfold spec_answer. cbn [spec_answer_raw]. rewrite K. reflexivity.
Qed.

(* ------------------------------------------------------------------ when the root function starts *)
Definition ccf (l : list (path * option op)) : list path :=
  flat_map (fun e => match snd e with Some o => if op_raised o then [] else [fst e] | None => [] end) l.

Lemma ccf_keys : forall l p, mem_path p (ccf l) = true -> mem_path p (map fst l) = true.
Proof.
  induction l as [|[q o] l IH]; intros p H; [discriminate|]. cbn [ccf flat_map snd fst map mem_path] in *.
  rewrite mem_path_app in H. apply orb_true_iff in H. destruct H as [H|H].
  - destruct o as [o|]; [destruct (op_raised o)|]; cbn in H; try discriminate.
    rewrite orb_false_r in H. rewrite H. reflexivity.
  - fold (ccf l) in H. rewrite (IH p H). apply orb_true_r.
Qed.

Lemma ccf_mem : forall l p, NoDup (map fst l) ->
  mem_path p (ccf l) = match files_get l p with Some (Some o) => negb (op_raised o) | _ => false end.
Proof.
  induction l as [|[q o] l IH]; intros p Hnd; [reflexivity|].
  cbn [map fst] in Hnd. inversion Hnd as [|x r Hnotin Hnd']; subst.
  cbn [ccf flat_map snd fst files_get]. fold (ccf l). rewrite mem_path_app.
  destruct (path_eqb q p) eqn:E.
  - apply path_eqb_eq in E. subst q.
    assert (Hr: mem_path p (ccf l) = false).
    { destruct (mem_path p (ccf l)) eqn:K; [|reflexivity]. apply ccf_keys in K. exfalso. apply Hnotin.
      apply mem_path_In. exact K. }
    rewrite Hr, orb_false_r. destruct o as [o|]; [destruct (op_raised o)|]; cbn; rewrite ?path_eqb_refl; reflexivity.
  - rewrite (IH p Hnd').
    assert (Hl: mem_path p (match o with Some o0 => if op_raised o0 then [] else [q] | None => [] end) = false).
    { destruct o as [o|]; [destruct (op_raised o)|]; cbn; rewrite ?E; reflexivity. }
    rewrite Hl. reflexivity.
Qed.

Lemma created_mem : forall c p, NoDup (map fst (c_files c)) ->
  mem_path p (cache_created_files c) = cache_created_file c p.
Proof.
  intros c p H. unfold cache_created_files, cache_created_file, cache_get_file. fold (ccf (c_files c)).
  rewrite (ccf_mem _ p H). destruct (files_get (c_files c) p) as [[o|]|]; reflexivity.
Qed.

Definition stale_of (fs : fsT) (outs : list path) : list (path * fnode) :=
  flat_map (fun p => match lookup fs p with Some (NFile f) => [(p, f)] | _ => [] end) outs.

Lemma stale_of_get : forall fs outs p,
  stale_get (stale_of fs outs) p =
  if mem_path p outs then match lookup fs p with Some (NFile f) => Some f | _ => None end else None.
Proof.
  intros fs outs p. induction outs as [|q outs IH]; [reflexivity|]. cbn [stale_of flat_map mem_path]. fold (stale_of fs outs).
  destruct (path_eqb q p) eqn:E.
  - apply path_eqb_eq in E. subst q. cbn [orb].
    destruct (lookup fs p) as [[f|]|] eqn:El; cbn [app stale_get]; rewrite ?path_eqb_refl; try reflexivity;
      rewrite IH; destruct (mem_path p outs); reflexivity.
  - cbn [orb]. destruct (lookup fs q) as [[f|]|]; cbn [app stale_get]; rewrite ?E; exact IH.
Qed.

(* Core's state at the start of the root function, as core_build builds it (the log is the
   log of the mechanism world: Core only appends to it) *)
Definition core_start (fs : fsT) (cachefile : path) (old : cache) (svers : pyval) (clock nextid : N) (lg : list logentry) : kstate :=
  let pv := prev_of_cache old in
  let t0 := ref_clean fs cachefile pv in
  {| k_fs := t0; k_stale := stale_of fs (pv_outputs pv);
     k_staledirs := filter (fun d => isdir fs d && negb (isdir t0 d)) (pv_dirs pv);
     k_claimedF := []; k_claimedS := []; k_need := []; k_made := []; k_clock := clock; k_nextid := nextid;
     k_log := lg; k_cachefile := cachefile; k_old := old; k_vers := svers; k_newF := []; k_newS := [] |}.

Theorem sim3_start : forall w cachefile old nm svers,
  fs_wf (w_fs w) -> old_ok old cachefile -> w_faults w = [] -> path_ok (dirname cachefile) = true ->
  vdir (start_world w cachefile old nm svers) (dirname cachefile) = true ->
  exists w1,
    make_dirs (dirname cachefile) (start_world w cachefile old nm svers) = (w1, inl []) /\
    missing_dirs (ref_clean (w_fs w) cachefile (prev_of_cache old)) cachefile (dirname cachefile) = inl [] /\
    Sim3 [] (set_log (LInvoke "<root>" None PNone PNone :: w_log w1) w1)
         (core_start (w_fs w) cachefile old svers (w_clock w) (w_nextid w) (LInvoke "<root>" None PNone PNone :: w_log w1)).
Proof.
  intros w cachefile old nm svers Hwf Hok HF Hp Hd.
  destruct (sim_start w cachefile old nm svers svers Hwf Hok HF Hp Hd) as (w1 & s0 & E & Hmiss & Ek & _ & _ & _ & _ & HS).
  exists w1. split; [exact E|]. split; [exact Hmiss|].
  destruct HS as [S1 S2 S3 S4 S5 S6 S7].
  cbn [k_fs k_cachefile k_old k_claimedF k_clock k_nextid k_log w_cachefile w_old w_new w_clock w_nextid w_log set_log] in *.
  (* what _make_dirs left untouched *)
  assert (Hw1: w_fs w1 = w_fs w /\ w_new w1 = Persist.empty_cache nm svers /\ w_old w1 = old /\ w_cachefile w1 = cachefile).
  { unfold make_dirs in E. apply bind_inv in E. destruct E as [[wa [ds [Eds E]]]|[e [_ E]]]; [|discriminate].
    apply bind_inv in E. destruct E as [[wb [u [El E]]]|[e [_ E]]]; [|discriminate]. inversion E; subst wb ds.
    cbn in El. inversion El; subst wa. pose proof (dirs_to_make_svb _ _ _ _ _ Eds) as (B1 & _ & _ & B4 & B5 & _ & _ & B8 & _).
    cbn in B1, B4, B5, B8. auto. }
  destruct Hw1 as (F1 & F2 & F3 & F4).
  constructor; cbn [core_start k_fs k_cachefile k_old k_vers k_claimedF k_claimedS k_log k_newF k_newS k_stale
                               w_cachefile w_old w_new w_log w_fs set_log].
  - intro p. cbn [mem_path]. rewrite <- Ek. apply S1.
  - congruence.
  - congruence.
  - intro f. rewrite F2. reflexivity.
  - intro p. rewrite F2. reflexivity.
  - intro k. rewrite F2. reflexivity.
  - reflexivity.
  - intro p. rewrite F2. reflexivity.
  - intro k. rewrite F2. reflexivity.
  - intro p. rewrite stale_of_get. cbn [prev_of_cache pv_outputs]. rewrite (created_mem old p (oo_keys _ _ Hok)).
    rewrite F1, F2, F3. destruct (lookup (w_fs w) p) as [[f|]|]; destruct (cache_created_file old p); reflexivity.
Qed.

Print Assumptions sim3_query.
Print Assumptions sim3_start.
