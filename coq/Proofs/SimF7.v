(* Proofs/SimF7.v — the class okc survives the write/read cycle of the cache file: when the
   tables of c' are, entry by entry, the normal forms (PersistSpec.norm_op: values after
   json.dumps(sort_keys)/json.load) of the tables of c, as CacheRTMain.cache_roundtrip gives for a
   writable cache whose tables come from its forest, then okc c1 c -> okc c1 c'.
   [okc_readback], [okc_roundtrip].                                                         *)
From Coq Require Import List String Ascii NArith ZArith Bool Arith Lia Permutation.
From FB.Base Require Import PyVal Fs.
From FB.Gen Require Import JsonUtilGen.
From FB.Spec Require Import JsonSpec Prog Ref Oracle Faithful.
From FB.Model Require Import Types Monad CreatedFiles BuildDirs SimpleOps Builder Persist PersistSpec Build Run Frame Core CoreOracle.
From FB.Proofs Require Import FsLemmas JsonLaws PersistLaws CacheRTDefs CacheRTTables CacheRTMain ReplayLaws BuildFileLaws CoreLaws1 CoreLaws2 CoreLaws3 CoreLaws4
     CoreNextRegs CoreNextState
     HashMemoInv ViewDefs ViewLemmas ViewInit ViewXDefs ViewH4 ViewH6 ViewR2 ViewR3 ViewR8 ViewK3 ViewK4 ViewK8
     SimA0 SimA2Base SimAMain SimB2 SimB7 SimB9 SimB11 SimC0 SimC5 SimC12 SimC14 SimC15 SimD5 SimD7.
Import ListNotations.
Open Scope list_scope.

(* ------------------------------------------------------------------ values *)
Lemma pv_wf_sort_deep : forall v, pv_wf v = true -> pv_wf (sort_deep v) = true.
Proof.
  induction v using pyval_ind'; intro Hs; try exact Hs.
  - rewrite sort_deep_list_eq. rewrite pv_wf_list in *.
    rewrite Forall_forall in H. rewrite forallb_forall in *.
    intros y Hy. apply in_map_iff in Hy. destruct Hy as [x [<- Hx]]. apply H; auto.
  - change (sort_deep (PTuple l)) with (PTuple (map sort_deep l)). rewrite pv_wf_tuple in *.
    rewrite Forall_forall in H. rewrite forallb_forall in *.
    intros y Hy. apply in_map_iff in Hy. destruct Hy as [x [<- Hx]]. apply H; auto.
  - rewrite sort_deep_dict_eq. rewrite pv_wf_dict in *.
    rewrite <- (forallb_perm _ _ _ (sorted_vmap_perm sort_deep d)).
    rewrite Forall_forall in H. rewrite forallb_forall in *.
    intros y Hy. apply in_map_iff in Hy. destruct Hy as [[k x] [<- Hx]]. cbn [vmap fst snd].
    specialize (Hs _ Hx). cbn [fst snd] in Hs. apply andb_true_iff in Hs. destruct Hs as [S1 S2].
    rewrite S1. cbn [andb]. destruct (H _ Hx) as [_ Hsnd]. exact (Hsnd S2).
Qed.

Lemma norm_args : forall a, sanitized a = true -> pv_wf a = true ->
  sanitized (norm_val a) = true /\ pv_wf (norm_val a) = true.
Proof.
  intros a S W. rewrite (norm_val_sort_deep a S). split; [exact (sort_deep_sanitized a S)|exact (pv_wf_sort_deep a W)].
Qed.

Lemma older_norm : forall c1 rt, older c1 rt = true -> older c1 (norm_val rt) = true.
Proof.
  intros c1 rt H. destruct rt as [| b | z | f | s | l | l | d | o]; try discriminate; [reflexivity|].
  destruct d as [|[k1 s] [|[k2 t] [|]]]; try discriminate;
  destruct k1; try discriminate; try (destruct k2; try discriminate; destruct t; try discriminate). cbn [older] in H.
  apply andb_true_iff in H. destruct H as [H H3]. apply andb_true_iff in H. destruct H as [H1 H2].
  apply String.eqb_eq in H1. apply String.eqb_eq in H2. subst.
  unfold norm_val. rewrite sanitize_dict_eq. cbn [san_dict].
  destruct (sanitize s) as [s'|]; cbn [obind].
  2:{ cbn [older]. rewrite H3. reflexivity. }
  cbn. assert (E: str_leb "size" "timeNs" = true) by (vm_compute; reflexivity). rewrite E. rewrite H3. reflexivity.
Qed.

(* ------------------------------------------------------------------ records *)
Lemma fb_map : forall (f g : op -> bool) l, (forall x, In x l -> f (norm_op x) = g x) -> forallb f (map norm_op l) = forallb g l.
Proof.
  intros f g l. induction l as [|x l IH]; intro H; [reflexivity|]. cbn [map forallb].
  rewrite (H x (or_introl eq_refl)), IH; [reflexivity|]. intros y Hy. apply H. right. exact Hy.
Qed.

Lemma fb_map_imp : forall (f g : op -> bool) l, (forall x, In x l -> g x = true -> f (norm_op x) = true) ->
  forallb g l = true -> forallb f (map norm_op l) = true.
Proof.
  intros f g l. induction l as [|x l IH]; intros H K; [reflexivity|]. cbn [map forallb] in *.
  apply andb_true_iff in K. destruct K as [K1 K2].
  rewrite (H x (or_introl eq_refl) K1), IH; [reflexivity| |exact K2]. intros y Hy. apply H. right. exact Hy.
Qed.

Lemma rec_ok_norm : forall hk o st, rec_ok hk st (norm_op o) = rec_ok hk st o.
Proof.
  intro hk. induction o as [q r e|p c f a k subs r cr ra sf IH|f a k subs r ra sf IH] using op_ind'; intro st; cbn [norm_op rec_ok].
  - reflexivity.
  - rewrite pnone_norm. f_equal. apply fb_map. rewrite Forall_forall in IH. intros x Hx. apply IH. exact Hx.
  - apply fb_map. rewrite Forall_forall in IH. intros x Hx. apply IH. exact Hx.
Qed.

Lemma calm_norm' : forall o, SimC0.calm (norm_op o) = SimC0.calm o.
Proof.
  induction o as [q r e|p c f a k subs r cr ra sf IH|f a k subs r ra sf IH] using op_ind'; cbn [norm_op SimC0.calm].
  - reflexivity.
  - f_equal. apply fb_map. rewrite Forall_forall in IH. intros x Hx. apply IH. exact Hx.
  - apply fb_map. rewrite Forall_forall in IH. intros x Hx. apply IH. exact Hx.
Qed.

Lemma flat_map_norm : forall {B} (g : op -> list B) subs, (forall x, In x subs -> g (norm_op x) = g x) ->
  flat_map g (map norm_op subs) = flat_map g subs.
Proof.
  intros B g subs. induction subs as [|x l IH]; intro H; [reflexivity|]. cbn [map flat_map].
  rewrite (H x (or_introl eq_refl)), IH; [reflexivity|]. intros y Hy. apply H. right. exact Hy.
Qed.

Lemma regp_norm : forall o, regp (norm_op o) = regp o.
Proof.
  induction o as [q r e|p c f a k subs r cr ra sf IH|f a k subs r ra sf IH] using op_ind'; cbn [norm_op regp].
  - reflexivity.
  - f_equal. apply flat_map_norm. rewrite Forall_forall in IH. exact IH.
  - apply flat_map_norm. rewrite Forall_forall in IH. exact IH.
Qed.

Lemma flat_nodes_norm : forall subs, (forall x, In x subs -> nodes (norm_op x) = map norm_op (nodes x)) ->
  flat_map nodes (map norm_op subs) = map norm_op (flat_map nodes subs).
Proof.
  induction subs as [|x l IH]; intro H; [reflexivity|]. cbn [map flat_map].
  rewrite map_app, (H x (or_introl eq_refl)), IH; [reflexivity|]. intros y Hy. apply H. right. exact Hy.
Qed.

Lemma nodes_norm : forall o, nodes (norm_op o) = map norm_op (nodes o).
Proof.
  induction o as [q r e|p c f a k subs r cr ra sf IH|f a k subs r ra sf IH] using op_ind'; cbn [norm_op nodes map].
  - reflexivity.
  - f_equal. apply flat_nodes_norm. rewrite Forall_forall in IH. exact IH.
  - f_equal. apply flat_nodes_norm. rewrite Forall_forall in IH. exact IH.
Qed.

(* the keys of a tree: unchanged when the recorded arguments are sanitized *)
Definition argsok (x : op) : bool :=
  match x with OSubbuild _ a k _ _ _ _ => sanitized a && sanitized k | _ => true end.

Lemma cll_norm_aux : forall subs,
  Forall (fun o => forallb argsok (nodes o) = true -> tree_claims (norm_op o) = tree_claims o) subs ->
  forallb argsok (flat_map nodes subs) = true -> cll (map norm_op subs) = cll subs.
Proof.
  intros subs H. induction H as [|x l Hx Hl IH]; intro K; [reflexivity|]. cbn [map flat_map] in *.
  rewrite forallb_app in K. apply andb_true_iff in K. destruct K as [K1 K2].
  rewrite !cll_cons, (Hx K1), (IH K2). reflexivity.
Qed.

Lemma claims_norm : forall o, forallb argsok (nodes o) = true -> tree_claims (norm_op o) = tree_claims o.
Proof.
  induction o as [q r e|p c f a k subs r cr ra sf IH|f a k subs r ra sf IH] using op_ind'; intro H; cbn [norm_op].
  - reflexivity.
  - cbn [nodes forallb argsok andb] in H. rewrite !tree_claims_BF, (cll_norm_aux subs IH H). reflexivity.
  - cbn [nodes forallb argsok] in H. apply andb_true_iff in H. destruct H as [H1 H2].
    apply andb_true_iff in H1. destruct H1 as [S1 S2].
    rewrite !tree_claims_SB, (cll_norm_aux subs IH H2), (subbuild_key_norm f a k S1 S2). reflexivity.
Qed.

Lemma cll_norm : forall subs, forallb argsok (flat_map nodes subs) = true -> cll (map norm_op subs) = cll subs.
Proof.
  intros subs H. apply cll_norm_aux; [|exact H]. apply Forall_forall. intros x _. apply claims_norm.
Qed.

Lemma node_static_argsok : forall c c1 x, node_static c c1 x = true -> argsok x = true.
Proof.
  intros c c1 [q r e|p c' f a k subs r cr ra sf|f a k subs r ra sf] H; cbn [argsok]; try reflexivity.
  cbn [node_static] in H. apply andb_true_iff in H. destruct H as [H _]. apply andb_true_iff in H. destruct H as [H _]. exact H.
Qed.

Lemma node_static_norm : forall c c' c1 x, (forall p, cache_created_file c' p = cache_created_file c p) ->
  node_static c c1 x = true -> node_static c' c1 (norm_op x) = true.
Proof.
  intros c c' c1 [q r e|p c0 f a k subs r cr ra sf|f a k subs r ra sf] Hc H; cbn [norm_op node_static] in *.
  - destruct q as [x|x|x|x|x tf|x|x cm]; try reflexivity. destruct cm; try reflexivity. apply older_norm. exact H.
  - rewrite Hc. exact H.
  - apply andb_true_iff in H. destruct H as [H W2]. apply andb_true_iff in H. destruct H as [H W1].
    apply andb_true_iff in H. destruct H as [S1 S2].
    destruct (norm_args a S1 W1) as [A1 A2]. destruct (norm_args k S2 W2) as [B1 B2]. rewrite A1, A2, B1, B2. reflexivity.
Qed.

Lemma subs_static_norm : forall c c' c1 p0 subs, (forall p, cache_created_file c' p = cache_created_file c p) ->
  subs_static c c1 p0 subs = true -> subs_static c' c1 p0 (map norm_op subs) = true.
Proof.
  intros c c' c1 p0 subs Hc H. unfold subs_static in *.
  apply andb_true_iff in H. destruct H as [H H7]. apply andb_true_iff in H. destruct H as [H H6].
  apply andb_true_iff in H. destruct H as [H H5]. apply andb_true_iff in H. destruct H as [H H4].
  apply andb_true_iff in H. destruct H as [H H3]. apply andb_true_iff in H. destruct H as [H1 H2].
  assert (Ha : forallb argsok (flat_map nodes subs) = true).
  { rewrite forallb_forall in *. intros x Hx. exact (node_static_argsok _ _ _ (H3 x Hx)). }
  rewrite (fb_map _ (rec_ok false (ostack p0)) subs (fun x _ => rec_ok_norm false x _)), H1.
  rewrite (fb_map _ SimC0.calm subs (fun x _ => calm_norm' x)), H2.
  rewrite (flat_nodes_norm subs (fun x _ => nodes_norm x)).
  rewrite (fb_map_imp (node_static c' c1) (node_static c c1) _ (fun x _ K => node_static_norm c c' c1 x Hc K) H3).
  rewrite (flat_map_norm regp subs (fun x _ => regp_norm x)), H4, H5.
  rewrite (cll_norm subs Ha), H6.
  rewrite (fb_map _ wfrec subs (fun x _ => wfrec_norm x)), H7. reflexivity.
Qed.

Lemma frec_static_norm : forall c c' c1 p rec, (forall p, cache_created_file c' p = cache_created_file c p) ->
  frec_static c c1 p rec = true -> frec_static c' c1 p (norm_op rec) = true.
Proof.
  intros c c' c1 p [q r e|p' c0 f a k subs r cr ra sf|f a k subs r ra sf] Hc H; cbn [norm_op frec_static] in *; try reflexivity.
  apply andb_true_iff in H. destruct H as [H1 H2]. rewrite H1. cbn [andb].
  destruct ra; [reflexivity|]. cbn [orb] in *.
  apply andb_true_iff in H2. destruct H2 as [H2 H5]. rewrite pnone_norm, H2. cbn [andb].
  exact (subs_static_norm c c' c1 (Some p) subs Hc H5).
Qed.

Lemma srec_static_norm : forall c c' c1 q rec, (forall p, cache_created_file c' p = cache_created_file c p) ->
  srec_static c c1 q rec = true -> srec_static c' c1 q (norm_op rec) = true.
Proof.
  intros c c' c1 q [q0 r e|p' c0 f a k subs r cr ra sf|f a k subs r ra sf] Hc H; cbn [norm_op srec_static] in *; try reflexivity.
  destruct ra; [reflexivity|]. cbn [orb] in *.
  apply andb_true_iff in H. destruct H as [H H7]. apply andb_true_iff in H. destruct H as [H H6].
  apply andb_true_iff in H. destruct H as [H W2]. apply andb_true_iff in H. destruct H as [H W1].
  apply andb_true_iff in H. destruct H as [H S2]. apply andb_true_iff in H. destruct H as [H1 S1].
  destruct (norm_args a S1 W1) as [A1 A2]. destruct (norm_args k S2 W2) as [B1 B2].
  assert (Ha : forallb argsok (flat_map nodes subs) = true).
  { unfold subs_static in H1. apply andb_true_iff in H1. destruct H1 as [H1 _]. apply andb_true_iff in H1. destruct H1 as [H1 _].
    apply andb_true_iff in H1. destruct H1 as [H1 _]. apply andb_true_iff in H1. destruct H1 as [H1 _].
    apply andb_true_iff in H1. destruct H1 as [_ H3].
    rewrite forallb_forall in *. intros x Hx. exact (node_static_argsok _ _ _ (H3 x Hx)). }
  rewrite (subs_static_norm c c' c1 None subs Hc H1), A1, A2, B1, B2, (subbuild_key_norm f a k S1 S2), H6, (cll_norm subs Ha), H7.
  reflexivity.
Qed.

(* ------------------------------------------------------------------ the class *)
Theorem okc_readback : forall c c' c1,
  (forall p, cache_get_file c' p = option_map norm_op (cache_get_file c p)) ->
  (forall p, cache_created_file c' p = cache_created_file c p) ->
  (forall k, subs_get (c_subs c') k = option_map (option_map norm_op) (subs_get (c_subs c) k)) ->
  okc c1 c -> okc c1 c'.
Proof.
  intros c c' c1 T1 T2 T3 [HF HS]. split.
  - intros p rec H. rewrite T1 in H. destruct (cache_get_file c p) as [o|] eqn:E; [|discriminate].
    inversion H; subst. exact (frec_static_norm c c' c1 p o T2 (HF _ _ E)).
  - intros k rec H. rewrite T3 in H. destruct (subs_get (c_subs c) k) as [[o|]|] eqn:E; try discriminate.
    inversion H; subst. destruct (HS _ _ E) as (q & Q1 & Q2). exists q. split; [exact Q1|].
    exact (srec_static_norm c c' c1 q o T2 Q2).
Qed.

(* with CacheRTMain.cache_roundtrip: what a committed cache of the class is, in the next build *)
Theorem okc_roundtrip : forall c roots c1, writable c roots -> tables_from_forest c roots -> okc c1 c ->
  exists j c', cache_to_json c = Some j /\ cache_of_json (Some j) = ReadOk c' /\ okc c1 c'.
Proof.
  intros c roots c1 W TF H.
  destruct (cache_roundtrip c roots W) as (j & c' & J1 & J2 & _ & _ & _ & _ & _ & _ & _ & _ & _ & _ & _ & HT & _).
  destruct (HT TF) as (T1 & T2 & T3).
  exists j, c'. split; [exact J1|]. split; [exact J2|]. exact (okc_readback c c' c1 T1 T2 T3 H).
Qed.

Print Assumptions okc_readback.
Print Assumptions okc_roundtrip.
