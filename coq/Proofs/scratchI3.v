From Coq Require Import List String Ascii NArith ZArith Bool Arith.
From FB.Base Require Import PyVal Fs.
From FB.Gen Require Import JsonUtilGen.
From FB.Spec Require Import Prog Ref Oracle.
From FB.Model Require Import Types Monad BuildDirs SimpleOps Builder Persist Build Run Dsl Frame.
From FB.Proofs Require Import CommitDirsEx SimIEx.
Import ListNotations.
Open Scope string_scope.

Definition poke (cf : path) (f : cache -> cache) (w : world) : world :=
  match lookup (w_fs w) cf with
  | Some (NFile g) =>
      match cache_of_json (f_json g) with
      | ReadOk c => set_fs (upd cf (Some (NFile {| f_bytes := f_bytes g; f_mtime := f_mtime g; f_id := f_id g;
                                                   f_json := cache_to_json (f c) |})) (w_fs w)) w
      | _ => w
      end
  | _ => w
  end.
Definition adddirs (l : list path) (c : cache) : cache := cache_with c (c_files c) (c_subs c) (c_dirs c ++ l) (c_built c).
Definition newdirs (fs0 fs' : fsT) : list path := filter (fun d => isdir fs' d && negb (isdir fs0 d)) (allp fs0 fs').
Definition tstw (cf : path) (w : world) (pr : prog) :=
  let '(w', r) := run_build cf "n" (PDict []) pr w in
  (committed r, chkB1 (w_new w') (w_fs w) (w_fs w'), newdirs (w_fs w) (w_fs w'), c_dirs (w_new w'), bd_err_created (w_bd w')).
Definition wb1 := steps cfp [B b1] init_world.
Eval vm_compute in c_dirs (old_cache_of (w_fs (poke cfp (adddirs [["zz"]]) wb1)) cfp "n" (PDict [])).
Definition progs : list prog := [b1; failing ["x";"d";"c"] ok; bf ["q"; "out"; "d"; "c"] ok; failing ["q"; "sub"; "out"; "d"; "c"] ok;
   bf ["q"; "sub"; "out"; "d"; "c"] ok; failing ["q";"zz"] ok; bf ["q";"zz"] ok; bf ["q"; "cache.gz"] ok; Ret PNone].
Definition run_all (w : world) := map (tstw cfp w) progs.
Eval vm_compute in run_all (poke cfp (adddirs [["zz"]]) wb1).
Eval vm_compute in run_all (poke cfp (adddirs [[]]) wb1).
Eval vm_compute in run_all (poke cfp (adddirs [["sub"; "out"; "d"; "c"]]) wb1).
Eval vm_compute in run_all (poke cfp (adddirs [["out"; "d"; "c"]]) wb1).
Eval vm_compute in run_all (poke cfp (adddirs [["cache.gz"]]) wb1).
Eval vm_compute in run_all (poke cfp (adddirs [["k"; "cache.gz"]]) wb1).
