(* Proofs/SimS1.v — what a cache hit adopts exists as a regular file in the tree the build started in.
   Along any run (any program whose build_file targets satisfy P, any faults, any outcome):
     [run_A]       invariant KT: every regular file of the tree is a target of this build (P) or a
                   regular file of the starting tree fs0 (the run creates regular files only at its
                   targets: the Write node; every other step is HashMemoInv.fstep), and every path
                   that the new cache records as created (non-raised record) is a target of this
                   build or a regular file of fs0;
     [cached_live] a record tree that the replay is_op_cached accepts: the file of every nested
                   build_file record that did not raise and did not fail in setup ([live]) is a
                   regular file of the tree at that moment, provided no such record carries the
                   comparison result None ([nn], part of ViewR2.wfrec);
     [cr_register] register_op marks as created only the paths in [live];
     [run_adopted] the statement at the end of the run of the root function.
   Same script as SimR1.run_J.  New file; edits nothing. *)
From Coq Require Import List String Ascii NArith ZArith Bool Arith Lia.
From FB.Base Require Import PyVal Fs.
From FB.Gen Require Import JsonUtilGen.
From FB.Spec Require Import Prog.
From FB.Model Require Import Types Monad CreatedFiles BuildDirs SimpleOps Builder Persist Build Run Frame.
From FB.Proofs Require Import FsLemmas ReplayLaws FrameLaws RollbackDirsLaws RollbackDirsBase CommitDirsInv BuildFileLaws HashMemoInv.
Import ListNotations.
Local Open Scope list_scope.

#[local] Hint Resolve m_handle_dir_exists_svb m_is_removed_svb is_file_no_read_svb is_cache_file_svb
  file_metadata_svb file_hash_svb list_dir_superset_svb file_comparison_result_svb
  m_is_file_svb m_is_dir_svb m_exists_svb noneable_cmp_svb version_equal_svb
  is_build_file_cached_svb dirs_to_make_svb build_file_cache_lookup_svb subbuild_cache_lookup_svb
  m_bd_started_svb m_bd_error_svb new_assert_no_file_svb new_assert_no_subbuild_svb : pres.

(* ------------------------------------------------------------------ static vocabulary *)
Definition isnone (v : pyval) : bool := match v with PNone => true | _ => false end.

(* no build_file record that did not raise carries the comparison result None *)
Fixpoint nn (o : op) : bool :=
  match o with
  | OSimple _ _ _ => true
  | OBuildFile _ _ _ _ _ subs _ cr ra _ => (ra || negb (isnone cr)) && forallb nn subs
  | OSubbuild _ _ _ subs _ _ _ => forallb nn subs
  end.

Definition NNc (old : cache) : Prop :=
  (forall p rec, cache_get_file old p = Some rec -> nn rec = true) /\
  (forall k rec, subs_get (c_subs old) k = Some (Some rec) -> nn rec = true).

(* the paths that register_op records as created *)
Fixpoint live (o : op) : list path :=
  match o with
  | OSimple _ _ _ => []
  | OBuildFile p _ _ _ _ subs _ _ ra sf => (if ra || sf then [] else [p]) ++ flat_map live subs
  | OSubbuild _ _ _ subs _ _ _ => flat_map live subs
  end.

Definition FileAt (fs : fsT) (x : path) : Prop := exists f, lookup fs x = Some (NFile f).

(* ------------------------------------------------------------------ register_op *)
Lemma cr_set : forall c p v s b q,
  cache_created_file (cache_with c (files_set (c_files c) p v) s (c_dirs c) b) q = true ->
  q = p \/ cache_created_file c q = true.
Proof.
  intros c p v s b q. unfold cache_created_file, cache_get_file. cbn [c_files cache_with]. rewrite files_get_set.
  destruct (path_eqb p q) eqn:E; [intros _; left; symmetry; apply path_eqb_eq; exact E | intro H; right; exact H].
Qed.

Lemma cr_set_rec : forall c p o s b q,
  cache_created_file (cache_with c (files_set (c_files c) p (Some o)) s (c_dirs c) b) q = true ->
  (q = p /\ op_raised o = false) \/ cache_created_file c q = true.
Proof.
  intros c p o s b q. unfold cache_created_file, cache_get_file. cbn [c_files cache_with]. rewrite files_get_set.
  destruct (path_eqb p q) eqn:E.
  - intro H. left. split; [symmetry; apply path_eqb_eq; exact E|]. apply negb_true_iff in H. exact H.
  - intro H. right. exact H.
Qed.

Lemma cr_del : forall c p s b q,
  cache_created_file (cache_with c (files_del (c_files c) p) s (c_dirs c) b) q = true -> cache_created_file c q = true.
Proof.
  intros c p s b q. unfold cache_created_file, cache_get_file. cbn [c_files cache_with]. rewrite files_get_del.
  destruct (path_eqb p q); [discriminate | intro H; exact H].
Qed.

Lemma cr_fold : forall subs q,
  Forall (fun s => forall c, cache_created_file (register_op c s) q = true -> In q (live s) \/ cache_created_file c q = true) subs ->
  forall c, cache_created_file (fold_left register_op subs c) q = true -> In q (flat_map live subs) \/ cache_created_file c q = true.
Proof.
  intros subs q HF. induction HF as [|s rest Hs HF IH]; intros c H; cbn [fold_left flat_map] in *; [right; exact H|].
  destruct (IH _ H) as [X|X]; [left; apply in_or_app; right; exact X|].
  destruct (Hs _ X) as [Y|Y]; [left; apply in_or_app; left; exact Y | right; exact Y].
Qed.

Theorem cr_register : forall q o c, cache_created_file (register_op c o) q = true ->
  In q (live o) \/ cache_created_file c q = true.
Proof.
  intro q. induction o as [qq r e | p cm f a k subs r cr ra sf IH | f a k subs r ra sf IH] using op_ind'; intros c H.
  - right. exact H.
  - cbn [register_op] in H. cbn [live].
    destruct (cr_fold subs q IH _ H) as [X|X]; [left; apply in_or_app; right; exact X|].
    destruct sf.
    + right. exact X.
    + apply cr_set_rec in X. destruct X as [[-> Hr]|X]; [|right; exact X].
      cbn [op_raised] in Hr. subst ra. left. cbn [orb]. left. reflexivity.
  - cbn [register_op] in H. cbn [live].
    destruct (cr_fold subs q IH _ H) as [X|X]; [left; exact X|]. right.
    destruct sf; [exact X|]. exact X.
Qed.

(* ------------------------------------------------------------------ the replay *)
Lemma svb_fs_eq : forall X (m : world -> world * X) w w' r, pres svbPO m -> m w = (w', r) -> w_fs w' = w_fs w.
Proof. intros X m w w' r Pm E. destruct (Pm _ _ _ E) as (A & _). exact A. Qed.

Ltac note_fs :=
  repeat match goal with
  | E : dirs_to_make ?d ?c ?a = (?b, _) |- _ =>
      lazymatch goal with | _ : w_fs b = w_fs a |- _ => fail | _ => pose proof (svb_fs_eq _ _ _ _ _ (dirs_to_make_svb d c) E) end
  | E : is_build_file_cached ?p ?c ?r ?a = (?b, _) |- _ =>
      lazymatch goal with | _ : w_fs b = w_fs a |- _ => fail | _ => pose proof (svb_fs_eq _ _ _ _ _ (is_build_file_cached_svb p c r) E) end
  | E : noneable_cmp ?p ?c ?a = (?b, _) |- _ =>
      lazymatch goal with | _ : w_fs b = w_fs a |- _ => fail | _ => pose proof (svb_fs_eq _ _ _ _ _ (noneable_cmp_svb p c) E) end
  | E : version_equal ?f ?a = (?b, _) |- _ =>
      lazymatch goal with | _ : w_fs b = w_fs a |- _ => fail | _ => pose proof (svb_fs_eq _ _ _ _ _ (version_equal_svb f) E) end
  | E : are_subs_cached ?s ?c ?a = (?b, _) |- _ =>
      lazymatch goal with | _ : w_fs b = w_fs a |- _ => fail | _ => pose proof (svb_fs_eq _ _ _ _ _ (are_subs_cached_svb s c) E) end
  | E : is_op_cached ?s ?c ?a = (?b, _) |- _ =>
      lazymatch goal with | _ : w_fs b = w_fs a |- _ => fail | _ => pose proof (svb_fs_eq _ _ _ _ _ (is_op_cached_svb s c) E) end
  end.

Lemma is_equal_none : forall v, is_equal v PNone = true -> v = PNone.
Proof. intros v H. destruct v; try reflexivity; cbn in H; try discriminate H. Qed.

(* a comparison that agrees with a recorded result other than None has looked at a regular file *)
Lemma cached_file : forall p c cr w w', isnone cr = false ->
  is_build_file_cached p c cr w = (w', inl true) -> FileAt (w_fs w) p.
Proof.
  intros p c cr w w' Hn H. unfold is_build_file_cached in H. minv H.
  match goal with E : noneable_cmp _ _ _ = (?b, inl ?v) |- _ =>
    assert (Hv : v <> PNone); [| pose proof (noneable_cmp_file _ _ _ _ _ E Hv) as F; pose proof (svb_fs_eq _ _ _ _ _ (noneable_cmp_svb p c) E) as G ] end.
  { intro Y. subst. match goal with K : is_equal cr PNone = true |- _ => apply is_equal_none in K; subst cr; discriminate Hn end. }
  unfold isfile in F. rewrite G in F. destruct (lookup (w_fs w) p) as [[g|]|] eqn:L; try discriminate F. exists g. exact L.
Qed.

Lemma subs_live : forall subs,
  Forall (fun s => forall cf w w' cf', nn s = true -> is_op_cached s cf w = (w', inl (true, cf')) ->
                   forall a, In a (live s) -> FileAt (w_fs w) a) subs ->
  forall cf w w' cf', forallb nn subs = true -> are_subs_cached subs cf w = (w', inl (true, cf')) ->
  forall a, In a (flat_map live subs) -> FileAt (w_fs w) a.
Proof.
  intros subs HF. induction HF as [|s rest Hs HF IH]; intros cf w w' cf' Hn H a Ha; [destruct Ha|].
  cbn [are_subs_cached] in H. minv H.
  match goal with E : is_op_cached s _ _ = (_, inl ?x) |- _ => destruct x as [b1 cf1] end.
  cbn [fst snd] in *. subst b1. note_fs. cbn [forallb] in Hn. apply andb_true_iff in Hn. destruct Hn as [Hn1 Hn2].
  cbn [flat_map] in Ha. apply in_app_or in Ha. destruct Ha as [Ha|Ha].
  - eapply Hs; eauto.
  - match goal with K : w_fs ?b = w_fs w |- _ => rewrite <- K end. eapply IH; eauto.
Qed.

Theorem cached_live : forall o cf w w' cf', nn o = true ->
  is_op_cached o cf w = (w', inl (true, cf')) -> forall a, In a (live o) -> FileAt (w_fs w) a.
Proof.
  induction o as [q r e | p c f a k subs r cr ra sf IH | f a k subs r ra sf IH] using op_ind';
    intros cf w w' cf' Hn H x Hx.
  - destruct Hx.
  - cbn [nn] in Hn. apply andb_true_iff in Hn. destruct Hn as [Hn1 Hn2].
    cbn [live] in Hx. apply in_app_or in Hx.
    destruct sf.
    { cbn [is_op_cached] in H. minv H. }
    destruct ra.
    + cbn [orb] in Hx. destruct Hx as [[]|Hx].
      cbn [is_op_cached] in H. minv H; rewrite ?subs_go_eq in *.
      all: match goal with E : are_subs_cached _ _ _ = (_, inl ?y) |- _ => destruct y as [b1 cf1] end.
      all: cbn [fst snd] in *.
      all: repeat match goal with Hb : negb _ = false |- _ => apply negb_false_iff in Hb end; subst.
      all: note_fs.
      all: match goal with E : are_subs_cached ?s _ _ = (_, inl (true, _)) |- _ =>
             destruct (subs_live s IH _ _ _ _ Hn2 E x Hx) as [g Hg] end.
      all: exists g; congruence.
    + cbn [orb negb] in Hn1. cbn [orb] in Hx.
      assert (Hc : isnone cr = false) by (destruct (isnone cr); [discriminate Hn1 | reflexivity]).
      cbn [is_op_cached] in H. minv H; rewrite ?subs_go_eq in *.
      all: match goal with E : are_subs_cached _ _ _ = (_, inl ?y) |- _ => destruct y as [b1 cf1] end.
      all: cbn [fst snd] in *.
      all: repeat match goal with Hb : negb _ = false |- _ => apply negb_false_iff in Hb end; subst.
      all: note_fs.
      all: destruct Hx as [[<-|[]]|Hx].
      all: try (match goal with E : is_build_file_cached _ _ _ _ = (_, inl true) |- _ =>
             destruct (cached_file _ _ _ _ _ Hc E) as [g Hg] end; exists g; congruence).
      all: match goal with E : are_subs_cached ?s _ _ = (_, inl (true, _)) |- _ =>
             destruct (subs_live s IH _ _ _ _ Hn2 E x Hx) as [g Hg] end.
      all: exists g; congruence.
  - cbn [nn] in Hn. cbn [live] in Hx.
    cbn [is_op_cached] in H. minv H; rewrite ?subs_go_eq in *.
    note_fs.
    match goal with E : are_subs_cached ?s _ _ = (_, inl (true, _)) |- _ =>
      destruct (subs_live s IH _ _ _ _ Hn E x Hx) as [g Hg] end.
    exists g; congruence.
Qed.

Theorem bf_lookup_live : forall p f a k w w' co, NNc (w_old w) ->
  build_file_cache_lookup p f a k w = (w', inl (Some co)) ->
  forall x, In x (flat_map live (op_subs co)) -> FileAt (w_fs w) x.
Proof.
  intros p f a k w w' co Hnn H x Hx.
  pose proof (lookup_never_raised _ _ _ _ _ _ _ H) as H2. destruct H2 as (H2 & _).
  assert (Hn : forallb nn (op_subs co) = true).
  { pose proof (proj1 Hnn _ _ H2) as N. destruct co; cbn [nn op_subs] in *;
      [reflexivity | apply andb_true_iff in N; exact (proj2 N) | exact N]. }
  clear H2.
  unfold build_file_cache_lookup in H. minv H.
  match goal with E : are_subs_cached _ _ _ = (_, inl ?y) |- _ => destruct y as [b1 cf1] end.
  cbn [fst snd] in *. subst b1. note_fs. cbn [op_subs] in *.
  match goal with E : are_subs_cached ?s _ _ = (_, inl (true, _)) |- _ =>
    destruct (subs_live s (proj2 (Forall_forall _ _) (fun o _ => cached_live o)) _ _ _ _ Hn E x Hx) as [g Hg] end.
  exists g; congruence.
Qed.

Theorem sb_lookup_live : forall key f w w' co, NNc (w_old w) ->
  subbuild_cache_lookup key f w = (w', inl (Some co)) ->
  forall x, In x (flat_map live (op_subs co)) -> FileAt (w_fs w) x.
Proof.
  intros key f w w' co Hnn H x Hx.
  pose proof (sublookup_never_raised _ _ _ _ _ H) as H2. destruct H2 as (H2 & _).
  assert (Hn : forallb nn (op_subs co) = true).
  { pose proof (proj2 Hnn _ _ H2) as N. destruct co; cbn [nn op_subs] in *;
      [reflexivity | apply andb_true_iff in N; exact (proj2 N) | exact N]. }
  clear H2.
  unfold subbuild_cache_lookup in H. minv H.
  match goal with E : are_subs_cached _ _ _ = (_, inl ?y) |- _ => destruct y as [b1 cf1] end.
  cbn [fst snd] in *. subst b1. note_fs. cbn [op_subs] in *.
  match goal with E : are_subs_cached ?s _ _ = (_, inl (true, _)) |- _ =>
    destruct (subs_live s (proj2 (Forall_forall _ _) (fun o _ => cached_live o)) _ _ _ _ Hn E x Hx) as [g Hg] end.
  exists g; congruence.
Qed.

(* ------------------------------------------------------------------ the run invariant *)
Section Adopt.

Variable old : cache.             (* the previous build *)
Variable P : path -> Prop.        (* the targets of this build *)
Variable fs0 : fsT.               (* the tree the build started in *)
Hypothesis Hnn : NNc old.

Definition Fz (x : path) : Prop := P x \/ FileAt fs0 x.

Definition KT (w : world) : Prop :=
  w_old w = old /\
  (forall x f, lookup (w_fs w) x = Some (NFile f) -> Fz x) /\
  (forall a, cache_created_file (w_new w) a = true -> Fz a).

Definition jr (w w' : world) : Prop := KT w -> KT w'.
Lemma jr_refl : forall w, jr w w.
Proof. intros w H. exact H. Qed.
Lemma jr_trans : forall a b c, jr a b -> jr b c -> jr a c.
Proof. intros a b c A B H. apply B, A, H. Qed.
Definition JPO : PO := {| rel := jr; po_refl := jr_refl; po_trans := jr_trans |}.

Lemma jr_same : forall w w', w_new w' = w_new w -> w_old w' = w_old w -> w_fs w' = w_fs w -> jr w w'.
Proof. intros w w' E1 E2 E3 H. unfold KT in *. rewrite E1, E2, E3. exact H. Qed.

Lemma fs_jr : forall w w', FSPO w w' -> JPO w w'.
Proof.
  cbn. intros w w' (A0 & A1 & _ & A3) (K1 & K2 & K3). split; [congruence|]. split.
  - intros x f H. exact (K2 x f (A3 x f H)).
  - rewrite A1. exact K3.
Qed.
Lemma svb_jr : forall w w', svbPO w w' -> JPO w w'.
Proof.
  cbn. unfold same_but_view. intros w w' (A1 & _ & _ & A4 & A5 & _). apply jr_same; assumption.
Qed.
#[local] Hint Extern 8 (pres JPO _) => apply (pres_weaken svbPO JPO _ _ svb_jr) : pres.

Lemma fsj : forall X (m : world -> world * X), pres FSPO m -> pres JPO m.
Proof. intros X m. apply pres_weaken. exact fs_jr. Qed.

Lemma prepare_jr : forall p, pres JPO (prepare_file_creation p).
Proof. intro p. apply fsj, prepare_file_creation_fs. Qed.
Lemma backup_jr : forall p, pres JPO (back_up_and_remove p).
Proof. intro p. apply fsj, back_up_and_remove_fs. Qed.
Lemma try_remove_jr : forall p, pres JPO (try_to_remove_file p).
Proof. intro p. apply fsj, try_to_remove_file_fs. Qed.
Lemma apply_cached_jr : forall o, pres JPO (apply_cached_subs_of o).
Proof. intro o. apply fsj, apply_cached_subs_of_fs. Qed.
#[local] Hint Resolve prepare_jr backup_jr try_remove_jr apply_cached_jr : pres.

Lemma pres_bind_val_J : forall A B (m : M A) (f : A -> M B) (Phi : A -> Prop),
  pres JPO m ->
  (forall w w1 a, KT w -> m w = (w1, inl a) -> Phi a) ->
  (forall a, Phi a -> pres JPO (f a)) -> pres JPO (bind m f).
Proof.
  intros A B m f Phi Hm Hv Hf w w' r H. change (jr w w'). apply bind_inv in H.
  destruct H as [(w1 & a & E1 & H) | (e & E1 & _)].
  - intro HK. pose proof (Hv _ _ _ HK E1) as Ha. exact (Hf a Ha _ _ _ H (Hm _ _ _ E1 HK)).
  - exact (Hm _ _ _ E1).
Qed.

(* ---- the table updates ---- *)
Lemma modify_new_jr : forall f : world -> cache,
  (forall w, (forall p, cache_created_file (w_new w) p = true -> Fz p) ->
             forall p, cache_created_file (f w) p = true -> Fz p) ->
  pres JPO (modify (fun w => set_new (f w) w)).
Proof. intros f Hf. apply pres_modify. intros w (A & B & C). split; [exact A|]. split; [exact B | exact (Hf w C)]. Qed.

Lemma new_start_building_file_jr : forall p, P p -> pres JPO (new_start_building_file p).
Proof.
  intros p HP. unfold new_start_building_file. pres_auto. apply modify_new_jr. intros w B q Hq.
  destruct (cr_set _ _ _ _ _ _ Hq) as [->|X]; [left; exact HP | exact (B q X)].
Qed.
Lemma new_abort_building_file_jr : forall p, pres JPO (new_abort_building_file p).
Proof.
  intro p. unfold new_abort_building_file. apply modify_new_jr. intros w B q Hq.
  exact (B q (cr_del _ _ _ _ _ Hq)).
Qed.
Lemma new_finish_building_file_jr : forall p o, P p -> pres JPO (new_finish_building_file p o).
Proof.
  intros p o HP. unfold new_finish_building_file. apply modify_new_jr. intros w B q Hq.
  destruct (cr_set _ _ _ _ _ _ Hq) as [->|X]; [left; exact HP | exact (B q X)].
Qed.
Lemma new_start_subbuild_jr : forall k, pres JPO (new_start_subbuild k).
Proof. intro k. unfold new_start_subbuild. pres_auto. apply modify_new_jr. intros w B q Hq. exact (B q Hq). Qed.
Lemma new_finish_subbuild_jr : forall k o, pres JPO (new_finish_subbuild k o).
Proof. intros k o. unfold new_finish_subbuild. apply modify_new_jr. intros w B q Hq. exact (B q Hq). Qed.

Lemma new_use_cached_operation_jr : forall o, (forall t, In t (live o) -> Fz t) ->
  pres JPO (new_use_cached_operation o).
Proof.
  intros o Ho w w' r H. unfold new_use_cached_operation in H. unfold bind, get in H.
  destruct (assert_no_repeats (w_new w) o).
  - unfold put in H. inversion H; subst. intros (A & B & C). split; [exact A|]. split; [exact B|].
    cbn [w_new set_new]. intros q Hq. destruct (cr_register q o _ Hq) as [X|X]; [exact (Ho q X) | exact (C q X)].
  - inversion H; subst. apply jr_refl.
Qed.
#[local] Hint Resolve new_abort_building_file_jr new_start_subbuild_jr new_finish_subbuild_jr : pres.

(* ---- build_file, subbuild ---- *)
Definition PhiC (cached : option op) : Prop :=
  match cached with Some co => forall x, In x (flat_map live (op_subs co)) -> Fz x | None => True end.

Lemma bf_reuse_jr : forall p c fname sargs skw cached, P p -> PhiC cached -> pres JPO (bf_reuse p c fname sargs skw cached).
Proof.
  intros p c fname sargs skw cached HP Hc. unfold bf_reuse. destruct cached as [co|]; [|apply pres_ret].
  cbn [PhiC] in Hc.
  assert (G : forall cmp, pres JPO (new_use_cached_operation (OBuildFile p c fname sargs skw (op_subs co) (op_ret co) cmp false false))).
  { intro cmp. apply new_use_cached_operation_jr. intros t Ht. cbn [live orb] in Ht.
    apply in_app_or in Ht. destruct Ht as [[<-|[]]|Ht]; [left; exact HP | exact (Hc t Ht)]. }
  pres_auto.
Qed.

Lemma bf_claim_jr : forall p, P p -> pres JPO (bf_claim p).
Proof. intros p HP. unfold bf_claim. pose proof (new_start_building_file_jr p HP). pres_auto. Qed.

Lemma bf_setup_jr : forall p c fname sargs skw, P p -> pres JPO (bf_setup p c fname sargs skw).
Proof.
  intros p c fname sargs skw HP. unfold bf_setup.
  apply pres_bind; [auto with pres|]. intros _.
  apply pres_bind; [auto with pres|]. intro icf.
  apply pres_bind; [destruct icf; [apply pres_raise | apply pres_ret]|]. intros _.
  apply pres_bind; [apply prepare_jr|]. intro created.
  apply pres_bind; [auto with pres|]. intro locked.
  apply pres_catch; [|intro e; pres_auto].
  apply (pres_bind_val_J _ _ _ _ PhiC); [auto with pres | |].
  { intros w w1 a (B & K2 & _) E. destruct a as [co|]; [|exact I].
    intros x Hx. assert (Hn : NNc (w_old w)) by (rewrite B; exact Hnn).
    destruct (bf_lookup_live _ _ _ _ _ _ _ Hn E x Hx) as [g Hg]. exact (K2 x g Hg). }
  intros cached Hc. apply pres_bind; [apply bf_reuse_jr; assumption|]. intro reused.
  destruct reused as [[o|eo]|]; [pres_auto | pres_auto | apply bf_claim_jr; exact HP].
Qed.

Lemma sb_setup_jr : forall f sa skw, pres JPO (sb_setup f sa skw).
Proof.
  intros f sa skw. unfold sb_setup. cbv zeta.
  apply pres_bind; [auto with pres|]. intros _.
  apply (pres_bind_val_J _ _ _ _ PhiC); [auto with pres | |].
  { intros w0 w1 x (B & K2 & _) E. destruct x as [co|]; [|exact I].
    intros y Hy. assert (Hn : NNc (w_old w0)) by (rewrite B; exact Hnn).
    destruct (sb_lookup_live _ _ _ _ _ Hn E y Hy) as [g Hg]. exact (K2 y g Hg). }
  intros cached Hc. destruct cached as [co|]; [|pres_auto].
  cbn [PhiC] in Hc.
  assert (G : pres JPO (new_use_cached_operation (OSubbuild f sa skw (op_subs co) (op_ret co) false false))).
  { apply new_use_cached_operation_jr. intros t Ht. cbn [live] in Ht. exact (Hc t Ht). }
  pres_auto.
Qed.

Lemma bf_fail_jr : forall p c f sa skw subs e w w' r, P p ->
  bf_fail p c f sa skw subs e w = (w', r) -> jr w w'.
Proof.
  intros p c f sa skw subs e w w' r HP H. unfold bf_fail in H. cbv zeta in H.
  pose proof (new_finish_building_file_jr p (OBuildFile p c f sa skw subs PNone PNone true false) HP) as G.
  match type of H with (match ?X with _ => _ end) = _ => destruct X as [w1 [u|e1]] eqn:E end;
    inversion H; subst.
  all: refine ((_ : pres JPO _) _ _ _ E); pres_auto.
Qed.

Lemma bf_finish_jr : forall p c f sa skw res subs, P p -> pres JPO (bf_finish p c f sa skw res subs).
Proof.
  intros p c f sa skw res subs HP w w' r H. unfold bf_finish in H.
  assert (F : forall e w0, bf_fail p c f sa skw subs e w0 = (w', r) -> jr w0 w').
  { intros e w0 H0. eapply bf_fail_jr; eassumption. }
  destruct res as [v|e]; [|eapply F; eassumption].
  destruct (sanitize v) as [sv|]; [|eapply F; eassumption].
  destruct (noneable_cmp p c w) as [w4 [cmp|e]] eqn:E.
  - assert (Q : jr w w4) by (apply svb_jr; exact (noneable_cmp_svb p c w w4 _ E)).
    eapply jr_trans; [exact Q|].
    destruct cmp; try (eapply F; eassumption).
    all: cbv zeta in H;
      match type of H with (match ?X with _ => _ end) = _ => destruct X as [w5 u5] eqn:E5 end;
      inversion H; subst; exact (new_finish_building_file_jr _ _ HP _ _ _ E5).
  - assert (Q : jr w w4) by (apply svb_jr; exact (noneable_cmp_svb p c w w4 _ E)).
    eapply jr_trans; [exact Q|]. eapply F; eassumption.
Qed.

Lemma sb_finish_jr : forall f sa skw res subs, pres JPO (sb_finish f sa skw res subs).
Proof.
  intros f sa skw res subs w w' r H. unfold sb_finish in H. cbv zeta in H.
  destruct res as [v|e]; [destruct (sanitize v)|];
    match type of H with (match ?X with _ => _ end) = _ => destruct X as [w5 u5] eqn:E5 end;
    inversion H; subst; exact (new_finish_subbuild_jr _ _ _ _ _ E5).
Qed.

Lemma m_build_file_jr : forall p c f a kw (fn : path -> pyval -> pyval -> body), P p ->
  (forall sa skw, pres JPO (fn p sa skw)) -> pres JPO (m_build_file p c f a kw fn).
Proof.
  intros p c f a kw fn HP Hfn w w' r H. rewrite BuildFileLaws.m_build_file_unfold in H.
  destruct (sanitize a) as [sa|]; [|inversion H; subst; apply jr_refl].
  destruct (sanitize kw) as [skw|]; [|inversion H; subst; apply jr_refl].
  destruct (bf_setup p c f sa skw w) as [w1 [[[o|[e o]]|]|e]] eqn:Es;
    pose proof (bf_setup_jr p c f sa skw HP w w1 _ Es) as Q1; try (inversion H; subst; exact Q1).
  unfold bf_rebuild in H. destruct (fn p sa skw (bf_invoke_world p f sa skw w1)) as [w3 [res subs]] eqn:Ef.
  pose proof (Hfn sa skw _ _ _ Ef) as Q2. pose proof (bf_finish_jr p c f sa skw res subs HP w3 w' r H) as Q3.
  eapply jr_trans; [exact Q1|]. eapply jr_trans; [|exact Q3]. exact Q2.
Qed.

Lemma m_subbuild_jr : forall f a kw (fn : pyval -> pyval -> body),
  (forall sa skw, pres JPO (fn sa skw)) -> pres JPO (m_subbuild f a kw fn).
Proof.
  intros f a kw fn Hfn w w' r H. rewrite BuildFileLaws.m_subbuild_unfold in H.
  destruct (sanitize a) as [sa|]; [|inversion H; subst; apply jr_refl].
  destruct (sanitize kw) as [skw|]; [|inversion H; subst; apply jr_refl].
  destruct (sb_setup f sa skw w) as [w1 [[[o|[e o]]|]|e]] eqn:Es;
    pose proof (sb_setup_jr f sa skw w w1 _ Es) as Q1; try (inversion H; subst; exact Q1).
  unfold sb_rebuild in H. destruct (fn sa skw (sb_invoke_world f sa skw w1)) as [w3 [res subs]] eqn:Ef.
  pose proof (Hfn sa skw _ _ _ Ef) as Q2. pose proof (sb_finish_jr f sa skw res subs w3 w' r H) as Q3.
  eapply jr_trans; [exact Q1|]. eapply jr_trans; [|exact Q3]. exact Q2.
Qed.

Lemma jr_log_answer : forall q r w, jr w (log_answer q r w).
Proof.
  intros q r w. unfold log_answer.
  repeat match goal with |- context [match ?y with _ => _ end] => destruct y end;
    first [apply jr_refl | apply jr_same; reflexivity].
Qed.

Theorem run_A : forall pr, AllTargets P pr ->
  forall target subs, (forall t, target = Some t -> P t) -> pres JPO (run pr target subs).
Proof.
  intros pr Hat.
  induction Hat as [v | e | s q k Hk IHk | c k Hk IHk | s p c f a kw fn k Hp Hfn IHfn Hk IHk
                    | s f a kw fn k Hfn IHfn Hk IHk];
    intros target subs Ht w w' r H; cbn [run] in H; change (jr w w').
  - inversion H; subst. apply jr_refl.
  - inversion H; subst. apply jr_refl.
  - destruct s; [eapply IHk; eauto|].
    destruct (m_query q w) as [w1 [r1 o]] eqn:E.
    pose proof (svb_jr _ _ (m_query_svb _ _ _ _ E)) as Q1. apply IHk in H; [|exact Ht].
    eapply jr_trans; [exact Q1|]. eapply jr_trans; [apply jr_log_answer | exact H].
  - destruct target as [t|]; [|eapply IHk; eauto].
    destruct (write_file (w_fs w) t c None (N.succ (w_clock w)) (w_nextid w)) as [fs'|e] eqn:E;
      [|inversion H; subst; apply jr_refl].
    apply IHk in H; [|exact Ht]. eapply jr_trans; [|exact H].
    intros (A & B & C). split; [exact A|]. split; [|exact C].
    intros x g Hx. cbn [w_fs set_clock set_fs] in Hx.
    destruct (write_file_frame _ _ _ _ _ _ _ E) as [_ Hoth].
    destruct (list_eq_dec string_dec x t) as [->|Hne].
    + left. apply Ht. reflexivity.
    + rewrite (Hoth x Hne) in Hx. exact (B x g Hx).
  - destruct s; [eapply IHk; eauto|].
    match type of H with (let '(_, _) := ?X in _) = _ => destruct X as [w1 [r1 o]] eqn:E end.
    apply IHk in H; [|exact Ht]. eapply jr_trans; [|exact H].
    refine (m_build_file_jr p c f a kw _ Hp _ w w1 _ E). intros sa skw. apply IHfn.
    intros t Et. inversion Et; subst. exact Hp.
  - destruct s; [eapply IHk; eauto|].
    match type of H with (let '(_, _) := ?X in _) = _ => destruct X as [w1 [r1 o]] eqn:E end.
    apply IHk in H; [|exact Ht]. eapply jr_trans; [|exact H].
    refine (m_subbuild_jr f a kw _ _ w w1 _ E). intros sa skw. apply IHfn. intros t Et. discriminate Et.
Qed.

End Adopt.

(* every path that the new cache records as created at the end of a run is a target of this build
   or a regular file of the tree the run started in *)
Theorem run_adopted : forall old (P : path -> Prop) pr target subs w w' r,
  NNc old -> AllTargets P pr -> (forall t, target = Some t -> P t) ->
  run pr target subs w = (w', r) ->
  w_old w = old -> (forall p, cache_has_file (w_new w) p = false) ->
  forall a, cache_created_file (w_new w') a = true -> P a \/ FileAt (w_fs w) a.
Proof.
  intros old P pr target subs w w' r Hnn Hat Ht H Ho Hn.
  assert (K0 : KT old P (w_fs w) w).
  { split; [exact Ho|]. split.
    - intros x f Hx. right. exists f. exact Hx.
    - intros a Ha. unfold cache_created_file, cache_get_file in Ha. pose proof (Hn a) as Z. unfold cache_has_file in Z.
      destruct (files_get (c_files (w_new w)) a); [discriminate Z | discriminate Ha]. }
  destruct (run_A old P (w_fs w) Hnn pr Hat target subs Ht w w' r H K0) as (_ & _ & C). exact C.
Qed.

Print Assumptions cached_live.
Print Assumptions cr_register.
Print Assumptions run_adopted.
