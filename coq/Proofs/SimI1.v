(* Proofs/SimI1.v — the invariant RInv2 (ViewR2.v: lock counts XInv, entries in progress PInv, no fault,
   shallow tree, well-formed previous cache) holds when the root function starts, ALSO when
   Build.m_build has to "make" the directories of the cache file.  ViewR3.RInv2_root_entry has it only
   when the directory of the cache file is a visible directory (vdir start (dirname cf) = true), which
   excludes
     - a rebuild whose cache file lies in a directory that the previous build made and that holds
       only outputs and the cache file: that directory is DEAD in the view of the start world, so
       _dirs_to_make lists it; it is on disk, every mkdir answers EEXIST and nothing changes
       [RInv2_root_entry_rebuild] (any previous cache; needs only that the cache file is there);
     - a first build whose cache file lies in directories that do not exist yet: they are made, but
       BuildDirs is not told; with a previous cache that records no directory nothing is tracked and
       XInv does not notice directories that appear [XInv_dirs_added], [RInv2_root_entry_nodirs].
   Both are stated for an arbitrary result list ccd of _make_dirs, the form in which
   CommitDirs3Main.accept_dirs_exact_wf asks for the invariant.  Used in SimI2.v.
   New file; edits nothing. *)
From Coq Require Import List String Ascii NArith ZArith Bool Arith Lia Sorted.
From FB.Base Require Import PyVal Fs.
From FB.Gen Require Import JsonUtilGen.
From FB.Spec Require Import Prog Ref Oracle.
From FB.Model Require Import Types Monad CreatedFiles BuildDirs SimpleOps Builder Persist Build Run Frame.
From FB.Proofs Require Import CoreLawsChildren ViewDefs ViewLemmas ViewInit ViewXDefs ViewXInit ViewXQuery ViewXSteps ViewXFail
     ViewXSetup ViewXRun ViewXReach ViewXC04 ViewR1 ViewR2 ViewR3 ViewR9 ViewXMake1 ViewXMake2.
From FB.Proofs Require Import BuildFileLaws FsLemmas ReplayLaws FrameLaws CleanLaws RollbackDirsLaws
  RollbackDirsView RollbackDirsBase RollbackDirsInv RollbackDirsMake RollbackDirsRun
  RollbackDirsMain CommitDirsInv CommitDirsRun CommitDirsMain
  CommitDirs2Y CommitDirs2Bd CommitDirs2Step CommitDirs2Run CommitDirs2Main CommitDirs3Adopt CommitDirs3Run CommitDirs3Main.
Import ListNotations.
Local Open Scope list_scope.

(* ------------------------------------------------------------------ mkdir on what is there *)
Lemma make_one_dir_on_existing : forall q w, w_faults w = [] -> lookup (w_fs w) q = Some NDir ->
  make_one_dir q w = (set_effects (S (w_effects w)) w, inl false).
Proof.
  intros q w Hf Hq. unfold make_one_dir. unfold bind at 1, get.
  assert (Hif : isfile (w_fs w) q = false) by (unfold isfile; rewrite Hq; reflexivity).
  rewrite Hif. cbn [andb]. unfold bind at 1, ret at 1.
  unfold catch, bind, effect. rewrite Hf. cbn [existsb w_fs set_effects].
  assert (Hm : mkdir (w_fs w) q = inr EEXIST).
  { unfold mkdir. destruct q as [|n d]; [reflexivity|]. rewrite Hq. reflexivity. }
  rewrite Hm. cbn. reflexivity.
Qed.

Lemma make_dirs_loop_on_existing : forall ds made w, w_faults w = [] ->
  (forall q, In q ds -> lookup (w_fs w) q = Some NDir) ->
  exists w1, make_dirs_loop ds made w = (w1, inl tt) /\
    w_fs w1 = w_fs w /\ w_bd w1 = w_bd w /\ w_old w1 = w_old w /\ w_new w1 = w_new w /\
    w_cachefile w1 = w_cachefile w /\ w_faults w1 = [].
Proof.
  induction ds as [|q ds IH]; intros made w Hf Hq.
  - exists w. cbn [make_dirs_loop]. unfold ret. repeat split; auto.
  - cbn [make_dirs_loop]. unfold bind at 1, attempt.
    rewrite (make_one_dir_on_existing q w Hf (Hq q (or_introl eq_refl))).
    destruct (IH made (set_effects (S (w_effects w)) w) Hf (fun x Hx => Hq x (or_intror Hx)))
      as (w1 & E & A1 & A2 & A3 & A4 & A5 & A6).
    exists w1. split; [exact E|]. repeat split; assumption.
Qed.

Lemma suffix_below : forall y d n, suffix y d -> below y (n :: d) = true.
Proof.
  intros y d n [l ->]. revert n. induction l as [|m l IH]; intro n; cbn [below app].
  - rewrite path_eqb_refl. reflexivity.
  - change (path_eqb (m :: l ++ y) y || below y (m :: l ++ y) = true). rewrite (IH m). apply orb_true_r.
Qed.

(* ------------------------------------------------------------------ the root function is entered, on a rebuild *)
(* When the cache file is there, every ancestor of it is a directory on disk: whatever
   _dirs_to_make lists (directories of the cache file that are dead in the view: recorded by the
   previous build and holding hidden files only), every mkdir answers EEXIST and nothing changes. *)
Theorem RInv2_root_entry_rebuild : forall w cachefile old nm vers g w1 ccd,
  fs_wf (w_fs w) -> old_ok old cachefile -> w_faults w = [] ->
  lookup (w_fs w) cachefile = Some (NFile g) -> maxlen (w_fs w) < walk_fuel -> WfCache old ->
  make_dirs (dirname cachefile) (start_world w cachefile old nm vers) = (w1, inl ccd) ->
  RInv2 (fun _ : cache => True) [] (set_log (LInvoke "<root>" None PNone PNone :: w_log w1) w1).
Proof.
  intros w cf old nm vers g w1 ccd Hwf Hok HF Hcf Hml HW E.
  assert (Hnc : isdir (w_fs w) cf = false) by (unfold isdir; rewrite Hcf; reflexivity).
  pose proof (RInv2_start_world (fun _ => True) w cf old nm vers Hwf Hok HF Hnc Hml HW I) as HR0.
  pose proof (RInv_start_world w cf old nm vers Hwf Hok HF) as HR.
  set (s := start_world w cf old nm vers) in *.
  unfold make_dirs in E. apply bind_inv in E. destruct E as [[wa [ds [Eds E]]]|[e [_ E]]]; [|discriminate].
  pose proof (qrel_RInv [] _ _ (dirs_to_make_q _ _ _ _ _ Eds) HR) as HRa.
  destruct HR as (HX & _ & _).
  destruct (dirs_to_make_spec _ [] s wa ds HX Eds) as [Q In_ _].
  destruct (qrel_facts _ _ _ HX Q) as (_ & Sa & _ & _).
  assert (Efa : w_fs wa = w_fs w) by (rewrite (sv_fs _ _ Sa); reflexivity).
  assert (Hds : forall q, In q ds -> lookup (w_fs wa) q = Some NDir).
  { intros q Hq. destruct (In_ q Hq) as (Hs & _). rewrite Efa.
    destruct cf as [|n d]; [destruct (w_fs w); cbn in Hcf; discriminate Hcf|].
    cbn [dirname tl] in Hs.
    exact (wf_ancestor_dir _ Hwf (n :: d) (NFile g) q Hcf (suffix_below q d n Hs)). }
  destruct HRa as (HXa & HPa & HFa).
  destruct (make_dirs_loop_on_existing ds [] wa HFa Hds) as (wb & El & B1 & B2 & B3 & B4 & B5 & B6).
  apply bind_inv in E. destruct E as [[wb' [u [El' E]]]|[e [El' _]]]; [|congruence].
  rewrite El in El'. inversion El'; subst wb' u. inversion E; subst w1 ccd. clear E El'.
  apply (@RInv2_step (fun _ => True) [] [] s _ HR0).
  - split; [cbn [w_cachefile set_log]; rewrite B5; apply (sv_cf _ _ Sa)|].
    split; [cbn [w_old set_log]; rewrite B3; apply (sv_old _ _ Sa)|].
    cbn [w_fs set_log]. rewrite B1, Efa. split; [intros x n H; left; exact H|auto].
  - split; [eapply XInv_fields; [exact HXa|..]; cbn; assumption|].
    split; [intros x Hx; apply HPa; cbn [w_new set_log] in Hx; rewrite B4 in Hx; exact Hx|exact B6].
Qed.

(* ------------------------------------------------------------------ directories appear while nothing is tracked *)
(* No live target, no reservation, no candidate for removal (first build: the previous cache is
   empty): the lock-count invariant does not notice directories that appear in the tree. *)
Lemma XInv_dirs_added : forall w w', XInv [] w ->
  bd_counts (w_bd w) = [] -> bd_created (w_bd w) = [] ->
  (forall x, mem_path x (bd_maybe (w_bd w)) = false) -> (forall x, mem_path x (bd_removed (w_bd w)) = false) ->
  w_bd w' = w_bd w -> w_old w' = w_old w -> w_new w' = w_new w -> w_cachefile w' = w_cachefile w ->
  fs_wf (w_fs w') ->
  (forall x, lookup (w_fs w') x = lookup (w_fs w) x \/ lookup (w_fs w') x = Some NDir) ->
  XInv [] w'.
Proof.
  intros w w' HX Hc Hcr Hmb Hrm Eb Eo En Ec Hwf Hfs.
  assert (Hnc : forall x, in_counts (w_bd w) x = false) by (intro x; unfold in_counts; rewrite Hc; reflexivity).
  assert (Htrk : forall x, trk (w_bd w) x = false) by (intro x; unfold trk; rewrite Hmb, Hrm; reflexivity).
  assert (Hfile : forall a, isfile (w_fs w') a = true -> isfile (w_fs w) a = true).
  { intros a Ha. unfold isfile in *. destruct (Hfs a) as [Y|Y]; rewrite Y in Ha; [exact Ha|discriminate Ha]. }
  assert (Hhid : forall a, hid w' a = hid w a) by (intro a; unfold hid; rewrite Eo, En, Ec; reflexivity).
  pose proof (x_binv _ _ HX) as HB.
  constructor.
  - constructor.
    + exact Hwf.
    + rewrite Eb. exact (bi_root _ HB).
    + rewrite Eb. exact (bi_counts_up _ HB).
    + intros d Hd _. rewrite Eb, Hrm in Hd. discriminate Hd.
    + intros a H1 H2 H3. rewrite Eb in H1, H3. rewrite Hhid. exact (bi_rf_hid _ HB a H1 (Hfile a H2) H3).
    + intros a H1 H2 H3. rewrite Eb in H3 |- *. rewrite Hhid in H2. exact (bi_hid_rf _ HB a (Hfile a H1) H2 H3).
    + rewrite Eb. exact (bi_rf_trk _ HB).
    + intros q x _ _. apply dead_untracked. rewrite Eb. apply Htrk.
  - rewrite Eb. exact (x_sinv _ _ HX).
  - rewrite Eb. exact (x_keys _ _ HX).
  - rewrite Eb. exact (x_pos _ _ HX).
  - rewrite Eb. exact (x_count _ _ HX).
  - intros x Hx. rewrite Eb, Hnc in Hx. discriminate Hx.
  - intros x Hx. rewrite Eb, Hnc in Hx. discriminate Hx.
  - intros t [].
  - intros x n Hx. rewrite Eb, Hcr in Hx. discriminate Hx.
  - intros x n Hx. rewrite Eb, Hcr in Hx. discriminate Hx.
  - intros a H1 H2 H3. rewrite Eb. rewrite Hhid in H2. exact (x_hid_rf _ _ HX a (Hfile a H1) H2 H3).
  - intros a H1 H2. rewrite Eb in H1. rewrite Hhid. exact (x_rf_hid _ _ HX a H1 (Hfile a H2)).
Qed.

(* ------------------------------------------------------------------ the root function is entered, no recorded directories *)
(* The previous cache records no directory (every first build: the empty cache): the directories
   of the cache file that _make_dirs makes are not known to BuildDirs, and nothing is tracked. *)
Theorem RInv2_root_entry_nodirs : forall w cachefile old nm vers w1 ccd,
  fs_wf (w_fs w) -> old_ok old cachefile -> w_faults w = [] ->
  isdir (w_fs w) cachefile = false -> maxlen (w_fs w) < walk_fuel -> WfCache old ->
  c_dirs old = [] -> List.length (dirname cachefile) < walk_fuel ->
  make_dirs (dirname cachefile) (start_world w cachefile old nm vers) = (w1, inl ccd) ->
  RInv2 (fun _ : cache => True) [] (set_log (LInvoke "<root>" None PNone PNone :: w_log w1) w1).
Proof.
  intros w cf old nm vers w1 ccd Hwf Hok HF Hnc Hml HW Hnd Hlen E.
  pose proof (RInv2_start_world (fun _ => True) w cf old nm vers Hwf Hok HF Hnc Hml HW I) as HR0.
  pose proof (RInv_start_world w cf old nm vers Hwf Hok HF) as HR.
  set (s := start_world w cf old nm vers) in *.
  pose proof (make_dirs_gl walk_fuel _ _ _ _ E Hlen) as G.
  pose proof (make_dirs_quiet _ _ _ _ E) as [_ Q2].
  unfold make_dirs in E. apply bind_inv in E. destruct E as [[wa [ds [Eds E]]]|[e [_ E]]]; [|discriminate].
  destruct HR as (HX & HP & _).
  destruct (dirs_to_make_spec _ [] s wa ds HX Eds) as [Q _ _].
  destruct (qrel_facts _ _ _ HX Q) as (HXa & Sa & _ & Fa).
  apply bind_inv in E. destruct E as [[wb [u [El E]]]|[e [_ E]]]; [|discriminate].
  inversion E; subst wb ccd. clear E.
  destruct (make_dirs_loop_res _ _ _ _ _ El) as [((C1 & C2 & C3 & C4) & S2 & S3) M].
  assert (Hwfa : fs_wf (w_fs wa)) by (rewrite (sv_fs _ _ Sa); exact Hwf).
  assert (HX1 : XInv [] w1).
  { apply (XInv_dirs_added wa w1 HXa).
    - rewrite (sv_counts _ _ Sa). reflexivity.
    - rewrite (sv_created _ _ Sa). reflexivity.
    - intro x. destruct (mem_path x (bd_maybe (w_bd wa))) eqn:Em; [|reflexivity].
      pose proof (ViewXFrame.q_mb _ _ _ Fa x Em) as Y. unfold s in Y. cbn [w_bd start_world bd_init bd_maybe] in Y.
      rewrite Hnd in Y. cbn in Y. discriminate Y.
    - intro x. destruct (mem_path x (bd_removed (w_bd wa))) eqn:Em; [|reflexivity].
      destruct (ViewXFrame.q_rm _ _ _ Fa x Em) as [Y|Y]; unfold s in Y; cbn [w_bd start_world bd_init bd_maybe bd_removed] in Y.
      + rewrite Hnd in Y. cbn in Y. discriminate Y.
      + cbn in Y. discriminate Y.
    - exact C1.
    - exact C2.
    - exact C3.
    - exact C4.
    - exact (S2 Hwfa).
    - intro x. destruct (in_dec path_eq_dec x ds) as [Hin|Hin].
      + destruct (M x Hin) as [Y|(Y & _)]; [right; exact Y|left; exact Y].
      + left. apply S3. exact Hin. }
  apply (@RInv2_step (fun _ => True) [] [] s _ HR0).
  - destruct G as (G1 & G2 & G3). split; [exact G1|]. split; [exact G2|exact G3].
  - split; [eapply XInv_fields; [exact HX1|..]; reflexivity|].
    split.
    + intros x Hx. cbn [w_new set_log] in Hx. rewrite C3 in Hx. rewrite (sv_new _ _ Sa) in Hx. exact (HP x Hx).
    + cbn [w_faults set_log]. rewrite Q2. exact HF.
Qed.

Print Assumptions RInv2_root_entry_rebuild.
Print Assumptions RInv2_root_entry_nodirs.
