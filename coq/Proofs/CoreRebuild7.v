(* Proofs/CoreRebuild7.v — preparations for the rebuild theorem: a derivation of a run gives back the
   equation of [core_run]; the root-level answers [core_top] one node at a time; the cache file path is
   never claimed; looking up the committed cache; when the cache lookups of Core succeed. *)
From Coq Require Import List String Ascii NArith ZArith Bool Arith Lia Btauto.
From FB.Base Require Import PyVal Fs.
From FB.Gen Require Import JsonUtilGen.
From FB.Spec Require Import JsonSpec Prog Ref Oracle Faithful.
From FB.Model Require Import Types SimpleOps Builder Persist Core CoreOracle CoreCache.
From FB.Proofs Require Import FsLemmas JsonLaws PersistLaws CleanLaws CoreLawsChildren CoreLawsJson CoreLaws1 CoreLaws2 CoreLaws3 CoreLaws4 CoreLaws5 CoreLaws6
     CoreRebuildDefs CoreRebuild1 CoreRebuild2 CoreRebuild3 CoreRebuild4 CoreRebuild5 CoreRebuild6.
Import ListNotations.
Local Open Scope list_scope.

(* ------------------------------------------------------------------ *)
(* from a derivation back to core_run                                 *)
(* ------------------------------------------------------------------ *)
Lemma core_run_Ask_ans : forall q k tgt pend subs s,
  core_run (Ask false q k) tgt pend subs s =
  core_run (k (ans_out (spec_answer (k_fs s) q))) tgt pend (subs ++ [record_of q (record_answer (k_fs s) q)])
           (klog (LAnswer q (spec_answer (k_fs s) q)) s).
Proof. intros. rewrite core_run_Ask. cbv zeta. destruct (spec_answer (k_fs s) q); reflexivity. Qed.

Lemma core_run_SB_steps : forall fname a kw fn k tgt pend subs s sa skw,
  sanitize a = Some sa -> sanitize kw = Some skw ->
  core_run (Subbuild false fname a kw fn k) tgt pend subs s =
  let key := subbuild_key fname sa skw in
  if existsb (py_eq key) (k_claimedS s)
  then core_run (k (inr (XRuntime RDupSubbuild))) tgt pend (subs ++ [OSubbuild fname sa skw [] PNone true true]) s
  else
    match core_subhit s fname key with
    | Some (subs', ret', r) =>
        let o := OSubbuild fname sa skw subs' ret' false false in
        core_run (k (inl ret')) tgt pend (subs ++ [o]) (adopt s r o)
    | None =>
        let '(s2, (res, _, bsubs)) := core_run (fn sa skw) None None [] (core_substart s fname sa skw) in
        let o := sub_rec fname sa skw bsubs res in
        core_run (k (sub_out res)) tgt pend (subs ++ [o]) (core_subreg s2 key o)
    end.
Proof. intros. rewrite core_run_Subbuild, H, H0. reflexivity. Qed.

Theorem core_of_run : forall pr tgt pend s s' out pend' new,
  Run pr tgt pend s s' out pend' new ->
  forall subs, core_run pr tgt pend subs s = (s', (out, pend', subs ++ new)).
Proof.
  intros pr tgt pend s s' out pend' new H. induction H; intro subs.
  - rewrite app_nil_r. reflexivity.
  - rewrite app_nil_r. reflexivity.
  - rewrite core_run_Ask. apply IHRun.
  - rewrite core_run_Ask_ans, IHRun, <- app_assoc. reflexivity.
  - rewrite core_run_Write. apply IHRun.
  - rewrite core_run_Write, H. apply IHRun.
  - rewrite core_run_Write, H, app_nil_r. reflexivity.
  - rewrite (core_run_skipBF _ _ _ _ _ _ _ _ _ _ _ _ _ H). apply IHRun.
  - rewrite (core_run_BF_setup _ _ _ _ _ _ _ _ _ _ _ sa skw H H0), H1, IHRun, <- app_assoc. reflexivity.
  - rewrite (core_run_BF_setup _ _ _ _ _ _ _ _ _ _ _ sa skw H H0), H1. cbv zeta. rewrite H2, IHRun, <- app_assoc. reflexivity.
  - rewrite (core_run_BF_setup _ _ _ _ _ _ _ _ _ _ _ sa skw H H0), H1. cbv zeta. rewrite H2, (IHRun1 []). cbn [app].
    rewrite H4, IHRun2, <- app_assoc. reflexivity.
  - rewrite (core_run_skipSB _ _ _ _ _ _ _ _ _ _ _ H). apply IHRun.
  - rewrite (core_run_SB_steps _ _ _ _ _ _ _ _ _ sa skw H H0). cbv zeta. rewrite H1, IHRun, <- app_assoc. reflexivity.
  - rewrite (core_run_SB_steps _ _ _ _ _ _ _ _ _ sa skw H H0). cbv zeta. rewrite H1, H2, IHRun, <- app_assoc. reflexivity.
  - rewrite (core_run_SB_steps _ _ _ _ _ _ _ _ _ sa skw H H0). cbv zeta. rewrite H1, H2, (IHRun1 []). cbn [app].
    rewrite IHRun2, <- app_assoc. reflexivity.
Qed.

(* ------------------------------------------------------------------ *)
(* root-level answers, one node at a time                             *)
(* ------------------------------------------------------------------ *)
Lemma core_top_Ask_ans : forall q k tgt pend subs s,
  core_top (Ask false q k) tgt pend subs s =
  LAnswer q (spec_answer (k_fs s) q) ::
  core_top (k (ans_out (spec_answer (k_fs s) q))) tgt pend (subs ++ [record_of q (record_answer (k_fs s) q)])
           (klog (LAnswer q (spec_answer (k_fs s) q)) s).
Proof. intros. cbn [core_top]. destruct (spec_answer (k_fs s) q); reflexivity. Qed.

Lemma core_top_skipBF : forall st p c fname a kw fn k tgt pend subs s e,
  call_skip st a kw = Some e ->
  core_top (BuildFile st p c fname a kw fn k) tgt pend subs s = core_top (k (inr e)) tgt pend subs s.
Proof.
  intros st p c fname a kw fn k tgt pend subs s e H. cbn [core_top]. unfold call_skip in H.
  destruct st; [inversion H; reflexivity|].
  destruct (sanitize a); [destruct (sanitize kw); [discriminate|]|]; inversion H; reflexivity.
Qed.

Lemma core_top_skipSB : forall st fname a kw fn k tgt pend subs s e,
  call_skip st a kw = Some e ->
  core_top (Subbuild st fname a kw fn k) tgt pend subs s = core_top (k (inr e)) tgt pend subs s.
Proof.
  intros st fname a kw fn k tgt pend subs s e H. cbn [core_top]. unfold call_skip in H.
  destruct st; [inversion H; reflexivity|].
  destruct (sanitize a); [destruct (sanitize kw); [discriminate|]|]; inversion H; reflexivity.
Qed.

Lemma core_top_BF_setup : forall p c fname a kw fn k tgt pend subs s sa skw,
  sanitize a = Some sa -> sanitize kw = Some skw ->
  core_top (BuildFile false p c fname a kw fn k) tgt pend subs s =
  match bf_setup s p with
  | inr e => core_top (k (inr e)) tgt pend (subs ++ [OBuildFile p c fname sa skw [] PNone PNone true true]) s
  | inl (fs1, dirs) =>
      let s0 := core_s0 s p fs1 dirs in
      match core_hit s s0 p fname sa skw with
      | Some (f, subs', ret', r) =>
          let o := OBuildFile p c fname sa skw subs' ret' (cmp_of c f) false false in
          core_top (k (inl ret')) tgt pend (subs ++ [o]) (core_put (adopt s0 r o) p f)
      | None =>
          let '(s2, (res, pend2, bsubs)) := core_run (fn p sa skw) (Some p) None [] (core_start s0 p fname sa skw) in
          let '(s3, out, o) := core_finish s2 p c fname sa skw bsubs res pend2 in
          core_top (k out) tgt pend (subs ++ [o]) s3
      end
  end.
Proof.
  intros. cbn [core_top]. rewrite H, H0. cbv zeta. unfold bf_setup.
  destruct (claim_check (k_claimedF s) (k_cachefile s) p); [reflexivity|].
  destruct (setup_fs (k_fs s) (k_cachefile s) p) as [[fs1 dirs]|e]; reflexivity.
Qed.

Lemma core_top_SB_steps : forall fname a kw fn k tgt pend subs s sa skw,
  sanitize a = Some sa -> sanitize kw = Some skw ->
  core_top (Subbuild false fname a kw fn k) tgt pend subs s =
  let key := subbuild_key fname sa skw in
  if existsb (py_eq key) (k_claimedS s)
  then core_top (k (inr (XRuntime RDupSubbuild))) tgt pend (subs ++ [OSubbuild fname sa skw [] PNone true true]) s
  else
    match core_subhit s fname key with
    | Some (subs', ret', r) =>
        let o := OSubbuild fname sa skw subs' ret' false false in
        core_top (k (inl ret')) tgt pend (subs ++ [o]) (adopt s r o)
    | None =>
        let '(s2, (res, _, bsubs)) := core_run (fn sa skw) None None [] (core_substart s fname sa skw) in
        let o := sub_rec fname sa skw bsubs res in
        core_top (k (sub_out res)) tgt pend (subs ++ [o]) (core_subreg s2 key o)
    end.
Proof. intros. cbn [core_top]. rewrite H, H0. reflexivity. Qed.

(* the root-level answers along a derivation; they do not depend on the records accumulated so far *)
Theorem core_top_run : forall pr tgt pend s s' out pend' new,
  Run pr tgt pend s s' out pend' new ->
  forall subs subs', core_top pr tgt pend subs s = core_top pr tgt pend subs' s.
Proof.
  intros pr tgt pend s s' out pend' new H. induction H; intros sb sb'; try reflexivity.
  - cbn [core_top]. apply IHRun.
  - rewrite !core_top_Ask_ans. f_equal. apply IHRun.
  - cbn [core_top]. apply IHRun.
  - cbn [core_top]. rewrite H. apply IHRun.
  - cbn [core_top]. rewrite H. reflexivity.
  - rewrite !(core_top_skipBF _ _ _ _ _ _ _ _ _ _ _ _ _ H). apply IHRun.
  - rewrite !(core_top_BF_setup _ _ _ _ _ _ _ _ _ _ _ sa skw H H0), H1. apply IHRun.
  - rewrite !(core_top_BF_setup _ _ _ _ _ _ _ _ _ _ _ sa skw H H0), H1. cbv zeta. rewrite H2. apply IHRun.
  - rewrite !(core_top_BF_setup _ _ _ _ _ _ _ _ _ _ _ sa skw H H0), H1. cbv zeta.
    rewrite H2, (core_of_run _ _ _ _ _ _ _ _ H3 []). cbn [app]. rewrite H4. apply IHRun2.
  - rewrite !(core_top_skipSB _ _ _ _ _ _ _ _ _ _ _ H). apply IHRun.
  - rewrite !(core_top_SB_steps _ _ _ _ _ _ _ _ _ sa skw H H0). cbv zeta. rewrite H1. apply IHRun.
  - rewrite !(core_top_SB_steps _ _ _ _ _ _ _ _ _ sa skw H H0). cbv zeta. rewrite H1, H2. apply IHRun.
  - rewrite !(core_top_SB_steps _ _ _ _ _ _ _ _ _ sa skw H H0). cbv zeta.
    rewrite H1, H2, (core_of_run _ _ _ _ _ _ _ _ H3 []). cbn [app]. apply IHRun2.
Qed.

(* only answers *)
Theorem core_top_answers : forall pr tgt pend s s' out pend' new,
  Run pr tgt pend s s' out pend' new -> forall subs, forallb is_answer (core_top pr tgt pend subs s) = true.
Proof.
  intros pr tgt pend s s' out pend' new H. induction H; intro sb; try reflexivity.
  - cbn [core_top]. apply IHRun.
  - rewrite core_top_Ask_ans. cbn [forallb is_answer andb]. apply IHRun.
  - cbn [core_top]. apply IHRun.
  - cbn [core_top]. rewrite H. apply IHRun.
  - cbn [core_top]. rewrite H. reflexivity.
  - rewrite (core_top_skipBF _ _ _ _ _ _ _ _ _ _ _ _ _ H). apply IHRun.
  - rewrite (core_top_BF_setup _ _ _ _ _ _ _ _ _ _ _ sa skw H H0), H1. apply IHRun.
  - rewrite (core_top_BF_setup _ _ _ _ _ _ _ _ _ _ _ sa skw H H0), H1. cbv zeta. rewrite H2. apply IHRun.
  - rewrite (core_top_BF_setup _ _ _ _ _ _ _ _ _ _ _ sa skw H H0), H1. cbv zeta.
    rewrite H2, (core_of_run _ _ _ _ _ _ _ _ H3 []). cbn [app]. rewrite H4. apply IHRun2.
  - rewrite (core_top_skipSB _ _ _ _ _ _ _ _ _ _ _ H). apply IHRun.
  - rewrite (core_top_SB_steps _ _ _ _ _ _ _ _ _ sa skw H H0). cbv zeta. rewrite H1. apply IHRun.
  - rewrite (core_top_SB_steps _ _ _ _ _ _ _ _ _ sa skw H H0). cbv zeta. rewrite H1, H2. apply IHRun.
  - rewrite (core_top_SB_steps _ _ _ _ _ _ _ _ _ sa skw H H0). cbv zeta.
    rewrite H1, H2, (core_of_run _ _ _ _ _ _ _ _ H3 []). cbn [app]. apply IHRun2.
Qed.

(* ------------------------------------------------------------------ *)
(* the cache file path is never claimed                               *)
(* ------------------------------------------------------------------ *)
Lemma RepL_not_cf : forall B l r r', RepL B l r r' -> mem_path (k_cachefile B) (fst (cll l)) = false.
Proof.
  intros B l r r' H. induction H.
  - reflexivity.
  - rewrite cll_cons. exact IHRepL.
  - rewrite cll_cons, tree_claims_BF. cbn [fst]. rewrite mem_path_app. cbn [mem_path]. rewrite H3, IHRepL1, IHRepL2. reflexivity.
  - rewrite cll_cons, tree_claims_SB. cbn [fst]. rewrite mem_path_app, IHRepL1, IHRepL2. reflexivity.
Qed.

Section NotCf.
  Variable t0 : fsT.
  Definition NCF (s : kstate) : Prop := mem_path (k_cachefile s) (k_claimedF s) = false.
  Definition NRel (s s' : kstate) : Prop := NCF s -> NCF s'.

  Theorem run_ncf : forall pr tgt pend s s' out pend' new,
    Run pr tgt pend s s' out pend' new -> GoodEnd t0 s' -> NRel s s'.
  Proof.
    apply (run_rel (GoodEnd t0) (good_mono t0) NRel); unfold NRel, NCF; auto.
    - intros s p c fname sa skw fs1 dirs f subs1 ret1 r Hs Hh HG N.
      set (o := OBuildFile p c fname sa skw subs1 ret1 (cmp_of c f) false false) in *.
      destruct (bf_setup_ok _ _ _ _ Hs) as [_ [Hpcf _]]. destruct (core_hit_ok _ _ _ _ _ _ _ _ _ _ Hh) as [Hk _].
      assert (Hco : op_clean o = true).
      { destruct HG as [G1 _]. apply (G1 (p, o)). cbn [core_put adopt ks_with k_newF]. apply in_or_app. right.
        unfold o. rewrite tree_regs_BF. left. reflexivity. }
      apply op_clean_BF in Hco. destruct Hco as [_ [_ Hcs]].
      pose proof (RepL_not_cf _ _ _ _ (kreplay_RepL _ _ Hcs _ _ Hk)) as Hn. cbn in Hn.
      cbn [core_put adopt ks_with k_claimedF k_cachefile core_s0]. unfold o. rewrite tree_claims_BF. cbn [fst].
      rewrite mem_path_app. cbn [mem_path]. rewrite Hpcf, Hn, N. reflexivity.
    - intros s p c fname sa skw fs1 dirs s2 res pend2 bsubs s3 out3 o Hs Hb Kb Hf HG N.
      destruct (bf_setup_ok _ _ _ _ Hs) as [_ [Hpcf _]].
      destruct (finish_kconst _ _ _ _ _ _ _ _ _ _ _ _ Hf) as [[K1 _] [_ [CF _]]]. destruct Kb as [Kb1 _].
      rewrite CF, K1. apply Hb. cbn. cbn in N. rewrite Hpcf, N. reflexivity.
    - intros s fname sa skw subs1 ret1 r Hd Hh HG N.
      set (o := OSubbuild fname sa skw subs1 ret1 false false) in *.
      pose proof (core_subhit_ok _ _ _ _ _ _ Hh) as Hk.
      assert (Hco : op_clean o = true).
      { destruct HG as [_ G2]. apply (G2 (subbuild_key fname sa skw, o)). cbn [adopt ks_with k_newS]. apply in_or_app. right.
        unfold o. rewrite tree_regs_SB. left. reflexivity. }
      apply op_clean_SB in Hco. destruct Hco as [_ [_ Hcs]].
      pose proof (RepL_not_cf _ _ _ _ (kreplay_RepL _ _ Hcs _ _ Hk)) as Hn.
      cbn [adopt ks_with k_claimedF k_cachefile]. unfold o. rewrite tree_claims_SB. cbn [fst].
      rewrite mem_path_app, Hn, N. reflexivity.
  Qed.
End NotCf.

(* ------------------------------------------------------------------ *)
(* looking up the committed cache                                     *)
(* ------------------------------------------------------------------ *)
Lemma subs_of_get1 : forall regs k o, distinct_keys (map fst regs) = true -> py_eq k k = true -> In (k, o) regs ->
  subs_get (subs_of regs) k = Some (Some o).
Proof.
  induction regs as [|e regs IH] using rev_ind; intros k o D R Hin; [contradiction|].
  rewrite map_app in D. simpl in D. apply distinct_keys_app in D. destruct D as [D1 D2].
  assert (U : forall q, In q (map fst (subs_of regs)) -> py_eq q (fst e) = true -> q = fst e).
  { intros q Hq Hp. apply subs_of_keys in Hq. destruct (D2 q Hq) as [Hx _]. congruence. }
  rewrite subs_of_snoc. apply in_app_or in Hin. destruct Hin as [Hin|[E|[]]].
  - rewrite subs_set_get_other; [apply IH; auto| |exact U].
    apply D2. apply in_map_iff. exists (k, o). split; [reflexivity|exact Hin].
  - subst e. simpl. simpl in U. apply subs_set_get_same; [exact R|exact U].
Qed.

Lemma core_hit_intro : forall s s0 p c fname sa skw subsX retX g r,
  cache_get_file (k_old s) p = Some (OBuildFile p c fname sa skw subsX retX (cmp_of c g) false false) ->
  kversion_equal s fname = true -> is_equal sa sa = true -> is_equal skw skw = true ->
  phys (k_fs s0) (k_stale s0) p = Some g ->
  kreplay_list s0 subsX (start_replay s0) = Some r ->
  core_hit s s0 p fname sa skw = Some (g, subsX, retX, r).
Proof.
  intros s s0 p c fname sa skw subsX retX g r H1 H2 H3 H4 H5 H6. unfold core_hit.
  rewrite H1, String.eqb_refl, H2, H3, H4, H5, cmp_of_refl, H6. reflexivity.
Qed.

Lemma core_subhit_intro : forall s fname sa skw subsX retX r,
  subs_get (c_subs (k_old s)) (subbuild_key fname sa skw) = Some (Some (OSubbuild fname sa skw subsX retX false false)) ->
  kversion_equal s fname = true ->
  kreplay_list s subsX (start_replay s) = Some r ->
  core_subhit s fname (subbuild_key fname sa skw) = Some (subsX, retX, r).
Proof.
  intros s fname sa skw subsX retX r H1 H2 H3. unfold core_subhit. rewrite H1, H2, H3. reflexivity.
Qed.
