(* Proofs/ViewXRoom2.v — C04, reachability: _make_room.  When the path of a new target is a
   dead directory, everything physically in it is invisible; moving the hidden files away
   and removing the dead directories changes no answer and keeps XInv, whatever the outcome
   (success: the directory is gone). *)
From Coq Require Import List String Ascii NArith ZArith Bool Arith Lia.
From FB.Base Require Import PyVal Fs.
From FB.Gen Require Import JsonUtilGen.
From FB.Model Require Import Types Monad CreatedFiles BuildDirs SimpleOps Builder.
From FB.Proofs Require Import FsLemmas CleanLaws JsonLaws CoreLawsChildren ReplayLaws BuildFileLaws
     ViewDefs ViewLemmas ViewScan ViewQueries ViewAnswers ViewPres ViewFrame ViewPrepare
     ViewXDefs ViewXFrame ViewXQuery ViewXSteps ViewXMake1 ViewXMake2 ViewXFail ViewXRoom1.
Import ListNotations.
Open Scope list_scope.
Open Scope m_scope.

(* what may change: the tree and [dead], only at the paths in P *)
Record rrel (P : path -> Prop) (w w1 : world) : Prop := {
  rr_new : w_new w1 = w_new w;
  rr_old : w_old w1 = w_old w;
  rr_cf : w_cachefile w1 = w_cachefile w;
  rr_faults : w_faults w1 = w_faults w;
  rr_same : forall y, ~ P y -> lookup (w_fs w1) y = lookup (w_fs w) y /\ dead w1 y = dead w y
}.

Lemma rrel_refl : forall P w, rrel P w w.
Proof. intros P w. constructor; auto. Qed.

Lemma rrel_trans : forall P a b c, rrel P a b -> rrel P b c -> rrel P a c.
Proof.
  intros P a b c [A1 A2 A3 A4 A5] [B1 B2 B3 B4 B5]. constructor; try congruence.
  intros y Hy. destruct (A5 y Hy) as [X1 X2]. destruct (B5 y Hy) as [Y1 Y2]. split; congruence.
Qed.

Lemma rrel_weaken : forall (P Q : path -> Prop) a b, (forall y, P y -> Q y) -> rrel P a b -> rrel Q a b.
Proof. intros P Q a b H [A1 A2 A3 A4 A5]. constructor; auto. Qed.

Lemma qrel_rrel : forall T P w w1, XInv T w -> qrel w w1 -> rrel P w w1.
Proof.
  intros T P w w1 HX Q. destruct (qrel_facts _ _ _ HX Q) as (_ & S & SV & _).
  destruct SV as (_ & _ & _ & _ & _ & _ & _ & _ & _ & V & _).
  constructor; try apply S; try exact V. intros y _. split; [rewrite (sv_fs _ _ S); reflexivity|apply (sv_dead _ _ S)].
Qed.

(* ---- back_up_and_remove without faults ---- *)
Lemma back_up_nofault : forall a w w1 r, w_faults w = [] -> back_up_and_remove a w = (w1, r) ->
  w_faults w1 = [] /\ same_core w w1 /\
  (isfile (w_fs w) a = true -> r = inl true /\ lookup (w_fs w1) a = None /\
                               forall q, q <> a -> lookup (w_fs w1) q = lookup (w_fs w) q) /\
  (isfile (w_fs w) a = false -> isdir (w_fs w) a = false -> w_fs w1 = w_fs w).
Proof.
  intros a w w1 r HF H. unfold back_up_and_remove in H. apply bind_inv in H.
  destruct H as [[wa [u [E H]]]|[e [E _]]].
  2:{ exfalso. destruct (effect_nofault_inv _ _ _ _ _ _ HF E) as (_ & _ & [[fs' (_ & _ & R3)]|[e3 (R1 & _ & _)]]); discriminate. }
  destruct (effect_nofault_inv _ _ _ _ _ _ HF E) as (Fa & Ca & [[fs' (R1 & R2 & _)]|[e3 (R1 & _ & _)]]); [|discriminate].
  assert (Efa: w_fs wa = w_fs w) by (inversion R1; congruence).
  rewrite Fa in H. cbn [existsb] in H. cbn [w_fs set_effects] in H. rewrite Efa in H.
  destruct Ca as (C1 & C2 & C3 & C4).
  unfold rename_out in H.
  destruct (lookup (w_fs w) a) as [[g|]|] eqn:El.
  - destruct a as [|n d]; [cbn in El; discriminate|]. inversion H; subst w1 r.
    split; [exact Fa|]. split; [repeat split; assumption|]. split.
    + intros _. split; [reflexivity|]. cbn [w_fs set_log set_backups set_fs]. split; [apply lookup_upd_eq; discriminate|].
      intros q Hq. apply lookup_upd_neq. exact Hq.
    + unfold isfile. rewrite El. discriminate.
  - split; [|split; [|split]].
    + destruct a; inversion H; subst; exact Fa.
    + destruct a; inversion H; subst; repeat split; assumption.
    + unfold isfile. rewrite El. discriminate.
    + unfold isdir. rewrite El. discriminate.
  - cbn [err_of] in H. unfold stat_err in H.
    split; [|split; [|split]].
    + destruct (absent_err (w_fs w) a); inversion H; subst; exact Fa.
    + destruct (absent_err (w_fs w) a); inversion H; subst; repeat split; assumption.
    + unfold isfile. rewrite El. discriminate.
    + intros _ _. destruct (absent_err (w_fs w) a); inversion H; subst; exact Efa.
Qed.

(* ---- the loop body of make_room, named ---- *)
Definition room_step (f : nat) (d : path) (n : name) : M unit :=
  let a := n :: d in
  w' <- get ;;
  if isdir (w_fs w') a then
    vd <- m_is_dir a None ;;
    if vd then raise (XOS XIsADirectory) else make_room f a
  else
    vf <- m_is_file a None ;;
    if vf then raise (XOS XIsADirectory) else
    b <- back_up_and_remove a ;; ret tt.

Lemma make_room_eq : forall f d,
  make_room (S f) d =
  (w <- get ;;
   match listdir (w_fs w) d with
   | inr e => raise (XOS (err_of e))
   | inl names =>
       mapM_ (room_step f d) names ;;;
       catch (effect "rmdir" d (fun fs => rmdir fs d))
             (fun e => if is_os e then raise (XOS XIsADirectory) else raise e)
   end).
Proof. reflexivity. Qed.

Section Room.
  Variable T : list path.

  Definition RI (p : path) (w : world) : Prop :=
    XInv T w /\ isdir (w_fs w) p = true /\ dead w p = true /\ w_faults w = [].

  Definition below_strict (p y : path) : Prop := psuffix p y.
  Definition below_eq (p y : path) : Prop := suffix p y.

  Lemma RI_step : forall p w w1, RI p w -> XInv T w1 -> rrel (below_strict p) w w1 -> RI p w1.
  Proof.
    intros p w w1 (HX & Hd & Hdead & HF) HX1 R.
    assert (Hn: ~ below_strict p p) by (intro H; apply psuffix_neq in H; congruence).
    destruct (rr_same _ _ _ R p Hn) as [E1 E2].
    split; [exact HX1|]. split; [unfold isdir in *; rewrite E1; exact Hd|]. split; [congruence|].
    rewrite (rr_faults _ _ _ R). exact HF.
  Qed.

  Lemma dead_child_invis : forall p w n, dead w p = true -> lexists (w_fs w) (n :: p) = true -> invis w (n :: p) = true.
  Proof.
    intros p w n Hd Hex. rewrite dead_unfold in Hd. apply andb_true_iff in Hd. destruct Hd as [_ Hd].
    destruct (lookup (w_fs w) p) as [[g|]|]; try discriminate. rewrite forallb_forall in Hd.
    apply Hd. apply children_In. exact Hex.
  Qed.

  Lemma dead_not_counted : forall w p, dead w p = true -> in_counts (w_bd w) p = false.
  Proof. intros w p H. destruct (in_counts (w_bd w) p) eqn:E; [|reflexivity]. rewrite (dead_counts _ _ E) in H. discriminate. Qed.

  Definition room_post (p : path) (w w1 : world) (r : unit + exn) : Prop :=
    XInv T w1 /\ rrel (below_eq p) w w1 /\ (r = inl tt -> lookup (w_fs w1) p = None).

  (* one entry of the directory *)
  Lemma room_step_ok : forall f,
    (forall p w w1 r, RI p w -> make_room f p w = (w1, r) -> room_post p w w1 r) ->
    forall p n w w1 r, RI p w -> room_step f p n w = (w1, r) ->
    XInv T w1 /\ rrel (below_strict p) w w1.
  Proof.
    intros f IH p n w w1 r HR H. pose proof HR as (HX & Hd & Hdead & HF).
    unfold room_step in H. cbv zeta in H. apply bind_inv in H. unfold get in H.
    destruct H as [[wa [w0 [E H]]]|[e [E _]]]; [|discriminate]. inversion E; subst wa w0.
    assert (Hsub: forall y, below_eq (n :: p) y -> below_strict p y).
    { intros y [l Hl]. subst y. destruct l as [|k l'].
      - exists n, []. reflexivity.
      - exists k, (l' ++ [n]). cbn [app]. rewrite <- app_assoc. reflexivity. }
    destruct (isdir (w_fs w) (n :: p)) eqn:Ei.
    - (* a directory: dead, hence not visible *)
      apply bind_inv in H. destruct H as [[wa [vd [Ed H]]]|[e [Ed Er]]].
      2:{ pose proof (m_is_dir_q _ _ _ _ _ Ed) as Q. split; [eapply qrel_XInv; eassumption|eapply qrel_rrel; eassumption]. }
      pose proof (m_is_dir_q _ _ _ _ _ Ed) as Q. destruct (qrel_facts _ _ _ HX Q) as (HXa & Sa & _ & _).
      destruct (m_is_dir_inl _ _ _ _ _ HX Ed) as [Evd _].
      assert (Hex: lexists (w_fs w) (n :: p) = true) by (unfold lexists; apply isdir_lookup in Ei; rewrite Ei; reflexivity).
      pose proof (dead_child_invis p w n Hdead Hex) as Hinv. rewrite invis_unfold in Hinv.
      pose proof Ei as Ei'. apply isdir_lookup in Ei'. rewrite Ei' in Hinv.
      unfold vdir in Evd. rewrite Ei, Hinv in Evd. cbn in Evd. subst vd.
      assert (HRa: RI (n :: p) wa).
      { split; [exact HXa|]. split; [rewrite (sv_fs _ _ Sa); exact Ei|]. split; [rewrite (sv_dead _ _ Sa); exact Hinv|].
        destruct Q as (_ & _ & SV). destruct SV as (_ & _ & _ & _ & _ & _ & _ & _ & _ & V & _). congruence. }
      destruct (IH _ _ _ _ HRa H) as (HX1 & R1 & _).
      split; [exact HX1|]. eapply rrel_trans; [eapply qrel_rrel; eassumption|].
      eapply rrel_weaken; [exact Hsub|exact R1].
    - (* not a directory *)
      apply bind_inv in H. destruct H as [[wa [vf [Ef H]]]|[e [Ef Er]]].
      2:{ pose proof (m_is_file_q _ _ _ _ _ Ef) as Q. split; [eapply qrel_XInv; eassumption|eapply qrel_rrel; eassumption]. }
      pose proof (m_is_file_q _ _ _ _ _ Ef) as Q. destruct (qrel_facts _ _ _ HX Q) as (HXa & Sa & SVa & _).
      pose proof (qrel_rrel T (below_strict p) _ _ HX Q) as Ra.
      destruct vf; [inversion H; subst; split; assumption|].
      apply bind_inv in H.
      assert (HFa: w_faults wa = []) by (rewrite (rr_faults _ _ _ Ra); exact HF).
      assert (Hstep: forall wb rb, back_up_and_remove (n :: p) wa = (wb, rb) -> XInv T wb /\ rrel (below_strict p) wa wb).
      { intros wb rb Eb. destruct (back_up_nofault _ _ _ _ HFa Eb) as (Fb & (C1 & C2 & C3 & C4) & Hfile & Hnone).
        destruct (isfile (w_fs wa) (n :: p)) eqn:Efile.
        - destruct (Hfile eq_refl) as (_ & Hg & Ho).
          assert (Hexa: lexists (w_fs wa) (n :: p) = true).
          { unfold lexists. apply isfile_lookup in Efile. destruct Efile as [g Hg']. rewrite Hg'. reflexivity. }
          assert (Hdeada: dead wa p = true) by (rewrite (sv_dead _ _ Sa); exact Hdead).
          pose proof (dead_child_invis p wa n Hdeada Hexa) as Hinv.
          assert (Hkids: children (w_fs wa) (n :: p) = []).
          { apply children_nil_iff. intro k. destruct (lookup (w_fs wa) (k :: n :: p)) as [z|] eqn:Ek; [|reflexivity].
            pose proof (bi_wf _ (x_binv _ _ HXa) _ _ Ek) as Hp. cbn [dirname tl] in Hp.
            apply isfile_lookup in Efile. destruct Efile as [g Hg']. congruence. }
          assert (Hnc: in_counts (w_bd wa) (n :: p) = false).
          { destruct (in_counts (w_bd wa) (n :: p)) eqn:Enc; [|reflexivity].
            apply (bi_counts_up _ (x_binv _ _ HXa)) in Enc. rewrite (dead_not_counted _ _ Hdeada) in Enc. discriminate. }
          pose proof (remove_leaf_XInv T wa n p (w_fs wb) HXa Hinv Hkids Hnc Hg Ho) as HXl.
          split.
          + eapply XInv_fields; [exact HXl|..]; cbn; auto.
          + constructor; try congruence.
            intros y Hy. assert (Hne: y <> n :: p).
            { intro; subst y. apply Hy. exists n, []. reflexivity. }
            split; [apply Ho; exact Hne|].
            pose proof (lf_dead wa n p (w_fs wb) Hinv Hg Ho y Hne) as Hl.
            rewrite <- Hl. unfold dead. cbn [w_fs w_bd set_fs]. rewrite C1. unfold hid. rewrite C2, C3, C4. reflexivity.
        - assert (Hnd: isdir (w_fs wa) (n :: p) = false) by (rewrite (sv_fs _ _ Sa); exact Ei).
          pose proof (Hnone eq_refl Hnd) as Efs.
          split; [eapply XInv_fields; [exact HXa|..]; assumption|].
          constructor; try congruence. intros y _. split; [congruence|].
          unfold dead. rewrite Efs, C1. unfold hid. rewrite C2, C3, C4. reflexivity. }
      destruct H as [[wb [bb [Eb H]]]|[e [Eb Er]]].
      + inversion H; subst. destruct (Hstep _ _ Eb) as [A B]. split; [exact A|eapply rrel_trans; eassumption].
      + destruct (Hstep _ _ Eb) as [A B]. split; [exact A|eapply rrel_trans; eassumption].
  Qed.

  Lemma room_loop_ok : forall f,
    (forall p w w1 r, RI p w -> make_room f p w = (w1, r) -> room_post p w w1 r) ->
    forall p ns w w1 r, RI p w -> mapM_ (room_step f p) ns w = (w1, r) ->
    XInv T w1 /\ rrel (below_strict p) w w1.
  Proof.
    intros f IH p ns. induction ns as [|n ns IHn]; intros w w1 r HR H; cbn [mapM_] in H.
    - inversion H; subst. split; [apply HR|apply rrel_refl].
    - apply bind_inv in H. destruct H as [[wa [u [E H]]]|[e [E _]]].
      + destruct (room_step_ok f IH p n w wa _ HR E) as [HXa Ra].
        pose proof (RI_step _ _ _ HR HXa Ra) as HRa.
        destruct (IHn _ _ _ HRa H) as [HX1 R1]. split; [exact HX1|eapply rrel_trans; eassumption].
      + apply (room_step_ok f IH p n w w1 _ HR E).
  Qed.

  Theorem make_room_ok : forall f p w w1 r, RI p w -> make_room f p w = (w1, r) -> room_post p w w1 r.
  Proof.
    induction f as [|f IH]; intros p w w1 r HR H.
    - cbn [make_room] in H. inversion H; subst. split; [apply HR|]. split; [apply rrel_refl|discriminate].
    - rewrite make_room_eq in H. apply bind_inv in H. unfold get in H.
      destruct H as [[wa [w0 [E H]]]|[e [E _]]]; [|discriminate]. inversion E; subst wa w0.
      pose proof HR as (HX & Hd & Hdead & HF).
      unfold listdir in H. pose proof Hd as Hd'. apply isdir_lookup in Hd'. rewrite Hd' in H.
      assert (Hweak: forall y, below_strict p y -> below_eq p y) by (intros y Hy; apply psuffix_suffix; exact Hy).
      apply bind_inv in H. destruct H as [[wa [u [E1 H]]]|[e [E1 Er]]].
      2:{ destruct (room_loop_ok f IH p _ _ _ _ HR E1) as [A B]. split; [exact A|]. split; [eapply rrel_weaken; eassumption|].
          subst r. discriminate. }
      destruct (room_loop_ok f IH p _ _ _ _ HR E1) as [HXa Ra].
      pose proof (RI_step _ _ _ HR HXa Ra) as (_ & Hda & Hdeada & HFa).
      unfold catch in H. destruct (effect "rmdir" p (fun fs => rmdir fs p) wa) as [wb rb] eqn:Ee.
      destruct (effect_nofault_inv _ _ _ _ _ _ HFa Ee) as (Fb & (C1 & C2 & C3 & C4) & [[fs' (R1 & R2 & R3)]|[e (R1 & R2 & R3)]]).
      + (* the directory was empty: removed *)
        subst rb. inversion H; subst w1 r.
        apply rmdir_frame in R1. destruct R1 as (_ & Hk & Hne & Hg & Ho).
        destruct p as [|m x]; [contradiction|].
        assert (Hexa: lexists (w_fs wa) (m :: x) = true) by (unfold lexists; apply isdir_lookup in Hda; rewrite Hda; reflexivity).
        assert (Hinv: invis wa (m :: x) = true).
        { rewrite invis_unfold. pose proof Hda as Hl. apply isdir_lookup in Hl. rewrite Hl. exact Hdeada. }
        pose proof (remove_leaf_XInv T wa m x fs' HXa Hinv Hk (dead_not_counted _ _ Hdeada) Hg Ho) as HXl.
        split; [eapply XInv_fields; [exact HXl|..]; cbn; auto|]. split; [|intros _; rewrite R2; exact Hg].
        eapply rrel_trans; [eapply rrel_weaken; eassumption|].
        constructor; try congruence.
        intros y Hy. assert (Hne': y <> m :: x) by (intro; subst y; apply Hy; apply suffix_refl).
        split; [rewrite R2; apply Ho; exact Hne'|].
        pose proof (lf_dead wa m x fs' Hinv Hg Ho y Hne') as Hl.
        rewrite <- Hl. unfold dead. cbn [w_fs w_bd set_fs]. rewrite R2, C1. unfold hid. rewrite C2, C3, C4. reflexivity.
      + (* rmdir failed *)
        subst rb. cbn [is_os] in H. inversion H; subst w1 r.
        split; [eapply XInv_fields; [exact HXa|..]; assumption|]. split; [|discriminate].
        eapply rrel_trans; [eapply rrel_weaken; eassumption|].
        constructor; try congruence. intros y _. split; [congruence|].
        unfold dead. rewrite R2, C1. unfold hid. rewrite C2, C3, C4. reflexivity.
  Qed.
End Room.

Print Assumptions make_room_ok.
