(* Proofs/ViewXSetup.v — C04, reachability: the setup of build_file (bf_setup of
   BuildFileLaws.v: everything before the user function is called) keeps the invariant
   package RInv, relative to two statements about stages that are not analysed here:
   [mkfail_statement] (a failing _make_dirs) and [hit_statement] (cache lookup, reuse of a
   cached record, claim).  Both are proved for caches without records in ViewXRun.v. *)
From Coq Require Import List String Ascii NArith ZArith Bool Arith Lia.
From FB.Base Require Import PyVal Fs.
From FB.Gen Require Import JsonUtilGen.
From FB.Model Require Import Types Monad CreatedFiles BuildDirs SimpleOps Builder.
From FB.Proofs Require Import FsLemmas CleanLaws JsonLaws CoreLawsChildren ReplayLaws BuildFileLaws
     ViewDefs ViewLemmas ViewScan ViewQueries ViewAnswers ViewPres ViewFrame ViewPrepare
     ViewXDefs ViewXFrame ViewXQuery ViewXError ViewXSteps ViewXMake1 ViewXMake2 ViewXFail ViewXRoom2 ViewXOld.
Import ListNotations.
Open Scope list_scope.
Open Scope m_scope.

(* ------------------------------------------------------------------ live targets as a multiset *)
Definition cnt (x : path) (L : list path) : nat := List.length (filter (path_eqb x) L).
Definition msub (T T' : list path) : Prop := forall x, cnt x T <= cnt x T'.

Lemma msub_refl : forall T, msub T T.
Proof. intros T x. lia. Qed.
Lemma msub_trans : forall a b c, msub a b -> msub b c -> msub a c.
Proof. intros a b c H1 H2 x. specialize (H1 x). specialize (H2 x). lia. Qed.

Lemma cnt_pos_in : forall x L, 0 < cnt x L <-> In x L.
Proof.
  intros x L. induction L as [|q L IH].
  - cbn. split; [lia|intros []].
  - unfold cnt in *. cbn [filter In]. destruct (path_eqb x q) eqn:E.
    + apply path_eqb_eq in E. subst q. cbn [List.length]. split; [auto|lia].
    + rewrite IH. split; [auto|]. intros [H|H]; [|exact H]. subst q. rewrite path_eqb_refl in E. discriminate.
Qed.

Lemma msub_in : forall T T' x, msub T T' -> In x T -> In x T'.
Proof. intros T T' x H Hin. apply cnt_pos_in. apply cnt_pos_in in Hin. specialize (H x). lia. Qed.

Lemma cnt_cons : forall x p L, cnt x (p :: L) = (if path_eqb x p then 1 else 0) + cnt x L.
Proof. intros x p L. unfold cnt. cbn [filter]. destruct (path_eqb x p); reflexivity. Qed.

Lemma msub_cons : forall p T, msub T (p :: T).
Proof. intros p T x. rewrite cnt_cons. lia. Qed.

Lemma cnt_rm1 : forall x p L, In p L -> cnt x L = cnt x (rm1 p L) + (if path_eqb x p then 1 else 0).
Proof.
  intros x p L. induction L as [|q L IH]; intro H; [destruct H|]. cbn [rm1].
  destruct (path_eqb q p) eqn:E.
  - apply path_eqb_eq in E. subst q. rewrite cnt_cons. lia.
  - destruct H as [H|H]; [subst; rewrite path_eqb_refl in E; discriminate|].
    rewrite !cnt_cons, (IH H). lia.
Qed.

Lemma msub_rm1 : forall p T T1, msub (p :: T) T1 -> msub T (rm1 p T1).
Proof.
  intros p T T1 H x. assert (Hin: In p T1) by (apply (msub_in _ _ p H); left; reflexivity).
  specialize (H x). rewrite cnt_cons in H. rewrite (cnt_rm1 x p T1 Hin) in H. lia.
Qed.

(* ------------------------------------------------------------------ the two statements *)
Definition bf_try (p : path) (c : cmpmode) (fname : string) (sargs skw : pyval) : M (option (op + exn * op)) :=
  cached <- build_file_cache_lookup p fname sargs skw ;;
  reused <- bf_reuse p c fname sargs skw cached ;;
  match reused with
  | Some (inl o) => ret (Some (inl o))
  | Some (inr eo) => m_bd_error p ;;; ret (Some (inr eo))
  | None => bf_claim p
  end.

Lemma bf_setup_eq : forall p c f sa skw,
  bf_setup p c f sa skw =
  (new_assert_no_file p ;;;
   icf <- is_cache_file p ;;
   (if icf then raise (XRuntime RCacheFileTarget) else ret tt) ;;;
   created <- prepare_file_creation p ;;
   locked <- m_bd_started p created ;;
   catch (bf_try p c f sa skw) (fun e => m_bd_error p ;;; raise e)).
Proof. reflexivity. Qed.

(* a failing _make_dirs (a mkdir refused after some directories were made: they are removed again) *)
Definition mkfail_statement : Prop :=
  forall T w d w1 e, RInv T w -> make_dirs d w = (w1, inr e) -> RInv T w1.

(* lookup / reuse / claim, from the world in which the target has just been reserved *)
Definition hit_post (T : list path) (p : path) (w w1 : world) (r : option (op + exn * op) + exn) : Prop :=
  match r with
  | inl None => RInv (p :: T) w1 /\ files_get (c_files (w_new w1)) p = Some None /\ w_old w1 = w_old w
  | inl (Some (inl o)) => exists T', RInv T' w1 /\ msub (p :: T) T'
  | inl (Some (inr _)) => False
  | inr e => RInv (p :: T) w1 /\ isfile (w_fs w1) p = false /\ files_get (c_files (w_new w1)) p <> Some None
  end.

Definition hit_statement_for (ok : cache -> Prop) : Prop :=
  forall T n d c f sa skw w w1 r, ok (w_old w) ->
    RInv ((n :: d) :: T) w -> cache_has_file (w_new w) (n :: d) = false -> isdir (w_fs w) (n :: d) = false ->
    bf_try (n :: d) c f sa skw w = (w1, r) -> hit_post T (n :: d) w w1 r.
Definition hit_statement : Prop := hit_statement_for (fun _ => True).

(* ------------------------------------------------------------------ _prepare_file_creation *)
Lemma RInv_rrel : forall T P w w1, RInv T w -> XInv T w1 -> rrel P w w1 -> RInv T w1.
Proof.
  intros T P w w1 (_ & HP & HF) HX R. split; [exact HX|]. split.
  - intros x Hx. apply HP. rewrite <- (rr_new _ _ _ R). exact Hx.
  - rewrite (rr_faults _ _ _ R). exact HF.
Qed.

Lemma prepare_RInv : forall T n d w w1 r, mkfail_statement -> RInv T w ->
  prepare_file_creation (n :: d) w = (w1, r) ->
  match r with
  | inr e => RInv T w1
  | inl created => exists wpre, RInv T wpre /\ isdir (w_fs wpre) (n :: d) = false /\
                                make_dirs d wpre = (w1, inl created) /\ w_new wpre = w_new w
  end.
Proof.
  intros T n d w w1 r HM HR H. pose proof HR as (HX & HP & HF).
  unfold prepare_file_creation in H. apply bind_inv in H. unfold get in H.
  destruct H as [[wa [w0 [E H]]]|[e [E _]]]; [|discriminate]. inversion E; subst wa w0.
  cbn [dirname tl] in H.
  (* the common end: make_dirs from a world in which the target is not a directory *)
  assert (Hend: forall wpre, RInv T wpre -> isdir (w_fs wpre) (n :: d) = false -> w_new wpre = w_new w ->
            make_dirs d wpre = (w1, r) ->
            match r with
            | inr e => RInv T w1
            | inl created => exists wpre, RInv T wpre /\ isdir (w_fs wpre) (n :: d) = false /\
                                          make_dirs d wpre = (w1, inl created) /\ w_new wpre = w_new w
            end).
  { intros wpre HRp Hnd Hn Hmk. destruct r as [created|e]; [exists wpre; auto|]. eapply HM; eassumption. }
  destruct (isdir (w_fs w) (n :: d)) eqn:Ei.
  - apply bind_inv in H. destruct H as [[wb [u [E1 H]]]|[e [E1 Er]]].
    + (* the directory was dead and has been removed *)
      apply bind_inv in E1. destruct E1 as [[wa [vd [Ed E1]]]|[e [_ E1]]]; [|discriminate].
      pose proof (m_is_dir_q _ _ _ _ _ Ed) as Q. pose proof (qrel_RInv T _ _ Q HR) as HRa.
      destruct (qrel_facts _ _ _ HX Q) as (HXa & Sa & _ & _).
      destruct (m_is_dir_inl _ _ _ _ _ HX Ed) as [Evd _].
      destruct vd; [discriminate|].
      assert (Hdead: dead w (n :: d) = true).
      { unfold vdir in Evd. rewrite Ei in Evd. cbn [andb] in Evd. symmetry in Evd. apply negb_false_iff in Evd. exact Evd. }
      assert (HRI: RI T (n :: d) wa).
      { split; [exact HXa|]. split; [rewrite (sv_fs _ _ Sa); exact Ei|]. split; [rewrite (sv_dead _ _ Sa); exact Hdead|apply HRa]. }
      destruct (make_room_ok T _ _ _ _ _ HRI E1) as (HXb & Rb & Hgone).
      pose proof (RInv_rrel _ _ _ _ HRa HXb Rb) as HRb.
      apply (Hend wb HRb).
      * unfold isdir. destruct u. rewrite (Hgone eq_refl). reflexivity.
      * rewrite (rr_new _ _ _ Rb). apply (sv_new _ _ Sa).
      * exact H.
    + subst r. apply bind_inv in E1. destruct E1 as [[wa [vd [Ed E1]]]|[e' [Ed _]]].
      * pose proof (m_is_dir_q _ _ _ _ _ Ed) as Q. pose proof (qrel_RInv T _ _ Q HR) as HRa.
        destruct (qrel_facts _ _ _ HX Q) as (HXa & Sa & _ & _).
        destruct vd; [inversion E1; subst; exact HRa|].
        destruct (m_is_dir_inl _ _ _ _ _ HX Ed) as [Evd _].
        assert (Hdead: dead w (n :: d) = true).
        { unfold vdir in Evd. rewrite Ei in Evd. cbn [andb] in Evd. symmetry in Evd. apply negb_false_iff in Evd. exact Evd. }
        assert (HRI: RI T (n :: d) wa).
        { split; [exact HXa|]. split; [rewrite (sv_fs _ _ Sa); exact Ei|]. split; [rewrite (sv_dead _ _ Sa); exact Hdead|apply HRa]. }
        destruct (make_room_ok T _ _ _ _ _ HRI E1) as (HXb & Rb & _).
        apply (RInv_rrel _ _ _ _ HRa HXb Rb).
      * apply (qrel_RInv T _ _ (m_is_dir_q _ _ _ _ _ Ed) HR).
  - apply bind_inv in H. destruct H as [[wb [u [E1 H]]]|[e [E1 _]]]; [|discriminate].
    inversion E1; subst wb u. apply (Hend w HR Ei eq_refl H).
Qed.

(* ------------------------------------------------------------------ bf_setup *)
Definition setup_post (T : list path) (p : path) (w w1 : world) (r : option (op + exn * op) + exn) : Prop :=
  match r with
  | inr e => RInv T w1
  | inl None => RInv (p :: T) w1 /\ files_get (c_files (w_new w1)) p = Some None /\ p <> [] /\ w_old w1 = w_old w
  | inl (Some (inl o)) => exists T', RInv T' w1 /\ msub T T'
  | inl (Some (inr _)) => False
  end.

Theorem bf_setup_RInv : forall ok, mkfail_statement -> hit_statement_for ok ->
  forall T p c f sa skw w w1 r, ok (w_old w) -> RInv T w -> bf_setup p c f sa skw w = (w1, r) -> setup_post T p w w1 r.
Proof.
  intros ok HM HH T p c f sa skw w w1 r Hok HR H. pose proof HR as (HX & HP & HF).
  rewrite bf_setup_eq in H.
  apply bind_inv in H. destruct H as [[wa [u [E H]]]|[e [E Er]]].
  2:{ subst r. unfold new_assert_no_file in E. apply bind_inv in E. unfold get in E.
      destruct E as [[wb [w0 [E0 E]]]|[e' [E0 _]]]; [|discriminate]. inversion E0; subst wb w0.
      destruct (cache_has_file (w_new w) p); inversion E; subst. exact HR. }
  assert (Hunclaimed: wa = w /\ cache_has_file (w_new w) p = false).
  { unfold new_assert_no_file in E. apply bind_inv in E. unfold get in E.
    destruct E as [[wb [w0 [E0 E]]]|[e' [E0 _]]]; [|discriminate]. inversion E0; subst wb w0.
    destruct (cache_has_file (w_new w) p); inversion E; subst. auto. }
  destruct Hunclaimed as [-> Hunc].
  apply bind_inv in H. destruct H as [[wa [icf [E1 H]]]|[e [E1 _]]]; [|discriminate].
  unfold is_cache_file in E1. assert (wa = w) by congruence. subst wa.
  apply bind_inv in H. destruct H as [[wa [u1 [E2 H]]]|[e [E2 Er]]].
  2:{ subst r. destruct icf; inversion E2; subst. exact HR. }
  destruct icf; [discriminate|]. inversion E2; subst wa u1.
  destruct p as [|n d].
  { (* the root: always a visible directory *)
    apply bind_inv in H. destruct H as [[wa [created [E3 H]]]|[e [E3 Er]]].
    - exfalso. unfold prepare_file_creation in E3. apply bind_inv in E3. unfold get in E3.
      destruct E3 as [[wb [w0 [E0 E3]]]|[e' [E0 _]]]; [|discriminate]. inversion E0; subst wb w0.
      cbn [isdir lookup] in E3. apply bind_inv in E3. destruct E3 as [[wb [u2 [E4 _]]]|[e' [_ E4]]]; [|discriminate].
      apply bind_inv in E4. destruct E4 as [[wc [vd [Ed E4]]]|[e' [_ E4]]]; [|discriminate].
      destruct (m_is_dir_inl _ _ _ _ _ HX Ed) as [Evd _]. rewrite (vdir_root _ (x_binv _ _ HX)) in Evd. subst vd. discriminate.
    - subst r. unfold prepare_file_creation in E3. apply bind_inv in E3. unfold get in E3.
      destruct E3 as [[wb [w0 [E0 E3]]]|[e' [E0 _]]]; [|discriminate]. inversion E0; subst wb w0.
      cbn [isdir lookup] in E3. apply bind_inv in E3. destruct E3 as [[wb [u2 [E4 E5]]]|[e' [E4 _]]].
      + exfalso. apply bind_inv in E4. destruct E4 as [[wc [vd [Ed E4]]]|[e' [_ E4]]]; [|discriminate].
        destruct (m_is_dir_inl _ _ _ _ _ HX Ed) as [Evd _]. rewrite (vdir_root _ (x_binv _ _ HX)) in Evd. subst vd. discriminate.
      + apply bind_inv in E4. destruct E4 as [[wc [vd [Ed E4]]]|[e'' [Ed _]]].
        * pose proof (qrel_RInv T _ _ (m_is_dir_q _ _ _ _ _ Ed) HR) as HRc.
          destruct (m_is_dir_inl _ _ _ _ _ HX Ed) as [Evd _]. rewrite (vdir_root _ (x_binv _ _ HX)) in Evd. subst vd.
          inversion E4; subst. exact HRc.
        * apply (qrel_RInv T _ _ (m_is_dir_q _ _ _ _ _ Ed) HR). }
  apply bind_inv in H. destruct H as [[wa [created [E3 H]]]|[e [E3 Er]]].
  2:{ subst r. apply (prepare_RInv T n d w w1 (inr e) HM HR E3). }
  destruct (prepare_RInv T n d w wa (inl created) HM HR E3) as (wpre & HRp & Hnd & Hmk & Hnew).
  apply bind_inv in H. destruct H as [[wb [locked [E4 H]]]|[e [E4 _]]].
  2:{ unfold m_bd_started in E4. destruct (bd_started (w_bd wa) (n :: d) created); discriminate. }
  destruct HRp as (HXp & HPp & HFp).
  destruct (make_dirs_started_XInv T wpre n d wa created wb locked HXp HPp Hnd Hmk E4) as (HXb & HPb & Nb & Ob & Cb & Fsb).
  assert (HFb: w_faults wb = []).
  { pose proof (make_dirs_quiet d _ _ _ Hmk) as [_ Q1]. unfold m_bd_started in E4.
    destruct (bd_started (w_bd wa) (n :: d) created). inversion E4; subst. cbn. congruence. }
  assert (HRb: RInv ((n :: d) :: T) wb) by (split; [exact HXb|split; [exact HPb|exact HFb]]).
  assert (Hunc_b: cache_has_file (w_new wb) (n :: d) = false) by (rewrite Nb, Hnew; exact Hunc).
  assert (Hnd_b: isdir (w_fs wb) (n :: d) = false).
  { unfold isdir. rewrite Fsb; [exact Hnd|]. intro Hs. apply suffix_length in Hs. simpl in Hs. lia. }
  assert (Hold_b: w_old wb = w_old w).
  { destruct (prepare_old _ _ _ _ E3) as [O1 _]. unfold m_bd_started in E4.
    destruct (bd_started (w_bd wa) (n :: d) created). inversion E4; subst. cbn. exact O1. }
  assert (Hok_b: ok (w_old wb)) by (rewrite Hold_b; exact Hok).
  unfold catch in H. destruct (bf_try (n :: d) c f sa skw wb) as [wc [x|e]] eqn:Et.
  - inversion H; subst w1 r. pose proof (HH T n d c f sa skw wb wc (inl x) Hok_b HRb Hunc_b Hnd_b Et) as P.
    unfold hit_post in P. unfold setup_post. destruct x as [[o|eo]|].
    + destruct P as (T' & A & B). exists T'. split; [exact A|]. eapply msub_trans; [apply msub_cons|exact B].
    + exact P.
    + destruct P as (A & B & C). split; [exact A|]. split; [exact B|]. split; [discriminate|congruence].
  - (* the attempt raised: the reservation is released *)
    pose proof (HH T n d c f sa skw wb wc (inr e) Hok_b HRb Hunc_b Hnd_b Et) as (HRc & Hnf & Hnp).
    destruct HRc as (HXc & HPc & HFc).
    destruct (m_bd_error_XInv ((n :: d) :: T) wc n d HXc (or_introl eq_refl) Hnf) as (b' & Eb & HXe).
    apply bind_inv in H. rewrite Eb in H. destruct H as [[wd [u2 [E5 H]]]|[e' [E5 _]]]; [|discriminate].
    inversion E5; subst wd u2. inversion H; subst w1 r. unfold setup_post.
    cbn [rm1] in HXe. rewrite path_eqb_refl in HXe.
    split; [exact HXe|]. split; [|exact HFc].
    intros x Hx. cbn [w_new set_bd] in Hx. destruct (HPc x Hx) as [<-|Hin]; [contradiction|exact Hin].
Qed.

Print Assumptions bf_setup_RInv.
