(* Proofs/SimQ3.v — SimO2's theorems with the hypothesis CoreSame discharged by SimQ2.core_build_invariance:
     core_same_genuine : CoreSame holds as soon as the tree the mechanism starts from agrees with next_fs cf s1
        away from the cache file and has a regular file there, and the cache it read answers like
        cache_of_state nm0 s1 (cache_get_file, subs_get, c_dirs, c_fvers) and lists every target once;
     mech_rebuild_runs_no_function_closed, mech_rebuild_tree_identical_closed : the _gen theorems of SimO2
        under these hypotheses (no hypothesis on Core's second run left). *)
From Coq Require Import List String Ascii NArith ZArith Bool Arith Lia.
From FB.Base Require Import PyVal Fs.
From FB.Gen Require Import JsonUtilGen.
From FB.Spec Require Import JsonSpec Prog Ref Oracle Faithful.
From FB.Model Require Import Types Monad CreatedFiles BuildDirs SimpleOps Builder Persist Build Run Frame Dsl Core CoreOracle CoreCache.
From FB.Proofs Require Import FsLemmas CleanLaws ViewDefs ViewK3 CoreRebuildDefs CoreRebuild1 SimO1 SimO2 SimQ1 SimQ2.
Import ListNotations.
Open Scope string_scope.
Open Scope list_scope.

(* the table of a committed cache lists every target once *)
Lemma files_set_nodup : forall l p o, NoDup (map fst l) -> NoDup (map fst (files_set l p o)).
Proof.
  induction l as [|[k o'] l IH]; intros p o N; simpl.
  - constructor; [intros []|constructor].
  - destruct (path_eqb k p) eqn:E; simpl; [exact N|].
    simpl in N. inversion N as [|k' l' N1 N2]; subst. constructor; [|apply IH; exact N2].
    intro I. apply files_set_keys in I. apply path_eqb_neq in E. destruct I as [I|I]; [exact (E I)|exact (N1 I)].
Qed.

Lemma fold_files_set_nodup : forall (regs : list (path * op)) acc, NoDup (map fst acc) ->
  NoDup (map fst (fold_left (fun acc e => files_set acc (fst e) (Some (snd e))) regs acc)).
Proof.
  induction regs as [|e regs IH]; intros acc N; simpl; [exact N|]. apply IH. apply files_set_nodup. exact N.
Qed.

Lemma cache_of_state_nodup : forall nm s, NoDup (map fst (c_files (cache_of_state nm s))).
Proof. intros nm s. unfold cache_of_state; cbn [c_files]. apply fold_files_set_nodup. constructor. Qed.

Lemma next_fs_isfile : forall cf s, cf <> [] -> isfile (next_fs cf s) cf = true.
Proof. intros cf s H. unfold next_fs, isfile. rewrite lookup_upd_eq by exact H. reflexivity. Qed.

(* CoreSame for every start that looks like what the committed build left *)
Theorem core_same_genuine : forall (fsw : fsT) (cf : path) (old : cache) (nm0 : string) (s1 : kstate) svers clock nextid root,
  cf <> [] ->
  (forall p, p <> cf -> lookup fsw p = lookup (next_fs cf s1) p) ->
  isfile fsw cf = true ->
  NoDup (map fst (c_files old)) ->
  (forall p, cache_get_file old p = cache_get_file (cache_of_state nm0 s1) p) ->
  (forall k, subs_get (c_subs old) k = subs_get (c_subs (cache_of_state nm0 s1)) k) ->
  c_dirs old = c_dirs (cache_of_state nm0 s1) ->
  c_fvers old = c_fvers (cache_of_state nm0 s1) ->
  CoreSame (core_build fsw cf old svers clock nextid root)
           (core_build (next_fs cf s1) cf (cache_of_state nm0 s1) svers clock nextid root).
Proof.
  intros fsw cf old nm0 s1 svers clock nextid root Hcf Htree Hfile Hnd Hfiles Hsubs Hdirs Hfv.
  apply core_build_invariance; try assumption.
  - apply next_fs_isfile. exact Hcf.
  - apply cache_of_state_nodup.
Qed.

Section RebuildClosed.
  Variables (fs : fsT) (cf : path) (old0 : cache) (svers : pyval) (clock nextid : N) (root : prog) (v : pyval) (s1 : kstate).
  Let cr1 := core_build fs cf old0 svers clock nextid root.
  Hypothesis Hout : cr_outcome cr1 = inl v.
  Hypothesis Hst : cr_state cr1 = Some s1.
  Hypothesis Hwf : fs_wf fs.
  Hypothesis Hcfd : isdir fs cf = false.
  Hypothesis Hvs : sanitized svers = true.
  Hypothesis Hcl : records_clean s1 = true.
  Hypothesis Hdi : records_distinct s1 = true.
  Hypothesis Hnf : no_foreign_targets fs cf old0 s1.
  Variables (w : world) (old : cache) (nm0 nm : string) (w1 w2 : world) (r : outcome) (l : list op).
  (* the world the mechanism starts from: what the committed build left, a real cache file at cf *)
  Hypothesis Htree : forall p, p <> cf -> lookup (w_fs w) p = lookup (next_fs cf s1) p.
  Hypothesis Hfile : isfile (w_fs w) cf = true.
  (* the cache it read: the records of the committed build, in any order *)
  Hypothesis Hnd : NoDup (map fst (c_files old)).
  Hypothesis Hfiles : forall p, cache_get_file old p = cache_get_file (cache_of_state nm0 s1) p.
  Hypothesis Hsubs : forall k, subs_get (c_subs old) k = subs_get (c_subs (cache_of_state nm0 s1)) k.
  Hypothesis Hdirs : c_dirs old = c_dirs (cache_of_state nm0 s1).
  Hypothesis Hfv : c_fvers old = c_fvers (cache_of_state nm0 s1).
  Hypothesis Hmech : MechBuildHyps w cf old nm svers root w1 w2 r l.

  Lemma cf_not_root : cf <> [].
  Proof. intro E. rewrite E in Hcfd. cbn in Hcfd. discriminate. Qed.

  Lemma closed_same : CoreSame (core_build (w_fs w) cf old svers (w_clock w) (w_nextid w) root)
                               (core_build (next_fs cf s1) cf (cache_of_state nm0 s1) svers (w_clock w) (w_nextid w) root).
  Proof. apply core_same_genuine; try assumption. exact cf_not_root. Qed.

  Theorem mech_rebuild_runs_no_function_closed :
    r = inl v /\
    exists answers,
      vis_log (w_log w2) = rev (LInvoke "<root>" None PNone PNone :: answers) ++ vis_log (w_log w1) /\
      forallb is_answer answers = true.
  Proof.
    exact (mech_rebuild_runs_no_function_gen fs cf old0 svers clock nextid root v s1 Hout Hst Hwf Hcfd Hvs Hcl Hdi Hnf
             w old nm0 nm w1 w2 r l closed_same Hmech).
  Qed.

  Theorem mech_rebuild_tree_identical_closed : FilesOld (cr_tree cr1) (w_clock w) ->
    forall p, lookup (view_fs w2) p = lookup (cr_tree cr1) p.
  Proof.
    exact (mech_rebuild_tree_identical_gen fs cf old0 svers clock nextid root v s1 Hout Hst Hwf Hcfd Hvs Hcl Hdi Hnf
             w old nm0 nm w1 w2 r l closed_same Hmech).
  Qed.
End RebuildClosed.

Print Assumptions core_same_genuine.
Print Assumptions mech_rebuild_runs_no_function_closed.
Print Assumptions mech_rebuild_tree_identical_closed.
