(* Proofs/SimCEx.v — glue SimA/SimB: validation by evaluation (vm_compute) of the statements of
   SimC0 - SimC13 on concrete histories inside the class okc: a program with a subbuild that holds
   nested build_file calls, reads (METADATA) of sources and of outputs of this build, and a
   top-level build_file reading a nested output; four builds (first; unchanged: everything is
   served, nested records adopted; a source changed: the subbuild and two functions run again,
   one nested record is served; unchanged again).  Checked for every build: the previous cache is
   in the class (okcb, with the clock of the start world); Sim4 and Extra hold when the root
   function has returned (build_agrees4, extrab); the conclusion of SimC13.mech_C01 (same outcome
   as ref_build, visible log a subsequence of the reference log, view = reference tree up to
   times); and the histories of SimAEx / ViewK2.                                            *)
From Coq Require Import List String Ascii NArith ZArith Bool Arith Lia.
From FB.Base Require Import PyVal Fs.
From FB.Gen Require Import JsonUtilGen.
From FB.Spec Require Import JsonSpec Prog Ref Oracle Faithful.
From FB.Model Require Import Types Monad CreatedFiles BuildDirs SimpleOps Builder Persist Build Run Frame Dsl Core CoreOracle.
From FB.Proofs Require Import FsLemmas ViewDefs ViewK2 ViewK3 SimA0 SimAEx SimB1 SimC0.
Import ListNotations.
Open Scope string_scope.
Open Scope list_scope.

(* ------------------------------------------------------------------ the conclusion of mech_C01, as a checker *)
Fixpoint sublistb (a b : list string) : bool :=
  match a, b with
  | [], _ => true
  | _ :: _, [] => false
  | x :: a', y :: b' => if String.eqb x y then sublistb a' b' else sublistb a b'
  end.

Definition mech_c01b (cf : path) (nm : string) (vers : pyval) (root : prog) (w : world) : bool :=
  match sanitize vers, mech_root cf nm vers root w with
  | Some svers, Some (w1, (w2, (r, _))) =>
      let old := old_cache_of (w_fs w) cf nm svers in
      let rr := ref_build (w_fs w) cf (prev_of_cache old) (w_clock w) (w_nextid w) root in
      let ps := map fst (w_fs w2) ++ map fst (rr_tree rr) in
      let mlog := flat_map show_log1 (rev (firstn (List.length (w_log w2) - (List.length (w_log w1) - 1)) (w_log w2))) in
      (outcome_sameb r (rr_outcome rr) &&
       forallb (fun p => node_equivb (lookup (view_fs w2) p) (lookup (rr_tree rr) p)) ps &&
       sublistb mlog (flat_map show_log1 (rr_log rr)))%bool
  | _, _ => false
  end.

(* the conclusion of SimC15.okc_next_statement: the cache at the end of the root function is in the
   class for the clock at that time *)
Definition next_okc (cf : path) (nm : string) (vers : pyval) (root : prog) (w : world) : bool :=
  match mech_root cf nm vers root w with
  | Some (_, (w2, _)) => okcb (w_clock w2) (w_new w2)
  | None => false
  end.

Definition all_checks (cf : path) (nm : string) (vers : pyval) (root : prog) (w : world) : bool * bool * bool * bool :=
  (okc_at cf nm vers w, build_agrees4 cf nm vers root w, extra_at_end cf nm vers root w, mech_c01b cf nm vers root w).

(* ------------------------------------------------------------------ a program inside the class *)
Module Ex.
  Definition CF : path := ["cache"].
  Definition V : pyval := PDict [].

  (* "compile": read the source, write it with a mark *)
  Definition cc (src obj : path) (k : outcome -> prog) : prog :=
    BuildFile false obj METADATA "cc" (PStr "x") PNone
      (fun _ _ _ => Ask false (QRead src METADATA)
         (fun o => match o with inl (PStr b) => Write (b ++ "!")%string (Ret PNone) | _ => Raise (XUser 1) end)) k.

  (* "link": read the two objects, which are outputs of this build *)
  Definition ld (k : outcome -> prog) : prog :=
    BuildFile false ["prog"] METADATA "ld" PNone PNone
      (fun _ _ _ => Ask false (QRead ["a.o"; "obj"] METADATA)
         (fun o1 => Ask false (QRead ["b.o"; "obj"] METADATA)
            (fun o2 => match o1, o2 with
                       | inl (PStr x), inl (PStr y) => Write (x ++ y)%string (Ret (PStr "linked"))
                       | _, _ => Raise (XUser 2)
                       end))) k.

  Definition root : prog :=
    Subbuild false "all" (PList [PInt 1]) (PDict [(PStr "k", PFloat (FFin false 3%positive 1%Z))])
      (fun _ _ => cc ["a.c"] ["a.o"; "obj"] (fun _ => cc ["b.c"] ["b.o"; "obj"] (fun _ => Ask false (QIsDir ["obj"]) (fun _ => Ret PNone))))
      (fun _ => ld (fun o => match o with inl v => Ret v | inr _ => Ret (PStr "failed") end)).

  Definition w0 : world := fold_left apply_fsop [FWrite ["a.c"] "int a;"; FWrite ["b.c"] "int b;"] init_world.
  Definition b1 := run_build CF "n" V root w0.
  Definition w1 : world := fst b1.
  Definition w2 : world := fst (run_build CF "n" V root w1).
  Definition w2' : world := apply_fsop w2 (FWrite ["a.c"] "long a;").
  Definition w3 : world := fst (run_build CF "n" V root w2').

  Example results :
    map (fun w => show_result (snd (run_build CF "n" V root w))) [w0; w1; w2'; w3] =
    ["ok:'linked'"; "ok:'linked'"; "ok:'linked'"; "ok:'linked'"].
  Proof. vm_compute. reflexivity. Qed.

  (* how many functions were invoked in each build: 4 (root function excluded: s, cc, cc, ld), 0, 3, 0 *)
  Definition invoked (w : world) : nat :=
    match mech_root CF "n" V root w with
    | Some (wa, (wb, _)) =>
        List.length (filter (fun e => match e with LInvoke _ _ _ _ => true | _ => false end)
                       (firstn (List.length (w_log wb) - List.length (w_log wa)) (w_log wb)))
    | None => 0
    end.
  Example invocations : map invoked [w0; w1; w2'; w3] = [4; 0; 3; 0].
  Proof. vm_compute. reflexivity. Qed.

  Example next_in_class : map (next_okc CF "n" V root) [w0; w1; w2'; w3] = [true; true; true; true].
  Proof. vm_compute. reflexivity. Qed.

  Example checks :
    map (all_checks CF "n" V root) [w0; w1; w2'; w3] =
    [(true, true, true, true); (true, true, true, true); (true, true, true, true); (true, true, true, true)].
  Proof. vm_compute. reflexivity. Qed.
End Ex.

(* ------------------------------------------------------------------ the histories of SimAEx and ViewK2 *)
Module Ex2.
  Import SimAEx.Ex.
  Example failing_first :
    map (fun r => all_checks CF0 "n" (PDict []) r init_world) [r1;r2;r3;r4;r5;r6] =
    [(true,true,true,true);(true,true,true,true);(true,true,true,true);(true,true,true,true);(true,true,true,true);(true,true,true,true)].
  Proof. vm_compute. reflexivity. Qed.
  Example failing_after_r2 :
    map (fun r => all_checks CF0 "n" (PDict []) r w_r2) [r1;r2;r3;r4;r5;r6] =
    [(true,true,true,true);(true,true,true,true);(true,true,true,true);(true,true,true,true);(true,true,true,true);(true,true,true,true)].
  Proof. vm_compute. reflexivity. Qed.
  Example failing_after_r6 :
    map (fun r => all_checks CF0 "n" (PDict []) r w_r6) [r1;r2;r3;r4;r5;r6] =
    [(true,true,true,true);(true,true,true,true);(true,true,true,true);(true,true,true,true);(true,true,true,true);(true,true,true,true)].
  Proof. vm_compute. reflexivity. Qed.
  Example next_failing :
    map (fun r => next_okc CF0 "n" (PDict []) r init_world) [r1;r2;r3;r4;r5;r6] = [true;true;true;true;true;true] /\
    map (fun r => next_okc CF0 "n" (PDict []) r w_r2) [r1;r2;r3;r4;r5;r6] = [true;true;true;true;true;true].
  Proof. vm_compute. split; reflexivity. Qed.
  Example k2 :
    (all_checks ViewK2.Refute.CF "n" (PDict []) ViewK2.Refute.root init_world,
     all_checks ViewK2.Refute.CF "n" (PDict []) ViewK2.Refute.root SimB1.CheckB.k2w) =
    ((true,true,true,true), (true,true,true,true)).
  Proof. vm_compute. reflexivity. Qed.
End Ex2.

(* ------------------------------------------------------------------ outside the class *)
Module Outside.
  Import ViewK3.Check.
  (* the history of CacheRTEx / ViewK3 / SimB9: its program compares one output by HASH and reads by
     HASH, and the subbuild record of its caches holds a nested build_file record that RAISED: the
     caches are not in the class okc (hk = false; calm) *)
  Example cachert_not_in_class : (okc_at CF0 "n" V pre2, okc_at CF0 "n" V (fst h2)) = (false, false).
  Proof. vm_compute. reflexivity. Qed.
End Outside.
