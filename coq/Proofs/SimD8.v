(* Proofs/SimD8.v — the cache file of the previous build is not moved away while the root function
   runs.  back_up_and_remove is called at three places of a run:
     _make_dirs    on a regular file that the previous cache records as an output,
     _make_room    on the hidden entries below a target that is a (dead) directory,
     _build_file   on the target, after the check that it is not the cache file;
   none of them is the cache file when the previous cache does not record the cache file as an
   output and no target is a proper ancestor of the cache file.  Invariant [NB w]: w_cachefile,
   w_old fixed and no backup of the cache file.  Same pattern as SimA3Cf.v / SimC9.v.
   With RollbackDirsLaws.RInv (a regular file of the pre-state is in place or backed up):
   the cache file is still in place when the root function returns [cf_in_place] — this is the
   assumption CfListed of SimD4.EndInv.                                                     *)
From Coq Require Import List String Ascii NArith ZArith Bool Arith Lia.
From FB.Base Require Import PyVal Fs.
From FB.Gen Require Import JsonUtilGen.
From FB.Spec Require Import JsonSpec Prog.
From FB.Model Require Import Types Monad CreatedFiles BuildDirs SimpleOps Builder Build Run Frame.
From FB.Proofs Require Import FsLemmas JsonLaws CmpLaws ReplayLaws BuildFileLaws.
Import ListNotations.
Local Open Scope list_scope.
Local Open Scope m_scope.

Section NoBackup.

Variable cf : path.
Variable old : cache.
Hypothesis Hcfo : cache_created_file old cf = false.

Definition NB (w : world) : Prop :=
  w_cachefile w = cf /\ w_old w = old /\ forall f, ~ In (cf, f) (w_backups w).

Definition bk (w w' : world) : Prop := NB w -> NB w'.

Lemma bk_refl : forall w, bk w w.
Proof. intros w H. exact H. Qed.
Lemma bk_trans : forall a b c, bk a b -> bk b c -> bk a c.
Proof. intros a b c A B H. apply B, A, H. Qed.

Definition bkPO : PO := {| rel := bk; po_refl := bk_refl; po_trans := bk_trans |}.

Lemma bk_same : forall w w', w_cachefile w' = w_cachefile w -> w_old w' = w_old w -> w_backups w' = w_backups w -> bk w w'.
Proof. intros w w' E1 E2 E3 (A & B & C). unfold NB. rewrite E1, E2, E3. auto. Qed.

Lemma svb_bk : forall w w', svbPO w w' -> bkPO w w'.
Proof.
  cbn. unfold same_but_view. intros w w' H.
  destruct H as (A1 & A2 & A3 & A4 & A5 & A6 & A7 & A8 & A9 & A10 & A11). apply bk_same; assumption.
Qed.

#[local] Hint Extern 8 (pres bkPO _) => apply (pres_weaken svbPO bkPO _ _ svb_bk) : pres.
#[local] Hint Resolve m_handle_dir_exists_svb m_is_removed_svb is_file_no_read_svb is_cache_file_svb
  file_metadata_svb file_hash_svb list_dir_superset_svb file_comparison_result_svb
  m_is_file_svb m_is_dir_svb m_exists_svb noneable_cmp_svb version_equal_svb
  is_build_file_cached_svb dirs_to_make_svb build_file_cache_lookup_svb subbuild_cache_lookup_svb
  m_bd_started_svb m_bd_error_svb new_assert_no_file_svb new_assert_no_subbuild_svb : pres.

Ltac bk_solve :=
  lazymatch goal with |- rel bkPO ?a ?b => change (bk a b) | _ => idtac end;
  first [ apply bk_refl | apply bk_same; reflexivity ].

Ltac raw_bk f :=
  intros w w' r H; unfold f in H; cbv zeta in H; repeat dm H; inversion H; subst; bk_solve.

Lemma effect_bk : forall what p f, pres bkPO (effect what p f).
Proof. intros what p f. raw_bk effect. Qed.
Lemma effect_p_bk : forall what p f, pres bkPO (effect_p what p f).
Proof. intros what p f. raw_bk effect_p. Qed.
#[local] Hint Resolve effect_bk effect_p_bk : pres.

Lemma pres_bind_get_nb : forall A (k : world -> M A), (forall w0, NB w0 -> pres bkPO (k w0)) -> pres bkPO (bind get k).
Proof. intros A k Hk w w' r H I. unfold bind, get in H. exact (Hk w I w w' r H I). Qed.

(* the one routine that adds a backup *)
Lemma back_up_and_remove_bk : forall p, p <> cf -> pres bkPO (back_up_and_remove p).
Proof.
  intros p Hp. unfold back_up_and_remove. apply pres_bind; [auto with pres|]. intros _.
  intros w w' r H. cbv zeta in H.
  destruct (existsb (Nat.eqb (w_effects w)) (w_faults w)); [inversion H; subst; bk_solve|].
  cbn [w_fs set_effects] in H.
  destruct (rename_out (w_fs w) p) as [[fs' n]|e] eqn:E.
  - destruct n as [f|]; inversion H; subst; [|bk_solve].
    intros (A & B & C). split; [exact A|]. split; [exact B|].
    cbn. intros f0 Hin. apply in_app_or in Hin. destruct Hin as [Hin|[Hin|[]]]; [exact (C f0 Hin)|].
    inversion Hin. congruence.
  - destruct e; inversion H; subst; bk_solve.
Qed.

Lemma try_to_remove_file_bk : forall p, pres bkPO (try_to_remove_file p).
Proof. intro p. unfold try_to_remove_file. pres_auto. Qed.
Lemma remove_empty_dirs_bk : forall ds, pres bkPO (remove_empty_dirs ds).
Proof. intro ds. unfold remove_empty_dirs. pres_auto. Qed.
#[local] Hint Resolve try_to_remove_file_bk remove_empty_dirs_bk : pres.

(* _make_dirs: the guard asks for an output of the previous cache *)
Lemma make_one_dir_bk : forall d, pres bkPO (make_one_dir d).
Proof.
  intro d. unfold make_one_dir. apply pres_bind_get_nb. intros w0 (A & B & C).
  destruct (isfile (w_fs w0) d && cache_created_file (w_old w0) d) eqn:G.
  - assert (Hd : d <> cf).
    { intro Z. subst d. apply andb_true_iff in G. destruct G as [_ G]. rewrite B in G. congruence. }
    pose proof (back_up_and_remove_bk d Hd) as Hb. pres_auto.
  - pres_auto.
Qed.
#[local] Hint Resolve make_one_dir_bk : pres.

Lemma make_dirs_loop_bk : forall ds made, pres bkPO (make_dirs_loop ds made).
Proof. induction ds as [|d ds IH]; intro made; cbn [make_dirs_loop]; pres_auto. Qed.
#[local] Hint Resolve make_dirs_loop_bk : pres.

Lemma make_dirs_bk : forall d, pres bkPO (make_dirs d).
Proof. intro d. unfold make_dirs. pres_auto. Qed.
#[local] Hint Resolve make_dirs_bk : pres.

(* _make_room below d: the cache file is neither d nor below d *)
Lemma make_room_bk : forall fuel d, (forall l, cf <> l ++ d) -> pres bkPO (make_room fuel d).
Proof.
  induction fuel as [|fuel IH]; intros d Hd; cbn [make_room]; [apply pres_raise|].
  apply pres_bind; [apply pres_get|]. intro w0.
  destruct (listdir (w_fs w0) d) as [names|e]; [|apply pres_raise].
  apply pres_bind; [|intros _; pres_auto].
  apply pres_mapM_. intro n.
  assert (Ha : n :: d <> cf) by (intro Z; apply (Hd [n]); symmetry; exact Z).
  assert (Hrec : pres bkPO (make_room fuel (n :: d))).
  { apply IH. intros l Z. apply (Hd (l ++ [n])). rewrite <- app_assoc. exact Z. }
  pose proof (back_up_and_remove_bk (n :: d) Ha) as Hb. pres_auto.
Qed.

Lemma prepare_file_creation_bk : forall p, (forall l, cf <> l ++ p) -> pres bkPO (prepare_file_creation p).
Proof. intros p Hp. unfold prepare_file_creation. pose proof (make_room_bk room_fuel p Hp) as Hm. pres_auto. Qed.

Lemma apply_cached_subs_of_bk : forall o, pres bkPO (apply_cached_subs_of o).
Proof.
  induction o as [q r e | p c f a k subs r cr ra sf IH | f a k subs r ra sf IH] using op_ind';
    cbn [apply_cached_subs_of].
  - apply pres_ret.
  - induction IH as [|s rest Hs HF IHl]; cbn beta iota fix; [apply pres_ret|].
    apply pres_bind; [|intros _; exact IHl]. pres_auto.
  - induction IH as [|s rest Hs HF IHl]; cbn beta iota fix; [apply pres_ret|].
    apply pres_bind; [|intros _; exact IHl]. pres_auto.
Qed.
#[local] Hint Resolve apply_cached_subs_of_bk : pres.

(* updates of the new cache *)
Lemma modify_new_bk : forall f : world -> cache, pres bkPO (modify (fun w => set_new (f w) w)).
Proof. intro f. apply pres_modify. intro w. bk_solve. Qed.

Lemma new_start_building_file_bk : forall p, pres bkPO (new_start_building_file p).
Proof. intro p. unfold new_start_building_file. pres_auto. apply modify_new_bk. Qed.
Lemma new_abort_building_file_bk : forall p, pres bkPO (new_abort_building_file p).
Proof. intro p. unfold new_abort_building_file. apply modify_new_bk. Qed.
Lemma new_finish_building_file_bk : forall p o, pres bkPO (new_finish_building_file p o).
Proof. intros p o. unfold new_finish_building_file. apply modify_new_bk. Qed.
Lemma new_start_subbuild_bk : forall k, pres bkPO (new_start_subbuild k).
Proof. intro k. unfold new_start_subbuild. pres_auto. apply modify_new_bk. Qed.
Lemma new_finish_subbuild_bk : forall k o, pres bkPO (new_finish_subbuild k o).
Proof. intros k o. unfold new_finish_subbuild. apply modify_new_bk. Qed.
Lemma new_use_cached_operation_bk : forall o, pres bkPO (new_use_cached_operation o).
Proof.
  intros o w w' r H. unfold new_use_cached_operation in H. minv H.
  - unfold put in H. inversion H; subst. bk_solve.
  - bk_solve.
Qed.
#[local] Hint Resolve new_start_building_file_bk new_abort_building_file_bk
  new_finish_building_file_bk new_start_subbuild_bk new_finish_subbuild_bk
  new_use_cached_operation_bk : pres.

Lemma bf_reuse_bk : forall p c f sa skw cached, pres bkPO (bf_reuse p c f sa skw cached).
Proof. intros p c f sa skw cached. unfold bf_reuse. pres_auto. Qed.
#[local] Hint Resolve bf_reuse_bk : pres.

Lemma bf_claim_bk : forall p, p <> cf -> pres bkPO (bf_claim p).
Proof. intros p Hp. unfold bf_claim. pose proof (back_up_and_remove_bk p Hp) as Hb. pres_auto. Qed.

(* _build_file before the function is called: the target is checked against the cache file *)
Lemma bf_setup_bk : forall p c f sa skw, (forall n l, cf <> (n :: l) ++ p) -> pres bkPO (bf_setup p c f sa skw).
Proof.
  intros p c f sa skw Hanc w w' r H I. unfold bf_setup in H.
  apply bind_inv in H. destruct H as [(w1 & u & E1 & H) | (e & E1 & H)].
  2:{ inversion H; subst. refine ((_ : pres bkPO _) _ _ _ E1 I). pres_auto. }
  assert (I1 : NB w1) by (refine ((_ : pres bkPO _) _ _ _ E1 I); pres_auto).
  unfold bind at 1, is_cache_file in H.
  destruct (path_eqb p (w_cachefile w1)) eqn:Ep.
  - unfold bind at 1, raise in H. inversion H; subst. exact I1.
  - assert (Hp : forall l, cf <> l ++ p).
    { intros [|n l]; [|apply Hanc]. cbn [app]. intro Z. apply path_eqb_neq in Ep. apply Ep.
      destruct I1 as (A & _). rewrite A. symmetry. exact Z. }
    assert (Hne : p <> cf) by (intro Z; apply (Hp []); symmetry; exact Z).
    pose proof (prepare_file_creation_bk p Hp) as Hprep. pose proof (bf_claim_bk p Hne) as Hcl.
    refine ((_ : pres bkPO _) _ _ _ H I1). pres_auto.
Qed.

Lemma sb_setup_bk : forall f sa skw, pres bkPO (sb_setup f sa skw).
Proof. intros f sa skw. unfold sb_setup. cbv zeta. pres_auto. Qed.

Lemma bf_fail_bk : forall p c f sa skw subs e w w' r,
  bf_fail p c f sa skw subs e w = (w', r) -> bk w w'.
Proof.
  intros p c f sa skw subs e w w' r H. unfold bf_fail in H. cbv zeta in H.
  match type of H with (match ?X with _ => _ end) = _ => destruct X as [w1 [u|e1]] eqn:E end;
    inversion H; subst.
  all: refine ((_ : pres bkPO _) _ _ _ E); pres_auto.
Qed.

Lemma bf_finish_bk : forall p c f sa skw res subs, pres bkPO (bf_finish p c f sa skw res subs).
Proof.
  intros p c f sa skw res subs w w' r H. unfold bf_finish in H.
  assert (F : forall e w0, bf_fail p c f sa skw subs e w0 = (w', r) -> bk w0 w').
  { intros e w0 H0. eapply bf_fail_bk; eassumption. }
  destruct res as [v|e]; [|eapply F; eassumption].
  destruct (sanitize v) as [sv|]; [|eapply F; eassumption].
  destruct (noneable_cmp p c w) as [w4 [cmp|e]] eqn:E.
  - assert (Q : bk w w4) by (apply svb_bk; exact (noneable_cmp_svb p c w w4 _ E)).
    eapply bk_trans; [exact Q|].
    destruct cmp; try (eapply F; eassumption).
    all: cbv zeta in H; unfold new_finish_building_file, modify in H; inversion H; subst; bk_solve.
  - assert (Q : bk w w4) by (apply svb_bk; exact (noneable_cmp_svb p c w w4 _ E)).
    eapply bk_trans; [exact Q|]. eapply F; eassumption.
Qed.

Lemma sb_finish_bk : forall f sa skw res subs, pres bkPO (sb_finish f sa skw res subs).
Proof.
  intros f sa skw res subs w w' r H. unfold sb_finish in H. cbv zeta in H.
  unfold new_finish_subbuild, modify in H.
  destruct res as [v|e]; [destruct (sanitize v)|]; inversion H; subst; bk_solve.
Qed.

(* ------------------------------------------------------------------ nodes and programs *)
Lemma bk_set_log : forall l w, bk w (set_log l w).
Proof. intros l w. apply bk_same; reflexivity. Qed.

Lemma m_build_file_bk : forall p c f a kw (fn : path -> pyval -> pyval -> body),
  (forall n l, cf <> (n :: l) ++ p) ->
  (forall sa skw, pres bkPO (fn p sa skw)) -> pres bkPO (m_build_file p c f a kw fn).
Proof.
  intros p c f a kw fn Hanc Hfn w w' r H. rewrite m_build_file_unfold in H.
  destruct (sanitize a) as [sa|]; [|inversion H; subst; apply bk_refl].
  destruct (sanitize kw) as [skw|]; [|inversion H; subst; apply bk_refl].
  destruct (bf_setup p c f sa skw w) as [w1 [[[o|[e o]]|]|e]] eqn:Es;
    pose proof (bf_setup_bk p c f sa skw Hanc w w1 _ Es) as Q1; try (inversion H; subst; exact Q1).
  unfold bf_rebuild in H. destruct (fn p sa skw (bf_invoke_world p f sa skw w1)) as [w3 [res subs]] eqn:Ef.
  pose proof (Hfn sa skw _ _ _ Ef) as Q2. pose proof (bf_finish_bk p c f sa skw res subs w3 w' r H) as Q3.
  eapply bk_trans; [exact Q1|]. eapply bk_trans; [apply (bk_set_log (LInvoke f (Some p) sa skw :: w_log w1) w1)|].
  eapply bk_trans; [exact Q2|exact Q3].
Qed.

Lemma m_subbuild_bk : forall f a kw (fn : pyval -> pyval -> body),
  (forall sa skw, pres bkPO (fn sa skw)) -> pres bkPO (m_subbuild f a kw fn).
Proof.
  intros f a kw fn Hfn w w' r H. rewrite m_subbuild_unfold in H.
  destruct (sanitize a) as [sa|]; [|inversion H; subst; apply bk_refl].
  destruct (sanitize kw) as [skw|]; [|inversion H; subst; apply bk_refl].
  destruct (sb_setup f sa skw w) as [w1 [[[o|[e o]]|]|e]] eqn:Es;
    pose proof (sb_setup_bk f sa skw w w1 _ Es) as Q1; try (inversion H; subst; exact Q1).
  unfold sb_rebuild in H. destruct (fn sa skw (sb_invoke_world f sa skw w1)) as [w3 [res subs]] eqn:Ef.
  pose proof (Hfn sa skw _ _ _ Ef) as Q2. pose proof (sb_finish_bk f sa skw res subs w3 w' r H) as Q3.
  eapply bk_trans; [exact Q1|]. eapply bk_trans; [apply (bk_set_log (LInvoke f None sa skw :: w_log w1) w1)|].
  eapply bk_trans; [exact Q2|exact Q3].
Qed.

Lemma bk_log_answer : forall q r w, bk w (log_answer q r w).
Proof.
  intros q r w. unfold log_answer.
  repeat match goal with |- context [match ?y with _ => _ end] => destruct y end;
    first [apply bk_refl | apply bk_set_log].
Qed.

(* no target is a proper ancestor of the cache file *)
Definition NotAboveCf (p : path) : Prop := forall n l, cf <> (n :: l) ++ p.

Theorem run_bk : forall pr, AllTargets NotAboveCf pr -> forall target subs, pres bkPO (run pr target subs).
Proof.
  intros pr Hat.
  induction Hat as [v | e | s q k Hk IHk | c k Hk IHk | s p c f a kw fn k Hp Hfn IHfn Hk IHk
                    | s f a kw fn k Hfn IHfn Hk IHk];
    intros target subs w w' r H; cbn [run] in H; change (bk w w').
  - inversion H; subst. apply bk_refl.
  - inversion H; subst. apply bk_refl.
  - destruct s; [eapply IHk; exact H|].
    destruct (m_query q w) as [w1 [r1 o]] eqn:E.
    pose proof (svb_bk _ _ (m_query_svb _ _ _ _ E)) as Q1. apply IHk in H.
    eapply bk_trans; [exact Q1|]. eapply bk_trans; [apply bk_log_answer|exact H].
  - destruct target as [t|]; [|eapply IHk; exact H].
    destruct (write_file (w_fs w) t c None (N.succ (w_clock w)) (w_nextid w)) as [fs'|e] eqn:E; [|inversion H; subst; apply bk_refl].
    apply IHk in H. eapply bk_trans; [|exact H]. apply bk_same; reflexivity.
  - destruct s; [eapply IHk; exact H|].
    match type of H with (let '(_, _) := ?X in _) = _ => destruct X as [w1 [r1 o]] eqn:E end.
    apply IHk in H. eapply bk_trans; [|exact H].
    refine (m_build_file_bk p c f a kw _ Hp _ w w1 _ E). intros sa skw. apply IHfn.
  - destruct s; [eapply IHk; exact H|].
    match type of H with (let '(_, _) := ?X in _) = _ => destruct X as [w1 [r1 o]] eqn:E end.
    apply IHk in H. eapply bk_trans; [|exact H].
    refine (m_subbuild_bk f a kw _ _ w w1 _ E). intros sa skw. apply IHfn.
Qed.

(* from the world in which Build.m_build starts the root function *)
Theorem root_run_no_cf_backup : forall w nm svers root w1 ccd w2 r,
  AllTargets NotAboveCf root ->
  make_dirs (dirname cf) (start_world w cf old nm svers) = (w1, inl ccd) ->
  run root None [] (set_log (LInvoke "<root>"%string None PNone PNone :: w_log w1) w1) = (w2, r) ->
  NB w2.
Proof.
  intros w nm svers root w1 ccd w2 r Hat E1 E2.
  assert (I0 : NB (start_world w cf old nm svers)) by (split; [reflexivity|split; [reflexivity|intros f []]]).
  pose proof (make_dirs_bk _ _ _ _ E1 I0) as I1.
  exact (run_bk root Hat None [] _ _ _ E2 (bk_set_log _ w1 I1)).
Qed.

End NoBackup.

Print Assumptions run_bk.
