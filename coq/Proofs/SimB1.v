(* Proofs/SimB1.v — mechanism model vs Core, the hit/miss decision, part 1: Core's hit conditions
   as functions (core_file_hit / core_sub_hit: exactly the [hit] expressions of Core.core_run),
   the replay relation between an overlay and a scratch state, and their validation by
   computation on the histories of ViewK3 (every record of the previous cache is looked up on
   both sides from the states in which the root function starts).                          *)
From Coq Require Import List String Ascii NArith ZArith Bool Arith Lia.
From FB.Base Require Import PyVal Fs.
From FB.Gen Require Import JsonUtilGen.
From FB.Spec Require Import Prog Ref Oracle Faithful.
From FB.Model Require Import Types Monad CreatedFiles BuildDirs SimpleOps Builder Persist Build Run Frame Dsl Core CoreOracle.
From FB.Proofs Require Import FsLemmas CacheRTDefs CacheRTEx ViewDefs ViewLemmas ViewOverlay ViewK1 ViewK2 ViewK3 ViewK4.
Import ListNotations.
Open Scope list_scope.

(* ------------------------------------------------------------------ Core's hit conditions *)
(* the [hit] of Core.core_run for build_file, from the state s0 in which the directories of the
   target exist and the target is reserved *)
Definition core_file_hit (s0 : kstate) (p : path) (fname : string) (sa skw : pyval)
  : option (fnode * list op * pyval * rstate') :=
  match cache_get_file (k_old s0) p with
  | Some (OBuildFile p' c' fname' a' k' subs' ret' cmpres' raised' sf') =>
      if raised' then None else
      if negb (String.eqb fname' fname) then None else
      if negb (kversion_equal s0 fname) then None else
      if negb (is_equal a' sa) || negb (is_equal k' skw) then None else
      match phys (k_fs s0) (k_stale s0) p with
      | Some f =>
          if negb (is_equal cmpres' (cmp_of c' f)) then None else
          match kreplay_list s0 subs' (start_replay s0) with
          | Some r => Some (f, subs', ret', r)
          | None => None
          end
      | None => None
      end
  | _ => None
  end.

Definition core_sub_hit (s : kstate) (key : pyval) (fname : string) : option (list op * pyval * rstate') :=
  match subs_get (c_subs (k_old s)) key with
  | Some (Some (OSubbuild f' a' k' subs' ret' raised' sf')) =>
      if raised' then None else
      if negb (kversion_equal s fname) then None else
      match kreplay_list s subs' (start_replay s) with
      | Some r => Some (subs', ret', r)
      | None => None
      end
  | _ => None
  end.

(* Core's state after a hit of build_file *)
Definition core_file_adopt (s0 : kstate) (p : path) (c : cmpmode) (fname : string) (sa skw : pyval)
           (f : fnode) (subs' : list op) (ret' : pyval) (r : rstate') : kstate * op :=
  let o := OBuildFile p c fname sa skw subs' ret' (cmp_of c f) false false in
  let s1 := adopt s0 r o in
  (ks_with s1 (upd p (Some (NFile f)) (k_fs s1)) (stale_del (k_stale s1) p)
           (k_claimedF s1) (k_claimedS s1) (k_need s1) (k_made s1)
           (k_clock s1) (k_nextid s1) (k_log s1) (k_newF s1) (k_newS s1), o).

(* these ARE the expressions of core_run *)
Lemma core_run_file_hit : forall p c fname a kw fn k target pending subs s sa skw dirs fs1 f subs' ret' r,
  sanitize a = Some sa -> sanitize kw = Some skw ->
  mem_path p (k_claimedF s) = false -> path_eqb p (k_cachefile s) = false -> isdir (k_fs s) p = false ->
  missing_dirs (k_fs s) (k_cachefile s) (dirname p) = inl dirs -> mkdir_all (k_fs s) dirs = inl fs1 ->
  forall s0, s0 = ks_with s fs1 (k_stale s) (k_claimedF s) (k_claimedS s) (p :: k_need s) (k_made s ++ dirs)
                    (k_clock s) (k_nextid s) (k_log s) (k_newF s) (k_newS s) ->
  core_file_hit s0 p fname sa skw = Some (f, subs', ret', r) ->
  core_run (BuildFile false p c fname a kw fn k) target pending subs s =
  core_run (k (inl ret')) target pending (subs ++ [snd (core_file_adopt s0 p c fname sa skw f subs' ret' r)])
           (fst (core_file_adopt s0 p c fname sa skw f subs' ret' r)).
Proof.
  intros p c fname a kw fn k target pending subs s sa skw dirs fs1 f subs' ret' r Ha Hk H1 H2 H3 H4 H5 s0 Es0 Hhit.
  cbn [core_run]. rewrite Ha, Hk, H1, H2, H3, H4, H5.
  unfold core_file_hit in Hhit.
  assert (Eo: k_old s0 = k_old s) by (rewrite Es0; reflexivity). rewrite Eo in Hhit.
  assert (Ev: kversion_equal s0 fname = kversion_equal s fname) by (rewrite Es0; reflexivity). rewrite Ev in Hhit.
  rewrite <- Es0.
  destruct (cache_get_file (k_old s) p) as [[q0 r0 e0|p' c' fname' a' k' sb' rt' cr' ra' sf'|f0 a0 k0 sb0 r0 ra0 sf0]|];
    try discriminate.
  destruct ra'; [discriminate|]. destruct (negb (String.eqb fname' fname)); [discriminate|].
  destruct (negb (kversion_equal s fname)); [discriminate|].
  destruct (negb (is_equal a' sa) || negb (is_equal k' skw)); [discriminate|].
  destruct (phys (k_fs s0) (k_stale s0) p) as [g|]; [|discriminate].
  destruct (negb (is_equal cr' (cmp_of c' g))); [discriminate|].
  destruct (kreplay_list s0 sb' (start_replay s0)) as [r1|]; [|discriminate].
  inversion Hhit; subst. reflexivity.
Qed.

Lemma core_run_file_miss_cond : forall p fname sa skw s0,
  core_file_hit s0 p fname sa skw = None <->
  match cache_get_file (k_old s0) p with
  | Some (OBuildFile p' c' fname' a' k' subs' ret' cmpres' raised' sf') =>
      raised' = true \/ String.eqb fname' fname = false \/ kversion_equal s0 fname = false \/
      is_equal a' sa = false \/ is_equal k' skw = false \/
      match phys (k_fs s0) (k_stale s0) p with
      | Some g => is_equal cmpres' (cmp_of c' g) = false \/ kreplay_list s0 subs' (start_replay s0) = None
      | None => True
      end
  | _ => True
  end.
Proof.
  intros p fname sa skw s0. unfold core_file_hit.
  destruct (cache_get_file (k_old s0) p) as [[q0 r0 e0|p' c' fname' a' k' sb' rt' cr' ra' sf'|f0 a0 k0 sb0 r0 ra0 sf0]|];
    try tauto.
  destruct ra'; [tauto|]. destruct (String.eqb fname' fname); cbn [negb]; [|tauto].
  destruct (kversion_equal s0 fname); cbn [negb]; [|tauto].
  destruct (is_equal a' sa); cbn [negb orb]; [|tauto].
  destruct (is_equal k' skw); cbn [negb]; [|tauto].
  destruct (phys (k_fs s0) (k_stale s0) p) as [g|]; [|tauto].
  destruct (is_equal cr' (cmp_of c' g)); cbn [negb]; [|tauto].
  destruct (kreplay_list s0 sb' (start_replay s0)) as [r1|].
  - split; [discriminate|]. intros [H|[H|[H|[H|[H|[H|H]]]]]]; discriminate.
  - tauto.
Qed.

Lemma core_run_sub_hit : forall fname a kw fn k target pending subs s sa skw subs' ret' r,
  sanitize a = Some sa -> sanitize kw = Some skw ->
  existsb (py_eq (subbuild_key fname sa skw)) (k_claimedS s) = false ->
  core_sub_hit s (subbuild_key fname sa skw) fname = Some (subs', ret', r) ->
  core_run (Subbuild false fname a kw fn k) target pending subs s =
  core_run (k (inl ret')) target pending (subs ++ [OSubbuild fname sa skw subs' ret' false false])
           (adopt s r (OSubbuild fname sa skw subs' ret' false false)).
Proof.
  intros fname a kw fn k target pending subs s sa skw subs' ret' r Ha Hk Hc Hhit.
  cbn [core_run]. rewrite Ha, Hk, Hc. unfold core_sub_hit in Hhit.
  destruct (subs_get (c_subs (k_old s)) (subbuild_key fname sa skw))
    as [[[q0 r0 e0|p' c' fname' a' k' sb' rt' cr' ra' sf'|f0 a0 k0 sb0 r0 ra0 sf0]|]|]; try discriminate.
  destruct ra0; [discriminate|]. destruct (negb (kversion_equal s fname)); [discriminate|].
  destruct (kreplay_list s sb0 (start_replay s)) as [r1|]; [|discriminate].
  inversion Hhit; subst. reflexivity.
Qed.

(* ------------------------------------------------------------------ the replay relation, as a checker *)
(* every path mentioned by an overlay, the mechanism tree or a scratch tree *)
Definition replay_paths (w : world) (cf : cfiles) (r : rstate') : list path :=
  cf_dirs cf ++ cf_files cf ++ map fst (w_fs w) ++ map fst (rp_fs r).

Definition replay_relb (W : list path) (w : world) (cf : cfiles) (r : rstate') : bool :=
  forallb (fun p => if mem_path p W then node_equivb (lookup (overlay_fs w cf) p) (lookup (rp_fs r) p)
                    else node_sameb (lookup (overlay_fs w cf) p) (lookup (rp_fs r) p))
          (replay_paths w cf r).

(* one record of the previous cache for a file: the mechanism's lookup and Core's agree, and
   after an accepted replay the overlay and the scratch tree agree *)
Definition file_lookup_agrees (w : world) (s : kstate) (p : path) : bool :=
  match cache_get_file (w_old w) p with
  | Some (OBuildFile p' c' f' a' k' subs' ret' cr' ra' sf') =>
      let mech := build_file_cache_lookup p f' a' k' w in
      let core := core_file_hit s p f' a' k' in
      match snd mech, core with
      | inl None, None => true
      | inl (Some _), Some (_, _, _, r) =>
          match are_subs_cached subs' cf_empty w with
          | (_, inl (true, cf)) => replay_relb (c_built (w_new w)) w cf r
          | _ => false
          end
      | _, _ => false
      end
  | _ => true
  end.

Definition sub_lookup_agrees (w : world) (s : kstate) (key : pyval) : bool :=
  match subs_get (c_subs (w_old w)) key with
  | Some (Some (OSubbuild f' a' k' subs' ret' ra' sf')) =>
      let mech := subbuild_cache_lookup key f' w in
      let core := core_sub_hit s key f' in
      match snd mech, core with
      | inl None, None => true
      | inl (Some _), Some (_, _, r) =>
          match are_subs_cached subs' cf_empty w with
          | (_, inl (true, cf)) => replay_relb (c_built (w_new w)) w cf r
          | _ => false
          end
      | _, _ => false
      end
  | _ => true
  end.

(* how many lookups hit (to see that the validation is not vacuous) *)
Definition file_hits (w : world) : nat :=
  List.length (filter (fun e => match cache_get_file (w_old w) (fst e) with
                                | Some (OBuildFile p' c' f' a' k' _ _ _ _ _) =>
                                    match snd (build_file_cache_lookup (fst e) f' a' k' w) with inl (Some _) => true | _ => false end
                                | _ => false end) (c_files (w_old w))).
Definition sub_hits (w : world) : nat :=
  List.length (filter (fun e => match snd e with
                                | Some (OSubbuild f' _ _ _ _ _ _) =>
                                    match snd (subbuild_cache_lookup (fst e) f' w) with inl (Some _) => true | _ => false end
                                | _ => false end) (c_subs (w_old w))).

(* the two states in which the root function starts *)
Definition root_states (cf : path) (nm : string) (vers : pyval) (w : world) : option (world * kstate) :=
  match sanitize vers with
  | None => None
  | Some svers =>
      let old := old_cache_of (w_fs w) cf nm svers in
      match make_dirs (dirname cf) (start_world w cf old nm svers) with
      | (w1, inl _) =>
          let lg := LInvoke "<root>" None PNone PNone :: w_log w1 in
          Some (set_log lg w1, core_start (w_fs w) cf old svers (w_clock w) (w_nextid w) lg)
      | _ => None
      end
  end.

(* the setup of a target on both sides: _prepare_file_creation + started_building_file, resp.
   missing_dirs + mkdir_all and the reservation *)
Definition mech_prep (p : path) (w : world) : option world :=
  match prepare_file_creation p w with
  | (w1, inl created) => match m_bd_started p created w1 with (w2, inl _) => Some w2 | _ => None end
  | _ => None
  end.
Definition core_prep (p : path) (s : kstate) : option kstate :=
  match missing_dirs (k_fs s) (k_cachefile s) (dirname p) with
  | inl dirs =>
      match mkdir_all (k_fs s) dirs with
      | inl fs1 => Some (ks_with s fs1 (k_stale s) (k_claimedF s) (k_claimedS s) (p :: k_need s) (k_made s ++ dirs)
                                 (k_clock s) (k_nextid s) (k_log s) (k_newF s) (k_newS s))
      | inr _ => None
      end
  | inr _ => None
  end.

Definition file_lookup_agrees_prep (w : world) (s : kstate) (p : path) : bool :=
  match mech_prep p w, core_prep p s with
  | Some w', Some s' => file_lookup_agrees w' s' p
  | None, None => true
  | _, _ => false
  end.
Definition file_hits_prep (w : world) : nat :=
  List.length (filter (fun e => match mech_prep (fst e) w with
                                | Some w' =>
                                    match cache_get_file (w_old w') (fst e) with
                                    | Some (OBuildFile p' c' f' a' k' _ _ _ _ _) =>
                                        match snd (build_file_cache_lookup (fst e) f' a' k' w') with inl (Some _) => true | _ => false end
                                    | _ => false end
                                | None => false end) (c_files (w_old w))).

Definition lookups_agree_at (w1 : world) (s : kstate) : bool * (nat * nat) :=
  (forallb (fun e => file_lookup_agrees_prep w1 s (fst e)) (c_files (w_old w1)) &&
   forallb (fun e => sub_lookup_agrees w1 s (fst e)) (c_subs (w_old w1)),
   (file_hits_prep w1, sub_hits w1)).

Definition lookups_agree (cf : path) (nm : string) (vers : pyval) (w : world) : bool * (nat * nat) :=
  match root_states cf nm vers w with
  | Some (w1, s) => lookups_agree_at w1 s
  | None => (false, (0, 0))
  end.

(* the same after a prefix of the program has run on both sides *)
Definition lookups_agree_after (cf : path) (nm : string) (vers : pyval) (prefix : prog) (w : world) : bool * (nat * nat) :=
  match root_states cf nm vers w with
  | Some (w1, s) =>
      let '(w2, _) := run prefix None [] w1 in
      let '(s2, _) := core_run prefix None None [] s in
      lookups_agree_at w2 s2
  | None => (false, (0, 0))
  end.

Module CheckB.
  Import ViewK3.Check.
  Open Scope string_scope.

  (* second build of the program of CacheRTEx (an output changed), when the root function starts *)
  Example second_build_lookups : lookups_agree CF0 "n" V pre2 = (true, (0, 0)).
  Proof. vm_compute. reflexivity. Qed.

  (* third build, when the root function starts: the subbuild record hits on both sides — it holds
     a nested build_file that succeeded, reads, and a nested build_file that RAISED
     (error_building_file on the overlay, rp_prune on the scratch tree) — and the final overlay
     agrees with the scratch tree *)
  Example third_build_lookups : lookups_agree CF0 "n" V (fst h2) = (true, (1, 1)).
  Proof. vm_compute. reflexivity. Qed.

  (* third build, after the subbuild has been served on both sides *)
  Definition prefix : prog :=
    Subbuild false "s" (PList [PInt 1]) (PDict [(PStr "b", PInt 2); (PStr "a", PNone)])
      (fun _ _ => Ret PNone) (fun _ => Ret PNone).
  Example third_build_lookups_after : lookups_agree_after CF0 "n" V prefix (fst h2) = (true, (1, 0)).
  Proof. vm_compute. reflexivity. Qed.

  (* after a first build of the ViewK2 program *)
  Definition k2w := fst (run_build ViewK2.Refute.CF "n" (PDict []) ViewK2.Refute.root init_world).
  Example k2_lookups : lookups_agree ViewK2.Refute.CF "n" (PDict []) k2w = (true, (2, 0)).
  Proof. vm_compute. reflexivity. Qed.
End CheckB.
