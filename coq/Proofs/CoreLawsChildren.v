(* Proofs/CoreLawsChildren.v — the directory listing [children] is determined by
   (and determines) which direct child paths exist. *)
From Coq Require Import List String Ascii NArith Bool Arith Lia.
From FB.Base Require Import PyVal Fs.
From FB.Proofs Require Import FsLemmas CleanLaws JsonLaws.
Import ListNotations.
Open Scope list_scope.

(* ---- mem_str / dedup ---- *)
Lemma mem_str_In : forall s l, mem_str s l = true <-> In s l.
Proof.
  intros s l. induction l as [|x r IH]; simpl.
  - split; [discriminate|tauto].
  - rewrite orb_true_iff, IH, String.eqb_eq. split; intros [H|H]; auto.
Qed.

Lemma In_dedup : forall x l, In x (dedup l) <-> In x l.
Proof.
  intros x l. induction l as [|y r IH]; simpl; [tauto|].
  destruct (mem_str y r) eqn:E.
  - rewrite IH. split; [auto|]. intros [<-|H]; [apply mem_str_In; exact E|exact H].
  - simpl. rewrite IH. tauto.
Qed.

Lemma NoDup_dedup : forall l, NoDup (dedup l).
Proof.
  induction l as [|y r IH]; simpl; [constructor|].
  destruct (mem_str y r) eqn:E; [exact IH|].
  constructor; [|exact IH]. rewrite In_dedup. intro H. apply mem_str_In in H. congruence.
Qed.

(* ---- strictly sorted string lists ---- *)
Fixpoint strict_sorted (l : list string) : Prop :=
  match l with
  | [] => True
  | x :: r => (forall y, In y r -> str_ltb x y = true) /\ strict_sorted r
  end.

Lemma insert_strict_sorted : forall x l,
  strict_sorted l -> ~ In x l -> strict_sorted (insert_by str_leb x l).
Proof.
  intros x l. induction l as [|y l IH]; intros Hs Hn.
  - simpl. split; [intros ? []|exact I].
  - cbn [insert_by]. destruct Hs as [Hy Hs].
    unfold str_leb. destruct (str_ltb y x) eqn:E; cbn [negb].
    + cbn [strict_sorted]. split; [|apply IH; [exact Hs|intro; apply Hn; right; assumption]].
      intros w Hw. apply In_insert_by in Hw.
      destruct Hw as [<-|Hw]; [exact E|apply Hy; exact Hw].
    + assert (Hlt: str_ltb x y = true).
      { destruct (str_ltb x y) eqn:E'; [reflexivity|]. exfalso. apply Hn. left.
        symmetry. apply str_ltb_tricho; assumption. }
      cbn [strict_sorted]. split; [|split; assumption].
      intros w [<-|Hw]; [exact Hlt|]. eapply str_ltb_trans; [exact Hlt|apply Hy; exact Hw].
Qed.

Lemma sort_strs_strict_sorted : forall l, NoDup l -> strict_sorted (sort_strs l).
Proof.
  induction l as [|a l IH]; intros H; [exact I|]. inversion H; subst.
  unfold sort_strs, sort_by. cbn [fold_right]. fold (sort_by str_leb l).
  apply insert_strict_sorted; [apply IH; assumption|].
  rewrite In_sort_by. assumption.
Qed.

Lemma strict_sorted_ext : forall l1 l2,
  strict_sorted l1 -> strict_sorted l2 -> (forall x, In x l1 <-> In x l2) -> l1 = l2.
Proof.
  induction l1 as [|a l1 IH]; intros [|b l2] H1 H2 E.
  - reflexivity.
  - exfalso. apply (E b). left; reflexivity.
  - exfalso. apply (E a). left; reflexivity.
  - destruct H1 as [Ha H1], H2 as [Hb H2].
    assert (a = b).
    { destruct (proj1 (E a) (or_introl eq_refl)) as [Hab|Hin]; [symmetry; exact Hab|].
      destruct (proj2 (E b) (or_introl eq_refl)) as [Hab|Hin']; [exact Hab|].
      exfalso. eapply str_ltb_asym; [apply Ha; exact Hin'|apply Hb; exact Hin]. }
    subst b. f_equal. apply IH; auto.
    intro x. split; intro Hx.
    + destruct (proj1 (E x) (or_intror Hx)) as [<-|?]; [|assumption].
      exfalso. apply Ha in Hx. rewrite str_ltb_irrefl in Hx. discriminate.
    + destruct (proj2 (E x) (or_intror Hx)) as [<-|?]; [|assumption].
      exfalso. apply Hb in Hx. rewrite str_ltb_irrefl in Hx. discriminate.
Qed.

(* ---- children ---- *)
Lemma children_In : forall fs p n, In n (children fs p) <-> lexists fs (n :: p) = true.
Proof.
  intros fs p n. unfold children, sort_strs. rewrite In_sort_by, In_dedup, in_flat_map. split.
  - intros [[k v] [_ Hn]]. cbn [fst] in Hn. destruct k as [|m d]; [destruct Hn|].
    destruct (path_eqb d p && lexists fs (m :: d)) eqn:E; [|destruct Hn].
    apply andb_true_iff in E. destruct E as [E1 E2]. apply path_eqb_eq in E1. subst d.
    destruct Hn as [<-|[]]. exact E2.
  - intro H. unfold lexists in H. destruct (lookup fs (n :: p)) as [x|] eqn:E; [|discriminate].
    cbn [lookup] in E. destruct (raw_lookup_in _ _ _ E) as [e [He Hk]].
    exists e. split; [exact He|]. destruct e as [k v]. cbn [fst] in *. subst k. rewrite path_eqb_refl. cbn [andb].
    unfold lexists. cbn [lookup]. rewrite E. left; reflexivity.
Qed.

Lemma children_strict_sorted : forall fs p, strict_sorted (children fs p).
Proof. intros fs p. unfold children. apply sort_strs_strict_sorted. apply NoDup_dedup. Qed.

Lemma children_ext : forall a b p,
  (forall n, lexists a (n :: p) = lexists b (n :: p)) -> children a p = children b p.
Proof.
  intros a b p H. apply strict_sorted_ext; try apply children_strict_sorted.
  intro n. rewrite !children_In, H. tauto.
Qed.

Lemma children_names : forall fs p n, In n (children fs p) -> exists x, lookup fs (n :: p) = Some x.
Proof.
  intros fs p n H. apply children_In in H. unfold lexists in H.
  destruct (lookup fs (n :: p)) as [x|]; [eauto|discriminate].
Qed.

Lemma children_nil_iff : forall fs p, children fs p = [] <-> (forall n, lookup fs (n :: p) = None).
Proof.
  intros fs p. split; [apply children_nil_lookup|].
  intro H. destruct (children fs p) as [|n l] eqn:E; [reflexivity|]. exfalso.
  destruct (children_names fs p n) as [x Hx]; [rewrite E; left; reflexivity|].
  rewrite H in Hx. discriminate.
Qed.

Print Assumptions children_In.
Print Assumptions children_nil_iff.
Print Assumptions children_names.
Print Assumptions children_ext.
