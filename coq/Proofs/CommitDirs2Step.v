(* Proofs/CommitDirs2Step.v -- the invariant YInv of CommitDirs2Y.v along the steps of
   build_file that change BuildDirs: error_building_file (the release walk) and
   make_dirs followed by started_building_file (the lock walk).
   New file of round 3; edits nothing. *)
From Coq Require Import List String Ascii NArith ZArith Bool Arith Lia.
From FB.Base Require Import PyVal Fs.
From FB.Gen Require Import JsonUtilGen.
From FB.Spec Require Import Prog.
From FB.Model Require Import Types Monad CreatedFiles BuildDirs SimpleOps Builder Persist Build Run Frame.
From FB.Proofs Require Import CoreLawsChildren ViewDefs ViewLemmas ViewXDefs ViewXQuery ViewXError ViewXMake1 ViewXMake2 ViewXFail ViewXRoom2 ViewXSetup ViewPrepare ViewXMkfail.
From FB.Proofs Require Import FsLemmas ReplayLaws FrameLaws CleanLaws RollbackDirsLaws
     RollbackDirsView RollbackDirsBase RollbackDirsInv RollbackDirsMake CommitDirsInv CommitDirs2Y CommitDirs2Bd.
Import ListNotations.
Local Open Scope list_scope.

Section Step.

Variable fs0 : fsT.
Variable old : cache.
Variable cf : path.
Variable P : path -> Prop.
Hypothesis Hwf0 : fs_wf fs0.

Notation RI := (RollbackDirsLaws.RInv fs0 old cf P).
Notation YI := (YInv fs0 cf).

(* ------------------------------------------------------------------ error_building_file *)
Lemma Y_bd_error : forall T w n d b',
  XInv T w -> PInv T w -> In (n :: d) T -> isfile (w_fs w) (n :: d) = false ->
  RI w -> bdZ (w_bd w) -> YI w ->
  bd_error (w_bd w) (n :: d) = Some b' -> XInv (rm1 (n :: d) T) (set_bd b' w) ->
  YI (set_bd b' w).
Proof.
  intros T w n d b' HX HP Hin Hnf Hr HZ HY Eb HX'.
  pose proof (bd_error_walk _ _ _ Eb (fun E => ltac:(discriminate E)) (x_pos _ _ HX)) as R.
  cbn [dirname tl] in R.
  pose proof (bd_error_Z _ _ _ Eb HZ) as [Z2' Z4'].
  pose proof HY as (Y4 & Y5 & Y6).
  pose proof Hr as (_ & _ & Ecf & _ & _ & _ & I4 & I5 & _ & _).
  assert (Up' : forall m x, in_counts b' (m :: x) = true -> in_counts b' x = true).
  { intros m x. exact (bi_counts_up _ (x_binv _ _ HX') m x). }
  (* a live target other than the failed one keeps its directory reserved *)
  assert (Tg : forall e, In e T -> e <> n :: d -> in_counts b' (dirname e) = true).
  { intros e He Ne. exact (X_target_parent _ _ e HX' (rm1_other _ _ _ He Ne)). }
  unfold YInv. cbn [w_fs w_bd set_bd]. split; [|split].
  - intros x (N1 & N2 & N3 & N4) m y Hy.
    destruct (in_dec path_eq_dec x (bd_created (w_bd w))) as [Hc|Hc].
    + (* x was released by this walk *)
      destruct (rl_left _ _ _ R x Hc N3) as [Cx Cx'].
      assert (Hnc : ~ In (m :: x) (bd_created b')).
      { intro K. pose proof (Up' m x (Z2' _ K)) as K2. congruence. }
      split; [|exact Hnc].
      destruct y as [g|]; [exfalso|reflexivity].
      assert (HT : In (m :: x) T).
      { assert (Hex : lexists (w_fs w) (m :: x) = true) by (unfold lexists; rewrite Hy; reflexivity).
        destruct (x_kids _ _ HX x m (proj2 (ViewLemmas.mem_path_In _ _) Hc) Hex) as [K|[K|K]].
        - destruct (x_cdir _ _ HX _ K) as [K2|[K2|K2]]; [|exact K2|congruence].
          unfold isdir in K2. rewrite Hy in K2. discriminate K2.
        - exact K.
        - unfold invis, invis_gen in K. rewrite Hy in K.
          destruct (I4 _ _ Hy) as [Ho|Hb].
          + exfalso. apply N2. unfold origfile in Ho.
            apply (wf_parent_dir fs0 m x Hwf0). unfold lexists. rewrite Ho. reflexivity.
          + destruct (I5 _ Hb) as (Hh & _ & Ncf). unfold hid in K. rewrite Ecf in K.
            destruct (path_eqb (m :: x) cf) eqn:Ee; [apply path_eqb_eq in Ee; contradiction|].
            rewrite Hh in K. cbn [orb] in K. apply HP. unfold cache_get_file in K.
            unfold cache_has_file in Hh.
            destruct (files_get (c_files (w_new w)) (m :: x)) as [[o|]|]; [discriminate K | reflexivity | discriminate Hh]. }
      destruct (path_eq_dec (m :: x) (n :: d)) as [E|E].
      * rewrite E in Hy. unfold isfile in Hnf. rewrite Hy in Hnf. discriminate Hnf.
      * pose proof (Tg _ HT E) as K. cbn [dirname tl] in K. congruence.
    + assert (HN : Nn fs0 cf w x) by (split; [exact N1|split; [exact N2|split; [exact Hc|exact N4]]]).
      destruct (Y4 x HN m y Hy) as [-> K]. split; [reflexivity|]. intro K2. apply K. exact (rl_created _ _ _ R _ K2).
  - intros a Ha. destruct (Y5 a (rl_counts _ _ _ R a Ha)) as [K|K]; [|right; exact K].
    destruct (in_dec path_eq_dec a (bd_created b')) as [Hc|Hc]; [left; exact Hc|].
    destruct (rl_left _ _ _ R a K Hc) as [_ K2]. congruence.
  - intros x (N1 & N2 & N3 & N4).
    destruct (in_dec path_eq_dec x (bd_created (w_bd w))) as [Hc|Hc].
    + destruct (rl_left _ _ _ R x Hc N3) as [Cx Cx'].
      destruct (rl_gone _ _ _ R x Cx Cx') as (_ & _ & K). left. exact (proj2 (K Hc)).
    + assert (HN : Nn fs0 cf w x) by (split; [exact N1|split; [exact N2|split; [exact Hc|exact N4]]]).
      destruct (Y6 x HN) as [K|K]; [left; exact (rl_maybe _ _ _ R _ K) | right; rewrite (rl_removed _ _ _ R); exact K].
Qed.

(* ------------------------------------------------------------------ make_dirs, then started_building_file *)
Lemma suffix_below : forall x d, suffix x d <-> x = d \/ below x d = true.
Proof.
  intros x d. induction d as [|n d IH].
  - split; [intro H; left; apply suffix_nil; exact H | intros [->|H]; [apply suffix_refl | discriminate H]].
  - split.
    + intro H. apply suffix_inv in H. destruct H as [H|H]; [left; exact H|]. right.
      apply IH in H. destruct H as [->|H]; [apply below_self_cons | apply below_cons; exact H].
    + intros [->|H]; [apply suffix_refl|]. apply suffix_cons. apply IH.
      apply below_cons_inv in H. exact H.
Qed.

Lemma counts_up_suffix : forall b, (forall m x, in_counts b (m :: x) = true -> in_counts b x = true) ->
  forall a x, suffix x a -> in_counts b a = true -> in_counts b x = true.
Proof.
  intros b Hup a x [l ->]. induction l as [|m l IH]; intro H; [exact H|]. apply IH. exact (Hup m _ H).
Qed.

Lemma Y_make_started : forall T w n d w1 ds w2 locked,
  XInv T w -> (forall a, in_counts (w_bd w) a = true -> lookup (w_fs w) a = Some NDir) ->
  bdZ (w_bd w) -> YI w ->
  make_dirs d w = (w1, inl ds) ->
  m_bd_started (n :: d) ds w1 = (w2, inl locked) ->
  XInv ((n :: d) :: T) w2 ->
  YI w2.
Proof.
  intros T w n d w1 ds w2 locked HX HC1 HZ HY Hmk Hst HX2.
  unfold make_dirs in Hmk. apply bind_inv in Hmk. destruct Hmk as [[wa [ds0 [Eds H]]]|[e [_ H]]]; [|discriminate H].
  apply bind_inv in H. destruct H as [[wb [u [El H]]]|[e [_ H]]]; [|discriminate H].
  inversion H; subst wb ds0; clear H.
  pose proof (dirs_to_make_spec d T w wa ds HX Eds) as DP.
  pose proof (dp_q _ _ _ _ _ DP) as Q.
  destruct (qrel_facts _ _ _ HX Q) as (HXa & SV & _ & _).
  pose proof (Y_query fs0 cf Hwf0 T w wa HX Q HY) as HYa.
  pose proof (sv_fs _ _ SV) as Ef. pose proof (sv_counts _ _ SV) as Ec. pose proof (sv_created _ _ SV) as Ek.
  pose proof (sv_err _ _ SV) as Ee.
  assert (Cnt : forall a, in_counts (w_bd wa) a = in_counts (w_bd w) a) by (intro a; unfold in_counts; rewrite Ec; reflexivity).
  destruct (make_dirs_loop_res _ _ _ _ _ El) as [((Bb & _ & _ & _) & _ & Same) Made].
  unfold m_bd_started in Hst. destruct (bd_started (w_bd w1) (n :: d) ds) as [b' l] eqn:Es.
  inversion Hst; subst w2 locked; clear Hst. rewrite Bb in Es.
  assert (HZa : bdZ (w_bd wa)).
  { destruct HZ as [Z2 Z4]. split; intros x Hx; rewrite Ek in Hx.
    - rewrite Cnt. exact (Z2 x Hx).
    - rewrite Ee. exact (Z4 x Hx). }
  pose proof (bd_started_Z _ _ _ _ _ Es HZa) as [Z2' Z4'].
  destruct (bd_started_more _ _ _ _ _ _ Es (x_pos _ _ HXa)) as (M1 & M2 & M3).
  destruct (bd_started_spec _ _ _ _ _ Es) as (S1 & S2 & _ & _ & S5 & S6).
  pose proof (bi_counts_up _ (x_binv _ _ HXa)) as Upa.
  assert (Up' : forall m x, in_counts b' (m :: x) = true -> in_counts b' x = true).
  { intros m x. exact (bi_counts_up _ (x_binv _ _ HX2) m x). }
  pose proof HYa as (Y4 & Y5 & Y6).
  (* every directory to make becomes a created one *)
  assert (K : forall y, In y ds -> In y (bd_created b')).
  { intros y Hy. destruct (dp_in _ _ _ _ _ DP y Hy) as (Hs & Hne & Hvd & _).
    assert (Hnc : in_counts (w_bd wa) y = false).
    { rewrite Cnt. destruct (in_counts (w_bd w) y) eqn:Ecy; [|reflexivity]. exfalso.
      unfold vdir in Hvd. unfold isdir in Hvd. rewrite (HC1 y Ecy) in Hvd. rewrite (dead_counts _ _ Ecy) in Hvd.
      discriminate Hvd. }
    apply S6; [discriminate | cbn [dirname tl]; apply suffix_below; exact Hs | exact Hy|].
    intros a Ha. destruct (in_counts (w_bd wa) a) eqn:Eca; [|reflexivity]. exfalso.
    assert (Hsa : suffix y a) by (apply suffix_below; destruct Ha as [->|Ha]; [left; reflexivity | right; exact Ha]).
    rewrite (counts_up_suffix _ Upa a y Hsa Eca) in Hnc. discriminate Hnc. }
  assert (Y5' : forall a, in_counts b' a = true ->
            In a (bd_created b') \/ lookup fs0 a = Some NDir \/ below a cf = true).
  { intros a Ha. destruct (S5 a Ha) as [Hc|(_ & Hc)].
    - destruct (Y5 a Hc) as [Z|Z]; [left; apply M3; exact Z | right; exact Z].
    - cbn [dirname tl] in Hc. apply suffix_below in Hc.
      destruct (in_dec path_eq_dec a ds) as [Hin|Hin]; [left; apply K; exact Hin|].
      destruct (dp_out _ _ _ _ _ DP a Hc Hin) as [_ Hvd].
      unfold vdir in Hvd. apply andb_true_iff in Hvd. destruct Hvd as [Hd Hdead].
      apply isdir_lookup in Hd. apply negb_true_iff in Hdead.
      destruct (in_dec path_eq_dec a (bd_created (w_bd w))) as [Hcr|Hcr].
      { left. apply M3. rewrite Ek. exact Hcr. }
      destruct (below a cf) eqn:Eb; [right; right; reflexivity|].
      destruct (lookup fs0 a) as [[g|]|] eqn:E0; [exfalso | right; left; reflexivity | exfalso].
      + assert (HN : Nn fs0 cf w a) by (split; [exact Hd|split; [rewrite E0; discriminate|split; [exact Hcr|exact Eb]]]).
        rewrite (N_dead fs0 cf Hwf0 w HY a HN) in Hdead. discriminate Hdead.
      + assert (HN : Nn fs0 cf w a) by (split; [exact Hd|split; [rewrite E0; discriminate|split; [exact Hcr|exact Eb]]]).
        rewrite (N_dead fs0 cf Hwf0 w HY a HN) in Hdead. discriminate Hdead. }
  assert (Nback : forall x, Nn fs0 cf (set_bd b' w1) x -> Nn fs0 cf wa x /\ ~ In x ds).
  { intros x (N1 & N2 & N3 & N4). cbn [w_fs w_bd set_bd] in N1, N3.
    assert (Hnin : ~ In x ds) by (intro Hin; apply N3; apply K; exact Hin).
    split; [|exact Hnin]. split; [rewrite <- (Same x Hnin); exact N1|]. split; [exact N2|]. split; [|exact N4].
    intro Hc. apply N3. apply M3. exact Hc. }
  unfold YInv. cbn [w_fs w_bd set_bd]. split; [|split].
  - intros x HN m y Hy. destruct (Nback x HN) as [HNa Hnin]. pose proof HN as (N1 & N2 & N3 & N4).
    cbn [w_fs w_bd set_bd] in N3.
    assert (Hein : ~ In (m :: x) ds).
    { intro Hin. pose proof (Up' m x (Z2' _ (K _ Hin))) as Cx.
      destruct (Y5' x Cx) as [Z|[Z|Z]]; [contradiction | contradiction | congruence]. }
    rewrite (Same _ Hein) in Hy. destruct (Y4 x HNa m y Hy) as [-> Hnc]. split; [reflexivity|].
    intro Hc. destruct (M1 _ Hc) as [Z|(Z & _)]; contradiction.
  - exact Y5'.
  - intros x HN. destruct (Nback x HN) as [HNa _]. rewrite S1, S2. exact (Y6 x HNa).
Qed.

(* ------------------------------------------------------------------ make_dirs raises *)
Lemma Y_mkfail : forall T w d w1 e, ViewXFail.RInv T w -> YI w ->
  make_dirs d w = (w1, inr e) -> YI w1.
Proof.
  intros T w d w1 e HR HY H. pose proof HR as (HX & HP & HF).
  unfold make_dirs in H. apply bind_inv in H. destruct H as [[wa [ds [Eds H]]]|[e0 [Eds _]]].
  2:{ exact (Y_query fs0 cf Hwf0 T _ _ HX (dirs_to_make_q _ _ _ _ _ Eds) HY). }
  pose proof (dirs_to_make_q _ _ _ _ _ Eds) as Q.
  pose proof (Y_query fs0 cf Hwf0 T _ _ HX Q HY) as HYa.
  pose proof (ViewXFail.qrel_RInv T _ _ Q HR) as (HXa & HPa & HFa).
  apply bind_inv in H. destruct H as [[wb [u [Eloop H]]]|[e0 [Eloop _]]]; [discriminate H|].
  assert (L0: LI (fun _ => True) (w_fs wa) wa wa [] []).
  { constructor; [apply same_core_refl|exact HFa|intro y; reflexivity|intros y []|intros m []]. }
  destruct (loop_fail_LI (fun _ => True) ds (w_fs wa) wa [] [] wa w1 e0 (bi_wf _ (x_binv _ _ HXa)) (fun _ _ => I) L0 Eloop)
    as (B' & [C F1 Hfs HB _]).
  destruct C as (C1 & _).
  apply (Y_fs_step fs0 cf wa w1 HYa C1).
  - intros q Hq. rewrite Hfs in Hq. cbn [mem_path] in Hq. destruct (mem_path q B'); [discriminate Hq | exact Hq].
  - intros m x y Hy. left. rewrite Hfs in Hy. cbn [mem_path] in Hy. destruct (mem_path (m :: x) B'); [discriminate Hy | exact Hy].
Qed.

End Step.
