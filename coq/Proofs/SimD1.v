(* Proofs/SimD1.v — the whole build of the mechanism model, part 1: a committed build, step by step.
   From [run_build … = (w', Done (inl v))]: the world w2 in which the root function returned v,
   the invariants of the Rollback/Commit developments there (RInv, DInv, EInv, YInv), and what the
   commit phase (set_created_dirs, the old cache file moved away, Cache.write, _commit) does to
   the tree, path by path, relative to w2:
     - nothing is created except the cache file (Down);
     - a regular file stays, with its node, unless it is an output of the previous build that the
       new cache does not hold (Keep); those are gone (Gone);
     - the recorded directories of the new cache are the directories BuildDirs created (Dirs).
   The proof replays CommitDirs3Main.accept_dirs_exact_wf / CommitDirs2FileMain.accept_files_recorded
   and exports the facts those proofs keep internal.                                        *)
From Coq Require Import List String Ascii NArith ZArith Bool Arith Lia Sorted.
From FB.Base Require Import PyVal Fs.
From FB.Gen Require Import JsonUtilGen.
From FB.Spec Require Import Prog Ref Oracle.
From FB.Model Require Import Types Monad CreatedFiles BuildDirs SimpleOps Builder Persist Build Run Frame.
From FB.Proofs Require Import CoreLawsChildren ViewDefs ViewLemmas ViewInit ViewXDefs ViewXInit ViewXQuery ViewXSteps ViewXFail
     ViewXSetup ViewXRun ViewXReach ViewXC04 ViewR1 ViewR2 ViewR3 ViewR9.
From FB.Proofs Require Import FsLemmas ReplayLaws FrameLaws CleanLaws RollbackDirsLaws
  RollbackDirsView RollbackDirsBase RollbackDirsInv RollbackDirsMake RollbackDirsRun
  RollbackDirsMain CommitDirsInv CommitDirsRun CommitDirsMain
  CommitDirs2Y CommitDirs2Bd CommitDirs2Step CommitDirs2Run CommitDirs2Main CommitDirs3Adopt CommitDirs3Run.
Import ListNotations.
Local Open Scope list_scope.

(* what is known when a build has committed *)
Record Committed (fs0 : fsT) (old : cache) (cf : path) (P : path -> Prop) (pr : prog)
       (w : world) (nm : string) (svers : pyval) (w' : world) (v : pyval) (w1 w2 : world) (x : list op) : Prop := {
  cm_mk : make_dirs (dirname cf) (start_world w cf old nm svers) = (w1, inl []);
  cm_run : run pr None [] (set_log (LInvoke "<root>" None PNone PNone :: w_log w1) w1) = (w2, (inl v, x));
  cm_rinv : RollbackDirsLaws.RInv fs0 old cf P w2;
  cm_dinv : DInv fs0 old cf P [] w2;
  cm_einv : EInv fs0 old cf P w2;
  cm_yinv : YInv fs0 cf w2;
  cm_nopend : forall q, files_get (c_files (w_new w2)) q <> Some None;
  cm_new : c_files (w_new w') = c_files (w_new w2) /\ c_built (w_new w') = c_built (w_new w2);
  cm_dirs : forall d, In d (c_dirs (w_new w')) <-> In d (bd_created (w_bd w2));
  cm_down : forall q y, q <> cf -> lookup (w_fs w') q = Some y -> lookup (w_fs w2) q = Some y;
  cm_keep : forall q g, q <> cf -> lookup (w_fs w2) q = Some (NFile g) ->
            ~ (cache_has_file (w_new w2) q = false /\ cache_created_file old q = true) ->
            lookup (w_fs w') q = Some (NFile g);
  cm_gone : forall q g, q <> cf -> cache_has_file (w_new w2) q = false -> cache_created_file old q = true ->
            lookup (w_fs w') q <> Some (NFile g);
  cm_cf : exists fj, lookup (w_fs w') cf = Some (NFile fj);
  (* the commit phase, step by step: w4 after Cache.write, wa after the first loop of _commit, wb after
     the second *)
  cm_commit : exists w4 wa wb extra u,
    w_bd w4 = w_bd w2 /\ w_old w4 = old /\ w_cachefile w4 = cf /\ w_faults w4 = [] /\ fs_wf (w_fs w4) /\
    (forall a, hid w4 a = hid w2 a) /\
    (forall q, q <> cf -> lookup (w_fs w4) q = lookup (w_fs w2) q) /\
    (exists fj, lookup (w_fs w4) cf = Some (NFile fj)) /\ lookup (w_fs w2) cf <> Some NDir /\
    mapM_ rm_old (cache_created_files old) w4 = (wa, inl tt) /\
    w_faults wa = [] /\ w_faults wb = [] /\ w_fs wb = w_fs wa /\
    (forall d, isdir (w_fs wb) d = isdir (w_fs w2) d) /\
    vdirs_absent (c_dirs old) wa = (wb, inl extra) /\
    remove_empty_dirs (union_paths (bd_err_created (w_bd w2)) extra) wb = (w', inl u)
}.

Section Accept4.

Variable fs0 : fsT.
Variable old : cache.
Variable cf : path.
Variable P : path -> Prop.

Hypothesis HypA : forall a t, Tgt old cf P t -> below a t = true -> ~ P a.
Hypothesis HS : forall a t, Tgt old cf P t -> below a t = true -> notorig fs0 a.
Hypothesis Hwf0 : fs_wf fs0.
Hypothesis HE : forall d, In d (c_dirs old) -> path_ok d = true.
Hypothesis HPt : forall p, P p -> tgtP p.

Lemma accept_committed : forall nm svers pr w w' v,
  fs0 = w_fs w -> w_faults w = [] -> AllTargets P pr ->
  (forall w1 ccd, make_dirs (dirname cf) (start_world w cf old nm svers) = (w1, inl ccd) ->
     ccd = [] /\ ViewR2.RInv2 (fun _ : cache => True) [] (set_log (LInvoke "<root>" None PNone PNone :: w_log w1) w1)) ->
  m_accept cf nm svers (fun w0 => run pr None [] w0) w old = (w', Done (inl v)) ->
  exists w1 w2 x, Committed fs0 old cf P pr w nm svers w' v w1 w2 x.
Proof.
  intros nm svers pr w w' v Hfs Hf Hat Hentry H. unfold m_accept in H. cbv zeta in H.
  pose proof (RInv_start fs0 old cf P w nm svers Hfs Hf) as Hr0.
  pose proof (DInv_start fs0 old cf P Hwf0 w nm svers Hfs) as HD0.
  pose proof (EInv_start fs0 old cf P w nm svers) as He0.
  assert (T0 : forall u, tcond None u) by (intros u q Y; discriminate Y).
  assert (G0 : forall u, gcond None u) by (intros u q Y; discriminate Y).
  assert (Tcf : Tgt old cf P cf) by (right; left; reflexivity).
  destruct (make_dirs (dirname cf) (start_world w cf old nm svers)) as [w1 [ccd|e1]] eqn:E1.
  2:{ destruct (roll_back [] w1) as [wr [u|e']]; discriminate H. }
  destruct (Hentry _ _ eq_refl) as [Eccd HR1]. subst ccd.
  destruct (make_dirs_T fs0 old cf P HypA None cf Tcf _ _ _ E1 Hr0 (T0 _)) as [Hr1 _].
  pose proof (make_dirs_D fs0 old cf P HypA [] _ _ _ _ E1 Hr0 HD0
                (fun d Hne Hd => AncT_of_target old cf P cf d Tcf Hne Hd)) as R. cbn beta iota in R.
  destruct R as (made & A1 & A2 & A3 & A4 & A5).
  assert (HD1 : DInv fs0 old cf P [] w1).
  { apply (DInv_X fs0 old cf P (made ++ []) [] w1 A1).
    - intros d Hd. left. apply A3. rewrite app_nil_r in Hd. exact Hd.
    - intros d []. }
  pose proof (make_dirs_ekeep fs0 old cf P HypA HS cf _ _ _ E1 Tcf Hr0) as Ek1.
  destruct (ekeep_E fs0 old cf P _ _ Ek1 He0) as [He1 _].
  destruct Ek1 as (K1 & _ & _ & _ & _ & K6 & K7 & K8).
  assert (Trk1 : forall d, ~ tracked (w_bd w1) d).
  { intros d [Y|Y]; [rewrite K7 in Y | rewrite K8 in Y]; exact Y. }
  set (w1' := set_log (LInvoke "<root>" None PNone PNone :: w_log w1) w1) in *.
  assert (HY1 : YInv fs0 cf w1').
  { unfold YInv, Nn. cbn [w_fs w_bd set_log w1'].
    assert (NoN : forall d, lookup (w_fs w1) d = Some NDir -> lookup fs0 d <> Some NDir -> False).
    { intros d N1 N2. destruct HD1 as (_ & D2 & _).
      destruct (D2 d N1) as [Y|[Y|Y]]; [contradiction | exact (Trk1 d Y)|destruct Y]. }
    split; [|split].
    - intros d (N1 & N2 & _ & N4). exfalso. exact (NoN d N1 N2).
    - intros a Ha. unfold in_counts in Ha. rewrite K6 in Ha. cbn in Ha. discriminate Ha.
    - intros d (N1 & N2 & _ & N4). exfalso. exact (NoN d N1 N2). }
  match type of H with (let '(_, _) := ?Z in _) = _ => destruct Z as [w2 [res x]] eqn:E2 end.
  destruct res as [v0|e2]; [|destruct (roll_back [] w2) as [wr [u|e']]; discriminate H].
  destruct (GRel_set_log fs0 old cf P [] None (LInvoke "<root>" None PNone PNone :: w_log w1) w1 (conj Hr1 HD1) He1 (T0 _) (G0 _))
    as (F1' & _ & E1' & _). fold w1' in F1', E1'.
  pose proof (run_Y2 fs0 old cf P [] HypA HS Hwf0 HPt pr Hat None [] [] w1' w2 _ HR1 F1' E1' (T0 _) (G0 _)
                (fun p Hp => ltac:(discriminate Hp)) HY1 E2) as HY2.
  destruct (run_G fs0 old cf P [] HypA HS pr Hat None [] _ _ _ E2 F1' E1' (T0 _) (G0 _)) as (F2 & _ & He2 & _).
  destruct F2 as [Hr2 HD2].
  destruct (bd_pre cf [] w2) as [w3 [err|e3]] eqn:E3; [|destruct (roll_back [] w3) as [wr [u|e']]; discriminate H].
  destruct (write_cache w3) as [w4 [u4|e4]] eqn:E4.
  2:{ destruct (try_to_remove_file cf w4) as [w5 r5]. destruct (roll_back [] w5) as [wr [u|e']]; discriminate H. }
  destruct (commit err w4) as [w5 [u5|e5]] eqn:E5; [|discriminate H].
  inversion H; subst w5 v0; clear H.
  pose proof Hr2 as (Hf2 & Bo2 & Cc2 & _).
  pose proof He2 as (Z1 & _).
  destruct (bd_pre_spec _ _ _ _ _ E3 Hf2) as (Eerr & N3 & B3 & Hf3 & O3 & C3 & Fr3 & Wf3 & Dcf3).
  destruct (write_cache_spec _ _ _ E4 Hf3) as (j & fj & Ej & Lcf & Jf & Fr4 & N4 & B4 & Hf4 & O4 & C4 & Wf4 & Ncf).
  rewrite C3, Cc2 in Lcf, Fr4, Ncf.
  set (newc := new_cache_of [] w2) in *.
  assert (NP : forall q, ~ pending (w_new w4) q).
  { intro q. rewrite N4. eapply cache_to_json_no_pending; eauto. }
  assert (Cc4 : w_cachefile w4 = cf) by congruence.
  assert (Bo4 : w_old w4 = old) by congruence.
  rewrite commit_unfold in E5. rewrite Bo4 in E5.
  apply bind_inv in E5. destruct E5 as [(wa & ua & Ea & E5) | (e & Ea & _)].
  2:{ destruct (rm_old_loop _ _ _ _ Ea Hf4 NP) as (Y & _). discriminate Y. }
  destruct (rm_old_loop _ _ _ _ Ea Hf4 NP) as (_ & Hfa & Na & Oa & Ca & Ba & Fra & Rma).
  apply bind_inv in E5. destruct E5 as [(wb & extra2 & Eb & E5) | (e & Eb & _)].
  2:{ destruct (vdirs_absent_spec _ _ _ _ Eb HE) as (x0 & Y & _). discriminate Y. }
  destruct (vdirs_absent_spec _ _ _ _ Eb HE) as (x0 & Y & Vb & Xb). inversion Y; subst x0; clear Y.
  destruct Vb as ((Fb1 & _ & _ & _ & Fb5 & _ & _ & _ & _ & Fb10 & _) & _).
  assert (Hfb : w_faults wb = []) by congruence.
  destruct (remove_empty_dirs_spec _ _ _ _ E5 Hfb) as (_ & _ & Bc & Rc3 & Rc4 & _).
  pose proof (remove_empty_dirs_new _ _ _ _ E5) as (Nc & _ & _).
  assert (Nfin : w_new w' = newc) by congruence.
  assert (Hro : forall q, removed_old w4 q <-> q <> cf /\ cache_has_file newc q = false /\ cache_created_file old q = true).
  { intro q. unfold removed_old. rewrite Cc4, N4, N3, Bo4. tauto. }
  assert (L24 : forall q, q <> cf -> lookup (w_fs w4) q = lookup (w_fs w2) q).
  { intros q Nq. rewrite (Fr4 q Nq). apply Fr3. exact Nq. }
  assert (Down : forall q y, q <> cf -> lookup (w_fs w') q = Some y -> lookup (w_fs w2) q = Some y).
  { intros q y Nq Hq. rewrite <- (L24 q Nq).
    assert (Y : lookup (w_fs wb) q = Some y) by (destruct (Rc3 q) as [Y|(_ & _ & Y)]; congruence).
    rewrite Fb1 in Y. destruct (Fra q) as [Z|(g' & _ & Z & _)]; congruence. }
  exists w1, w2, x. constructor.
  - exact E1.
  - exact E2.
  - exact Hr2.
  - exact HD2.
  - exact He2.
  - exact HY2.
  - intros q Hq. apply (NP q). unfold pending. rewrite N4, N3. exact Hq.
  - rewrite Nfin. split; reflexivity.
  - intro d. rewrite Nfin. unfold newc, new_cache_of. cbn [c_dirs cache_with filter app]. rewrite Z1, app_nil_r, In_union_paths.
    cbn [In]. tauto.
  - exact Down.
  - intros q g Nq Hq Hnr. rewrite <- (L24 q Nq) in Hq.
    assert (Y : lookup (w_fs wa) q = Some (NFile g)).
    { destruct (Fra q) as [Z|(g' & _ & _ & Z)]; [congruence|]. exfalso. apply Hnr. apply Hro in Z.
      destruct Z as (_ & Z2 & Z3). split; [exact Z2|exact Z3]. }
    rewrite <- Fb1 in Y. destruct (Rc3 q) as [Z|(_ & Z & _)]; congruence.
  - intros q g Nq Hh Hc Hq.
    assert (Hin : In q (cache_created_files old)).
    { apply cache_created_file_In. exact Hc. }
    assert (Hr : removed_old w4 q) by (apply Hro; split; [exact Nq|split; [exact Hh|exact Hc]]).
    assert (Y : lookup (w_fs wb) q = Some (NFile g)) by (destruct (Rc3 q) as [Y|(_ & _ & Y)]; congruence).
    rewrite Fb1 in Y. exact (Rma q Hin Hr g Y).
  - exists fj.
    assert (Y : lookup (w_fs wa) cf = Some (NFile fj)).
    { destruct (Fra cf) as [Z|(g' & _ & _ & Z)]; [congruence|]. destruct Z as (Z & _). congruence. }
    rewrite <- Fb1 in Y. destruct (Rc3 cf) as [Z|(_ & Z & _)]; congruence.
  - exists w4, wa, wb, extra2, u5.
    split; [congruence|]. split; [exact Bo4|]. split; [exact Cc4|]. split; [exact Hf4|].
    split; [apply Wf4, Wf3; destruct HD2 as (Y & _); exact Y|].
    split; [intro a; unfold hid, cache_has_file, cache_get_file; rewrite Cc4, Bo4, N4, N3, Cc2, Bo2; reflexivity|].
    split; [exact L24|]. split; [exists fj; exact Lcf|]. split; [intro Y; apply Ncf, Dcf3, Y|].
    split; [destruct ua; exact Ea|]. split; [exact Hfa|]. split; [exact Hfb|]. split; [exact Fb1|].
    split.
    { intro d. unfold isdir. rewrite Fb1. destruct (path_eq_dec d cf) as [->|Nd].
      - assert (Y : lookup (w_fs wa) cf = Some (NFile fj)).
        { destruct (Fra cf) as [Z|(g' & _ & _ & Z)]; [congruence|]. destruct Z as (Z & _). congruence. }
        rewrite Y. destruct (lookup (w_fs w2) cf) as [[g|]|] eqn:E2c; try reflexivity.
        exfalso. apply Ncf, Dcf3. reflexivity.
      - destruct (Fra d) as [Z|(g' & U1 & U2 & _)].
        + rewrite Z, (L24 d Nd). reflexivity.
        + rewrite U2. rewrite (L24 d Nd) in U1. rewrite U1. reflexivity. }
    split; [exact Eb|].
    rewrite Eerr in E5. cbn [filter fold_left] in E5. exact E5.
Qed.

End Accept4.

Print Assumptions accept_committed.
