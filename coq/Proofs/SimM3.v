(* Proofs/SimM3.v — the class okcH (SimJ4: okc with HASH results allowed) across builds, closed.
   SimF4 (RS_rest) and SimF5 (RS_times) for okcH, then SimF6 for okcH:
     rest_static_newH  : SimD7.RestStatic for the cache at the end of the root function
     okcH_next_closed  : SimJ13.okcH_next with its hypothesis RestStatic discharged.
   No condition on comparison modes: QueriesOkP (SimG5) in place of QueriesOk, no CmpMeta.  *)
From Coq Require Import List String Ascii NArith ZArith Bool Arith Lia.
From FB.Base Require Import PyVal Fs.
From FB.Gen Require Import JsonUtilGen.
From FB.Spec Require Import JsonSpec Prog Ref Oracle Faithful.
From FB.Model Require Import Types Monad CreatedFiles BuildDirs SimpleOps Builder Persist Build Run Frame Core CoreOracle.
From FB.Proofs Require Import FsLemmas JsonLaws ReplayLaws BuildFileLaws CoreLaws1 CoreLaws2 CoreLaws3 CoreLaws4
     CoreNextRegs CoreNextState
     HashMemoInv ViewDefs ViewLemmas ViewInit ViewXDefs ViewH4 ViewH6 ViewR2 ViewR3 ViewK3 ViewK4 ViewK8
     SimA0 SimA2Base SimAMain SimB2 SimB7 SimB9 SimC0 SimC5 SimC12 SimC14 SimC15 SimD5 SimD7 SimF1 SimF2 SimF3 SimF4 SimF5
     SimB12 SimC8 SimD6 SimG5 SimJ4 SimJ9 SimJ11 SimJ12 SimJ13 SimM1 SimM2.
Import ListNotations.
Open Scope list_scope.

Lemma okcH_ClassR : forall c0 old, okcH c0 old -> ClassR old.
Proof.
  intros c0 old Hokc. destruct (okcH_ClassCalm c0 old Hokc) as [C1 C2]. destruct Hokc as [H1 H2]. split.
  - intros p p' c' f' a' k' subs' r' cr' sf' Eg. split; [exact (C1 _ _ _ _ _ _ _ _ _ _ Eg)|].
    pose proof (H1 _ _ Eg) as K. cbn [frec_staticH orb] in K.
    apply andb_true_iff in K. destruct K as [_ K]. apply andb_true_iff in K. destruct K as [_ K].
    unfold subs_staticH in K.
    apply andb_true_iff in K. destruct K as [K _]. apply andb_true_iff in K. destruct K as [K _].
    apply andb_true_iff in K. destruct K as [K _]. apply andb_true_iff in K. destruct K as [K _].
    apply andb_true_iff in K. destruct K as [_ K]. exact (node_static_argsok_l old c0 subs' K).
  - intros k f' a' k' subs' r' sf' Eg. split; [exact (C2 _ _ _ _ _ _ _ Eg)|].
    destruct (H2 _ _ Eg) as (q & _ & K). cbn [srec_staticH orb] in K.
    do 6 (apply andb_true_iff in K; destruct K as [K _]).
    unfold subs_staticH in K.
    apply andb_true_iff in K. destruct K as [K _]. apply andb_true_iff in K. destruct K as [K _].
    apply andb_true_iff in K. destruct K as [K _]. apply andb_true_iff in K. destruct K as [K _].
    apply andb_true_iff in K. destruct K as [_ K]. exact (node_static_argsok_l old c0 subs' K).
Qed.

Theorem new_cache_restH : forall w cachefile old nm svers root w1 w2 v l,
  okcH (w_clock w) old -> fs_wf (w_fs w) -> old_ok old cachefile -> WfCache old -> old_keys_ok old -> w_faults w = [] ->
  path_ok (dirname cachefile) = true -> isdir (w_fs w) cachefile = false -> maxlen (w_fs w) < walk_fuel ->
  vdir (Build.start_world w cachefile old nm svers) (dirname cachefile) = true ->
  AllTargets tgtP root -> NoNest [] root -> QueriesOkP root -> WfArgs root ->
  TargetsClear old root -> TargetsApart old root -> RkNew old [] root ->
  (* no function catches the exception of a nested call *)
  NoCatch root ->
  make_dirs (dirname cachefile) (Build.start_world w cachefile old nm svers) = (w1, inl []) ->
  (* the root function returns *)
  run root None [] (set_log (LInvoke "<root>"%string None PNone PNone :: w_log w1) w1) = (w2, (inl v, l)) ->
  RS_rest (w_new w2).
Proof.
  intros w cachefile old nm svers root w1 w2 v l Hokc Hwf Hok HW HKo HF Hp Hnc Hml Hd Hat Hnn Hqk Hwa Hcl Hap _ Hno Emk Erun.
  destruct (build_run_hash w cachefile old nm svers root w1 w2 (inl v) l Hokc Hwf Hok HW HKo HF Hp Hnc Hml Hd Hat Hnn Hqk Hwa Hcl Hap Emk Erun)
    as (s1 & pd & sb & T' & W' & Ecore & [HS _]).
  pose proof (Sim4_sim3 _ _ _ _ HS) as HS3.
  destruct (core_run_ext root _ _ _ _ _ _ _ _ Ecore) as (produced & _ & HX).
  destruct (x_newF _ _ _ _ _ HX) as (nF & EnF & HnF). cbn [ViewK4.core_start k_newF app] in EnF.
  set (s0 := ViewK4.core_start (w_fs w) cachefile old svers (w_clock w) (w_nextid w) (LInvoke "<root>"%string None PNone PNone :: w_log w1)) in *.
  assert (HT0: KG s0) by (split; intros q x []).
  destruct (core_run_good old (okcH_ClassR _ _ Hokc) root Hno Hwa None None [] s0 s1 v pd sb (eq_refl : k_old s0 = old) HT0
              (fun y (Hy : In y []) => match Hy with end) Ecore) as ([T1 T2] & _ & _ & _).
  assert (Hreg : forall q, In q (RF s1) -> cache_created_file (w_new w2) q = true).
  { intros q Hq. unfold RF in Hq. apply in_map_iff in Hq. destruct Hq as ([q' o] & Eq & Hin). cbn [fst] in Eq. subst q'.
    destruct (kf_get_some _ _ _ Hin) as (o5 & E5). pose proof (kf_get_in _ _ _ E5) as Hin5.
    destruct (T1 q o5 Hin5) as [Hc5 _].
    rewrite EnF in Hin5. destruct (HnF q o5 Hin5) as (_ & (c & f & a & k & subs & r0 & cr & ra & ->) & _).
    cbn [calm] in Hc5. apply andb_true_iff in Hc5. destruct Hc5 as [Hra _]. apply negb_true_iff in Hra. subst ra.
    pose proof (s3_recF _ _ _ HS3 q) as K. rewrite E5 in K. unfold cache_created_file.
    destruct (cache_get_file (w_new w2) q) as [o6|]; [|contradiction].
    destruct o6 as [q6 r6 e6|p6 c6 f6 a6 k6 subs6 r6 cr6 ra6 sf6|f6 a6 k6 subs6 r6 ra6 sf6]; cbn [rec_rel] in K; try contradiction.
    destruct K as (_ & _ & _ & _ & _ & _ & _ & _ & -> & _). reflexivity. }
  split.
  - intros p p' c' f' a' k' subs r' cr' sf' Hg.
    pose proof (s3_recF _ _ _ HS3 p) as K. rewrite Hg in K.
    destruct (kf_get (k_newF s1) p) as [o'|] eqn:E; [|contradiction].
    pose proof (T1 p o' (kf_get_in _ _ _ E)) as Hgood.
    rewrite nodesl_deepl. apply forallb_forall. intros x Hx.
    apply (node_rest_transfer (w_new w2) (RF s1) Hreg _ o' K Hgood x). right. exact Hx.
  - intros k f a kk subs r sf Hg.
    pose proof (s3_recS _ _ _ HS3 k) as K. rewrite Hg in K.
    destruct (ks_get (k_newS s1) k) as [o'|] eqn:E; [|contradiction].
    destruct (ks_get_in _ _ _ E) as [q Hq]. pose proof (T2 q o' Hq) as Hgood.
    split.
    + rewrite nodesl_deepl. apply forallb_forall. intros x Hx.
      apply (node_rest_transfer (w_new w2) (RF s1) Hreg _ o' K Hgood x). right. exact Hx.
    + pose proof (node_rest_transfer (w_new w2) (RF s1) Hreg _ o' K Hgood _ (deep_self _)) as Z. cbn [node_rest] in Z.
      apply andb_true_iff in Z. destruct Z as [Z Z4]. apply andb_true_iff in Z. destruct Z as [Z Z3].
      apply andb_true_iff in Z. destruct Z as [Z1 Z2]. repeat split; assumption.
Qed.

Lemma okcH_RS_times : forall c0 c1 old, (c0 <= c1)%N -> okcH c0 old -> RS_times c1 old.
Proof.
  intros c0 c1 old Hc [H1 H2]. split.
  - intros p p' c' f' a' k' subs r' cr' sf' Hg. pose proof (H1 _ _ Hg) as K. cbn [frec_staticH orb] in K.
    apply andb_true_iff in K. destruct K as [_ K]. apply andb_true_iff in K. destruct K as [_ K].
    unfold subs_staticH in K.
    do 4 (apply andb_true_iff in K; destruct K as [K _]).
    apply andb_true_iff in K. destruct K as [_ K].
    eapply forallb_imp; [|exact K]. intros x Hx. eapply node_time_mono; [exact Hc|]. eapply node_static_time; exact Hx.
  - intros k f a kk subs r sf Hg. destruct (H2 _ _ Hg) as (q & _ & K). cbn [srec_staticH orb] in K.
    do 6 (apply andb_true_iff in K; destruct K as [K _]).
    unfold subs_staticH in K.
    do 4 (apply andb_true_iff in K; destruct K as [K _]).
    apply andb_true_iff in K. destruct K as [_ K].
    eapply forallb_imp; [|exact K]. intros x Hx. eapply node_time_mono; [exact Hc|]. eapply node_static_time; exact Hx.
Qed.

Theorem new_cache_timesH : forall w cachefile old nm svers root w1 w2 v l c1,
  okcH (w_clock w) old -> fs_wf (w_fs w) -> old_ok old cachefile -> WfCache old -> old_keys_ok old -> w_faults w = [] ->
  path_ok (dirname cachefile) = true -> isdir (w_fs w) cachefile = false -> maxlen (w_fs w) < walk_fuel ->
  vdir (Build.start_world w cachefile old nm svers) (dirname cachefile) = true ->
  AllTargets tgtP root -> NoNest [] root -> QueriesOkP root -> WfArgs root ->
  TargetsClear old root -> TargetsApart old root -> RkNew old [] root ->
  NoCatch root ->
  make_dirs (dirname cachefile) (Build.start_world w cachefile old nm svers) = (w1, inl []) ->
  run root None [] (set_log (LInvoke "<root>"%string None PNone PNone :: w_log w1) w1) = (w2, (inl v, l)) ->
  (forall p f, lookup (w_fs w) p = Some (NFile f) -> (f_mtime f <= w_clock w)%N) ->
  (w_clock w2 <= c1)%N ->
  RS_times c1 (w_new w2).
Proof.
  intros w cachefile old nm svers root w1 w2 v l c1 Hokc _ _ _ _ _ _ _ _ _ _ _ _ _ _ _ _ _ Emk Erun Hfo Hc.
  assert (Hc01 : (w_clock w <= c1)%N).
  { eapply N.le_trans; [|exact Hc]. pose proof (make_dirs_tu _ _ _ _ Emk) as [U1 _].
    pose proof (run_tu _ _ _ _ _ _ Erun) as [U2 _]. cbn [w_clock set_log Build.start_world] in U1, U2.
    eapply N.le_trans; eassumption. }
  exact (proj1 (new_cache_times_gen w cachefile old nm svers root w1 w2 _ _ l (w_clock w) c1
                 (okcH_RS_times _ _ old (N.le_refl _) Hokc) Hc01 Emk Erun Hfo Hc)).
Qed.

Theorem rest_static_newH : forall w cachefile old nm svers root w1 w2 v l c1,
  okcH (w_clock w) old -> fs_wf (w_fs w) -> old_ok old cachefile -> WfCache old -> old_keys_ok old -> w_faults w = [] ->
  path_ok (dirname cachefile) = true -> isdir (w_fs w) cachefile = false -> maxlen (w_fs w) < walk_fuel ->
  vdir (Build.start_world w cachefile old nm svers) (dirname cachefile) = true ->
  AllTargets tgtP root -> NoNest [] root -> QueriesOkP root -> WfArgs root ->
  TargetsClear old root -> TargetsApart old root -> RkNew old [] root ->
  NoCatch root ->
  make_dirs (dirname cachefile) (Build.start_world w cachefile old nm svers) = (w1, inl []) ->
  run root None [] (set_log (LInvoke "<root>"%string None PNone PNone :: w_log w1) w1) = (w2, (inl v, l)) ->
  (forall p f, lookup (w_fs w) p = Some (NFile f) -> (f_mtime f <= w_clock w)%N) ->
  (w_clock w2 <= c1)%N ->
  RestStatic c1 (w_new w2).
Proof.
  intros w cachefile old nm svers root w1 w2 v l c1 Hokc Hwf Hok HW HKo HF Hp Hnc Hml Hd Hat Hnn Hqk Hwa Hcl Hap Hnew Hno Emk Erun Hfo Hc1.
  apply rest_static_of_parts.
  - exact (new_cache_regsH w cachefile old nm svers root w1 w2 (inl v) l Hokc Hwf Hok HW HKo HF Hp Hnc Hml Hd Hat Hnn Hqk Hwa Hcl Hap Emk Erun).
  - exact (new_cache_keysH w cachefile old nm svers root w1 w2 v l Hokc Hwf Hok HW HKo HF Hp Hnc Hml Hd Hat Hnn Hqk Hwa Hcl Hap Hnew Hno Emk Erun).
  - apply rs_nodes_of_parts.
    + exact (new_cache_timesH w cachefile old nm svers root w1 w2 v l c1 Hokc Hwf Hok HW HKo HF Hp Hnc Hml Hd Hat Hnn Hqk Hwa Hcl Hap Hnew Hno Emk Erun Hfo Hc1).
    + exact (new_cache_restH w cachefile old nm svers root w1 w2 v l Hokc Hwf Hok HW HKo HF Hp Hnc Hml Hd Hat Hnn Hqk Hwa Hcl Hap Hnew Hno Emk Erun).
Qed.

Theorem okcH_next_closed : forall w cachefile old nm svers root w1 w2 v l c1,
  okcH (w_clock w) old -> fs_wf (w_fs w) -> old_ok old cachefile -> WfCache old -> old_keys_ok old -> w_faults w = [] ->
  path_ok (dirname cachefile) = true -> isdir (w_fs w) cachefile = false -> maxlen (w_fs w) < walk_fuel ->
  vdir (Build.start_world w cachefile old nm svers) (dirname cachefile) = true ->
  AllTargets tgtP root -> NoNest [] root -> QueriesOkP root -> WfArgs root ->
  TargetsClear old root -> TargetsApart old root -> RkNew old [] root ->
  (* no function catches the exception of a nested call *)
  NoCatch root ->
  make_dirs (dirname cachefile) (Build.start_world w cachefile old nm svers) = (w1, inl []) ->
  (* the root function returns *)
  run root None [] (set_log (LInvoke "<root>"%string None PNone PNone :: w_log w1) w1) = (w2, (inl v, l)) ->
  (* no regular file of the pre-state is newer than the clock; the next build does not start
     before the root function has returned *)
  (forall p f, lookup (w_fs w) p = Some (NFile f) -> (f_mtime f <= w_clock w)%N) ->
  (w_clock w2 <= c1)%N ->
  okcH c1 (w_new w2).
Proof.
  intros w cachefile old nm svers root w1 w2 v l c1 Hokc Hwf Hok HW HKo HF Hp Hnc Hml Hd Hat Hnn Hqk Hwa Hcl Hap Hnew Hno Emk Erun Hfo Hc1.
  apply (okcH_next w cachefile old nm svers root w1 w2 v l c1 Hokc Hwf Hok HW HKo HF Hp Hnc Hml Hd Hat Hnn Hqk Hwa Hcl Hap Hnew Hno Emk Erun).
  exact (rest_static_newH w cachefile old nm svers root w1 w2 v l c1 Hokc Hwf Hok HW HKo HF Hp Hnc Hml Hd Hat Hnn Hqk Hwa Hcl Hap Hnew Hno Emk Erun Hfo Hc1).
Qed.

Print Assumptions rest_static_newH.
Print Assumptions okcH_next_closed.
