(* Proofs/CacheRTCycle.v — C16 at cache level, the second cycle: the cache that
   was read back is a fixed point of write-then-read, provided its forest is the
   forest it was read from (hypothesis [forest_stable], established by
   computation on examples in CacheRTEx.v). *)
From Coq Require Import List String Ascii NArith ZArith Bool Arith Lia Permutation.
From FB.Base Require Import PyVal Fs.
From FB.Gen Require Import JsonUtilGen.
From FB.Spec Require Import JsonSpec.
From FB.Model Require Import Types Monad SimpleOps Builder PathNorm Persist PersistSpec.
From FB.Proofs Require Import FsLemmas JsonLaws PersistLaws CacheRTDefs CacheRTLaws CacheRTTables.
Import ListNotations.
Local Open Scope list_scope.

Lemma add_path_In : forall p q acc, In q (add_path p acc) -> q = p \/ In q acc.
Proof.
  intros p q acc H. unfold add_path in H. destruct (mem_path p acc); [right; exact H|].
  apply in_app_or in H. destruct H as [H|[H|[]]]; [right; exact H | left; symmetry; exact H].
Qed.

Lemma dedup_fold_In : forall ds acc q,
  In q (fold_left (fun acc p => add_path p acc) ds acc) -> In q acc \/ In q ds.
Proof.
  induction ds as [|d ds IH]; intros acc q H; cbn [fold_left] in H; [left; exact H|].
  apply IH in H. destruct H as [H|H]; [|right; right; exact H].
  apply add_path_In in H. destruct H as [->|H]; [right; left; reflexivity | left; exact H].
Qed.

Lemma dedup_paths_In : forall ds q, In q (dedup_paths ds) -> In q ds.
Proof. intros ds q H. apply dedup_fold_In in H. destruct H as [[]|H]; exact H. Qed.

Lemma paths_nodup_app1 : forall acc p, paths_nodup acc = true -> mem_path p acc = false ->
  paths_nodup (acc ++ [p]) = true.
Proof.
  induction acc as [|x acc IH]; intros p Hn Hm; [reflexivity|].
  cbn [paths_nodup app] in *. apply andb_true_iff in Hn. destruct Hn as [N1 N2].
  cbn [mem_path] in Hm. apply orb_false_iff in Hm. destruct Hm as [M1 M2].
  rewrite mem_path_app. cbn [mem_path]. rewrite orb_false_r.
  apply negb_true_iff in N1. rewrite N1. cbn [orb].
  rewrite FsLemmas.path_eqb_sym, M1. cbn [negb andb]. apply IH; assumption.
Qed.

Lemma dedup_fold_nodup' : forall ds acc, paths_nodup acc = true ->
  paths_nodup (fold_left (fun acc p => add_path p acc) ds acc) = true.
Proof.
  induction ds as [|d ds IH]; intros acc H; cbn [fold_left]; [exact H|].
  apply IH. unfold add_path. destruct (mem_path d acc) eqn:E; [exact H|].
  apply paths_nodup_app1; assumption.
Qed.

Theorem dedup_paths_is_nodup : forall ds, paths_nodup (dedup_paths ds) = true.
Proof. intro ds. apply dedup_fold_nodup'. reflexivity. Qed.

Theorem dedup_paths_idem : forall ds, dedup_paths (dedup_paths ds) = dedup_paths ds.
Proof. intro ds. apply dedup_paths_nodup, dedup_paths_is_nodup. Qed.

(* the forest of the cache that was read back is the forest that was read *)
Definition forest_stable (c : cache) (roots : list op) : Prop :=
  cache_forest (read_back c roots) = Some (map norm_op roots).

Theorem second_cycle : forall c roots, writable c roots -> forest_stable c roots ->
  let c' := read_back c roots in
  writable c' (map norm_op roots) /\
  read_back c' (map norm_op roots) = c' /\
  exists j', cache_to_json c' = Some j' /\ cache_of_json (Some j') = ReadOk c'.
Proof.
  intros c roots (Hf & Hr & Hd & Hv) Hst c'.
  destruct (read_back_fields c roots) as (F1 & F2 & F3 & F4). fold c' in F1, F2, F3, F4.
  destruct (forest_normal roots Hr) as [N1 N2].
  assert (W : writable c' (map norm_op roots)).
  { split; [exact Hst|]. split; [exact N2|]. split.
    - rewrite F2. apply forallb_forall. intros p Hp. apply dedup_paths_In in Hp.
      rewrite forallb_forall in Hd. apply Hd. exact Hp.
    - rewrite F3. apply sanitized_sanitized_t. apply norm_val_sanitized. exact Hv. }
  assert (E : read_back c' (map norm_op roots) = c').
  { unfold read_back at 1. rewrite F1, F2, F3, N1, dedup_paths_idem, (norm_val_idem _ Hv). reflexivity. }
  split; [exact W|]. split; [exact E|].
  destruct (write_read c' (map norm_op roots) W) as (j' & J1 & J2).
  exists j'. split; [exact J1|]. rewrite J2, E. reflexivity.
Qed.

(* two cycles from the written cache: the second read returns what the first did *)
Corollary two_cycles : forall c roots, writable c roots -> forest_stable c roots ->
  exists j c' j', cache_to_json c = Some j /\ cache_of_json (Some j) = ReadOk c' /\
                  cache_to_json c' = Some j' /\ cache_of_json (Some j') = ReadOk c'.
Proof.
  intros c roots W S. destruct (write_read c roots W) as (j & J1 & J2).
  destruct (second_cycle c roots W S) as (_ & _ & j' & K1 & K2).
  exists j, (read_back c roots), j'. auto.
Qed.
