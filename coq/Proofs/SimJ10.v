(* Proofs/SimJ10.v — HASH records in the PREVIOUS cache, part 10: C01 for the mechanism model
   for previous caches of the class SimJ4.okcH (successful build_file records with a HASH
   comparison result and recorded HASH reads are allowed), with NO condition on the comparison
   modes of the program (SimG1.CmpOk is gone; reads: SimG5.QueriesOkP):
     mech_C01_hash                      SimG6.mech_C01_h
     mech_commit_hash, mech_commit_nodirs_hash, mech_fail_hash
     mech_commit2_hash, mech_commit3_hash   SimG6.mech_commit2_h / mech_commit3_h
   Since okc is contained in okcH (SimJ4.okc_okcH) these subsume the theorems of SimG6.
   The content-oracle hypotheses kp_init / kp_new of Spec/Faithful.v are unchanged.         *)
From Coq Require Import List String Ascii NArith ZArith Bool Arith Lia.
From FB.Base Require Import PyVal Fs.
From FB.Gen Require Import JsonUtilGen.
From FB.Spec Require Import JsonSpec Prog Ref Oracle Faithful.
From FB.Model Require Import Types Monad CreatedFiles BuildDirs SimpleOps Builder Persist Build Run Frame Core CoreOracle.
From FB.Proofs Require Import FsLemmas JsonLaws BuildFileLaws HashMemoInv CoreLaws1 CoreLaws2 CoreLaws6
     ViewDefs ViewLemmas ViewInit ViewXDefs ViewXFail ViewR2 ViewR3 ViewK3 ViewK4 ViewK8 SimA0 SimAMain SimC0 SimC12 SimC13 SimC15.
From FB.Proofs Require Import ReplayLaws RollbackLaws RollbackDirsLaws RollbackDirsBase RollbackDirsInv RollbackDirsMain
     CommitDirsInv CommitDirsMain CommitDirs2FileMain CommitDirs2Y CommitDirs3Run CommitDirs3Main SimD1 SimD2 SimD3 SimD4 SimD8 SimD9.
From FB.Proofs Require Import FrameLaws CleanLaws RollbackDirsLaws
  RollbackDirsView RollbackDirsBase RollbackDirsInv RollbackDirsMake RollbackDirsRun
  RollbackDirsMain CommitDirsInv CommitDirsRun CommitDirsMain
  CommitDirs2Y CommitDirs2Bd CommitDirs2Step CommitDirs2Run CommitDirs2Main CommitDirs3Adopt CommitDirs3Run SimE1 SimE2 SimG1 SimG2 SimG3 SimG5 SimJ4 SimJ9.
Import ListNotations.
Open Scope list_scope.

(* ------------------------------------------------------------------ up to the return of the root function *)
Theorem mech_C01_hash : forall (kp : kappa) (F : ftable) w cachefile old nm svers root w1 w2 r l,
  (* user obligations *)
  Obeys F root -> Respects F ->
  (* content / time *)
  kp_init kp (w_fs w) -> kp_new kp (w_clock w) ->
  (* the previous cache *)
  cache_wf old -> faithful_cache kp F old svers -> okcH (w_clock w) old ->
  old_ok old cachefile -> WfCache old -> old_keys_ok old ->
  (* the world *)
  fs_wf (w_fs w) -> w_faults w = [] ->
  path_ok (dirname cachefile) = true -> isdir (w_fs w) cachefile = false -> maxlen (w_fs w) < walk_fuel ->
  vdir (Build.start_world w cachefile old nm svers) (dirname cachefile) = true ->
  (* the program *)
  AllTargets tgtP root -> NoNest [] root -> QueriesOkP root -> WfArgs root ->
  TargetsClear old root -> TargetsApart old root ->
  (* the mechanism model runs the root function *)
  make_dirs (dirname cachefile) (Build.start_world w cachefile old nm svers) = (w1, inl []) ->
  run root None [] (set_log (LInvoke "<root>"%string None PNone PNone :: w_log w1) w1) = (w2, (r, l)) ->
  let rr := ref_build (w_fs w) cachefile (prev_of_cache old) (w_clock w) (w_nextid w) root in
  (* same outcome *)
  r = rr_outcome rr /\
  (* the visible log of this build is a subsequence of the reference log *)
  (exists Lb L0, vis_log (w_log w2) = rev Lb ++ L0 /\ sublog Lb (rr_log rr)) /\
  (* the view is the reference tree up to modification times / inode numbers *)
  tree_equiv (view_fs w2) (rr_tree rr).
Proof.
  intros kp F w cachefile old nm svers root w1 w2 r l HO HR HI HN HCw HF HokcH Hok HW HKo Hwf Hfa Hp Hnc Hml Hd
         Hat Hnn Hqk Hwa Hcl Hap Emk Erun rr.
  destruct (build_agree_hash w cachefile old nm svers root w1 w2 r l HokcH Hwf Hok HW HKo Hfa Hp Hnc Hml Hd
              Hat Hnn Hqk Hwa Hcl Hap Emk Erun) as (A1 & (L0 & A2) & A3).
  destruct (build_transparent kp F (w_fs w) cachefile old svers (w_clock w) (w_nextid w) root HO HR HCw HF HI HN Hwf)
    as (B1 & B2 & B3).
  fold rr in B1, B2, B3.
  split; [rewrite <- A1; exact B1|]. split.
  - exists (cr_log (core_build (w_fs w) cachefile old svers (w_clock w) (w_nextid w) root)), L0. split; [exact A2|exact B3].
  - eapply te_trans; [eapply trel_te; exact A3|exact B2].
Qed.

(* ------------------------------------------------------------------ the whole build *)
Section WholeHash.

Variables (kp : kappa) (F : ftable) (w : world) (cachefile : path) (nm : string) (vers svers : pyval) (root : prog).
Variable P : path -> Prop.
Let old := old_cache_of (w_fs w) cachefile nm svers.
Let rr := ref_build (w_fs w) cachefile (prev_of_cache old) (w_clock w) (w_nextid w) root.

Hypothesis Hsv : sanitize vers = Some svers.
(* user obligations *)
Hypothesis HO : Obeys F root.
Hypothesis HR : Respects F.
(* content / time *)
Hypothesis HI : kp_init kp (w_fs w).
Hypothesis HN : kp_new kp (w_clock w).
(* the previous cache *)
Hypothesis HCw : cache_wf old.
Hypothesis HF : faithful_cache kp F old svers.
Hypothesis HokcH : okcH (w_clock w) old.
Hypothesis Hok : old_ok old cachefile.
Hypothesis HW : WfCache old.
(* the world *)
Hypothesis Hwf : fs_wf (w_fs w).
Hypothesis Hfa : w_faults w = [].
Hypothesis Hp : path_ok (dirname cachefile) = true.
Hypothesis Hnc : isdir (w_fs w) cachefile = false.
Hypothesis Hml : maxlen (w_fs w) < walk_fuel.
Hypothesis Hd : vdir (Build.start_world w cachefile old nm svers) (dirname cachefile) = true.
(* the program *)
Hypothesis Hat : AllTargets tgtP root.
Hypothesis Hnn : NoNest [] root.
Hypothesis Hqk : QueriesOkP root.
Hypothesis Hwa : WfArgs root.
Hypothesis Hcl : TargetsClear old root.
Hypothesis Hap : TargetsApart old root.
(* the targets *)
Hypothesis HatP : AllTargets P root.
Hypothesis HPt : forall p, P p -> tgtP p.
Hypothesis HA : forall a t, (P t \/ t = cachefile \/ In t (cache_targets old)) ->
     below a t = true -> (forall f, lookup (w_fs w) a <> Some (NFile f)) /\ ~ P a.
Hypothesis HE : forall d, In d (c_dirs old) -> path_ok d = true.

Lemma whole_keys_hash : old_keys_ok old.
Proof. apply old_cache_keys_ok. Qed.

Theorem mech_commit_hash : forall w' v,
  EndInv cachefile nm svers root w ->
  run_build cachefile nm vers root w = (w', Done (inl v)) ->
  rr_outcome rr = inl v /\
  forall p, p <> cachefile -> node_equiv (lookup (w_fs w') p) (lookup (rr_tree rr) p).
Proof.
  intros w' v HEnd H.
  destruct (run_build_committed cachefile nm vers svers root w w' v P Hfa Hsv HatP Hwf HA HE HW Hok HPt Hnc Hml Hp Hd H)
    as (wfin & w1 & w2 & x & -> & HC).
  fold old in HC.
  pose proof (cm_mk _ _ _ _ _ _ _ _ _ _ _ _ _ HC) as Emk. pose proof (cm_run _ _ _ _ _ _ _ _ _ _ _ _ _ HC) as Erun.
  destruct (mech_C01_hash kp F w cachefile old nm svers root w1 w2 (inl v) x HO HR HI HN HCw HF HokcH Hok HW whole_keys_hash Hwf Hfa
              Hp Hnc Hml Hd Hat Hnn Hqk Hwa Hcl Hap Emk Erun) as (A1 & _ & A3).
  fold rr in A1, A3. split; [symmetry; exact A1|].
  destruct (build_run_hash w cachefile old nm svers root w1 w2 (inl v) x HokcH Hwf Hok HW whole_keys_hash Hfa Hp Hnc Hml Hd
              Hat Hnn Hqk Hwa Hcl Hap Emk Erun) as (s1 & pd & sb & T' & W' & _ & HS5).
  destruct (sim5_end _ _ _ _ _ HS5) as [HB Hcfd].
  assert (Ecf : w_cachefile w2 = cachefile).
  { destruct (cm_rinv _ _ _ _ _ _ _ _ _ _ _ _ _ HC) as (_ & _ & Y & _). exact Y. }
  rewrite Ecf in Hcfd.
  assert (Hcfpre : lookup (w_fs w) (dirname cachefile) = Some NDir).
  { unfold vdir in Hd. apply andb_true_iff in Hd. destruct Hd as [Y _]. apply isdir_lookup in Y. exact Y. }
  assert (Hexact : forall d, lookup (w_fs wfin) d = Some NDir -> lookup (w_fs w) d = Some NDir \/ In d (c_dirs (w_new wfin))).
  { exact (commit_leaves_exact_wf cachefile nm vers svers root w (end_build wfin) v P Hfa Hsv HatP Hwf HA HE HW Hok HPt Hnc Hml Hp Hd H). }
  assert (R1 : c_dirs old <> [] -> mem_path cachefile (bd_removed_files (w_bd w2)) = true \/ isfile (w_fs w2) cachefile = true).
  { intro Hne. exact (proj1 (HEnd Hne w1 w2 (inl v) x Emk Erun)). }
  assert (R2 : forall d, In d (c_dirs old) -> In d (bd_err_created (w_bd w2)) -> lookup (w_fs w) d = Some NDir ->
                 lookup (w_fs w2) d = Some NDir -> dead w2 d = true).
  { intros d Hin. assert (Hne : c_dirs old <> []) by (intro Z; rewrite Z in Hin; destruct Hin).
    exact (proj2 (HEnd Hne w1 w2 (inl v) x Emk Erun) d Hin). }
  intros p Np. change (w_fs (end_build wfin)) with (w_fs wfin).
  rewrite (commit_is_view (w_fs w) old cachefile P root w nm svers wfin v w1 w2 x Hwf HE HC HB Hcfpre Hcfd Hexact R1 R2 p Np).
  apply A3.
Qed.

(* nothing is assumed about the end of the run when the previous cache records no directory *)
Corollary mech_commit_nodirs_hash : forall w' v,
  c_dirs old = [] ->
  run_build cachefile nm vers root w = (w', Done (inl v)) ->
  rr_outcome rr = inl v /\
  forall p, p <> cachefile -> node_equiv (lookup (w_fs w') p) (lookup (rr_tree rr) p).
Proof.
  intros w' v Hnil. apply mech_commit_hash. intro Hne. contradiction.
Qed.

(* ------------------------------------------------------------------ the failing case *)
Theorem mech_fail_hash : forall w' e,
  run_build cachefile nm vers root w = (w', Done (inr e)) ->
  exists w1 w2 r l,
    make_dirs (dirname cachefile) (Build.start_world w cachefile old nm svers) = (w1, inl []) /\
    run root None [] (set_log (LInvoke "<root>"%string None PNone PNone :: w_log w1) w1) = (w2, (r, l)) /\
    rr_outcome rr = r /\
    (r = inr e \/ exists v, r = inl v).
Proof.
  intros w' e H.
  destruct (RInv2_root_entry (fun _ => True) w cachefile old nm svers Hwf Hok Hfa Hp Hnc Hml HW I Hd) as (w1 & Emk & _).
  destruct (run root None [] (set_log (LInvoke "<root>"%string None PNone PNone :: w_log w1) w1)) as [w2 [r l]] eqn:Erun.
  destruct (mech_C01_hash kp F w cachefile old nm svers root w1 w2 r l HO HR HI HN HCw HF HokcH Hok HW whole_keys_hash Hwf Hfa
              Hp Hnc Hml Hd Hat Hnn Hqk Hwa Hcl Hap Emk Erun) as (A1 & _ & _).
  fold rr in A1. exists w1, w2, r, l. split; [exact Emk|]. split; [exact Erun|]. split; [symmetry; exact A1|].
  destruct r as [v|e2]; [right; exists v; reflexivity|left].
  rewrite (failed_build_same_exception cachefile nm vers svers root w w' e w1 [] w2 e2 l Hsv H Emk Erun). reflexivity.
Qed.

End WholeHash.

Theorem mech_commit2_hash : forall (kp : kappa) (F : ftable) w cachefile nm vers svers root (P : path -> Prop) w' v,
  let old := old_cache_of (w_fs w) cachefile nm svers in
  let rr := ref_build (w_fs w) cachefile (prev_of_cache old) (w_clock w) (w_nextid w) root in
  sanitize vers = Some svers ->
  (* user obligations *)
  Obeys F root -> Respects F ->
  (* content / time *)
  kp_init kp (w_fs w) -> kp_new kp (w_clock w) ->
  (* the previous cache *)
  cache_wf old -> faithful_cache kp F old svers -> okcH (w_clock w) old ->
  old_ok old cachefile -> WfCache old -> cache_created_file old cachefile = false ->
  (* the world *)
  fs_wf (w_fs w) -> w_faults w = [] ->
  path_ok (dirname cachefile) = true -> isdir (w_fs w) cachefile = false -> maxlen (w_fs w) < walk_fuel ->
  vdir (Build.start_world w cachefile old nm svers) (dirname cachefile) = true ->
  (* the program *)
  AllTargets tgtP root -> NoNest [] root -> QueriesOkP root -> WfArgs root ->
  TargetsClear old root -> TargetsApart old root ->
  (* the targets *)
  AllTargets P root -> (forall p, P p -> tgtP p) ->
  (forall a t, (P t \/ t = cachefile \/ In t (cache_targets old)) ->
     below a t = true -> (forall f, lookup (w_fs w) a <> Some (NFile f)) /\ ~ P a) ->
  (forall d, In d (c_dirs old) -> path_ok d = true) ->
  (* the end of the run, when the previous cache records directories *)
  (c_dirs old <> [] -> ErrDeadInv cachefile nm svers root w) ->
  run_build cachefile nm vers root w = (w', Done (inl v)) ->
  rr_outcome rr = inl v /\
  forall p, p <> cachefile -> node_equiv (lookup (w_fs w') p) (lookup (rr_tree rr) p).
Proof.
  intros kp F w cachefile nm vers svers root P w' v old rr Hsv HO HR HI HN HCw HF HokcH Hok HW Hcfo Hwf Hfa Hp Hnc Hml Hd
         Hat Hnn Hqk Hwa Hcl Hap HatP HPt HA HE HErr H.
  apply (mech_commit_hash kp F w cachefile nm vers svers root P Hsv HO HR HI HN HCw HF HokcH Hok HW Hwf Hfa Hp Hnc Hml Hd
           Hat Hnn Hqk Hwa Hcl Hap HatP HPt HA HE w' v); [|exact H].
  intros Hne w1 w2 r l Emk Erun. split.
  - exact (cf_in_place cachefile nm svers root w P w1 w2 r l Hfa Hwf HatP HA Hcfo Hne Emk Erun).
  - exact (HErr Hne w1 w2 r l Emk Erun).
Qed.

Theorem mech_commit3_hash : forall (kp : kappa) (F : ftable) w cachefile nm vers svers root (P : path -> Prop) w' v,
  let old := old_cache_of (w_fs w) cachefile nm svers in
  let rr := ref_build (w_fs w) cachefile (prev_of_cache old) (w_clock w) (w_nextid w) root in
  sanitize vers = Some svers ->
  (* user obligations *)
  Obeys F root -> Respects F ->
  (* content / time *)
  kp_init kp (w_fs w) -> kp_new kp (w_clock w) ->
  (* the previous cache *)
  cache_wf old -> faithful_cache kp F old svers -> okcH (w_clock w) old ->
  old_ok old cachefile -> WfCache old -> cache_created_file old cachefile = false ->
  (* the world *)
  fs_wf (w_fs w) -> w_faults w = [] ->
  path_ok (dirname cachefile) = true -> isdir (w_fs w) cachefile = false -> maxlen (w_fs w) < walk_fuel ->
  vdir (Build.start_world w cachefile old nm svers) (dirname cachefile) = true ->
  (* the program *)
  AllTargets tgtP root -> NoNest [] root -> QueriesOkP root -> WfArgs root ->
  TargetsClear old root -> TargetsApart old root ->
  (* the targets *)
  AllTargets P root -> (forall p, P p -> tgtP p) ->
  (forall a t, (P t \/ t = cachefile \/ In t (cache_targets old)) ->
     below a t = true -> (forall f, lookup (w_fs w) a <> Some (NFile f)) /\ ~ P a) ->
  (forall d, In d (c_dirs old) -> path_ok d = true) ->
  run_build cachefile nm vers root w = (w', Done (inl v)) ->
  rr_outcome rr = inl v /\
  forall p, p <> cachefile -> node_equiv (lookup (w_fs w') p) (lookup (rr_tree rr) p).
Proof.
  intros kp F w cachefile nm vers svers root P w' v old rr Hsv HO HR HI HN HCw HF HokcH Hok HW Hcfo Hwf Hfa Hp Hnc Hml Hd
         Hat Hnn Hqk Hwa Hcl Hap HatP HPt HA HE H.
  apply (mech_commit2_hash kp F w cachefile nm vers svers root P w' v Hsv HO HR HI HN HCw HF HokcH Hok HW Hcfo Hwf Hfa Hp Hnc Hml Hd
           Hat Hnn Hqk Hwa Hcl Hap HatP HPt HA HE); [|exact H].
  intros _.
  exact (err_dead_g w cachefile nm svers root P Hok HW Hwf Hfa Hp Hnc Hml Hd HatP HPt HA).
Qed.

Print Assumptions mech_C01_hash.
Print Assumptions mech_commit_hash.
Print Assumptions mech_commit_nodirs_hash.
Print Assumptions mech_fail_hash.
Print Assumptions mech_commit2_hash.
Print Assumptions mech_commit3_hash.
