(* Proofs/CacheRTForest.v — C16 at cache level: the forest of the tables of a
   forest is that forest.  Cache.write finds the root records of a cache as the
   table entries that are not a suboperation of a table entry; for the tables
   Cache.read_immutable derives from a forest R this gives back R — literally,
   in the same order — when R is shaped like the forest of a committed cache:
   its top-level records are registered build_file records followed by
   registered subbuild records, registered records have pairwise distinct
   keys, and a record whose setup failed has no registered descendant.
   Consequence (with CacheRTCycle): the cache that was read back is a fixed
   point of write-then-read, under hypotheses on the written cache only. *)
From Coq Require Import List String Ascii NArith ZArith Bool Arith Lia Permutation.
From FB.Base Require Import PyVal Fs.
From FB.Gen Require Import JsonUtilGen.
From FB.Spec Require Import JsonSpec.
From FB.Model Require Import Types Monad SimpleOps Builder PathNorm Persist PersistSpec.
From FB.Proofs Require Import FsLemmas JsonLaws CoreLawsJson PersistLaws CacheRTDefs CacheRTLaws CacheRTTables
  CacheRTCheck CacheRTCycle.
Import ListNotations.
Local Open Scope list_scope.

(* ================================================================== *)
(** * 1. Registered records of a forest, in registration order          *)
(* ================================================================== *)

Definition keyed (o : op) : bool :=
  match o with
  | OSimple _ _ _ => false
  | OBuildFile _ _ _ _ _ _ _ _ _ sf => negb sf
  | OSubbuild _ _ _ _ _ _ sf => negb sf
  end.

Fixpoint kl (o : op) : list op :=
  match o with
  | OSimple _ _ _ => []
  | OBuildFile _ _ _ _ _ subs _ _ _ sf => flat_map kl subs ++ (if sf then [] else [o])
  | OSubbuild _ _ _ subs _ _ sf => flat_map kl subs ++ (if sf then [] else [o])
  end.

Lemma kl_eq : forall o, kl o = flat_map kl (op_subs o) ++ (if keyed o then [o] else []).
Proof. destruct o as [q r e | p c f a k subs r cr ra sf | f a k subs r ra sf]; try reflexivity; destruct sf; reflexivity. Qed.

Definition fentry_of (o : op) : list (path * option op) :=
  match o with OBuildFile p _ _ _ _ _ _ _ _ _ => [(p, Some o)] | _ => [] end.
Definition sentry_of (o : op) : list (pyval * option op) :=
  match o with OSubbuild f a k _ _ _ _ => [(subbuild_key f a k, Some o)] | _ => [] end.
Definition fents (l : list op) := flat_map fentry_of l.
Definition sents (l : list op) := flat_map sentry_of l.

Definition is_bf (o : op) : bool := match o with OBuildFile _ _ _ _ _ _ _ _ _ _ => true | _ => false end.
Definition is_sb (o : op) : bool := match o with OSubbuild _ _ _ _ _ _ _ => true | _ => false end.

(* pairwise: an earlier element never matches a later one *)
Fixpoint pw {A} (E : A -> A -> bool) (l : list A) : bool :=
  match l with
  | [] => true
  | x :: r => forallb (fun y => negb (E x y)) r && pw E r
  end.

Lemma pw_app : forall {A} (E : A -> A -> bool) a b,
  pw E (a ++ b) = pw E a && pw E b && forallb (fun x => forallb (fun y => negb (E x y)) b) a.
Proof.
  intros A E a b. induction a as [|x a IH]; cbn [app pw forallb].
  - rewrite andb_true_r. reflexivity.
  - rewrite IH, forallb_app.
    destruct (forallb (fun y => negb (E x y)) a), (forallb (fun y => negb (E x y)) b), (pw E a), (pw E b);
      cbn; try reflexivity.
Qed.

(* a record whose setup failed has no registered descendant *)
Fixpoint sfclean (o : op) : bool :=
  match o with
  | OSimple _ _ _ => true
  | OBuildFile _ _ _ _ _ subs _ _ _ sf =>
      (if sf then match flat_map kl subs with [] => true | _ => false end else true) && forallb sfclean subs
  | OSubbuild _ _ _ subs _ _ sf =>
      (if sf then match flat_map kl subs with [] => true | _ => false end else true) && forallb sfclean subs
  end.

Lemma sfclean_eq : forall o, sfclean o =
  (if keyed o then true else match flat_map kl (op_subs o) with [] => true | _ => false end) && forallb sfclean (op_subs o).
Proof. destruct o as [q r e | p c f a k subs r cr ra sf | f a k subs r ra sf]; try reflexivity; destruct sf; reflexivity. Qed.

(* the shape of a forest written by Cache.write from the tables of a committed cache *)
Definition forest_good (R : list op) : Prop :=
  (exists Rf Rs, R = Rf ++ Rs /\ forallb (fun o => is_bf o && keyed o) Rf = true /\
                 forallb (fun o => is_sb o && keyed o) Rs = true) /\
  pw path_eqb (map fst (fents (flat_map kl R))) = true /\
  pw py_eq (map fst (sents (flat_map kl R))) = true /\
  forallb sfclean R = true.

Fixpoint split_bf (R : list op) : list op * list op :=
  match R with
  | [] => ([], [])
  | o :: r => if is_bf o then let '(a, b) := split_bf r in (o :: a, b) else ([], R)
  end.

Definition forest_good_b (R : list op) : bool :=
  let '(Rf, Rs) := split_bf R in
  forallb (fun o => is_bf o && keyed o) Rf && forallb (fun o => is_sb o && keyed o) Rs &&
  pw path_eqb (map fst (fents (flat_map kl R))) &&
  pw py_eq (map fst (sents (flat_map kl R))) &&
  forallb sfclean R.

Lemma split_bf_app : forall R a b, split_bf R = (a, b) -> R = a ++ b.
Proof.
  induction R as [|o r IH]; intros a b H; cbn [split_bf] in H.
  - inversion H; reflexivity.
  - destruct (is_bf o).
    + destruct (split_bf r) as [a' b'] eqn:E. inversion H; subst. cbn [app]. f_equal. apply IH. reflexivity.
    + inversion H; subst. reflexivity.
Qed.

Theorem forest_good_b_sound : forall R, forest_good_b R = true -> forest_good R.
Proof.
  intros R H. unfold forest_good_b in H. destruct (split_bf R) as [Rf Rs] eqn:E.
  repeat (apply andb_true_iff in H; let H' := fresh "K" in destruct H as [H H']).
  split; [|auto]. exists Rf, Rs. split; [apply split_bf_app; exact E | auto].
Qed.

(* ================================================================== *)
(** * 2. The tables of a forest, as lists                               *)
(* ================================================================== *)

Lemma files_set_fresh : forall l p v,
  forallb (fun q => negb (path_eqb q p)) (map fst l) = true -> files_set l p v = l ++ [(p, v)].
Proof.
  induction l as [|[q o] l IH]; intros p v H; [reflexivity|].
  cbn [map fst forallb] in H. apply andb_true_iff in H. destruct H as [H1 H2].
  apply negb_true_iff in H1. cbn [files_set app]. rewrite H1, IH by exact H2. reflexivity.
Qed.

Lemma subs_set_fresh : forall l k v,
  forallb (fun q => negb (py_eq q k)) (map fst l) = true -> subs_set l k v = l ++ [(k, v)].
Proof.
  induction l as [|[q o] l IH]; intros k v H; [reflexivity|].
  cbn [map fst forallb] in H. apply andb_true_iff in H. destruct H as [H1 H2].
  apply negb_true_iff in H1. cbn [subs_set app]. rewrite H1, IH by exact H2. reflexivity.
Qed.

Lemma forallb_single : forall {A} (E : A -> A -> bool) p l,
  forallb (fun x => forallb (fun y => negb (E x y)) [p]) l = forallb (fun x => negb (E x p)) l.
Proof.
  intros A E p l. apply forallb_ext_in. intros x _. cbn [forallb]. apply andb_true_r.
Qed.

Lemma fents_app : forall a b, fents (a ++ b) = fents a ++ fents b.
Proof. intros. unfold fents. apply flat_map_app. Qed.
Lemma sents_app : forall a b, sents (a ++ b) = sents a ++ sents b.
Proof. intros. unfold sents. apply flat_map_app. Qed.

Definition tabs (c : cache) (L : list op) (c' : cache) : Prop :=
  c_files c' = c_files c ++ fents L /\ c_subs c' = c_subs c ++ sents L.

Definition keys_ok (c : cache) (L : list op) : Prop :=
  pw path_eqb (map fst (c_files c) ++ map fst (fents L)) = true /\
  pw py_eq (map fst (c_subs c) ++ map fst (sents L)) = true.

Lemma keys_ok_app : forall c a b c1, keys_ok c (a ++ b) -> tabs c a c1 -> keys_ok c a /\ keys_ok c1 b.
Proof.
  intros c a b c1 [H1 H2] [T1 T2]. rewrite fents_app, map_app, app_assoc in H1.
  rewrite sents_app, map_app, app_assoc in H2.
  unfold keys_ok. rewrite T1, T2, !map_app.
  rewrite pw_app in H1. rewrite pw_app in H2. split_andb H1. split_andb H2. repeat split; try assumption.
  all: rewrite pw_app; repeat (apply andb_true_iff; split); assumption.
Qed.

Lemma fold_register_parsed_tabs : forall subs,
  Forall (fun o => forall c, keys_ok c (kl o) -> tabs c (kl o) (register_parsed c o)) subs ->
  forall c, keys_ok c (flat_map kl subs) -> tabs c (flat_map kl subs) (fold_left register_parsed subs c).
Proof.
  intros subs HF. induction HF as [|s rest Hs HF IH]; intros c Hk; cbn [fold_left flat_map].
  - split; cbn; rewrite app_nil_r; reflexivity.
  - cbn [flat_map] in Hk.
    assert (K0 : keys_ok c (kl s)).
    { destruct Hk as [H1 H2]. rewrite fents_app, map_app, app_assoc in H1. rewrite sents_app, map_app, app_assoc in H2.
      rewrite pw_app in H1. rewrite pw_app in H2. split_andb H1. split_andb H2. split; assumption. }
    pose proof (Hs c K0) as T0.
    destruct (keys_ok_app c (kl s) (flat_map kl rest) _ Hk T0) as [_ K1].
    destruct (IH _ K1) as [A B]. destruct T0 as [T1 T2].
    split; [rewrite A, T1, fents_app, app_assoc; reflexivity | rewrite B, T2, sents_app, app_assoc; reflexivity].
Qed.

Theorem register_parsed_tabs : forall o c, keys_ok c (kl o) -> tabs c (kl o) (register_parsed c o).
Proof.
  induction o as [q r e | p c0 f a k subs r cr ra sf IH | f a k subs r ra sf IH] using op_ind';
    intros c Hk.
  - split; cbn; rewrite app_nil_r; reflexivity.
  - cbn [kl] in *. cbn [register_parsed].
    set (o := OBuildFile p c0 f a k subs r cr ra sf) in *.
    assert (K0 : keys_ok c (flat_map kl subs)).
    { destruct Hk as [H1 H2]. rewrite fents_app, map_app, app_assoc in H1. rewrite sents_app, map_app, app_assoc in H2.
      rewrite pw_app in H1. rewrite pw_app in H2. split_andb H1. split_andb H2. split; assumption. }
    pose proof (fold_register_parsed_tabs subs IH c K0) as T0.
    destruct sf.
    + rewrite app_nil_r. exact T0.
    + destruct T0 as [T1 T2]. destruct Hk as [H1 _].
      rewrite fents_app, map_app, app_assoc in H1. rewrite pw_app in H1. split_andb H1.
      unfold tabs. cbn [cache_with c_files c_subs]. rewrite fents_app, sents_app.
      change (fents [o]) with [(p, Some o)]. change (sents [o]) with (@nil (pyval * option op)).
      rewrite app_nil_r, app_assoc. split; [|exact T2].
      rewrite <- T1. apply files_set_fresh. rewrite T1, map_app.
      change (map fst (fents [o])) with [p] in H0. rewrite forallb_single in H0. exact H0.
  - cbn [kl] in *. cbn [register_parsed].
    set (o := OSubbuild f a k subs r ra sf) in *.
    assert (K0 : keys_ok c (flat_map kl subs)).
    { destruct Hk as [H1 H2]. rewrite fents_app, map_app, app_assoc in H1. rewrite sents_app, map_app, app_assoc in H2.
      rewrite pw_app in H1. rewrite pw_app in H2. split_andb H1. split_andb H2. split; assumption. }
    pose proof (fold_register_parsed_tabs subs IH c K0) as T0.
    destruct sf.
    + rewrite app_nil_r. exact T0.
    + destruct T0 as [T1 T2]. destruct Hk as [_ H2].
      rewrite sents_app, map_app, app_assoc in H2. rewrite pw_app in H2. split_andb H2.
      unfold tabs. cbn [cache_with c_files c_subs]. rewrite fents_app, sents_app.
      change (sents [o]) with [(subbuild_key f a k, Some o)]. change (fents [o]) with (@nil (path * option op)).
      rewrite app_nil_r, app_assoc. split; [exact T1|].
      rewrite <- T2. apply subs_set_fresh. rewrite T2, map_app.
      change (map fst (sents [o])) with [subbuild_key f a k] in H0. rewrite forallb_single in H0. exact H0.
Qed.

Theorem tables_of_lists : forall nm fv dirs R,
  pw path_eqb (map fst (fents (flat_map kl R))) = true ->
  pw py_eq (map fst (sents (flat_map kl R))) = true ->
  c_files (tables_of nm fv dirs R) = fents (flat_map kl R) /\
  c_subs (tables_of nm fv dirs R) = sents (flat_map kl R).
Proof.
  intros nm fv dirs R H1 H2. unfold tables_of.
  apply (fold_register_parsed_tabs R).
  - apply Forall_forall. intros o _. apply register_parsed_tabs.
  - split; cbn [base_cache c_files c_subs map app]; assumption.
Qed.

(* ================================================================== *)
(** * 3. Parents of registered records                                  *)
(* ================================================================== *)

Lemma kl_self : forall o, keyed o = true -> In o (kl o).
Proof. intros o H. rewrite kl_eq, H. apply in_or_app. right. left. reflexivity. Qed.

Lemma kl_sub : forall o s x, In s (op_subs o) -> In x (kl s) -> In x (flat_map kl (op_subs o)).
Proof. intros o s x Hs Hx. apply in_flat_map. exists s. split; assumption. Qed.

Lemma kl_inner : forall o x, In x (flat_map kl (op_subs o)) -> In x (kl o).
Proof. intros o x H. rewrite kl_eq. apply in_or_app. left. exact H. Qed.

Lemma kl_keyed : forall o x, In x (kl o) -> keyed x = true.
Proof.
  induction o as [q r e | p c f a k subs r cr ra sf IH | f a k subs r ra sf IH] using op_ind'; intros x H.
  - destruct H.
  - cbn [kl] in H. apply in_app_or in H. destruct H as [H|H].
    + apply in_flat_map in H. destruct H as (s & Hs & Hx). rewrite Forall_forall in IH. exact (IH s Hs x Hx).
    + destruct sf; [destruct H|]. destruct H as [<-|[]]. reflexivity.
  - cbn [kl] in H. apply in_app_or in H. destruct H as [H|H].
    + apply in_flat_map in H. destruct H as (s & Hs & Hx). rewrite Forall_forall in IH. exact (IH s Hs x Hx).
    + destruct sf; [destruct H|]. destruct H as [<-|[]]. reflexivity.
Qed.

(* a registered record is the record itself or a child of a registered record *)
Lemma kl_parent_step : forall o,
  Forall (fun s => sfclean s = true -> forall x, In x (kl s) ->
                   (x = s /\ keyed s = true) \/ exists y, In y (kl s) /\ In x (op_subs y)) (op_subs o) ->
  sfclean o = true -> forall x, In x (kl o) ->
  (x = o /\ keyed o = true) \/ exists y, In y (kl o) /\ In x (op_subs y).
Proof.
  intros o IH Hc x Hx.
  rewrite sfclean_eq in Hc. apply andb_true_iff in Hc. destruct Hc as [C1 C2].
  rewrite kl_eq in Hx. apply in_app_or in Hx. destruct Hx as [Hx|Hx].
  - right.
    assert (Ek : keyed o = true).
    { destruct (keyed o); [reflexivity|]. destruct (flat_map kl (op_subs o)); [destruct Hx | discriminate C1]. }
    apply in_flat_map in Hx. destruct Hx as (s & Hs & Hx).
    rewrite Forall_forall in IH. rewrite forallb_forall in C2.
    destruct (IH s Hs (C2 s Hs) x Hx) as [[-> _] | (y & Hy & Hxy)].
    + exists o. split; [apply kl_self; exact Ek | exact Hs].
    + exists y. split; [|exact Hxy]. apply kl_inner. apply (kl_sub o s y Hs Hy).
  - destruct (keyed o) eqn:Ek; [|destruct Hx]. destruct Hx as [<-|[]]. left. split; first [reflexivity | exact Ek].
Qed.

Lemma kl_parent : forall o, sfclean o = true -> forall x, In x (kl o) ->
  (x = o /\ keyed o = true) \/ exists y, In y (kl o) /\ In x (op_subs y).
Proof.
  induction o as [q r e | p c f a k subs r cr ra sf IH | f a k subs r ra sf IH] using op_ind'.
  - intros _ x [].
  - apply kl_parent_step. exact IH.
  - apply kl_parent_step. exact IH.
Qed.

(* a registered child of a registered record of o lies strictly inside o *)
Lemma child_in_inner_step : forall o,
  Forall (fun s => forall y ch, In y (kl s) -> In ch (op_subs y) -> keyed ch = true ->
                   In ch (flat_map kl (op_subs s))) (op_subs o) ->
  forall y ch, In y (kl o) -> In ch (op_subs y) -> keyed ch = true -> In ch (flat_map kl (op_subs o)).
Proof.
  intros o IH y ch Hy Hch Hk.
  rewrite kl_eq in Hy. apply in_app_or in Hy. destruct Hy as [Hy|Hy].
  - apply in_flat_map in Hy. destruct Hy as (s & Hs & Hy).
    rewrite Forall_forall in IH. pose proof (IH s Hs y ch Hy Hch Hk) as X.
    apply in_flat_map. exists s. split; [exact Hs | apply kl_inner; exact X].
  - destruct (keyed o); [|destruct Hy]. destruct Hy as [<-|[]].
    apply (kl_sub o ch ch Hch). apply kl_self. exact Hk.
Qed.

Lemma child_in_inner : forall o y ch, In y (kl o) -> In ch (op_subs y) -> keyed ch = true ->
  In ch (flat_map kl (op_subs o)).
Proof.
  induction o as [q r e | p c f a k subs r cr ra sf IH | f a k subs r ra sf IH] using op_ind'.
  - intros y ch [].
  - apply child_in_inner_step. exact IH.
  - apply child_in_inner_step. exact IH.
Qed.

(* ================================================================== *)
(** * 4. The comparison Cache.write uses                                *)
(* ================================================================== *)

Lemma op_eqb_build_eq : forall p c f a1 k1 s r cr ra sf p' c' f' a1' k1' s' r' cr' ra' sf',
  op_eqb (OBuildFile p c f a1 k1 s r cr ra sf) (OBuildFile p' c' f' a1' k1' s' r' cr' ra' sf') =
  (path_eqb p p' && cmp_eqb c c' && String.eqb f f' && pyval_same a1 a1' && pyval_same k1 k1' &&
   all2 op_eqb s s' && pyval_same r r' && pyval_same cr cr' && Bool.eqb ra ra' && Bool.eqb sf sf')%bool.
Proof. reflexivity. Qed.

Lemma op_eqb_sub_eq : forall f a1 k1 s r ra sf f' a1' k1' s' r' ra' sf',
  op_eqb (OSubbuild f a1 k1 s r ra sf) (OSubbuild f' a1' k1' s' r' ra' sf') =
  (String.eqb f f' && pyval_same a1 a1' && pyval_same k1 k1' && all2 op_eqb s s' && pyval_same r r' &&
   Bool.eqb ra ra' && Bool.eqb sf sf')%bool.
Proof. reflexivity. Qed.

Lemma all2_same_refl : forall l, Forall (fun a => pyval_same a a = true) l -> all2 pyval_same l l = true.
Proof. induction 1 as [|x l Hx Hl IH]; [reflexivity|]. cbn [all2]. rewrite Hx, IH. reflexivity. Qed.

Lemma fl_same_refl : forall f, fl_same f f = true.
Proof. destruct f; cbn; rewrite ?eqb_reflx, ?Pos.eqb_refl, ?Z.eqb_refl; reflexivity. Qed.

Lemma pyval_same_refl : forall a, pyval_same a a = true.
Proof.
  induction a using pyval_ind'; try reflexivity.
  - cbn. apply eqb_reflx.
  - cbn. apply Z.eqb_refl.
  - cbn. apply fl_same_refl.
  - cbn. apply String.eqb_refl.
  - rewrite pyval_same_list_eq. apply all2_same_refl. exact H.
  - rewrite pyval_same_tuple_eq. apply all2_same_refl. exact H.
  - induction H as [|[k v] d [Hk Hv] Hd IH]; [reflexivity|].
    change (pyval_same (PDict ((k, v) :: d)) (PDict ((k, v) :: d)))
      with (pyval_same k k && pyval_same v v && pyval_same (PDict d) (PDict d)).
    cbn [fst snd] in Hk, Hv. rewrite Hk, Hv, IH. reflexivity.
  - cbn. apply Nat.eqb_refl.
Qed.

Lemma op_eqb_refl : forall o, op_eqb o o = true.
Proof.
  induction o as [q r e | p c f a k subs r cr ra sf IH | f a k subs r ra sf IH] using op_ind'.
  - cbn [op_eqb]. rewrite query_eqb_refl, pyval_same_refl, oerr_eqb_refl. reflexivity.
  - rewrite op_eqb_build_eq. rewrite path_eqb_refl, cmp_eqb_refl, String.eqb_refl, !pyval_same_refl, !eqb_reflx.
    rewrite all2_refl_in; [reflexivity|]. rewrite Forall_forall in IH. exact IH.
  - rewrite op_eqb_sub_eq. rewrite String.eqb_refl, !pyval_same_refl, !eqb_reflx.
    rewrite all2_refl_in; [reflexivity|]. rewrite Forall_forall in IH. exact IH.
Qed.

(* records Cache.write takes for the same have the same kind and the same key *)
Lemma op_eqb_keys : forall a b, op_eqb a b = true ->
  keyed a = keyed b /\ map fst (fentry_of a) = map fst (fentry_of b) /\
  map fst (sentry_of a) = map fst (sentry_of b).
Proof.
  intros a b H.
  destruct a as [q r e | p c f a k subs r cr ra sf | f a k subs r ra sf];
    destruct b as [q' r' e' | p' c' f' a' k' subs' r' cr' ra' sf' | f' a' k' subs' r' ra' sf'];
    try discriminate H.
  - repeat split.
  - rewrite op_eqb_build_eq in H. split_andb H. apply FsLemmas.path_eqb_eq in H. apply eqb_prop in H0.
    subst. repeat split.
  - rewrite op_eqb_sub_eq in H. split_andb H. apply String.eqb_eq in H. apply pyval_same_eq in H5, H4.
    apply eqb_prop in H0. subst. repeat split.
Qed.

(* ================================================================== *)
(** * 5. Distinct keys                                                  *)
(* ================================================================== *)

Lemma cross_false : forall {A} (E : A -> A -> bool) a b u v,
  forallb (fun x => forallb (fun y => negb (E x y)) b) a = true -> In u a -> In v b -> E u v = false.
Proof.
  intros A E a b u v H Hu Hv. rewrite forallb_forall in H. specialize (H u Hu).
  rewrite forallb_forall in H. specialize (H v Hv). apply negb_true_iff in H. exact H.
Qed.

Lemma pw_flat_two : forall {A B} (E : A -> A -> bool) (inner own : B -> list A) l a b x,
  pw E (flat_map (fun y => inner y ++ own y) l) = true ->
  In a l -> In b l -> In x (own a) -> In x (inner b) -> E x x = true -> False.
Proof.
  intros A B E inner own l a b x. induction l as [|c l IH]; intros Hp Ha Hb Hxa Hxb Hr; [destruct Ha|].
  cbn [flat_map] in Hp. rewrite pw_app in Hp. split_andb Hp.
  assert (In_seg_own : forall y, In y l -> In x (own y) -> In x (flat_map (fun y => inner y ++ own y) l)).
  { intros y Hy Hx. apply in_flat_map. exists y. split; [exact Hy | apply in_or_app; right; exact Hx]. }
  assert (In_seg_inner : forall y, In y l -> In x (inner y) -> In x (flat_map (fun y => inner y ++ own y) l)).
  { intros y Hy Hx. apply in_flat_map. exists y. split; [exact Hy | apply in_or_app; left; exact Hx]. }
  destruct Ha as [<-|Ha]; destruct Hb as [<-|Hb].
  - rewrite pw_app in Hp. split_andb Hp.
    rewrite (cross_false E _ _ x x Hp2 Hxb Hxa) in Hr. discriminate Hr.
  - assert (X : E x x = false).
    { apply (cross_false E _ _ x x Hp0); [apply in_or_app; right; exact Hxa | eapply In_seg_inner; eauto]. }
    rewrite X in Hr. discriminate Hr.
  - assert (X : E x x = false).
    { apply (cross_false E _ _ x x Hp0); [apply in_or_app; left; exact Hxb | eapply In_seg_own; eauto]. }
    rewrite X in Hr. discriminate Hr.
  - apply IH; assumption.
Qed.

Lemma fents_flat : forall R, fents (flat_map kl R) = flat_map (fun r => fents (kl r)) R.
Proof. induction R as [|r R IH]; [reflexivity|]. cbn [flat_map]. rewrite fents_app, IH. reflexivity. Qed.
Lemma sents_flat : forall R, sents (flat_map kl R) = flat_map (fun r => sents (kl r)) R.
Proof. induction R as [|r R IH]; [reflexivity|]. cbn [flat_map]. rewrite sents_app, IH. reflexivity. Qed.
Lemma map_flat_map : forall {A B C} (g : B -> C) (f : A -> list B) l,
  map g (flat_map f l) = flat_map (fun x => map g (f x)) l.
Proof. intros. induction l as [|x l IH]; [reflexivity|]. cbn [flat_map]. rewrite map_app, IH. reflexivity. Qed.

Definition finner (r : op) : list path := map fst (fents (flat_map kl (op_subs r))).
Definition fown (r : op) : list path := map fst (fents (if keyed r then [r] else [])).
Definition sinner (r : op) : list pyval := map fst (sents (flat_map kl (op_subs r))).
Definition sown (r : op) : list pyval := map fst (sents (if keyed r then [r] else [])).

Lemma fkeys_segments : forall R,
  map fst (fents (flat_map kl R)) = flat_map (fun r => finner r ++ fown r) R.
Proof.
  intro R. rewrite fents_flat, map_flat_map. apply flat_map_ext. intro r.
  rewrite kl_eq, fents_app, map_app. reflexivity.
Qed.
Lemma skeys_segments : forall R,
  map fst (sents (flat_map kl R)) = flat_map (fun r => sinner r ++ sown r) R.
Proof.
  intro R. rewrite sents_flat, map_flat_map. apply flat_map_ext. intro r.
  rewrite kl_eq, sents_app, map_app. reflexivity.
Qed.

Lemma fents_In : forall L o p, In o L -> map fst (fentry_of o) = [p] -> In p (map fst (fents L)).
Proof.
  intros L o p Ho Hp. unfold fents. rewrite map_flat_map. apply in_flat_map. exists o. split; [exact Ho|].
  rewrite Hp. left. reflexivity.
Qed.
Lemma sents_In : forall L o k, In o L -> map fst (sentry_of o) = [k] -> In k (map fst (sents L)).
Proof.
  intros L o k Ho Hk. unfold sents. rewrite map_flat_map. apply in_flat_map. exists o. split; [exact Ho|].
  rewrite Hk. left. reflexivity.
Qed.

Lemma subbuild_key_refl : forall f a k, sanitized a = true -> sanitized k = true ->
  py_eq (subbuild_key f a k) (subbuild_key f a k) = true.
Proof.
  intros f a k Ha Hk. unfold subbuild_key. rewrite (subbuild_key_iff f a k f a k Ha Hk Ha Hk).
  rewrite String.eqb_refl, !is_equal_refl by (apply sanitized_sanitized_t; assumption). reflexivity.
Qed.

(* ================================================================== *)
(** * 6. The roots of the tables of a forest                            *)
(* ================================================================== *)

Lemma keyed_kind : forall o, keyed o = true -> is_bf o = true \/ is_sb o = true.
Proof. destruct o; cbn; intro H; [discriminate | left | right]; reflexivity. Qed.

Lemma filter_none : forall {A} (P : A -> bool) l, (forall x, In x l -> P x = false) -> filter P l = [].
Proof.
  intros A P l. induction l as [|x l IH]; intro H; [reflexivity|]. cbn [filter].
  rewrite (H x (or_introl eq_refl)). apply IH. intros; apply H; right; assumption.
Qed.
Lemma filter_all : forall {A} (P : A -> bool) l, forallb P l = true -> filter P l = l.
Proof.
  intros A P l. induction l as [|x l IH]; intro H; [reflexivity|]. cbn [forallb] in H.
  apply andb_true_iff in H. destruct H as [H1 H2]. cbn [filter]. rewrite H1, IH by exact H2. reflexivity.
Qed.

Lemma snd_fents : forall L, map snd (fents L) = map Some (filter is_bf L).
Proof.
  induction L as [|o L IH]; [reflexivity|]. unfold fents in *. cbn [flat_map filter]. rewrite map_app, IH.
  destruct o; reflexivity.
Qed.
Lemma snd_sents : forall L, map snd (sents L) = map Some (filter is_sb L).
Proof.
  induction L as [|o L IH]; [reflexivity|]. unfold sents in *. cbn [flat_map filter]. rewrite map_app, IH.
  destruct o; reflexivity.
Qed.
Lemma sequence_map_Some : forall {A} (l : list A), sequence (map Some l) = Some l.
Proof. intros A l. induction l as [|x l IH]; [reflexivity|]. cbn [map sequence fold_right] in *. unfold sequence in IH. rewrite IH. reflexivity. Qed.

Section Roots.
  Variable R : list op.
  Hypothesis HG : forest_good R.
  Hypothesis HW : forallb op_wf R = true.

  Let L := flat_map kl R.
  Let ops := filter is_bf L ++ filter is_sb L.
  Let NR := flat_map op_subs ops.
  Let notroot (o : op) : bool := existsb (op_eqb o) NR.

  Lemma top_keyed : forall r, In r R -> keyed r = true.
  Proof.
    intros r Hr. destruct HG as ((Rf & Rs & E & Hf & Hs) & _). rewrite E in Hr. apply in_app_or in Hr.
    rewrite forallb_forall in Hf, Hs. destruct Hr as [Hr|Hr]; [apply Hf in Hr | apply Hs in Hr];
      apply andb_true_iff in Hr; tauto.
  Qed.

  Lemma L_ops : forall y, In y L <-> In y ops.
  Proof.
    intro y. unfold ops. rewrite in_app_iff, !filter_In. split.
    - intro H. pose proof H as K. unfold L in K. apply in_flat_map in K. destruct K as (r & _ & K).
      apply kl_keyed in K. destruct (keyed_kind y K); tauto.
    - tauto.
  Qed.

  Lemma In_NR : forall y ch, In y L -> In ch (op_subs y) -> In ch NR.
  Proof. intros y ch Hy Hc. unfold NR. apply in_flat_map. exists y. split; [apply L_ops; exact Hy | exact Hc]. Qed.

  Lemma inner_notroot : forall r x, In r R -> In x (flat_map kl (op_subs r)) -> notroot x = true.
  Proof.
    intros r x Hr Hx. unfold notroot. apply existsb_exists. exists x. split; [|apply op_eqb_refl].
    destruct HG as (_ & _ & _ & Hc). rewrite forallb_forall in Hc. pose proof (Hc r Hr) as Cr.
    rewrite sfclean_eq in Cr. apply andb_true_iff in Cr. destruct Cr as [_ Cs]. rewrite forallb_forall in Cs.
    apply in_flat_map in Hx. destruct Hx as (s & Hs & Hx).
    destruct (kl_parent s (Cs s Hs) x Hx) as [[-> _] | (y & Hy & Hxy)].
    - apply (In_NR r s); [|exact Hs]. unfold L. apply in_flat_map. exists r. split; [exact Hr|].
      apply kl_self. apply top_keyed. exact Hr.
    - apply (In_NR y x); [|exact Hxy]. unfold L. apply in_flat_map. exists r. split; [exact Hr|].
      apply kl_inner. apply (kl_sub r s y Hs Hy).
  Qed.

  Lemma top_root : forall r, In r R -> notroot r = false.
  Proof.
    intros r Hr. destruct (notroot r) eqn:En; [exfalso | reflexivity].
    unfold notroot in En. apply existsb_exists in En. destruct En as (ch & Hch & He).
    unfold NR in Hch. apply in_flat_map in Hch. destruct Hch as (y & Hy & Hch).
    apply L_ops in Hy. unfold L in Hy. apply in_flat_map in Hy. destruct Hy as (r' & Hr' & Hy).
    destruct (op_eqb_keys r ch He) as (K1 & K2 & K3).
    pose proof (top_keyed r Hr) as Kr. rewrite Kr in K1. symmetry in K1.
    pose proof (child_in_inner r' y ch Hy Hch K1) as Hin.
    destruct HG as (_ & G2 & G3 & _).
    destruct r as [q r0 e | p c f a k subs r0 cr ra sf | f a k subs r0 ra sf]; [discriminate Kr | |].
    - rewrite fkeys_segments in G2.
      refine (pw_flat_two path_eqb finner fown R _ r' p G2 Hr Hr' _ _ (FsLemmas.path_eqb_refl p)).
      + unfold fown. rewrite Kr. left. reflexivity.
      + unfold finner. apply (fents_In _ ch p Hin). rewrite <- K2. reflexivity.
    - rewrite skeys_segments in G3.
      rewrite forallb_forall in HW. pose proof (HW _ Hr) as Wr. rewrite op_wf_sub_eq in Wr. split_andb Wr.
      refine (pw_flat_two py_eq sinner sown R _ r' (subbuild_key f a k) G3 Hr Hr' _ _
                (subbuild_key_refl f a k Wr Wr2)).
      + unfold sown. rewrite Kr. left. reflexivity.
      + unfold sinner. apply (sents_In _ ch _ Hin). rewrite <- K3. reflexivity.
  Qed.

  Lemma filter_roots : forall (Q : op -> bool) R', (forall r, In r R' -> In r R) ->
    filter (fun o => negb (notroot o)) (filter Q (flat_map kl R')) = filter Q R'.
  Proof.
    intros Q R'. induction R' as [|r R' IH]; intro Hsub; [reflexivity|].
    assert (Hr : In r R) by (apply Hsub; left; reflexivity).
    cbn [flat_map]. rewrite kl_eq, (top_keyed r Hr), !filter_app, IH by (intros; apply Hsub; right; assumption).
    rewrite (filter_none (fun o => negb (notroot o)) (filter Q (flat_map kl (op_subs r)))).
    2:{ intros x Hx. apply filter_In in Hx. destruct Hx as [Hx _]. rewrite (inner_notroot r x Hr Hx). reflexivity. }
    cbn [filter app]. destruct (Q r); [|reflexivity]. cbn [filter]. rewrite (top_root r Hr). reflexivity.
  Qed.

  Theorem roots_of_tables : root_operations ops = R.
  Proof.
    unfold root_operations. fold NR. change (fun o : op => negb (existsb (op_eqb o) NR)) with (fun o => negb (notroot o)).
    unfold ops. rewrite filter_app. unfold L. rewrite !filter_roots by auto.
    destruct HG as ((Rf & Rs & E & Hf & Hs) & _). rewrite E, !filter_app.
    assert (F1 : filter is_bf Rf = Rf).
    { apply filter_all. apply forallb_forall. intros x Hx. rewrite forallb_forall in Hf. apply Hf in Hx.
      apply andb_true_iff in Hx. tauto. }
    assert (F2 : filter is_bf Rs = []).
    { apply filter_none. intros x Hx. rewrite forallb_forall in Hs. apply Hs in Hx. apply andb_true_iff in Hx.
      destruct Hx as [Hx _]. destruct x; try discriminate Hx; reflexivity. }
    assert (F3 : filter is_sb Rf = []).
    { apply filter_none. intros x Hx. rewrite forallb_forall in Hf. apply Hf in Hx. apply andb_true_iff in Hx.
      destruct Hx as [Hx _]. destruct x; try discriminate Hx; reflexivity. }
    assert (F4 : filter is_sb Rs = Rs).
    { apply filter_all. apply forallb_forall. intros x Hx. rewrite forallb_forall in Hs. apply Hs in Hx.
      apply andb_true_iff in Hx. tauto. }
    rewrite F1, F2, F3, F4, app_nil_r. reflexivity.
  Qed.

  Theorem forest_of_tables : forall nm fv dirs, cache_forest (tables_of nm fv dirs R) = Some R.
  Proof.
    intros nm fv dirs. destruct HG as (_ & G2 & G3 & _).
    destruct (tables_of_lists nm fv dirs R G2 G3) as [T1 T2].
    unfold cache_forest, cache_operations. rewrite T1, T2, snd_fents, snd_sents, <- map_app, sequence_map_Some.
    cbn [option_map]. f_equal. exact roots_of_tables.
  Qed.
End Roots.

(* ================================================================== *)
(** * 7. Normalisation keeps the shape                                  *)
(* ================================================================== *)

Lemma flat_map_map : forall {A B C} (f : B -> list C) (g : A -> B) l,
  flat_map f (map g l) = flat_map (fun x => f (g x)) l.
Proof. intros. induction l as [|x l IH]; [reflexivity|]. cbn [map flat_map]. rewrite IH. reflexivity. Qed.

Lemma forallb_map : forall {A B} (f : B -> bool) (g : A -> B) l,
  forallb f (map g l) = forallb (fun x => f (g x)) l.
Proof. intros. induction l as [|x l IH]; [reflexivity|]. cbn [map forallb]. rewrite IH. reflexivity. Qed.

Lemma keyed_norm : forall o, keyed (norm_op o) = keyed o.
Proof. destruct o; reflexivity. Qed.
Lemma is_bf_norm : forall o, is_bf (norm_op o) = is_bf o.
Proof. destruct o; reflexivity. Qed.
Lemma is_sb_norm : forall o, is_sb (norm_op o) = is_sb o.
Proof. destruct o; reflexivity. Qed.

Lemma flat_kl_norm : forall subs,
  Forall (fun o => kl (norm_op o) = map norm_op (kl o)) subs ->
  flat_map kl (map norm_op subs) = map norm_op (flat_map kl subs).
Proof.
  intros subs H. rewrite flat_map_map, map_flat_map. induction H as [|s rest Hs HF IH]; [reflexivity|].
  cbn [flat_map]. rewrite Hs, IH. reflexivity.
Qed.

Lemma kl_norm : forall o, kl (norm_op o) = map norm_op (kl o).
Proof.
  induction o as [q r e | p c f a k subs r cr ra sf IH | f a k subs r ra sf IH] using op_ind'.
  - reflexivity.
  - cbn [norm_op kl]. rewrite (flat_kl_norm subs IH), map_app. destruct sf; reflexivity.
  - cbn [norm_op kl]. rewrite (flat_kl_norm subs IH), map_app. destruct sf; reflexivity.
Qed.

Lemma flat_kl_norm' : forall R, flat_map kl (map norm_op R) = map norm_op (flat_map kl R).
Proof. intro R. apply flat_kl_norm. apply Forall_forall. intros o _. apply kl_norm. Qed.

Lemma fkeys_norm : forall L, map fst (fents (map norm_op L)) = map fst (fents L).
Proof.
  induction L as [|o L IH]; [reflexivity|]. unfold fents in *. cbn [map flat_map]. rewrite !map_app, IH.
  destruct o; reflexivity.
Qed.

Lemma skeys_norm : forall L, forallb op_wf L = true -> map fst (sents (map norm_op L)) = map fst (sents L).
Proof.
  induction L as [|o L IH]; intro H; [reflexivity|]. cbn [forallb] in H. apply andb_true_iff in H.
  destruct H as [H1 H2]. unfold sents in *. cbn [map flat_map]. rewrite !map_app, IH by exact H2. f_equal.
  destruct o as [q r e | p c f a k subs r cr ra sf | f a k subs r ra sf]; try reflexivity.
  rewrite op_wf_sub_eq in H1. split_andb H1. cbn [norm_op sentry_of map fst].
  rewrite (subbuild_key_norm f a k H1 H4). reflexivity.
Qed.

Lemma kl_wf : forall o, op_wf o = true -> forallb op_wf (kl o) = true.
Proof.
  induction o as [q r e | p c f a k subs r cr ra sf IH | f a k subs r ra sf IH] using op_ind'; intro Hwf.
  - reflexivity.
  - cbn [kl]. rewrite forallb_app. pose proof Hwf as Hwf'. rewrite op_wf_build_eq in Hwf. split_andb Hwf.
    apply andb_true_iff. split.
    + apply forallb_forall. intros x Hx. apply in_flat_map in Hx. destruct Hx as (s & Hs & Hx).
      rewrite Forall_forall in IH. rewrite forallb_forall in Hwf0.
      pose proof (IH s Hs (Hwf0 s Hs)) as X. rewrite forallb_forall in X. apply X. exact Hx.
    + destruct sf; [reflexivity|]. cbn [forallb]. rewrite Hwf'. reflexivity.
  - cbn [kl]. rewrite forallb_app. pose proof Hwf as Hwf'. rewrite op_wf_sub_eq in Hwf. split_andb Hwf.
    apply andb_true_iff. split.
    + apply forallb_forall. intros x Hx. apply in_flat_map in Hx. destruct Hx as (s & Hs & Hx).
      rewrite Forall_forall in IH. rewrite forallb_forall in Hwf0.
      pose proof (IH s Hs (Hwf0 s Hs)) as X. rewrite forallb_forall in X. apply X. exact Hx.
    + destruct sf; [reflexivity|]. cbn [forallb]. rewrite Hwf'. reflexivity.
Qed.

Lemma flat_kl_wf : forall R, forallb op_wf R = true -> forallb op_wf (flat_map kl R) = true.
Proof.
  intros R H. apply forallb_forall. intros x Hx. apply in_flat_map in Hx. destruct Hx as (r & Hr & Hx).
  rewrite forallb_forall in H. pose proof (kl_wf r (H r Hr)) as X. rewrite forallb_forall in X. apply X. exact Hx.
Qed.

Lemma sfclean_norm : forall o, sfclean (norm_op o) = sfclean o.
Proof.
  induction o as [q r e | p c f a k subs r cr ra sf IH | f a k subs r ra sf IH] using op_ind'.
  - reflexivity.
  - cbn [norm_op sfclean]. rewrite flat_kl_norm'. f_equal.
    + destruct sf; [|reflexivity]. destruct (flat_map kl subs); reflexivity.
    + rewrite forallb_map. apply forallb_ext_in. intros x Hx. rewrite Forall_forall in IH. apply IH. exact Hx.
  - cbn [norm_op sfclean]. rewrite flat_kl_norm'. f_equal.
    + destruct sf; [|reflexivity]. destruct (flat_map kl subs); reflexivity.
    + rewrite forallb_map. apply forallb_ext_in. intros x Hx. rewrite Forall_forall in IH. apply IH. exact Hx.
Qed.

Theorem forest_good_norm : forall R, forallb op_wf R = true -> forest_good R -> forest_good (map norm_op R).
Proof.
  intros R HW ((Rf & Rs & E & Hf & Hs) & G2 & G3 & G4). split; [|split; [|split]].
  - exists (map norm_op Rf), (map norm_op Rs). split; [rewrite E, map_app; reflexivity|].
    split; rewrite forallb_map.
    + erewrite forallb_ext_in; [exact Hf|]. intros x _. cbn beta. rewrite is_bf_norm, keyed_norm. reflexivity.
    + erewrite forallb_ext_in; [exact Hs|]. intros x _. cbn beta. rewrite is_sb_norm, keyed_norm. reflexivity.
  - rewrite flat_kl_norm', fkeys_norm. exact G2.
  - rewrite flat_kl_norm', skeys_norm; [exact G3 | apply flat_kl_wf; exact HW].
  - rewrite forallb_map. erewrite forallb_ext_in; [exact G4|]. intros x _. cbn beta. apply sfclean_norm.
Qed.

(* ================================================================== *)
(** * 8. The second cycle, from hypotheses on the written cache         *)
(* ================================================================== *)

Theorem forest_good_stable : forall c roots, writable c roots -> forest_good roots -> forest_stable c roots.
Proof.
  intros c roots (Hf & Hr & Hd & Hv) HG. unfold forest_stable, read_back.
  apply forest_of_tables.
  - apply forest_good_norm; assumption.
  - apply (forest_normal roots Hr).
Qed.

(* the cache read back from the file of a well-formed cache is a fixed point
   of write-then-read *)
Theorem read_back_fixed_point : forall c roots, writable c roots -> forest_good roots ->
  let c' := read_back c roots in
  writable c' (map norm_op roots) /\
  read_back c' (map norm_op roots) = c' /\
  exists j', cache_to_json c' = Some j' /\ cache_of_json (Some j') = ReadOk c'.
Proof.
  intros c roots W G. apply second_cycle; [exact W | apply forest_good_stable; assumption].
Qed.
