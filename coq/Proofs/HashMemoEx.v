(* Proofs/HashMemoEx.v — C13, the hash memo: the invariant [HashOk] of CmpLaws is
   NOT an invariant of a fault-free build.  Counterexamples, computed in the
   mechanism model (and reproduced on the Python implementation, see the report):

   a memo entry is keyed by the path and by "has the path been claimed in the new
   cache" (cache_has_file (w_new w) p).  The flag flips when the path is claimed,
   which happens before user code writes the file, so an entry made before the
   claim is dead afterwards.  But while the path is claimed and its function is
   still running, the flag stays [true]: an entry memoised in that window — by
   _is_build_file_operation_cached replaying an old record that mentions the
   path, which compares the file on disk BEFORE it checks that the path is
   already claimed — is keyed [true], and it is served when the comparison result
   of the finished output is computed, although the function has rewritten the
   file in between.

   No external modification, no fault, user code writes only its own target. *)
(* Reproduction on the implementation (file_builder at /repo, HEAD 2001e1b), same
   history as section 2 below; prints r = 'r:B' after the third (incremental)
   build and r = 'r:X' for the same program on the same foreign files from an
   empty cache:

     import os, sys, tempfile
     sys.path.insert(0, "/repo")
     from file_builder import FileBuilder, FileComparison
     def w(p, s):
         with open(p, "w") as f: f.write(s)
     def program(root):
         P, Q, R = (os.path.join(root, n) for n in ("p", "q", "r"))
         F1, F2 = os.path.join(root, "flag1"), os.path.join(root, "flag2")
         def fp(b, p): w(p, "A")
         def fq(b, q):
             try: b.build_file_with_comparison(P, FileComparison.HASH, "fp", fp)
             except RuntimeError: pass
             w(q, "Q")
         def fp3(b, p):
             w(p, "X")
             b.build_file_with_comparison(Q, FileComparison.HASH, "fq", fq)
             if b.exists(F2): w(p, "B")
         def fr(b, r):
             with b.read_text(P, FileComparison.HASH) as fh: c = fh.read()
             w(r, "r:" + c)
         def main(b):
             if b.exists(F1): b.build_file_with_comparison(Q, FileComparison.HASH, "fq", fq)
             else:
                 b.build_file_with_comparison(P, FileComparison.HASH, "fp3", fp3)
                 b.build_file_with_comparison(R, FileComparison.HASH, "fr", fr)
         return main
     root = tempfile.mkdtemp(); cache = os.path.join(root, "cache")
     w(os.path.join(root, "flag1"), ""); w(os.path.join(root, "flag2"), "")
     FileBuilder.build(cache, "n", program(root))
     os.remove(os.path.join(root, "flag1")); FileBuilder.build(cache, "n", program(root))
     os.remove(os.path.join(root, "flag2")); FileBuilder.build(cache, "n", program(root))
     print(open(os.path.join(root, "r")).read())                      # r:B
     root2 = tempfile.mkdtemp()
     FileBuilder.build(os.path.join(root2, "cache"), "n", program(root2))
     print(open(os.path.join(root2, "r")).read())                     # r:X

   A repair that was tried on a copy of the implementation (reproduction fixed,
   the package's 138 unit tests still pass): in
   FileBuilder._is_build_file_operation_cached, test
   "new cache has the file, or it is the cache file -> return False" BEFORE the
   test that compares the file on disk (_is_build_file_cached); then a replay
   never hashes a path that is claimed and in progress, and the only entries
   keyed "built" are made when an output is finished or read after that. *)
From Coq Require Import List String NArith ZArith Bool Arith.
From FB.Base Require Import PyVal Fs.
From FB.Gen Require Import JsonUtilGen.
From FB.Spec Require Import Prog.
From FB.Model Require Import Types Monad SimpleOps Builder Persist Build Run Dsl.
From FB.Proofs Require Import CmpLaws.
Import ListNotations.
Local Open Scope string_scope.
Local Open Scope list_scope.

Module HashMemoEx.

Definition P : path := ["p"].
Definition Q : path := ["q"].
Definition R : path := ["r"].
Definition F1 : path := ["flag1"].
Definition F2 : path := ["flag2"].
Definition CF : path := ["cache"].
Definition E : pyval := PList [].
Definition K : pyval := PDict [].
Definition V : pyval := PDict [].

(* ------------------------------------------------------------------ *)
(* 1. A stale entry is served                                          *)
(* ------------------------------------------------------------------ *)

(* fq builds p (content "A") and then writes q *)
Definition fq : path -> pyval -> pyval -> prog :=
  fun _ _ _ => BuildFile false P HASH "fp" E K (fun _ _ _ => Write "A" (Ret PNone))
                 (fun _ => Write "Q" (Ret PNone)).
(* first build: q (and, nested, p) *)
Definition root1 : prog := BuildFile false Q HASH "fq" E K fq (fun _ => Ret PNone).
(* second build: p is built at top level by a function that writes "X", asks for q,
   and then writes "B" *)
Definition fp2 : path -> pyval -> pyval -> prog :=
  fun _ _ _ => Write "X" (BuildFile false Q HASH "fq" E K fq (fun _ => Write "B" (Ret PNone))).
Definition root2 : prog := BuildFile false P HASH "fp2" E K fp2 (fun _ => Ret PNone).

Definition w1 : world := fst (run_build CF "n" V root1 init_world).
Definition b2 : world * build_result := run_build CF "n" V root2 w1.
Definition w2 : world := fst b2.

(* both builds succeed; after the second one p holds "B", but the record of p in
   the committed cache carries the hash of "X", and the memo still holds the
   entry (sha256:X, built) for p: HashOk fails in the world the build ends in
   (it failed from the second Write on) *)
Theorem stale_entry_served :
  snd (run_build CF "n" V root1 init_world) = Done (inl PNone) /\
  snd b2 = Done (inl PNone) /\
  (exists f, lookup (w_fs w2) P = Some (NFile f) /\ f_bytes f = "B") /\
  (exists subs, cache_get_file (w_new w2) P =
                Some (OBuildFile P HASH "fp2" E K subs PNone (hash_of "X") false false)) /\
  hash_get (w_hash w2) P = Some (hash_of "X", true) /\
  cache_has_file (w_new w2) P = true /\
  ~ HashOk w2.
Proof.
  assert (L : lookup (w_fs w2) P =
              Some (NFile {| f_bytes := "B"; f_mtime := 5; f_id := 4; f_json := None |}))
    by (vm_compute; reflexivity).
  assert (H1 : hash_get (w_hash w2) P = Some (hash_of "X", true)) by (vm_compute; reflexivity).
  assert (H2 : cache_has_file (w_new w2) P = true) by (vm_compute; reflexivity).
  split; [vm_compute; reflexivity|].
  split; [vm_compute; reflexivity|].
  split; [eexists; split; [exact L | reflexivity]|].
  split; [vm_compute; eexists; reflexivity|].
  split; [exact H1|]. split; [exact H2|].
  intro Hok. specialize (Hok P _ _ _ H1 (eq_sym H2) L). discriminate Hok.
Qed.

(* ------------------------------------------------------------------ *)
(* 2. The consequence: an incremental build differs from a fresh one   *)
(* ------------------------------------------------------------------ *)

(* ONE deterministic program, run three times; between the builds only two
   foreign files (flag1, flag2) are deleted.

   root:  if exists(flag1): build q          [fq builds p ("A") inside]
          else:             build p by fp3; build r by fr
   fp3:   write "X"; build q; if exists(flag2): write "B"
   fr:    c = read_text(p, HASH); write "r:" + c                      *)
Definition fp3 : path -> pyval -> pyval -> prog :=
  fun _ _ _ => Write "X" (BuildFile false Q HASH "fq" E K fq
     (fun _ => Ask false (QExists F2) (fun r => if is_true_o r then Write "B" (Ret PNone) else Ret PNone))).
Definition fr : path -> pyval -> pyval -> prog :=
  fun _ _ _ => Ask false (QRead P HASH)
     (fun r => match r with inl (PStr s) => Write ("r:" ++ s) (Ret PNone) | _ => Raise (XUser 0) end).
Definition root : prog :=
  Ask false (QExists F1) (fun r =>
    if is_true_o r then BuildFile false Q HASH "fq" E K fq (fun _ => Ret PNone)
    else BuildFile false P HASH "fp3" E K fp3
           (fun _ => BuildFile false R HASH "fr" E K fr (fun _ => Ret PNone))).

Definition env0 : world := fold_left apply_fsop [FWrite F1 ""; FWrite F2 ""] init_world.
Definition bA := run_build CF "n" V root env0.                          (* flag1, flag2 present *)
Definition bB := run_build CF "n" V root (apply_fsop (fst bA) (FRm F1)). (* flag2 present *)
Definition bC := run_build CF "n" V root (apply_fsop (fst bB) (FRm F2)). (* no flag *)
Definition bS := run_build CF "n" V root init_world.                    (* no flag, no cache *)

Definition bytes_at (w : world) (p : path) : option string :=
  match lookup (w_fs w) p with Some (NFile f) => Some (f_bytes f) | _ => None end.

(* In build B the stale entry for p (hash of "X" while p holds "B") is served to
   read_text(p, HASH) inside fr: r is made from "B" but its record says it read a
   file whose hash is that of "X".  In build C p really holds "X", the record of r
   validates, and r is served from the cache with the content made from "B".
   The same program on the same foreign files from an empty cache gives "r:X". *)
Theorem stale_entry_breaks_transparency :
  snd bA = Done (inl PNone) /\ snd bB = Done (inl PNone) /\
  snd bC = Done (inl PNone) /\ snd bS = Done (inl PNone) /\
  bytes_at (fst bB) P = Some "B" /\ bytes_at (fst bB) R = Some "r:B" /\
  bytes_at (fst bC) P = Some "X" /\ bytes_at (fst bS) P = Some "X" /\
  bytes_at (fst bC) Q = Some "Q" /\ bytes_at (fst bS) Q = Some "Q" /\
  bytes_at (fst bC) F1 = None /\ bytes_at (fst bS) F1 = None /\
  bytes_at (fst bC) F2 = None /\ bytes_at (fst bS) F2 = None /\
  bytes_at (fst bC) R = Some "r:B" /\
  bytes_at (fst bS) R = Some "r:X".
Proof. vm_compute. repeat split. Qed.

(* the record of r written by build B: a read of p with the hash of "X" *)
Theorem stale_entry_recorded_in_reader :
  exists cr, cache_get_file (w_new (fst bB)) R =
    Some (OBuildFile R HASH "fr" E K [OSimple (QRead P HASH) (hash_of "X") None] PNone cr false false).
Proof. vm_compute. eexists. reflexivity. Qed.

End HashMemoEx.
