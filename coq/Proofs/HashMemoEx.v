(* Proofs/HashMemoEx.v — C13, the hash memo: defect D15 and its repair.

   THE DEFECT (before commit 502c9b4 of /repo).  A memo entry is keyed by the path
   and by "has the path been claimed in the new cache"
   (cache_has_file (w_new w) p).  The flag flips when the path is claimed, which
   happens before user code writes the file, so an entry made before the claim
   is dead afterwards.  But while the path is claimed and its function is still
   running, the flag stays [true]: an entry memoised in that window is keyed
   [true], and it is served when the comparison result of the finished output is
   computed — and to every later read_text(p, HASH) — although the function has
   rewritten the file in between.  One routine did memoise in that window:
   _is_build_file_operation_cached, replaying an old record that mentions the
   path, compared the file on disk BEFORE it checked that the path is already
   claimed.  No external modification, no fault, user code writes only its own
   target.  Consequence (section 3, as it was): an incremental build differing
   from a fresh one.

   THE REPAIR: the claim test comes first.  Section 1 keeps the old replay routine
   as a local copy [is_op_cached_old] and shows, in one world of the
   counterexample history, what it did and what the repaired routine does.
   Sections 2 and 3 are the two histories of the counterexample, now regression
   examples on the repaired model. *)
(* Reproduction on the implementation BEFORE the repair (file_builder at /repo,
   commit 2001e1b), same history as section 3 below; it printed r = 'r:B' after
   the third (incremental) build and r = 'r:X' for the same program on the same
   foreign files from an empty cache; since commit 502c9b4 it prints r:X twice:

     import os, sys, tempfile
     sys.path.insert(0, "/repo")
     from file_builder import FileBuilder, FileComparison
     def w(p, s):
         with open(p, "w") as f: f.write(s)
     def program(root):
         P, Q, R = (os.path.join(root, n) for n in ("p", "q", "r"))
         F1, F2 = os.path.join(root, "flag1"), os.path.join(root, "flag2")
         def fp(b, p): w(p, "A")
         def fq(b, q):
             try: b.build_file_with_comparison(P, FileComparison.HASH, "fp", fp)
             except RuntimeError: pass
             w(q, "Q")
         def fp3(b, p):
             w(p, "X")
             b.build_file_with_comparison(Q, FileComparison.HASH, "fq", fq)
             if b.exists(F2): w(p, "B")
         def fr(b, r):
             with b.read_text(P, FileComparison.HASH) as fh: c = fh.read()
             w(r, "r:" + c)
         def main(b):
             if b.exists(F1): b.build_file_with_comparison(Q, FileComparison.HASH, "fq", fq)
             else:
                 b.build_file_with_comparison(P, FileComparison.HASH, "fp3", fp3)
                 b.build_file_with_comparison(R, FileComparison.HASH, "fr", fr)
         return main
     root = tempfile.mkdtemp(); cache = os.path.join(root, "cache")
     w(os.path.join(root, "flag1"), ""); w(os.path.join(root, "flag2"), "")
     FileBuilder.build(cache, "n", program(root))
     os.remove(os.path.join(root, "flag1")); FileBuilder.build(cache, "n", program(root))
     os.remove(os.path.join(root, "flag2")); FileBuilder.build(cache, "n", program(root))
     print(open(os.path.join(root, "r")).read())                      # r:B
     root2 = tempfile.mkdtemp()
     FileBuilder.build(os.path.join(root2, "cache"), "n", program(root2))
     print(open(os.path.join(root2, "r")).read())                     # r:X

   The repair (commit 502c9b4 of /repo, and Model/Builder.v [is_op_cached]): in
   FileBuilder._is_build_file_operation_cached, test
   "new cache has the file, or it is the cache file -> return False" BEFORE the
   test that compares the file on disk (_is_build_file_cached); then a replay
   never hashes a path that is claimed and in progress, and the only entries
   keyed "built" are made when an output is finished or read after that. *)
From Coq Require Import List String NArith ZArith Bool Arith.
From FB.Base Require Import PyVal Fs.
From FB.Gen Require Import JsonUtilGen.
From FB.Spec Require Import Prog.
From FB.Model Require Import Types Monad CreatedFiles BuildDirs SimpleOps Builder Persist Build Run Dsl.
From FB.Proofs Require Import FsLemmas CmpLaws ReplayLaws BuildFileLaws HashMemoInv.
Import ListNotations.
Local Open Scope string_scope.
Local Open Scope list_scope.
Local Open Scope m_scope.

Module HashMemoEx.

Definition P : path := ["p"].
Definition Q : path := ["q"].
Definition R : path := ["r"].
Definition F1 : path := ["flag1"].
Definition F2 : path := ["flag2"].
Definition CF : path := ["cache"].
Definition E : pyval := PList [].
Definition K : pyval := PDict [].
Definition V : pyval := PDict [].

(* fq builds p (content "A") and then writes q *)
Definition fq : path -> pyval -> pyval -> prog :=
  fun _ _ _ => BuildFile false P HASH "fp" E K (fun _ _ _ => Write "A" (Ret PNone))
                 (fun _ => Write "Q" (Ret PNone)).
(* first build: q (and, nested, p) *)
Definition root1 : prog := BuildFile false Q HASH "fq" E K fq (fun _ => Ret PNone).
(* second build: p is built at top level by a function that writes "X", asks for q,
   and then writes "B" *)
Definition fp2 : path -> pyval -> pyval -> prog :=
  fun _ _ _ => Write "X" (BuildFile false Q HASH "fq" E K fq (fun _ => Write "B" (Ret PNone))).
Definition root2 : prog := BuildFile false P HASH "fp2" E K fp2 (fun _ => Ret PNone).

Definition w1 : world := fst (run_build CF "n" V root1 init_world).

(* a checkable form of HashOk for concrete worlds *)
Definition hash_is (h : pyval) (bytes : string) : bool :=
  match h with PStr s => String.eqb s ("sha256:" ++ bytes) | _ => false end.
Definition hashok_b (w : world) : bool :=
  forallb (fun e =>
             match hash_get (w_hash w) (fst e) with
             | Some (h, b) =>
                 if Bool.eqb b (cache_has_file (w_new w) (fst e)) then
                   match lookup (w_fs w) (fst e) with
                   | Some (NFile f) => hash_is h (f_bytes f)
                   | _ => true
                   end
                 else true
             | None => true
             end) (w_hash w).

Lemma hashok_b_sound : forall w, hashok_b w = true -> HashOk w.
Proof.
  intros w H p h b f Hg Hb Hl. unfold hashok_b in H. rewrite forallb_forall in H.
  specialize (H _ (hash_get_In _ _ _ Hg)). cbn [fst] in H. rewrite Hg, Hl in H.
  rewrite Hb, eqb_reflx in H. destruct h; try discriminate H. cbn [hash_is] in H.
  apply String.eqb_eq in H. subst. reflexivity.
Qed.

(* ------------------------------------------------------------------ *)
(* 1. The old replay routine, and what the repair changes               *)
(* ------------------------------------------------------------------ *)

(* Model/Builder.v [is_op_cached] as it was before the repair: the test
   "claimed, or the cache file" came AFTER the comparison of the file *)
Fixpoint is_op_cached_old (o : op) (cf : cfiles) {struct o} : M (bool * cfiles) :=
  let subs_cached :=
    fix go (subs : list op) (cf : cfiles) {struct subs} : M (bool * cfiles) :=
      match subs with
      | [] => ret (true, cf)
      | s :: rest =>
          r <- is_op_cached_old s cf ;;
          if fst r then go rest (snd r) else ret (false, snd r)
      end in
  match o with
  | OSimple q ret_ ex => b <- is_simple_operation_cached q ret_ ex cf ;; ret (b, cf)
  | OBuildFile p c fname _ _ subs _ cmpres raised sf =>
      ve <- version_equal fname ;;
      if negb ve then ret (false, cf) else
      ok <- (if raised then ret true else is_build_file_cached p c cmpres) ;;
      if negb ok then ret (false, cf) else
      w <- get ;;
      if raised && lexists (w_fs w) p then ret (false, cf) else
      if sf then ret (false, cf) else
      if cache_has_file (w_new w) p || path_eqb p (w_cachefile w) then ret (false, cf) else
      d <- attempt (dirs_to_make (dirname p) (Some cf)) ;;
      match d with
      | inr e => if is_os e then ret (false, cf) else raise e
      | inl _ =>
          let cf1 := cf_started cf p in
          r <- subs_cached subs cf1 ;;
          if negb (fst r) then ret (false, snd r) else
          if raised then
            match cf_error (snd r) p with
            | Some cf2 => ret (true, cf2)
            | None => raise (XCrash "KeyError in CreatedFiles.error_building_file")
            end
          else ret (true, cf_finished (snd r) p)
      end
  | OSubbuild fname a k subs _ raised sf =>
      ve <- version_equal fname ;;
      if negb ve || sf then ret (false, cf) else
      w <- get ;;
      if cache_has_subbuild (w_new w) (subbuild_key fname a k) then ret (false, cf) else
      subs_cached subs cf
  end.

Local Close Scope m_scope.

(* the world of the second build in which fp2 has written "X" and calls
   build_file(q): p is claimed and in progress *)
Definition old2 : cache :=
  match lookup (w_fs w1) CF with
  | Some (NFile f) => match cache_of_json (f_json f) with ReadOk c => c | _ => empty_cache "n" V end
  | _ => empty_cache "n" V
  end.
Definition w_user : world :=
  let w_d := fst (make_dirs (dirname CF) (start_world w1 CF old2 "n" V)) in
  set_log (LInvoke "<root>" None PNone PNone :: w_log w_d) w_d.
Definition w_claimed : world := fst (bf_setup P HASH "fp2" E K w_user).
Definition w_mid : world :=
  fst (run (Write "X" (Ret PNone)) (Some P) [] (bf_invoke_world P "fp2" E K w_claimed)).
(* the record of p inside the record of q in the cache of the first build *)
Definition rec_p : op := OBuildFile P HASH "fp" E K [] PNone (hash_of "A") false false.

Theorem old_replay_memoised_a_target_in_progress :
  cache_get_file old2 Q = Some (OBuildFile Q HASH "fq" E K [rec_p] PNone (hash_of "Q") false false) /\
  files_get (c_files (w_new w_mid)) P = Some None /\
  (exists f, lookup (w_fs w_mid) P = Some (NFile f) /\ f_bytes f = "X") /\
  hash_get (w_hash w_mid) P = None /\
  (* before the repair: "not cached", and an entry keyed "built" for p *)
  snd (is_op_cached_old rec_p cf_empty w_mid) = inl (false, cf_empty) /\
  hash_get (w_hash (fst (is_op_cached_old rec_p cf_empty w_mid))) P = Some (hash_of "X", true) /\
  (* after the repair: "not cached", and the memo untouched *)
  snd (is_op_cached rec_p cf_empty w_mid) = inl (false, cf_empty) /\
  w_hash (fst (is_op_cached rec_p cf_empty w_mid)) = w_hash w_mid.
Proof. vm_compute. repeat split. eexists. split; reflexivity. Qed.

(* with that entry, the next write of the function breaks HashOk
   (HashMemoInv.write_breaks_HashOk) *)
Theorem old_replay_then_write_breaks_HashOk :
  let w := fst (is_op_cached_old rec_p cf_empty w_mid) in
  exists fs', write_file (w_fs w) P "B" None (N.succ (w_clock w)) (w_nextid w) = inl fs' /\
              ~ HashOk (set_clock (N.succ (w_clock w)) (N.succ (w_nextid w)) (set_fs fs' w)).
Proof.
  cbv zeta. set (w := fst (is_op_cached_old rec_p cf_empty w_mid)).
  destruct (write_file (w_fs w) P "B" None (N.succ (w_clock w)) (w_nextid w)) as [fs'|e] eqn:Ew.
  2:{ vm_compute in Ew. discriminate Ew. }
  exists fs'. split; [reflexivity|].
  apply (write_breaks_HashOk w P "B" fs' (hash_of "X") Ew).
  - vm_compute. reflexivity.
  - discriminate.
Qed.

(* ------------------------------------------------------------------ *)
(* 2. Regression: the first history on the repaired model               *)
(* ------------------------------------------------------------------ *)

Definition b2 : world * build_result := run_build CF "n" V root2 w1.
Definition w2 : world := fst b2.

(* both builds succeed; p holds "B" and its committed record carries the hash of
   "B"; the memo holds that hash for p; HashOk holds in the final world
   (before the repair: hash of "X" in the record and in the memo, HashOk false) *)
Theorem regression_record_carries_final_hash :
  snd (run_build CF "n" V root1 init_world) = Done (inl PNone) /\
  snd b2 = Done (inl PNone) /\
  (exists f, lookup (w_fs w2) P = Some (NFile f) /\ f_bytes f = "B") /\
  (exists subs, cache_get_file (w_new w2) P =
                Some (OBuildFile P HASH "fp2" E K subs PNone (hash_of "B") false false)) /\
  hash_get (w_hash w2) P = Some (hash_of "B", true) /\
  HashOk w2.
Proof.
  split; [vm_compute; reflexivity|].
  split; [vm_compute; reflexivity|].
  split; [vm_compute; eexists; split; reflexivity|].
  split; [vm_compute; eexists; reflexivity|].
  split; [vm_compute; reflexivity|].
  apply hashok_b_sound. vm_compute. reflexivity.
Qed.

(* ------------------------------------------------------------------ *)
(* 3. Regression: the second history (incremental = fresh)              *)
(* ------------------------------------------------------------------ *)

(* ONE deterministic program, run three times; between the builds only two
   foreign files (flag1, flag2) are deleted.

   root:  if exists(flag1): build q          [fq builds p ("A") inside]
          else:             build p by fp3; build r by fr
   fp3:   write "X"; build q; if exists(flag2): write "B"
   fr:    c = read_text(p, HASH); write "r:" + c                      *)
Definition fp3 : path -> pyval -> pyval -> prog :=
  fun _ _ _ => Write "X" (BuildFile false Q HASH "fq" E K fq
     (fun _ => Ask false (QExists F2) (fun r => if is_true_o r then Write "B" (Ret PNone) else Ret PNone))).
Definition fr : path -> pyval -> pyval -> prog :=
  fun _ _ _ => Ask false (QRead P HASH)
     (fun r => match r with inl (PStr s) => Write ("r:" ++ s) (Ret PNone) | _ => Raise (XUser 0) end).
Definition root : prog :=
  Ask false (QExists F1) (fun r =>
    if is_true_o r then BuildFile false Q HASH "fq" E K fq (fun _ => Ret PNone)
    else BuildFile false P HASH "fp3" E K fp3
           (fun _ => BuildFile false R HASH "fr" E K fr (fun _ => Ret PNone))).

Definition env0 : world := fold_left apply_fsop [FWrite F1 ""; FWrite F2 ""] init_world.
Definition bA := run_build CF "n" V root env0.                          (* flag1, flag2 present *)
Definition bB := run_build CF "n" V root (apply_fsop (fst bA) (FRm F1)). (* flag2 present *)
Definition bC := run_build CF "n" V root (apply_fsop (fst bB) (FRm F2)). (* no flag *)
Definition bS := run_build CF "n" V root init_world.                    (* no flag, no cache *)

Definition bytes_at (w : world) (p : path) : option string :=
  match lookup (w_fs w) p with Some (NFile f) => Some (f_bytes f) | _ => None end.

(* Build B: r is made from "B" and its record says it read a file whose hash is
   that of "B".  Build C: p holds "X", the record of r does not validate, r is
   rebuilt: "r:X", as from an empty cache.  (Before the repair: the record of r
   in build B said hash of "X", and build C served r = "r:B" from the cache.) *)
Theorem regression_incremental_equals_fresh :
  snd bA = Done (inl PNone) /\ snd bB = Done (inl PNone) /\
  snd bC = Done (inl PNone) /\ snd bS = Done (inl PNone) /\
  bytes_at (fst bB) P = Some "B" /\ bytes_at (fst bB) R = Some "r:B" /\
  bytes_at (fst bC) P = Some "X" /\ bytes_at (fst bS) P = Some "X" /\
  bytes_at (fst bC) Q = Some "Q" /\ bytes_at (fst bS) Q = Some "Q" /\
  bytes_at (fst bC) F1 = None /\ bytes_at (fst bS) F1 = None /\
  bytes_at (fst bC) F2 = None /\ bytes_at (fst bS) F2 = None /\
  bytes_at (fst bC) R = Some "r:X" /\
  bytes_at (fst bS) R = Some "r:X".
Proof. vm_compute. repeat split. Qed.

(* the record of r written by build B: a read of p with the hash of "B" *)
Theorem regression_reader_records_hash_of_bytes_seen :
  exists cr, cache_get_file (w_new (fst bB)) R =
    Some (OBuildFile R HASH "fr" E K [OSimple (QRead P HASH) (hash_of "B") None] PNone cr false false).
Proof. vm_compute. eexists. reflexivity. Qed.

Theorem regression_HashOk_final_worlds :
  HashOk (fst bA) /\ HashOk (fst bB) /\ HashOk (fst bC) /\ HashOk (fst bS).
Proof. repeat split; apply hashok_b_sound; vm_compute; reflexivity. Qed.

End HashMemoEx.
