(* Proofs/SimAStart.v — C04, the link to Core, run level: Sim4 and the context hold when the
   root function starts (cache directory visible: ViewK4.sim3_start, ViewR3.RInv2_root_entry). *)
From Coq Require Import List String Ascii NArith ZArith Bool Arith Lia.
From FB.Base Require Import PyVal Fs.
From FB.Gen Require Import JsonUtilGen.
From FB.Spec Require Import JsonSpec Prog Ref Oracle Faithful.
From FB.Model Require Import Types Monad CreatedFiles BuildDirs SimpleOps Builder Persist Build Run Frame Core CoreOracle.
From FB.Proofs Require Import FsLemmas JsonLaws ReplayLaws CleanLaws BuildFileLaws HashMemoInv HashMemoRun CoreLaws1 CoreLaws2 CoreLaws3 CoreLaws6
     ViewDefs ViewLemmas ViewFrame ViewInit ViewXDefs ViewXQuery ViewXMake1 ViewXMake2 ViewXFail ViewXSetup ViewXRun
     ViewR1 ViewR2 ViewR3 ViewK1 ViewK2 ViewK3 ViewK4 ViewK8 SimA0 SimARun SimA2Base.
Import ListNotations.
Open Scope list_scope.
Open Scope string_scope.

Lemma missing_nil_dir : forall fs cf d, missing_dirs fs cf d = inl [] -> lookup fs d = Some NDir.
Proof.
  intros fs cf d H. destruct d as [|n up]; [reflexivity|]. cbn [missing_dirs] in H.
  destruct (lookup fs (n :: up)) as [[f|]|]; [discriminate|reflexivity|].
  destruct (path_eqb (n :: up) cf); [discriminate|].
  destruct (missing_dirs fs cf up) as [l|e]; [|discriminate]. inversion H as [E]. destruct l; discriminate.
Qed.

Theorem sim4_start : forall w cachefile old nm svers,
  fs_wf (w_fs w) -> old_ok old cachefile -> WfCache old -> old_keys_ok old -> w_faults w = [] ->
  path_ok (dirname cachefile) = true -> isdir (w_fs w) cachefile = false -> maxlen (w_fs w) < walk_fuel ->
  vdir (start_world w cachefile old nm svers) (dirname cachefile) = true ->
  exists w1,
    make_dirs (dirname cachefile) (start_world w cachefile old nm svers) = (w1, inl []) /\
    let w1' := set_log (LInvoke "<root>" None PNone PNone :: w_log w1) w1 in
    Sim4 [] [] w1' (ViewK4.core_start (w_fs w) cachefile old svers (w_clock w) (w_nextid w)
                                      (LInvoke "<root>" None PNone PNone :: w_log w1)) /\
    Ctx4 [] None None w1' /\ w_old w1' = old.
Proof.
  intros w cachefile old nm svers Hwf Hok HW HKo HF Hp Hnc Hml Hd.
  destruct (sim3_start w cachefile old nm svers Hwf Hok HF Hp Hd) as (w1 & E & Hmiss & HS3).
  destruct (RInv2_root_entry (fun _ => True) w cachefile old nm svers Hwf Hok HF Hp Hnc Hml HW I Hd) as (w1b & Eb & HR2).
  assert (w1b = w1) by congruence. subst w1b. clear Eb.
  destruct (BInv_root_entry w cachefile old nm svers Hwf Hok Hp Hd) as (w1c & Ec & G & _).
  assert (w1c = w1) by congruence. subst w1c. clear Ec.
  pose proof (good_sv _ _ G) as Sv.
  assert (Fs1: fstep (start_world w cachefile old nm svers) w1) by (apply (make_dirs_fs _ _ _ _ E)).
  destruct Fs1 as (O1 & N1 & H1 & _).
  exists w1. split; [exact E|]. cbv zeta.
  set (w1' := set_log (LInvoke "<root>" None PNone PNone :: w_log w1) w1).
  set (s0 := ViewK4.core_start (w_fs w) cachefile old svers (w_clock w) (w_nextid w) (LInvoke "<root>" None PNone PNone :: w_log w1)).
  assert (Hnew: w_new w1' = empty_cache nm svers) by exact N1.
  assert (Hold: w_old w1' = old) by exact O1.
  assert (Hcf: w_cachefile w1' = cachefile) by (apply (sv_cf _ _ Sv)).
  assert (Hwf0: fs_wf (k_fs s0)) by (apply ref_clean_wf; exact Hwf).
  split; [|split; [|exact Hold]].
  - split; [split|split; [|split]].
    + constructor.
      * exact HS3.
      * exact HR2.
      * constructor.
      * intro x. cbn [s0 ViewK4.core_start k_need mem_path In]. split; [discriminate|intros []].
      * intro x. cbn [s0 ViewK4.core_start k_made mem_path w1' w_bd set_log].
        rewrite (sv_created _ _ Sv). reflexivity.
      * exact Hwf0.
      * intros t [].
      * intros x Hx. rewrite Hcf in Hx.
        apply (wf_suffix_dir _ _ _ Hwf0 (missing_nil_dir _ _ _ Hmiss) Hx).
      * intros x [].
      * intros q v Hin. rewrite Hnew in Hin. destruct Hin.
      * rewrite Hnew. exact I.
      * intros q o [].
    + intros x [].
    + apply HInv_set_log. apply (fstep_brel _ _ (make_dirs_fs _ _ _ _ E)). apply start_world_HInv.
    + rewrite Hold. exact HKo.
    + intros x Hx. discriminate.
  - constructor.
    + intro y. unfold inprog. rewrite Hnew. cbn. split; [discriminate|intros []].
    + intros p0 Ep. discriminate.
    + exact I.
    + intros y [].
    + intros t Et. discriminate.
Qed.

Print Assumptions sim4_start.
