(* Proofs/SimH15.v — what a lookup in the tables of a good forest finds (step (3) of SimH12):
   [OldF]: a record found under a path is a registered build_file record of that path, and the
           keys of its tree (claim order) are pairwise different;
   [OldS]: a record found under a subbuild key is a registered subbuild record, the keys of its
           suboperation trees are pairwise different, and none of them matches the key that was
           looked up (the table lists a record after its descendants; the lookup returns the
           first match).
   [old_facts]: both hold of tables_of _ _ _ R for a forest_good, well-formed R. *)
From Coq Require Import List String Ascii NArith ZArith Bool Arith Lia Permutation.
From FB.Base Require Import PyVal Fs.
From FB.Gen Require Import JsonUtilGen.
From FB.Spec Require Import JsonSpec.
From FB.Model Require Import Types Monad SimpleOps Builder PathNorm Persist PersistSpec.
From FB.Proofs Require Import FsLemmas JsonLaws PersistLaws ReplayLaws CacheRTDefs CacheRTForest SimH4 SimH5 SimH6 SimH14.
Import ListNotations.
Local Open Scope list_scope.

Definition OldF (old : cache) : Prop :=
  forall p co, files_get (c_files old) p = Some (Some co) ->
    exists c' f' a' k' subs' r' cr' ra', co = OBuildFile p c' f' a' k' subs' r' cr' ra' false /\
      pw path_eqb (p :: map fst (fents (flat_map pre subs'))) = true /\
      pw py_eq (map fst (sents (flat_map pre subs'))) = true.

Definition OldS (old : cache) : Prop :=
  forall key co, subs_get (c_subs old) key = Some (Some co) ->
    exists f' a' k' subs' r' ra', co = OSubbuild f' a' k' subs' r' ra' false /\
      pw path_eqb (map fst (fents (flat_map pre subs'))) = true /\
      pw py_eq (map fst (sents (flat_map pre subs'))) = true /\
      forallb (fun y => negb (py_eq y key)) (map fst (sents (flat_map pre subs'))) = true.

(* ------------------------------------------------------------------ segments of the registration order *)
Lemma flat_kl_split : forall (l : list op) s, In s l -> exists A B, flat_map kl l = A ++ kl s ++ B.
Proof.
  intros l s H. apply in_split in H. destruct H as (l1 & l2 & ->).
  exists (flat_map kl l1), (flat_map kl l2). rewrite flat_map_app. reflexivity.
Qed.

Lemma kl_segment : forall o x, In x (kl o) -> exists A B, kl o = A ++ kl x ++ B.
Proof.
  induction o as [q r e | p c f a k subs r cr ra sf IH | f a k subs r ra sf IH] using op_ind'; intros x H.
  - destruct H.
  - cbn [kl] in H. apply in_app_or in H. destruct H as [H|H].
    + apply in_flat_map in H. destruct H as (s & Hs & Hx). rewrite Forall_forall in IH.
      destruct (IH s Hs x Hx) as (A & B & E). destruct (flat_kl_split subs s Hs) as (A' & B' & E').
      cbn [kl]. rewrite E', E. exists (A' ++ A), (B ++ B' ++ (if sf then [] else [OBuildFile p c f a k subs r cr ra sf])).
      rewrite <- !app_assoc. reflexivity.
    + destruct sf; [destruct H|]. destruct H as [<-|[]]. exists [], []. rewrite app_nil_r. reflexivity.
  - cbn [kl] in H. apply in_app_or in H. destruct H as [H|H].
    + apply in_flat_map in H. destruct H as (s & Hs & Hx). rewrite Forall_forall in IH.
      destruct (IH s Hs x Hx) as (A & B & E). destruct (flat_kl_split subs s Hs) as (A' & B' & E').
      cbn [kl]. rewrite E', E. exists (A' ++ A), (B ++ B' ++ (if sf then [] else [OSubbuild f a k subs r ra sf])).
      rewrite <- !app_assoc. reflexivity.
    + destruct sf; [destruct H|]. destruct H as [<-|[]]. exists [], []. rewrite app_nil_r. reflexivity.
Qed.

Lemma forest_segment : forall R x, In x (flat_map kl R) -> exists A B, flat_map kl R = A ++ kl x ++ B.
Proof.
  intros R x H. apply in_flat_map in H. destruct H as (r & Hr & Hx).
  destruct (kl_segment r x Hx) as (A & B & E). destruct (flat_kl_split R r Hr) as (A' & B' & E').
  rewrite E', E. exists (A' ++ A), (B ++ B'). rewrite <- !app_assoc. reflexivity.
Qed.

Lemma pw_mid : forall {A} (E : A -> A -> bool) a b c, pw E (a ++ b ++ c) = true -> pw E b = true.
Proof.
  intros A E a b c H. rewrite pw_app in H. split_andb H. rewrite pw_app in H1. split_andb H1. assumption.
Qed.

Section Old.
Variable R : list op.
Hypothesis HG : forest_good R.
Hypothesis HW : forallb op_wf R = true.
Let L := flat_map kl R.

Lemma L_wf' : forall o, In o L -> op_wf o = true.
Proof. intros o Ho. pose proof (flat_kl_wf R HW) as H. rewrite forallb_forall in H. exact (H o Ho). Qed.

Lemma sents_sym : forall M, (forall o, In o M -> op_wf o = true) ->
  forall x y, In x (map fst (sents M)) -> In y (map fst (sents M)) -> py_eq x y = py_eq y x.
Proof.
  intros M HM x y Hx Hy.
  destruct (sents_key_In _ _ Hx) as (f1 & a1 & k1 & s1 & r1 & ra1 & sf1 & I1 & ->).
  destruct (sents_key_In _ _ Hy) as (f2 & a2 & k2 & s2 & r2 & ra2 & sf2 & I2 & ->).
  pose proof (HM _ I1) as W1. pose proof (HM _ I2) as W2. rewrite op_wf_sub_eq in W1, W2.
  split_andb W1. split_andb W2. apply py_eq_key_sym; assumption.
Qed.

(* the keys of the tree of a registered record, in claim order *)
Lemma tree_keys : forall x, In x L ->
  pw path_eqb (map fst (fents (pre x))) = true /\ pw py_eq (map fst (sents (pre x))) = true.
Proof.
  intros x Hx. destruct HG as (_ & G2 & G3 & _). fold L in G2, G3.
  destruct (forest_segment R x Hx) as (A & B & E). fold L in E.
  assert (Hsub : forall o, In o (kl x) -> In o L) by (intros o Ho; rewrite E; apply in_or_app; right; apply in_or_app; left; exact Ho).
  rewrite E in G2, G3. rewrite !fents_app, !map_app in G2. rewrite !sents_app, !map_app in G3.
  apply pw_mid in G2. apply pw_mid in G3.
  pose proof (Permutation_sym (pre_kl x)) as P.
  split.
  - apply (pw_perm path_eqb (map fst (fents (kl x)))); [apply Permutation_map; unfold fents; apply Permutation_flat_map; exact P | | exact G2].
    intros a b _ _. apply path_eqb_sym.
  - apply (pw_perm py_eq (map fst (sents (kl x)))); [apply Permutation_map; unfold sents; apply Permutation_flat_map; exact P | | exact G3].
    apply sents_sym. intros o Ho. apply L_wf'. apply Hsub. exact Ho.
Qed.

Lemma fentry_In : forall M p co, In (p, Some co) (fents M) ->
  In co M /\ exists c' f' a' k' subs' r' cr' ra' sf', co = OBuildFile p c' f' a' k' subs' r' cr' ra' sf'.
Proof.
  intros M p co H. unfold fents in H. apply in_flat_map in H. destruct H as (o & Ho & H).
  destruct o as [q r e | p0 c f a k subs r cr ra sf | f a k subs r ra sf]; cbn [fentry_of] in H; [destruct H | | destruct H].
  destruct H as [H|[]]. inversion H; subst. split; [exact Ho|]. repeat eexists.
Qed.

Theorem old_F : forall nm fv dirs, OldF (tables_of nm fv dirs R).
Proof.
  intros nm fv dirs p co H. destruct HG as (_ & G2 & G3 & _).
  destruct (tables_of_lists nm fv dirs R G2 G3) as [T1 _]. rewrite T1 in H. fold L in H.
  apply fg_some_in in H. destruct (fentry_In _ _ _ H) as (Hin & c' & f' & a' & k' & subs' & r' & cr' & ra' & sf' & ->).
  assert (Kk : keyed (OBuildFile p c' f' a' k' subs' r' cr' ra' sf') = true).
  { unfold L in Hin. apply in_flat_map in Hin. destruct Hin as (r0 & _ & Hin). exact (kl_keyed _ _ Hin). }
  cbn [keyed] in Kk. apply negb_true_iff in Kk. subst sf'.
  exists c', f', a', k', subs', r', cr', ra'. split; [reflexivity|].
  destruct (tree_keys _ Hin) as [K1 K2]. cbn [pre app] in K1, K2.
  unfold fents in K1. cbn [flat_map fentry_of app map fst] in K1. unfold sents in K2. cbn [flat_map sentry_of app] in K2.
  split; assumption.
Qed.

(* the first entry that matches *)
Lemma first_match : forall M key co, subs_get (sents M) key = Some (Some co) ->
  exists M1 M2 f a k subs r ra sf, co = OSubbuild f a k subs r ra sf /\ M = M1 ++ co :: M2 /\
    py_eq (subbuild_key f a k) key = true /\
    forallb (fun y => negb (py_eq y key)) (map fst (sents M1)) = true.
Proof.
  induction M as [|o M IH]; intros key co H; [discriminate H|].
  destruct o as [q r e | p c f a k subs r cr ra sf | f a k subs r ra sf].
  - destruct (IH key co H) as (M1 & M2 & f0 & a0 & k0 & s0 & r0 & ra0 & sf0 & E1 & E2 & E3 & E4).
    exists (OSimple q r e :: M1), M2, f0, a0, k0, s0, r0, ra0, sf0. rewrite E2. repeat split; assumption.
  - destruct (IH key co H) as (M1 & M2 & f0 & a0 & k0 & s0 & r0 & ra0 & sf0 & E1 & E2 & E3 & E4).
    exists (OBuildFile p c f a k subs r cr ra sf :: M1), M2, f0, a0, k0, s0, r0, ra0, sf0. rewrite E2. repeat split; assumption.
  - unfold sents in H. cbn [flat_map sentry_of app subs_get] in H. fold (sents M) in H.
    destruct (py_eq (subbuild_key f a k) key) eqn:E.
    + inversion H; subst co. exists [], M, f, a, k, subs, r, ra, sf. repeat split; try reflexivity. exact E.
    + destruct (IH key co H) as (M1 & M2 & f0 & a0 & k0 & s0 & r0 & ra0 & sf0 & E1 & E2 & E3 & E4).
      exists (OSubbuild f a k subs r ra sf :: M1), M2, f0, a0, k0, s0, r0, ra0, sf0. rewrite E2.
      split; [exact E1|]. split; [reflexivity|]. split; [exact E3|].
      unfold sents. cbn [flat_map sentry_of app map fst forallb]. rewrite E. exact E4.
Qed.

Lemma unique_split : forall (X1 X2 Y1 Y2 : list op) co, X1 ++ co :: X2 = Y1 ++ co :: Y2 ->
  ~ In co X1 -> ~ In co Y1 -> X1 = Y1.
Proof.
  induction X1 as [|x X1 IH]; intros X2 Y1 Y2 co E H1 H2.
  - destruct Y1 as [|y Y1]; [reflexivity|]. cbn [app] in E. inversion E; subst. exfalso. apply H2. left. reflexivity.
  - destruct Y1 as [|y Y1].
    + cbn [app] in E. inversion E; subst. exfalso. apply H1. left. reflexivity.
    + cbn [app] in E. inversion E; subst. f_equal. eapply IH; [eassumption| |]; intro Z; [apply H1 | apply H2]; right; exact Z.
Qed.

Theorem old_S : forall nm fv dirs, OldS (tables_of nm fv dirs R).
Proof.
  intros nm fv dirs key co H. destruct HG as (_ & G2 & G3 & _).
  destruct (tables_of_lists nm fv dirs R G2 G3) as [_ T2]. rewrite T2 in H. fold L in H, G3.
  destruct (first_match _ _ _ H) as (M1 & M2 & f & a & k & subs & r & ra & sf & -> & EL & Ek & Efirst).
  set (co := OSubbuild f a k subs r ra sf) in *.
  assert (Hin : In co L) by (rewrite EL; apply in_or_app; right; left; reflexivity).
  assert (Kk : keyed co = true).
  { unfold L in Hin. apply in_flat_map in Hin. destruct Hin as (r0 & _ & Hin). exact (kl_keyed _ _ Hin). }
  cbn [keyed co] in Kk. apply negb_true_iff in Kk. subst sf.
  exists f, a, k, subs, r, ra. split; [reflexivity|].
  destruct (tree_keys _ Hin) as [K1 K2]. cbn [pre co app] in K1, K2.
  unfold fents in K1. cbn [flat_map fentry_of app] in K1. fold (fents (flat_map pre subs)) in K1.
  unfold sents in K2. cbn [flat_map sentry_of app map fst pw] in K2. fold (sents (flat_map pre subs)) in K2.
  apply andb_true_iff in K2. destruct K2 as [_ K2].
  split; [exact K1|]. split; [exact K2|].
  (* the descendants are listed before the record *)
  destruct (forest_segment R co Hin) as (A & B & E). fold L in E. cbn [kl co] in E.
  pose proof (L_wf' co Hin) as Wco. unfold co in Wco. rewrite op_wf_sub_eq in Wco. split_andb Wco.
  pose proof (subbuild_key_refl f a k Wco Wco2) as Hrefl.
  assert (N1 : ~ In co M1).
  { intro Z. assert (K : In (subbuild_key f a k) (map fst (sents M1))) by (apply (sents_In M1 co); [exact Z | reflexivity]).
    rewrite forallb_forall in Efirst. specialize (Efirst _ K). rewrite Ek in Efirst. discriminate Efirst. }
  assert (N2 : ~ In co (A ++ flat_map kl subs)).
  { intro Z. rewrite E in G3. rewrite <- app_assoc in G3. rewrite app_assoc in G3.
    rewrite sents_app, map_app in G3. unfold sents at 2 in G3. cbn [flat_map sentry_of app map fst] in G3.
    fold (sents B) in G3.
    pose proof (pw_app_head _ _ _ _ G3) as K. rewrite forallb_forall in K.
    assert (Kin : In (subbuild_key f a k) (map fst (sents (A ++ flat_map kl subs)))) by (apply (sents_In _ co); [exact Z | reflexivity]).
    specialize (K _ Kin). rewrite Hrefl in K. discriminate K. }
  assert (EM : M1 = A ++ flat_map kl subs).
  { apply (unique_split M1 M2 (A ++ flat_map kl subs) B co); [|exact N1 | exact N2].
    rewrite <- EL, E. rewrite <- !app_assoc. reflexivity. }
  apply forallb_forall. intros y Hy. rewrite forallb_forall in Efirst. apply Efirst. rewrite EM, sents_app, map_app.
  apply in_or_app. right. eapply Permutation_in; [|exact Hy].
  apply Permutation_map. unfold sents. apply Permutation_flat_map. apply flat_pre_kl.
Qed.
End Old.

Print Assumptions old_F.
Print Assumptions old_S.
