(* Proofs/ViewClean.v — C04: when a build starts, the view IS the cleaned tree of the
   specification: for every path, the view tree of Build.start_world and
   Ref.ref_clean (previous outputs, cache file, emptied recorded directories removed)
   have the same entry.  So the first answers of a build are the specification's answers
   "as if the previous build's outputs, the cache file and the directories that build had
   created and that are now empty were already gone". *)
From Coq Require Import List String Ascii NArith ZArith Bool Arith Lia.
From FB.Base Require Import PyVal Fs.
From FB.Model Require Import Types Monad CreatedFiles BuildDirs SimpleOps Builder Persist Build.
From FB.Spec Require Import Ref.
From FB.Proofs Require Import FsLemmas CleanLaws JsonLaws CoreLawsChildren ViewDefs ViewLemmas ViewScan ViewQueries ViewInit.
Import ListNotations.
Open Scope list_scope.

(* ---- deepest first: a directory comes after everything below it ---- *)
Lemma string_length_app : forall a b, String.length (a ++ b)%string = String.length a + String.length b.
Proof. induction a as [|c a IH]; intro b; simpl; [reflexivity|]. rewrite IH. reflexivity. Qed.

Lemma plen_cons : forall n d, plen d < plen (n :: d).
Proof.
  intros n d. unfold plen, path_text. cbn [rev]. rewrite fold_left_app. cbn [fold_left].
  rewrite !string_length_app. simpl. apply Nat.lt_add_pos_r. apply Nat.lt_0_succ.
Qed.

Fixpoint sdesc (l : list path) : Prop :=
  match l with
  | [] => True
  | x :: r => (forall y, In y r -> plen y <= plen x) /\ sdesc r
  end.

Lemma insert_sdesc : forall x l, sdesc l -> sdesc (insert_by (fun a b => Nat.leb (plen b) (plen a)) x l).
Proof.
  intros x l. induction l as [|y ys IH]; intro H.
  - cbn. split; [intros ? []|exact I].
  - cbn [insert_by]. destruct H as [Hy Hs]. destruct (Nat.leb (plen y) (plen x)) eqn:E.
    + apply Nat.leb_le in E. cbn [sdesc]. split; [|split; assumption].
      intros z [<-|Hz]; [exact E|]. specialize (Hy z Hz). lia.
    + apply Nat.leb_gt in E. cbn [sdesc]. split; [|apply IH; exact Hs].
      intros z Hz. apply In_insert_by in Hz. destruct Hz as [<-|Hz]; [lia|apply Hy; exact Hz].
Qed.

Lemma deepest_first_sdesc : forall l, sdesc (deepest_first l).
Proof.
  induction l as [|a l IH]; [exact I|]. unfold deepest_first, sort_by. cbn [fold_right].
  apply insert_sdesc. exact IH.
Qed.

(* ---- phase 1: the outputs and the cache file ---- *)
Lemma fold_try_remove_lookup : forall l fs p,
  lookup (fold_left try_remove l fs) p = if isfile fs p && mem_path p l then None else lookup fs p.
Proof.
  intros l fs p. destruct (isfile fs p) eqn:Ef; cbn [andb].
  - destruct (mem_path p l) eqn:Em.
    + apply fold_try_remove_removes; [apply mem_path_In; exact Em|exact Ef].
    + apply (fold_frame try_remove try_remove_frame). intro H. apply mem_path_In in H. congruence.
  - unfold isfile in Ef. destruct (lookup fs p) as [[f|]|] eqn:El; [discriminate| |].
    + apply fold_try_remove_keeps_dir. exact El.
    + apply fold_try_remove_no_new. exact El.
Qed.

Lemma try_remove_lookup : forall fs q p,
  lookup (try_remove fs q) p = if isfile fs p && path_eqb p q then None else lookup fs p.
Proof.
  intros fs q p. destruct (path_eqb p q) eqn:E.
  - apply path_eqb_eq in E. subst q. destruct (isfile fs p) eqn:Ef; cbn [andb].
    + apply try_remove_removes. exact Ef.
    + unfold try_remove. rewrite Ef. reflexivity.
  - rewrite andb_false_r. apply try_remove_frame. apply path_eqb_neq. exact E.
Qed.

Lemma invis_cases : forall w a,
  invis w a = match lookup (w_fs w) a with Some (NFile _) => hid w a | Some NDir => dead w a | None => true end.
Proof. reflexivity. Qed.

Section Clean.
  Variables (w : world) (cachefile : path) (old : cache) (nm : string) (vers : pyval).
  Hypothesis Hwf : fs_wf (w_fs w).
  Hypothesis Hok : old_ok old cachefile.

  Local Notation W := (start_world w cachefile old nm vers).
  Local Notation fs := (w_fs w).
  Definition pv0 : prev := {| pv_name := nm; pv_outputs := cache_created_files old; pv_dirs := c_dirs old |}.
  Local Notation fs2 := (try_remove (fold_left try_remove (cache_created_files old) fs) cachefile).

  Lemma hidW_char : forall a, hid W a = path_eqb a cachefile || mem_path a (cache_created_files old).
  Proof.
    intro a. rewrite start_world_hidden. f_equal.
    destruct (cache_created_file old a) eqn:E.
    - symmetry. apply mem_path_In. apply (created_files_char _ _ (oo_keys _ _ Hok)). exact E.
    - destruct (mem_path a (cache_created_files old)) eqn:E2; [|reflexivity].
      apply mem_path_In in E2. apply (created_files_char _ _ (oo_keys _ _ Hok)) in E2. congruence.
  Qed.

  Lemma fs2_lookup : forall p, lookup fs2 p = if isfile fs p && hid W p then None else lookup fs p.
  Proof.
    intro p. rewrite try_remove_lookup. unfold isfile at 1. rewrite !fold_try_remove_lookup, hidW_char.
    unfold isfile. destruct (lookup fs p) as [[f|]|]; cbn [andb]; try reflexivity.
    destruct (mem_path p (cache_created_files old)); cbn [andb orb]; [rewrite orb_true_r; reflexivity|].
    rewrite orb_false_r. destruct (path_eqb p cachefile); reflexivity.
  Qed.

  Lemma trkW : forall x, trk (w_bd W) x = mem_path x (c_dirs old).
  Proof. intro x. apply start_world_candidates. Qed.

  (* ---- phase 2: the recorded directories, deepest first ---- *)
  Definition inv2 (L1 : list path) (T : fsT) : Prop :=
    forall p, lookup T p = if isdir fs p && dead W p && mem_path p L1 then None else lookup fs2 p.

  Lemma fs2_dir : forall p, isdir fs p = true -> lookup fs2 p = Some NDir.
  Proof.
    intros p H. rewrite fs2_lookup. unfold isfile. apply isdir_lookup in H. rewrite H. reflexivity.
  Qed.

  Lemma rmdir_phase : forall L2 L1 T,
    inv2 L1 T -> sdesc L2 ->
    (forall x, mem_path x (c_dirs old) = true -> In x L1 \/ In x L2) ->
    (forall x, In x L2 -> mem_path x (c_dirs old) = true) ->
    inv2 (L1 ++ L2) (fold_left try_rmdir L2 T).
  Proof.
    induction L2 as [|a L2 IH]; intros L1 T HI Hs Hall Hsub.
    - rewrite app_nil_r. exact HI.
    - cbn [fold_left]. destruct Hs as [Ha Hs].
      replace (L1 ++ a :: L2) with ((L1 ++ [a]) ++ L2) by (rewrite <- app_assoc; reflexivity).
      apply IH; [|exact Hs| |].
      2:{ intros x Hx. destruct (Hall x Hx) as [H|[<-|H]]; [left; apply in_or_app; left; exact H|left; apply in_or_app; right; left; reflexivity|right; exact H]. }
      2:{ intros x Hx. apply Hsub. right. exact Hx. }
      (* one step *)
      assert (Htr: trk (w_bd W) a = true) by (rewrite trkW; apply Hsub; left; reflexivity).
      assert (Hane: a <> []).
      { intro; subst a. apply (oo_root _ _ Hok). apply mem_path_In. apply Hsub. left. reflexivity. }
      assert (Hsame: try_rmdir T a = T -> (isdir fs a && dead W a = true -> mem_path a L1 = true) -> inv2 (L1 ++ [a]) (try_rmdir T a)).
      { intros E Hm p. rewrite E, (HI p).
        destruct (isdir fs p && dead W p) eqn:Ed; cbn [andb]; [|reflexivity].
        destruct (mem_path p L1) eqn:E1.
        - replace (mem_path p (L1 ++ [a])) with true; [reflexivity|]. symmetry. apply mem_path_In. apply in_or_app. left. apply mem_path_In. exact E1.
        - destruct (mem_path p (L1 ++ [a])) eqn:E2; [|reflexivity]. exfalso.
          apply mem_path_In in E2. apply in_app_iff in E2. destruct E2 as [E2|[E2|[]]].
          + apply mem_path_In in E2. congruence.
          + subst p. rewrite (Hm Ed) in E1. discriminate. }
      destruct (isdir fs a && dead W a) eqn:Ed.
      + apply andb_true_iff in Ed. destruct Ed as [Edir Edead].
        destruct (mem_path a L1) eqn:E1.
        * (* already removed *)
          apply Hsame; [|auto]. unfold try_rmdir, rmdir. destruct a as [|n d]; [reflexivity|].
          rewrite (HI (n :: d)), Edir, Edead, E1. reflexivity.
        * (* removed now *)
          assert (Hl: lookup T a = Some NDir).
          { rewrite (HI a), Edir, Edead, E1. cbn [andb]. apply fs2_dir. exact Edir. }
          assert (Hkids: children T a = []).
          { apply children_nil_iff. intro n. rewrite (HI (n :: a)).
            rewrite (dead_unfold W a) in Edead. rewrite Htr in Edead. cbn [andb] in Edead.
            cbn [start_world w_fs] in Edead. apply isdir_lookup in Edir. rewrite Edir in Edead.
            rewrite forallb_forall in Edead.
            destruct (lookup fs (n :: a)) as [x|] eqn:El.
            - assert (Hin: In n (children fs a)) by (apply children_In; unfold lexists; rewrite El; reflexivity).
              specialize (Edead n Hin). rewrite invis_cases in Edead. cbn [start_world w_fs] in Edead. rewrite El in Edead.
              destruct x as [f|].
              + (* hidden file *)
                assert (isdir fs (n :: a) = false) by (unfold isdir; rewrite El; reflexivity). rewrite H. cbn [andb].
                rewrite fs2_lookup. unfold isfile. rewrite El, Edead. reflexivity.
              + (* dead directory: recorded, deeper, hence already processed *)
                assert (Hd: isdir fs (n :: a) = true) by (unfold isdir; rewrite El; reflexivity).
                rewrite Hd, Edead. cbn [andb].
                destruct (dead_true_inv _ _ Edead) as [Ht _]. rewrite trkW in Ht.
                destruct (Hall _ Ht) as [H|[H|H]].
                * apply mem_path_In in H. rewrite H. reflexivity.
                * exfalso. apply (f_equal (@List.length _)) in H. simpl in H. lia.
                * exfalso. specialize (Ha _ H). pose proof (plen_cons n a). lia.
            - assert (isdir fs (n :: a) = false) by (unfold isdir; rewrite El; reflexivity). rewrite H. cbn [andb].
              rewrite fs2_lookup. unfold isfile. rewrite El. reflexivity. }
          assert (Ermdir: try_rmdir T a = upd a None T).
          { unfold try_rmdir, rmdir. destruct a as [|n d]; [contradiction|]. rewrite Hl, Hkids. reflexivity. }
          intro p. rewrite Ermdir. destruct (path_eqb p a) eqn:Ep.
          -- apply path_eqb_eq in Ep. subst p. rewrite lookup_upd_eq by exact Hane. rewrite Edir, Edead. cbn [andb].
             replace (mem_path a (L1 ++ [a])) with true; [reflexivity|]. symmetry. apply mem_path_In. apply in_or_app. right. left. reflexivity.
          -- apply path_eqb_neq in Ep. rewrite lookup_upd_neq by exact Ep. rewrite (HI p).
             replace (mem_path p (L1 ++ [a])) with (mem_path p L1); [reflexivity|].
             destruct (mem_path p L1) eqn:E2.
             ++ symmetry. apply mem_path_In. apply in_or_app. left. apply mem_path_In. exact E2.
             ++ destruct (mem_path p (L1 ++ [a])) eqn:E3; [|reflexivity]. exfalso.
                apply mem_path_In in E3. apply in_app_iff in E3. destruct E3 as [E3|[E3|[]]]; [apply mem_path_In in E3; congruence|congruence].
      + (* not removed by the view: rmdir must fail *)
        apply Hsame; [|discriminate].
        unfold try_rmdir, rmdir. destruct a as [|n d]; [reflexivity|].
        rewrite (HI (n :: d)), Ed. cbn [andb].
        destruct (isdir fs (n :: d)) eqn:Edir.
        * (* an alive recorded directory has a visible entry, which is still there *)
          cbn [andb] in Ed. rewrite (fs2_dir _ Edir).
          rewrite (dead_unfold W (n :: d)) in Ed. rewrite Htr in Ed. cbn [andb] in Ed.
          cbn [start_world w_fs] in Ed. pose proof Edir as Edir'. apply isdir_lookup in Edir'. rewrite Edir' in Ed.
          assert (Hex: exists m, In m (children fs (n :: d)) /\ invis W (m :: n :: d) = false).
          { clear -Ed. induction (children fs (n :: d)) as [|m l IHl]; [discriminate|]. cbn [forallb] in Ed.
            destruct (invis W (m :: n :: d)) eqn:E.
            - cbn [andb] in Ed. destruct (IHl Ed) as [m' [H1 H2]]. exists m'. split; [right; exact H1|exact H2].
            - exists m. split; [left; reflexivity|exact E]. }
          destruct Hex as [m [Hm Hv]].
          assert (Hc: lookup T (m :: n :: d) <> None).
          { rewrite (HI (m :: n :: d)). rewrite invis_cases in Hv. cbn [start_world w_fs] in Hv.
            apply children_In in Hm. unfold lexists in Hm.
            destruct (lookup fs (m :: n :: d)) as [[f|]|] eqn:El; try discriminate.
            - assert (isdir fs (m :: n :: d) = false) by (unfold isdir; rewrite El; reflexivity). rewrite H. cbn [andb].
              rewrite fs2_lookup. unfold isfile. rewrite El, Hv. cbn [andb]. discriminate.
            - rewrite Hv. rewrite andb_false_r. cbn [andb]. rewrite fs2_lookup. unfold isfile. rewrite El. discriminate. }
          destruct (children T (n :: d)) as [|m' l'] eqn:Ec; [|reflexivity].
          exfalso. apply Hc. apply (proj1 (children_nil_iff T (n :: d)) Ec).
        * rewrite fs2_lookup. unfold isdir in Edir. unfold isfile.
          destruct (lookup fs (n :: d)) as [[f|]|]; try discriminate; [destruct (hid W (n :: d))|]; reflexivity.
  Qed.

  Theorem view_start_is_ref_clean : forall p,
    lookup (view_fs W) p = lookup (ref_clean fs cachefile pv0) p.
  Proof.
    intro p. unfold ref_clean. cbn [pv0 pv_outputs pv_dirs].
    assert (HI0: inv2 [] fs2) by (intro q; cbn [mem_path]; rewrite andb_false_r; reflexivity).
    pose proof (rmdir_phase (deepest_first (c_dirs old)) [] fs2 HI0 (deepest_first_sdesc _)) as HR.
    cbn [app] in HR. rewrite HR.
    2:{ intros x Hx. right. unfold deepest_first. apply In_sort_by. apply mem_path_In. exact Hx. }
    2:{ intros x Hx. unfold deepest_first in Hx. apply In_sort_by in Hx. apply mem_path_In. exact Hx. }
    pose proof (BInv_start_world w cachefile old nm vers Hwf Hok) as HB.
    destruct p as [|n d].
    - (* the root *)
      cbn [lookup]. rewrite (dead_root _ HB). reflexivity.
    - rewrite lookup_view by discriminate. unfold visible. cbn [start_world w_fs].
      rewrite fs2_lookup. unfold isdir, isfile.
      destruct (lookup fs (n :: d)) as [[f|]|] eqn:El; cbn [andb].
      + destruct (hid W (n :: d)); reflexivity.
      + destruct (dead W (n :: d)) eqn:Ed; cbn [negb andb]; [|reflexivity].
        destruct (dead_true_inv _ _ Ed) as [Ht _]. rewrite trkW in Ht.
        replace (mem_path (n :: d) (deepest_first (c_dirs old))) with true; [reflexivity|].
        symmetry. apply mem_path_In. unfold deepest_first. apply In_sort_by. apply mem_path_In. exact Ht.
      + reflexivity.
  Qed.

  (* hence the first answers of the build are the specification's answers on the cleaned tree *)
  Corollary view_start_children : forall d, children (view_fs W) d = children (ref_clean fs cachefile pv0) d.
  Proof. intro d. apply children_ext. intro n. unfold lexists. rewrite view_start_is_ref_clean. reflexivity. Qed.
End Clean.

Print Assumptions view_start_is_ref_clean.
