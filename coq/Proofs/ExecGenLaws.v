(* Proofs/ExecGenLaws.v — the definitions regenerated from simple_operation_executor.py (Gen/ExecGen.v,
   written by tools/translate/executor_tr.py) equal the hand-written routines of Model/SimpleOps.v that
   the rest of the development uses.

   One lemma per generated routine, [forall args w, gen_ex_X args w = <model routine> args w] (pointwise
   in the world: no functional extensionality).  Where the generated shape differs from the model's, the
   lemma states the relation that holds:
   - gen_ex_list_dir returns the [list name], gen_ex_walk the [list pyval] of entries; the model's
     m_list_dir / m_walk return the Python list as a value: the lemmas compose the generated routine with
     [ret (PList ...)] (exactly what gen_ex_exec does with the result);
   - `results` of _append_walk is an accumulator: gen_ex_append_walk fuel d td cf acc returns
     [acc ++ r] where r is what the model's append_walk returns; the same for the loops
     (gen_ex_append_walk_loop1 = classify appended to both accumulators, _loop2 = the model's local
     fix [walk_go], gen_ex_list_dir_loop1 = filterM, gen_ex_list_dir_superset_loop1 = filter);
   - _assert_exists has no routine of its own in the model: the lemma gives its body, and
     gen_ex_get_size (= _assert_exists ;;; os.path.getsize) equals m_get_size, which inlines it;
   - fuel: the translator threads [fuel] through every caller of the recursive _append_walk; the model's
     m_walk / exec_query supply [walk_fuel] themselves (gen_ex_walk_fuel_eq holds for every fuel);
   - file_comparison_name is a [cmpmode] and (name, args) of exec a [query]: the two `raise ValueError`
     of the Python are unreachable at these types (the first is generated as a dead third branch, the
     second has no counterpart: the match on the query is total);
   - the constructor: gen_ex_init sets the five fields the executor owns (gen_ex_init_fields) and the
     world a build starts in is an instance of it (gen_ex_init_start_world).
   Imports Base, Model/{Types,Monad,CreatedFiles,BuildDirs,SimpleOps,Build} and Gen/ExecGen only
   (Build only for start_world). *)
From Coq Require Import List String NArith ZArith Bool Arith.
From FB.Base Require Import PyVal Fs.
From FB.Model Require Import Types Monad CreatedFiles BuildDirs SimpleOps Build.
From FB.Gen Require Import ExecGen.
Import ListNotations.
Open Scope list_scope.
Open Scope m_scope.

(* ---- the monad, pointwise (no functional extensionality) ---- *)
Lemma eg_bind_cong : forall {A B} (m1 m2 : M A) (f1 f2 : A -> M B),
  (forall w, m1 w = m2 w) -> (forall a w, f1 a w = f2 a w) -> forall w, bind m1 f1 w = bind m2 f2 w.
Proof.
  intros A B m1 m2 f1 f2 H1 H2 w. unfold bind. rewrite H1.
  destruct (m2 w) as [w' [a|e]]; [apply H2|reflexivity].
Qed.

Lemma eg_catch_cong : forall {A} (m1 m2 : M A) (h1 h2 : exn -> M A),
  (forall w, m1 w = m2 w) -> (forall e w, h1 e w = h2 e w) -> forall w, catch m1 h1 w = catch m2 h2 w.
Proof.
  intros A m1 m2 h1 h2 H1 H2 w. unfold catch. rewrite H1.
  destruct (m2 w) as [w' [a|e]]; [reflexivity|apply H2].
Qed.

Lemma eg_bind_assoc : forall {A B C} (m : M A) (f : A -> M B) (g : B -> M C) w,
  bind (bind m f) g w = bind m (fun a => bind (f a) g) w.
Proof. intros. unfold bind. destruct (m w) as [w' [a|e]]; reflexivity. Qed.

Lemma eg_bind_ret_r : forall {A} (m : M A) w, bind m (fun a => ret a) w = m w.
Proof. intros. unfold bind, ret. destruct (m w) as [w' [a|e]]; reflexivity. Qed.

Lemma eg_bind_ret_l : forall {A B} (a : A) (f : A -> M B) w, bind (ret a) f w = f a w.
Proof. reflexivity. Qed.

Lemma eg_bind_get : forall {B} (f : world -> M B) w, bind get f w = f w w.
Proof. reflexivity. Qed.

(* ================= comparison results ================= *)

Lemma gen_ex_file_metadata_eq : forall p w, gen_ex_file_metadata p w = file_metadata p w.
Proof.
  intros p w. unfold gen_ex_file_metadata, file_metadata, bind, m_stat, ret, raise.
  destruct (lookup (w_fs w) p) as [[f|]|]; reflexivity.
Qed.

Lemma gen_ex_file_hash_eq : forall p w, gen_ex_file_hash p w = file_hash p w.
Proof.
  intros p w. unfold gen_ex_file_hash, file_hash. cbv zeta. rewrite !eg_bind_get.
  destruct (hash_get (w_hash w) p) as [[h b]|]; cbn [fst snd].
  - destruct (Bool.eqb b (cache_has_file (w_new w) p)).
    + rewrite !eg_bind_get. destruct (isfile (w_fs w) p); cbn [negb]; [reflexivity|].
      rewrite eg_bind_get. destruct (isdir (w_fs w) p); reflexivity.
    + unfold bind, m_sha256_file, hash_put, modify, ret.
      destruct (lookup (w_fs w) p) as [[f|]|]; reflexivity.
  - unfold bind, m_sha256_file, hash_put, modify, ret.
    destruct (lookup (w_fs w) p) as [[f|]|]; reflexivity.
Qed.

(* file_comparison_name is a [cmpmode]: the ValueError branch of the Python (`else: raise ValueError`) is
   generated but unreachable, every value of the type being one of the two names *)
Lemma gen_ex_file_comparison_result_eq : forall p c w,
  gen_ex_file_comparison_result p c w = file_comparison_result p c w.
Proof.
  intros p [|] w; unfold gen_ex_file_comparison_result; cbn [cmp_eqb file_comparison_result].
  - apply gen_ex_file_metadata_eq.
  - apply gen_ex_file_hash_eq.
Qed.

Lemma gen_ex_is_cache_file_eq : forall p w, gen_ex_is_cache_file p w = is_cache_file p w.
Proof. reflexivity. Qed.

(* ================= the virtual view ================= *)

Lemma gen_ex_is_file_no_read_eq : forall p cf w, gen_ex_is_file_no_read p cf w = is_file_no_read p cf w.
Proof.
  intros p [c|] w; unfold gen_ex_is_file_no_read, is_file_no_read; cbn [cf_has_file cf_has_dir].
  - destruct (mem_path p (cf_files c)); [reflexivity|].
    destruct (mem_path p (cf_dirs c)); [reflexivity|].
    rewrite eg_bind_get. destruct (path_eqb p (w_cachefile w)); [reflexivity|].
    rewrite eg_bind_get. destruct (cache_has_file (w_new w) p).
    + rewrite eg_bind_get. destruct (cache_get_file (w_new w) p); reflexivity.
    + rewrite eg_bind_get. destruct (cache_created_file (w_old w) p); reflexivity.
  - rewrite eg_bind_get. destruct (path_eqb p (w_cachefile w)); [reflexivity|].
    rewrite eg_bind_get. destruct (cache_has_file (w_new w) p).
    + rewrite eg_bind_get. destruct (cache_get_file (w_new w) p); reflexivity.
    + rewrite eg_bind_get. destruct (cache_created_file (w_old w) p); reflexivity.
Qed.

Lemma gen_ex_is_file_eq : forall p cf w, gen_ex_is_file p cf w = m_is_file p cf w.
Proof.
  intros p cf w. unfold gen_ex_is_file, m_is_file. cbv zeta.
  apply eg_bind_cong; [apply gen_ex_is_file_no_read_eq|]. intros [b|] w'; reflexivity.
Qed.

Lemma gen_ex_is_dir_eq : forall p cf w, gen_ex_is_dir p cf w = m_is_dir p cf w.
Proof.
  intros p [c|] w; unfold gen_ex_is_dir, m_is_dir; cbv zeta; cbn [cf_has_file cf_has_dir].
  - destruct (mem_path p (cf_dirs c)); [reflexivity|].
    destruct (mem_path p (cf_files c)); reflexivity.
  - reflexivity.
Qed.

Lemma gen_ex_exists_eq : forall p cf w, gen_ex_exists p cf w = m_exists p cf w.
Proof.
  intros p cf w. unfold gen_ex_exists, m_exists.
  apply eg_bind_cong; [apply gen_ex_is_file_eq|]. intros [|] w'; [reflexivity|apply gen_ex_is_dir_eq].
Qed.

Lemma gen_ex_assert_is_dir_eq : forall p cf w, gen_ex_assert_is_dir p cf w = m_assert_is_dir p cf w.
Proof.
  intros p cf w. unfold gen_ex_assert_is_dir, m_assert_is_dir.
  apply eg_bind_cong; [apply gen_ex_is_dir_eq|]. intros [|] w'; cbn [negb]; [reflexivity|].
  apply eg_bind_cong; [apply gen_ex_is_file_eq|]. intros [|] w''; reflexivity.
Qed.

(* _assert_exists has no routine of its own in the model (m_get_size inlines it): this is its body *)
Lemma gen_ex_assert_exists_eq : forall p cf w,
  gen_ex_assert_exists p cf w
  = (e <- m_exists p cf ;; if negb e then raise (XOS XFileNotFound) else ret tt) w.
Proof.
  intros p cf w. unfold gen_ex_assert_exists.
  apply eg_bind_cong; [apply gen_ex_exists_eq|]. intros [|] w'; reflexivity.
Qed.

Lemma gen_ex_get_size_eq : forall p cf w, gen_ex_get_size p cf w = m_get_size p cf w.
Proof.
  intros p cf w. unfold gen_ex_get_size, m_get_size.
  rewrite (eg_bind_cong _ _ _ _ (gen_ex_assert_exists_eq p cf) (fun _ _ => eq_refl)).
  rewrite eg_bind_assoc. apply eg_bind_cong; [reflexivity|]. intros [|] w'; cbn [negb]; [|reflexivity].
  rewrite eg_bind_ret_l, eg_bind_get. unfold m_getsize, m_stat, bind, ret, raise.
  destruct (lookup (w_fs w') p) as [[f|]|]; reflexivity.
Qed.

Lemma gen_ex_read_eq : forall p c cf w, gen_ex_read p c cf w = m_read p c cf w.
Proof.
  intros p c cf w. unfold gen_ex_read, m_read. cbv zeta.
  apply eg_bind_cong; [apply gen_ex_is_file_no_read_eq|]. intros nr w1.
  assert (Hdir : forall w, (r <- gen_ex_is_dir p cf ;; if r then raise (XOS XIsADirectory) else raise (XOS XFileNotFound)) w
                         = (d <- m_is_dir p cf ;; if d then raise (XOS XIsADirectory) else @raise pyval (XOS XFileNotFound)) w).
  { intro w0. apply eg_bind_cong; [apply gen_ex_is_dir_eq|]. intros [|] w'; reflexivity. }
  (* the part after the first test: the handlers are compared exception by exception *)
  destruct nr as [[|]|].
  1, 3: rewrite eg_bind_ret_l; apply eg_bind_cong;
    [ apply eg_catch_cong; [apply gen_ex_file_comparison_result_eq|]; intros e w';
      destruct e as [n|k| |cl|s]; try reflexivity; destruct cl; try reflexivity; apply Hdir
    | intros result w'; destruct cf as [cc|]; cbn [cf_has_file]; [|reflexivity];
      destruct (mem_path p (cf_files cc)); reflexivity ].
  rewrite eg_bind_assoc. rewrite Hdir. apply eg_bind_cong; [reflexivity|]. intros [|] w'; reflexivity.
Qed.

(* ================= listings ================= *)

(* the loop of _list_dir_superset is pure: it appends the overlay's names that the real listing lacks *)
Lemma gen_ex_list_dir_superset_loop1_eq : forall ncs l acc w,
  gen_ex_list_dir_superset_loop1 ncs l acc w = (w, inl (acc ++ filter (fun n => negb (mem_str n ncs)) l)).
Proof.
  induction l as [|n r IH]; intros acc w; cbn [gen_ex_list_dir_superset_loop1 filter].
  - rewrite app_nil_r. reflexivity.
  - destruct (negb (mem_str n ncs)); cbv zeta; rewrite IH; [rewrite <- app_assoc|]; reflexivity.
Qed.

Lemma gen_ex_list_dir_superset_eq : forall d cf w, gen_ex_list_dir_superset d cf w = list_dir_superset d cf w.
Proof.
  intros d cf w. unfold gen_ex_list_dir_superset, list_dir_superset.
  assert (Hgo : forall names,
    (match cf with
     | Some c3_ =>
         let norm_cased_subfiles := names in
         subfiles <- gen_ex_list_dir_superset_loop1 norm_cased_subfiles (cf_list_dir c3_ d) names ;;
         ret (sort_strs subfiles)
     | None => ret (sort_strs names)
     end) w
    = (w, inl (sort_strs (names ++ match cf with
                                   | Some c => filter (fun n => negb (mem_str n names)) (cf_list_dir c d)
                                   | None => [] end)))).
  { intro names. destruct cf as [c|].
    - cbv zeta. unfold bind. rewrite gen_ex_list_dir_superset_loop1_eq. reflexivity.
    - rewrite app_nil_r. reflexivity. }
  unfold bind at 1. unfold catch, m_listdir.
  destruct (listdir (w_fs w) d) as [names|e].
  - apply Hgo.
  - destruct cf as [c|].
    + cbn [cf_has_dir] in *. destruct (mem_path d (cf_dirs c)); destruct e; cbn; try reflexivity; apply Hgo.
    + destruct e; reflexivity.
Qed.

Lemma gen_ex_list_dir_loop1_eq : forall d cf l acc w,
  gen_ex_list_dir_loop1 d cf l acc w
  = (r <- filterM (fun n => m_exists (n :: d) cf) l ;; ret (acc ++ r)) w.
Proof.
  induction l as [|n r IH]; intros acc w; cbn [gen_ex_list_dir_loop1 filterM].
  - rewrite eg_bind_ret_l, app_nil_r. reflexivity.
  - cbv zeta. rewrite eg_bind_assoc. apply eg_bind_cong; [apply gen_ex_exists_eq|]. intros b w1.
    rewrite eg_bind_assoc. destruct b; rewrite IH; (apply eg_bind_cong; [reflexivity|]); intros rest w2;
      rewrite eg_bind_ret_l; [rewrite <- app_assoc|]; reflexivity.
Qed.

(* list_dir returns the list of names; the model the Python list as a value *)
Lemma gen_ex_list_dir_eq : forall d cf w,
  (l <- gen_ex_list_dir d cf ;; ret (PList (map PStr l))) w = m_list_dir d cf w.
Proof.
  intros d cf w. unfold gen_ex_list_dir, m_list_dir. cbv zeta.
  rewrite eg_bind_assoc. apply eg_bind_cong; [apply gen_ex_assert_is_dir_eq|]. intros _ w1.
  rewrite eg_bind_assoc. apply eg_bind_cong; [apply gen_ex_list_dir_superset_eq|]. intros sup w2.
  rewrite eg_bind_assoc.
  rewrite (eg_bind_cong _ _ _ _ (gen_ex_list_dir_loop1_eq d cf sup []) (fun _ _ => eq_refl)).
  rewrite eg_bind_assoc. apply eg_bind_cong; [reflexivity|]. intros names w3. reflexivity.
Qed.

(* ================= walk ================= *)

(* first loop of _append_walk = the model's [classify], appended to the two accumulators *)
Lemma gen_ex_append_walk_loop1_eq : forall d cf l sd sf w,
  gen_ex_append_walk_loop1 d cf l sd sf w
  = (c <- classify d cf l ;; ret (sd ++ fst c, sf ++ snd c)) w.
Proof.
  induction l as [|n r IH]; intros sd sf w; cbn [gen_ex_append_walk_loop1 classify].
  - rewrite eg_bind_ret_l. cbn [fst snd]. rewrite !app_nil_r. reflexivity.
  - cbv zeta. rewrite eg_bind_assoc. apply eg_bind_cong; [apply gen_ex_is_file_eq|]. intros f w1.
    rewrite eg_bind_assoc. destruct f.
    + rewrite eg_bind_ret_l, eg_bind_assoc, IH. apply eg_bind_cong; [reflexivity|]. intros rest w2.
      rewrite eg_bind_ret_l. cbn [fst snd]. rewrite <- app_assoc. reflexivity.
    + apply eg_bind_cong; [apply gen_ex_is_dir_eq|]. intros isd w2.
      rewrite eg_bind_assoc. destruct isd; rewrite IH; (apply eg_bind_cong; [reflexivity|]); intros rest w3;
        rewrite eg_bind_ret_l; cbn [fst snd]; [rewrite <- app_assoc|]; reflexivity.
Qed.

(* the model's inner loop over the sub-directories (a local fix of append_walk) *)
Definition walk_go (fuel' : nat) (d : path) (top_down : bool) (cf : option cfiles) : list name -> M (list pyval) :=
  fix go (ds : list name) : M (list pyval) :=
    match ds with
    | [] => ret []
    | n :: r => a <- append_walk fuel' (n :: d) top_down cf ;; b <- go r ;; ret (a ++ b)
    end.

(* second loop: the recursive call is the parameter [self_rec]; os.path.islink is false in the model *)
Lemma gen_ex_append_walk_loop2_eq : forall fuel' d td cf rec,
  (forall d' acc w, rec d' td cf acc w = (r <- append_walk fuel' d' td cf ;; ret (acc ++ r)) w) ->
  forall ds acc w,
  gen_ex_append_walk_loop2 rec d td cf ds acc w = (b <- walk_go fuel' d td cf ds ;; ret (acc ++ b)) w.
Proof.
  intros fuel' d td cf rec H. induction ds as [|n r IH]; intros acc w; cbn [gen_ex_append_walk_loop2 walk_go].
  - rewrite eg_bind_ret_l, app_nil_r. reflexivity.
  - cbv zeta. rewrite eg_bind_get. unfold islink. cbn [negb].
    rewrite (eg_bind_cong _ _ _ _ (H (n :: d) acc) (fun _ _ => eq_refl)).
    rewrite !eg_bind_assoc. apply eg_bind_cong; [reflexivity|]. intros a w1.
    rewrite eg_bind_ret_l, IH, eg_bind_assoc. apply eg_bind_cong; [reflexivity|]. intros b w2.
    rewrite eg_bind_ret_l, app_assoc. reflexivity.
Qed.

(* _append_walk extends the accumulator `results` by what the model's append_walk returns *)
Lemma gen_ex_append_walk_eq : forall fuel d td cf acc w,
  gen_ex_append_walk fuel d td cf acc w = (r <- append_walk fuel d td cf ;; ret (acc ++ r)) w.
Proof.
  induction fuel as [|fuel' IHf]; intros d td cf acc w; [reflexivity|].
  cbn [gen_ex_append_walk append_walk]. cbv zeta.
  rewrite eg_bind_assoc. apply eg_bind_cong.
  { apply eg_catch_cong; [apply gen_ex_list_dir_superset_eq|]. intros e w1. destruct (is_os e); reflexivity. }
  intros sup w1.
  rewrite (eg_bind_cong _ _ _ _ (gen_ex_append_walk_loop1_eq d cf sup [] []) (fun _ _ => eq_refl)).
  rewrite !eg_bind_assoc. apply eg_bind_cong; [reflexivity|]. intros [sd sf] w2.
  rewrite eg_bind_ret_l. cbn [fst snd app].
  change (fix go (ds : list name) : M (list pyval) :=
            match ds with
            | [] => ret []
            | n :: r => a <- append_walk fuel' (n :: d) td cf ;; b <- go r ;; ret (a ++ b)
            end) with (walk_go fuel' d td cf).
  assert (Hrec : forall d' acc w, gen_ex_append_walk fuel' d' td cf acc w
                                  = (r <- append_walk fuel' d' td cf ;; ret (acc ++ r)) w) by (intros; apply IHf).
  destruct td; cbn [negb].
  - rewrite (eg_bind_cong _ _ _ _ (gen_ex_append_walk_loop2_eq fuel' d true cf _ Hrec sd _) (fun _ _ => eq_refl)).
    rewrite !eg_bind_assoc. apply eg_bind_cong; [reflexivity|]. intros below w3.
    rewrite !eg_bind_ret_l. unfold walk_entry. rewrite <- app_assoc. reflexivity.
  - rewrite (eg_bind_cong _ _ _ _ (gen_ex_append_walk_loop2_eq fuel' d false cf _ Hrec sd _) (fun _ _ => eq_refl)).
    rewrite !eg_bind_assoc. apply eg_bind_cong; [reflexivity|]. intros below w3.
    rewrite !eg_bind_ret_l. cbv zeta. unfold walk_entry. rewrite <- app_assoc. reflexivity.
Qed.

(* walk returns the list of entries; the model the Python list as a value; the model fixes the fuel *)
Lemma gen_ex_walk_fuel_eq : forall fuel d td cf w,
  (r <- gen_ex_walk fuel d td cf ;; ret (PList r)) w
  = (isd <- m_is_dir d cf ;;
     if isd then r <- append_walk fuel d td cf ;; ret (PList r) else ret (PList [])) w.
Proof.
  intros fuel d td cf w. unfold gen_ex_walk. cbv zeta.
  rewrite eg_bind_assoc. apply eg_bind_cong; [apply gen_ex_is_dir_eq|]. intros [|] w1; [|reflexivity].
  rewrite (eg_bind_cong _ _ _ _ (fun w => eg_bind_cong _ _ _ _ (gen_ex_append_walk_eq fuel d td cf []) (fun _ _ => eq_refl) w)
                        (fun _ _ => eq_refl)).
  rewrite !eg_bind_assoc. apply eg_bind_cong; [reflexivity|]. intros r w2. reflexivity.
Qed.

Lemma gen_ex_walk_eq : forall d td cf w,
  (r <- gen_ex_walk walk_fuel d td cf ;; ret (PList r)) w = m_walk d td cf w.
Proof. intros. apply gen_ex_walk_fuel_eq. Qed.

(* ================= exec ================= *)

Lemma gen_ex_exec_eq : forall q cf w, gen_ex_exec walk_fuel q cf w = exec_query q cf w.
Proof.
  intros q cf w. destruct q; cbn [gen_ex_exec exec_query].
  - apply eg_bind_cong; [apply gen_ex_exists_eq|reflexivity].
  - apply eg_bind_cong; [apply gen_ex_is_file_eq|reflexivity].
  - apply eg_bind_cong; [apply gen_ex_is_dir_eq|reflexivity].
  - apply gen_ex_list_dir_eq.
  - apply gen_ex_walk_eq.
  - rewrite eg_bind_ret_r. apply gen_ex_get_size_eq.
  - rewrite eg_bind_ret_r. apply gen_ex_read_eq.
Qed.

(* ================= the constructor ================= *)

(* __init__ stores its four arguments and an empty memo; nothing else of the world changes *)
Lemma gen_ex_init_fields : forall cachefile old new bd w,
  let w' := gen_ex_init cachefile old new bd w in
  w_cachefile w' = cachefile /\ w_old w' = old /\ w_new w' = new /\ w_bd w' = bd /\ w_hash w' = [] /\
  w_fs w' = w_fs w /\ w_clock w' = w_clock w /\ w_nextid w' = w_nextid w /\ w_backups w' = w_backups w /\
  w_lost w' = w_lost w /\ w_log w' = w_log w /\ w_faults w' = w_faults w /\ w_effects w' = w_effects w.
Proof. intros. repeat split. Qed.

(* the world a build starts in (Model/Build.v) is the constructor applied to the old cache, a fresh new
   cache and a fresh BuildDirs, the backup bookkeeping of FileBuilder being reset *)
Lemma gen_ex_init_start_world : forall w cachefile old nm vers,
  start_world w cachefile old nm vers
  = gen_ex_init cachefile old (Persist.empty_cache nm vers)
                (bd_init (c_dirs old) (Persist.cache_created_files old ++ [cachefile]))
                (set_lost [] (set_backups [] w)).
Proof. reflexivity. Qed.
