(* Proofs/SimB16.v — mechanism model vs Core, after a hit: the subbuild key tables (hypothesis
   SubTables of SimB12 / SimB13) from three properties of py_eq between a subbuild key and any
   value that are not proved anywhere (cf. ViewK8.key_eq_statement):
     symmetric;  transitive through a key;  two keys equal to the same value are equal.
   Given these, that the keys in the tables are subbuild keys, and that the keys of the adopted
   tree are pairwise different, the mechanism's table after Cache._use_cached_operation and
   Core's lists after adopt agree: SubTables holds.                                         *)
From Coq Require Import List String Ascii NArith ZArith Bool Arith Lia.
From FB.Base Require Import PyVal Fs.
From FB.Gen Require Import JsonUtilGen.
From FB.Spec Require Import JsonSpec Prog Ref Oracle Faithful.
From FB.Model Require Import Types Monad CreatedFiles BuildDirs SimpleOps Builder Persist Core.
From FB.Proofs Require Import FsLemmas CleanLaws JsonLaws ReplayLaws CoreLaws1 CoreLaws3 CoreLaws4 CoreLaws5 CoreNextRegs CoreNextKeys
     ViewDefs ViewH4 ViewH6 ViewK3 ViewK4 SimB7 SimB11 SimB12 SimB15.
Import ListNotations.
Open Scope list_scope.

Definition hasl (l : list (pyval * option op)) (k : pyval) : bool :=
  match subs_get l k with Some _ => true | None => false end.

Fixpoint kfresh (l : list pyval) : Prop :=
  match l with [] => True | x :: r => (forall y, In y r -> py_eq x y = false) /\ kfresh r end.

Lemma kfresh_app : forall a b, kfresh (a ++ b) <-> kfresh a /\ kfresh b /\ (forall x y, In x a -> In y b -> py_eq x y = false).
Proof.
  induction a as [|x a IH]; intro b; cbn [app kfresh].
  - split; [intro H; split; [exact I|split; [exact H|intros ? ? []]]|intros (_ & H & _); exact H].
  - rewrite IH. split.
    + intros (H1 & H2 & H3 & H4). split; [split; [intros y Hy; apply H1; apply in_or_app; left; exact Hy|exact H2]|].
      split; [exact H3|]. intros z y [<-|Hz] Hy; [apply H1; apply in_or_app; right; exact Hy|apply H4; assumption].
    + intros ((H1 & H2) & H3 & H4). split; [intros y Hy; apply in_app_iff in Hy; destruct Hy as [Hy|Hy]; [apply H1; exact Hy|apply H4; [left; reflexivity|exact Hy]]|].
      split; [exact H2|]. split; [exact H3|]. intros z y Hz Hy. apply H4; [right; exact Hz|exact Hy].
Qed.

Lemma subs_get_none_all : forall l k, subs_get l k = None -> forall q, In q (map fst l) -> py_eq q k = false.
Proof.
  induction l as [|[q0 o0] l IH]; intros k H q Hq; [destruct Hq|]. cbn [subs_get] in H. cbn [map fst] in Hq.
  destruct (py_eq q0 k) eqn:E; [discriminate|]. destruct Hq as [<-|Hq]; [exact E|apply (IH k H q Hq)].
Qed.

Lemma subs_set_keys : forall l key v x, In x (map fst (subs_set l key v)) -> In x (map fst l) \/ x = key.
Proof.
  induction l as [|[q0 o0] l IH]; intros key v x H; cbn [subs_set] in H.
  - destruct H as [<-|[]]. right. reflexivity.
  - destruct (py_eq q0 key); cbn [map fst] in H |- *.
    + left. exact H.
    + destruct H as [<-|H]; [left; left; reflexivity|]. destruct (IH key v x H) as [K|K]; [left; right; exact K|right; exact K].
Qed.

Lemma subs_set_fresh : forall l key v, (forall q, In q (map fst l) -> py_eq q key = false) -> subs_set l key v = l ++ [(key, v)].
Proof.
  induction l as [|[q0 o0] l IH]; intros key v H; cbn [subs_set app]; [reflexivity|].
  rewrite (H q0 (or_introl eq_refl)). rewrite IH; [reflexivity|]. intros q Hq. apply H. right. exact Hq.
Qed.

Lemma subs_get_app : forall a b k, subs_get (a ++ b) k = match subs_get a k with Some x => Some x | None => subs_get b k end.
Proof. induction a as [|[q o] a IH]; intros b k; cbn [app subs_get]; [reflexivity|]. destruct (py_eq q k); [reflexivity|apply IH]. Qed.

Lemma ks_get_app : forall a b k, ks_get (a ++ b) k = match ks_get a k with Some x => Some x | None => ks_get b k end.
Proof. induction a as [|[q o] a IH]; intros b k; cbn [app ks_get]; [reflexivity|]. destruct (py_eq q k); [reflexivity|apply IH]. Qed.

Definition lift (e : pyval * op) : pyval * option op := (fst e, Some (snd e)).

Lemma subs_get_lift : forall l k, subs_get (map lift l) k = match ks_get l k with Some x => Some (Some x) | None => None end.
Proof. induction l as [|[q o] l IH]; intro k; cbn [map lift subs_get ks_get fst snd]; [reflexivity|]. destruct (py_eq q k); [reflexivity|apply IH]. Qed.

Lemma ks_get_none_all : forall l k, (forall q, In q (map fst l) -> py_eq q k = false) -> ks_get l k = None.
Proof.
  induction l as [|[q0 o0] l IH]; intros k H; cbn [ks_get]; [reflexivity|].
  rewrite (H q0 (or_introl eq_refl)). apply IH. intros q Hq. apply H. right. exact Hq.
Qed.

Lemma subs_get_some_key : forall l k v, subs_get l k = Some v -> exists q, In q (map fst l) /\ py_eq q k = true.
Proof.
  induction l as [|[q0 o0] l IH]; intros k v H; cbn [subs_get] in H; [discriminate|].
  destruct (py_eq q0 k) eqn:E; [exists q0; split; [left; reflexivity|exact E]|].
  destruct (IH k v H) as [q [A B]]. exists q. split; [right; exact A|exact B].
Qed.

Section Keys.
  Hypothesis Hsym : forall x k, iskey x -> py_eq x k = py_eq k x.
  Hypothesis Htrans : forall x y k, iskey x -> iskey y -> py_eq x y = true -> py_eq y k = true -> py_eq x k = true.
  Hypothesis Hjoin : forall x y k, iskey x -> iskey y -> py_eq x k = true -> py_eq y k = true -> py_eq x y = true.

  Lemma hasl_set : forall l key v k, (forall q, In q (map fst l) -> iskey q) -> iskey key ->
    hasl (subs_set l key v) k = hasl l k || py_eq key k.
  Proof.
    induction l as [|[q0 o0] l IH]; intros key v k HI Hk; unfold hasl in *; cbn [subs_set subs_get].
    - destruct (py_eq key k); reflexivity.
    - destruct (py_eq q0 key) eqn:E; cbn [subs_get].
      + destruct (py_eq q0 k) eqn:E2; [reflexivity|]. cbn [orb].
        destruct (py_eq key k) eqn:E3; [|rewrite orb_false_r; reflexivity].
        rewrite (Htrans q0 key k (HI q0 (or_introl eq_refl)) Hk E E3) in E2. discriminate.
      + destruct (py_eq q0 k); [reflexivity|]. apply IH; [|exact Hk]. intros q Hq. apply HI. right. exact Hq.
  Qed.

  (* ---------------------------------------------------------------- claims *)
  Definition regS_ok (o : op) : Prop :=
    forall c1, (forall q, In q (map fst (c_subs c1)) -> iskey q) -> (forall q, In q (snd (tree_claims o)) -> iskey q) ->
      (forall k, hasl (c_subs (register_op c1 o)) k = existsb (fun x => py_eq x k) (snd (tree_claims o)) || hasl (c_subs c1) k) /\
      (forall q, In q (map fst (c_subs (register_op c1 o))) -> iskey q).

  Lemma regS_fold : forall subs, Forall regS_ok subs ->
    forall c1, (forall q, In q (map fst (c_subs c1)) -> iskey q) -> (forall q, In q (snd (cll subs)) -> iskey q) ->
      (forall k, hasl (c_subs (fold_left register_op subs c1)) k = existsb (fun x => py_eq x k) (snd (cll subs)) || hasl (c_subs c1) k) /\
      (forall q, In q (map fst (c_subs (fold_left register_op subs c1))) -> iskey q).
  Proof.
    intros subs H. induction H as [|x rest Hx Hrest IH]; intros c1 HI HK; cbn [fold_left].
    - split; [intro k; reflexivity|exact HI].
    - rewrite cll_cons in HK |- *. cbn [snd] in HK |- *.
      destruct (Hx c1 HI (fun q Hq => HK q (in_or_app _ _ _ (or_introl Hq)))) as [A1 A2].
      destruct (IH (register_op c1 x) A2 (fun q Hq => HK q (in_or_app _ _ _ (or_intror Hq)))) as [B1 B2].
      split; [|exact B2]. intro k. rewrite B1, A1, existsb_app_b.
      destruct (existsb (fun x0 => py_eq x0 k) (snd (tree_claims x))), (existsb (fun x0 => py_eq x0 k) (snd (cll rest))); reflexivity.
  Qed.

  Lemma regS_all : forall o, regS_ok o.
  Proof.
    induction o as [q0 r e|p c0 f a k0 subs r cr ra sf IH|f a k0 subs r ra sf IH] using op_ind'; intros c1 HI HK.
    - split; [intro k; reflexivity|exact HI].
    - cbn [register_op]. rewrite tree_claims_BF in HK |- *.
      assert (HK': forall q, In q (snd (cll subs)) -> iskey q) by (destruct sf; exact HK).
      destruct sf; [apply (regS_fold subs IH c1 HI HK')|]. cbn [snd].
      destruct (regS_fold subs IH (cache_with c1 (files_set (c_files c1) p (Some (OBuildFile p c0 f a k0 subs r cr ra false))) (c_subs c1) (c_dirs c1) (c_built c1)) HI HK') as [B1 B2].
      split; [exact B1|exact B2].
    - cbn [register_op]. rewrite tree_claims_SB in HK |- *. destruct sf; [apply (regS_fold subs IH c1 HI HK)|].
      cbn [snd] in HK |- *.
      set (c2 := cache_with c1 (c_files c1) (subs_set (c_subs c1) (subbuild_key f a k0) (Some (OSubbuild f a k0 subs r ra false))) (c_dirs c1) (c_built c1)).
      assert (HI2: forall q, In q (map fst (c_subs c2)) -> iskey q).
      { intros q Hq. cbn [c2 c_subs cache_with] in Hq. destruct (subs_set_keys _ _ _ _ Hq) as [K| ->]; [apply HI; exact K|apply HK; left; reflexivity]. }
      destruct (regS_fold subs IH c2 HI2 (fun q Hq => HK q (or_intror Hq))) as [B1 B2].
      split; [|exact B2]. intro k. rewrite B1. cbn [existsb c2 c_subs cache_with].
      rewrite (hasl_set _ _ _ k HI (HK _ (or_introl eq_refl))).
      destruct (py_eq (subbuild_key f a k0) k), (existsb (fun x => py_eq x k) (snd (cll subs))), (hasl (c_subs c1) k); reflexivity.
  Qed.

  (* ---------------------------------------------------------------- records *)
  Definition regT_ok (o : op) : Prop :=
    forall c1, (forall q k2, In q (map fst (c_subs c1)) -> In k2 (snd (tree_claims o)) -> py_eq q k2 = false) ->
      kfresh (snd (tree_claims o)) ->
      c_subs (register_op c1 o) = c_subs c1 ++ map lift (snd (tree_regs o)).

  Lemma keys_lift : forall l, map fst (map lift l) = map fst l.
  Proof. induction l as [|[q o] l IH]; [reflexivity|]. cbn [map lift fst]. rewrite IH. reflexivity. Qed.

  Lemma rll_keysS : forall subs, map fst (snd (rll subs)) = snd (cll subs).
  Proof. induction subs as [|z r IHr]; [reflexivity|]. rewrite rll_cons, cll_cons. cbn [snd]. rewrite map_app, tree_regs_keys, IHr. reflexivity. Qed.

  Lemma regT_fold : forall subs, Forall regT_ok subs ->
    forall c1, (forall q k2, In q (map fst (c_subs c1)) -> In k2 (snd (cll subs)) -> py_eq q k2 = false) ->
      kfresh (snd (cll subs)) ->
      c_subs (fold_left register_op subs c1) = c_subs c1 ++ map lift (snd (rll subs)).
  Proof.
    intros subs H. induction H as [|x rest Hx Hrest IH]; intros c1 HF HK; cbn [fold_left].
    - cbn. rewrite app_nil_r. reflexivity.
    - rewrite cll_cons in HF, HK. cbn [snd] in HF, HK. apply kfresh_app in HK. destruct HK as (K1 & K2 & K3).
      rewrite rll_cons. cbn [snd]. rewrite map_app, app_assoc.
      rewrite <- (Hx c1 (fun q k2 Hq Hk => HF q k2 Hq (in_or_app _ _ _ (or_introl Hk))) K1).
      apply IH; [|exact K2]. intros q k2 Hq Hk.
      rewrite (Hx c1 (fun q0 k3 Hq0 Hk3 => HF q0 k3 Hq0 (in_or_app _ _ _ (or_introl Hk3))) K1) in Hq.
      rewrite map_app, keys_lift, tree_regs_keys in Hq. apply in_app_iff in Hq. destruct Hq as [Hq|Hq].
      + apply HF; [exact Hq|apply in_or_app; right; exact Hk].
      + apply K3; assumption.
  Qed.

  Lemma regT_all : forall o, regT_ok o.
  Proof.
    induction o as [q0 r e|p c0 f a k0 subs r cr ra sf IH|f a k0 subs r ra sf IH] using op_ind'; intros c1 HF HK.
    - cbn. rewrite app_nil_r. reflexivity.
    - cbn [register_op]. rewrite tree_regs_BF. rewrite tree_claims_BF in HF, HK.
      assert (HF': forall q k2, In q (map fst (c_subs c1)) -> In k2 (snd (cll subs)) -> py_eq q k2 = false) by (destruct sf; exact HF).
      assert (HK': kfresh (snd (cll subs))) by (destruct sf; exact HK).
      destruct sf; cbn [snd]; [apply (regT_fold subs IH); assumption|].
      apply (regT_fold subs IH (cache_with c1 (files_set (c_files c1) p (Some (OBuildFile p c0 f a k0 subs r cr ra false))) (c_subs c1) (c_dirs c1) (c_built c1)) HF' HK').
    - cbn [register_op]. rewrite tree_regs_SB. rewrite tree_claims_SB in HF, HK. destruct sf; [apply (regT_fold subs IH); assumption|].
      cbn [snd] in HF, HK |- *. destruct HK as [K1 K2].
      set (key := subbuild_key f a k0) in *. set (oo := OSubbuild f a k0 subs r ra false).
      set (c2 := cache_with c1 (c_files c1) (subs_set (c_subs c1) key (Some oo)) (c_dirs c1) (c_built c1)).
      assert (E2: c_subs c2 = c_subs c1 ++ [(key, Some oo)]).
      { cbn [c2 c_subs cache_with]. apply subs_set_fresh. intros q Hq. apply HF; [exact Hq|left; reflexivity]. }
      rewrite (regT_fold subs IH c2).
      + rewrite E2, <- app_assoc. reflexivity.
      + intros q k2 Hq Hk. rewrite E2, map_app in Hq. apply in_app_iff in Hq. destruct Hq as [Hq|[<-|[]]].
        * apply HF; [exact Hq|right; exact Hk].
        * apply K1. exact Hk.
      + exact K2.
  Qed.

  (* the keys registered by a reusable tree are not in the table *)
  Lemma reusable_keys : forall fs new cfp o, reusable fs new cfp o = true ->
    forall key, In key (snd (tree_claims o)) -> cache_has_subbuild new key = false.
  Proof.
    intros fs new cfp. induction o as [q r e|p c f a0 k subs r cr ra sf IH|f a0 k subs r ra sf IH] using op_ind'; intros H key Hk; cbn [reusable] in H.
    - destruct Hk.
    - repeat (apply andb_true_iff in H; destruct H as [H ?]). rewrite tree_claims_BF in Hk.
      assert (Hk': In key (snd (cll subs))) by (destruct sf; exact Hk).
      clear -IH H0 Hk'. induction IH as [|x rest Hx Hrest IHl]; [destruct Hk'|]. cbn [forallb] in H0. apply andb_true_iff in H0. destruct H0 as [A B].
      rewrite cll_cons in Hk'. cbn [snd] in Hk'. apply in_app_iff in Hk'. destruct Hk' as [K|K]; [apply (Hx A key K)|apply (IHl B K)].
    - repeat (apply andb_true_iff in H; destruct H as [H ?]). apply negb_true_iff in H. subst sf. rewrite tree_claims_SB in Hk. cbn [snd] in Hk.
      destruct Hk as [<-|Hk]; [apply negb_true_iff; assumption|].
      clear -IH H0 Hk. induction IH as [|x rest Hx Hrest IHl]; [destruct Hk|]. cbn [forallb] in H0. apply andb_true_iff in H0. destruct H0 as [A B].
      rewrite cll_cons in Hk. cbn [snd] in Hk. apply in_app_iff in Hk. destruct Hk as [K|K]; [apply (Hx A key K)|apply (IHl B K)].
  Qed.

  (* ---------------------------------------------------------------- SubTables *)
  Theorem sub_tables : forall W w s r o,
    Sim3 W w s ->
    (forall x, In x (map fst (c_subs (w_new w))) \/ In x (k_claimedS s) \/ In x (snd (tree_claims o)) -> iskey x) ->
    reusable (w_fs w) (w_new w) (w_cachefile w) o = true ->
    kfresh (snd (tree_claims o)) ->
    SubTables (register_op (w_new w) o) (adopt s r o).
  Proof.
    intros W w s r o HS HI Hreu HK. split.
    - (* claims *)
      intro k. cbn [adopt ks_with k_claimedS]. rewrite existsb_app_b, (s3_claimsS _ _ _ HS k).
      destruct (regS_all o (w_new w) (fun q Hq => HI q (or_introl Hq)) (fun q Hq => HI q (or_intror (or_intror Hq)))) as [A _].
      unfold cache_has_subbuild. fold (hasl (c_subs (register_op (w_new w) o)) k). fold (hasl (c_subs (w_new w)) k). rewrite A.
      f_equal. clear -HI Hsym. assert (G: forall l, (forall x, In x l -> iskey x) -> existsb (py_eq k) l = existsb (fun x => py_eq x k) l).
      { induction l as [|x l IH]; intro H; [reflexivity|]. cbn [existsb]. rewrite (Hsym x k (H x (or_introl eq_refl))), IH; [reflexivity|].
        intros y Hy. apply H. right. exact Hy. }
      apply G. intros x Hx. apply HI. right. right. exact Hx.
    - (* records *)
      intro k. cbn [adopt ks_with k_newS].
      assert (HF: forall q k2, In q (map fst (c_subs (w_new w))) -> In k2 (snd (tree_claims o)) -> py_eq q k2 = false).
      { intros q k2 Hq Hk. pose proof (reusable_keys _ _ _ o Hreu k2 Hk) as K. unfold cache_has_subbuild in K.
        destruct (subs_get (c_subs (w_new w)) k2) eqn:E; [discriminate|]. apply (subs_get_none_all _ _ E q Hq). }
      rewrite (regT_all o (w_new w) HF HK), subs_get_app, ks_get_app, subs_get_lift.
      pose proof (s3_recS _ _ _ HS k) as Kk.
      destruct (subs_get (c_subs (w_new w)) k) as [[o1|]|] eqn:E1.
      + destruct (ks_get (k_newS s) k); [exact Kk|contradiction].
      + (* a subbuild in progress equal to k: no registered key is equal to k *)
        destruct (ks_get (k_newS s) k); [contradiction|].
        rewrite ks_get_none_all; [exact I|]. intros q Hq. rewrite tree_regs_keys in Hq.
        destruct (py_eq q k) eqn:Eq; [|reflexivity]. exfalso.
        destruct (subs_get_some_key _ _ _ E1) as [q1 [Hq1 Eq1]].
        pose proof (Hjoin q1 q k (HI q1 (or_introl Hq1)) (HI q (or_intror (or_intror Hq))) Eq1 Eq) as K.
        rewrite (HF q1 q Hq1 Hq) in K. discriminate.
      + destruct (ks_get (k_newS s) k); [contradiction|].
        destruct (ks_get (snd (tree_regs o)) k); [apply rec_rel_refl|exact I].
  Qed.
End Keys.

Print Assumptions sub_tables.
