(* Proofs/ViewInit.v — C04: the invariant BInv holds in the world in which a build
   starts (Build.start_world: bd_init from the old cache), for any well-formed tree, and
   still holds when the root function is entered provided the directory of the cache file
   is visible (no directory has to be made for the cache file). *)
From Coq Require Import List String Ascii NArith ZArith Bool Arith Lia.
From FB.Base Require Import PyVal Fs.
From FB.Model Require Import Types Monad CreatedFiles BuildDirs SimpleOps Builder Persist Build.
From FB.Proofs Require Import FsLemmas CleanLaws JsonLaws CoreLawsChildren ViewDefs ViewLemmas ViewScan ViewQueries.
Import ListNotations.
Open Scope list_scope.

(* what is assumed of the previous build's cache (it was written by a build, which never
   makes a path both a directory and an output, never creates the sandbox root, and keeps
   its records in a dict) *)
Record old_ok (old : cache) (cachefile : path) : Prop := {
  oo_keys : NoDup (map fst (c_files old));
  oo_root : ~ In [] (c_dirs old);
  oo_dirs : forall a d, In a (cache_created_files old) \/ a = cachefile -> In d (c_dirs old) -> ~ suffix a d
}.

Lemma mem_fold_add : forall l acc x,
  mem_path x (fold_left (fun acc p => add_path p acc) l acc) = mem_path x acc || mem_path x l.
Proof.
  induction l as [|p l IH]; intros acc x; cbn [fold_left mem_path].
  - rewrite orb_false_r. reflexivity.
  - rewrite IH, mem_add_path. destruct (mem_path x acc), (path_eqb p x), (mem_path x l); reflexivity.
Qed.

Lemma files_get_In : forall l p v, NoDup (map fst l) -> (In (p, v) l <-> files_get l p = Some v).
Proof.
  induction l as [|[q o] l IH]; intros p v Hnd; cbn [files_get].
  - split; [intros []|discriminate].
  - cbn [map fst] in Hnd. inversion Hnd as [|? ? Hq Hnd']; subst.
    destruct (path_eqb q p) eqn:E.
    + apply path_eqb_eq in E. subst q. split.
      * intros [H|H]; [inversion H; reflexivity|]. exfalso. apply Hq. apply in_map_iff. exists (p, v). auto.
      * intro H. inversion H. left. reflexivity.
    + rewrite <- (IH p v Hnd'). split; [|intro H; right; exact H]. intros [H|H]; [|exact H].
      inversion H; subst. rewrite path_eqb_refl in E. discriminate.
Qed.

Lemma created_files_char : forall c p, NoDup (map fst (c_files c)) ->
  (In p (cache_created_files c) <-> cache_created_file c p = true).
Proof.
  intros c p Hnd. unfold cache_created_files, cache_created_file, cache_get_file. rewrite in_flat_map. split.
  - intros [[q v] [Hin Hp]]. cbn [fst snd] in Hp. destruct v as [o|]; [|destruct Hp].
    destruct (op_raised o) eqn:Er; [destruct Hp|]. destruct Hp as [<-|[]].
    apply (files_get_In _ _ _ Hnd) in Hin. rewrite Hin, Er. reflexivity.
  - destruct (files_get (c_files c) p) as [[o|]|] eqn:E; try discriminate. intro H.
    apply (files_get_In _ _ _ Hnd) in E. exists (p, Some o). split; [exact E|]. cbn [fst snd].
    apply negb_true_iff in H. rewrite H. left. reflexivity.
Qed.

Lemma in_counts_init : forall ds fsl x, in_counts (bd_init ds fsl) x = false.
Proof. reflexivity. Qed.

Theorem BInv_start_world : forall w cachefile old nm vers,
  fs_wf (w_fs w) -> old_ok old cachefile -> BInv (start_world w cachefile old nm vers).
Proof.
  intros w cachefile old nm vers Hwf Hok.
  assert (Hmaybe: forall x, mem_path x (bd_maybe (bd_init (c_dirs old) (cache_created_files old ++ [cachefile]))) = true
                            <-> In x (c_dirs old)).
  { intro x. cbn [bd_init bd_maybe]. rewrite mem_fold_add. cbn [mem_path orb]. apply mem_path_In. }
  assert (Hrf: forall x, mem_path x (bd_removed_files (bd_init (c_dirs old) (cache_created_files old ++ [cachefile]))) = true
                         <-> In x (cache_created_files old) \/ x = cachefile).
  { intro x. cbn [bd_init bd_removed_files]. rewrite mem_fold_add. cbn [mem_path orb].
    rewrite mem_path_In, in_app_iff. cbn [In]. split; intros [H|H]; auto. destruct H as [H|[]]; auto. }
  assert (Hhid: forall a, hid (start_world w cachefile old nm vers) a = true <->
                          In a (cache_created_files old) \/ a = cachefile).
  { intro a. unfold hid. cbn [start_world w_cachefile w_new w_old empty_cache].
    unfold cache_has_file. cbn [c_files files_get].
    rewrite orb_true_iff, path_eqb_eq, (created_files_char _ _ (oo_keys _ _ Hok)). tauto. }
  constructor; cbn [start_world w_fs w_bd].
  - exact Hwf.
  - unfold trk. rewrite in_counts_init. cbn [negb bd_init bd_removed mem_path]. rewrite orb_false_r, andb_true_r.
    destruct (mem_path [] (bd_maybe (bd_init (c_dirs old) (cache_created_files old ++ [cachefile])))) eqn:E; [|reflexivity].
    exfalso. apply (oo_root _ _ Hok). apply Hmaybe. exact E.
  - intros n d H. rewrite in_counts_init in H. discriminate.
  - intros d H. cbn in H. discriminate.
  - intros a H1 _ _. apply Hhid. apply Hrf. exact H1.
  - intros a _ H2 _. apply Hrf. apply Hhid. exact H2.
  - intros a d H1 [H2|H2]; [|cbn in H2; discriminate].
    apply (oo_dirs _ _ Hok a d); [apply Hrf; exact H1|apply Hmaybe; exact H2].
  - intros q x H. cbn in H. discriminate.
Qed.

(* in that world the candidates are exactly the previous build's directories, so [dead]
   is the notion of the brief: recorded as created by the previous build, and everything
   physically in it is a previous output, the cache file, or again such a directory *)
Theorem start_world_candidates : forall w cachefile old nm vers x,
  trk (w_bd (start_world w cachefile old nm vers)) x = mem_path x (c_dirs old).
Proof.
  intros. unfold trk. cbn [start_world w_bd]. rewrite in_counts_init. cbn [negb bd_init bd_removed bd_maybe mem_path].
  rewrite orb_false_r, andb_true_r, mem_fold_add. reflexivity.
Qed.

Theorem start_world_hidden : forall w cachefile old nm vers p,
  hid (start_world w cachefile old nm vers) p = path_eqb p cachefile || cache_created_file old p.
Proof. reflexivity. Qed.

(* ------------------------------------------------------------------ entering the root function *)
Lemma set_log_BInv : forall w l, BInv w -> BInv (set_log l w).
Proof. intros w l H. destruct H. constructor; assumption. Qed.

Lemma dirs_to_make_visible : forall w d, BInv w -> pok w d -> vdir w d = true ->
  yields (dirs_to_make d None) w (inl []).
Proof.
  intros w d HB Hp Hd. destruct d as [|n d]; cbn [dirs_to_make].
  - eapply yields_bind; [apply m_is_dir_view; assumption|]. intros w1 G1. rewrite Hd.
    eapply yields_bind; [apply yields_ret; apply (good_BInv _ _ G1)|]. intros w2 G2. cbn.
    apply yields_ret. apply (good_BInv _ _ G2).
  - eapply yields_bind; [apply m_is_dir_view; assumption|]. intros w1 G1. rewrite Hd.
    eapply yields_bind; [apply yields_ret; apply (good_BInv _ _ G1)|]. intros w2 G2. cbn.
    apply yields_ret. apply (good_BInv _ _ G2).
Qed.

(* the world in which the root function starts, when no directory has to be made for the cache file *)
Theorem BInv_root_entry : forall w cachefile old nm vers,
  fs_wf (w_fs w) -> old_ok old cachefile -> path_ok (dirname cachefile) = true ->
  vdir (start_world w cachefile old nm vers) (dirname cachefile) = true ->
  exists w1, make_dirs (dirname cachefile) (start_world w cachefile old nm vers) = (w1, inl []) /\
             good (start_world w cachefile old nm vers) w1 /\
             BInv (set_log (LInvoke "<root>" None PNone PNone :: w_log w1) w1).
Proof.
  intros w cachefile old nm vers Hwf Hok Hp Hd.
  pose proof (BInv_start_world w cachefile old nm vers Hwf Hok) as HB.
  destruct (dirs_to_make_visible _ _ HB (or_introl Hp) Hd) as [w1 [E1 G1]].
  exists w1. split; [|split; [exact G1|apply set_log_BInv; apply (good_BInv _ _ G1)]].
  unfold make_dirs, bind. rewrite E1. reflexivity.
Qed.

Print Assumptions BInv_start_world.
Print Assumptions BInv_root_entry.
