(* Proofs/SimH5.v — the keys of each table of the new cache are pairwise different, along any
   run [run_K].  Generic part: a reflexive-transitive relation on caches that is respected by
   the three table updates (files_set, files_del, subs_set) is respected by a whole run
   (Section CachePO; same script as SimD6 / SimH3.run_meta). *)
From Coq Require Import List String Ascii NArith ZArith Bool Arith Lia.
From FB.Base Require Import PyVal Fs.
From FB.Gen Require Import JsonUtilGen.
From FB.Spec Require Import JsonSpec Prog.
From FB.Model Require Import Types Monad CreatedFiles BuildDirs SimpleOps Builder PathNorm Persist PersistSpec Build Run.
From FB.Proofs Require Import FsLemmas JsonLaws PersistLaws ReplayLaws BuildFileLaws
  CacheRTDefs CacheRTForest SimH2 SimH4.
Import ListNotations.
Local Open Scope list_scope.
Local Open Scope m_scope.

Section CachePO.
Variable R : cache -> cache -> Prop.
Hypothesis R_refl : forall c, R c c.
Hypothesis R_trans : forall a b c, R a b -> R b c -> R a c.
Hypothesis R_fset : forall c p v b, R c (cache_with c (files_set (c_files c) p v) (c_subs c) (c_dirs c) b).
Hypothesis R_fdel : forall c p b, R c (cache_with c (files_del (c_files c) p) (c_subs c) (c_dirs c) b).
Hypothesis R_sset : forall c k v, R c (cache_with c (c_files c) (subs_set (c_subs c) k v) (c_dirs c) (c_built c)).

Definition cr (w w' : world) : Prop := R (w_new w) (w_new w').
Lemma cr_refl : forall w, cr w w.
Proof. intro w. apply R_refl. Qed.
Lemma cr_trans : forall a b c, cr a b -> cr b c -> cr a c.
Proof. intros a b c. apply R_trans. Qed.
Definition crPO : PO := {| rel := cr; po_refl := cr_refl; po_trans := cr_trans |}.

Lemma new_cr : forall w w', newPO w w' -> crPO w w'.
Proof. cbn. unfold new_same, cr. intros w w' (H & _). rewrite H. apply R_refl. Qed.
Lemma svb_cr : forall w w', svbPO w w' -> crPO w w'.
Proof. intros w w' H. apply new_cr, svb_new, H. Qed.

#[local] Hint Extern 8 (pres crPO _) => apply (pres_weaken svbPO crPO _ _ svb_cr) : pres.
#[local] Hint Resolve m_handle_dir_exists_svb m_is_removed_svb is_file_no_read_svb is_cache_file_svb
  file_metadata_svb file_hash_svb list_dir_superset_svb file_comparison_result_svb
  m_is_file_svb m_is_dir_svb m_exists_svb noneable_cmp_svb version_equal_svb
  is_build_file_cached_svb dirs_to_make_svb build_file_cache_lookup_svb subbuild_cache_lookup_svb
  m_bd_started_svb m_bd_error_svb new_assert_no_file_svb new_assert_no_subbuild_svb : pres.

Lemma newc : forall X (m : world -> world * X), pres newPO m -> pres crPO m.
Proof. intros X m. apply pres_weaken. exact new_cr. Qed.

Lemma prepare_cr : forall p, pres crPO (prepare_file_creation p).
Proof. intro p. apply newc, prepare_file_creation_new. Qed.
Lemma backup_cr : forall p, pres crPO (back_up_and_remove p).
Proof. intro p. apply newc, back_up_and_remove_new. Qed.
Lemma try_remove_cr : forall p, pres crPO (try_to_remove_file p).
Proof. intro p. apply newc, try_to_remove_file_new. Qed.
Lemma apply_cached_cr : forall o, pres crPO (apply_cached_subs_of o).
Proof. intro o. apply newc, apply_cached_subs_of_new. Qed.
#[local] Hint Resolve prepare_cr backup_cr try_remove_cr apply_cached_cr : pres.

Lemma modify_new_cr : forall f : world -> cache, (forall w, R (w_new w) (f w)) ->
  pres crPO (modify (fun w => set_new (f w) w)).
Proof. intros f Hf. apply pres_modify. intro w. exact (Hf w). Qed.

Lemma new_start_building_file_cr : forall p, pres crPO (new_start_building_file p).
Proof. intro p. unfold new_start_building_file. pres_auto. apply modify_new_cr. intro w. apply R_fset. Qed.
Lemma new_abort_building_file_cr : forall p, pres crPO (new_abort_building_file p).
Proof. intro p. unfold new_abort_building_file. apply modify_new_cr. intro w. apply R_fdel. Qed.
Lemma new_finish_building_file_cr : forall p o, pres crPO (new_finish_building_file p o).
Proof. intros p o. unfold new_finish_building_file. apply modify_new_cr. intro w. apply R_fset. Qed.
Lemma new_start_subbuild_cr : forall k, pres crPO (new_start_subbuild k).
Proof. intro k. unfold new_start_subbuild. pres_auto. apply modify_new_cr. intro w. apply R_sset. Qed.
Lemma new_finish_subbuild_cr : forall k o, pres crPO (new_finish_subbuild k o).
Proof. intros k o. unfold new_finish_subbuild. apply modify_new_cr. intro w. apply R_sset. Qed.

Lemma register_op_cr : forall o c, R c (register_op c o).
Proof.
  induction o as [q r e | p c0 f a k subs r cr0 ra sf IH | f a k subs r ra sf IH] using op_ind'; intro c; cbn [register_op].
  - apply R_refl.
  - match goal with |- context [fold_left register_op subs ?C] =>
      assert (K : R c C) by (destruct sf; [apply R_refl | apply R_fset]); revert K; generalize C end.
    induction IH as [|s rest Hs HF IHl]; intros c1 K; cbn [fold_left]; [exact K|].
    apply IHl. eapply R_trans; [exact K | apply Hs].
  - match goal with |- context [fold_left register_op subs ?C] =>
      assert (K : R c C) by (destruct sf; [apply R_refl | apply R_sset]); revert K; generalize C end.
    induction IH as [|s rest Hs HF IHl]; intros c1 K; cbn [fold_left]; [exact K|].
    apply IHl. eapply R_trans; [exact K | apply Hs].
Qed.

Lemma new_use_cached_operation_cr : forall o, pres crPO (new_use_cached_operation o).
Proof.
  intros o w w' r H. unfold new_use_cached_operation in H. unfold bind, get in H.
  destruct (assert_no_repeats (w_new w) o).
  - unfold put in H. inversion H; subst. exact (register_op_cr o (w_new w)).
  - inversion H; subst. apply cr_refl.
Qed.
#[local] Hint Resolve new_start_building_file_cr new_abort_building_file_cr
  new_finish_building_file_cr new_start_subbuild_cr new_finish_subbuild_cr
  new_use_cached_operation_cr : pres.

Lemma bf_reuse_cr : forall p c f sa skw cached, pres crPO (bf_reuse p c f sa skw cached).
Proof. intros p c f sa skw cached. unfold bf_reuse. pres_auto. Qed.
Lemma bf_claim_cr : forall p, pres crPO (bf_claim p).
Proof. intro p. unfold bf_claim. pres_auto. Qed.
#[local] Hint Resolve bf_reuse_cr bf_claim_cr : pres.
Lemma bf_setup_cr : forall p c f sa skw, pres crPO (bf_setup p c f sa skw).
Proof. intros p c f sa skw. unfold bf_setup. pres_auto. Qed.
Lemma sb_setup_cr : forall f sa skw, pres crPO (sb_setup f sa skw).
Proof. intros f sa skw. unfold sb_setup. cbv zeta. pres_auto. Qed.

Lemma bf_fail_cr : forall p c f sa skw subs e w w' r,
  bf_fail p c f sa skw subs e w = (w', r) -> cr w w'.
Proof.
  intros p c f sa skw subs e w w' r H. unfold bf_fail in H. cbv zeta in H.
  match type of H with (match ?X with _ => _ end) = _ => destruct X as [w1 [u|e1]] eqn:E end;
    inversion H; subst.
  all: refine ((_ : pres crPO _) _ _ _ E); pres_auto.
Qed.

Lemma bf_finish_cr : forall p c f sa skw res subs, pres crPO (bf_finish p c f sa skw res subs).
Proof.
  intros p c f sa skw res subs w w' r H. unfold bf_finish in H.
  assert (F : forall e w0, bf_fail p c f sa skw subs e w0 = (w', r) -> cr w0 w').
  { intros e w0 H0. eapply bf_fail_cr; eassumption. }
  destruct res as [v|e]; [|eapply F; eassumption].
  destruct (sanitize v) as [sv|]; [|eapply F; eassumption].
  destruct (noneable_cmp p c w) as [w4 [cmp|e]] eqn:E.
  - assert (Q : cr w w4) by (apply svb_cr; exact (noneable_cmp_svb p c w w4 _ E)).
    eapply cr_trans; [exact Q|].
    destruct cmp; try (eapply F; eassumption).
    all: cbv zeta in H;
      match type of H with (match ?X with _ => _ end) = _ => destruct X as [w5 u5] eqn:E5 end;
      inversion H; subst; exact (new_finish_building_file_cr _ _ _ _ _ E5).
  - assert (Q : cr w w4) by (apply svb_cr; exact (noneable_cmp_svb p c w w4 _ E)).
    eapply cr_trans; [exact Q|]. eapply F; eassumption.
Qed.

Lemma sb_finish_cr : forall f sa skw res subs, pres crPO (sb_finish f sa skw res subs).
Proof.
  intros f sa skw res subs w w' r H. unfold sb_finish in H. cbv zeta in H.
  destruct res as [v|e]; [destruct (sanitize v)|];
    match type of H with (match ?X with _ => _ end) = _ => destruct X as [w5 u5] eqn:E5 end;
    inversion H; subst; exact (new_finish_subbuild_cr _ _ _ _ _ E5).
Qed.

Lemma m_build_file_cr : forall p c f a kw (fn : path -> pyval -> pyval -> body),
  (forall sa skw, pres crPO (fn p sa skw)) -> pres crPO (m_build_file p c f a kw fn).
Proof.
  intros p c f a kw fn Hfn w w' r H. rewrite m_build_file_unfold in H.
  destruct (sanitize a) as [sa|]; [|inversion H; subst; apply cr_refl].
  destruct (sanitize kw) as [skw|]; [|inversion H; subst; apply cr_refl].
  destruct (bf_setup p c f sa skw w) as [w1 [[[o|[e o]]|]|e]] eqn:Es;
    pose proof (bf_setup_cr p c f sa skw w w1 _ Es) as Q1; try (inversion H; subst; exact Q1).
  unfold bf_rebuild in H. destruct (fn p sa skw (bf_invoke_world p f sa skw w1)) as [w3 [res subs]] eqn:Ef.
  pose proof (Hfn sa skw _ _ _ Ef) as Q2. pose proof (bf_finish_cr p c f sa skw res subs w3 w' r H) as Q3.
  eapply cr_trans; [exact Q1|]. eapply cr_trans; [|exact Q3]. exact Q2.
Qed.

Lemma m_subbuild_cr : forall f a kw (fn : pyval -> pyval -> body),
  (forall sa skw, pres crPO (fn sa skw)) -> pres crPO (m_subbuild f a kw fn).
Proof.
  intros f a kw fn Hfn w w' r H. rewrite m_subbuild_unfold in H.
  destruct (sanitize a) as [sa|]; [|inversion H; subst; apply cr_refl].
  destruct (sanitize kw) as [skw|]; [|inversion H; subst; apply cr_refl].
  destruct (sb_setup f sa skw w) as [w1 [[[o|[e o]]|]|e]] eqn:Es;
    pose proof (sb_setup_cr f sa skw w w1 _ Es) as Q1; try (inversion H; subst; exact Q1).
  unfold sb_rebuild in H. destruct (fn sa skw (sb_invoke_world f sa skw w1)) as [w3 [res subs]] eqn:Ef.
  pose proof (Hfn sa skw _ _ _ Ef) as Q2. pose proof (sb_finish_cr f sa skw res subs w3 w' r H) as Q3.
  eapply cr_trans; [exact Q1|]. eapply cr_trans; [|exact Q3]. exact Q2.
Qed.

Lemma cr_log_answer : forall q r w, cr w (log_answer q r w).
Proof.
  intros q r w. unfold log_answer, cr.
  repeat match goal with |- context [match ?y with _ => _ end] => destruct y end; apply R_refl.
Qed.

Theorem run_cr : forall pr target subs, pres crPO (run pr target subs).
Proof.
  induction pr as [v | e | stale q k IH | c k IH | stale p c f a kw fn IHfn k IHk | stale f a kw fn IHfn k IHk];
    intros target subs w w' r H; cbn [run] in H; change (cr w w').
  - inversion H; subst. apply cr_refl.
  - inversion H; subst. apply cr_refl.
  - destruct stale; [eapply IH; exact H|].
    destruct (m_query q w) as [w1 [r1 o]] eqn:E.
    pose proof (svb_cr _ _ (m_query_svb _ _ _ _ E)) as Q1. apply IH in H.
    eapply cr_trans; [exact Q1|]. eapply cr_trans; [apply cr_log_answer|exact H].
  - destruct target as [t|]; [|eapply IH; exact H].
    destruct (write_file (w_fs w) t c None (N.succ (w_clock w)) (w_nextid w)) as [fs'|e] eqn:E; [|inversion H; subst; apply cr_refl].
    apply IH in H. eapply cr_trans; [|exact H]. apply R_refl.
  - destruct stale; [eapply IHk; exact H|].
    match type of H with (let '(_, _) := ?X in _) = _ => destruct X as [w1 [r1 o]] eqn:E end.
    apply IHk in H. eapply cr_trans; [|exact H].
    refine (m_build_file_cr p c f a kw _ _ w w1 _ E). intros sa skw. apply IHfn.
  - destruct stale; [eapply IHk; exact H|].
    match type of H with (let '(_, _) := ?X in _) = _ => destruct X as [w1 [r1 o]] eqn:E end.
    apply IHk in H. eapply cr_trans; [|exact H].
    refine (m_subbuild_cr f a kw _ _ w w1 _ E). intros sa skw. apply IHfn.
Qed.
End CachePO.

(* ------------------------------------------------------------------ pairwise different keys *)
Definition KI (c : cache) : Prop :=
  pw path_eqb (map fst (c_files c)) = true /\ pw py_eq (map fst (c_subs c)) = true.
Definition kr (c c' : cache) : Prop := KI c -> KI c'.

Lemma pw_snoc : forall {A} (E : A -> A -> bool) l x,
  pw E (l ++ [x]) = pw E l && forallb (fun y => negb (E y x)) l.
Proof.
  intros A E l x. rewrite pw_app, forallb_single. cbn [pw forallb]. rewrite andb_true_r. reflexivity.
Qed.

Lemma pw_sub : forall {A} (E : A -> A -> bool) (P : A -> bool) l, pw E l = true -> pw E (filter P l) = true.
Proof.
  intros A E P l. induction l as [|x l IH]; intro H; [reflexivity|].
  cbn [pw] in H. apply andb_true_iff in H. destruct H as [H1 H2]. cbn [filter].
  destruct (P x); [|apply IH; exact H2]. cbn [pw]. rewrite (IH H2), andb_true_r.
  apply forallb_forall. intros y Hy. apply filter_In in Hy. destruct Hy as [Hy _].
  rewrite forallb_forall in H1. exact (H1 y Hy).
Qed.

Lemma keys_files_set : forall l p v,
  map fst (files_set l p v) = map fst l \/
  (map fst (files_set l p v) = map fst l ++ [p] /\ forallb (fun q => negb (path_eqb q p)) (map fst l) = true).
Proof.
  induction l as [|[q o] l IH]; intros p v; cbn [files_set map fst].
  - right. split; reflexivity.
  - destruct (path_eqb q p) eqn:E; [left; reflexivity|]. cbn [map fst].
    destruct (IH p v) as [K|[K1 K2]]; [left; rewrite K; reflexivity|].
    right. rewrite K1. split; [reflexivity|]. cbn [forallb]. rewrite E, K2. reflexivity.
Qed.
Lemma keys_subs_set : forall l p v,
  map fst (subs_set l p v) = map fst l \/
  (map fst (subs_set l p v) = map fst l ++ [p] /\ forallb (fun q => negb (py_eq q p)) (map fst l) = true).
Proof.
  induction l as [|[q o] l IH]; intros p v; cbn [subs_set map fst].
  - right. split; reflexivity.
  - destruct (py_eq q p) eqn:E; [left; reflexivity|]. cbn [map fst].
    destruct (IH p v) as [K|[K1 K2]]; [left; rewrite K; reflexivity|].
    right. rewrite K1. split; [reflexivity|]. cbn [forallb]. rewrite E, K2. reflexivity.
Qed.
Lemma keys_files_del : forall l p, map fst (files_del l p) = filter (fun q => negb (path_eqb q p)) (map fst l).
Proof.
  induction l as [|[q o] l IH]; intro p; cbn [files_del map fst filter]; [reflexivity|].
  destruct (path_eqb q p); cbn [negb]; [apply IH|]. cbn [map fst]. rewrite IH. reflexivity.
Qed.

Lemma kr_refl : forall c, kr c c.
Proof. intros c H. exact H. Qed.
Lemma kr_trans : forall a b c, kr a b -> kr b c -> kr a c.
Proof. intros a b c A B H. apply B, A, H. Qed.
Lemma kr_fset : forall c p v b, kr c (cache_with c (files_set (c_files c) p v) (c_subs c) (c_dirs c) b).
Proof.
  intros c p v b [A B]. split; cbn [cache_with c_files c_subs]; [|exact B].
  destruct (keys_files_set (c_files c) p v) as [K|[K1 K2]]; [rewrite K; exact A|].
  rewrite K1, pw_snoc, A, K2. reflexivity.
Qed.
Lemma kr_fdel : forall c p b, kr c (cache_with c (files_del (c_files c) p) (c_subs c) (c_dirs c) b).
Proof.
  intros c p b [A B]. split; cbn [cache_with c_files c_subs]; [|exact B].
  rewrite keys_files_del. apply pw_sub. exact A.
Qed.
Lemma kr_sset : forall c k v, kr c (cache_with c (c_files c) (subs_set (c_subs c) k v) (c_dirs c) (c_built c)).
Proof.
  intros c k v [A B]. split; cbn [cache_with c_files c_subs]; [exact A|].
  destruct (keys_subs_set (c_subs c) k v) as [K|[K1 K2]]; [rewrite K; exact B|].
  rewrite K1, pw_snoc, B, K2. reflexivity.
Qed.

Theorem run_K : forall pr target subs w w' r, run pr target subs w = (w', r) -> KI (w_new w) -> KI (w_new w').
Proof.
  intros pr target subs w w' r H.
  exact (run_cr kr kr_refl kr_trans kr_fset kr_fdel kr_sset pr target subs w w' r H).
Qed.

Print Assumptions run_K.
