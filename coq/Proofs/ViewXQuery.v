(* Proofs/ViewXQuery.v — C04, reachability: queries (live or against an overlay) and the
   cache lookup / replay machinery preserve XInv T, for every T. *)
From Coq Require Import List String Ascii NArith ZArith Bool Arith Lia.
From FB.Base Require Import PyVal Fs.
From FB.Model Require Import Types Monad CreatedFiles BuildDirs SimpleOps Builder.
From FB.Proofs Require Import FsLemmas CleanLaws JsonLaws CoreLawsChildren ReplayLaws
     ViewDefs ViewLemmas ViewScan ViewQueries ViewAnswers ViewPres ViewXDefs ViewXFrame.
Import ListNotations.
Open Scope list_scope.
Open Scope m_scope.

(* ------------------------------------------------------------------ one query step on XInv *)
Lemma invis_same : forall w w' a, same_view w w' -> invis w' a = invis w a.
Proof.
  intros w w' a S. unfold invis, invis_gen. fold (dead w' a) (dead w a).
  rewrite (sv_fs _ _ S), (sv_dead _ _ S), (same_view_hid _ _ _ S). reflexivity.
Qed.

Lemma XInv_query_step : forall T w w',
  XInv T w -> good w w' -> sfr (w_fs w) (w_bd w) (w_bd w') -> SInv (w_bd w') -> XInv T w'.
Proof.
  intros T w w' HX G F HS. pose proof (good_sv _ _ G) as S. pose proof (q_counts _ _ _ F) as Ec.
  assert (Hic: forall x, in_counts (w_bd w') x = in_counts (w_bd w) x) by (intro x; unfold in_counts; rewrite Ec; reflexivity).
  constructor.
  - apply (good_BInv _ _ G).
  - exact HS.
  - unfold ckeys. rewrite Ec. apply (x_keys _ _ HX).
  - intro x. rewrite Ec. apply (x_pos _ _ HX).
  - intro x. unfold cval, nk, ckeys. rewrite Ec. apply (x_count _ _ HX).
  - intros x H. rewrite Hic in H. rewrite (sv_fs _ _ S). apply (x_cdir _ _ HX x H).
  - intros x H1 H2. rewrite Hic in H1. rewrite (q_created _ _ _ F) in H2. rewrite (sv_fs _ _ S). apply (x_ncdir _ _ HX x H1 H2).
  - intros t Ht. destruct (x_tgt _ _ HX t Ht) as (A & B & C). split; [exact A|]. split.
    + destruct (mem_path t (bd_removed_files (w_bd w'))) eqn:E; [|reflexivity]. apply (q_rf _ _ _ F) in E. congruence.
    + rewrite (sv_fs _ _ S), Hic, (q_created _ _ _ F), (sv_dead _ _ S). exact C.
  - intros x n H1 H2. rewrite (q_created _ _ _ F) in H1. rewrite (sv_fs _ _ S) in H2.
    rewrite Hic, (invis_same _ _ _ S). apply (x_kids _ _ HX x n H1 H2).
  - intros x n H1 H2. rewrite (q_created _ _ _ F) in *. rewrite Hic in H2. apply (x_cc _ _ HX x n H1 H2).
  - intros a H1 H2 H3. rewrite (sv_fs _ _ S) in H1. rewrite (same_view_hid _ _ _ S) in H2.
    pose proof (x_hid_rf _ _ HX a H1 H2 H3) as H4.
    destruct (mem_path a (bd_removed_files (w_bd w'))) eqn:E; [reflexivity|]. exfalso.
    destruct (q_del _ _ _ F a H4 E) as [H|[t [Ht Hs]]]; [congruence|].
    apply (bi_rf_trk _ (x_binv _ _ HX) a t H4 Ht Hs).
  - intros a H1 H2. rewrite (sv_fs _ _ S) in H2. rewrite (same_view_hid _ _ _ S).
    apply (x_rf_hid _ _ HX a (q_rf _ _ _ F a H1) H2).
Qed.

(* ------------------------------------------------------------------ the syntactic frame as a preorder on worlds *)
Definition frel (w w' : world) : Prop :=
  fs_wf (w_fs w) -> SInv (w_bd w) -> cup (w_bd w) ->
  w_fs w' = w_fs w /\ sfr (w_fs w) (w_bd w) (w_bd w') /\ SInv (w_bd w').

Lemma frel_refl : forall w, frel w w.
Proof. intros w _ HS _. split; [reflexivity|]. split; [apply sfr_refl|exact HS]. Qed.

Lemma frel_trans : forall a b c, frel a b -> frel b c -> frel a c.
Proof.
  intros a b c H1 H2 W HS Hup. destruct (H1 W HS Hup) as (E1 & F1 & S1).
  assert (W': fs_wf (w_fs b)) by (rewrite E1; exact W).
  assert (Hup': cup (w_bd b)) by (eapply cup_sfr; eassumption).
  destruct (H2 W' S1 Hup') as (E2 & F2 & S2). rewrite E1 in F2.
  split; [congruence|]. split; [eapply sfr_trans; eassumption|exact S2].
Qed.

Definition fPO : PO := {| rel := frel; po_refl := frel_refl; po_trans := frel_trans |}.

Ltac pure_f f := intros w w' r H; unfold f in H; repeat dm H; inversion H; subst; apply frel_refl.

Lemma m_is_removed_f : forall d, pres fPO (m_is_removed d).
Proof.
  intros d w w' r H W HS Hup. unfold m_is_removed in H.
  pose proof (is_removed_frame (w_fs w) W (w_bd w) d HS Hup) as P.
  destruct (is_removed (w_fs w) (w_bd w) d) as [b' r'|b' e|]; inversion H; subst; cbn [w_fs w_bd set_bd].
  - destruct P as [P1 P2]. auto.
  - destruct P as [P1 P2]. auto.
  - split; [reflexivity|]. split; [apply sfr_refl|exact HS].
Qed.

Lemma is_file_no_read_f : forall p cf, pres fPO (is_file_no_read p cf).
Proof. intros p cf. cbn. pure_f is_file_no_read. Qed.
Lemma is_cache_file_f : forall p, pres fPO (is_cache_file p).
Proof. intros p. cbn. pure_f is_cache_file. Qed.
Lemma file_metadata_f : forall p, pres fPO (file_metadata p).
Proof. intros p. cbn. pure_f file_metadata. Qed.
Lemma list_dir_superset_f : forall d cf, pres fPO (list_dir_superset d cf).
Proof. intros d cf. cbn. pure_f list_dir_superset. Qed.

Lemma set_hash_f : forall h w, frel w (set_hash h w).
Proof. intros h w _ HS _. split; [reflexivity|]. split; [apply sfr_refl|exact HS]. Qed.

Lemma file_hash_f : forall p, pres fPO (file_hash p).
Proof.
  intros p w w' r H. unfold file_hash in H. repeat dm H; inversion H; subst; first [apply frel_refl|apply set_hash_f].
Qed.

Lemma version_equal_f : forall f, pres fPO (version_equal f).
Proof. intros f w w' r H. unfold version_equal, bind, get, ret in H. inversion H; subst. apply frel_refl. Qed.

#[local] Hint Resolve m_is_removed_f is_file_no_read_f is_cache_file_f file_metadata_f list_dir_superset_f
  file_hash_f version_equal_f : pres.

Lemma file_comparison_result_f : forall p c, pres fPO (file_comparison_result p c).
Proof. intros p c. unfold file_comparison_result. pres_auto. Qed.
#[local] Hint Resolve file_comparison_result_f : pres.

(* handle_dir_exists on a directory of the disk *)
Lemma hde_f : forall w p w1 r, lookup (w_fs w) p = Some NDir -> m_handle_dir_exists p w = (w1, r) -> frel w w1.
Proof.
  intros w p w1 r Hp H W HS Hup. unfold m_handle_dir_exists, modify in H. inversion H; subst. cbn [w_fs w_bd set_bd].
  split; [reflexivity|]. split.
  - apply hde_sfr. intros a Ha _. left. eapply dir_chain_notfile; eassumption.
  - apply hde_SInv; assumption.
Qed.

Lemma parent_dir_of_file : forall fs p, fs_wf fs -> isfile fs p = true -> lookup fs (dirname p) = Some NDir.
Proof. intros fs p W H. apply isfile_lookup in H. destruct H as [f Hf]. apply (W _ _ Hf). Qed.

(* when a step needs fs_wf of the current world *)
Lemma frel_wf : forall w w1, (fs_wf (w_fs w) -> frel w w1) -> frel w w1.
Proof. intros w w1 H W. apply H; exact W. Qed.

Lemma m_is_file_f : forall p cf, pres fPO (m_is_file p cf).
Proof.
  intros p cf w w1 r H. unfold m_is_file in H.
  destruct (is_file_no_read_cf p cf w) as [x [E _]].
  apply bind_inv in H. rewrite E in H. destruct H as [[wa [a [Ea H]]]|[e [Ee _]]]; [|discriminate].
  inversion Ea; subst wa a. destruct x as [bb|]; [inversion H; subst; apply frel_refl|].
  apply bind_inv in H. unfold get in H.
  destruct H as [[wa [a [Ea' H]]]|[e [Ee _]]]; [|discriminate]. inversion Ea'; subst wa a.
  destruct (isfile (w_fs w) p) eqn:Ei; [|inversion H; subst; apply frel_refl].
  apply frel_wf. intro W. pose proof (parent_dir_of_file _ _ W Ei) as Hd.
  apply bind_inv in H. destruct H as [[wa [a [Ea'' H]]]|[e [Ee _]]].
  - inversion H; subst. eapply hde_f; eassumption.
  - eapply hde_f; eassumption.
Qed.

Lemma m_is_dir_f : forall p cf, pres fPO (m_is_dir p cf).
Proof.
  intros p cf w w1 r H. unfold m_is_dir in H.
  destruct (cf_has_dir cf p); [inversion H; subst; apply frel_refl|].
  destruct (cf_has_file cf p); [inversion H; subst; apply frel_refl|].
  apply bind_inv in H. destruct H as [[wa [a [Ea H]]]|[e [Ee _]]].
  2:{ apply (m_is_removed_f _ _ _ _ Ee). }
  pose proof (m_is_removed_f _ _ _ _ Ea) as F1. eapply frel_trans; [exact F1|].
  destruct a; [inversion H; subst; apply frel_refl|].
  apply bind_inv in H. unfold get in H.
  destruct H as [[wb [a [Ea' H]]]|[e [Ee _]]]; [|discriminate]. inversion Ea'; subst wb a.
  destruct (isdir (w_fs wa) p) eqn:Ei; [|inversion H; subst; apply frel_refl].
  apply isdir_lookup in Ei.
  apply bind_inv in H. destruct H as [[wb [a [Ea'' H]]]|[e [Ee _]]].
  - inversion H; subst. eapply hde_f; eassumption.
  - eapply hde_f; eassumption.
Qed.
#[local] Hint Resolve m_is_file_f m_is_dir_f : pres.

Lemma m_exists_f : forall p cf, pres fPO (m_exists p cf).
Proof. intros p cf. unfold m_exists. pres_auto. Qed.
#[local] Hint Resolve m_exists_f : pres.
Lemma m_get_size_f : forall p cf, pres fPO (m_get_size p cf).
Proof. intros p cf. unfold m_get_size. pres_auto. Qed.
Lemma m_assert_is_dir_f : forall p cf, pres fPO (m_assert_is_dir p cf).
Proof. intros p cf. unfold m_assert_is_dir. pres_auto. Qed.
#[local] Hint Resolve m_get_size_f m_assert_is_dir_f : pres.

Lemma fcr_success_file : forall p c w w' v, file_comparison_result p c w = (w', inl v) ->
  isfile (w_fs w) p = true /\ w_fs w' = w_fs w.
Proof.
  intros p c w w' v H. destruct c; cbn [file_comparison_result] in H.
  - unfold file_metadata in H. unfold isfile. destruct (lookup (w_fs w) p) as [[f|]|]; inversion H; subst; auto.
  - unfold file_hash in H. unfold isfile in *.
    destruct (lookup (w_fs w) p) as [[f|]|]; repeat dm H; inversion H; subst; auto.
Qed.

Lemma read_cmp_f : forall p c cf, pres fPO (read_cmp p c cf).
Proof. intros p c cf. unfold read_cmp. pres_auto. Qed.

Lemma read_cmp_success_file : forall p c cf w wa v, read_cmp p c cf w = (wa, inl v) ->
  isfile (w_fs w) p = true /\ w_fs wa = w_fs w.
Proof.
  intros p c cf w wa v H. unfold read_cmp, catch in H.
  destruct (file_comparison_result p c w) as [wc [v'|e]] eqn:E1.
  - inversion H; subst. eapply fcr_success_file; exact E1.
  - exfalso. destruct (is_os_class XFileNotFound e || is_os_class XNotADirectory e); [discriminate|].
    destruct (is_os_class XIsADirectory e); [|discriminate].
    apply bind_inv in H. destruct H as [[wd [d [_ H]]]|[e' [_ H]]]; [destruct d|]; discriminate.
Qed.

Lemma m_read_f : forall p c cf, pres fPO (m_read p c cf).
Proof.
  intros p c cf. destruct (cf_has_file cf p) eqn:Ecf.
  - unfold m_read. rewrite Ecf. fold (read_cmp p c cf). pose proof (read_cmp_f p c cf).
    apply pres_bind; [auto with pres|]. intro nr. apply pres_bind; [destruct nr as [[|]|]; pres_auto|].
    intros _. apply pres_bind; [assumption|]. intro result. apply pres_bind; [apply pres_ret|]. intros _. apply pres_ret.
  - intros w w1 r H. unfold m_read in H. rewrite Ecf in H. fold (read_cmp p c cf) in H.
    destruct (is_file_no_read_cf p cf w) as [x [E _]].
    apply bind_inv in H. rewrite E in H. destruct H as [[wa [a [Ea H]]]|[e [Ee _]]]; [|discriminate].
    inversion Ea; subst wa a.
    apply bind_inv in H. destruct H as [[wa [u [Eg H]]]|[e [Eg _]]].
    2:{ assert (Hg: pres fPO (match x with
                             | Some false => d <- m_is_dir p cf ;; (if d then raise (XOS XIsADirectory) else @raise unit (XOS XFileNotFound))
                             | _ => ret tt end)) by (destruct x as [[|]|]; pres_auto).
        apply (Hg _ _ _ Eg). }
    assert (Hg: pres fPO (match x with
                          | Some false => d <- m_is_dir p cf ;; (if d then raise (XOS XIsADirectory) else @raise unit (XOS XFileNotFound))
                          | _ => ret tt end)) by (destruct x as [[|]|]; pres_auto).
    eapply frel_trans; [apply (Hg _ _ _ Eg)|].
    apply bind_inv in H. destruct H as [[wb [v [Ec H]]]|[e [Ee _]]].
    2:{ apply (read_cmp_f _ _ _ _ _ _ Ee). }
    eapply frel_trans; [apply (read_cmp_f _ _ _ _ _ _ Ec)|].
    destruct (read_cmp_success_file _ _ _ _ _ _ Ec) as [Hfile Hfs].
    apply frel_wf. intro W. rewrite <- Hfs in Hfile. pose proof (parent_dir_of_file _ _ W Hfile) as Hd.
    apply bind_inv in H. destruct H as [[wc [u' [Eh H]]]|[e [Eh _]]].
    + inversion H; subst. eapply hde_f; eassumption.
    + eapply hde_f; eassumption.
Qed.
#[local] Hint Resolve m_read_f : pres.

Lemma m_list_dir_f : forall d cf, pres fPO (m_list_dir d cf).
Proof. intros d cf. unfold m_list_dir. pres_auto. apply filterM_pres. intro; pres_auto. Qed.
Lemma classify_f : forall d cf l, pres fPO (classify d cf l).
Proof. intros d cf l. induction l as [|n l IH]; cbn [classify]; pres_auto. Qed.
#[local] Hint Resolve m_list_dir_f classify_f : pres.

Lemma append_walk_f : forall fuel d td cf, pres fPO (append_walk fuel d td cf).
Proof.
  induction fuel as [|fuel IH]; intros d td cf; cbn [append_walk].
  - apply pres_raise.
  - pres_auto.
    generalize (fst a0). intro ds. induction ds as [|n ds IHds].
    + apply pres_ret.
    + pres_auto.
Qed.
#[local] Hint Resolve append_walk_f : pres.
Lemma m_walk_f : forall d td cf, pres fPO (m_walk d td cf).
Proof. intros d td cf. unfold m_walk. pres_auto. Qed.
#[local] Hint Resolve m_walk_f : pres.

Theorem exec_query_f : forall q cf, pres fPO (exec_query q cf).
Proof. intros q cf. destruct q; cbn [exec_query]; pres_auto. Qed.
#[local] Hint Resolve exec_query_f : pres.

Lemma noneable_cmp_f : forall p c, pres fPO (noneable_cmp p c).
Proof. intros p c. unfold noneable_cmp. pres_auto. Qed.
#[local] Hint Resolve noneable_cmp_f : pres.
Lemma is_build_file_cached_f : forall p c r, pres fPO (is_build_file_cached p c r).
Proof. intros p c r. unfold is_build_file_cached. pres_auto. Qed.
#[local] Hint Resolve is_build_file_cached_f : pres.
Lemma dirs_to_make_f : forall p cf, pres fPO (dirs_to_make p cf).
Proof. induction p as [|n d IH]; intro cf; cbn [dirs_to_make]; pres_auto. Qed.
#[local] Hint Resolve dirs_to_make_f : pres.
Lemma is_simple_operation_cached_f : forall q r e cf, pres fPO (is_simple_operation_cached q r e cf).
Proof. intros q r e cf. unfold is_simple_operation_cached. pres_auto. Qed.
#[local] Hint Resolve is_simple_operation_cached_f : pres.

Lemma subs_go_f : forall subs, Forall (fun o => forall cf, pres fPO (is_op_cached o cf)) subs ->
  forall cf, pres fPO
    ((fix go (subs : list op) (cf : cfiles) {struct subs} : M (bool * cfiles) :=
        match subs with
        | [] => ret (true, cf)
        | s :: rest => r <- is_op_cached s cf ;; if fst r then go rest (snd r) else ret (false, snd r)
        end) subs cf).
Proof.
  intros subs H. induction H as [|s rest Hs Hrest IH]; intro cf.
  - apply pres_ret.
  - apply pres_bind; [apply Hs|]. intro r. destruct (fst r); [apply IH|apply pres_ret].
Qed.

Lemma is_op_cached_f : forall o cf, pres fPO (is_op_cached o cf).
Proof.
  induction o as [q r e|p c f a k subs r cr ra sf IH|f a k subs r ra sf IH] using op_ind'; intro cf; cbn [is_op_cached].
  - pres_auto.
  - pose proof (subs_go_f subs IH) as Hgo. pres_auto.
  - pose proof (subs_go_f subs IH) as Hgo. pres_auto.
Qed.
#[local] Hint Resolve is_op_cached_f : pres.
Lemma are_subs_cached_f : forall subs cf, pres fPO (are_subs_cached subs cf).
Proof. induction subs as [|s rest IH]; intro cf; cbn [are_subs_cached]; pres_auto. Qed.
#[local] Hint Resolve are_subs_cached_f : pres.
Theorem build_file_cache_lookup_f : forall p f a k, pres fPO (build_file_cache_lookup p f a k).
Proof. intros p f a k. unfold build_file_cache_lookup. pres_auto. Qed.
Theorem subbuild_cache_lookup_f : forall key f, pres fPO (subbuild_cache_lookup key f).
Proof. intros key f. unfold subbuild_cache_lookup. pres_auto. Qed.

(* ------------------------------------------------------------------ XInv *)
(* [qrel]: what every "read-only" routine guarantees *)
Definition qrel (w w' : world) : Prop := vrel w w' /\ frel w w' /\ same_but_view w w'.

Lemma qrel_XInv : forall T w w', qrel w w' -> XInv T w -> XInv T w'.
Proof.
  intros T w w' (V & F & _) HX. pose proof (x_binv _ _ HX) as HB.
  destruct (F (bi_wf _ HB) (x_sinv _ _ HX) (bi_counts_up _ HB)) as (_ & F1 & F2).
  eapply XInv_query_step; [exact HX|apply V; exact HB|exact F1|exact F2].
Qed.

Lemma qrel_of : forall X (m : world -> world * X), pres vPO m -> pres fPO m -> pres svbPO m ->
  forall w w' r, m w = (w', r) -> qrel w w'.
Proof. intros X m A B C w w' r H. split; [|split]; [eapply A|eapply B|eapply C]; exact H. Qed.

Theorem exec_query_q : forall q cf w w' r, exec_query q cf w = (w', r) -> qrel w w'.
Proof. intros q cf. apply qrel_of; [apply exec_query_v|apply exec_query_f|apply exec_query_svb]. Qed.

Theorem dirs_to_make_q : forall p cf w w' r, dirs_to_make p cf w = (w', r) -> qrel w w'.
Proof.
  intros p cf. apply qrel_of; [apply dirs_to_make_v|apply dirs_to_make_f|].
  intros w w' r H. eapply (dirs_to_make_svb p cf). exact H.
Qed.

Theorem exec_query_XInv : forall q cf T w w' r, XInv T w -> exec_query q cf w = (w', r) -> XInv T w'.
Proof. intros q cf T w w' r HX H. eapply qrel_XInv; [eapply exec_query_q; exact H|exact HX]. Qed.

Print Assumptions exec_query_XInv.
