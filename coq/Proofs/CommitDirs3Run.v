(* Proofs/CommitDirs3Run.v -- the invariant YInv (CommitDirs2Y.v) along every run, for
   ARBITRARY WELL-FORMED previous caches: the induction of CommitDirs2Run.v redone over the
   invariant RInv2 of ViewR2.v / ViewR3.v (XInv + PInv + no fault + the cache file path is
   not a directory + the tree is shallow + the previous cache is well formed), with
   ViewR9.noraise_holds for the lookups and CommitDirs3Adopt.v for YInv across a cache hit.
   No hypothesis on cache lookups is left: [run_Y2].
   New file of round 4; edits nothing. *)
From Coq Require Import List String Ascii NArith ZArith Bool Arith Lia.
From FB.Base Require Import PyVal Fs.
From FB.Gen Require Import JsonUtilGen.
From FB.Spec Require Import Prog.
From FB.Model Require Import Types Monad CreatedFiles BuildDirs SimpleOps Builder Persist Build Run Frame.
From FB.Proofs Require Import CoreLawsChildren ViewDefs ViewLemmas ViewXDefs ViewXQuery ViewXError ViewXSteps
     ViewXMake1 ViewXMake2 ViewXFail ViewXRoom2 ViewXSetup ViewPrepare ViewXMkfail ViewXRun BuildFileLaws
     ViewH4 ViewH5 ViewH6 ViewH7 ViewR1 ViewR2 ViewR3 ViewR9.
From FB.Proofs Require Import FsLemmas ReplayLaws FrameLaws CleanLaws RollbackDirsLaws
     RollbackDirsView RollbackDirsBase RollbackDirsInv RollbackDirsMake RollbackDirsRun
     CommitDirsInv CommitDirsRun CommitDirs2Y CommitDirs2Bd CommitDirs2Step CommitDirs2Run CommitDirs3Adopt.
Import ListNotations.
Local Open Scope list_scope.

Lemma AllTargets_mono : forall (P Q : path -> Prop) pr, (forall p, P p -> Q p) -> AllTargets P pr -> AllTargets Q pr.
Proof.
  intros P Q pr HPQ H. induction H; constructor; auto.
Qed.

Section RunY2.

Variable fs0 : fsT.
Variable old : cache.
Variable cf : path.
Variable P : path -> Prop.
Variable X : list path.
Hypothesis HypA : forall a t, Tgt old cf P t -> below a t = true -> ~ P a.
Hypothesis HS : forall a t, Tgt old cf P t -> below a t = true -> notorig fs0 a.
Hypothesis Hwf0 : fs_wf fs0.
(* every target of the program is creatable and shallow *)
Hypothesis HPt : forall p, P p -> tgtP p.

Notation RX := ViewXFail.RInv.
Notation R2 := (ViewR2.RInv2 (fun _ : cache => True)).
Notation RI := (RollbackDirsLaws.RInv fs0 old cf P).
Notation FI := (FInv fs0 old cf P X).
Notation EI := (EInv fs0 old cf P).
Notation YI := (YInv fs0 cf).
Notation GR := (GRel fs0 old cf P X).
Notation GP := (GPO fs0 old cf P X).

Lemma P_len : forall p, P p -> List.length p < walk_fuel.
Proof. intros p H. apply tgtP_len. apply HPt. exact H. Qed.

(* ------------------------------------------------------------------ everything before the function *)
Lemma bf_setup_Y2 : forall t T p c f sa skw w w1 r, P p -> List.length p < walk_fuel ->
  R2 T w -> FI w -> EI w -> tcond t w -> gcond t w -> YI w ->
  bf_setup p c f sa skw w = (w1, r) -> YI w1.
Proof.
  intros t T p c f sa skw w w1 r HPp Hlen HR2 Fw Ew Tw Gw HY H.
  pose proof (RInv2_R _ _ HR2) as HR. pose proof HR as (HX & HP & HF).
  rewrite bf_setup_eq in H.
  apply bind_inv in H. destruct H as [[wa [u [E H]]]|[e [E Er]]].
  2:{ unfold new_assert_no_file in E. apply bind_inv in E. unfold get in E.
      destruct E as [[wb [w0 [E0 E]]]|[e' [E0 _]]]; [|discriminate E0]. inversion E0; subst wb w0.
      destruct (cache_has_file (w_new w) p); inversion E; subst. exact HY. }
  assert (Hunclaimed: wa = w /\ cache_has_file (w_new w) p = false).
  { unfold new_assert_no_file in E. apply bind_inv in E. unfold get in E.
    destruct E as [[wb [w0 [E0 E]]]|[e' [E0 _]]]; [|discriminate E0]. inversion E0; subst wb w0.
    destruct (cache_has_file (w_new w) p); inversion E; subst. auto. }
  destruct Hunclaimed as [-> Hunc].
  apply bind_inv in H. destruct H as [[wa [icf [E1 H]]]|[e [E1 _]]]; [|discriminate E1].
  unfold is_cache_file in E1. unfold bind, get, ret in E1.
  assert (Hicf : wa = w /\ icf = path_eqb p (w_cachefile w)) by (inversion E1; auto).
  destruct Hicf as [-> Hicf].
  apply bind_inv in H. destruct H as [[wa [u1 [E2 H]]]|[e [E2 Er]]].
  2:{ subst r. destruct icf; inversion E2; subst. exact HY. }
  destruct icf; [discriminate E2|]. inversion E2; subst wa u1.
  assert (Ncf : p <> cf).
  { pose proof (proj1 Fw) as (_ & _ & Ecf & _). rewrite Ecf in Hicf. intro K. subst p. rewrite path_eqb_refl in Hicf. discriminate Hicf. }
  destruct p as [|n d].
  { (* the root: every outcome is the state after the is_dir query *)
    apply bind_inv in H. destruct H as [[wa [created [E3 H]]]|[e [E3 Er]]].
    - exfalso. unfold prepare_file_creation in E3. apply bind_inv in E3. unfold get in E3.
      destruct E3 as [[wb [w0 [E0 E3]]]|[e' [E0 _]]]; [|discriminate E0]. inversion E0; subst wb w0.
      cbn [isdir lookup] in E3. apply bind_inv in E3. destruct E3 as [[wb [u2 [E4 _]]]|[e' [_ E4]]]; [|discriminate E4].
      apply bind_inv in E4. destruct E4 as [[wc [vd [Ed E4]]]|[e' [_ E4]]]; [|discriminate E4].
      destruct (m_is_dir_inl _ _ _ _ _ HX Ed) as [Evd _]. rewrite (vdir_root _ (x_binv _ _ HX)) in Evd. subst vd. discriminate E4.
    - subst r. unfold prepare_file_creation in E3. apply bind_inv in E3. unfold get in E3.
      destruct E3 as [[wb [w0 [E0 E3]]]|[e' [E0 _]]]; [|discriminate E0]. inversion E0; subst wb w0.
      cbn [isdir lookup] in E3. apply bind_inv in E3. destruct E3 as [[wb [u2 [E4 E5]]]|[e' [E4 _]]].
      + exfalso. apply bind_inv in E4. destruct E4 as [[wc [vd [Ed E4]]]|[e' [_ E4]]]; [|discriminate E4].
        destruct (m_is_dir_inl _ _ _ _ _ HX Ed) as [Evd _]. rewrite (vdir_root _ (x_binv _ _ HX)) in Evd. subst vd. discriminate E4.
      + apply bind_inv in E4. destruct E4 as [[wc [vd [Ed E4]]]|[e'' [Ed _]]].
        * pose proof (Y_query fs0 cf Hwf0 T _ _ HX (m_is_dir_q _ _ _ _ _ Ed) HY) as HYc.
          destruct (m_is_dir_inl _ _ _ _ _ HX Ed) as [Evd _]. rewrite (vdir_root _ (x_binv _ _ HX)) in Evd. subst vd.
          inversion E4; subst. exact HYc.
        * exact (Y_query fs0 cf Hwf0 T _ _ HX (m_is_dir_q _ _ _ _ _ Ed) HY). }
  rewrite prep_assoc in H.
  apply bind_inv in H. destruct H as [[wpre [u0 [Ep H]]]|[e [Ep Er]]].
  2:{ exact (proj1 (pfc_room_Y fs0 cf Hwf0 T n d _ _ _ HR HY Ep)). }
  destruct (pfc_room_Y fs0 cf Hwf0 T n d _ _ _ HR HY Ep) as (HYp & HRp & Hnew & Hnd). destruct u0.
  specialize (Hnd eq_refl).
  destruct (pfc_room_G fs0 old cf P X HypA t (n :: d) HPp _ _ _ Ep Fw Ew Tw Gw) as (Fp & Lp & Ewp & Sp).
  assert (Tp : tcond t wpre) by (intros q Hq; apply Lp, Tw, Hq).
  assert (Gp : gcond t wpre) by (eapply gcond_stable; eauto).
  cbn [dirname tl] in H.
  apply bind_inv in H. destruct H as [[w2 [created [Hmk H]]]|[e [Hmk Er]]].
  2:{ exact (Y_mkfail fs0 cf Hwf0 T _ _ _ _ HRp HYp Hmk). }
  apply bind_inv in H. destruct H as [[w3 [locked [E4 H]]]|[e [E4 _]]].
  2:{ unfold m_bd_started in E4. destruct (bd_started (w_bd w2) (n :: d) created); discriminate E4. }
  destruct HRp as (HXp & HPq & HFp).
  destruct (make_dirs_started_XInv T wpre n d w2 created w3 locked HXp HPq Hnd Hmk E4) as (HXb & HPb & Nb & Ob & Cb & Fsb).
  pose proof (Y_make_started fs0 cf Hwf0 T wpre n d w2 created w3 locked HXp (FI_C1 fs0 old cf P X _ Fp) (EI_Z fs0 old cf P _ Ewp) HYp Hmk E4 HXb) as HY3.
  assert (Eml : make_lock (n :: d) wpre = (w3, inl locked)).
  { unfold make_lock, bind. cbn [dirname tl]. rewrite Hmk, E4. reflexivity. }
  destruct (make_lock_G fs0 old cf P X HypA HS t (n :: d) (or_introl HPp) _ _ _ Eml Fp Ewp Tp Gp) as (F3 & L3 & Ew3 & S3).
  assert (T3 : tcond t w3) by (intros q Hq; apply L3, Tp, Hq).
  assert (G3 : gcond t w3) by (eapply gcond_stable; eauto).
  assert (HFb : w_faults w3 = []) by (exact (proj1 (proj1 F3))).
  assert (HRb : RX ((n :: d) :: T) w3) by (split; [exact HXb|split; [exact HPb|exact HFb]]).
  assert (Hunc_b : cache_has_file (w_new w3) (n :: d) = false) by (rewrite Nb, Hnew; exact Hunc).
  assert (Hnd_b : isdir (w_fs w3) (n :: d) = false).
  { unfold isdir. rewrite Fsb; [exact Hnd|]. intro Hs. apply suffix_length in Hs. simpl in Hs. lia. }
  unfold catch in H. destruct (bf_try (n :: d) c f sa skw w3) as [wc rt] eqn:Et.
  (* the world after the reservation still satisfies RInv2 *)
  assert (E3p : prepare_file_creation (n :: d) w = (w2, inl created)).
  { pose proof (prep_assoc (n :: d) _ (fun l : list path => ret l) w) as K. unfold bind in K.
    rewrite Ep in K. cbn [dirname tl] in K. rewrite Hmk in K.
    unfold ret in K. destruct (prepare_file_creation (n :: d) w) as [wz [l|e]]; [inversion K; reflexivity | discriminate K]. }
  assert (Gb : gl walk_fuel w w3).
  { eapply gl_trans; [apply (prepare_file_creation_gl walk_fuel _ _ _ _ E3p); cbn [dirname tl List.length] in *; lia|].
    apply svb_gl. apply (m_bd_started_svb _ _ _ _ _ E4). }
  pose proof (RInv2_step _ _ _ _ HR2 Gb HRb) as HRb2.
  pose proof (bf_try2 (noraise_holds _) T n d c f sa skw w3 wc rt HRb2 Hunc_b Hnd_b Et) as Post.
  destruct (bf_try_Y2 fs0 old cf P X HypA HS Hwf0 t T n d c f sa skw w3 wc rt HPp Ncf HRb2 F3 Ew3 T3 G3 HY3 Hunc_b Hnd_b Et)
    as (HYc & Fc & Ewc).
  destruct rt as [x|e].
  - inversion H; subst. exact HYc.
  - destruct Post as (HRc2 & Hnf & Hnp). destruct (RInv2_R _ _ HRc2) as (HXc & HPc & HFc).
    destruct (m_bd_error_XInv ((n :: d) :: T) wc n d HXc (or_introl eq_refl) Hnf) as (b' & Eb & HXe).
    apply bind_inv in H. rewrite Eb in H. destruct H as [[wd [u2 [E5 H]]]|[e' [E5 _]]]; [|discriminate E5].
    inversion E5; subst wd u2. inversion H; subst w1 r.
    assert (Ebd : bd_error (w_bd wc) (n :: d) = Some b').
    { unfold m_bd_error in Eb. destruct (bd_error (w_bd wc) (n :: d)) as [b|]; [|discriminate Eb].
      inversion Eb as [K]. congruence. }
    exact (Y_bd_error fs0 old cf P Hwf0 ((n :: d) :: T) wc n d b' HXc HPc (or_introl eq_refl) Hnf (proj1 Fc)
             (EI_Z fs0 old cf P _ Ewc) HYc Ebd HXe).
Qed.

(* ------------------------------------------------------------------ build_file *)
Lemma m_build_file_Y2 : forall t T p c f a kw (fn : path -> pyval -> pyval -> body) w w' res, P p ->
  (forall sa skw T0 w0 w1 r, R2 T0 w0 -> In p T0 -> fn p sa skw w0 = (w1, r) ->
     exists T1, R2 T1 w1 /\ msub T0 T1) ->
  (forall sa skw, pres (GP (Some p)) (fn p sa skw)) ->
  (forall sa skw T0 w0 w1 r, R2 T0 w0 -> In p T0 -> FI w0 -> EI w0 -> tcond (Some p) w0 -> gcond (Some p) w0 ->
     YI w0 -> fn p sa skw w0 = (w1, r) -> YI w1) ->
  R2 T w -> FI w -> EI w -> tcond t w -> gcond t w -> YI w ->
  m_build_file p c f a kw fn w = (w', res) -> YI w'.
Proof.
  intros t T p c f a kw fn w w' res HPp HfnR HfnG HfnY HR Fw Ew Tw Gw HY H.
  rewrite BuildFileLaws.m_build_file_unfold in H.
  destruct (sanitize a) as [sa|]; [|inversion H; subst; exact HY].
  destruct (sanitize kw) as [skw|]; [|inversion H; subst; exact HY].
  destruct (BuildFileLaws.bf_setup p c f sa skw w) as [w1 r1] eqn:Es.
  pose proof (bf_setup_Y2 t T p c f sa skw w w1 r1 HPp (P_len _ HPp) HR Fw Ew Tw Gw HY Es) as HY1.
  pose proof (bf_setup2 (fun _ => True) (noraise_holds _) T p c f sa skw w w1 r1 (P_len _ HPp) HR Es) as Post.
  unfold setup_post2 in Post.
  destruct r1 as [[[o|[e o]]|]|e]; try (inversion H; subst; exact HY1).
  destruct Post as (HR1 & Hprog & Hne & Hold).
  destruct (bf_setup_G fs0 old cf P X HypA HS t p c f sa skw HPp _ _ _ Es Fw Ew Tw Gw) as (F1 & _ & Ew1 & _).
  pose proof (RollbackDirsLaws.bf_setup_none _ _ _ _ _ _ _ Es) as Hb1.
  unfold bf_rebuild in H.
  destruct (fn p sa skw (bf_invoke_world p f sa skw w1)) as [w3 [res3 subs3]] eqn:Ef.
  assert (HRi : R2 (p :: T) (bf_invoke_world p f sa skw w1)) by (eapply RInv2_fields; [exact HR1|..]; reflexivity).
  assert (Ti : tcond (Some p) (bf_invoke_world p f sa skw w1)) by (apply tcond_some; exact Hb1).
  assert (Gi : gcond (Some p) (bf_invoke_world p f sa skw w1)) by (apply gcond_some; exact Hprog).
  destruct (GRel_set_log fs0 old cf P X (Some p) (LInvoke f (Some p) sa skw :: w_log w1) w1 F1 Ew1
              (tcond_some _ _ Hb1) (gcond_some _ _ Hprog)) as (Fi & _ & Ewi & _).
  change (set_log (LInvoke f (Some p) sa skw :: w_log w1) w1) with (bf_invoke_world p f sa skw w1) in Fi, Ewi.
  assert (HYi : YI (bf_invoke_world p f sa skw w1)) by (apply (YI_ext fs0 cf w1); [reflexivity | reflexivity | exact HY1]).
  pose proof (HfnY sa skw (p :: T) _ _ _ HRi (or_introl eq_refl) Fi Ewi Ti Gi HYi Ef) as HY3.
  destruct (HfnR sa skw (p :: T) _ _ _ HRi (or_introl eq_refl) Ef) as (T1 & HR3 & M1).
  destruct (HfnG sa skw _ _ _ Ef Fi Ewi Ti Gi) as (F3 & L3 & Ew3 & S3).
  destruct p as [|n d]; [contradiction|].
  assert (Hin : In (n :: d) T1) by (apply (msub_in _ _ _ M1); left; reflexivity).
  destruct res as [ro oo].
  apply (bf_finish_Y fs0 old cf P X Hwf0 T1 n d c f sa skw res3 subs3 w3 w' ro oo (RInv2_R _ _ HR3) Hin F3 Ew3); [| |exact HY3|exact H].
  - apply L3. exact Hb1.
  - exact (gcond_stable _ _ _ Gi S3 _ eq_refl).
Qed.

(* ------------------------------------------------------------------ subbuild *)
Lemma m_subbuild_Y2 : forall t T f a kw (fn : pyval -> pyval -> body) w w' res,
  (forall sa skw T0 w0 w1 r, R2 T0 w0 -> FI w0 -> EI w0 -> tcond t w0 -> gcond t w0 -> YI w0 ->
     fn sa skw w0 = (w1, r) -> YI w1) ->
  R2 T w -> FI w -> EI w -> tcond t w -> gcond t w -> YI w ->
  m_subbuild f a kw fn w = (w', res) -> YI w'.
Proof.
  intros t T f a kw fn w w' res HfnY HR Fw Ew Tw Gw HY H.
  rewrite BuildFileLaws.m_subbuild_unfold in H.
  destruct (sanitize a) as [sa|]; [|inversion H; subst; exact HY].
  destruct (sanitize kw) as [skw|]; [|inversion H; subst; exact HY].
  destruct (sb_setup f sa skw w) as [w1 r1] eqn:Es.
  destruct (sb_setup2 (noraise_holds _) T f sa skw w w1 r1 HR Es) as (T1 & HR1 & M1 & Hold).
  pose proof (sb_setup_Y2 fs0 old cf P X HypA HS Hwf0 t T f sa skw w w1 r1 HR Fw Ew Tw Gw HY Es) as HY1.
  destruct (sb_setup_GR fs0 old cf P X HypA HS t f sa skw _ _ _ Es Fw Ew Tw Gw) as (F1 & L1 & Ew1 & S1).
  assert (T1c : tcond t w1) by (intros q Hq; apply L1, Tw, Hq).
  assert (G1c : gcond t w1) by (eapply gcond_stable; eauto).
  destruct r1 as [[[o|[e o]]|]|e]; try (inversion H; subst; exact HY1).
  unfold sb_rebuild in H.
  destruct (fn sa skw (sb_invoke_world f sa skw w1)) as [w3 [res3 subs3]] eqn:Ef.
  assert (HRi : R2 T1 (sb_invoke_world f sa skw w1)) by (eapply RInv2_fields; [exact HR1|..]; reflexivity).
  destruct (GRel_set_log fs0 old cf P X t (LInvoke f None sa skw :: w_log w1) w1 F1 Ew1 T1c G1c) as (Fi & Li & Ewi & Si).
  change (set_log (LInvoke f None sa skw :: w_log w1) w1) with (sb_invoke_world f sa skw w1) in Fi, Ewi, Li, Si.
  assert (HYi : YI (sb_invoke_world f sa skw w1)) by (apply (YI_ext fs0 cf w1); [reflexivity | reflexivity | exact HY1]).
  assert (Ti : tcond t (sb_invoke_world f sa skw w1)) by (intros q Hq; apply Li, T1c, Hq).
  assert (Gi : gcond t (sb_invoke_world f sa skw w1)) by (eapply gcond_stable; eauto).
  pose proof (HfnY sa skw T1 _ _ _ HRi Fi Ewi Ti Gi HYi Ef) as HY3.
  unfold sb_finish in H. cbv zeta in H.
  assert (Hfin : forall o w4 u, new_finish_subbuild (subbuild_key f sa skw) o w3 = (w4, u) -> YI w4).
  { intros o w4 u E. unfold new_finish_subbuild, modify in E. inversion E; subst.
    apply (YI_ext fs0 cf w3); [reflexivity | reflexivity | exact HY3]. }
  destruct res3 as [v|e].
  - destruct (sanitize v);
      match type of H with (match ?Z with _ => _ end) = _ => destruct Z as [w4 u] eqn:E4 end;
      inversion H; subst; eapply Hfin; exact E4.
  - match type of H with (match ?Z with _ => _ end) = _ => destruct Z as [w4 u] eqn:E4 end.
    inversion H; subst. eapply Hfin; exact E4.
Qed.

(* ------------------------------------------------------------------ every program *)
Theorem run_Y2 : forall pr, AllTargets P pr ->
  forall target subs T w w' res,
    R2 T w -> FI w -> EI w -> tcond target w -> gcond target w ->
    (forall p, target = Some p -> In p T /\ List.length p < walk_fuel) -> YI w ->
    run pr target subs w = (w', res) -> YI w'.
Proof.
  intros pr Hat.
  induction Hat as [v | e | s q k Hk IHk | c k Hk IHk | s p c f a kw fn k Hp Hfn IHfn Hk IHk
                    | s f a kw fn k Hfn IHfn Hk IHk];
    intros target subs T w w' res HR Fw Ew Tw Gw Htg HY H; cbn [run] in H.
  - inversion H; subst. exact HY.
  - inversion H; subst. exact HY.
  - destruct s; [eapply IHk; eauto|].
    destruct (m_query q w) as [w1 [r1 o]] eqn:E.
    pose proof (m_query_RInv2 (fun _ => True) _ _ _ _ _ _ HR E) as HR1.
    destruct (m_query_G fs0 old cf P X target q _ _ _ E Fw Ew Tw Gw) as (F1 & L1 & Ew1 & S1).
    assert (T1c : tcond target w1) by (intros x Hx; apply L1, Tw, Hx).
    assert (G1c : gcond target w1) by (eapply gcond_stable; eauto).
    assert (HY1 : YI w1).
    { unfold m_query in E. destruct (exec_query q None w) as [w2 x] eqn:Eq.
      pose proof (Y_query fs0 cf Hwf0 T _ _ (proj1 (RInv2_R _ _ HR)) (exec_query_q _ _ _ _ _ Eq) HY) as K.
      destruct x as [v|[]]; inversion E; subst; exact K. }
    set (r' := user_answer q r1 w1) in *.
    destruct (GRel_log_answer fs0 old cf P X target q r' w1 F1 Ew1 T1c G1c) as (F2 & L2 & Ew2 & S2).
    eapply (IHk r' target _ T); [apply log_answer_RInv2; exact HR1 | exact F2 | exact Ew2 | | | exact Htg | | exact H].
    + intros x Hx. apply L2, T1c, Hx.
    + eapply gcond_stable; eauto.
    + apply (YI_ext fs0 cf w1); [| |exact HY1]; unfold log_answer; destruct r' as [?|[]]; reflexivity.
  - destruct target as [p|]; [|eapply IHk; eauto].
    destruct (write_file (w_fs w) p c None (N.succ (w_clock w)) (w_nextid w)) as [fs'|e] eqn:Ew0.
    2:{ inversion H; subst. exact HY. }
    set (w1 := set_clock (N.succ (w_clock w)) (N.succ (w_nextid w)) (set_fs fs' w)) in *.
    destruct (Htg p eq_refl) as [Hin Hl].
    pose proof (write_RInv2 (fun _ => True) _ _ _ _ _ HR Hin Hl Ew0) as HR1. fold w1 in HR1.
    assert (Erun : run (Write c (Ret PNone)) (Some p) [] w = (w1, (inl PNone, []))).
    { cbn [run]. rewrite Ew0. reflexivity. }
    destruct (run_G fs0 old cf P X HypA HS _ (AT_Write P c _ (AT_Ret P PNone)) (Some p) [] _ _ _ Erun Fw Ew Tw Gw)
      as (F1 & L1 & Ew1 & S1).
    eapply (IHk (Some p) _ T w1); [exact HR1 | exact F1 | exact Ew1 | | | exact Htg | | exact H].
    + intros x Hx. apply L1, Tw, Hx.
    + eapply gcond_stable; eauto.
    + apply (Y_target_step fs0 cf T w w1 p (proj1 (RInv2_R _ _ HR)) Hin HY); [reflexivity | |].
      * exact (write_file_dirs_same _ _ _ _ _ _ _ Ew0).
      * intros x Hx. exact (proj2 (write_file_frame _ _ _ _ _ _ _ Ew0) x Hx).
  - destruct s; [eapply IHk; eauto|].
    match type of H with (let '(_, _) := ?Z in _) = _ => destruct Z as [w1 [r1 o]] eqn:E end.
    pose proof (fun sa skw => run_G fs0 old cf P X HypA HS _ (Hfn p sa skw) (Some p) []) as HfnG.
    assert (HfnR : forall sa skw T0 w0 w2 r, R2 T0 w0 -> In p T0 ->
              run (fn p sa skw) (Some p) [] w0 = (w2, r) -> exists T1, R2 T1 w2 /\ msub T0 T1).
    { intros sa skw T0 w0 w2 r HR0 Hin Hf.
      eapply (run2 (fun _ => True) (noraise_holds _) _ (AllTargets_mono P tgtP _ HPt (Hfn p sa skw))); [exact HR0 | | exact Hf].
      intros p0 Hp0. inversion Hp0; subst. split; [exact Hin | exact (P_len _ Hp)]. }
    assert (HY1 : YI w1).
    { apply (m_build_file_Y2 target T p c f a kw (fun p' sa skw w0 => run (fn p' sa skw) (Some p') [] w0) w w1 (r1, o) Hp
               HfnR HfnG); [|exact HR|exact Fw|exact Ew|exact Tw|exact Gw|exact HY|exact E].
      intros sa skw T0 w0 w2 r HR0 Hin F0 E0 T0c G0c HY0 Hf.
      eapply (IHfn p sa skw (Some p) [] T0); [exact HR0|exact F0|exact E0|exact T0c|exact G0c| |exact HY0|exact Hf].
      intros p0 Hp0. inversion Hp0; subst. split; [exact Hin | exact (P_len _ Hp)]. }
    destruct (m_build_file2 (fun _ => True) (noraise_holds _) T p c f a kw
                (fun p' sa skw w0 => run (fn p' sa skw) (Some p') [] w0) w w1 (r1, o)) as (T1 & HR1 & M1);
      [exact (P_len _ Hp)| |exact HR|exact E|].
    { intros sa skw T0 w0 w2 r HR0 Hin Hf. exact (HfnR sa skw T0 w0 w2 r HR0 Hin Hf). }
    destruct (m_build_file_G fs0 old cf P X HypA HS p c f a kw _ Hp HfnG target _ _ _ E Fw Ew Tw Gw) as (F1 & L1 & Ew1 & S1).
    eapply (IHk r1 target _ T1 w1); [exact HR1 | exact F1 | exact Ew1 | | | | exact HY1 | exact H].
    + intros x Hx. apply L1, Tw, Hx.
    + eapply gcond_stable; eauto.
    + intros p0 Hp0. destruct (Htg p0 Hp0) as [A Bl]. split; [apply (msub_in _ _ _ M1); exact A | exact Bl].
  - destruct s; [eapply IHk; eauto|].
    match type of H with (let '(_, _) := ?Z in _) = _ => destruct Z as [w1 [r1 o]] eqn:E end.
    assert (HfnG : forall sa skw, pres (GP target) (fun w0 => run (fn sa skw) None [] w0)).
    { intros sa skw. apply pres_None_G. exact (run_G fs0 old cf P X HypA HS _ (Hfn sa skw) None []). }
    assert (HY1 : YI w1).
    { apply (m_subbuild_Y2 target T f a kw (fun sa skw w0 => run (fn sa skw) None [] w0) w w1 (r1, o));
        [|exact HR|exact Fw|exact Ew|exact Tw|exact Gw|exact HY|exact E].
      intros sa skw T0 w0 w2 r HR0 F0 E0 _ _ HY0 Hf.
      eapply (IHfn sa skw None [] T0); [exact HR0|exact F0|exact E0| | | |exact HY0|exact Hf];
        intros p0 Hp0; discriminate Hp0. }
    destruct (m_subbuild2 (fun _ => True) (noraise_holds _) T f a kw (fun sa skw w0 => run (fn sa skw) None [] w0) w w1 (r1, o))
      as (T1 & HR1 & M1); [|exact HR|exact E|].
    { intros sa skw T0 w0 w2 r HR0 Hf.
      eapply (run2 (fun _ => True) (noraise_holds _) _ (AllTargets_mono P tgtP _ HPt (Hfn sa skw))); [exact HR0 | | exact Hf].
      intros p0 Hp0. discriminate Hp0. }
    destruct (m_subbuild_G fs0 old cf P X HypA HS f a kw _ target HfnG _ _ _ E Fw Ew Tw Gw) as (F1 & L1 & Ew1 & S1).
    eapply (IHk r1 target _ T1 w1); [exact HR1 | exact F1 | exact Ew1 | | | | exact HY1 | exact H].
    + intros x Hx. apply L1, Tw, Hx.
    + eapply gcond_stable; eauto.
    + intros p0 Hp0. destruct (Htg p0 Hp0) as [A Bl]. split; [apply (msub_in _ _ _ M1); exact A | exact Bl].
Qed.

End RunY2.

Print Assumptions run_Y2.
