(* Proofs/SimB15.v — mechanism model vs Core, the hit/miss decision: a sufficient condition for
   the side condition [fresh] (older modification times), and what remains, stated.

   PROVED (SimB1-SimB14), for a mechanism world w and a Core state s with Sim3 W w s:
     SimB7.replay_corr / replay_list_corr   is_op_cached on the overlay == kreplay on the scratch copy
     SimB8.file_lookup_agree / _decision    _build_file_cache_lookup succeeds iff Core's hit condition
                                            (ViewK8.lookup_agree_statement with its side conditions)
     SimB8.sub_lookup_agree / _decision     the same for _subbuild_cache_lookup
     SimB12.file_hit_sim3                   after the hit of build_file: same record, Sim3 again
     SimB13.sub_hit_sim3                    after the hit of subbuild: Sim3 again
     SimB14.KInv_after_file_hit / _sub_hit  Core's bookkeeping invariant holds again
   SimB9: the side conditions hold on the histories of ViewK3; two families of programs on which
   the two models decide differently (excluded by the side conditions).                     *)
From Coq Require Import List String Ascii NArith ZArith Bool Arith Lia.
From FB.Base Require Import PyVal Fs.
From FB.Gen Require Import JsonUtilGen.
From FB.Spec Require Import JsonSpec Prog Ref Oracle Faithful.
From FB.Model Require Import Types Monad CreatedFiles BuildDirs SimpleOps Builder Persist Core.
From FB.Proofs Require Import FsLemmas ViewDefs ViewH4 ViewH6 ViewK3 ViewK4 SimB1 SimB4 SimB7 SimB8 SimB12.
Import ListNotations.
Open Scope list_scope.

(* ------------------------------------------------------------------ older modification times *)
Open Scope string_scope.
Lemma meta_neq : forall f sz t, t <> Z.of_N (f_mtime f) ->
  is_equal (cmp_of METADATA f) (PDict [(PStr "size", sz); (PStr "timeNs", PInt t)]) = false.
Proof.
  intros f sz t H. cbn [cmp_of]. cbn.
  match goal with |- (if (if negb ?b then true else _) then false else true) = false => destruct (negb b) end; [reflexivity|].
  assert (E: (Z.of_N (f_mtime f) =? t)%Z = false) by (apply Z.eqb_neq; congruence). rewrite E. reflexivity.
Qed.

Lemma meta_neq_none : forall f, is_equal (cmp_of METADATA f) PNone = false.
Proof. intro f. reflexivity. Qed.
Close Scope string_scope.

(* [fresh] (SimB7) holds when every file written in this build (the files of W, on either side) is
   at least as recent as [B] and the recorded result of a METADATA read is a comparison result
   older than [B], or the marker of a failed read *)
Theorem fresh_of_older : forall W w s q rt (B : N),
  (forall p f, mem_path p W = true ->
               lookup (w_fs w) p = Some (NFile f) \/ lookup (k_fs s) p = Some (NFile f) -> (B <= f_mtime f)%N) ->
  (rt = PNone \/ exists sz t, rt = PDict [(PStr "size"%string, sz); (PStr "timeNs"%string, PInt t)] /\ (t < Z.of_N B)%Z) ->
  fresh W w s q rt.
Proof.
  intros W w s q rt B HW Hrt p f _ Hp Hf. destruct Hrt as [->|(sz & t & -> & Ht)]; [apply meta_neq_none|].
  apply meta_neq. pose proof (HW p f Hp Hf) as K. lia.
Qed.

(* ------------------------------------------------------------------ what remains *)
(* (1) the subbuild key tables after a registration (hypothesis SubTables of SimB12.file_hit_sim3
   and SimB13.sub_hit_sim3): Core keeps a list of claimed keys searched with [py_eq k _], the
   mechanism a table searched with [py_eq _ k] and updated in place by subs_set.  SimB16.sub_tables
   proves SubTables from the three properties of py_eq below (for keys that are subbuild keys,
   pairwise different in the adopted tree).  The properties themselves are not proved anywhere
   (cf. ViewK8.key_eq_statement; CoreNextAux has goodkey_sym / goodkey_refl between two keys only). *)
Definition iskey (x : pyval) : Prop :=
  exists f a kw, x = subbuild_key f a kw /\ sanitized a = true /\ sanitized kw = true.

Definition key_eq_props_statement : Prop :=
  (forall x k, iskey x -> py_eq x k = py_eq k x) /\
  (forall x y k, iskey x -> iskey y -> py_eq x y = true -> py_eq y k = true -> py_eq x k = true) /\
  (forall x y k, iskey x -> iskey y -> py_eq x k = true -> py_eq y k = true -> py_eq x y = true).

(* (2) the side conditions KInv / stale directories are invariants of Core's runs and of the
   pair of runs; they are established here only across hits (SimB14).  Along the steps of a miss
   they belong to the simulation of the other steps (Sim3 has no component for k_need, k_made
   and k_staledirs; see ViewK8.fail_view_statement). *)
Definition kinv_run_statement : Prop :=
  forall pr tg pend subs s s' res, KInv s None -> core_run pr tg pend subs s = (s', res) -> KInv s' None.

Print Assumptions fresh_of_older.
