(* Proofs/CommitDirs3Adopt.v -- YInv (CommitDirs2Y.v) across a cache hit, for arbitrary
   well-formed previous caches:
   [adopt_Y]      _apply_cached_suboperations of a record that is [reusable] (ViewH4/ViewH5:
                  it changes neither the tree nor the claims, but it reserves the parents of
                  the adopted targets in BuildDirs) keeps YInv;
   [bf_try_Y2]    YInv across the lookup / reuse / claim block of build_file, in the RInv2
                  setting of ViewR2.v (together with FInv / EInv afterwards, which the
                  error path needs to release the reservation);
   [sb_setup_Y2]  YInv across the setup of subbuild.
   New file of round 4; edits nothing. *)
From Coq Require Import List String Ascii NArith ZArith Bool Arith Lia.
From FB.Base Require Import PyVal Fs.
From FB.Gen Require Import JsonUtilGen.
From FB.Spec Require Import Prog.
From FB.Model Require Import Types Monad CreatedFiles BuildDirs SimpleOps Builder Persist Build Run Frame.
From FB.Proofs Require Import CoreLawsChildren ViewDefs ViewLemmas ViewXDefs ViewXQuery ViewXError ViewXSteps
     ViewXMake1 ViewXMake2 ViewXFail ViewXRoom2 ViewXSetup ViewPrepare ViewXMkfail ViewXRun BuildFileLaws
     ViewH4 ViewH5 ViewH6 ViewH7 ViewR1 ViewR2 ViewR3 ViewR9.
From FB.Proofs Require Import FsLemmas ReplayLaws FrameLaws CleanLaws RollbackDirsLaws
     RollbackDirsView RollbackDirsBase RollbackDirsInv RollbackDirsMake RollbackDirsRun
     CommitDirsInv CommitDirsRun CommitDirs2Y CommitDirs2Bd CommitDirs2Step CommitDirs2Run.
Import ListNotations.
Local Open Scope list_scope.

Section AdoptY.

Variable fs0 : fsT.
Variable old : cache.
Variable cf : path.
Variable P : path -> Prop.
Variable X : list path.
Hypothesis HypA : forall a t, Tgt old cf P t -> below a t = true -> ~ P a.
Hypothesis HS : forall a t, Tgt old cf P t -> below a t = true -> notorig fs0 a.
Hypothesis Hwf0 : fs_wf fs0.

Notation RX := ViewXFail.RInv.
Notation RI := (RollbackDirsLaws.RInv fs0 old cf P).
Notation FI := (FInv fs0 old cf P X).
Notation EI := (EInv fs0 old cf P).
Notation YI := (YInv fs0 cf).
Notation GR := (GRel fs0 old cf P X).
Notation GP := (GPO fs0 old cf P X).
Notation TG := (Tgt old cf P).

Lemma reusable_bf : forall fs new cfp p c f a k subs rt cr ra sf,
  reusable fs new cfp (OBuildFile p c f a k subs rt cr ra sf) = true ->
  (if ra then negb (lexists fs p) else isfile fs p) = true /\ forallb (reusable fs new cfp) subs = true.
Proof.
  intros fs new cfp p c f a k subs rt cr ra sf H. cbn [reusable] in H.
  apply andb_true_iff in H. destruct H as [H H2]. apply andb_true_iff in H. destruct H as [_ H1]. auto.
Qed.

Lemma reusable_sb : forall fs new cfp f a k subs rt ra sf,
  reusable fs new cfp (OSubbuild f a k subs rt ra sf) = true -> forallb (reusable fs new cfp) subs = true.
Proof. intros fs new cfp f a k subs rt ra sf H. cbn [reusable] in H. apply andb_true_iff in H. exact (proj2 H). Qed.

Section Adopt.
  Variables (fsr : fsT) (newr : cache) (cfr : path).
  Hypothesis Hcf : isdir fsr cfr = false.

  Definition adoptableY (o : op) : Prop :=
    forall t T w w' r, (forall x, In x (flat_map op_targets (op_subs o)) -> TG x) ->
      forallb (reusable fsr newr cfr) (op_subs o) = true -> RX T w -> at0 fsr newr cfr w ->
      FI w -> EI w -> tcond t w -> gcond t w -> YI w ->
      apply_cached_subs_of o w = (w', r) -> YI w'.

  (* the head of the loop, as one step *)
  Definition head_of (s : op) : M unit :=
    match s with
    | OBuildFile p _ _ _ _ _ _ _ false _ =>
        bind (make_dirs (dirname p)) (fun created =>
        bind (m_bd_started p created) (fun locked =>
        catch (apply_cached_subs_of s) (fun e => bind (m_bd_error p) (fun _ => raise e))))
    | OSimple _ _ _ => ret tt
    | _ => apply_cached_subs_of s
    end.

  Lemma adopt_go_cons : forall s rest, adopt_go (s :: rest) = bind (head_of s) (fun _ => adopt_go rest).
  Proof. intros s rest. destruct s; reflexivity. Qed.

  Lemma head_facts : forall t s T w wa ra, (forall x, In x (op_targets s) -> TG x) ->
    reusable fsr newr cfr s = true -> RX T w -> at0 fsr newr cfr w ->
    FI w -> EI w -> tcond t w -> gcond t w ->
    head_of s w = (wa, ra) ->
    ra = inl tt /\ at0 fsr newr cfr wa /\ (exists T1, RX T1 wa) /\
    FI wa /\ EI wa /\ tcond t wa /\ gcond t wa.
  Proof.
    intros t s T w wa ra Ht Hr HR Ha Fw Ew Tw Gw Hh.
    assert (Hgo : adopt_go [s] w = (wa, match ra with inl _ => inl tt | inr e => inr e end)).
    { rewrite adopt_go_cons. unfold bind. rewrite Hh. destruct ra as [u|e]; reflexivity. }
    assert (Hall : Forall (adoptable fsr newr cfr) [s]) by (constructor; [apply apply_cached_ok; exact Hcf | constructor]).
    assert (Hrs : forallb (reusable fsr newr cfr) [s] = true) by (cbn [forallb]; rewrite Hr; reflexivity).
    destruct (adopt_go_ok fsr newr cfr Hcf [s] Hall T w wa _ Hrs HR Ha Hgo) as (R1 & F1 & N1 & O1 & C1 & T1 & HR1 & _).
    assert (Era : ra = inl tt) by (destruct ra as [[]|e]; [reflexivity | discriminate R1]).
    split; [exact Era|]. split.
    { destruct Ha as (A1 & A2 & A3). repeat split; congruence. }
    split; [exists T1; exact HR1|].
    assert (Eb : bind (head_of s) (fun _ => ret tt) w = (wa, inl tt)).
    { unfold bind. rewrite Hh, Era. reflexivity. }
    pose proof (apply_step_G fs0 old cf P X HypA HS t s (ret tt) Ht
                  (apply_cached_subs_of_G fs0 old cf P X HypA HS s Ht t) (pres_ret _ _ tt)) as HG.
    destruct (HG w wa (inl tt) Eb Fw Ew Tw Gw) as (F2 & L2 & E2 & S2).
    split; [exact F2|]. split; [exact E2|]. split; [intros q Hq; apply L2, Tw, Hq | eapply gcond_stable; eauto].
  Qed.

  Lemma adopt_go_Y : forall subs, Forall adoptableY subs ->
    forall t T w w' r, (forall x, In x (flat_map op_targets subs) -> TG x) ->
      forallb (reusable fsr newr cfr) subs = true -> RX T w -> at0 fsr newr cfr w ->
      FI w -> EI w -> tcond t w -> gcond t w -> YI w ->
      adopt_go subs w = (w', r) -> YI w'.
  Proof.
    intros subs H. induction H as [|s rest Hs Hrest IH]; intros t T w w' r Ht Hr HR Ha Fw Ew Tw Gw HY Hgo.
    - cbn in Hgo. inversion Hgo; subst. exact HY.
    - cbn [forallb] in Hr. apply andb_true_iff in Hr. destruct Hr as [Hr1 Hr2].
      assert (Ht1 : forall x, In x (op_targets s) -> TG x).
      { intros x Hx. apply Ht. cbn [flat_map]. apply in_or_app. left. exact Hx. }
      assert (Ht2 : forall x, In x (flat_map op_targets rest) -> TG x).
      { intros x Hx. apply Ht. cbn [flat_map]. apply in_or_app. right. exact Hx. }
      rewrite adopt_go_cons in Hgo.
      (* YInv after the head *)
      assert (Hhead : forall wa ra, head_of s w = (wa, ra) -> YI wa).
      { intros wa ra Hh. destruct s as [q rt ex|p c f a k subs' rt cr ra' sf|f a k subs' rt ra' sf].
        - cbn [head_of] in Hh. inversion Hh; subst. exact HY.
        - destruct (reusable_bf _ _ _ _ _ _ _ _ _ _ _ _ _ Hr1) as [Hfile Hsub].
          assert (Hts : forall x, In x (flat_map op_targets (op_subs (OBuildFile p c f a k subs' rt cr ra' sf))) -> TG x).
          { intros x Hx. apply Ht1. cbn [op_targets op_subs] in *. right. exact Hx. }
          destruct ra'.
          + cbn [head_of] in Hh. exact (Hs t T w wa ra Hts Hsub HR Ha Fw Ew Tw Gw HY Hh).
          + destruct Ha as (A1 & A2 & A3). rewrite <- A1 in Hfile.
            destruct p as [|n d]; [discriminate Hfile|]. cbn [head_of dirname tl] in Hh.
            apply bind_inv in Hh. destruct Hh as [[w1 [created [Em Hh]]]|[e [Em _]]].
            2:{ exfalso. destruct (make_dirs_existing T n d w wa (inr e) HR Hfile) as (ds & K & _); [rewrite A1, A3; exact Hcf|exact Em|discriminate K]. }
            destruct (make_dirs_existing T n d w w1 (inl created) HR Hfile) as (ds & K & Efs); [rewrite A1, A3; exact Hcf|exact Em|].
            apply bind_inv in Hh. destruct Hh as [[w2 [locked [Eb Hh]]]|[e [Eb _]]].
            2:{ unfold m_bd_started in Eb. destruct (bd_started (w_bd w1) (n :: d) created); discriminate Eb. }
            pose proof HR as (HX & HP & HF).
            assert (Hnd : isdir (w_fs w) (n :: d) = false).
            { unfold isdir. apply isfile_lookup in Hfile. destruct Hfile as [g Hg]. rewrite Hg. reflexivity. }
            destruct (make_dirs_started_XInv T w n d w1 created w2 locked HX HP Hnd Em Eb) as (HX2 & HP2 & N2 & O2 & C2 & _).
            pose proof (Y_make_started fs0 cf Hwf0 T w n d w1 created w2 locked HX
                          (FI_C1 fs0 old cf P X _ Fw) (EI_Z fs0 old cf P _ Ew) HY Em Eb HX2) as HY2.
            assert (Eml : make_lock (n :: d) w = (w2, inl locked)).
            { unfold make_lock, bind. cbn [dirname tl]. rewrite Em, Eb. reflexivity. }
            destruct (make_lock_G fs0 old cf P X HypA HS t (n :: d) (Ht1 _ (or_introl eq_refl)) _ _ _ Eml Fw Ew Tw Gw)
              as (F2 & L2 & E2 & S2).
            assert (T2 : tcond t w2) by (intros q Hq; apply L2, Tw, Hq).
            assert (G2 : gcond t w2) by (eapply gcond_stable; eauto).
            assert (Efs2 : w_fs w2 = w_fs w).
            { unfold m_bd_started in Eb. destruct (bd_started (w_bd w1) (n :: d) created). inversion Eb; subst. cbn. exact Efs. }
            assert (HR2 : RX ((n :: d) :: T) w2) by (split; [exact HX2|split; [exact HP2|exact (proj1 (proj1 F2))]]).
            assert (Ha2 : at0 fsr newr cfr w2) by (repeat split; congruence).
            unfold catch in Hh.
            destruct (apply_cached_subs_of (OBuildFile (n :: d) c f a k subs' rt cr false sf) w2) as [w3 r3] eqn:E3.
            pose proof (Hs t ((n :: d) :: T) w2 w3 r3 Hts Hsub HR2 Ha2 F2 E2 T2 G2 HY2 E3) as HY3.
            destruct (apply_cached_ok fsr newr cfr Hcf (OBuildFile (n :: d) c f a k subs' rt cr false sf) ((n :: d) :: T) w2 w3 r3 Hsub HR2 Ha2 E3) as (R1 & _).
            subst r3. inversion Hh; subst wa ra. exact HY3.
        - pose proof (reusable_sb _ _ _ _ _ _ _ _ _ _ Hr1) as Hsub.
          cbn [head_of] in Hh. refine (Hs t T w wa ra _ Hsub HR Ha Fw Ew Tw Gw HY Hh).
          intros x Hx. apply Ht1. cbn [op_targets op_subs] in *. exact Hx. }
      apply bind_inv in Hgo. destruct Hgo as [[wa [u [Eh Hgo]]]|[e [Eh _]]].
      + destruct (head_facts t s T w wa (inl u) Ht1 Hr1 HR Ha Fw Ew Tw Gw Eh) as (_ & Ha1 & (T1 & HR1) & F1 & E1 & T1c & G1c).
        exact (IH t T1 wa w' r Ht2 Hr2 HR1 Ha1 F1 E1 T1c G1c (Hhead _ _ Eh) Hgo).
      + exact (Hhead _ _ Eh).
  Qed.

  Theorem adopt_Y : forall o, adoptableY o.
  Proof.
    induction o as [q r e|p c f a k subs r cr ra sf IH|f a k subs r ra sf IH] using op_ind';
      intros t T w w' res Ht Hr HR Ha Fw Ew Tw Gw HY H; rewrite apply_cached_subs_of_eq in H; cbn [op_subs] in *.
    - cbn in H. inversion H; subst. exact HY.
    - eapply adopt_go_Y; eassumption.
    - eapply adopt_go_Y; eassumption.
  Qed.
End Adopt.

End AdoptY.

(* ================================================================== *)
(* The cache-hit blocks                                                *)
(* ================================================================== *)
Section TryY.

Variable fs0 : fsT.
Variable old : cache.
Variable cf : path.
Variable P : path -> Prop.
Variable X : list path.
Hypothesis HypA : forall a t, Tgt old cf P t -> below a t = true -> ~ P a.
Hypothesis HS : forall a t, Tgt old cf P t -> below a t = true -> notorig fs0 a.
Hypothesis Hwf0 : fs_wf fs0.

Notation RX := ViewXFail.RInv.
Notation R2 := (ViewR2.RInv2 (fun _ : cache => True)).
Notation RI := (RollbackDirsLaws.RInv fs0 old cf P).
Notation FI := (FInv fs0 old cf P X).
Notation EI := (EInv fs0 old cf P).
Notation YI := (YInv fs0 cf).
Notation GR := (GRel fs0 old cf P X).
Notation GP := (GPO fs0 old cf P X).
Notation TG := (Tgt old cf P).

Lemma use_cached_fsbd : forall o w w' r, new_use_cached_operation o w = (w', r) ->
  w_fs w' = w_fs w /\ w_bd w' = w_bd w.
Proof.
  intros o w w' r H. unfold new_use_cached_operation in H. unfold bind at 1, get in H.
  destruct (assert_no_repeats (w_new w) o); [unfold put in H|]; inversion H; subst; split; reflexivity.
Qed.

Lemma bf_reuse_Y : forall t T n d c f sa skw cached wl wr rr,
  match cached with Some co => forall x, In x (op_targets co) -> TG x | None => True end ->
  RX ((n :: d) :: T) wl -> isdir (w_fs wl) (w_cachefile wl) = false ->
  (forall co, cached = Some co -> forallb (reusable (w_fs wl) (w_new wl) (w_cachefile wl)) (op_subs co) = true) ->
  FI wl -> EI wl -> tcond t wl -> gcond t wl -> YI wl ->
  bf_reuse (n :: d) c f sa skw cached wl = (wr, rr) -> YI wr.
Proof.
  intros t T n d c f sa skw cached wl wr rr Hc HRl Hcf Hreu Fl El Tl Gl HYl H.
  destruct cached as [co|]; [|cbn [bf_reuse] in H; inversion H; subst; exact HYl].
  specialize (Hreu co eq_refl). cbn [bf_reuse] in H. cbv zeta in H.
  apply bind_inv in H. destruct H as [[wc [cmp [Ec H]]]|[e [Ec Ee]]].
  2:{ exact (Y_query fs0 cf Hwf0 _ _ _ (proj1 HRl) (noneable_cmp_q _ _ _ _ _ Ec) HYl). }
  pose proof (noneable_cmp_q _ _ _ _ _ Ec) as Qc. pose proof (qrel_RInv _ _ _ Qc HRl) as HRc.
  pose proof (Y_query fs0 cf Hwf0 _ _ _ (proj1 HRl) Qc HYl) as HYc.
  destruct (qrel_at _ _ Qc) as (F2 & N2 & C2 & O2).
  destruct (G_view fs0 old cf P X t _ _ (noneable_cmp_view (n :: d) c) _ _ _ Ec Fl El Tl Gl) as (Fc & Lc & Ewc & Sc).
  assert (Tc : tcond t wc) by (intros q Hq; apply Lc, Tl, Hq).
  assert (Gc : gcond t wc) by (eapply gcond_stable; eauto).
  assert (Hreuse : forall x,
            (bind (apply_cached_subs_of co) (fun _ =>
             bind (attempt (new_use_cached_operation (OBuildFile (n :: d) c f sa skw (op_subs co) (op_ret co) cmp false false))) (fun r0 =>
              match r0 with
              | inl _ => ret (Some (inl (OBuildFile (n :: d) c f sa skw (op_subs co) (op_ret co) cmp false false)))
              | inr e => ret (Some (inr (e, OBuildFile (n :: d) c f sa skw (op_subs co) (op_ret co) cmp true true)))
              end))) wc = (wr, x) -> YI wr).
  { intros x Hx. apply bind_inv in Hx.
    assert (Hadopt : forall wd ra, apply_cached_subs_of co wc = (wd, ra) -> YI wd).
    { intros wd ra Ha.
      refine (adopt_Y fs0 old cf P X HypA HS Hwf0 (w_fs wl) (w_new wl) (w_cachefile wl) Hcf co t ((n :: d) :: T) wc wd ra
                _ Hreu HRc _ Fc Ewc Tc Gc HYc Ha).
      - intros y Hy. apply Hc. apply subs_targets_incl. exact Hy.
      - repeat split; congruence. }
    destruct Hx as [[wd [u [Ea Hx]]]|[e [Ea _]]]; [|exact (Hadopt _ _ Ea)].
    pose proof (Hadopt _ _ Ea) as HYd.
    apply bind_inv in Hx. unfold attempt in Hx.
    destruct (new_use_cached_operation (OBuildFile (n :: d) c f sa skw (op_subs co) (op_ret co) cmp false false) wd) as [we re] eqn:Eu.
    destruct (use_cached_fsbd _ _ _ _ Eu) as [A1 A2].
    destruct Hx as [[wf [r0 [E0 Hx]]]|[e [E0 _]]]; [|discriminate E0]. inversion E0; subst wf r0.
    destruct re; inversion Hx; subst; apply (YI_ext fs0 cf wd); assumption. }
  destruct cmp; try (exact (Hreuse _ H)). inversion H; subst. exact HYc.
Qed.

Theorem bf_try_Y2 : forall t T n d c f sa skw w wc rt, P (n :: d) -> n :: d <> cf ->
  R2 ((n :: d) :: T) w -> FI w -> EI w -> tcond t w -> gcond t w -> YI w ->
  cache_has_file (w_new w) (n :: d) = false -> isdir (w_fs w) (n :: d) = false ->
  bf_try (n :: d) c f sa skw w = (wc, rt) ->
  YI wc /\ FI wc /\ EI wc.
Proof.
  intros t T n d c f sa skw w wc rt HPp Ncf HR2 Fw Ew Tw Gw HY Hunc Hnd H.
  pose proof HR2 as (HR & (HNC & HSH) & HW & _).
  pose proof (noraise_holds (fun _ => True) _ _ HR2) as [Hnr _].
  unfold bf_try in H.
  apply bind_inv in H. destruct H as [[wl [cached [El H]]]|[e [El _]]]; [|exfalso; eapply Hnr; exact El].
  pose proof (build_file_cache_lookup_q _ _ _ _ _ _ _ El) as Ql. pose proof (qrel_RInv _ _ _ Ql HR) as HRl.
  pose proof (Y_query fs0 cf Hwf0 _ _ _ (proj1 HR) Ql HY) as HYl.
  destruct (qrel_at _ _ Ql) as (F1 & N1 & C1 & O1).
  destruct (G_view fs0 old cf P X t _ _ (build_file_cache_lookup_view (n :: d) f sa skw) _ _ _ El Fw Ew Tw Gw) as (Fl & Ll & Ewl & Sl).
  assert (Tl : tcond t wl) by (intros q Hq; apply Ll, Tw, Hq).
  assert (Gl : gcond t wl) by (eapply gcond_stable; eauto).
  assert (Hc : match cached with Some co => forall x, In x (op_targets co) -> TG x | None => True end).
  { destruct cached as [co|]; [|exact I]. pose proof (proj1 Fw) as (_ & B & _).
    apply lookup_never_raised in El. destruct El as (E & _). rewrite B in E.
    intros x Hx. right. right. eapply cache_get_file_targets; eauto. }
  assert (Hg : forall rec, cache_get_file (w_old w) (n :: d) = Some rec -> goodrec rec = true).
  { intros rec Hrec. apply wfrec_goodrec. apply (proj1 HW _ _ Hrec). }
  assert (Hreu : forall co, cached = Some co -> forallb (reusable (w_fs wl) (w_new wl) (w_cachefile wl)) (op_subs co) = true).
  { intros co ->. rewrite F1, N1, C1. apply (lookup_found _ _ _ _ _ _ _ El Hg). }
  assert (Hcfl : isdir (w_fs wl) (w_cachefile wl) = false) by (rewrite F1, C1; exact HNC).
  assert (Huncl : cache_has_file (w_new wl) (n :: d) = false) by (rewrite N1; exact Hunc).
  assert (Hclaim : forall wq, qrel wl wq -> FI wq -> EI wq -> tcond t wq -> gcond t wq -> YI wq ->
            bf_claim (n :: d) wq = (wc, rt) -> YI wc /\ FI wc /\ EI wc).
  { intros wq Qq Fq Eq Tq Gq HYq Hcl. pose proof (qrel_RInv _ _ _ Qq HRl) as (HXq & _ & HFq).
    destruct (qrel_at _ _ Qq) as (F2 & N2 & C2 & O2).
    assert (Hndq : isdir (w_fs wq) (n :: d) = false) by (rewrite F2, F1; exact Hnd).
    destruct (bf_claim_frame _ _ _ _ Hcl HFq Hndq) as (Tc1 & Tc2 & Tc3).
    destruct (bf_claim_G fs0 old cf P X t (n :: d) HPp Ncf _ _ _ Hcl Fq Eq Tq Gq) as (Fc & _ & Ewc & _).
    split; [|split; assumption].
    exact (Y_target_step fs0 cf ((n :: d) :: T) wq wc (n :: d) HXq (or_introl eq_refl) HYq Tc1 Tc2 Tc3). }
  apply bind_inv in H. destruct H as [[wr [reused [Er H]]]|[e [Er Ee]]].
  - pose proof (bf_reuse_Y t T n d c f sa skw cached wl wr _ Hc HRl Hcfl Hreu Fl Ewl Tl Gl HYl Er) as HYr.
    destruct (bf_reuse_G fs0 old cf P X HypA HS t (n :: d) c f sa skw cached HPp Hc _ _ _ Er Fl Ewl Tl Gl) as (Fr & Lr & Ewr & Sr).
    destruct (bf_reuse_ok T n d c f sa skw cached wl wr (inl reused) HRl Huncl Hcfl Hreu Er)
      as [[K Q]|[(o & T' & K & HR' & M')|(e & K & _)]]; [| |discriminate K].
    + inversion K; subst reused. apply (Hclaim wr Q Fr Ewr); [| |exact HYr|exact H].
      * intros q Hq. apply Lr, Tl, Hq.
      * eapply gcond_stable; eauto.
    + inversion K; subst reused. inversion H; subst. split; [exact HYr|split; assumption].
  - subst rt.
    pose proof (bf_reuse_Y t T n d c f sa skw cached wl wc _ Hc HRl Hcfl Hreu Fl Ewl Tl Gl HYl Er) as HYr.
    destruct (bf_reuse_G fs0 old cf P X HypA HS t (n :: d) c f sa skw cached HPp Hc _ _ _ Er Fl Ewl Tl Gl) as (Fr & Lr & Ewr & Sr).
    split; [exact HYr|split; assumption].
Qed.

Theorem sb_setup_Y2 : forall t T f sa skw w w1 r,
  R2 T w -> FI w -> EI w -> tcond t w -> gcond t w -> YI w ->
  sb_setup f sa skw w = (w1, r) -> YI w1.
Proof.
  intros t T f sa skw w w1 r HR2 Fw Ew Tw Gw HY H.
  pose proof HR2 as (HR & (HNC & HSH) & HW & _).
  pose proof (noraise_holds (fun _ => True) _ _ HR2) as [_ Hnr].
  unfold sb_setup in H. cbv zeta in H.
  apply bind_inv in H. destruct H as [[wa [u [E H]]]|[e [E _]]].
  2:{ unfold new_assert_no_subbuild, bind, get in E. destruct (cache_has_subbuild (w_new w) _); inversion E; subst. exact HY. }
  assert (Hw : wa = w).
  { unfold new_assert_no_subbuild, bind, get in E. destruct (cache_has_subbuild (w_new w) _); inversion E; auto. }
  subst wa.
  apply bind_inv in H. destruct H as [[wl [cached [El H]]]|[e [El _]]]; [|exfalso; eapply Hnr; exact El].
  pose proof (subbuild_cache_lookup_q _ _ _ _ _ El) as Ql. pose proof (qrel_RInv _ _ _ Ql HR) as HRl.
  pose proof (Y_query fs0 cf Hwf0 _ _ _ (proj1 HR) Ql HY) as HYl.
  destruct (qrel_at _ _ Ql) as (F1 & N1 & C1 & O1).
  destruct (G_view fs0 old cf P X t _ _ (subbuild_cache_lookup_view (subbuild_key f sa skw) f) _ _ _ El Fw Ew Tw Gw) as (Fl & Ll & Ewl & Sl).
  assert (Tl : tcond t wl) by (intros q Hq; apply Ll, Tw, Hq).
  assert (Gl : gcond t wl) by (eapply gcond_stable; eauto).
  destruct cached as [co|].
  - assert (Hg : forall rec, subs_get (c_subs (w_old w)) (subbuild_key f sa skw) = Some (Some rec) -> goodrec rec = true).
    { intros rec Hrec. apply wfrec_goodrec. apply (proj2 HW _ _ Hrec). }
    destruct (sublookup_found _ _ _ _ _ El Hg) as [Hreu _].
    assert (Hc : forall x, In x (op_targets co) -> TG x).
    { pose proof (proj1 Fw) as (_ & B & _).
      pose proof (sublookup_never_raised _ _ _ _ _ El) as (E0 & _). rewrite B in E0.
      intros y Hy. right. right. eapply subs_get_targets; eauto. }
    apply bind_inv in H.
    assert (Hadopt : forall wd ra, apply_cached_subs_of co wl = (wd, ra) -> YI wd).
    { intros wd ra Ha.
      refine (adopt_Y fs0 old cf P X HypA HS Hwf0 (w_fs w) (w_new w) (w_cachefile w) HNC co t T wl wd ra
                _ Hreu HRl _ Fl Ewl Tl Gl HYl Ha).
      - intros y Hy. apply Hc. apply subs_targets_incl. exact Hy.
      - repeat split; congruence. }
    destruct H as [[wd [u' [Ea H]]]|[e [Ea _]]]; [|exact (Hadopt _ _ Ea)].
    pose proof (Hadopt _ _ Ea) as HYd.
    apply bind_inv in H. unfold attempt in H.
    destruct (new_use_cached_operation (OSubbuild f sa skw (op_subs co) (op_ret co) false false) wd) as [we re] eqn:Eu.
    destruct (use_cached_fsbd _ _ _ _ Eu) as [A1 A2].
    destruct H as [[wf [r0 [E0 H]]]|[e [E0 _]]]; [|discriminate E0]. inversion E0; subst wf r0.
    destruct re; inversion H; subst; apply (YI_ext fs0 cf wd); assumption.
  - apply bind_inv in H.
    assert (Hst : forall wb x, new_start_subbuild (subbuild_key f sa skw) wl = (wb, x) -> YI wb).
    { intros wb x Hs. destruct (new_start_subbuild_fsbd _ _ _ _ Hs) as [A1 A2]. apply (YI_ext fs0 cf wl); assumption. }
    destruct H as [[wb [u' [E2 H]]]|[e [E2 _]]].
    + inversion H; subst. exact (Hst _ _ E2).
    + exact (Hst _ _ E2).
Qed.

End TryY.

Print Assumptions adopt_Y.
Print Assumptions bf_try_Y2.
Print Assumptions sb_setup_Y2.
