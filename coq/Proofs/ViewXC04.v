(* Proofs/ViewXC04.v — C04, follow-up: index of the reachability development (ViewX*.v) and
   of the overlay case (ViewOverlay*.v), counterexample worlds for the side conditions, and
   the statements that are not proved.

   STAGE 1 (reachability).  XInv T w (ViewXDefs.v), T the multiset of live targets, contains
   BInv and is preserved by:
     ViewXQuery   exec_query_XInv, qrel_XInv           every query, any overlay; lookups, replays
     ViewXError   m_bd_error_XInv                      error_building_file (no KeyError)
     ViewXSteps   claim_change_XInv, write_target_XInv, remove_target_XInv, XInv_fields
     ViewXStart2  started_XInv                         started_building_file after the mkdirs
     ViewXMake2   make_dirs_started_XInv               _make_dirs + started_building_file
     ViewXRoom2   make_room_ok                         _make_room, every outcome
     ViewXFail    bf_claim_RInv, bf_fail_RInv, bf_finish_RInv   (RInv = XInv + in-progress targets
                                                       are live + no injected fault)
     ViewXMkfail  mkfail_holds                         a failing _make_dirs
     ViewXSetup   bf_setup_RInv                        the whole setup of build_file
     ViewXRun     m_build_file_RInv, m_subbuild_RInv, run_RInv
     ViewXReach   reachable_RInv, reachable_answers_view (previous caches without records),
                  reachable_answers_view_general (any cache, relative to hit_statement)
     ViewXInit    XInv_start_world
   STAGE 2 (overlay).  ViewOverlay.v / ViewOverlay2.v: overlay_fs, CInv, m_is_file_overlay,
   m_is_dir_overlay, m_exists_overlay, m_list_dir_overlay, onames_children,
   exec_query_overlay, cf_started_CInv, cf_finished_CInv, CInv_empty. *)
From Coq Require Import List String Ascii NArith ZArith Bool Arith Lia.
From FB.Base Require Import PyVal Fs.
From FB.Spec Require Import Prog Ref.
From FB.Model Require Import Types Monad CreatedFiles BuildDirs SimpleOps Builder Build Run.
From FB.Proofs Require Import ViewDefs ViewLemmas ViewScan ViewQueries ViewAnswers ViewInit ViewPres
     ViewXDefs ViewXQuery ViewXInit ViewXError ViewXSteps ViewXMake1 ViewXMake2 ViewXFail ViewXRoom2 ViewXSetup ViewXRun
     ViewXMkfail ViewXReach ViewOverlay ViewOverlay2.
Import ListNotations.
Open Scope list_scope.

(* ------------------------------------------------------------------ the root function is entered *)
(* m_build first makes the directories of the cache file; when its directory is visible
   nothing is made and the package invariant holds when the root function starts *)
Theorem RInv_root_entry : forall w cachefile old nm vers,
  fs_wf (w_fs w) -> old_ok old cachefile -> w_faults w = [] -> path_ok (dirname cachefile) = true ->
  vdir (start_world w cachefile old nm vers) (dirname cachefile) = true ->
  exists w1, make_dirs (dirname cachefile) (start_world w cachefile old nm vers) = (w1, inl []) /\
             RInv [] (set_log (LInvoke "<root>" None PNone PNone :: w_log w1) w1).
Proof.
  intros w cachefile old nm vers Hwf Hok HF Hp Hd.
  pose proof (RInv_start_world w cachefile old nm vers Hwf Hok HF) as HR.
  destruct (BInv_root_entry w cachefile old nm vers Hwf Hok Hp Hd) as (w1 & E & _).
  exists w1. split; [exact E|].
  assert (HR1: RInv [] w1).
  { unfold make_dirs in E. apply bind_inv in E. destruct E as [[wa [ds [Eds E]]]|[e [_ E]]]; [|discriminate].
    pose proof (qrel_RInv [] _ _ (dirs_to_make_q _ _ _ _ _ Eds) HR) as HRa.
    apply bind_inv in E. destruct E as [[wb [u [El E]]]|[e [_ E]]]; [|discriminate].
    inversion E; subst wb ds. cbn in El. inversion El; subst. exact HRa. }
  destruct HR1 as (HX & HP & HF1). split; [eapply XInv_fields; [exact HX|..]; reflexivity|]. split; [exact HP|exact HF1].
Qed.

(* ------------------------------------------------------------------ counterexample worlds *)
Module Counter.
  Import ViewExamples.
  Open Scope string_scope.

  (* 1. An exception between started_building_file and the claim, while the previous output is
     still on disk (this is what hit_statement excludes: [hit_post] demands that the target is
     not a regular file when the attempt raises).  started_building_file discards the target
     from _removed_files, error_building_file does not put it back: the scan then takes the old
     output for a foreign file.  World w1 of ViewDefs (a, a/b created, output a/b/o, foreign
     a/f): is_dir(a/b) answers True, yet a/b lists nothing and a/b/o is not a file. *)
  Definition w_err : world :=
    let b1 := fst (bd_started (w_bd w1) ["o"; "b"; "a"] []) in
    match bd_error b1 ["o"; "b"; "a"] with Some b2 => set_bd b2 w1 | None => w1 end.
  Example error_before_claim_inconsistent :
    answers w_err [QIsDir ["b"; "a"]; QListDir ["b"; "a"]; QIsFile ["o"; "b"; "a"]]
    = [inl (PBool true); inl (PList []); inl (PBool false)] /\
    dead w_err ["b"; "a"] = true.
  Proof. vm_compute. auto. Qed.

  (* 2. Over-long names: is_dir of a candidate whose name cannot be created raises OSError
     (os.listdir fails with ENAMETOOLONG), where POSIX isdir answers False. *)
  Definition longname : string := string_of_list_ascii (repeat "a"%char 256).
  Definition old_long : cache :=
    {| c_name := "n"; c_files := []; c_subs := []; c_dirs := [[longname]]; c_fvers := PDict []; c_built := [] |}.
  Definition w_long : world := mkw [] old_long new0 (bd_init (c_dirs old_long) [["cache"]]).
  Example overlong_candidate_raises : answers w_long [QIsDir [longname]] = [inr (XOS XOSError)].
  Proof. vm_compute. reflexivity. Qed.

  (* 3. Trees deeper than the walk fuel of the model: the model stops with an internal error
     where the reference walk is cut off (Python has no such bound). *)
  Definition deep_fs : fsT := map (fun k => (repeat "d" (S k), Some NDir)) (seq 0 34).
  Definition w_deep : world := mkw deep_fs new0 new0 (bd_init [] [["cache"]]).
  Example deep_walk_crashes : answers w_deep [QWalk [] true] = [inr (XCrash "walk fuel")].
  Proof. vm_compute. reflexivity. Qed.
End Counter.

(* ------------------------------------------------------------------ not proved *)
(* cache hits for arbitrary previous caches: hit_statement / sbhit_statement of ViewXSetup.v /
   ViewXRun.v (lookup, apply_cached_subs_of, use_cached_operation, claim).  They need, beyond
   old_ok, that the previous cache was written by a build (records are prefix free, successful
   records have a comparison result, no target lies below another target's file) and that the
   lookup does not raise while the previous output is on disk (Counter.error_before_claim_
   inconsistent shows what happens otherwise). *)
Definition hit_general_statement : Prop := hit_statement.
Definition sbhit_general_statement : Prop := sbhit_statement.

(* the overlay case for the remaining queries *)
Definition overlay_rest_statement : Prop :=
  forall w c q, BInv w -> CInv w c -> path_ok (spec_query_path q) = true ->
    (forall p, mem_path p (cf_dirs c) = true -> isfile (w_fs w) p = false) ->
    match q with QWalk _ _ | QGetSize _ => True | _ => False end ->
    (forall p td, q = QWalk p td -> odir w c p = true -> maxlen (overlay_fs w c) < walk_fuel + List.length p) ->
    yields (exec_query q (Some c)) w (to_res (spec_answer_raw (overlay_fs w c) q)).

Definition cf_error_general_statement : Prop := cf_error_statement.

(* ------------------------------------------------------------------ the main theorems *)
Check XInv_BInv.
Check exec_query_XInv.
Check m_bd_error_XInv.
Check make_dirs_started_XInv.
Check make_room_ok.
Check mkfail_holds.
Check bf_setup_RInv.
Check run_RInv.
Check reachable_RInv.
Check reachable_answers_view.
Check reachable_answers_view_general.
Check exec_query_overlay.

Print Assumptions RInv_root_entry.
Print Assumptions exec_query_XInv.
Print Assumptions m_bd_error_XInv.
Print Assumptions make_dirs_started_XInv.
Print Assumptions make_room_ok.
Print Assumptions mkfail_holds.
Print Assumptions bf_setup_RInv.
Print Assumptions run_RInv.
Print Assumptions reachable_RInv.
Print Assumptions reachable_answers_view.
Print Assumptions reachable_answers_view_general.
Print Assumptions exec_query_overlay.
Print Assumptions cf_started_CInv.
