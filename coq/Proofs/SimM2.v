(* Proofs/SimM2.v — SimF3 (RS_keys for the new cache) for the class okcH of SimJ4 and programs
   that may compare by HASH: subbuild keys of a recorded tree pairwise different, entry key
   conditions.  Copy of SimF3's section KR with the hits discharged from okcH.              *)
From Coq Require Import List String Ascii NArith ZArith Bool Arith Lia.
From FB.Base Require Import PyVal Fs.
From FB.Gen Require Import JsonUtilGen.
From FB.Spec Require Import JsonSpec Prog Ref Oracle Faithful.
From FB.Model Require Import Types Monad CreatedFiles BuildDirs SimpleOps Builder Persist Build Run Frame Core CoreOracle.
From FB.Proofs Require Import FsLemmas JsonLaws ReplayLaws BuildFileLaws CoreLaws1 CoreLaws2 CoreLaws3 CoreLaws4
     CoreNextRegs CoreNextState CoreNextAux CoreNextKeys
     HashMemoInv ViewDefs ViewLemmas ViewInit ViewXDefs ViewH4 ViewH6 ViewR2 ViewR3 ViewK3 ViewK4 ViewK8
     SimA0 SimA1 SimA1Keys SimA2Base SimAMain SimB2 SimB7 SimB9 SimC0 SimC5 SimC12 SimC14 SimC15 SimD5 SimD7 SimF1 SimF3 SimG5 SimJ4 SimJ9.
Import ListNotations.
Open Scope list_scope.
Lemma subs_staticH_parts : forall old c0 p0 subs, subs_staticH old c0 p0 subs = true ->
  forallb (node_static old c0) (flat_map nodes subs) = true /\ kfreshb (snd (cll subs)) = true.
Proof.
  intros old c0 p0 subs H. unfold subs_staticH in H.
  apply andb_true_iff in H. destruct H as [H _]. apply andb_true_iff in H. destruct H as [H K].
  apply andb_true_iff in H. destruct H as [H _]. apply andb_true_iff in H. destruct H as [H _].
  apply andb_true_iff in H. destruct H as [_ N]. split; assumption.
Qed.

Section KRH.
  Variable old : cache.
  Variable c0 : N.
  Hypothesis Hokc : okcH c0 old.

  Definition GoldH (s : kstate) : Prop := k_old s = old.

  Lemma okcH_hitF : forall s s0 p fname sa skw f subs' ret' r,
    GoldH s -> core_hit s s0 p fname sa skw = Some (f, subs', ret', r) ->
    kdl (snd (cll subs')) /\ Forall goodkey (snd (cll subs')).
  Proof.
    intros s s0 p fname sa skw f subs' ret' r Hold Hhit.
    unfold core_hit in Hhit. unfold GoldH in Hold. rewrite Hold in Hhit.
    destruct (cache_get_file old p) as [orec|] eqn:Eg; [|discriminate].
    destruct orec as [|p' c' fname' a' k' subs0 ret0 cmpres' raised' sf'|]; try discriminate.
    destruct raised'; [discriminate|].
    destruct (negb (String.eqb fname' fname)); [discriminate|].
    destruct (negb (kversion_equal s fname)); [discriminate|].
    destruct (negb (is_equal a' sa) || negb (is_equal k' skw)); [discriminate|].
    destruct (phys (k_fs s0) (k_stale s0) p) as [f0|]; [|discriminate].
    destruct (negb (is_equal cmpres' (cmp_of c' f0))); [discriminate|].
    destruct (kreplay_list s0 subs0 (start_replay s0)) as [rpx|]; [|discriminate].
    inversion Hhit; subst f0 subs0 ret0 rpx. clear Hhit.
    pose proof (proj1 Hokc _ _ Eg) as K. cbn [frec_staticH orb] in K.
    apply andb_true_iff in K. destruct K as [_ K]. apply andb_true_iff in K. destruct K as [_ K].
    destruct (subs_staticH_parts _ _ _ _ K) as [N1 N2].
    assert (G : Forall goodkey (snd (cll subs'))).
    { apply Forall_forall. intros y Hy. apply wfkey_goodkey. exact (static_wfkeys _ _ _ N1 y Hy). }
    split; [apply kfreshb_kdl; assumption|exact G].
  Qed.

  Lemma okcH_hitS : forall s fname sa skw subs' ret' r,
    GoldH s -> sanitized sa = true -> sanitized skw = true -> pv_wf sa = true -> pv_wf skw = true ->
    core_subhit s fname (subbuild_key fname sa skw) = Some (subs', ret', r) ->
    kdl (subbuild_key fname sa skw :: snd (cll subs')) /\ Forall goodkey (snd (cll subs')).
  Proof.
    intros s fname sa skw subs' ret' r Hold Ssa Sskw Wsa Wskw Hhit.
    unfold core_subhit in Hhit. unfold GoldH in Hold. rewrite Hold in Hhit.
    destruct (subs_get (c_subs old) (subbuild_key fname sa skw)) as [[orec|]|] eqn:Eg; try discriminate.
    destruct orec as [| |f' a' k' subs0 ret0 raised' sf']; try discriminate.
    destruct raised'; [discriminate|].
    destruct (negb (kversion_equal s fname)); [discriminate|].
    destruct (kreplay_list s subs0 (start_replay s)) as [rpx|]; [|discriminate].
    inversion Hhit; subst subs0 ret0 rpx. clear Hhit.
    destruct (proj2 Hokc _ _ Eg) as (q & Q1 & K). cbn [srec_staticH orb] in K.
    apply andb_true_iff in K. destruct K as [K K7]. apply andb_true_iff in K. destruct K as [K K6].
    apply andb_true_iff in K. destruct K as [K K5]. apply andb_true_iff in K. destruct K as [K K4].
    apply andb_true_iff in K. destruct K as [K K3]. apply andb_true_iff in K. destruct K as [K K2].
    destruct (subs_staticH_parts _ _ _ _ K) as [N1 N2].
    pose proof (static_wfkeys _ _ _ N1) as Wy.
    assert (G : Forall goodkey (snd (cll subs'))).
    { apply Forall_forall. intros y Hy. apply wfkey_goodkey. exact (Wy y Hy). }
    split; [|exact G]. cbn [kdl]. split; [|apply kfreshb_kdl; assumption].
    destruct key_laws as (_ & KS & KJ).
    assert (Wk : wfkey (subbuild_key fname sa skw)) by (exists fname, sa, skw; auto).
    assert (Wk' : wfkey (subbuild_key f' a' k')) by (exists f', a', k'; auto).
    assert (E1 : py_eq (subbuild_key fname sa skw) q = true) by (rewrite (KS _ Wk q); exact Q1).
    pose proof (KJ _ _ Wk' Wk q K6 E1) as E2.
    intros y Hy. destruct (py_eq y (subbuild_key fname sa skw)) eqn:E; [|reflexivity].
    pose proof (KJ _ _ Wk' (Wy y Hy) _ E2 E) as E3.
    rewrite forallb_forall in K7. specialize (K7 y Hy). rewrite E3 in K7. discriminate.
  Qed.

  (* the keys of the continuation are new *)
  Lemma cross_contH : forall pr tgt pend subs0 s1 s' out pend' pk,
    core_run pr tgt pend subs0 s1 = (s', (out, pend', subs0 ++ pk)) -> KD s' ->
    forall x y, In x (k_claimedS s1) -> In y (snd (cll pk)) -> py_eq y x = false.
  Proof.
    intros pr tgt pend subs0 s1 s' out pend' pk H [D1 _] x y Hx Hy.
    destruct (core_run_ext pr _ _ _ _ _ _ _ _ H) as (pk' & E & X). apply app_inv_head in E. subst pk'.
    destruct (x_clS _ _ _ _ _ X) as (eS & Ec & HeS). rewrite Ec in D1. apply KDf_app in D1. destruct D1 as (_ & _ & C).
    exact (proj1 (C y x (proj2 (HeS y) Hy) Hx)).
  Qed.

  Lemma kd_stepH : forall o pk pr tgt pend subs0 s1 s' out pend',
    core_run pr tgt pend subs0 s1 = (s', (out, pend', subs0 ++ pk)) -> KD s' ->
    kdl (snd (tree_claims o)) -> kdl (snd (cll pk)) -> incl (snd (tree_claims o)) (k_claimedS s1) ->
    kdl (snd (cll (o :: pk))).
  Proof.
    intros o pk pr tgt pend subs0 s1 s' out pend' H D K1 K2 Hin. rewrite cll_cons. cbn [snd].
    apply kdl_app. split; [exact K1|]. split; [exact K2|].
    intros x y Hx Hy. exact (cross_contH _ _ _ _ _ _ _ _ _ H D x y (Hin x Hx) Hy).
  Qed.

  Definition run_kd_atH (pr : prog) : Prop :=
    forall tgt pend subs s s' out pend' subs',
      core_run pr tgt pend subs s = (s', (out, pend', subs')) -> GoldH s -> KD s ->
      KD s' /\ exists produced, subs' = subs ++ produced /\ kdl (snd (cll produced)).

  (* a record that claims no key *)
  Lemma kd_plainH : forall o pr tgt pend subs s1 s' out pend' subs',
    snd (tree_claims o) = [] ->
    core_run pr tgt pend (subs ++ [o]) s1 = (s', (out, pend', subs')) ->
    (KD s' /\ exists pk, subs' = (subs ++ [o]) ++ pk /\ kdl (snd (cll pk))) ->
    KD s' /\ exists produced, subs' = subs ++ produced /\ kdl (snd (cll produced)).
  Proof.
    intros o pr tgt pend subs s1 s' out pend' subs' E H (D & pk & E1 & K). split; [exact D|].
    exists (o :: pk). split; [rewrite E1, <- app_assoc; reflexivity|]. rewrite cll_cons, E. exact K.
  Qed.

  Lemma kd_recH : forall o pr tgt pend subs s1 s' out pend' subs',
    kdl (snd (tree_claims o)) -> incl (snd (tree_claims o)) (k_claimedS s1) ->
    core_run pr tgt pend (subs ++ [o]) s1 = (s', (out, pend', subs')) ->
    (KD s' /\ exists pk, subs' = (subs ++ [o]) ++ pk /\ kdl (snd (cll pk))) ->
    KD s' /\ exists produced, subs' = subs ++ produced /\ kdl (snd (cll produced)).
  Proof.
    intros o pr tgt pend subs s1 s' out pend' subs' K1 Hin H (D & pk & E1 & K). split; [exact D|].
    exists (o :: pk). split; [rewrite E1, <- app_assoc; reflexivity|]. subst subs'.
    exact (kd_stepH o pk _ _ _ _ _ _ _ _ H D K1 K Hin).
  Qed.

  Theorem run_kdH : forall pr, SimA0.WfArgs pr -> run_kd_atH pr.
  Proof.
    induction pr as [v|e|st q k IHk|c k IHk|st p c fname a kw fn IHfn k IHk|st fname a kw fn IHfn k IHk];
      intros Hwa tgt pend subs s s' out pend' subs' H Gs D; inversion Hwa; subst.
    - inversion H; subst. split; [exact D|]. exists []. split; [rewrite app_nil_r; reflexivity|exact I].
    - inversion H; subst. split; [exact D|]. exists []. split; [rewrite app_nil_r; reflexivity|exact I].
    - rewrite core_run_Ask in H. destruct st; [eapply IHk; eauto|]. cbv zeta in H.
      destruct (spec_answer (k_fs s) q);
        (eapply kd_plainH; [apply record_of_claims_snd|exact H|]; eapply IHk; [auto|exact H|exact Gs|exact D]).
    - rewrite core_run_Write in H. destruct tgt as [p|]; [|eapply IHk; eauto].
      destruct (path_ok p); [|inversion H; subst; split; [exact D|]; exists []; split; [rewrite app_nil_r; reflexivity|exact I]].
      eapply IHk; [auto|exact H|exact Gs|exact D].
    - rewrite core_run_BuildFile in H. destruct st; [eapply IHk; eauto|].
      destruct (sanitize a) as [sa|]; [|eapply IHk; eauto]. destruct (sanitize kw) as [skw|]; [|eapply IHk; eauto].
      cbv zeta in H.
      destruct (claim_check (k_claimedF s) (k_cachefile s) p).
      { eapply kd_plainH; [|exact H|eapply IHk; [auto|exact H|exact Gs|exact D]]. reflexivity. }
      destruct (setup_fs (k_fs s) (k_cachefile s) p) as [[fs1 dirs]|e1].
      2:{ eapply kd_plainH; [|exact H|eapply IHk; [auto|exact H|exact Gs|exact D]]. reflexivity. }
      destruct (core_hit s (core_s0 s p fs1 dirs) p fname sa skw) as [[[[fh subs1] ret1] rp1]|] eqn:Ehit.
      + destruct (okcH_hitF s (core_s0 s p fs1 dirs) _ _ _ _ _ _ _ _ Gs Ehit) as [HB GB].
        destruct (core_hit_inv _ _ _ _ _ _ _ _ _ _ Ehit) as [_ Hkr].
        eapply kd_recH; [| |exact H|eapply IHk; [auto|exact H|exact Gs|]].
        * rewrite tree_claims_BF. exact HB.
        * rewrite tree_claims_BF. cbn [snd core_put adopt ks_with k_claimedS]. rewrite tree_claims_BF. cbn [snd].
          intros x Hx. apply in_or_app. left. exact Hx.
        * apply (KD_adopt s _ (snd (cll subs1)) D); auto.
          -- cbn [core_put adopt ks_with k_newS]. rewrite map_app, tree_regs_keys. reflexivity.
          -- intros x Hx. exact (checks_keys _ _ _ Hkr x Hx).
      + destruct (core_run (fn p sa skw) (Some p) None [] (CoreLaws3.core_start (core_s0 s p fs1 dirs) p fname sa skw)) as [s2 [[res pend2] bsubs]] eqn:Ec2.
        destruct (core_finish s2 p c fname sa skw bsubs res pend2) as [[s3 out3] o3] eqn:Ef.
        destruct (core_finish_keys _ _ _ _ _ _ _ _ _ _ _ _ Ef) as [F1 [F2 [F3 F4]]].
        destruct (core_finish_rec _ _ _ _ _ _ _ _ _ _ _ _ Ef) as (r0 & cr0 & ra0 & Hrec).
        destruct (core_run_ext _ _ _ _ _ _ _ _ _ Ec2) as [pn [Epn Xn]]. cbn [app] in Epn. subst pn.
        destruct (x_const _ _ _ _ _ Xn) as [C1 [C2 _]].
        assert (G1 : GoldH (CoreLaws3.core_start (core_s0 s p fs1 dirs) p fname sa skw)) by exact Gs.
        assert (Wfn : SimA0.WfArgs (fn p sa skw)) by auto.
        destruct (IHfn _ _ _ Wfn _ _ _ _ _ _ _ _ Ec2 G1 D) as (D2 & pn & Epn & Kn). cbn [app] in Epn. subst pn.
        assert (D3 : KD s3) by (unfold KD; rewrite F1, F2; exact D2).
        eapply kd_recH; [| |exact H|eapply IHk; [auto|exact H| |exact D3]].
        * rewrite Hrec, tree_claims_BF. exact Kn.
        * rewrite Hrec, tree_claims_BF. cbn [snd]. rewrite F1.
          destruct (x_clS _ _ _ _ _ Xn) as (eS & Ec & HeS). rewrite Ec. intros x Hx. apply in_or_app. left. apply HeS. exact Hx.
        * unfold GoldH in *. congruence.
    - rewrite core_run_Subbuild in H. destruct st; [eapply IHk; eauto|].
      destruct (sanitize a) as [sa|] eqn:Esa; [|eapply IHk; eauto]. destruct (sanitize kw) as [skw|] eqn:Eskw; [|eapply IHk; eauto].
      cbv zeta in H.
      pose proof (sanitize_sanitized _ _ Esa) as Ssa. pose proof (sanitize_sanitized _ _ Eskw) as Sskw.
      assert (Wsa : pv_wf sa = true) by (eapply sanitize_wf; [|exact Esa]; assumption).
      assert (Wskw : pv_wf skw = true) by (eapply sanitize_wf; [|exact Eskw]; assumption).
      set (key := subbuild_key fname sa skw) in *.
      assert (Gk : goodkey key) by (exists fname, sa, skw; auto).
      destruct (existsb (py_eq key) (k_claimedS s)) eqn:Edup.
      { eapply kd_plainH; [|exact H|eapply IHk; [auto|exact H|exact Gs|exact D]]. reflexivity. }
      destruct (core_subhit s fname key) as [[[subs1 ret1] rp1]|] eqn:Ehit.
      + destruct (okcH_hitS _ _ _ _ _ _ _ Gs Ssa Sskw Wsa Wskw Ehit) as [HB GB].
        pose proof (core_subhit_inv _ _ _ _ _ _ Ehit) as Hkr.
        eapply kd_recH; [| |exact H|eapply IHk; [auto|exact H|exact Gs|]].
        * rewrite tree_claims_SB. exact HB.
        * rewrite tree_claims_SB. cbn [snd adopt ks_with k_claimedS]. rewrite tree_claims_SB. cbn [snd].
          intros x Hx. apply in_or_app. left. exact Hx.
        * apply (KD_adopt s _ (key :: snd (cll subs1)) D); auto.
          -- cbn [adopt ks_with k_newS]. rewrite map_app, tree_regs_keys. reflexivity.
          -- intros x [<-|Hx]; [exact Edup|]. exact (checks_keys _ _ _ Hkr x Hx).
      + destruct (core_run (fn sa skw) None None [] (core_substart s fname sa skw)) as [s2 [[res pd] bsubs]] eqn:Ec2.
        destruct (core_run_ext _ _ _ _ _ _ _ _ _ Ec2) as [pn [Epn Xn]]. cbn [app] in Epn. subst pn.
        destruct (x_const _ _ _ _ _ Xn) as [C1 [C2 _]].
        assert (G1 : GoldH (core_substart s fname sa skw)) by exact Gs.
        assert (D1 : KD (core_substart s fname sa skw)).
        { destruct D as [D1 [D2 [D3 D4]]]. unfold KD. cbn [core_substart klog ks_with k_claimedS k_newS]. split; [|split; [|split]]; auto.
          - cbn [KDf]. split; [|exact D1]. intros y Hy. rewrite Forall_forall in D2. rewrite (goodkey_sym y (subbuild_key fname sa skw) (D2 y Hy) Gk).
            split; eapply existsb_false_In; eauto.
          - intros x Hx. right. apply D4. exact Hx. }
        assert (Wfn : SimA0.WfArgs (fn sa skw)) by auto.
        destruct (IHfn _ _ Wfn _ _ _ _ _ _ _ _ Ec2 G1 D1) as (D2 & pn & Epn & Kn). cbn [app] in Epn. subst pn.
        destruct (x_clS _ _ _ _ _ Xn) as [eS [Hcs HeS]]. destruct (x_newS _ _ _ _ _ Xn) as [nS [Hns HnS]].
        cbn [core_substart klog ks_with k_claimedS k_newS] in Hcs, Hns.
        destruct (sub_rec_shape fname sa skw bsubs res) as (r0 & ra0 & Hrec).
        eapply kd_recH; [| |exact H|eapply IHk; [auto|exact H| |]].
        * rewrite Hrec, tree_claims_SB. cbn [snd kdl]. split; [|exact Kn].
          intros y Hy. refine (cross_contH _ _ _ [] _ _ _ _ bsubs Ec2 D2 key y _ Hy).
          cbn [core_substart klog ks_with k_claimedS]. left. reflexivity.
        * rewrite Hrec, tree_claims_SB. cbn [snd core_subreg ks_with k_claimedS]. rewrite Hcs.
          intros x [<-|Hx]; apply in_or_app; [right; left; reflexivity|left; apply HeS; exact Hx].
        * unfold GoldH in *. cbn [core_subreg ks_with k_old]. congruence.
        * destruct D2 as [E1 [E2 [E3 E4]]].
          unfold KD. cbn [core_subreg ks_with k_claimedS k_newS]. split; [exact E1|]. split; [exact E2|]. split.
          -- rewrite map_app. cbn [map fst]. apply KDf_app. split; [exact E3|]. split; [split; [intros ? []|exact I]|].
             intros x y Hx [<-|[]]. rewrite Hcs in E1. apply KDf_app in E1. destruct E1 as [_ [Ek Ecross]].
             rewrite Hns, map_app in Hx. apply in_app_or in Hx. destruct Hx as [Hx|Hx].
             ++ destruct D as [_ [_ [_ D4]]]. destruct Ek as [Ek _]. destruct (Ek x (D4 x Hx)). split; assumption.
             ++ apply in_map_iff in Hx. destruct Hx as [[k0 o0] [<- Hin]]. cbn [fst].
                destruct (HnS _ _ Hin) as [_ [_ Hk0]]. apply HeS in Hk0. apply (Ecross k0 key Hk0). left. reflexivity.
          -- rewrite map_app. cbn [map fst]. intros x Hx. apply in_app_or in Hx. destruct Hx as [Hx|[<-|[]]]; [apply E4; exact Hx|].
             rewrite Hcs. apply in_or_app. right. left. reflexivity.
  Qed.
End KRH.

Theorem new_cache_keysH : forall w cachefile old nm svers root w1 w2 v l,
  okcH (w_clock w) old -> fs_wf (w_fs w) -> old_ok old cachefile -> WfCache old -> old_keys_ok old -> w_faults w = [] ->
  path_ok (dirname cachefile) = true -> isdir (w_fs w) cachefile = false -> maxlen (w_fs w) < walk_fuel ->
  vdir (Build.start_world w cachefile old nm svers) (dirname cachefile) = true ->
  AllTargets tgtP root -> NoNest [] root -> QueriesOkP root -> WfArgs root ->
  TargetsClear old root -> TargetsApart old root -> RkNew old [] root ->
  (* no function catches the exception of a nested call *)
  NoCatch root ->
  make_dirs (dirname cachefile) (Build.start_world w cachefile old nm svers) = (w1, inl []) ->
  (* the root function returns *)
  run root None [] (set_log (LInvoke "<root>"%string None PNone PNone :: w_log w1) w1) = (w2, (inl v, l)) ->
  RS_keys (w_new w2).
Proof.
  intros w cachefile old nm svers root w1 w2 v l Hokc Hwf Hok HW HKo HF Hp Hnc Hml Hd Hat Hnn Hqk Hwa Hcl Hap _ _ Emk Erun.
  destruct (build_run_hash w cachefile old nm svers root w1 w2 (inl v) l Hokc Hwf Hok HW HKo HF Hp Hnc Hml Hd Hat Hnn Hqk Hwa Hcl Hap Emk Erun)
    as (s1 & pd & sb & T' & W' & Ecore & [HS _]).
  pose proof (Sim4_sim3 _ _ _ _ HS) as HS3.
  set (s0 := ViewK4.core_start (w_fs w) cachefile old svers (w_clock w) (w_nextid w) (LInvoke "<root>"%string None PNone PNone :: w_log w1)) in *.
  assert (D0 : KD s0) by (unfold KD; cbn; split; [exact I|split; [constructor|split; [exact I|intros ? []]]]).
  destruct (run_kdH old (w_clock w) Hokc root Hwa _ _ _ _ _ _ _ _ Ecore (eq_refl : GoldH old s0) D0) as (D1 & produced & Ep & Kp).
  destruct (core_run_ext root _ _ _ _ _ _ _ _ Ecore) as (produced' & Ep' & HX).
  rewrite Ep in Ep'. apply app_inv_head in Ep'. subst produced'. clear Ep.
  destruct (x_clS _ _ _ _ _ HX) as (eS & EeS & HeS). cbn [ViewK4.core_start k_claimedS s0] in EeS. rewrite app_nil_r in EeS.
  destruct (x_newF _ _ _ _ _ HX) as (nF & EnF & HnF). cbn [ViewK4.core_start k_newF app s0] in EnF.
  destruct (x_newS _ _ _ _ _ HX) as (nS & EnS & HnS). cbn [ViewK4.core_start k_newS app s0] in EnS.
  destruct D1 as (_ & GK & _ & _). rewrite EeS in GK. rewrite Forall_forall in GK.
  assert (Deep : forall x, In x (deepl produced) -> KDf (snd (tree_claims x))).
  { intros x Hx. destruct (deepl_claims_sub produced x Hx) as (a & b & E).
    apply kdl_KDf; [|rewrite E in Kp; exact (kdl_mid _ _ _ Kp)].
    apply Forall_forall. intros y Hy. apply GK. apply HeS. rewrite E. apply in_or_app. right. apply in_or_app. left. exact Hy. }
  split.
  - intros p p' c' f' a' k' subs r' cr' sf' Hg.
    pose proof (s3_recF _ _ _ HS3 p) as K. rewrite Hg in K.
    destruct (kf_get (k_newF s1) p) as [o'|] eqn:E; [|contradiction].
    apply kf_get_in in E. rewrite EnF in E. destruct (HnF p o' E) as (Ho' & _ & _).
    pose proof (Deep o' Ho') as Kd. rewrite <- (rec_rel_claims _ _ K), tree_claims_BF in Kd.
    apply KDf_kfreshb. destruct sf'; exact Kd.
  - intros k f a kk subs r sf Hg.
    pose proof (s3_recS _ _ _ HS3 k) as K. rewrite Hg in K.
    destruct (ks_get (k_newS s1) k) as [o'|] eqn:E; [|contradiction].
    destruct (ks_get_in_eq _ _ _ E) as (q & Hq & Eq). rewrite EnS in Hq.
    destruct (HnS q o' Hq) as (Ho' & (f1 & a1 & k1 & subs1 & r1 & ra1 & -> & Eqk) & Hqc).
    pose proof (Deep _ Ho') as Kd. rewrite <- (rec_rel_claims _ _ K) in Kd.
    cbn [rec_rel] in K. destruct K as (<- & <- & <- & _ & _ & _ & ->).
    rewrite tree_claims_SB in Kd. cbn [snd KDf] in Kd. destruct Kd as [Kd1 Kd2].
    split; [apply KDf_kfreshb; exact Kd2|].
    exists q. split; [exact Eq|]. subst q. split.
    + apply goodkey_refl. apply GK. apply HeS. exact Hqc.
    + apply forallb_forall. intros y Hy. apply negb_true_iff. exact (proj1 (Kd1 y Hy)).
Qed.

Print Assumptions new_cache_keysH.
