(* Proofs/SimA1Dirs.v — C04, the link to Core, run level: (D1) a failing _dirs_to_make raises
   exactly what missing_dirs answers on the view; (D2) once _dirs_to_make has answered, making
   the directories cannot fail (no injected fault, no directory to make is the file of a
   target in progress). *)
From Coq Require Import List String Ascii NArith ZArith Bool Arith Lia.
From FB.Base Require Import PyVal Fs.
From FB.Gen Require Import JsonUtilGen.
From FB.Spec Require Import JsonSpec Prog Ref.
From FB.Model Require Import Types Monad CreatedFiles BuildDirs SimpleOps Builder Persist Build Run.
From FB.Proofs Require Import FsLemmas CleanLaws JsonLaws CoreLawsChildren ReplayLaws BuildFileLaws
     ViewDefs ViewLemmas ViewScan ViewQueries ViewAnswers ViewPres ViewFrame ViewPrepare
     ViewXDefs ViewXFrame ViewXQuery ViewXSteps ViewXMake1 ViewXMake2 ViewXFail ViewXRoom2 ViewXSetup
     ViewK3 ViewK6 SimA0 SimA1.
Import ListNotations.
Open Scope list_scope.
Open Scope m_scope.

(* ------------------------------------------------------------------ the two tests never raise *)
Lemma m_is_dir_noerr : forall w p w1 e, BInv w -> path_ok p = true -> m_is_dir p None w = (w1, inr e) -> False.
Proof.
  intros w p w1 e HB Hp H. destruct (m_is_dir_view w p HB (or_introl Hp)) as [w' [E _]].
  rewrite E in H. discriminate.
Qed.

Lemma m_is_file_noerr : forall w p w1 e, BInv w -> m_is_file p None w = (w1, inr e) -> False.
Proof.
  intros w p w1 e HB H. destruct (m_is_file_view w p HB) as [w' [E _]]. rewrite E in H. discriminate.
Qed.

Lemma view_kind_file : forall w p, BInv w -> vfile w p = true -> exists f, lookup (view_fs w) p = Some (NFile f).
Proof.
  intros w p HB H. rewrite (lookup_view_kind w p HB), H.
  unfold vfile in H. apply andb_true_iff in H. destruct H as [H _]. apply isfile_lookup in H. exact H.
Qed.

(* ------------------------------------------------------------------ (D1) *)
Theorem dirs_to_make_err : dirs_to_make_err_statement.
Proof.
  unfold dirs_to_make_err_statement.
  induction d as [|n d IH]; intros T w w1 e HX Hok H; cbn [dirs_to_make] in H; pose proof (x_binv _ _ HX) as HB.
  - exfalso. apply bind_inv in H. destruct H as [[wa [isd [Ed H]]]|[e0 [Ed _]]].
    2:{ eapply m_is_dir_noerr; eassumption. }
    destruct (m_is_dir_inl _ _ _ _ _ HX Ed) as [Eisd _]. rewrite (vdir_root _ HB) in Eisd. subst isd.
    apply bind_inv in H. destruct H as [[wb [isf [Ef H]]]|[e0 [Ef _]]]; [|discriminate].
    inversion Ef; subst wb isf. discriminate.
  - apply bind_inv in H. destruct H as [[wa [isd [Ed H]]]|[e0 [Ed _]]].
    2:{ exfalso. eapply m_is_dir_noerr; eassumption. }
    destruct (m_is_dir_inl _ _ _ _ _ HX Ed) as [Eisd _]. pose proof (m_is_dir_q _ _ _ _ _ Ed) as Qa.
    destruct (qrel_facts _ _ _ HX Qa) as (HXa & Sa & _ & _).
    apply bind_inv in H. cbn [missing_dirs].
    destruct isd.
    + exfalso. destruct H as [[wb [isf [Ef H]]]|[e0 [Ef _]]]; [|discriminate].
      inversion Ef; subst wb isf. discriminate.
    + destruct H as [[wb [isf [Ef H]]]|[e0 [Ef _]]].
      2:{ exfalso. eapply m_is_file_noerr; [apply (x_binv _ _ HXa)|exact Ef]. }
      pose proof (m_is_file_inl _ _ _ _ (x_binv _ _ HXa) Ef) as Eisf. pose proof (m_is_file_q _ _ _ _ _ Ef) as Qb.
      destruct (qrel_facts _ _ _ HXa Qb) as (HXb & Sb & _ & _).
      rewrite (same_view_vfile _ _ _ Sa) in Eisf.
      destruct isf.
      * unfold raise in H. inversion H; subst. exists XNotADirectory. split; [reflexivity|].
        destruct (view_kind_file w (n :: d) HB (eq_sym Eisf)) as [f Hf]. rewrite Hf. reflexivity.
      * rewrite (view_kind_none w (n :: d) HB (eq_sym Eisd) (eq_sym Eisf)).
        apply bind_inv in H. destruct H as [[wc [icf [Ec H]]]|[e0 [Ec _]]]; [|unfold is_cache_file in Ec; discriminate].
        unfold is_cache_file in Ec.
        assert (E1: wc = wb) by congruence. assert (E2: icf = path_eqb (n :: d) (w_cachefile wb)) by congruence.
        subst wc icf. clear Ec.
        pose proof (same_view_trans _ _ _ Sa Sb) as Sab.
        rewrite (sv_cf _ _ Sab) in H.
        destruct (path_eqb (n :: d) (w_cachefile w)) eqn:Ecf.
        -- unfold raise in H. inversion H; subst. exists XNotADirectory. auto.
        -- apply bind_inv in H. destruct H as [[wd [r [Er H]]]|[e0 [Er H]]]; [discriminate|].
           inversion H; subst e0.
           cbn [path_ok forallb] in Hok. apply andb_true_iff in Hok. destruct Hok as [_ Hok].
           destruct (IH T wb w1 e HXb Hok Er) as (c & Ec & K).
           rewrite (same_view_view_fs _ _ Sab), (sv_cf _ _ Sab) in K. exists c. split; [exact Ec|]. rewrite K. reflexivity.
Qed.

(* ------------------------------------------------------------------ (D2) the shape of what _dirs_to_make returns *)
(* strictly longer and longer *)
Fixpoint lsorted (l : list path) : Prop :=
  match l with
  | [] => True
  | q :: r => (forall x, In x r -> List.length q < List.length x) /\ lsorted r
  end.

Lemma lsorted_snoc : forall r a, lsorted r -> (forall x, In x r -> List.length x < List.length a) -> lsorted (r ++ [a]).
Proof.
  induction r as [|q r IH]; intros a Hs Ha; cbn [app lsorted].
  - split; [intros x []|exact I].
  - destruct Hs as [H1 H2]. split.
    + intros x Hx. apply in_app_iff in Hx. destruct Hx as [Hx|[<-|[]]]; [apply H1; exact Hx|apply Ha; left; reflexivity].
    + apply IH; [exact H2|]. intros x Hx. apply Ha. right. exact Hx.
Qed.

Lemma dirs_to_make_sorted : forall d cf w w1 ds, dirs_to_make d cf w = (w1, inl ds) -> lsorted ds.
Proof.
  induction d as [|n d IH]; intros cf w w1 ds H; pose proof H as H0; cbn [dirs_to_make] in H.
  - apply bind_inv in H. destruct H as [[wa [isd [_ H]]]|[e [_ H]]]; [|discriminate].
    apply bind_inv in H. destruct H as [[wb [isf [_ H]]]|[e [_ H]]]; [|discriminate].
    destruct isf; [discriminate|]. destruct isd; [inversion H; subst; exact I|].
    apply bind_inv in H. destruct H as [[wc [icf [_ H]]]|[e [_ H]]]; [|discriminate].
    destruct icf; discriminate.
  - apply bind_inv in H. destruct H as [[wa [isd [_ H]]]|[e [_ H]]]; [|discriminate].
    apply bind_inv in H. destruct H as [[wb [isf [_ H]]]|[e [_ H]]]; [|discriminate].
    destruct isf; [discriminate|]. destruct isd; [inversion H; subst; exact I|].
    apply bind_inv in H. destruct H as [[wc [icf [_ H]]]|[e [_ H]]]; [|discriminate].
    destruct icf; [discriminate|].
    apply bind_inv in H. destruct H as [[wd [r [Hr H]]]|[e [_ H]]]; [|discriminate].
    inversion H; subst. apply lsorted_snoc; [eapply IH; exact Hr|].
    intros x Hx. pose proof (dirs_to_make_suffix _ _ _ _ _ Hr x Hx) as Hs. apply suffix_length in Hs. simpl. lia.
Qed.

(* ------------------------------------------------------------------ one directory, no fault *)
Lemma make_one_dir_noerr : forall n p w w1 r,
  w_faults w = [] -> name_ok n = true -> isdir (w_fs w) p = true ->
  (isfile (w_fs w) (n :: p) = true -> cache_created_file (w_old w) (n :: p) = true) ->
  make_one_dir (n :: p) w = (w1, r) ->
  (exists b, r = inl b) /\ w_faults w1 = [] /\ isdir (w_fs w1) (n :: p) = true.
Proof.
  intros n p w w1 r HF Hn Hp Hfile H.
  assert (Hne: p <> n :: p).
  { intro K. apply (f_equal (@List.length _)) in K. simpl in K. lia. }
  unfold make_one_dir in H. apply bind_inv in H. unfold get in H.
  destruct H as [[wa [w' [E H]]]|[e [E _]]]; [|discriminate]. inversion E; subst wa w'.
  apply bind_inv in H.
  (* the optional backup: afterwards nothing, or a directory, is at the path *)
  assert (Hfirst: forall wa (ra : unit + exn),
            (if isfile (w_fs w) (n :: p) && cache_created_file (w_old w) (n :: p)
             then b <- back_up_and_remove (n :: p) ;; ret tt else ret tt) w = (wa, ra) ->
            ra = inl tt /\ w_faults wa = [] /\ isdir (w_fs wa) p = true /\ isfile (w_fs wa) (n :: p) = false).
  { intros wa ra H0. destruct (isfile (w_fs w) (n :: p) && cache_created_file (w_old w) (n :: p)) eqn:Ec.
    - apply andb_true_iff in Ec. destruct Ec as [Ef Eo].
      apply bind_inv in H0.
      assert (Hb: forall wb rb, back_up_and_remove (n :: p) w = (wb, rb) ->
                rb = inl true /\ w_faults wb = [] /\ isdir (w_fs wb) p = true /\ isfile (w_fs wb) (n :: p) = false).
      { intros wb rb Eb. destruct (back_up_nofault _ _ _ _ HF Eb) as (Fb & Cb & Hf & _).
        destruct (Hf Ef) as (Er & Hg & Ho). split; [exact Er|]. split; [exact Fb|]. split.
        - unfold isdir. rewrite (Ho p Hne). exact Hp.
        - unfold isfile. rewrite Hg. reflexivity. }
      destruct H0 as [[wb [bb [Eb H0]]]|[e [Eb _]]].
      + inversion H0; subst. destruct (Hb _ _ Eb) as (_ & K). split; [reflexivity|exact K].
      + destruct (Hb _ _ Eb) as [K _]. discriminate.
    - inversion H0; subst. split; [reflexivity|]. split; [exact HF|]. split; [exact Hp|].
      destruct (isfile (w_fs wa) (n :: p)) eqn:Ef; [|reflexivity]. rewrite (Hfile eq_refl) in Ec. discriminate. }
  destruct H as [[wa [u [E1 H]]]|[e [E1 _]]].
  2:{ destruct (Hfirst _ _ E1) as [K _]. discriminate. }
  destruct (Hfirst _ _ E1) as (_ & HFa & Hpa & Hnf).
  unfold catch in H.
  destruct ((effect "mkdir" (n :: p) (fun fs => mkdir fs (n :: p)) ;;; ret true) wa) as [wb [bb|e]] eqn:E2.
  - inversion H; subst w1 r. apply bind_inv in E2. destruct E2 as [[wc [u' [E3 E4]]]|[e [_ E4]]]; [|discriminate].
    inversion E4; subst wc bb.
    destruct (effect_nofault_inv _ _ _ _ _ _ HFa E3) as (Fb & _ & [[fs' (R1 & R2 & _)]|[e (_ & _ & R3)]]); [|discriminate].
    apply mkdir_frame in R1. destruct R1 as (M1 & _ & _).
    split; [eauto|]. split; [exact Fb|]. unfold isdir. rewrite R2, M1. reflexivity.
  - apply bind_inv in E2. destruct E2 as [[wc [u' [_ E4]]]|[e' [E3 E4]]]; [discriminate|].
    inversion E4; subst e'.
    destruct (effect_nofault_inv _ _ _ _ _ _ HFa E3) as (Fb & _ & [[fs' (_ & _ & R3)]|[er (R1 & R2 & R3)]]); [discriminate|].
    inversion R3; subst e.
    (* the only possible error is EEXIST, at a directory *)
    unfold mkdir in R1. apply isdir_lookup in Hpa. rewrite Hpa, Hn in R1.
    unfold isfile in Hnf.
    destruct (lookup (w_fs wa) (n :: p)) as [[g|]|] eqn:El; try discriminate.
    inversion R1; subst er. cbn in H. inversion H; subst w1 r.
    split; [eauto|]. split; [exact Fb|]. unfold isdir. rewrite R2, El. reflexivity.
Qed.

(* ------------------------------------------------------------------ the loop *)
Lemma make_dirs_loop_noerr : forall ds made w w1 e,
  w_faults w = [] -> lsorted ds -> ~ In [] ds ->
  (forall n p, In (n :: p) ds -> name_ok n = true /\ (isdir (w_fs w) p = true \/ In p ds)) ->
  (forall q, In q ds -> isfile (w_fs w) q = true -> cache_created_file (w_old w) q = true) ->
  make_dirs_loop ds made w = (w1, inr e) -> False.
Proof.
  induction ds as [|q ds IH]; intros made w w1 e HF Hs Hnil Hpar Hfile H; cbn [make_dirs_loop] in H; [discriminate|].
  destruct q as [|n p]; [apply Hnil; left; reflexivity|].
  destruct Hs as [Hlen Hs].
  apply bind_inv in H. destruct H as [[wa [res [E H]]]|[e0 [E _]]].
  2:{ unfold attempt in E. destruct (make_one_dir (n :: p) w); discriminate. }
  unfold attempt in E. destruct (make_one_dir (n :: p) w) as [wb rr] eqn:E1. inversion E; subst wb res.
  destruct (Hpar n p (or_introl eq_refl)) as [Hn Hp].
  assert (Hpd: isdir (w_fs w) p = true).
  { destruct Hp as [Hp|[Hp|Hp]]; [exact Hp| |].
    - apply (f_equal (@List.length _)) in Hp. simpl in Hp. lia.
    - apply Hlen in Hp. simpl in Hp. lia. }
  pose proof (make_one_dir_step _ _ _ _ E1) as ((_ & C2 & _ & _) & _ & S3).
  destruct (make_one_dir_noerr n p w wa rr HF Hn Hpd (Hfile _ (or_introl eq_refl)) E1) as ([b ->] & HFa & Hqd).
  apply (IH _ _ _ _ HFa Hs) in H; [exact H|intro K; apply Hnil; right; exact K| |].
  - intros n' p' Hin. destruct (Hpar n' p' (or_intror Hin)) as [Hn' Hp']. split; [exact Hn'|].
    destruct (list_eq_dec string_dec p' (n :: p)) as [->|Hne]; [left; exact Hqd|].
    destruct Hp' as [Hp'|[Hp'|Hp']].
    + left. unfold isdir. rewrite (S3 p' Hne). exact Hp'.
    + exfalso. apply Hne. symmetry. exact Hp'.
    + right. exact Hp'.
  - intros q Hq Hf. assert (Hne: q <> n :: p).
    { intro K. subst q. apply Hlen in Hq. lia. }
    rewrite C2. apply (Hfile q (or_intror Hq)). unfold isfile in *. rewrite <- (S3 q Hne). exact Hf.
Qed.

(* ------------------------------------------------------------------ (D2) *)
Theorem make_dirs_noerr : make_dirs_noerr_statement.
Proof.
  intros d T w w1 e HR Hok Hprog H. pose proof HR as (HX & HP & HF).
  unfold make_dirs in H. apply bind_inv in H. destruct H as [[wa [ds [Eds H]]]|[e0 [Eds H]]].
  2:{ inversion H; subst e0. exact Eds. }
  exfalso.
  pose proof (qrel_RInv T _ _ (dirs_to_make_q _ _ _ _ _ Eds) HR) as (HXa & HPa & HFa).
  destruct (dirs_to_make_spec d T w wa ds HX Eds) as [Q I O].
  destruct (qrel_facts _ _ _ HX Q) as (_ & Sa & _ & _).
  assert (Efa: w_fs wa = w_fs w) by (apply (sv_fs _ _ Sa)).
  assert (Enew: w_new wa = w_new w) by (apply (sv_new _ _ Sa)).
  assert (Eold: w_old wa = w_old w) by (apply (sv_old _ _ Sa)).
  apply bind_inv in H. destruct H as [[wb [u [_ H]]]|[e0 [Eloop H]]]; [discriminate|].
  inversion H; subst e0. clear H.
  apply (make_dirs_loop_noerr ds [] wa w1 e HFa (dirs_to_make_sorted _ _ _ _ _ Eds)); [| | |exact Eloop].
  - intro K. destruct (I [] K) as (_ & B & _). apply B. reflexivity.
  - intros n p Hin. destruct (I _ Hin) as (A & _).
    split.
    + destruct A as [l A]. rewrite A in Hok. unfold path_ok in Hok. rewrite forallb_app in Hok.
      apply andb_true_iff in Hok. destruct Hok as [_ Hok]. cbn [forallb] in Hok.
      apply andb_true_iff in Hok. apply Hok.
    + destruct (in_dec (list_eq_dec string_dec) p ds) as [Hp|Hp]; [right; exact Hp|left].
      assert (Hsp: suffix p d). { eapply suffix_trans; [|exact A]. exists [n]. reflexivity. }
      destruct (O p Hsp Hp) as [_ V]. unfold vdir in V. apply andb_true_iff in V. rewrite Efa. apply V.
  - intros q Hin Hf. rewrite Efa in Hf. rewrite Eold.
    destruct (I _ Hin) as (A & _ & _ & D & E).
    unfold vfile in D. rewrite Hf in D. cbn [andb] in D. apply negb_false_iff in D.
    unfold hid in D. apply path_eqb_neq in E. rewrite E in D. cbn [orb] in D.
    unfold cache_has_file, cache_get_file in D.
    destruct (files_get (c_files (w_new w)) q) as [[o|]|] eqn:Eg; [discriminate| |exact D].
    exfalso. apply (Hprog q A Hf). exact Eg.
Qed.

Print Assumptions dirs_to_make_err.
Print Assumptions make_dirs_noerr.
