(* Proofs/SimJEx.v — validation by evaluation (vm_compute) of the class SimJ4.okcH on the history
   of SimGEx.ExH (EVERY build_file call and EVERY read compares by HASH): the caches written by
   the first and the later builds are outside SimC0.okc (SimGEx.later_builds) but inside okcH, so
   the previous-cache hypothesis of SimJ10.mech_C01_hash / mech_commit3_hash holds for the second,
   third and fourth build of that history; their conclusions (checkers SimCEx.mech_c01b,
   SimGEx.commit_c01b) are observed to hold.                                                *)
From Coq Require Import List String Ascii NArith ZArith Bool Arith Lia.
From FB.Base Require Import PyVal Fs.
From FB.Gen Require Import JsonUtilGen.
From FB.Spec Require Import JsonSpec Prog Ref Oracle Faithful.
From FB.Model Require Import Types Monad CreatedFiles BuildDirs SimpleOps Builder Persist Build Run Frame Dsl Core CoreOracle.
From FB.Proofs Require Import FsLemmas ViewDefs ViewK2 ViewK3 SimA0 SimAEx SimB1 SimC0 SimCEx SimGEx SimJ4.
Import ListNotations.
Open Scope string_scope.
Open Scope list_scope.

Definition okcH_at (cf : path) (nm : string) (vers : pyval) (w : world) : bool :=
  match sanitize vers with
  | Some svers => okcHb (w_clock w) (old_cache_of (w_fs w) cf nm svers)
  | None => false
  end.

Lemma okcH_at_sound : forall cf nm vers svers w, sanitize vers = Some svers -> okcH_at cf nm vers w = true ->
  okcH (w_clock w) (old_cache_of (w_fs w) cf nm svers).
Proof. intros cf nm vers svers w E H. unfold okcH_at in H. rewrite E in H. apply okcHb_sound. exact H. Qed.

Import ExH.

Example hash_history :
  map (fun w => (okc_at CF "n" V w, okcH_at CF "n" V w, mech_c01b CF "n" V root w, commit_c01b CF "n" V root w)) [w0; w1; w2'; w3] =
  [(true, true, true, true); (false, true, true, true); (false, true, true, true); (false, true, true, true)].
Proof. vm_compute. reflexivity. Qed.

Print Assumptions okcH_at_sound.
Print Assumptions hash_history.
