(* Proofs/SimAMain.v — C04, the link to Core, run level: the theorems.

   RELATIVE to four hypotheses about cache hits (the decision of the two lookups, and the state
   after a record was reused — SimA0.v: lookup_agree_hyp, sblookup_agree_hyp, hit_agree_hyp,
   sbhit_agree_hyp; the first two follow from ViewK8.lookup_agree_statement and
   SimA0.sblookup_agree_statement), for every program that satisfies the side conditions:
     sim4_run_thm     run / core_run from Sim4-related states end in Sim4-related states
     sim3_run_thm     the same in the shape of ViewK8.sim3_run_statement
     build_agree_thm  the build-level corollary, in the shape of ViewK8.build_agree_statement *)
From Coq Require Import List String Ascii NArith ZArith Bool Arith Lia.
From FB.Base Require Import PyVal Fs.
From FB.Gen Require Import JsonUtilGen.
From FB.Spec Require Import JsonSpec Prog Ref Oracle Faithful.
From FB.Model Require Import Types Monad CreatedFiles BuildDirs SimpleOps Builder Persist Build Run Frame Core CoreOracle.
From FB.Proofs Require Import FsLemmas JsonLaws ReplayLaws CleanLaws BuildFileLaws HashMemoInv HashMemoRun CoreLaws1 CoreLaws2 CoreLaws3
     ViewDefs ViewLemmas ViewFrame ViewInit ViewXDefs ViewXQuery ViewXMake1 ViewXMake2 ViewXFail ViewXSetup ViewXRun
     ViewR1 ViewR2 ViewR3 ViewK1 ViewK2 ViewK3 ViewK4 ViewK8
     SimA0 SimARun SimA1 SimA2Base SimA2 SimA3 SimA3Built SimA3Log SimA2Claim SimA2Pre SimA2Finish SimA2Sub SimA2Node SimAStart.
Import ListNotations.
Open Scope list_scope.

Local Notation RInv2' := (RInv2 (fun _ => True)).

(* ------------------------------------------------------------------ the decision hypotheses follow from the ViewK8 statements *)
Lemma lookup_agree_of_statement : lookup_agree_statement -> lookup_agree_hyp.
Proof.
  intros H st T W w s0 p f sa skw wl cached _ (HP & _ & Hunc & _) _ _ _ _ El.
  rewrite core_hit_none_iff.
  apply (H (p :: T) W w s0 p f sa skw wl cached (s4_sim _ _ _ _ HP) (s4_rinv _ _ _ _ HP) (or_introl eq_refl) Hunc El).
Qed.

Lemma sblookup_agree_of_statement : sblookup_agree_statement -> sblookup_agree_hyp.
Proof.
  intros H st T W w s f sa skw wl cached _ HS _ _ _ _ _ Hunc El.
  apply (H T W w s _ f wl cached (Sim4_sim3 _ _ _ _ HS) (Sim4_rinv2 _ _ _ _ HS) Hunc El).
Qed.

Section Main.
  (* [ok]: the class of previous caches for which the hypotheses are assumed *)
  Variable ok : cache -> Prop.
  Hypothesis Hlook : lookup_agree_hyp_for ok.
  Hypothesis Hhit : hit_agree_hyp_for ok.
  Hypothesis Hsblook : sblookup_agree_hyp_for ok.
  Hypothesis Hsbhit : sbhit_agree_hyp_for ok.

  Lemma bf_node_ok : bf_node_statement_for ok.
  Proof. exact (bf_node ok pre_ok claim_ok finish_ok_cf built Hlook Hhit). Qed.

  Lemma sb_node_ok : sb_node_statement_for ok.
  Proof. exact (sb_node_for ok built Hsblook Hsbhit). Qed.

  (* ---------------------------------------------------------------- every program *)
  Theorem sim4_run_thm : forall pr old, ok old ->
    AllTargets tgtP pr -> QueriesOk pr -> WfArgs pr -> TargetsClear old pr -> TargetsApart old pr ->
    forall st, NoNest st pr ->
    forall tg pend subs subs' T W w s w' r l s' r' pend' l',
      w_old w = old -> Sim4 T W w s -> Ctx4 st tg pend w -> recs_rel subs subs' ->
      run pr tg subs w = (w', (r, l)) -> core_run pr tg pend subs' s = (s', (r', pend', l')) ->
      run_post st tg W w w' r l s' r' pend' l'.
  Proof. exact (sim4_run ok bf_node_ok sb_node_ok). Qed.

  (* in the shape of ViewK8.sim3_run_statement: the premises Sim3 / RInv2 / Ctx are strengthened to
     Sim4 / Ctx4, two side conditions are added (TargetsApart, WfArgs) *)
  Theorem sim3_run_thm : forall pr st tg pend subs subs' T W w s w' r l s' r' pend' l',
    ok (w_old w) -> AllTargets tgtP pr -> NoNest st pr -> QueriesOk pr -> WfArgs pr ->
    TargetsClear (w_old w) pr -> TargetsApart (w_old w) pr ->
    Sim4 T W w s -> Ctx4 st tg pend w -> recs_rel subs subs' ->
    run pr tg subs w = (w', (r, l)) -> core_run pr tg pend subs' s = (s', (r', pend', l')) ->
    exists W' T', Sim3 W' w' s' /\ RInv2' T' w' /\ Ctx tg pend' T' w' /\
                  r = r' /\ recs_rel l l' /\ vis_log (w_log w') = vis_log (k_log s') /\
                  Sim4 T' W' w' s' /\ Ctx4 st tg pend' w'.
  Proof.
    intros pr st tg pend subs subs' T W w s w' r l s' r' pend' l' Hokw Hat Hnn Hqk Hwa Hcl Hap HS HC Hsubs H1 H2.
    destruct (sim4_run_thm pr (w_old w) Hokw Hat Hqk Hwa Hcl Hap st Hnn tg pend subs subs' T W w s w' r l s' r' pend' l'
                eq_refl HS HC Hsubs H1 H2) as (T' & W' & A1 & A2 & A3 & A4 & A5 & A6 & A7).
    exists W', T'. split; [apply (Sim4_sim3 _ _ _ _ A1)|]. split; [apply (Sim4_rinv2 _ _ _ _ A1)|].
    split.
    - split; [apply (c4_pend _ _ _ _ A2)|]. intros p Ep.
      destruct (c4_tg _ _ _ _ A2 p Ep) as [Hin _]. apply (proj2 (c4_prog _ _ _ _ A2 p)) in Hin.
      destruct (Sim4_rinv _ _ _ _ A1) as (_ & HPI & _). apply HPI. exact Hin.
    - split; [exact A4|]. split; [exact A5|]. split; [apply (s3_log _ _ _ (Sim4_sim3 _ _ _ _ A1))|]. split; [exact A1|exact A2].
  Qed.

  (* ---------------------------------------------------------------- one build *)
  Lemma vis_log_app : forall a b, vis_log (a ++ b) = vis_log a ++ vis_log b.
  Proof. intros a b. unfold vis_log. apply filter_app. Qed.

  Lemma vis_log_noeffect : forall l, Forall (fun e => match e with LEffect _ _ => False | _ => True end) l -> vis_log l = l.
  Proof.
    induction l as [|e l IH]; intro H; [reflexivity|]. inversion H as [|x r Hx Hr]; subst.
    destruct e; cbn [vis_log filter]; try (f_equal; apply IH; exact Hr). contradiction.
  Qed.

  (* in the shape of ViewK8.build_agree_statement (added: old_keys_ok — true of every cache that
     was read from a cache file —, TargetsApart, WfArgs) *)
  Theorem build_agree_thm : forall w cachefile old nm svers root w1 w2 r l,
    ok old -> fs_wf (w_fs w) -> old_ok old cachefile -> WfCache old -> old_keys_ok old -> w_faults w = [] ->
    path_ok (dirname cachefile) = true -> isdir (w_fs w) cachefile = false -> maxlen (w_fs w) < walk_fuel ->
    vdir (Build.start_world w cachefile old nm svers) (dirname cachefile) = true ->
    AllTargets tgtP root -> NoNest [] root -> QueriesOk root -> WfArgs root ->
    TargetsClear old root -> TargetsApart old root ->
    make_dirs (dirname cachefile) (Build.start_world w cachefile old nm svers) = (w1, inl []) ->
    run root None [] (set_log (LInvoke "<root>"%string None PNone PNone :: w_log w1) w1) = (w2, (r, l)) ->
    let cr := core_build (w_fs w) cachefile old svers (w_clock w) (w_nextid w) root in
    cr_outcome cr = r /\
    (exists L0, vis_log (w_log w2) = rev (cr_log cr) ++ L0) /\
    trel (c_built (w_new w2)) (view_fs w2) (cr_tree cr).
  Proof.
    intros w cachefile old nm svers root w1 w2 r l Hokc Hwf Hok HW HKo HF Hp Hnc Hml Hd Hat Hnn Hqk Hwa Hcl Hap Emk Erun cr.
    destruct (sim4_start w cachefile old nm svers Hwf Hok HW HKo HF Hp Hnc Hml Hd) as (w1b & Eb & HS0 & HC0 & Hold0).
    assert (w1b = w1) by congruence. subst w1b. clear Eb. cbv zeta in HS0, HC0, Hold0.
    destruct (sim3_start w cachefile old nm svers Hwf Hok HF Hp Hd) as (w1c & Ec & Hmiss & _).
    set (lg := LInvoke "<root>"%string None PNone PNone :: w_log w1) in *.
    set (s0 := ViewK4.core_start (w_fs w) cachefile old svers (w_clock w) (w_nextid w) lg) in *.
    (* Core's build starts from the same state, with a fresh log *)
    assert (Ecr: cr = let '(s1, (res, _, _)) := core_run root None None [] (with_log [LInvoke "<root>"%string None PNone PNone] s0) in
                      {| cr_outcome := res; cr_tree := k_fs s1; cr_log := rev (k_log s1); cr_state := Some s1 |}).
    { unfold cr, core_build. rewrite Hmiss. cbn [mkdir_all fold_left]. reflexivity. }
    destruct (core_run root None None [] (with_log [LInvoke "<root>"%string None PNone PNone] s0)) as [s1 [[res pd] sb]] eqn:Ecore.
    destruct (core_log root None None [] s0 [LInvoke "<root>"%string None PNone PNone] s1 (res, pd, sb) Ecore lg) as (ex & Elog & Erun2).
    assert (Es0: with_log lg s0 = s0) by (apply (with_log_self s0)).
    rewrite Es0 in Erun2.
    destruct (core_log_noeffect root None None [] _ _ _ Ecore) as (ex' & Elog' & Hne).
    assert (ex' = ex).
    { change (k_log (with_log [LInvoke "<root>"%string None PNone PNone] s0)) with [LInvoke "<root>"%string None PNone PNone] in Elog'.
      rewrite Elog in Elog'. apply app_inv_tail in Elog'. symmetry. exact Elog'. }
    subst ex'.
    destruct (sim4_run_thm root old Hokc Hat Hqk Hwa Hcl Hap [] Hnn None None [] [] [] []
                (set_log lg w1) s0 w2 r l (with_log (ex ++ lg) s1) res pd sb Hold0 HS0 HC0 I Erun Erun2)
      as (T' & W' & A1 & A2 & A3 & A4 & A5 & A6 & A7).
    rewrite Ecr. cbn [cr_outcome cr_log cr_tree].
    split; [symmetry; exact A4|]. split.
    - exists (vis_log (w_log w1)). rewrite rev_involutive, Elog.
      rewrite (s3_log _ _ _ (Sim4_sim3 _ _ _ _ A1)).
      change (k_log (with_log (ex ++ lg) s1)) with (ex ++ lg). rewrite vis_log_app, (vis_log_noeffect _ Hne).
      unfold lg. cbn [vis_log filter]. rewrite <- app_assoc. reflexivity.
    - pose proof (Sim4_trel _ _ _ _ A1) as Ht. destruct A1 as (_ & _ & _ & HWb).
      apply (trel_mono W' _ _ _ HWb Ht).
  Qed.
End Main.

Print Assumptions sim4_run_thm.
Print Assumptions sim3_run_thm.
Print Assumptions build_agree_thm.

(* ------------------------------------------------------------------ with the decision in the form of ViewK8 *)
Corollary sim3_run_from_K8 :
  lookup_agree_statement -> sblookup_agree_statement -> hit_agree_hyp -> sbhit_agree_hyp ->
  forall pr st tg pend subs subs' T W w s w' r l s' r' pend' l',
    AllTargets tgtP pr -> NoNest st pr -> QueriesOk pr -> WfArgs pr ->
    TargetsClear (w_old w) pr -> TargetsApart (w_old w) pr ->
    Sim4 T W w s -> Ctx4 st tg pend w -> recs_rel subs subs' ->
    run pr tg subs w = (w', (r, l)) -> core_run pr tg pend subs' s = (s', (r', pend', l')) ->
    exists W' T', Sim3 W' w' s' /\ RInv2 (fun _ => True) T' w' /\ Ctx tg pend' T' w' /\
                  r = r' /\ recs_rel l l' /\ vis_log (w_log w') = vis_log (k_log s') /\
                  Sim4 T' W' w' s' /\ Ctx4 st tg pend' w'.
Proof.
  intros H1 H2 H3 H4.
  intros pr st tg pend subs subs' T W w s w' r l s' r' pend' l'.
  exact (sim3_run_thm (fun _ => True) (lookup_agree_of_statement H1) H3 (sblookup_agree_of_statement H2) H4
           pr st tg pend subs subs' T W w s w' r l s' r' pend' l' I).
Qed.

Corollary build_agree_from_K8 :
  lookup_agree_statement -> sblookup_agree_statement -> hit_agree_hyp -> sbhit_agree_hyp ->
  forall w cachefile old nm svers root w1 w2 r l,
    fs_wf (w_fs w) -> old_ok old cachefile -> WfCache old -> old_keys_ok old -> w_faults w = [] ->
    path_ok (dirname cachefile) = true -> isdir (w_fs w) cachefile = false -> maxlen (w_fs w) < walk_fuel ->
    vdir (Build.start_world w cachefile old nm svers) (dirname cachefile) = true ->
    AllTargets tgtP root -> NoNest [] root -> QueriesOk root -> WfArgs root ->
    TargetsClear old root -> TargetsApart old root ->
    make_dirs (dirname cachefile) (Build.start_world w cachefile old nm svers) = (w1, inl []) ->
    run root None [] (set_log (LInvoke "<root>"%string None PNone PNone :: w_log w1) w1) = (w2, (r, l)) ->
    let cr := core_build (w_fs w) cachefile old svers (w_clock w) (w_nextid w) root in
    cr_outcome cr = r /\
    (exists L0, vis_log (w_log w2) = rev (cr_log cr) ++ L0) /\
    trel (c_built (w_new w2)) (view_fs w2) (cr_tree cr).
Proof.
  intros H1 H2 H3 H4.
  intros w cachefile old nm svers root w1 w2 r l.
  exact (build_agree_thm (fun _ => True) (lookup_agree_of_statement H1) H3 (sblookup_agree_of_statement H2) H4
           w cachefile old nm svers root w1 w2 r l I).
Qed.

(* ------------------------------------------------------------------ previous caches without records: no hypothesis left *)
(* ViewXRun.norec: no record of a file or of a subbuild can be looked up (a first build; a cache
   that only lists created directories).  Both lookups miss on both sides, so the four hypotheses
   hold, and the theorems are unconditional. *)
Lemma lookup_agree_norec : lookup_agree_hyp_for norec.
Proof.
  intros st T W w s0 p f sa skw wl cached Hn (HP & _) _ _ _ _ El.
  rewrite (lookup_norec p f sa skw w Hn) in El. inversion El; subst wl cached.
  split; [intros _|reflexivity].
  unfold core_hit. rewrite (s3_old _ _ _ (s4_sim _ _ _ _ HP)). rewrite (proj1 Hn p). reflexivity.
Qed.

Lemma hit_agree_norec : hit_agree_hyp_for norec.
Proof.
  intros st T W w s0 p c f sa skw wl co w1 r fnode subs' ret' rr Hn _ _ _ _ _ El.
  rewrite (lookup_norec p f sa skw w Hn) in El. discriminate.
Qed.

Lemma sblookup_agree_norec : sblookup_agree_hyp_for norec.
Proof.
  intros st T W w s f sa skw wl cached Hn HS _ _ _ _ _ _ El.
  rewrite (sublookup_norec _ f w Hn) in El. inversion El; subst wl cached.
  split; [intros _|reflexivity].
  unfold core_subhit. rewrite (s3_old _ _ _ (Sim4_sim3 _ _ _ _ HS)).
  pose proof (proj2 Hn (subbuild_key f sa skw)) as K.
  destruct (subs_get (c_subs (w_old w)) (subbuild_key f sa skw)) as [[o|]|]; [destruct K|reflexivity|reflexivity].
Qed.

Lemma sbhit_agree_norec : sbhit_agree_hyp_for norec.
Proof.
  intros st T W w s f sa skw wl co w1 r subs' ret' rr Hn _ _ _ _ _ _ _ El.
  rewrite (sublookup_norec _ f w Hn) in El. discriminate.
Qed.

Theorem sim3_run_norec : forall pr st tg pend subs subs' T W w s w' r l s' r' pend' l',
  norec (w_old w) -> AllTargets tgtP pr -> NoNest st pr -> QueriesOk pr -> WfArgs pr ->
  TargetsClear (w_old w) pr -> TargetsApart (w_old w) pr ->
  Sim4 T W w s -> Ctx4 st tg pend w -> recs_rel subs subs' ->
  run pr tg subs w = (w', (r, l)) -> core_run pr tg pend subs' s = (s', (r', pend', l')) ->
  exists W' T', Sim3 W' w' s' /\ RInv2 (fun _ => True) T' w' /\ Ctx tg pend' T' w' /\
                r = r' /\ recs_rel l l' /\ vis_log (w_log w') = vis_log (k_log s') /\
                Sim4 T' W' w' s' /\ Ctx4 st tg pend' w'.
Proof. exact (sim3_run_thm norec lookup_agree_norec hit_agree_norec sblookup_agree_norec sbhit_agree_norec). Qed.

Theorem build_agree_norec : forall w cachefile old nm svers root w1 w2 r l,
  norec old -> fs_wf (w_fs w) -> old_ok old cachefile -> WfCache old -> old_keys_ok old -> w_faults w = [] ->
  path_ok (dirname cachefile) = true -> isdir (w_fs w) cachefile = false -> maxlen (w_fs w) < walk_fuel ->
  vdir (Build.start_world w cachefile old nm svers) (dirname cachefile) = true ->
  AllTargets tgtP root -> NoNest [] root -> QueriesOk root -> WfArgs root ->
  TargetsClear old root -> TargetsApart old root ->
  make_dirs (dirname cachefile) (Build.start_world w cachefile old nm svers) = (w1, inl []) ->
  run root None [] (set_log (LInvoke "<root>"%string None PNone PNone :: w_log w1) w1) = (w2, (r, l)) ->
  let cr := core_build (w_fs w) cachefile old svers (w_clock w) (w_nextid w) root in
  cr_outcome cr = r /\
  (exists L0, vis_log (w_log w2) = rev (cr_log cr) ++ L0) /\
  trel (c_built (w_new w2)) (view_fs w2) (cr_tree cr).
Proof. exact (build_agree_thm norec lookup_agree_norec hit_agree_norec sblookup_agree_norec sbhit_agree_norec). Qed.

Print Assumptions sim3_run_norec.
Print Assumptions build_agree_norec.
Print Assumptions sim3_run_from_K8.
Print Assumptions build_agree_from_K8.
Check sim4_run_thm.
Check sim3_run_thm.
Check build_agree_thm.

(* in particular every first build (no cache file yet: the previous cache is the empty one) *)
Lemma norec_empty : forall nm v, norec (empty_cache nm v).
Proof. intros nm v. split; [intro p; reflexivity|intro k; exact I]. Qed.
