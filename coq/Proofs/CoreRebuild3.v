(* Proofs/CoreRebuild3.v — what a successful replay of clean records does to the scratch tree:
   claims are untouched, files at claimed paths stay, the recorded outputs are put in place with
   the node found on disk, directories of the base tree stay, and every change is a new directory
   (listed in rp_made) or a recorded output.  Structure of tree_claims / tree_regs / tree_outputs. *)
From Coq Require Import List String Ascii NArith ZArith Bool Arith Lia Btauto.
From FB.Base Require Import PyVal Fs.
From FB.Gen Require Import JsonUtilGen.
From FB.Spec Require Import JsonSpec Prog Ref Oracle Faithful.
From FB.Model Require Import Types SimpleOps Builder Persist Core CoreOracle CoreCache.
From FB.Proofs Require Import FsLemmas CleanLaws CoreLawsChildren CoreLaws1 CoreLaws2 CoreLaws3 CoreLaws4 CoreLaws5
     CoreRebuildDefs CoreRebuild1 CoreRebuild2.
Import ListNotations.
Local Open Scope list_scope.

(* ------------------------------------------------------------------ *)
(* claims, registrations and outputs of a record tree                 *)
(* ------------------------------------------------------------------ *)
Definition rgstep (acc : list (path * op) * list (pyval * op)) (x : op) :=
  (fst acc ++ fst (tree_regs x), snd acc ++ snd (tree_regs x)).
Definition rgl (subs : list op) := fold_left rgstep subs ([], []).

Lemma rgstep_fold : forall subs a b, fold_left rgstep subs (a, b) = (a ++ fst (rgl subs), b ++ snd (rgl subs)).
Proof.
  unfold rgl. induction subs as [|x rest IH]; intros a b; cbn [fold_left].
  - rewrite !app_nil_r. reflexivity.
  - unfold rgstep at 2 4 6. cbn [fst snd]. rewrite IH. rewrite (IH ([] ++ _) ([] ++ _)). cbn [app fst snd].
    rewrite !app_assoc. reflexivity.
Qed.

Lemma rgl_cons : forall x rest, rgl (x :: rest) = (fst (tree_regs x) ++ fst (rgl rest), snd (tree_regs x) ++ snd (rgl rest)).
Proof. intros. unfold rgl at 1. cbn [fold_left]. unfold rgstep at 2. cbn [fst snd app]. apply rgstep_fold. Qed.

Lemma tree_regs_BF : forall p c f a k subs r cr ra sf,
  tree_regs (OBuildFile p c f a k subs r cr ra sf) =
  if sf then rgl subs else ((p, OBuildFile p c f a k subs r cr ra sf) :: fst (rgl subs), snd (rgl subs)).
Proof. reflexivity. Qed.
Lemma tree_regs_SB : forall f a k subs r ra sf,
  tree_regs (OSubbuild f a k subs r ra sf) =
  if sf then rgl subs else (fst (rgl subs), (subbuild_key f a k, OSubbuild f a k subs r ra sf) :: snd (rgl subs)).
Proof. reflexivity. Qed.

Lemma regs_claims : forall o,
  map fst (fst (tree_regs o)) = fst (tree_claims o) /\ map fst (snd (tree_regs o)) = snd (tree_claims o).
Proof.
  assert (L : forall subs, Forall (fun o => map fst (fst (tree_regs o)) = fst (tree_claims o) /\
                                            map fst (snd (tree_regs o)) = snd (tree_claims o)) subs ->
              map fst (fst (rgl subs)) = fst (cll subs) /\ map fst (snd (rgl subs)) = snd (cll subs)).
  { induction subs as [|x subs IH]; intro H; [split; reflexivity|].
    inversion H; subst. destruct H2 as [E1 E2]. destruct (IH H3) as [E3 E4].
    rewrite rgl_cons, cll_cons. cbn [fst snd]. rewrite !map_app, E1, E2, E3, E4. split; reflexivity. }
  induction o as [q r ex|p c f a k subs r cr ra sf IH|f a k subs r ra sf IH] using op_ind'.
  - split; reflexivity.
  - rewrite tree_regs_BF, tree_claims_BF. destruct (L subs IH) as [E1 E2]. destruct sf; cbn [fst snd map]; rewrite ?E1, ?E2; split; reflexivity.
  - rewrite tree_regs_SB, tree_claims_SB. destruct (L subs IH) as [E1 E2]. destruct sf; cbn [fst snd map]; rewrite ?E1, ?E2; split; reflexivity.
Qed.

(* every record registered by adopting a clean tree is clean, and it is the record of its target *)
Lemma regs_clean : forall o, op_clean o = true ->
  (forall e, In e (fst (tree_regs o)) -> op_clean (snd e) = true) /\
  (forall e, In e (snd (tree_regs o)) -> op_clean (snd e) = true).
Proof.
  assert (L : forall subs, Forall (fun o => op_clean o = true ->
                 (forall e, In e (fst (tree_regs o)) -> op_clean (snd e) = true) /\
                 (forall e, In e (snd (tree_regs o)) -> op_clean (snd e) = true)) subs ->
              forallb op_clean subs = true ->
              (forall e, In e (fst (rgl subs)) -> op_clean (snd e) = true) /\
              (forall e, In e (snd (rgl subs)) -> op_clean (snd e) = true)).
  { induction subs as [|x subs IH]; intros H Hc; [split; intros e []|].
    inversion H; subst. simpl in Hc. apply andb_true_iff in Hc. destruct Hc as [Hx Hs].
    destruct (H2 Hx) as [A1 A2]. destruct (IH H3 Hs) as [B1 B2].
    rewrite rgl_cons. cbn [fst snd]. split; intros e He; apply in_app_or in He; destruct He; auto. }
  induction o as [q r ex|p c f a k subs r cr ra sf IH|f a k subs r ra sf IH] using op_ind'; intro Hc.
  - split; intros e [].
  - pose proof Hc as Hc'. apply op_clean_BF in Hc. destruct Hc as [-> [-> Hs]]. destruct (L subs IH Hs) as [B1 B2].
    rewrite tree_regs_BF. cbn [fst snd]. split; [|exact B2]. intros e [<-|He]; [exact Hc'|auto].
  - pose proof Hc as Hc'. apply op_clean_SB in Hc. destruct Hc as [-> [-> Hs]]. destruct (L subs IH Hs) as [B1 B2].
    rewrite tree_regs_SB. cbn [fst snd]. split; [exact B1|]. intros e [<-|He]; [exact Hc'|auto].
Qed.

Lemma outputs_claims : forall o, op_clean o = true -> forall q, In q (tree_outputs o) -> In q (fst (tree_claims o)).
Proof.
  assert (L : forall subs, Forall (fun o => op_clean o = true -> forall q, In q (tree_outputs o) -> In q (fst (tree_claims o))) subs ->
              forallb op_clean subs = true -> forall q, In q (flat_map tree_outputs subs) -> In q (fst (cll subs))).
  { induction subs as [|x subs IH]; intros H Hc q Hq; [contradiction|].
    inversion H; subst. simpl in Hc. apply andb_true_iff in Hc. destruct Hc as [Hx Hs].
    rewrite cll_cons. cbn [fst]. simpl in Hq. apply in_app_or in Hq. apply in_or_app. destruct Hq; [left; auto|right; auto]. }
  induction o as [q r ex|p c f a k subs r cr ra sf IH|f a k subs r ra sf IH] using op_ind'; intros Hc q0 Hq.
  - contradiction.
  - apply op_clean_BF in Hc. destruct Hc as [-> [-> Hs]]. rewrite tree_claims_BF. cbn [fst]. cbn [tree_outputs app] in Hq.
    destruct Hq as [<-|Hq]; [left; reflexivity|right; apply (L subs IH Hs); exact Hq].
  - apply op_clean_SB in Hc. destruct Hc as [-> [-> Hs]]. rewrite tree_claims_SB. cbn [fst]. cbn [tree_outputs] in Hq.
    apply (L subs IH Hs). exact Hq.
Qed.

Lemma outputs_claims_l : forall subs, forallb op_clean subs = true ->
  forall q, In q (flat_map tree_outputs subs) -> In q (fst (cll subs)).
Proof.
  induction subs as [|x subs IH]; intros Hc q Hq; [contradiction|].
  simpl in Hc. apply andb_true_iff in Hc. destruct Hc as [Hx Hs].
  rewrite cll_cons. cbn [fst]. simpl in Hq. apply in_app_or in Hq. apply in_or_app.
  destruct Hq; [left; apply outputs_claims; assumption|right; auto].
Qed.

Lemma tree_outputs_BF : forall p c f a k subs r cr sf,
  tree_outputs (OBuildFile p c f a k subs r cr false sf) = p :: flat_map tree_outputs subs.
Proof. reflexivity. Qed.

(* ------------------------------------------------------------------ *)
(* replays                                                            *)
(* ------------------------------------------------------------------ *)
Definition file_at (fs : fsT) (q : path) (g : fnode) : Prop := lookup fs q = Some (NFile g).

Lemma RepL_claims : forall B l r r', RepL B l r r' ->
  rp_claimedF r' = rp_claimedF r /\ rp_claimedS r' = rp_claimedS r.
Proof.
  intros B l r r' H. induction H; try (split; reflexivity); try assumption.
  - destruct IHRepL1 as [A1 A2]. destruct IHRepL2 as [B1 B2]. cbn in *. split; congruence.
  - destruct IHRepL1 as [A1 A2]. destruct IHRepL2 as [B1 B2]. split; congruence.
Qed.

Lemma phys_notdir : forall fs st p f, phys fs st p = Some f -> isdir fs p = false.
Proof. intros fs st p f H. unfold phys in H. unfold isdir. destruct (lookup fs p) as [[g|]|]; try discriminate; reflexivity. Qed.

(* files at paths claimed before the replay are not touched *)
Lemma RepL_stable : forall B l r r', RepL B l r r' ->
  forall q, mem_path q (rp_claimedF r) = true -> forall g, file_at (rp_fs r') q g <-> file_at (rp_fs r) q g.
Proof.
  intros B l r r' H. induction H; intros q0 Hq g; try tauto.
  - apply IHRepL; assumption.
  - destruct (RepL_claims _ _ _ _ H6) as [C1 _]. cbn in C1.
    assert (Hne : q0 <> p) by (intro; subst; congruence).
    rewrite (IHRepL2 q0); [|cbn; rewrite C1; exact Hq]. unfold file_at. cbn [rp_put rp_fs].
    rewrite lookup_upd_neq by exact Hne. fold (file_at (rp_fs r2) q0 g).
    rewrite (IHRepL1 q0); [|exact Hq]. unfold file_at. cbn [rp_start rp_fs].
    rewrite try_remove_frame by exact Hne.
    destruct (mkdir_all_frame _ _ _ H5 q0) as [E|[E1 [E2 _]]]; [rewrite E; tauto|rewrite E1, E2; split; discriminate].
  - destruct (RepL_claims _ _ _ _ H1) as [C1 _].
    rewrite (IHRepL2 q0); [|rewrite C1; exact Hq]. apply IHRepL1. exact Hq.
Qed.

(* the recorded outputs are not claimed before the replay *)
Lemma RepL_unclaimed : forall B l r r', RepL B l r r' ->
  forall q, In q (flat_map tree_outputs l) -> mem_path q (rp_claimedF r) = false.
Proof.
  intros B l r r' H. induction H; intros q0 Hq.
  - contradiction.
  - apply IHRepL. exact Hq.
  - destruct (RepL_claims _ _ _ _ H6) as [C1 _]. cbn in C1.
    cbn [flat_map] in Hq. rewrite tree_outputs_BF in Hq. cbn [app] in Hq. destruct Hq as [<-|Hq]; [exact H2|].
    apply in_app_or in Hq. destruct Hq as [Hq|Hq]; [apply (IHRepL1 _ Hq)|].
    specialize (IHRepL2 _ Hq). cbn in IHRepL2. rewrite C1 in IHRepL2. exact IHRepL2.
  - destruct (RepL_claims _ _ _ _ H1) as [C1 _].
    cbn [flat_map tree_outputs] in Hq. apply in_app_or in Hq. destruct Hq as [Hq|Hq]; [apply (IHRepL1 _ Hq)|].
    specialize (IHRepL2 _ Hq). rewrite C1 in IHRepL2. exact IHRepL2.
Qed.

(* the recorded outputs are put in place, with the node found on disk; files that are the ones on disk stay *)
Lemma RepL_placed : forall B l r r', RepL B l r r' ->
  (forall q g, phys (k_fs B) (k_stale B) q = Some g -> file_at (rp_fs r) q g -> file_at (rp_fs r') q g) /\
  (forall q, In q (flat_map tree_outputs l) -> exists g, phys (k_fs B) (k_stale B) q = Some g /\ file_at (rp_fs r') q g).
Proof.
  intros B l r r' H. induction H.
  - split; [auto|intros q []].
  - exact IHRepL.
  - destruct IHRepL1 as [K1 P1]. destruct IHRepL2 as [K2 P2].
    assert (Kp : forall q g, phys (k_fs B) (k_stale B) q = Some g -> file_at (rp_fs r) q g \/ q = p -> file_at (rp_fs (rp_put r2 p f)) q g).
    { intros q g Hph Hq. unfold file_at. cbn [rp_put rp_fs]. destruct (path_eqb q p) eqn:E.
      - apply path_eqb_eq in E. subst q. rewrite lookup_upd_eq; [congruence|]. intro; subst. cbn in H4.
        unfold phys in H0. simpl in H0. discriminate.
      - apply path_eqb_neq in E. destruct Hq as [Hq|Hq]; [|contradiction]. rewrite lookup_upd_neq by exact E.
        apply (K1 q g Hph). unfold file_at. cbn [rp_start rp_fs]. rewrite try_remove_frame by exact E.
        destruct (mkdir_all_frame _ _ _ H5 q) as [E1|[E1 _]]; [rewrite E1; exact Hq|unfold file_at in Hq; congruence]. }
    split.
    + intros q g Hph Hq. apply (K2 q g Hph). apply Kp; auto.
    + intros q Hq. cbn [flat_map] in Hq. rewrite tree_outputs_BF in Hq. cbn [app] in Hq. destruct Hq as [<-|Hq].
      * exists f. split; [exact H0|]. apply (K2 p f H0). apply Kp; auto.
      * apply in_app_or in Hq. destruct Hq as [Hq|Hq]; [|apply P2; exact Hq].
        destruct (P1 q Hq) as [g [Hph Hg]]. exists g. split; [exact Hph|]. apply (K2 q g Hph).
        unfold file_at. cbn [rp_put rp_fs]. destruct (path_eqb q p) eqn:E.
        -- apply path_eqb_eq in E. subst q. rewrite lookup_upd_eq; [congruence|]. intro; subst. unfold phys in H0. simpl in H0. discriminate.
        -- apply path_eqb_neq in E. rewrite lookup_upd_neq by exact E. exact Hg.
  - destruct IHRepL1 as [K1 P1]. destruct IHRepL2 as [K2 P2]. split.
    + intros q g Hph Hq. apply (K2 q g Hph). apply (K1 q g Hph). exact Hq.
    + intros q Hq. cbn [flat_map tree_outputs] in Hq. apply in_app_or in Hq. destruct Hq as [Hq|Hq]; [|apply P2; exact Hq].
      destruct (P1 q Hq) as [g [Hph Hg]]. exists g. split; [exact Hph|]. apply (K2 q g Hph). exact Hg.
Qed.

(* directories of the base tree stay *)
Lemma RepL_dirs : forall B l r r', RepL B l r r' ->
  forall q, isdir (k_fs B) q = true -> isdir (rp_fs r) q = true -> isdir (rp_fs r') q = true.
Proof.
  intros B l r r' H. induction H; intros q0 Hb Hq; auto.
  apply IHRepL2; [exact Hb|]. unfold isdir. cbn [rp_put rp_fs].
  assert (Hne : q0 <> p) by (intro; subst; rewrite (phys_notdir _ _ _ _ H0) in Hb; discriminate).
  rewrite lookup_upd_neq by exact Hne. apply IHRepL1; [exact Hb|]. unfold isdir. cbn [rp_start rp_fs].
  rewrite try_remove_frame by exact Hne. unfold isdir in Hq.
  destruct (mkdir_all_frame _ _ _ H5 q0) as [E|[E1 _]]; [rewrite E; exact Hq|rewrite E1 in Hq; discriminate].
Qed.

(* every change is a directory made (and listed) or a recorded output *)
Definition chg (B : kstate) (outs : list path) (r r' : rstate') (q : path) : Prop :=
  lookup (rp_fs r') q = lookup (rp_fs r) q \/
  (lookup (rp_fs r) q = None /\ lookup (rp_fs r') q = Some NDir /\ In q (rp_made r')) \/
  (exists g, lookup (rp_fs r') q = Some (NFile g) /\ In q outs /\ isdir (k_fs B) q = false).

Lemma RepL_made : forall B l r r', RepL B l r r' -> exists ex, rp_made r' = rp_made r ++ ex.
Proof.
  intros B l r r' H. induction H.
  - exists []. rewrite app_nil_r. reflexivity.
  - exact IHRepL.
  - destruct IHRepL1 as [e1 E1]. destruct IHRepL2 as [e2 E2]. cbn in E1, E2.
    exists (dirs ++ e1 ++ e2). rewrite E2, E1, <- !app_assoc. reflexivity.
  - destruct IHRepL1 as [e1 E1]. destruct IHRepL2 as [e2 E2]. exists (e1 ++ e2). rewrite E2, E1, <- !app_assoc. reflexivity.
Qed.

Lemma chg_trans : forall B o1 o2 r r1 r2 q, (forall x, In x (rp_made r1) -> In x (rp_made r2)) ->
  chg B o1 r r1 q -> chg B o2 r1 r2 q -> chg B (o1 ++ o2) r r2 q.
Proof.
  intros B o1 o2 r r1 r2 q Hm H1 H2. unfold chg in *.
  destruct H2 as [E2|[[N2 [D2 M2]]|[g [G2 [I2 B2]]]]].
  - rewrite E2. destruct H1 as [E1|[[N1 [D1 M1]]|[g [G1 [I1 B1]]]]].
    + left. exact E1.
    + right. left. auto.
    + right. right. exists g. split; [exact G1|]. split; [apply in_or_app; auto|exact B1].
  - destruct H1 as [E1|[[N1 [D1 M1]]|[g [G1 [I1 B1]]]]]; try congruence.
    right. left. rewrite <- E1. auto.
  - right. right. exists g. split; [exact G2|]. split; [apply in_or_app; auto|exact B2].
Qed.

Lemma chg_weaken : forall B o o' r r' q, (forall x, In x o -> In x o') -> chg B o r r' q -> chg B o' r r' q.
Proof.
  intros B o o' r r' q Hi [E|[N|[g [G [I Bd]]]]]; [left; exact E|right; left; exact N|].
  right. right. exists g. auto.
Qed.

Lemma RepL_chg : forall B l r r', RepL B l r r' -> forall q, chg B (flat_map tree_outputs l) r r' q.
Proof.
  intros B l r r' H. induction H; intro q0.
  - left. reflexivity.
  - apply IHRepL.
  - destruct (RepL_made _ _ _ _ H6) as [e1 E1]. destruct (RepL_made _ _ _ _ H7) as [e2 E2]. cbn in E1, E2.
    cbn [flat_map]. rewrite tree_outputs_BF.
    destruct (path_eqb q0 p) eqn:E.
    + apply path_eqb_eq in E. subst q0.
      assert (Hne : p <> []) by (intro; subst; unfold phys in H0; simpl in H0; discriminate).
      assert (Hp : lookup (rp_fs (rp_put r2 p f)) p = Some (NFile f)) by (cbn; apply lookup_upd_eq; exact Hne).
      destruct (IHRepL2 p) as [E2'|[[N2 _]|[g [G2 [I2 B2]]]]]; [|congruence|].
      * right. right. exists f. split; [congruence|]. split; [left; reflexivity|eapply phys_notdir; eauto].
      * right. right. exists g. split; [exact G2|]. split; [left; reflexivity|exact B2].
    + apply path_eqb_neq in E.
      assert (S1 : chg B [] r (rp_start r p fs1 dirs) q0).
      { unfold chg. cbn [rp_start rp_fs rp_made]. rewrite try_remove_frame by exact E.
        destruct (mkdir_all_frame _ _ _ H5 q0) as [E0|[E0 [E0' E0'']]]; [left; exact E0|right; left].
        split; [exact E0|]. split; [exact E0'|apply in_or_app; auto]. }
      assert (S2 : chg B [] r2 (rp_put r2 p f) q0).
      { left. cbn. apply lookup_upd_neq. exact E. }
      apply (chg_weaken B (([] ++ flat_map tree_outputs subs) ++ [] ++ flat_map tree_outputs rest)).
      { intros x Hx. cbn [app] in Hx. right. exact Hx. }
      assert (A1 : chg B ([] ++ flat_map tree_outputs subs) r r2 q0).
      { eapply chg_trans; [|exact S1|apply IHRepL1]. intros x Hx. rewrite E1. apply in_or_app. left. exact Hx. }
      assert (A2 : chg B ([] ++ flat_map tree_outputs rest) r2 r' q0).
      { eapply chg_trans; [|exact S2|apply IHRepL2]. intros x Hx. rewrite E2. apply in_or_app. left. exact Hx. }
      eapply chg_trans; [|exact A1|exact A2]. intros x Hx. rewrite E2. apply in_or_app. left. exact Hx.
  - destruct (RepL_made _ _ _ _ H2) as [e2 E2]. cbn [flat_map tree_outputs].
    eapply chg_trans; [|apply IHRepL1|apply IHRepL2]. intros x Hx. rewrite E2. apply in_or_app. auto.
Qed.

Lemma RepL_need : forall B l r r', RepL B l r r' -> forall x, In x (rp_need r) -> In x (rp_need r').
Proof.
  intros B l r r' H. induction H; intros x Hx; auto.
  apply IHRepL2. cbn. apply IHRepL1. cbn. right. exact Hx.
Qed.
