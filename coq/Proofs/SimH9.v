(* Proofs/SimH9.v — first partial result for CacheRTOpen.committed_cache_wf_next_statement (a build
   that starts from the cache file written from a writable cache c0): the build is accepted
   with old cache read_back c0 roots0; if it commits, no created directory of the new cache is
   listed twice and the cache file holds cache_to_json of the new cache (in particular no entry
   of the new cache is in progress) [committed_cache_next_file_partial]. *)
From Coq Require Import List String Ascii NArith ZArith Bool Arith Lia Permutation.
From FB.Base Require Import PyVal Fs.
From FB.Gen Require Import JsonUtilGen.
From FB.Spec Require Import JsonSpec Prog.
From FB.Model Require Import Types Monad CreatedFiles BuildDirs SimpleOps Builder PathNorm Persist PersistSpec Build Run.
From FB.Proofs Require Import FsLemmas JsonLaws PersistLaws ReplayLaws BuildFileLaws
  CacheRTDefs CacheRTLaws CacheRTCycle CacheRTForest CacheRTOpen SimH1 SimH3 SimH8.
Import ListNotations.
Local Open Scope list_scope.

Lemma next_accepted : forall cf nm svers w f0 c0 roots0,
  lookup (w_fs w) cf = Some (NFile f0) -> f_json f0 = cache_to_json c0 ->
  writable c0 roots0 -> c_name c0 = nm ->
  accepted cf nm svers w (read_back c0 roots0).
Proof.
  intros cf nm svers w f0 c0 roots0 Hl Hj Hw Hn. right. exists f0. split; [exact Hl|].
  destruct (write_read c0 roots0 Hw) as (j & J1 & J2). rewrite Hj, J1. split; [exact J2|].
  destruct (read_back_fields c0 roots0) as (F1 & _). congruence.
Qed.

Theorem committed_cache_next_file_partial : forall cf nm vers svers root w w' v f0 c0 roots0,
  sanitize vers = Some svers ->
  lookup (w_fs w) cf = Some (NFile f0) -> f_json f0 = cache_to_json c0 ->
  writable c0 roots0 -> c_name c0 = nm ->
  run_build cf nm vers root w = (w', Done (inl v)) ->
  let c := w_new w' in
  c_name c = nm /\ c_fvers c = svers /\
  paths_nodup (c_dirs c) = true /\
  (exists ops, cache_operations c = Some ops /\ cache_forest c = Some (root_operations ops)) /\
  exists f, lookup (w_fs w') cf = Some (NFile f) /\ f_json f = cache_to_json c.
Proof.
  intros cf nm vers svers root w w' v f0 c0 roots0 Hs Hl Hj Hw Hn H c.
  pose proof (next_accepted cf nm svers w f0 c0 roots0 Hl Hj Hw Hn) as Hacc.
  destruct (accepted_build_end _ _ _ _ _ _ _ _ _ Hs Hacc H) as (w1 & ccd & w2 & l & E1 & E2 & Hnew & Hf & j & Hjj).
  pose proof (make_dirs_meta _ _ _ _ E1) as (M1 & M2 & M3).
  pose proof (run_meta _ _ _ _ _ _ E2) as (N1 & N2 & N3). cbn [w_new set_log] in N1, N2, N3.
  cbn [w_new start_world empty_cache c_name c_fvers c_dirs] in M1, M2, M3.
  assert (D1 : c_name c = nm) by (unfold c; rewrite Hnew; unfold new_cache_of; cbn [c_name cache_with]; congruence).
  assert (D2 : c_fvers c = svers) by (unfold c; rewrite Hnew; unfold new_cache_of; cbn [c_fvers cache_with]; congruence).
  split; [exact D1|]. split; [exact D2|]. split; [|split; [|exact Hf]].
  - unfold c. rewrite Hnew. unfold new_cache_of. cbn [c_dirs cache_with].
    rewrite N3, M3. unfold union_paths. apply dedup_fold_nodup'. reflexivity.
  - fold c in Hjj. unfold cache_to_json in Hjj. unfold cache_forest.
    destruct (cache_operations c) as [ops|] eqn:Eo; [|discriminate Hjj].
    exists ops. split; reflexivity.
Qed.

Print Assumptions committed_cache_next_file_partial.
