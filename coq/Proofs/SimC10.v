(* Proofs/SimC10.v — glue SimA/SimB, part 10: the two nodes for the strengthened relation Sim5
   (SimC0: Sim4 + Extra), for previous caches of the class okc — with NO hypothesis about
   cache hits.  The proofs follow SimA2Node.bf_node / SimA2Sub.sb_node_proof; where those use
   the hypotheses lookup_agree_hyp_for / hit_agree_hyp_for (sblookup / sbhit), the theorems of
   SimC6 / SimC7 / SimC8 are used, with their extra premises taken from Extra; and Extra is
   re-established at the end of the node.  (The hypotheses of SimA0 themselves cannot be proved
   for a class that admits METADATA reads: they quantify over every W with Sim3 W w s, and Sim3
   is weaker for a larger W; the premise "the targets of W are claimed" is missing there.)   *)
From Coq Require Import List String Ascii NArith ZArith Bool Arith Lia.
From FB.Base Require Import PyVal Fs.
From FB.Gen Require Import JsonUtilGen.
From FB.Spec Require Import JsonSpec Prog Ref Oracle Faithful.
From FB.Model Require Import Types Monad CreatedFiles BuildDirs SimpleOps Builder Persist Build Run Frame Core CoreOracle.
From FB.Proofs Require Import FsLemmas JsonLaws ReplayLaws CleanLaws BuildFileLaws HashMemoInv HashMemoRun CoreLaws1 CoreLaws2 CoreLaws3 CoreLaws4 CoreLaws6
     ViewDefs ViewLemmas ViewFrame ViewInit ViewPres ViewXDefs ViewXFrame ViewXError ViewXQuery ViewXSteps ViewXMake1 ViewXMake2 ViewXFail ViewXSetup ViewXRun
     ViewH7 ViewR1 ViewR2 ViewR3 ViewR9 ViewK1 ViewK2 ViewK3 ViewK4 ViewK5 ViewK7 ViewK8
     SimA0 SimARun SimA1 SimA1Keys SimA1Vlog SimA2Base SimA2 SimA3 SimA3Built SimA3Cf SimA2Claim SimA2Pre SimA2Finish SimA2Sub SimA2Node
     SimC0 SimC6 SimC7 SimC8 SimC9.
Import ListNotations.
Open Scope list_scope.
Open Scope m_scope.

Local Notation RInv2' := (RInv2 (fun _ => True)).

(* ------------------------------------------------------------------ statements *)
Definition run_post5 (c0 : N) (st : list path) (tg : option path) (W : list path) (w w' : world)
           (r : outcome) (l : list op) (s s' : kstate) (r' : outcome) (pend' : option string) (l' : list op) : Prop :=
  exists T' W', Sim5 c0 T' W' w' s' /\ Ctx4 st tg pend' w' /\ frame4 st tg w w' /\
                r = r' /\ recs_rel l l' /\ Wincl W W' /\ w_old w' = w_old w /\
                (k_clock s <= k_clock s')%N /\ PendClock c0 pend' s'.

Definition node_post5 (c0 : N) (st : list path) (tg : option path) (pend : option string) (W : list path) (w w1 : world)
           (r : outcome) (o : option op) (s s1 : kstate) (r' : outcome) (o' : option op) : Prop :=
  exists T' W', Sim5 c0 T' W' w1 s1 /\ Ctx4 st tg pend w1 /\
                (forall y, In y st -> lookup (w_fs w1) y = lookup (w_fs w) y) /\
                r = r' /\ orec_rel o o' /\ Wincl W W' /\ w_old w1 = w_old w /\ (k_clock s <= k_clock s1)%N.

Definition bf_body_ok5 (c0 : N) (st : list path) (old : cache) (p : path) (fnp : pyval -> pyval -> prog) : Prop :=
  forall sa skw T0 W0 w0 s0 w3 res l3 s3 res' pend3 l3',
    w_old w0 = old -> Sim5 c0 T0 W0 w0 s0 -> Ctx4 (p :: st) (Some p) None w0 ->
    run (fnp sa skw) (Some p) [] w0 = (w3, (res, l3)) ->
    core_run (fnp sa skw) (Some p) None [] s0 = (s3, (res', pend3, l3')) ->
    run_post5 c0 (p :: st) (Some p) W0 w0 w3 res l3 s0 s3 res' pend3 l3'.

Definition sb_body_ok5 (c0 : N) (st : list path) (old : cache) (fnp : pyval -> pyval -> prog) : Prop :=
  forall sa skw T0 W0 w0 s0 w3 res l3 s3 res' pend3 l3',
    w_old w0 = old -> Sim5 c0 T0 W0 w0 s0 -> Ctx4 st None None w0 ->
    run (fnp sa skw) None [] w0 = (w3, (res, l3)) ->
    core_run (fnp sa skw) None None [] s0 = (s3, (res', pend3, l3')) ->
    run_post5 c0 st None W0 w0 w3 res l3 s0 s3 res' pend3 l3'.

(* ------------------------------------------------------------------ Extra along steps *)
(* the mechanism side after any step that is tq and keeps / extends the claims *)
Lemma extra_mech : forall c0 W w s w1, Extra c0 W w s -> tq w w1 ->
  (forall q, cache_has_file (w_new w) q = true -> cache_has_file (w_new w1) q = true) ->
  (forall p, mem_path p W = true -> cache_has_file (w_new w1) p = true) /\ (c0 <= w_clock w1)%N /\
  (forall p f, mem_path p W = true -> lookup (w_fs w1) p = Some (NFile f) -> (c0 < f_mtime f)%N).
Proof.
  intros c0 W w s w1 HE [Q1 Q2] Hcl. split; [|split].
  - intros p Hp. apply Hcl. apply (ex_cl _ _ _ _ HE p Hp).
  - eapply N.le_trans; [apply (ex_wclock _ _ _ _ HE)|exact Q1].
  - intros p f Hp Hf. destruct (Q2 p f Hf) as [K|K]; [apply (ex_wnew _ _ _ _ HE p f Hp K)|].
    eapply N.le_lt_trans; [apply (ex_wclock _ _ _ _ HE)|exact K].
Qed.

Lemma run_claims_has : forall pr tg subs w w' r, run pr tg subs w = (w', r) ->
  forall q, cache_has_file (w_new w) q = true -> cache_has_file (w_new w') q = true.
Proof. intros pr tg subs w w' r H. apply (run_claims_mono _ _ _ _ _ _ H). Qed.

Lemma node_claims_has : forall p c f a kw fn w w1 ro,
  m_build_file p c f a kw (fun p' sa skw w' => run (fn p' sa skw) (Some p') [] w') w = (w1, ro) ->
  forall q, cache_has_file (w_new w) q = true -> cache_has_file (w_new w1) q = true.
Proof.
  intros p c f a kw fn w w1 ro H. refine (proj1 (m_build_file_claims_mono p c f a kw _ w w1 ro _ H)).
  intros p' a' k' v v' r' Hv. cbv beta in Hv. apply (run_claims_mono _ _ _ _ _ _ Hv).
Qed.

Lemma node_tq : forall p c f a kw fn w w1 ro,
  m_build_file p c f a kw (fun p' sa skw w' => run (fn p' sa skw) (Some p') [] w') w = (w1, ro) -> tq w w1.
Proof.
  intros p c f a kw fn w w1 ro H. refine (m_build_file_tq p c f a kw _ _ w w1 ro H).
  intros sa skw. apply run_tq.
Qed.

Lemma subnode_claims_has : forall f a kw fn w w1 ro,
  m_subbuild f a kw (fun sa skw w' => run (fn sa skw) None [] w') w = (w1, ro) ->
  forall q, cache_has_file (w_new w) q = true -> cache_has_file (w_new w1) q = true.
Proof.
  intros f a kw fn w w1 ro H. refine (proj1 (m_subbuild_claims_mono f a kw _ w w1 ro _ H)).
  intros a' k' v v' r' Hv. cbv beta in Hv. apply (run_claims_mono _ _ _ _ _ _ Hv).
Qed.

Lemma subnode_tq : forall f a kw fn w w1 ro,
  m_subbuild f a kw (fun sa skw w' => run (fn sa skw) None [] w') w = (w1, ro) -> tq w w1.
Proof.
  intros f a kw fn w w1 ro H. refine (m_subbuild_tq f a kw _ _ w w1 ro H). intros sa skw. apply run_tq.
Qed.

(* Core's tree after the setup of a target keeps the regular files *)
Lemma setup_fs_files : forall fs cf p fs1 dirs, fs_wf fs -> setup_fs fs cf p = inl (fs1, dirs) ->
  forall x g, lookup fs1 x = Some (NFile g) -> lookup fs x = Some (NFile g).
Proof.
  intros fs cf p fs1 dirs Hwf H x g Hx. unfold setup_fs in H. destruct (isdir fs p); [discriminate|].
  destruct (missing_dirs fs cf (dirname p)) as [ds|e] eqn:Em; [|discriminate].
  destruct (mkdir_all fs ds) as [fs'|e] eqn:Ek; [|discriminate]. inversion H; subst fs' ds.
  destruct (setup_dirs _ _ _ _ _ Hwf Em Ek) as (_ & _ & Hfr & _).
  destruct (Hfr x) as [E|(_ & E & _)]; congruence.
Qed.

(* the claims of both sides are tied by Sim3: a step that does not change Core's claims does not
   change the mechanism's *)
Lemma sim3_claims_eq : forall W w s W' w' s', Sim3 W w s -> Sim3 W' w' s' ->
  (forall x, mem_path x (k_claimedF s') = mem_path x (k_claimedF s)) ->
  forall x, cache_has_file (w_new w') x = cache_has_file (w_new w) x.
Proof. intros W w s W' w' s' H H' E x. rewrite <- (s3_claimsF _ _ _ H' x), <- (s3_claimsF _ _ _ H x). apply E. Qed.

Lemma bf_pre_tq : forall p, pres tqPO (bf_pre p).
Proof. intro p. exact (bf_pre_like_tq p). Qed.

(* ------------------------------------------------------------------ a query, a write *)
Lemma sim5_query : forall c0 st tg pend T W w s q w1 r o,
  Sim5 c0 T W w s -> Ctx4 st tg pend w -> path_ok (spec_query_path q) = true ->
  (forall p c, q = QRead p c -> c = METADATA) ->
  m_query q w = (w1, (r, o)) ->
  let a := spec_answer (k_fs s) q in
  let ua := match a with inl v => inl v | inr c => inr (XOS c) end in
  let w2 := log_answer q ua w1 in
  (exists o', o = Some o' /\ rec_rel o' (record_of q (record_answer (k_fs s) q))) /\
  user_answer q r w1 = ua /\
  Sim5 c0 T W w2 (klog (LAnswer q a) s) /\ Ctx4 st tg pend w2 /\ w_fs w2 = w_fs w /\ w_old w2 = w_old w.
Proof.
  intros c0 st tg pend T W w s q w1 r o [HS HE] HC Hp Hread H a ua w2.
  destruct (sim4_query st tg pend T W w s q w1 r o HS HC Hp Hread H) as (A1 & A2 & A3 & A4 & A5 & A6).
  fold a in A2, A3, A4, A5, A6. fold ua in A2, A3, A4, A5, A6. fold w2 in A3, A4, A5, A6.
  split; [exact A1|]. split; [exact A2|]. split; [|split; [exact A4|split; [exact A5|exact A6]]].
  split; [exact A3|].
  pose proof (m_query_svb _ _ _ _ H) as (B1 & B2 & _ & _ & B5 & _).
  assert (Enew: w_new w2 = w_new w) by (unfold w2; rewrite w_new_log_answer; exact B5).
  assert (Eclock: w_clock w2 = w_clock w).
  { unfold w2, log_answer. destruct ua as [v|[]]; cbn; exact B2. }
  destruct HE as [E1 E2 E3 E4 E5]. constructor.
  - intros p Hp0. rewrite Enew. apply E1. exact Hp0.
  - rewrite Eclock. exact E2.
  - exact E3.
  - intros p f Hp0 Hf. rewrite A5 in Hf. apply (E4 p f Hp0 Hf).
  - exact E5.
Qed.

Lemma sim5_write : forall c0 st pend T W w s p c fs',
  Sim5 c0 T W w s -> Ctx4 st (Some p) pend w ->
  write_file (w_fs w) p c None (N.succ (w_clock w)) (w_nextid w) = inl fs' ->
  let w' := set_clock (N.succ (w_clock w)) (N.succ (w_nextid w)) (set_fs fs' w) in
  Sim5 c0 T W w' (ktick s) /\ Ctx4 st (Some p) (Some c) w' /\ frame4 st (Some p) w w' /\ PendClock c0 (Some c) (ktick s).
Proof.
  intros c0 st pend T W w s p c fs' [HS HE] HC Ew w'.
  destruct (sim4_write st pend T W w s p c fs' HS HC Ew) as (A1 & A2 & A3). fold w' in A1, A2, A3.
  destruct HE as [E1 E2 E3 E4 E5].
  split; [split; [exact A1|]|split; [exact A2|split; [exact A3|]]].
  - constructor.
    + exact E1.
    + cbn [w' w_clock set_clock]. lia.
    + cbn [ktick ks_with k_clock]. lia.
    + intros x f Hx Hf. cbn [w' w_fs set_clock set_fs] in Hf.
      destruct (write_file_frame _ _ _ _ _ _ _ Ew) as [[g [Hg [_ [Hm _]]]] Hoth].
      destruct (list_eq_dec string_dec x p) as [->|Hne].
      * rewrite Hg in Hf. inversion Hf; subst f. rewrite Hm. lia.
      * rewrite (Hoth x Hne) in Hf. apply (E4 x f Hx Hf).
    + exact E5.
  - intros _. cbn [ktick ks_with k_clock]. lia.
Qed.

(* ------------------------------------------------------------------ the build_file node *)
Section Node5.
  Variable c0 : N.

  Theorem bf_node5 : forall st p fname a kw fn T W w s tg pend w1 r o,
    okc c0 (w_old w) ->
    tgt_conds st (w_old w) p ->
    bf_body_ok5 c0 st (w_old w) p (fn p) ->
    Sim5 c0 T W w s -> Ctx4 st tg pend w ->
    m_build_file p METADATA fname a kw (fun p' sa skw w' => run (fn p' sa skw) (Some p') [] w') w = (w1, (r, o)) ->
    forall s1 r' o',
      core_bf_node p METADATA fname a kw (fun sa skw => core_run (fn p sa skw) (Some p) None []) s = (s1, (r', o')) ->
      node_post5 c0 st tg pend W w w1 r o s s1 r' o'.
  Proof.
    intros st p fname a kw fn T W w s tg pend w1 r o Hokc Hconds Hbody [HS HE] HC E1 s1 r' o' E2.
    pose proof HS as [[HP HL] [HI [HK HWb]]].
    destruct built as (Bclaim & Bpre & Blook & Breuse & Bfin & _).
    pose proof (node_HInv _ _ _ _ _ _ _ _ _ HI HK E1) as HI1.
    pose proof (node_old _ _ _ _ _ _ _ _ _ E1) as Hold1.
    pose proof (node_TSA tg _ _ _ _ _ _ _ _ _ HK (c4_tsa _ _ _ _ HC) E1) as HT1.
    assert (HK1: old_keys_ok (w_old w1)) by (rewrite Hold1; exact HK).
    pose proof (node_tq _ _ _ _ _ _ _ _ _ E1) as Htq1.
    pose proof (node_claims_has _ _ _ _ _ _ _ _ _ E1) as Hcl1.
    destruct (extra_mech c0 W w s w1 HE Htq1 Hcl1) as (M1 & M2 & M3).
    (* the common end *)
    assert (Hend: forall T' W' ro,
              Sim4c T' W' w1 s1 -> (forall y, inprog w1 y <-> inprog w y) ->
              (forall y, In y st -> lookup (w_fs w1) y = lookup (w_fs w) y) ->
              r = ro -> r' = ro -> orec_rel o o' -> Wincl W W' -> Wincl W' (c_built (w_new w1)) ->
              Extra c0 W' w1 s1 -> (k_clock s <= k_clock s1)%N ->
              node_post5 c0 st tg pend W w w1 r o s s1 r' o').
    { intros T' W' ro HS1 Hp1 Hf1 Er Er' Ho HW HWb1 HE1 Hck. exists T', W'.
      split; [split; [split; [exact HS1|split; [exact HI1|split; [exact HK1|exact HWb1]]]|exact HE1]|].
      split; [apply (ctx4_restore st tg pend w w1 HC Hp1 Hf1 HT1)|].
      split; [exact Hf1|]. split; [congruence|]. split; [exact Ho|]. split; [exact HW|]. split; [exact Hold1|exact Hck]. }
    (* Extra when Core's state is unchanged *)
    assert (HEsame: Extra c0 W w1 s).
    { constructor; [exact M1|exact M2|apply (ex_kclock _ _ _ _ HE)|exact M3|apply (ex_knew _ _ _ _ HE)]. }
    rewrite m_build_file_unfold in E1. unfold core_bf_node in E2.
    destruct (sanitize a) as [sa|].
    2:{ inversion E1; inversion E2; subst.
        apply (Hend T W (inr XType) (conj HP HL)); [intro; reflexivity|intros; reflexivity|reflexivity|reflexivity|exact I|apply Wincl_refl|exact HWb|exact HE|apply N.le_refl]. }
    destruct (sanitize kw) as [skw|].
    2:{ inversion E1; inversion E2; subst.
        apply (Hend T W (inr XType) (conj HP HL)); [intro; reflexivity|intros; reflexivity|reflexivity|reflexivity|exact I|apply Wincl_refl|exact HWb|exact HE|apply N.le_refl]. }
    cbv zeta in E2.
    destruct (bf_setup p METADATA fname sa skw w) as [wS rS] eqn:Es.
    pose proof Es as Es0. rewrite bf_setup_pre in Es.
    apply bind_inv in Es. destruct Es as [[wb [u [Epre Es]]]|[e [Epre Er]]].
    2:{ (* the setup fails before the reservation *)
        subst rS. pose proof (pre_ok st tg pend T W w s p wS (inr e) (conj HP HL) HC Hconds Epre) as (Hcore & HS1 & Hn1 & Hf1 & Ho1).
        inversion E1; subst w1 r o.
        assert (E2': (s, (@inr pyval exn e, Some (OBuildFile p METADATA fname sa skw [] PNone PNone true true))) = (s1, (r', o'))).
        { destruct Hcore as [Hc|[Hc Hs]]; [rewrite Hc in E2; exact E2|rewrite Hc, Hs in E2; exact E2]. }
        inversion E2'; subst s1 r' o'.
        apply (Hend T W (inr e) HS1); [|exact Hf1|reflexivity|reflexivity|apply rec_rel_refl|apply Wincl_refl|rewrite Hn1; exact HWb|exact HEsame|apply N.le_refl].
        intro y. unfold inprog. rewrite Hn1. reflexivity. }
    destruct u.
    pose proof (pre_ok st tg pend T W w s p wb (inl tt) (conj HP HL) HC Hconds Epre)
      as (Hcc & fs1 & dirs & Hsf & HSS & Hnb & Hfb & Hob).
    rewrite Hcc, Hsf in E2.
    set (s0 := core_s0 s p fs1 dirs) in *.
    pose proof HSS as (HPb & HLb & Huncb & Hndb).
    pose proof (s4_rinv _ _ _ _ HPb) as HR2b.
    (* what the lookup theorems need *)
    assert (Hncfb: path_eqb p (w_cachefile wb) = false).
    { rewrite <- (s3_cf _ _ _ (s4_sim _ _ _ _ HPb)). change (k_cachefile s0) with (k_cachefile s).
      unfold claim_check in Hcc. destruct (mem_path p (k_claimedF s)); [discriminate|].
      destruct (path_eqb p (k_cachefile s)); [discriminate|reflexivity]. }
    assert (HWclb: forall q, mem_path q W = true -> cache_has_file (w_new wb) q = true).
    { intros q Hq. rewrite Hnb. apply (ex_cl _ _ _ _ HE q Hq). }
    pose proof (bf_pre_fstep _ _ _ _ Epre) as (_ & _ & _ & Hfsub).
    assert (Hnewb: forall q g, mem_path q W = true ->
              lookup (w_fs wb) q = Some (NFile g) \/ lookup (k_fs s0) q = Some (NFile g) -> (c0 < f_mtime g)%N).
    { intros q g Hq [Hg|Hg].
      - apply (ex_wnew _ _ _ _ HE q g Hq). apply Hfsub. exact Hg.
      - apply (ex_knew _ _ _ _ HE q g Hq). apply (setup_fs_files _ _ _ _ _ (s4_kwf _ _ _ _ HP) Hsf q g Hg). }
    assert (Hokb: okc c0 (w_old wb)) by (rewrite Hob; exact Hokc).
    (* the lookup *)
    unfold catch in Es. destruct (bf_try p METADATA fname sa skw wb) as [wt rt] eqn:Et.
    unfold bf_try in Et. apply bind_inv in Et.
    destruct Et as [[wl [cached [El Et]]]|[e [El _]]].
    2:{ exfalso. apply (proj1 (noraise_holds (fun _ => True) _ _ HR2b) p fname sa skw wt e). exact El. }
    pose proof (build_file_cache_lookup_q _ _ _ _ _ _ _ El) as Ql.
    pose proof (simsetup_qrel _ _ _ _ _ _ HSS Ql) as HSSl.
    pose proof (RInv_X _ _ (RInv2_R' _ _ HR2b)) as HXb.
    destruct (qrel_facts _ _ _ HXb Ql) as (_ & Sl & _ & _).
    pose proof (file_lookup5 c0 T W wb s0 p Hokb HSS (proj1 Hconds) Hncfb HWclb Hnewb fname sa skw wl cached El) as Hdec.
    change (core_hit s s0 p fname sa skw) with (core_hit s0 s0 p fname sa skw) in E2.
    apply bind_inv in Et.
    destruct cached as [co|].
    - (* both sides accept the record *)
      destruct (core_hit s0 s0 p fname sa skw) as [[[[fnode subs'] ret'] rr]|] eqn:Eh.
      2:{ exfalso. destruct Hdec as [_ Hdec]. specialize (Hdec eq_refl). discriminate. }
      destruct Et as [[wr [reused [Er Et]]]|[e [Er _]]].
      2:{ exfalso. destruct (file_hit5 c0 T W wb s0 p Hokb HSS (proj1 Hconds) Hncfb HWclb Hnewb fname sa skw wl co wt (inr e) fnode subs' ret' rr El Eh Er)
            as (T' & X & _). discriminate. }
      destruct (file_hit5 c0 T W wb s0 p Hokb HSS (proj1 Hconds) Hncfb HWclb Hnewb fname sa skw wl co wr (inl reused) fnode subs' ret' rr El Eh Er)
        as (T' & X & HS2 & Hp2 & Hfs2 & Ho2 & Hk2).
      inversion X; subst reused. clear X.
      inversion Et; subst wt rt. inversion Es; subst wS rS.
      inversion E1; subst w1 r o. inversion E2; subst s1 r' o'.
      apply (Hend T' W (inl ret') HS2); [| |reflexivity|reflexivity|apply rec_rel_refl|apply Wincl_refl| | |].
      + intro y. rewrite Hp2. unfold inprog. rewrite Hnb. reflexivity.
      + intros y Hy. rewrite Hfs2. apply Hfb. exact Hy.
      + rewrite (Breuse _ _ _ _ _ _ _ _ _ Er), (Blook _ _ _ _ _ _ _ El), (Bpre _ _ _ _ Epre). exact HWb.
      + constructor; [exact M1|exact M2|apply (ex_kclock _ _ _ _ HE)|exact M3|].
        intros x g Hx Hg. apply (ex_knew _ _ _ _ HE x g Hx).
        apply (setup_fs_files _ _ _ _ _ (s4_kwf _ _ _ _ HP) Hsf x g). apply (Hk2 x g Hx Hg).
      + apply N.le_refl.
    - (* both sides miss: the function runs *)
      destruct Hdec as [Hdec _]. specialize (Hdec eq_refl). rewrite Hdec in E2.
      destruct Et as [[wr [reused [Er Et]]]|[e [Er _]]]; [|cbn in Er; discriminate].
      cbn [bf_reuse] in Er. inversion Er; subst wr reused.
      destruct (claim_ok T W wl s0 p fname sa skw wt rt HSSl (proj1 Hconds) Et) as (Ert & HS2 & Hp2 & Hf2 & Hnone2 & Ho2).
      subst rt. inversion Es; subst wS rS.
      destruct (bf_setup_None _ _ _ _ _ _ _ Es0 HI) as (HIt & Hpt & Hnft & Hnot).
      unfold bf_rebuild in E1. cbv beta in E1.
      destruct (run (fn p sa skw) (Some p) [] (bf_invoke_world p fname sa skw wt)) as [w3 [res subs3]] eqn:Ef.
      destruct (core_run (fn p sa skw) (Some p) None [] (CoreLaws3.core_start s0 p fname sa skw)) as [s2 [[res' pend2] bsubs]] eqn:Ec.
      destruct (core_finish s2 p METADATA fname sa skw bsubs res' pend2) as [[s3 out] o3] eqn:Efin.
      inversion E2; subst s1 r' o'.
      assert (Holdt: w_old wt = w_old w).
      { rewrite Ho2. rewrite (sv_old _ _ Sl). exact Hob. }
      assert (Hpst: ~ In p st).
      { intro Hin. apply (proj2 (c4_prog _ _ _ _ HC p)) in Hin. unfold inprog in Hin.
        pose proof HSS as (_ & _ & Hu & _). unfold cache_has_file in Hu. rewrite Hnb, Hin in Hu. discriminate. }
      assert (HS0: Sim4 (p :: T) (p :: W) (bf_invoke_world p fname sa skw wt) (CoreLaws3.core_start s0 p fname sa skw)).
      { split; [exact HS2|]. split; [apply HInv_set_log; exact HIt|]. split; [cbn [bf_invoke_world w_old set_log]; rewrite Holdt; exact HK|].
        cbn [bf_invoke_world w_new set_log]. rewrite (Bclaim _ _ _ _ Et), (Blook _ _ _ _ _ _ _ El), (Bpre _ _ _ _ Epre).
        intros x Hx. cbn [mem_path] in Hx. rewrite ViewXMkfail.mem_app_path. cbn [mem_path]. rewrite orb_false_r.
        destruct (path_eqb p x) eqn:Epx; [rewrite orb_true_r; reflexivity|]. cbn [orb] in Hx. rewrite (HWb x Hx). reflexivity. }
      (* Extra when the function starts *)
      pose proof (bf_setup_tq p METADATA fname sa skw w wt _ Es0) as Htqt.
      assert (HE0: Extra c0 (p :: W) (bf_invoke_world p fname sa skw wt) (CoreLaws3.core_start s0 p fname sa skw)).
      { constructor.
        - intros x Hx. rewrite <- (s3_claimsF _ _ _ (s4_sim _ _ _ _ (proj1 HS2)) x).
          cbn [CoreLaws3.core_start klog ks_with k_claimedF core_s0 s0 mem_path] in *.
          destruct (path_eqb p x); [reflexivity|]. cbn [orb] in Hx |- *.
          rewrite (s3_claimsF _ _ _ (s4_sim _ _ _ _ HP) x). apply (ex_cl _ _ _ _ HE x Hx).
        - cbn [bf_invoke_world w_clock set_log]. eapply N.le_trans; [apply (ex_wclock _ _ _ _ HE)|apply Htqt].
        - cbn [CoreLaws3.core_start klog ks_with k_clock core_s0 s0]. apply (ex_kclock _ _ _ _ HE).
        - intros x g Hx Hg. cbn [bf_invoke_world w_fs set_log] in Hg. cbn [mem_path] in Hx.
          destruct (path_eqb p x) eqn:Epx; [apply path_eqb_eq in Epx; subst x; congruence|]. cbn [orb] in Hx.
          destruct (proj2 Htqt x g Hg) as [K|K]; [apply (ex_wnew _ _ _ _ HE x g Hx K)|].
          eapply N.le_lt_trans; [apply (ex_wclock _ _ _ _ HE)|exact K].
        - intros x g Hx Hg. cbn [mem_path] in Hx.
          destruct (path_eqb p x) eqn:Epx.
          + (* the target itself: nothing is there in Core's tree *)
            apply path_eqb_eq in Epx. subst x. exfalso.
            pose proof (s3_tree _ _ _ (s4_sim _ _ _ _ (proj1 HS2)) p) as Kt. cbn [mem_path] in Kt. rewrite path_eqb_refl in Kt. cbn [orb] in Kt.
            rewrite Hg in Kt.
            assert (Kv: lookup (view_fs (bf_invoke_world p fname sa skw wt)) p = None).
            { destruct p as [|n d]; [cbn in Hnone2; discriminate|].
              rewrite lookup_view by discriminate. cbn [bf_invoke_world w_fs set_log]. rewrite Hnone2.
              destruct (visible _ _); reflexivity. }
            rewrite Kv in Kt. exact Kt.
          + cbn [orb] in Hx. apply (ex_knew _ _ _ _ HE x g Hx).
            apply (setup_fs_files _ _ _ _ _ (s4_kwf _ _ _ _ HP) Hsf x g).
            cbn [CoreLaws3.core_start klog ks_with k_fs core_s0 s0] in Hg. apply (try_remove_file _ _ _ _ Hg). }
      assert (HC0: Ctx4 (p :: st) (Some p) None (bf_invoke_world p fname sa skw wt)).
      { constructor.
        - intro y. change (inprog (bf_invoke_world p fname sa skw wt) y) with (inprog wt y). rewrite Hp2.
          assert (Hwl: inprog wl y <-> inprog w y) by (unfold inprog; rewrite (sv_new _ _ Sl), Hnb; reflexivity).
          rewrite Hwl, (c4_prog _ _ _ _ HC y). cbn [In]. split; [intros [H|H]; [right; exact H|left; symmetry; exact H]|intros [H|H]; [right; symmetry; exact H|left; exact H]].
        - intros q Eq. inversion Eq; subst q. split; [left; reflexivity|exact (proj1 Hconds)].
        - cbn [pend_rel bf_invoke_world w_new w_fs set_log]. split; [exact Hpt|exact Hnft].
        - intros y Hy. cbn [bf_invoke_world w_fs set_log]. destruct Hy as [<-|Hy].
          + unfold isdir. rewrite Hnone2. reflexivity.
          + assert (Hne: y <> p) by (intro; subst; contradiction).
            unfold isdir. rewrite (Hf2 y Hne), (sv_fs _ _ Sl), (Hfb y Hy). apply (c4_nodir _ _ _ _ HC y Hy).
        - intros t Et0. inversion Et0; subst t. split; [exact Hpt|exact Hnot]. }
      destruct (Hbody sa skw (p :: T) (p :: W) (bf_invoke_world p fname sa skw wt) (CoreLaws3.core_start s0 p fname sa skw)
                      w3 res subs3 s2 res' pend2 bsubs Holdt (conj HS0 HE0) HC0 Ef Ec)
        as (T3 & W3 & [HS3 HE3] & HC3 & Hfr3 & Eres & Hsubs3 & HW3 & Ho3 & Hck3 & Hpc3).
      subst res'. destruct HS3 as [HS3c [HI3 [HK3 HWb3]]].
      assert (Hpcf: p <> w_cachefile w3).
      { rewrite (run_cf _ _ _ _ _ _ Ef).
        rewrite <- (s3_cf _ _ _ (s4_sim _ _ _ _ (proj1 HS2))). cbn [CoreLaws3.core_start klog ks_with k_cachefile core_s0 s0].
        unfold claim_check in Hcc. destruct (mem_path p (k_claimedF s)); [discriminate|].
        destruct (path_eqb p (k_cachefile s)) eqn:Ecf; [discriminate|]. apply path_eqb_neq. exact Ecf. }
      destruct (finish_ok_cf st T3 W3 w3 s2 p METADATA fname sa skw res subs3 bsubs pend2 w1 r o s3 out o3 HS3c HI3 HC3
                       (HW3 p (eq_trans (f_equal (fun b => b || mem_path p W) (path_eqb_refl p)) eq_refl)) Hpcf Hsubs3 E1 Efin)
        as (T' & HS' & Eout & Horec & Hp' & Hf' & Ho').
      (* Extra after the end of the function *)
      pose proof (bf_finish_tq p METADATA fname sa skw res subs3 w3 w1 _ E1) as Htqf.
      assert (Ecl3: forall x, mem_path x (k_claimedF s3) = mem_path x (k_claimedF s2)).
      { intro x. unfold core_finish in Efin. cbv zeta in Efin.
        destruct res as [v|e]; [destruct (sanitize v) as [sv|]; [destruct pend2 as [bytes|];
          [destruct (write_file (k_fs s2) p bytes None (k_clock s2) (k_nextid s2))|]|]|]; inversion Efin; subst; reflexivity. }
      assert (Eck3: k_clock s3 = k_clock s2).
      { unfold core_finish in Efin. cbv zeta in Efin.
        destruct res as [v|e]; [destruct (sanitize v) as [sv|]; [destruct pend2 as [bytes|];
          [destruct (write_file (k_fs s2) p bytes None (k_clock s2) (k_nextid s2))|]|]|]; inversion Efin; subst; reflexivity. }
      assert (Efs3: forall x g, lookup (k_fs s3) x = Some (NFile g) -> lookup (k_fs s2) x = Some (NFile g) \/ (c0 < f_mtime g)%N).
      { intros x g Hg. unfold core_finish in Efin. cbv zeta in Efin.
        assert (Hprune: forall oo, lookup (k_fs (core_prune s2 p oo)) x = Some (NFile g) -> lookup (k_fs s2) x = Some (NFile g)).
        { intros oo Hx. cbn [core_prune ks_with k_fs] in Hx. apply (fold_try_rmdir_file' _ _ _ _ Hx). }
        destruct res as [v|e]; [|inversion Efin; subst; left; eapply Hprune; exact Hg].
        destruct (sanitize v) as [sv|]; [|inversion Efin; subst; left; eapply Hprune; exact Hg].
        destruct pend2 as [bytes|]; [|inversion Efin; subst; left; eapply Hprune; exact Hg].
        destruct (write_file (k_fs s2) p bytes None (k_clock s2) (k_nextid s2)) as [fs3|e] eqn:Ew; [|inversion Efin; subst; left; eapply Hprune; exact Hg].
        inversion Efin; subst. cbn [ks_with k_fs] in Hg.
        destruct (write_file_frame _ _ _ _ _ _ _ Ew) as [[g0 [Hg0 [_ [Hm _]]]] Hoth].
        destruct (list_eq_dec string_dec x p) as [->|Hne].
        - right. rewrite Hg0 in Hg. inversion Hg; subst g. rewrite Hm. apply Hpc3. discriminate.
        - left. rewrite (Hoth x Hne) in Hg. exact Hg. }
      assert (HE': Extra c0 W3 w1 s3).
      { constructor.
        - intros x Hx. rewrite (sim3_claims_eq W3 w3 s2 W3 w1 s3 (s4_sim _ _ _ _ (proj1 HS3c)) (s4_sim _ _ _ _ (proj1 HS')) Ecl3 x).
          apply (ex_cl _ _ _ _ HE3 x Hx).
        - eapply N.le_trans; [apply (ex_wclock _ _ _ _ HE3)|apply Htqf].
        - rewrite Eck3. apply (ex_kclock _ _ _ _ HE3).
        - intros x g Hx Hg. destruct (proj2 Htqf x g Hg) as [K|K]; [apply (ex_wnew _ _ _ _ HE3 x g Hx K)|].
          eapply N.le_lt_trans; [apply (ex_wclock _ _ _ _ HE3)|exact K].
        - intros x g Hx Hg. destruct (Efs3 x g Hg) as [K|K]; [apply (ex_knew _ _ _ _ HE3 x g Hx K)|exact K]. }
      apply (Hend T' W3 out HS'); [| |exact Eout|reflexivity| | |rewrite (Bfin _ _ _ _ _ _ _ _ _ _ E1); exact HWb3|exact HE'|].
      + intro y. rewrite Hp'. rewrite (c4_prog _ _ _ _ HC3 y), (c4_prog _ _ _ _ HC y). cbn [In].
        split; [intros [[H|H] Hne]; [exfalso; apply Hne; symmetry; exact H|exact H]|intro H; split; [right; exact H|intro; subst; contradiction]].
      + intros y Hy. assert (Hne: y <> p) by (intro; subst; contradiction).
        rewrite (Hf' y Hne). rewrite (Hfr3 y (or_intror Hy)) by (intro X; inversion X; subst; contradiction).
        cbn [bf_invoke_world w_fs set_log]. rewrite (Hf2 y Hne), (sv_fs _ _ Sl). apply Hfb. exact Hy.
      + destruct o as [x|]; [exact Horec|destruct Horec].
      + intros x Hx. apply HW3. cbn [mem_path]. rewrite Hx. apply orb_true_r.
      + rewrite Eck3. eapply N.le_trans; [|exact Hck3]. apply N.le_refl.
  Qed.
End Node5.

Print Assumptions bf_node5.
