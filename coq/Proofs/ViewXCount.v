(* Proofs/ViewXCount.v — C04, reachability: the counting law of bd_counts is kept by
   started_building_file (one more live target) and by error_building_file (one less),
   and error_building_file never raises KeyError under the law. *)
From Coq Require Import List String Ascii NArith ZArith Bool Arith Lia.
From FB.Base Require Import PyVal Fs.
From FB.Model Require Import Types Monad CreatedFiles BuildDirs SimpleOps Builder.
From FB.Proofs Require Import FsLemmas ViewDefs ViewLemmas ViewScan ViewFrame ViewXDefs.
Import ListNotations.
Open Scope list_scope.

Definition b2n (b : bool) : nat := if b then 1 else 0.

(* the law, exact or with one reservation more (plus) / less (minus) than counted at y *)
Record claw (T : list path) (b : bdirs) : Prop := {
  cl_keys : NoDup (ckeys b);
  cl_pos : forall x, cnt_get (bd_counts b) x <> Some 0;
  cl_count : forall x, cval b x = nk b x + nt T x
}.
Record claw_plus (T : list path) (b : bdirs) (y : path) : Prop := {
  cp_keys : NoDup (ckeys b);
  cp_pos : forall x, cnt_get (bd_counts b) x <> Some 0;
  cp_count : forall x, cval b x + b2n (path_eqb x y) = nk b x + nt T x
}.
Record claw_minus (T : list path) (b : bdirs) (y : path) : Prop := {
  cm_keys : NoDup (ckeys b);
  cm_pos : forall x, cnt_get (bd_counts b) x <> Some 0;
  cm_count : forall x, cval b x = nk b x + nt T x + b2n (path_eqb x y)
}.

(* ---- association lists ---- *)
Lemma keys_set : forall l p n, map fst (cnt_set l p n) = if mem_path p (map fst l) then map fst l else map fst l ++ [p].
Proof.
  induction l as [|[q m] l IH]; intros p n; cbn [cnt_set map fst mem_path]; [reflexivity|].
  destruct (path_eqb q p) eqn:E; cbn [map fst orb]; [reflexivity|]. rewrite IH.
  destruct (mem_path p (map fst l)); reflexivity.
Qed.

Lemma keys_del : forall l p, map fst (cnt_del l p) = del_path p (map fst l).
Proof.
  induction l as [|[q m] l IH]; intro p; cbn [cnt_del map fst del_path]; [reflexivity|].
  destruct (path_eqb q p); cbn [map fst]; rewrite IH; reflexivity.
Qed.

Lemma cnt_get_del : forall l p x, cnt_get (cnt_del l p) x = if path_eqb p x then None else cnt_get l x.
Proof.
  induction l as [|[q m] l IH]; intros p x; cbn [cnt_del cnt_get]; [destruct (path_eqb p x); reflexivity|].
  destruct (path_eqb q p) eqn:E.
  - rewrite IH. apply path_eqb_eq in E. subst q. destruct (path_eqb p x); reflexivity.
  - cbn [cnt_get]. rewrite IH. destruct (path_eqb q x) eqn:E2; [|reflexivity].
    apply path_eqb_eq in E2. subst q. rewrite path_eqb_sym, E. reflexivity.
Qed.

Lemma cnt_get_mem : forall l x, mem_path x (map fst l) = match cnt_get l x with Some _ => true | None => false end.
Proof.
  induction l as [|[q m] l IH]; intro x; cbn [map fst mem_path cnt_get]; [reflexivity|].
  destruct (path_eqb q x); [reflexivity|apply IH].
Qed.

Lemma NoDup_del_path : forall p l, NoDup l -> NoDup (del_path p l).
Proof.
  intros p l H. induction H as [|x l Hx Hl IH]; cbn [del_path]; [constructor|].
  destruct (path_eqb x p); [exact IH|]. constructor; [|exact IH].
  intro Hin. apply Hx. apply mem_path_In. apply mem_path_In in Hin. eapply del_mem_sub. exact Hin.
Qed.

Lemma NoDup_snoc : forall (l : list path) p, NoDup l -> ~ In p l -> NoDup (l ++ [p]).
Proof.
  intros l p H Hn. induction H as [|x l Hx Hl IH]; cbn [app]; [constructor; [intros []|constructor]|].
  constructor.
  - intro Hin. apply in_app_iff in Hin. destruct Hin as [Hin|[<-|[]]]; [contradiction|]. apply Hn. left. reflexivity.
  - apply IH. intro H. apply Hn. right. exact H.
Qed.

Lemma filter_len_app1 : forall (f : path -> bool) l p, List.length (filter f (l ++ [p])) = List.length (filter f l) + b2n (f p).
Proof.
  intros f l p. rewrite filter_app, app_length. cbn [filter]. destruct (f p); reflexivity.
Qed.

Lemma del_path_notin : forall p l, mem_path p l = false -> del_path p l = l.
Proof.
  intros p l. induction l as [|x l IH]; cbn [del_path mem_path]; intro H; [reflexivity|].
  apply orb_false_iff in H. destruct H as [H1 H2]. rewrite H1, (IH H2). reflexivity.
Qed.

Lemma filter_len_del : forall (f : path -> bool) l p, NoDup l -> mem_path p l = true ->
  List.length (filter f l) = List.length (filter f (del_path p l)) + b2n (f p).
Proof.
  intros f l p H. induction H as [|x l Hx Hl IH]; cbn [mem_path del_path filter]; intro Hm; [discriminate|].
  destruct (path_eqb x p) eqn:E.
  - apply path_eqb_eq in E. subst x. rewrite del_path_notin.
    + destruct (f p); simpl; lia.
    + destruct (mem_path p l) eqn:E2; [|reflexivity]. apply mem_path_In in E2. contradiction.
  - cbn [orb] in Hm. cbn [filter]. specialize (IH Hm). destruct (f x); simpl; lia.
Qed.

Lemma nt_cons : forall p T x, nt (p :: T) x = b2n (is_child x p) + nt T x.
Proof. intros p T x. unfold nt. cbn [filter]. destruct (is_child x p); reflexivity. Qed.

Lemma nt_rm1 : forall p T x, In p T -> nt T x = nt (rm1 p T) x + b2n (is_child x p).
Proof.
  intros p T x. induction T as [|q T IH]; intro H; [destruct H|]. cbn [rm1].
  destruct (path_eqb q p) eqn:E.
  - apply path_eqb_eq in E. subst q. rewrite nt_cons. lia.
  - destruct H as [H|H]; [subst; rewrite path_eqb_refl in E; discriminate|].
    rewrite !nt_cons, (IH H). lia.
Qed.

Lemma is_child_self : forall x, is_child x x = false.
Proof.
  intros [|n d]; [reflexivity|]. cbn. apply path_eqb_neq. intro E.
  apply (f_equal (@List.length _)) in E. simpl in E. lia.
Qed.

Lemma is_child_eqb : forall x n d, is_child x (n :: d) = path_eqb x d.
Proof. intros x n d. cbn. apply path_eqb_sym. Qed.

(* ------------------------------------------------------------------ started_building_file *)
Lemma st_b2_counts : forall b cr parent, bd_counts (st_b2 b cr parent) = bd_counts (st_b1 b parent).
Proof. intros b cr parent. unfold st_b2. destruct (mem_path parent cr); reflexivity. Qed.

Lemma claw_ext : forall T b b', bd_counts b' = bd_counts b -> claw T b -> claw T b'.
Proof.
  intros T b b' E [H1 H2 H3]. constructor.
  - unfold ckeys. rewrite E. exact H1.
  - intro x. rewrite E. apply H2.
  - intro x. unfold cval, nk, ckeys. rewrite E. apply H3.
Qed.

Lemma claw_plus_ext : forall T b b' y, bd_counts b' = bd_counts b -> claw_plus T b y -> claw_plus T b' y.
Proof.
  intros T b b' y E [H1 H2 H3]. constructor.
  - unfold ckeys. rewrite E. exact H1.
  - intro x. rewrite E. apply H2.
  - intro x. unfold cval, nk, ckeys. rewrite E. apply H3.
Qed.

(* one step: the count of [parent] goes up by one *)
Lemma st_b1_step : forall T b parent, claw_plus T b parent ->
  (Nat.ltb 0 (st_count b parent) = true -> claw T (st_b1 b parent)) /\
  (Nat.ltb 0 (st_count b parent) = false ->
     match parent with
     | [] => claw T (st_b1 b parent)
     | _ :: d => claw_plus T (st_b1 b parent) d
     end).
Proof.
  intros T b parent [K P C].
  assert (Hg: forall x, cnt_get (bd_counts (st_b1 b parent)) x =
                        if path_eqb parent x then Some (S (st_count b parent)) else cnt_get (bd_counts b) x).
  { intro x. unfold st_b1. cbn [bd_counts bd_with]. apply cnt_get_set. }
  assert (Hv: forall x, cval (st_b1 b parent) x = if path_eqb parent x then S (st_count b parent) else cval b x).
  { intro x. unfold cval. rewrite Hg. destruct (path_eqb parent x); reflexivity. }
  assert (Hpos: forall x, cnt_get (bd_counts (st_b1 b parent)) x <> Some 0).
  { intro x. rewrite Hg. destruct (path_eqb parent x); [discriminate|apply P]. }
  assert (Hk: ckeys (st_b1 b parent) = if mem_path parent (ckeys b) then ckeys b else ckeys b ++ [parent]).
  { unfold ckeys, st_b1. cbn [bd_counts bd_with]. apply keys_set. }
  assert (Hcp: cval b parent = st_count b parent) by reflexivity.
  split.
  - intro Hlt. apply Nat.ltb_lt in Hlt.
    assert (Hm: mem_path parent (ckeys b) = true).
    { unfold ckeys. rewrite cnt_get_mem. unfold st_count in Hlt. destruct (cnt_get (bd_counts b) parent); [reflexivity|lia]. }
    rewrite Hm in Hk. constructor.
    + rewrite Hk. exact K.
    + exact Hpos.
    + intro x. rewrite Hv. unfold nk. rewrite Hk. fold (nk b x). specialize (C x).
      rewrite (path_eqb_sym x parent) in C. destruct (path_eqb parent x) eqn:E.
      * apply path_eqb_eq in E. subst x. cbn [b2n] in C. lia.
      * cbn [b2n] in C. lia.
  - intro Hlt. apply Nat.ltb_ge in Hlt. assert (H0: st_count b parent = 0) by lia.
    assert (Hm: mem_path parent (ckeys b) = false).
    { unfold ckeys. rewrite cnt_get_mem. unfold st_count in H0. specialize (P parent).
      destruct (cnt_get (bd_counts b) parent) as [k|]; [|reflexivity]. subst k. congruence. }
    rewrite Hm in Hk.
    assert (Hnd: NoDup (ckeys (st_b1 b parent))).
    { rewrite Hk. apply NoDup_snoc; [exact K|]. intro Hx. apply mem_path_In in Hx. congruence. }
    assert (Hnk: forall x, nk (st_b1 b parent) x = nk b x + b2n (is_child x parent)).
    { intro x. unfold nk. rewrite Hk. apply filter_len_app1. }
    destruct parent as [|n d].
    + constructor; [exact Hnd|exact Hpos|]. intro x. rewrite Hv, Hnk. cbn [is_child b2n].
      specialize (C x). rewrite (path_eqb_sym x []) in C. destruct (path_eqb [] x) eqn:E.
      * apply path_eqb_eq in E. subst x. cbn [b2n] in C. lia.
      * cbn [b2n] in C. lia.
    + constructor; [exact Hnd|exact Hpos|]. intro x. rewrite Hv, Hnk, is_child_eqb.
      specialize (C x). rewrite (path_eqb_sym x (n :: d)) in C.
      destruct (path_eqb (n :: d) x) eqn:E.
      * apply path_eqb_eq in E. subst x.
        assert (E2: path_eqb (n :: d) d = false).
        { apply path_eqb_neq. intro E'. apply (f_equal (@List.length _)) in E'. simpl in E'. lia. }
        rewrite E2. cbn [b2n] in *. lia.
      * cbn [b2n] in C. destruct (path_eqb x d); cbn [b2n]; lia.
Qed.

Lemma started_from_claw : forall parent T b cr acc, claw_plus T b parent ->
  claw T (fst (bd_started_from b cr parent acc)).
Proof.
  induction parent as [|n d IH]; intros T b cr acc H; rewrite bd_started_from_eq;
    destruct (st_b1_step T b _ H) as [S1 S2];
    destruct (Nat.ltb 0 (st_count b _)) eqn:E; cbn [fst].
  - apply S1. reflexivity.
  - eapply claw_ext; [apply st_b2_counts|apply S2; reflexivity].
  - apply S1. reflexivity.
  - apply IH. eapply claw_plus_ext; [apply st_b2_counts|apply S2; reflexivity].
Qed.

(* started_building_file for a new live target n :: d *)
Theorem bd_started_claw : forall T b n d cr, claw T b -> claw ((n :: d) :: T) (fst (bd_started b (n :: d) cr)).
Proof.
  intros T b n d cr [K P C]. unfold bd_started. apply started_from_claw. constructor.
  - exact K.
  - exact P.
  - intro x. change (cval b x + b2n (path_eqb x d) = nk b x + nt ((n :: d) :: T) x).
    rewrite nt_cons, is_child_eqb, (C x). lia.
Qed.

Print Assumptions bd_started_claw.
