(* Proofs/ViewR4.v — C04, arbitrary previous caches, part 4: which exceptions a replay can
   raise.  [OSO m]: from a world that satisfies BInv, m raises OSError or nothing.  All the
   queries against an overlay are OSO except walk, whose fuel needs the depth bound; the
   file comparison of a recorded target with creatable names raises nothing that
   noneable_cmp does not absorb.                                                       *)
From Coq Require Import List String Ascii NArith ZArith Bool Arith Lia.
From FB.Base Require Import PyVal Fs.
From FB.Gen Require Import JsonUtilGen.
From FB.Model Require Import Types Monad CreatedFiles BuildDirs SimpleOps Builder.
From FB.Proofs Require Import FsLemmas CleanLaws JsonLaws CoreLawsChildren ReplayLaws BuildFileLaws
     ViewDefs ViewLemmas ViewScan ViewQueries ViewAnswers ViewPres.
Import ListNotations.
Open Scope list_scope.
Open Scope m_scope.

Definition osr {A} (r : A + exn) : Prop := match r with inr e => is_os e = true | inl _ => True end.

Definition OSO {A} (m : M A) : Prop := forall w w' r, BInv w -> m w = (w', r) -> osr r.

Lemma OSO_ret : forall A (a : A), OSO (ret a).
Proof. intros A a w w' r _ H. inversion H; subst. exact I. Qed.

Lemma OSO_raise : forall A e, is_os e = true -> OSO (@raise A e).
Proof. intros A e He w w' r _ H. inversion H; subst. exact He. Qed.

Lemma OSO_get : OSO get.
Proof. intros w w' r _ H. inversion H; subst. exact I. Qed.

Lemma OSO_modify : forall f, OSO (modify f).
Proof. intros f w w' r _ H. inversion H; subst. exact I. Qed.

(* the continuation may use what the first part is known to return *)
Lemma OSO_bind_q : forall A B (m : M A) (f : A -> M B) (Q : A -> Prop),
  OSO m -> pres vPO m -> (forall w wa a, BInv w -> m w = (wa, inl a) -> Q a) ->
  (forall a, Q a -> OSO (f a)) -> OSO (bind m f).
Proof.
  intros A B m f Q Hm Hv HQ Hf w w' r HB H. apply bind_inv in H.
  destruct H as [[wa [a [E H]]]|[e [E Er]]].
  - pose proof (good_BInv _ _ (Hv _ _ _ E HB)) as Ba. apply (Hf a (HQ _ _ _ HB E) wa w' r Ba H).
  - subst r. apply (Hm _ _ _ HB E).
Qed.

Lemma OSO_bind : forall A B (m : M A) (f : A -> M B),
  OSO m -> pres vPO m -> (forall a, OSO (f a)) -> OSO (bind m f).
Proof. intros A B m f Hm Hv Hf. apply (OSO_bind_q A B m f (fun _ => True)); auto. Qed.

Lemma OSO_catch : forall A (m : M A) (h : exn -> M A),
  OSO m -> pres vPO m -> (forall e, is_os e = true -> OSO (h e)) -> OSO (catch m h).
Proof.
  intros A m h Hm Hv Hh w w' r HB H. unfold catch in H. destruct (m w) as [w1 [a|e]] eqn:E.
  - inversion H; subst. exact I.
  - pose proof (Hm _ _ _ HB E) as He. cbn in He.
    apply (Hh e He w1 w' r (good_BInv _ _ (Hv _ _ _ E HB)) H).
Qed.

#[local] Hint Resolve m_is_removed_v is_file_no_read_v is_cache_file_v file_metadata_v list_dir_superset_v
  file_comparison_result_v version_equal_v m_is_file_v m_is_dir_v m_exists_v m_get_size_v m_assert_is_dir_v
  m_read_v m_list_dir_v classify_v append_walk_v m_walk_v exec_query_v noneable_cmp_v : pres.

Ltac oso_step :=
  cbv beta;
  lazymatch goal with
  | |- OSO (bind _ _) => apply OSO_bind; [ | solve [pres_auto] | intro ]
  | |- OSO (ret _) => apply OSO_ret
  | |- OSO (raise (XOS _)) => apply OSO_raise; reflexivity
  | |- OSO get => apply OSO_get
  | |- OSO (match ?x with _ => _ end) => destruct x
  end.
Ltac oso_auto := repeat (first [ solve [eauto 3 with oso] | oso_step ]).
Create HintDb oso discriminated.

(* ------------------------------------------------------------------ leaves *)
Lemma m_is_removed_oso : forall d, OSO (m_is_removed d).
Proof.
  intros d w w' r HB H. destruct (m_is_removed_sound w d HB) as [w1 [_ [[r' [E _]]|[E _]]]];
    rewrite E in H; inversion H; subst; cbn; auto.
Qed.

Ltac raw_oso f := intros w w' r HB H; unfold f in H; cbv zeta in H; repeat dm H; inversion H; subst; cbn; auto.

Lemma is_file_no_read_oso : forall p cf, OSO (is_file_no_read p cf).
Proof. intros p cf. raw_oso is_file_no_read. Qed.

Lemma is_cache_file_oso : forall p, OSO (is_cache_file p).
Proof. intros p. raw_oso is_cache_file. Qed.

Lemma m_handle_dir_exists_oso : forall d, OSO (m_handle_dir_exists d).
Proof. intro d. unfold m_handle_dir_exists. apply OSO_modify. Qed.

Lemma file_metadata_oso : forall p, OSO (file_metadata p).
Proof. intros p. raw_oso file_metadata. Qed.

Lemma file_hash_oso : forall p, OSO (file_hash p).
Proof. intros p. raw_oso file_hash. Qed.

Lemma file_comparison_result_oso : forall p c, OSO (file_comparison_result p c).
Proof. intros p [|]; cbn [file_comparison_result]; [apply file_metadata_oso|apply file_hash_oso]. Qed.

Lemma list_dir_superset_oso : forall d cf, OSO (list_dir_superset d cf).
Proof. intros d cf. raw_oso list_dir_superset. Qed.

Lemma version_equal_oso : forall f, OSO (version_equal f).
Proof. intros f w w' r _ H. unfold version_equal, bind, get, ret in H. inversion H; subst. exact I. Qed.

#[local] Hint Resolve m_is_removed_oso is_file_no_read_oso is_cache_file_oso m_handle_dir_exists_oso
  file_metadata_oso file_hash_oso file_comparison_result_oso list_dir_superset_oso version_equal_oso : oso.

(* the call of handle_dir_exists inside is_file / is_dir is not covered by a [pres] lemma of its
   own (it is good only where it is reached): these two are proved by hand *)
Lemma m_is_file_oso : forall p cf, OSO (m_is_file p cf).
Proof.
  intros p cf w w' r HB H. unfold m_is_file in H. apply bind_inv in H.
  destruct H as [[wa [a [Ea H]]]|[e [Ee Er]]].
  2:{ subst r. apply (is_file_no_read_oso _ _ _ _ _ HB Ee). }
  destruct a as [b|]; [inversion H; subst; exact I|].
  apply bind_inv in H. unfold get in H. destruct H as [[wb [w0 [E0 H]]]|[e [E0 _]]]; [|discriminate].
  inversion E0; subst wb w0. destruct (isfile (w_fs wa) p); [|inversion H; subst; exact I].
  apply bind_inv in H. destruct H as [[wb [u [Eh H]]]|[e [Eh _]]].
  - inversion H; subst. exact I.
  - unfold m_handle_dir_exists, modify in Eh. discriminate.
Qed.

Lemma m_is_dir_oso : forall p cf, OSO (m_is_dir p cf).
Proof.
  intros p cf w w' r HB H. unfold m_is_dir in H.
  destruct (cf_has_dir cf p); [inversion H; subst; exact I|].
  destruct (cf_has_file cf p); [inversion H; subst; exact I|].
  apply bind_inv in H. destruct H as [[wa [a [Ea H]]]|[e [Ee Er]]].
  2:{ subst r. apply (m_is_removed_oso _ _ _ _ HB Ee). }
  destruct a; [inversion H; subst; exact I|].
  apply bind_inv in H. unfold get in H. destruct H as [[wb [w0 [E0 H]]]|[e [E0 _]]]; [|discriminate].
  inversion E0; subst wb w0. destruct (isdir (w_fs wa) p); [|inversion H; subst; exact I].
  apply bind_inv in H. destruct H as [[wb [u [Eh H]]]|[e [Eh _]]].
  - inversion H; subst. exact I.
  - unfold m_handle_dir_exists, modify in Eh. discriminate.
Qed.
#[local] Hint Resolve m_is_file_oso m_is_dir_oso : oso.

Lemma m_exists_oso : forall p cf, OSO (m_exists p cf).
Proof. intros p cf. unfold m_exists. oso_auto. Qed.
#[local] Hint Resolve m_exists_oso : oso.

Lemma m_get_size_oso : forall p cf, OSO (m_get_size p cf).
Proof. intros p cf. unfold m_get_size. oso_auto. Qed.

Lemma m_assert_is_dir_oso : forall p cf, OSO (m_assert_is_dir p cf).
Proof. intros p cf. unfold m_assert_is_dir. oso_auto. Qed.
#[local] Hint Resolve m_get_size_oso m_assert_is_dir_oso : oso.

Lemma read_cmp_oso : forall p c cf, OSO (read_cmp p c cf).
Proof.
  intros p c cf. unfold read_cmp. apply OSO_catch; [auto with oso|auto with pres|].
  intros e He. destruct (is_os_class XFileNotFound e || is_os_class XNotADirectory e); [apply OSO_raise; reflexivity|].
  destruct (is_os_class XIsADirectory e); [oso_auto|apply OSO_raise; exact He].
Qed.

Lemma m_read_oso : forall p c cf, OSO (m_read p c cf).
Proof.
  intros p c cf w w' r HB H. unfold m_read in H. fold (read_cmp p c cf) in H.
  apply bind_inv in H. destruct H as [[wa [nr [Ea H]]]|[e [Ee Er]]].
  2:{ subst r. apply (is_file_no_read_oso _ _ _ _ _ HB Ee). }
  pose proof (good_BInv _ _ (is_file_no_read_v _ _ _ _ _ Ea HB)) as Ba.
  apply bind_inv in H. destruct H as [[wb [u [Eb H]]]|[e [Ee Er]]].
  2:{ subst r. destruct nr as [[|]|]; try discriminate.
      assert (Hg: OSO (d <- m_is_dir p cf ;; (if d then raise (XOS XIsADirectory) else @raise unit (XOS XFileNotFound)))) by oso_auto.
      apply (Hg _ _ _ Ba Ee). }
  assert (Bb: BInv wb).
  { destruct nr as [[|]|]; try (inversion Eb; subst; exact Ba).
    assert (Hg: pres vPO (d <- m_is_dir p cf ;; (if d then raise (XOS XIsADirectory) else @raise unit (XOS XFileNotFound)))) by pres_auto.
    apply (good_BInv _ _ (Hg _ _ _ Eb Ba)). }
  apply bind_inv in H. destruct H as [[wc [v [Ec H]]]|[e [Ee Er]]].
  2:{ subst r. apply (read_cmp_oso _ _ _ _ _ _ Bb Ee). }
  apply bind_inv in H. destruct H as [[wd [u' [Ed H]]]|[e [Ee Er]]].
  - inversion H; subst. exact I.
  - destruct (cf_has_file cf p); [discriminate|]. unfold m_handle_dir_exists, modify in Ee. discriminate.
Qed.

Lemma filterM_oso : forall f l, (forall n, OSO (f n)) -> (forall n, pres vPO (f n)) -> OSO (filterM f l).
Proof.
  intros f l Hf Hv. induction l as [|n l IH]; cbn [filterM]; [apply OSO_ret|].
  apply OSO_bind; [apply Hf|apply Hv|]. intro b.
  apply OSO_bind; [exact IH|apply filterM_pres; exact Hv|]. intro rest. apply OSO_ret.
Qed.

Lemma m_list_dir_oso : forall d cf, OSO (m_list_dir d cf).
Proof.
  intros d cf. unfold m_list_dir. oso_auto.
  apply OSO_bind; [apply filterM_oso; intro; auto with oso pres|apply filterM_pres; intro; auto with pres|].
  intro names. apply OSO_ret.
Qed.

Lemma classify_oso : forall d cf l, OSO (classify d cf l).
Proof. intros d cf l. induction l as [|n l IH]; cbn [classify]; oso_auto. Qed.
#[local] Hint Resolve m_read_oso m_list_dir_oso classify_oso : oso.

(* ------------------------------------------------------------------ walk: the fuel suffices *)
Lemma svb_fs : forall w w', svbPO w w' -> w_fs w' = w_fs w.
Proof. cbn. unfold same_but_view. intros w w' H. apply H. Qed.

(* the directories of an overlay are shallow *)
Definition DL (c : cfiles) : Prop := forall x, mem_path x (cf_dirs c) = true -> List.length x < walk_fuel.

Lemma m_is_dir_true : forall p c w w', m_is_dir p (Some c) w = (w', inl true) ->
  mem_path p (cf_dirs c) = true \/ isdir (w_fs w) p = true.
Proof.
  intros p c w w' H. unfold m_is_dir in H. cbn [cf_has_dir cf_has_file] in H.
  destruct (mem_path p (cf_dirs c)) eqn:Ed; [left; reflexivity|right].
  destruct (mem_path p (cf_files c)); [inversion H|].
  apply bind_inv in H. destruct H as [[wa [a [Ea H]]]|[e [_ H]]]; [|discriminate].
  pose proof (svb_fs _ _ (m_is_removed_svb _ _ _ _ Ea)) as F.
  destruct a; [inversion H|]. apply bind_inv in H. unfold get in H.
  destruct H as [[wb [w0 [E0 H]]]|[e [_ H]]]; [|discriminate]. inversion E0; subst wb w0.
  rewrite F in H. destruct (isdir (w_fs w) p); [reflexivity|inversion H].
Qed.

Lemma classify_dirs : forall d c l w w' ds fl, classify d (Some c) l w = (w', inl (ds, fl)) ->
  forall n, In n ds -> mem_path (n :: d) (cf_dirs c) = true \/ isdir (w_fs w) (n :: d) = true.
Proof.
  induction l as [|m l IH]; intros w w' ds fl H n Hn; cbn [classify] in H.
  - inversion H; subst. destruct Hn.
  - apply bind_inv in H. destruct H as [[wa [f [Ef H]]]|[e [_ H]]]; [|discriminate].
    apply bind_inv in H. destruct H as [[wb [isd [Ed H]]]|[e [_ H]]]; [|discriminate].
    apply bind_inv in H. destruct H as [[wc [rest [Er H]]]|[e [_ H]]]; [|discriminate].
    pose proof (svb_fs _ _ (m_is_file_svb _ _ _ _ _ Ef)) as F1.
    assert (F2: w_fs wb = w_fs wa).
    { destruct f; [inversion Ed; reflexivity|apply (svb_fs _ _ (m_is_dir_svb _ _ _ _ _ Ed))]. }
    destruct rest as [rd rf]. cbn [fst snd] in H.
    assert (Hrest: forall n0, In n0 rd -> mem_path (n0 :: d) (cf_dirs c) = true \/ isdir (w_fs w) (n0 :: d) = true).
    { intros n0 Hn0. rewrite <- F1, <- F2. apply (IH wb wc rd rf Er n0 Hn0). }
    destruct f.
    + inversion H; subst. apply Hrest. exact Hn.
    + destruct isd.
      * inversion H; subst. destruct Hn as [<-|Hn]; [|apply Hrest; exact Hn].
        destruct (m_is_dir_true _ _ _ _ Ed) as [K|K]; [left; exact K|right; rewrite <- F1; exact K].
      * inversion H; subst. apply Hrest. exact Hn.
Qed.

Section Walk.
  Variables (c : cfiles) (td : bool) (fs0 : fsT).
  Hypothesis HDL : DL c.
  Hypothesis Hml : maxlen fs0 < walk_fuel.

  Definition Wd (w : world) : Prop := BInv w /\ w_fs w = fs0.

  Lemma Wd_step : forall X (m : world -> world * X) w w' r, Wd w -> pres vPO m -> pres svbPO m -> m w = (w', r) -> Wd w'.
  Proof.
    intros X m w w' r [HB HF] Hv Hs H. split; [apply (good_BInv _ _ (Hv _ _ _ H HB))|].
    rewrite (svb_fs _ _ (Hs _ _ _ H)). exact HF.
  Qed.

  Lemma short_dir : forall x, mem_path x (cf_dirs c) = true \/ isdir fs0 x = true -> List.length x < walk_fuel.
  Proof.
    intros x [H|H]; [apply HDL; exact H|]. apply isdir_lookup in H. apply lookup_maxlen in H. lia.
  Qed.

  Lemma append_walk_osr : forall fuel d, List.length d < walk_fuel -> walk_fuel <= fuel + List.length d ->
    forall w w' r, Wd w -> append_walk fuel d td (Some c) w = (w', r) -> osr r.
  Proof.
    induction fuel as [|f IH]; intros d Hl Hf w w' r HW H; [simpl in Hf; lia|].
    rewrite append_walk_eq in H.
    set (sup_m := catch (list_dir_superset d (Some c)) (fun e => if is_os e then ret [] else raise e)) in H.
    assert (Hsup_oso: OSO sup_m).
    { apply OSO_catch; [auto with oso|auto with pres|]. intros e He. rewrite He. apply OSO_ret. }
    assert (Hsup_v: pres vPO sup_m) by (unfold sup_m; pres_auto).
    assert (Hsup_s: pres svbPO sup_m).
    { unfold sup_m. apply pres_catch; [apply list_dir_superset_svb|]. intro e. destruct (is_os e); [apply pres_ret|apply pres_raise]. }
    apply bind_inv in H. destruct H as [[wa [sup [Es H]]]|[e [Es Er]]].
    2:{ subst r. apply (Hsup_oso _ _ _ (proj1 HW) Es). }
    pose proof (Wd_step _ _ _ _ _ HW Hsup_v Hsup_s Es) as HWa.
    apply bind_inv in H. destruct H as [[wb [cls [Ec H]]]|[e [Ec Er]]].
    2:{ subst r. apply (classify_oso _ _ _ _ _ _ (proj1 HWa) Ec). }
    pose proof (Wd_step _ _ _ _ _ HWa (classify_v _ _ _) (classify_svb _ _ _) Ec) as HWb.
    destruct cls as [ds fl]. cbn [fst snd] in H.
    assert (Hds: forall n, In n ds -> List.length (n :: d) < walk_fuel).
    { intros n Hn. apply short_dir. rewrite <- (proj2 HWa). apply (classify_dirs _ _ _ _ _ _ _ Ec n Hn). }
    assert (Hgo: forall l, (forall n, In n l -> List.length (n :: d) < walk_fuel) ->
              forall u u' x, Wd u -> walk_go (fun a => append_walk f a td (Some c)) d l u = (u', x) -> osr x /\ Wd u').
    { induction l as [|n l IHl]; intros Hl0 u u' x HU Hx; cbn [walk_go] in Hx.
      - inversion Hx; subst. split; [exact I|exact HU].
      - apply bind_inv in Hx. destruct Hx as [[ua [a [Ea Hx]]]|[e [Ea Er]]].
        2:{ subst x. split; [|apply (Wd_step _ _ _ _ _ HU (append_walk_v _ _ _ _) (append_walk_svb _ _ _ _) Ea)].
            apply (IH (n :: d) (Hl0 n (or_introl eq_refl)) ltac:(simpl; simpl in Hf; lia) _ _ _ HU Ea). }
        pose proof (Wd_step _ _ _ _ _ HU (append_walk_v _ _ _ _) (append_walk_svb _ _ _ _) Ea) as HUa.
        apply bind_inv in Hx. destruct Hx as [[ub [b [Eb Hx]]]|[e [Eb Er]]].
        + destruct (IHl (fun n0 Hn0 => Hl0 n0 (or_intror Hn0)) _ _ _ HUa Eb) as [_ HUb].
          inversion Hx; subst. split; [exact I|exact HUb].
        + subst x. apply (IHl (fun n0 Hn0 => Hl0 n0 (or_intror Hn0)) _ _ _ HUa Eb). }
    apply bind_inv in H. destruct H as [[wc [below [Eg H]]]|[e [Eg Er]]].
    - inversion H; subst. exact I.
    - subst r. apply (Hgo ds Hds _ _ _ HWb Eg).
  Qed.

  Lemma m_walk_osr : forall d w w' r, Wd w -> m_walk d td (Some c) w = (w', r) -> osr r.
  Proof.
    intros d w w' r HW H. unfold m_walk in H. apply bind_inv in H.
    destruct H as [[wa [isd [Ed H]]]|[e [Ed Er]]].
    2:{ subst r. apply (m_is_dir_oso _ _ _ _ _ (proj1 HW) Ed). }
    pose proof (Wd_step _ _ _ _ _ HW (m_is_dir_v _ _) (m_is_dir_svb _ _) Ed) as HWa.
    destruct isd; [|inversion H; subst; exact I].
    assert (Hl: List.length d < walk_fuel).
    { apply short_dir. rewrite <- (proj2 HW). apply (m_is_dir_true _ _ _ _ Ed). }
    apply bind_inv in H. destruct H as [[wb [l [Ea H]]]|[e [Ea Er]]].
    - inversion H; subst. exact I.
    - subst r. apply (append_walk_osr walk_fuel d Hl ltac:(lia) _ _ _ HWa Ea).
  Qed.
End Walk.

(* every query against an overlay with shallow directories, on a shallow tree: OSError or nothing *)
Theorem exec_query_osr : forall q c w w' r, BInv w -> DL c -> maxlen (w_fs w) < walk_fuel ->
  exec_query q (Some c) w = (w', r) -> osr r.
Proof.
  intros q c w w' r HB HD Hml H. destruct q as [p|p|p|p|p td|p|p cm]; cbn [exec_query] in H.
  - refine ((_ : OSO _) _ _ _ HB H). oso_auto.
  - refine ((_ : OSO _) _ _ _ HB H). oso_auto.
  - refine ((_ : OSO _) _ _ _ HB H). oso_auto.
  - apply (m_list_dir_oso _ _ _ _ _ HB H).
  - apply (m_walk_osr c td (w_fs w) HD Hml p w w' r (conj HB eq_refl) H).
  - apply (m_get_size_oso _ _ _ _ _ HB H).
  - apply (m_read_oso _ _ _ _ _ _ HB H).
Qed.

Print Assumptions exec_query_osr.
