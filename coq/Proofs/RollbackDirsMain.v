(* Proofs/RollbackDirsMain.v — rollback leaves no file or directory of the failed
   build (C02, second half), and the first half again under a weaker side condition.
   Main theorems, at the end of the file:

     rollback_leaves_nothing_new   when a build of the mechanism model raises,
                                   (1) the regular files afterwards are EXACTLY those before,
                                       same nodes (first half of C02 + no new regular file);
                                   (2) a directory afterwards was there before, or was
                                       recorded by the previous build (c_dirs old), or is a
                                       proper ancestor of a recorded directory that is there
                                       afterwards (made by the failed build on its way to it:
                                       see RollbackDirsEx.ancestor_of_recorded_dir_remains);
                                   (3) no directory of the pre-state is lost.
     rollback_leaves_nothing_new_A the same under side condition A of RollbackLaws verbatim.
     rollback_restores_files_weak  the first half alone under the weaker condition.
     root_exception_propagates /   (4) the exception leaving the build is the one the root
     failed_build_same_exception       function raised (no side condition at all: _roll_back
                                       never raises, [roll_back_no_raise]).

   Side conditions of (1)-(3): no injected fault; fs_wf; creatable names for the regular
   files of the pre-state (D) and the recorded directories (E); and instead of A
     A2  no target is a proper ancestor of a target, of the cache file or of a recorded target;
     A1w a regular file of the pre-state that is a proper ancestor of such a path is neither
         a directory the previous build recorded nor a proper ancestor of one.
   A (RollbackLaws) implies A2 and A1w.  A1w admits the swap "old output D makes way for the
   directory D/ of a new target D/x"; what it excludes does lose a file
   (RollbackDirsEx.swap_below_recorded_dir_loses_output).

   _roll_back is analysed phase by phase from the invariant [FInv ccd] of
   RollbackDirsInv: the built files are removed (only originals remain); every
   registered directory not recorded by the previous build is removed longest first -- a
   directory that survives has a child that survives, and following children ends at a
   recorded directory; at that point no directory sits where the pre-state has a regular
   file (A1w), so restore_all puts every file back and re-makes directories of the
   pre-state only; _create_dirs makes recorded directories only, and makes every recorded
   directory of the pre-state because it works shortest first. *)
From Coq Require Import List String Ascii NArith ZArith Bool Arith Lia Sorted.
From FB.Base Require Import PyVal Fs.
From FB.Gen Require Import JsonUtilGen.
From FB.Spec Require Import Prog.
From FB.Model Require Import Types Monad CreatedFiles BuildDirs SimpleOps Builder Persist Build Run Frame.
From FB.Proofs Require Import FsLemmas ReplayLaws FrameLaws CleanLaws RollbackDirsLaws
  RollbackDirsView RollbackDirsBase RollbackDirsInv RollbackDirsMake RollbackDirsRun.
Import ListNotations.
Local Open Scope list_scope.

(* ================================================================== *)
(* 0. _create_dirs on a list sorted shortest first                     *)
(* ================================================================== *)

Lemma mkdir_ok : forall fs n d, lookup fs (n :: d) = None -> lookup fs d = Some NDir -> name_ok n = true ->
  mkdir fs (n :: d) = inl (upd (n :: d) (Some NDir) fs).
Proof. intros fs n d H1 H2 H3. unfold mkdir. rewrite H1, H2, H3. reflexivity. Qed.

Lemma create_loop : forall l w w' r, mapM_ mkdir_step l w = (w', r) -> w_faults w = [] ->
  r = inl tt /\ w_faults w' = [] /\
  (forall q, lookup (w_fs w') q = lookup (w_fs w) q \/
             (In q l /\ lookup (w_fs w) q = None /\ lookup (w_fs w') q = Some NDir)).
Proof.
  induction l as [|x l IH]; intros w w' r H Hf; cbn [mapM_] in H.
  - inversion H; subst. repeat split; auto.
  - apply bind_inv in H. destruct H as [(w1 & u & E1 & H) | (e & E1 & _)].
    2:{ destruct (caught_step_spec _ _ _ _ _ _ E1 Hf) as (Y & _). discriminate Y. }
    destruct (caught_step_spec _ _ _ _ _ _ E1 Hf) as (_ & Hf1 & _ & _ & _ & _ & _ & S1).
    destruct (IH _ _ _ H Hf1) as (R0 & R1 & R3).
    split; [exact R0|]. split; [exact R1|]. intro q.
    destruct S1 as [S1|(S1 & _)].
    + apply mkdir_frame in S1. destruct S1 as (G1 & G2 & G3).
      destruct (path_eq_dec q x) as [->|N].
      * right. split; [left; reflexivity|]. split; [exact G2|].
        destruct (R3 x) as [Y|(_ & Y & _)]; congruence.
      * destruct (R3 q) as [Y|(Y1 & Y2 & Y3)].
        -- left. rewrite Y. apply G3. exact N.
        -- right. split; [right; exact Y1|]. split; [rewrite <- (G3 q N); exact Y2 | exact Y3].
    + destruct (R3 q) as [Y|(Y1 & Y2 & Y3)].
      * left. congruence.
      * right. split; [right; exact Y1|]. split; [congruence | exact Y3].
Qed.

Lemma create_loop_want : forall (Want : path -> Prop) l, StronglySorted shorter_first l ->
  forall w w' r, mapM_ mkdir_step l w = (w', r) -> w_faults w = [] ->
  (forall d, In d l -> Want d ->
     d <> [] /\ path_ok d = true /\ (forall g, lookup (w_fs w) d <> Some (NFile g)) /\
     (lookup (w_fs w) (dirname d) = Some NDir \/ (In (dirname d) l /\ Want (dirname d)))) ->
  forall d, In d l -> Want d -> lookup (w_fs w') d = Some NDir.
Proof.
  intros Want l Hs. induction Hs as [|x l Hs IH Hx]; intros w w' r H Hf G d Hd Hwd; [destruct Hd|].
  cbn [mapM_] in H.
  apply bind_inv in H. destruct H as [(w1 & u & E1 & H) | (e & E1 & _)].
  2:{ destruct (caught_step_spec _ _ _ _ _ _ E1 Hf) as (Y & _). discriminate Y. }
  destruct (caught_step_spec _ _ _ _ _ _ E1 Hf) as (_ & Hf1 & _ & _ & _ & _ & _ & S1).
  destruct (create_loop _ _ _ _ H Hf1) as (_ & _ & R3).
  rewrite Forall_forall in Hx.
  assert (Keep : forall q, lookup (w_fs w1) q = Some NDir -> lookup (w_fs w') q = Some NDir).
  { intros q Hq. destruct (R3 q) as [Y|(_ & Y & _)]; congruence. }
  assert (Step : forall q, lookup (w_fs w1) q = lookup (w_fs w) q \/
                           (q = x /\ lookup (w_fs w) q = None /\ lookup (w_fs w1) q = Some NDir)).
  { intro q. destruct S1 as [S1|(S1 & _)]; [|left; congruence].
    apply mkdir_frame in S1. destruct S1 as (G1 & G2 & G3).
    destruct (path_eq_dec q x) as [->|N]; [right; auto | left; apply G3; exact N]. }
  assert (K : Want x -> lookup (w_fs w1) x = Some NDir).
  { intro Hwx. destruct (G x (or_introl eq_refl) Hwx) as (Q1 & Q2 & Q3 & Q4).
    destruct x as [|n dd]; [contradiction|]. cbn [dirname tl] in Q4.
    assert (Hpar : lookup (w_fs w) dd = Some NDir).
    { destruct Q4 as [Q4|([E|Q4] & _)]; [exact Q4 | exfalso; exact (cons_neq_self _ _ E) |].
      exfalso. apply Hx in Q4. unfold shorter_first in Q4. pose proof (plen_cons_lt n dd). lia. }
    cbn [path_ok forallb] in Q2. apply andb_true_iff in Q2. destruct Q2 as [Hn _].
    destruct (lookup (w_fs w) (n :: dd)) as [[g|]|] eqn:El.
    - exfalso. exact (Q3 g eq_refl).
    - destruct (Step (n :: dd)) as [Y|(_ & Y & _)]; congruence.
    - destruct S1 as [S1|(_ & e & S1)].
      + apply mkdir_frame in S1. destruct S1 as (G1 & _). exact G1.
      + rewrite (mkdir_ok _ _ _ El Hpar Hn) in S1. discriminate S1. }
  destruct Hd as [<-|Hd]; [apply Keep, K, Hwd|].
  apply (IH _ _ _ H Hf1); [|exact Hd | exact Hwd].
  intros q Hq Hwq. destruct (G q (or_intror Hq) Hwq) as (Q1 & Q2 & Q3 & Q4).
  split; [exact Q1|]. split; [exact Q2|]. split.
  - intros g Y. destruct (Step q) as [Z|(_ & _ & Z)]; [rewrite Z in Y; exact (Q3 g Y) | congruence].
  - destruct Q4 as [Q4|([E|Q4] & Q5)].
    + left. destruct (Step (dirname q)) as [Z|(_ & Z & _)]; congruence.
    + left. rewrite <- E. apply K. rewrite E. exact Q5.
    + right. split; assumption.
Qed.

(* ================================================================== *)
(* 1. restore_all and directories                                      *)
(* ================================================================== *)

Section Main.

Variable fs0 : fsT.
Variable old : cache.
Variable cf : path.
Variable P : path -> Prop.

Hypothesis HypA : forall a t, Tgt old cf P t -> below a t = true -> ~ P a.
Hypothesis Hwf0 : fs_wf fs0.
Hypothesis Hnames : forall p f, origfile fs0 p f -> path_ok p = true.
Hypothesis HE : forall d, In d (c_dirs old) -> path_ok d = true.
(* SIDE CONDITION A1 (weak form): a regular file of the pre-state that is a proper ancestor
   of a target (of the cache file, of a recorded target) is neither a directory the
   previous build recorded nor a proper ancestor of one *)
Hypothesis HK : forall a f r0, origfile fs0 a f -> AncT old cf P a -> In r0 (c_dirs old) ->
  a <> r0 /\ below a r0 = false.

Notation RI := (RInv fs0 old cf P).
Notation DI := (DInv fs0 old cf P).
Notation FI := (FInv fs0 old cf P).

Definition isD (fs : fsT) (d : path) : Prop := lookup fs d = Some NDir.

(* directories are kept, and a new one is a directory of the pre-state *)
Definition dgrow (v v' : world) : Prop :=
  (forall q, isD (w_fs v) q -> isD (w_fs v') q) /\
  (forall q, isD (w_fs v') q -> isD (w_fs v) q \/ isD fs0 q).

Lemma dgrow_refl : forall v, dgrow v v.
Proof. intro v. split; auto. Qed.
Lemma dgrow_trans : forall a b c, dgrow a b -> dgrow b c -> dgrow a c.
Proof.
  intros a b c [A1 A2] [B1 B2]. split; [auto|]. intros q Hq.
  destruct (B2 q Hq) as [Y|Y]; [apply A2; exact Y | right; exact Y].
Qed.

Lemma restore_one_dirs : forall p f B v v' r, restore_one (p, f) v = (v', r) -> origfile fs0 p f ->
  Rst fs0 ((p, f) :: B) v -> dgrow v v'.
Proof.
  intros p f B v v' r H Ho (A & R2 & R3 & R4). unfold restore_one in H. unfold bind at 1, get in H.
  assert (Hnd : isdir (w_fs v) p = false).
  { unfold isdir. destruct (lookup (w_fs v) p) as [[g|]|] eqn:E; try reflexivity. exfalso. exact (R3 p f Ho E). }
  rewrite Hnd in H.
  destruct p as [|n d]; [unfold origfile in Ho; cbn in Ho; discriminate Ho|].
  cbn [dirname tl] in H.
  pose proof (Hnames _ _ Ho) as Hok. cbn [path_ok forallb] in Hok. apply andb_true_iff in Hok. destruct Hok as [Hn Hok].
  assert (Hancdir : forall a, a = d \/ below a d = true -> lookup fs0 a = Some NDir).
  { intros a Ha. apply (wf_ancestor_dir fs0 Hwf0 (n :: d) (NFile f) a Ho).
    destruct Ha as [->|Ha]; [apply below_self_cons | apply below_cons; exact Ha]. }
  destruct (makedirs_p_ok d (w_fs v) Hok) as (fs1 & M1 & M2 & M3).
  { intros a Ha g Y. apply R2 in Y. unfold origfile in Y. rewrite (Hancdir a Ha) in Y. discriminate Y. }
  assert (N1 : lookup fs1 (n :: d) <> Some NDir).
  { destruct (M3 (n :: d)) as [Y|(_ & _ & [Y|Y])].
    - rewrite Y. exact (R3 _ _ Ho).
    - exfalso. exact (cons_neq_self _ _ Y).
    - apply below_length in Y. cbn in Y. lia. }
  unfold catch, bind in H. rewrite (effect_p_nofault _ _ _ _ A), M1 in H.
  rewrite effect_nofault' in H by exact A.
  cbn [w_fs set_log set_fs set_effects] in H. rewrite (replace_in_ok _ _ _ _ N1 M2 Hn) in H.
  inversion H; subst v' r; clear H. unfold dgrow, isD. cbn [w_fs set_log set_fs set_effects]. split.
  - intros q Hq. destruct (path_eq_dec q (n :: d)) as [->|Nq].
    + exfalso. destruct (M3 (n :: d)) as [Y|(Y & _)]; congruence.
    + rewrite (lookup_upd_neq _ _ _ _ Nq). destruct (M3 q) as [Y|(Y & _)]; congruence.
  - intros q Hq. destruct (path_eq_dec q (n :: d)) as [->|Nq].
    + rewrite lookup_upd_eq in Hq by discriminate. discriminate Hq.
    + rewrite (lookup_upd_neq _ _ _ _ Nq) in Hq.
      destruct (M3 q) as [Y|(_ & _ & Y)]; [left; congruence | right; apply Hancdir; exact Y].
Qed.

Lemma restore_loop_dirs : forall B v v' r, mapM_ restore_one B v = (v', r) ->
  (forall p f, In (p, f) B -> origfile fs0 p f) -> Rst fs0 B v -> r = inl tt /\ Rst fs0 [] v' /\ dgrow v v'.
Proof.
  induction B as [|[p f] B IH]; intros v v' r H HB HR; cbn [mapM_] in H.
  - inversion H; subst. split; [reflexivity|]. split; [exact HR | apply dgrow_refl].
  - assert (Ho : origfile fs0 p f) by (apply HB; left; reflexivity).
    apply bind_inv in H. destruct H as [(v1 & u & E1 & H) | (e & E1 & _)].
    + destruct (restore_one_ok fs0 Hwf0 Hnames _ _ _ _ _ _ E1 Ho HR) as (_ & HR1).
      pose proof (restore_one_dirs _ _ _ _ _ _ E1 Ho HR) as G1.
      destruct (IH _ _ _ H) as (A1 & A2 & A3); [intros q g Hq; apply HB; right; exact Hq | exact HR1 |].
      split; [exact A1|]. split; [exact A2 | eapply dgrow_trans; eauto].
    + destruct (restore_one_ok fs0 Hwf0 Hnames _ _ _ _ _ _ E1 Ho HR) as (Y & _). discriminate Y.
Qed.

Lemma restore_all_dirs : forall w w' r, restore_all w = (w', r) -> RI w -> files_in fs0 [] w ->
  (forall q f, origfile fs0 q f -> lookup (w_fs w) q <> Some NDir) ->
  r = inl tt /\ Rst fs0 [] w' /\ dgrow w w'.
Proof.
  intros w w' r H Hinv J I6. unfold restore_all in H. unfold bind at 1, get in H.
  apply bind_inv in H. destruct H as [(w4 & u4 & E4 & H) | (e & E4 & _)]; [|discriminate E4].
  unfold put in E4. inversion E4; subst w4; clear E4.
  destruct Hinv as (A & _ & _ & I1 & I2 & _).
  assert (HR : Rst fs0 (w_backups w) (set_backups [] w)).
  { unfold Rst. cbn [w_faults w_fs set_backups]. split; [exact A|]. split; [|split; [exact I6 | exact I1]].
    intros q g Hq. destruct (J q g Hq) as [Y|[]]. exact Y. }
  exact (restore_loop_dirs _ _ _ _ H I2 HR).
Qed.

(* ================================================================== *)
(* 2. _roll_back                                                       *)
(* ================================================================== *)

Variable X : list path.          (* the directories made for the cache file *)

Definition Keep (fs : fsT) (d : path) : Prop :=
  isD fs0 d \/ In d (c_dirs old) \/ exists r0, In r0 (c_dirs old) /\ below d r0 = true /\ isD fs r0.

Theorem roll_back_dirs : forall w w' r, roll_back X w = (w', r) -> FI X w ->
  r = inl tt /\
  (forall p g, lookup (w_fs w') p = Some (NFile g) <-> origfile fs0 p g) /\
  (forall d, isD (w_fs w') d -> Keep (w_fs w') d) /\
  (forall d, isD fs0 d -> isD (w_fs w') d).
Proof.
  intros w w' r H [Hinv HD]. unfold roll_back in H. unfold bind at 1, get in H. cbv zeta in H.
  pose proof Hinv as (_ & Bold & _).
  set (L := filter (fun d => negb (mem_path d (c_dirs (w_old w))))
              (union_paths (union_paths [] (bd_created (w_bd w) ++ X)) (bd_err_created (w_bd w)))) in *.
  assert (HL : forall d, In d L <-> (tracked (w_bd w) d \/ In d X) /\ ~ In d (c_dirs old)).
  { intro d. subst L. rewrite filter_In, !In_union_paths, in_app_iff, Bold. unfold tracked. cbn [In].
    rewrite negb_true_iff. split.
    - intros (Y & Z). split; [tauto|]. intro K. apply mem_path_In in K. congruence.
    - intros (Y & Z). split; [tauto|]. destruct (mem_path d (c_dirs old)) eqn:E; [|reflexivity].
      apply mem_path_In in E. contradiction. }
  (* phase 1: the built files *)
  apply bind_inv in H. destruct H as [(w1 & u1 & E1 & H) | (e & E1 & _)].
  2:{ destruct (remove_built_phase fs0 old cf P _ _ _ _ E1 Hinv) as (Y & _); [auto | | discriminate Y].
      destruct Hinv as (_ & _ & _ & _ & _ & _ & I4 & _). exact I4. }
  destruct (remove_built_phase fs0 old cf P _ _ _ _ E1 Hinv) as (_ & Hinv1 & J1); [auto | |].
  { destruct Hinv as (_ & _ & _ & _ & _ & _ & I4 & _). exact I4. }
  assert (K1 : dkeep w w1).
  { refine ((_ : pres dkeepPO _) _ _ _ E1). apply pres_mapM_. intro. apply try_to_remove_file_dkeep. }
  pose proof (dkeep_D fs0 old cf P X _ _ K1 HD) as HD1. destruct K1 as (Hb1 & _ & _).
  (* phase 2: the directories this build made *)
  apply bind_inv in H. destruct H as [(w2 & u2 & E2 & H) | (e & E2 & _)];
    [|exfalso; exact (remove_empty_dirs_no_raise _ _ _ _ E2)].
  assert (T0 : forall v, tcond None v) by (intros v q Y; discriminate Y).
  destruct (remove_empty_dirs_T fs0 old cf P None _ _ _ _ E2 Hinv1 (T0 _)) as [Hinv2 _].
  pose proof (remove_empty_dirs_files old cf P _ _ _ _ E2) as S2.
  assert (J2 : files_in fs0 [] w2).
  { intros q g Hq. apply J1. apply S2. exact Hq. }
  pose proof Hinv1 as (Hf1 & _).
  destruct (remove_empty_dirs_spec _ _ _ _ E2 Hf1) as (_ & _ & _ & R3 & R4 & _).
  destruct HD1 as (_ & D2 & D3 & DW & _). rewrite Hb1 in D2, DW.
  assert (Hstay : forall d, isD (w_fs w2) d -> isD (w_fs w1) d).
  { intros d Hd. unfold isD in *. destruct (R3 d) as [Y|(_ & _ & Y)]; congruence. }
  assert (K2 : forall d, isD (w_fs w2) d -> Keep (w_fs w2) d).
  { assert (G : forall k d, list_max (map (@List.length name) L) < List.length d + k ->
                  isD (w_fs w2) d -> Keep (w_fs w2) d).
    { induction k as [|k IH]; intros d Hk Hd.
      - destruct (D2 d (Hstay d Hd)) as [Y|Y]; [left; exact Y|].
        destruct (in_dec path_eq_dec d (c_dirs old)) as [Hc|Hc]; [right; left; exact Hc|].
        exfalso. assert (Hin : In d L) by (apply HL; split; assumption).
        pose proof (length_le_max L d Hin). lia.
      - destruct (D2 d (Hstay d Hd)) as [Y|Y]; [left; exact Y|].
        destruct (in_dec path_eq_dec d (c_dirs old)) as [Hc|Hc]; [right; left; exact Hc|].
        assert (Hin : In d L) by (apply HL; split; assumption).
        assert (Hne : d <> []) by (intro E; subst d; apply Hc; exfalso; clear - Y DW Hc;
                                   destruct (DW [] (match Y with or_introl a => or_introl a | or_intror b => or_intror (or_intror (or_intror b)) end)) as [Z|Z];
                                   [exact (Hc Z) | apply Z; reflexivity]).
        destruct (R4 d Hin Hne Hd) as [n Hn].
        destruct (lookup (w_fs w2) (n :: d)) as [[g|]|] eqn:Ec; [| |contradiction].
        + left. destruct (J2 _ _ Ec) as [Z|[]]. exact (Hwf0 _ _ Z).
        + destruct (IH (n :: d)) as [Z|[Z|(r0 & Z1 & Z2 & Z3)]]; [cbn [List.length]; lia | exact Ec | | |].
          * left. exact (Hwf0 _ _ Z).
          * right; right. exists (n :: d). split; [exact Z|]. split; [apply below_self_cons | exact Ec].
          * right; right. exists r0. split; [exact Z1|]. split; [|exact Z3].
            eapply below_trans; [apply below_self_cons | exact Z2]. }
    intros d Hd. apply (G (S (list_max (map (@List.length name) L))) d); [lia | exact Hd]. }
  assert (L2 : forall d, isD fs0 d -> isD (w_fs w2) d \/ In d (c_dirs old)).
  { intros d Hd. destruct (D3 d Hd) as [Y|Y]; [|right; exact Y].
    destruct (R3 d) as [Z|(Z1 & _ & _)]; [left; unfold isD in *; congruence|].
    apply HL in Z1. destruct Z1 as (Z1 & Z2).
    assert (Hw : Wp fs0 old d).
    { apply DW. destruct Z1 as [[Z1|Z1]|Z1]; auto. left; left; exact Z1. left; right; exact Z1. }
    destruct Hw as [Hw|Hw]; [right; exact Hw | contradiction]. }
  (* phase 3: the backups; no directory is left where the pre-state has a regular file *)
  assert (I6' : forall q f, origfile fs0 q f -> lookup (w_fs w2) q <> Some NDir).
  { intros q f Ho Hq. pose proof Hinv2 as (_ & _ & _ & _ & _ & _ & _ & _ & I6 & _).
    pose proof (I6 q f Ho Hq) as Ha.
    destruct (K2 q Hq) as [Z|[Z|(r0 & Z1 & Z2 & _)]].
    - unfold isD, origfile in *. congruence.
    - destruct (HK q f q Ho Ha Z) as [Y _]. apply Y. reflexivity.
    - destruct (HK q f r0 Ho Ha Z1) as [_ Y]. congruence. }
  apply bind_inv in H. destruct H as [(w3 & u3 & E3 & H) | (e & E3 & _)].
  2:{ destruct (restore_all_dirs _ _ _ E3 Hinv2 J2 I6') as (Y & _). discriminate Y. }
  destruct (restore_all_dirs _ _ _ E3 Hinv2 J2 I6') as (_ & HR3 & [G3a G3b]).
  destruct HR3 as (Hf3 & Q2 & _ & Q4).
  (* phase 4: the directories of the previous build *)
  rewrite create_dirs_eq in H.
  destruct (create_loop _ _ _ _ H Hf3) as (R0 & _ & C3).
  pose proof (create_dirs_files (c_dirs (w_old w)) _ _ _ H) as S4.
  assert (G4 : forall q, isD (w_fs w3) q -> isD (w_fs w') q).
  { intros q Hq. unfold isD in *. destruct (C3 q) as [Y|(_ & Y & _)]; congruence. }
  split; [exact R0|]. split; [|split].
  - intros p g. split.
    + intro Hp. apply Q2. apply S4. exact Hp.
    + intro Ho. apply S4. destruct (Q4 p g Ho) as [Y|[]]. exact Y.
  - intros d Hd. destruct (C3 d) as [Y|(Y & _)].
    + assert (Hd3 : isD (w_fs w3) d) by (unfold isD in *; congruence).
      destruct (G3b d Hd3) as [Z|Z]; [|left; exact Z].
      destruct (K2 d Z) as [K|[K|(r0 & K1 & K2' & K3)]]; [left; exact K | right; left; exact K|].
      right; right. exists r0. split; [exact K1|]. split; [exact K2' | apply G4, G3a, K3].
    + right; left. unfold sort_shortest_first in Y. apply In_sort_by' in Y. rewrite Bold in Y. exact Y.
  - intros d Hd. destruct (L2 d Hd) as [Y|Y]; [apply G4, G3a, Y|].
    destruct d as [|n dd]; [reflexivity|].
    apply (create_loop_want (fun q => isD fs0 q /\ q <> []) _ (sort_shortest_sorted _) _ _ _ H Hf3);
      [| unfold sort_shortest_first; apply In_sort_by'; rewrite Bold; exact Y | split; [exact Hd | discriminate]].
    intros q Hq (Hq1 & Hq2). unfold sort_shortest_first in Hq. apply In_sort_by' in Hq. rewrite Bold in Hq.
    split; [exact Hq2|]. split; [apply HE; exact Hq|]. split.
    + intros g Z. apply Q2 in Z. unfold origfile, isD in *. congruence.
    + assert (Hpar : isD fs0 (dirname q)) by exact (Hwf0 _ _ Hq1).
      destruct (L2 _ Hpar) as [Z|Z]; [left; apply G3a; exact Z|].
      destruct (dirname q) as [|m q'] eqn:Eq; [left; reflexivity|].
      right. split; [unfold sort_shortest_first; apply In_sort_by'; rewrite Bold; exact Z|].
      split; [exact Hpar | discriminate].
Qed.

End Main.

(* ================================================================== *)
(* 3. The whole build                                                  *)
(* ================================================================== *)

Section Accept.

Variable fs0 : fsT.
Variable old : cache.
Variable cf : path.
Variable P : path -> Prop.

Hypothesis HypA : forall a t, Tgt old cf P t -> below a t = true -> ~ P a.
Hypothesis Hwf0 : fs_wf fs0.
Hypothesis HE : forall d, In d (c_dirs old) -> path_ok d = true.

Lemma DInv_start : forall w nm svers, fs0 = w_fs w -> DInv fs0 old cf P [] (start_world w cf old nm svers).
Proof.
  intros w nm svers Hfs. unfold DInv, start_world, tracked, in_counts, bd_init.
  cbn [w_fs w_bd bd_created bd_err_created bd_removed bd_maybe bd_counts cnt_get].
  rewrite <- Hfs. split; [exact Hwf0|]. split; [auto|]. split; [auto|]. split.
  - intros d [[[]|[]]|[[]|[Hd|[]]]]. apply In_fold_add_path in Hd. destruct Hd as [[]|Hd]. left. exact Hd.
  - intros a Ha. discriminate Ha.
Qed.

Lemma bd_pre_dkeep : forall ccd, pres dkeepPO (bd_pre cf ccd).
Proof.
  intro ccd. unfold bd_pre. apply pres_bind; [apply set_created_dirs_dkeep|]. intro err.
  intros w w' r H. unfold bind at 1, get in H.
  destruct (isfile (w_fs w) cf) eqn:Ef.
  - apply isfile_not_dir in Ef.
    apply bind_inv in H. destruct H as [(w1 & u & E1 & H) | (e & E1 & _)].
    + inversion H; subst.
      apply bind_inv in E1. destruct E1 as [(w2 & b & E2 & H2) | (e & E2 & Y)]; [|discriminate Y].
      inversion H2; subst. eapply back_up_dkeep; eauto.
    + apply bind_inv in E1. destruct E1 as [(w2 & b & E2 & H2) | (e' & E2 & _)]; [inversion H2|].
      eapply back_up_dkeep; eauto.
  - apply bind_inv in H. destruct H as [(w1 & u & E1 & H) | (e & E1 & _)]; [|inversion E1].
    inversion E1; subst. inversion H; subst. apply dkeep_refl.
Qed.

(* a failed build ends in _roll_back, entered with the invariant *)
Lemma m_accept_rollback : forall nm svers root w w' e,
  fs0 = w_fs w -> w_faults w = [] -> (forall Y, pres (FPO fs0 old cf P Y None) root) ->
  m_accept cf nm svers root w old = (w', Done (inr e)) ->
  exists ccd wx r0, FInv fs0 old cf P ccd wx /\ roll_back ccd wx = (w', r0).
Proof.
  intros nm svers root w w' e Hfs Hf Hroot H. unfold m_accept in H. cbv zeta in H.
  pose proof (RInv_start fs0 old cf P w nm svers Hfs Hf) as Hr0.
  pose proof (DInv_start w nm svers Hfs) as HD0.
  assert (T0 : forall v, tcond None v) by (intros v q Y; discriminate Y).
  assert (Tcf : Tgt old cf P cf) by (right; left; reflexivity).
  assert (Hrb : forall ccd ex wx w2 e0,
            match roll_back ccd wx with
            | (w', inl _) => (w', Done (inr ex))
            | (w', inr e') => (w', Done (inr e'))
            end = (w2, Done (inr e0)) -> exists r0, roll_back ccd wx = (w2, r0)).
  { intros ccd ex wx w2 e0 Y. destruct (roll_back ccd wx) as [wr [u|e']]; inversion Y; subst; eauto. }
  destruct (make_dirs (dirname cf) (start_world w cf old nm svers)) as [w1 [ccd|e1]] eqn:E1;
    destruct (make_dirs_T fs0 old cf P HypA None cf Tcf _ _ _ E1 Hr0 (T0 _)) as [Hr1 _];
    pose proof (make_dirs_D fs0 old cf P HypA [] _ _ _ _ E1 Hr0 HD0
                  (fun d Hne Hd => AncT_of_target old cf P cf d Tcf Hne Hd)) as R; cbn beta iota in R.
  2:{ destruct (Hrb _ _ _ _ _ H) as [r0 Hr]. exists [], w1, r0. split; [split; assumption | exact Hr]. }
  destruct R as (made & A1 & A2 & A3 & A4 & A5).
  assert (HD1 : DInv fs0 old cf P ccd w1).
  { apply (DInv_X fs0 old cf P (made ++ []) ccd w1 A1).
    - intros d Hd. left. apply A3. rewrite app_nil_r in Hd. exact Hd.
    - intros d Hd. exact (proj1 (A4 d Hd)). }
  match type of H with (let '(_, _) := ?Z in _) = _ => destruct Z as [w2 [res x]] eqn:E2 end.
  assert (HF2 : FInv fs0 old cf P ccd w2).
  { refine (proj1 (Hroot ccd _ _ _ E2 _ (T0 _))).
    exact (proj1 (FRel_set_log fs0 old cf P ccd None _ w1 (conj Hr1 HD1) (T0 _))). }
  destruct res as [v|e2].
  2:{ destruct (Hrb _ _ _ _ _ H) as [r0 Hr]. exists ccd, w2, r0. split; [exact HF2 | exact Hr]. }
  destruct HF2 as [Hr2 HD2].
  destruct (bd_pre cf ccd w2) as [w3 [err|e3]] eqn:E3; destruct (bd_pre_inv fs0 old cf P _ _ _ _ E3 Hr2) as [Hr3 Hnf];
    pose proof (dkeep_D fs0 old cf P ccd _ _ (bd_pre_dkeep _ _ _ _ E3) HD2) as HD3.
  2:{ destruct (Hrb _ _ _ _ _ H) as [r0 Hr]. exists ccd, w3, r0. split; [split; assumption | exact Hr]. }
  destruct (write_cache w3) as [w4 [u4|e4]] eqn:E4.
  - destruct (commit err w4) as [w5 [u5|e5]] eqn:E5; [discriminate H|].
    exfalso. eapply commit_no_raise; [|exact E5].
    destruct Hr3 as (_ & B & C & _). destruct (write_cache_only_cf cf _ _ _ C E4) as (_ & Y & _).
    rewrite Y, B. exact HE.
  - destruct (try_to_remove_file cf w4) as [w5 r5] eqn:E5.
    destruct (Hrb _ _ _ _ _ H) as [r0 Hr]. exists ccd, w5, r0. split; [|exact Hr]. split.
    + eapply write_cache_fail_T; eauto.
    + apply (dkeep_D fs0 old cf P ccd w4); [exact (try_to_remove_file_dkeep cf _ _ _ E5)|].
      exact (dkeep_D fs0 old cf P ccd _ _ (write_cache_dkeep _ _ _ E4) HD3).
Qed.

End Accept.

(* ================================================================== *)
(* 4. The theorems                                                     *)
(* ================================================================== *)

Theorem rollback_leaves_nothing_new : forall cf nm vers svers root w w' e (P : path -> Prop),
  w_faults w = [] ->
  sanitize vers = Some svers ->
  AllTargets P root ->
  (* C: the pre-state is well formed *)
  fs_wf (w_fs w) ->
  (* D: every regular file of the pre-state has a path that can be created *)
  (forall p f, lookup (w_fs w) p = Some (NFile f) -> path_ok p = true) ->
  (* A2: no target is a proper ancestor of a target, of the cache file or of a target
     recorded in the old cache *)
  (forall a t, (P t \/ t = cf \/ In t (cache_targets (old_cache_of (w_fs w) cf nm svers))) ->
     below a t = true -> ~ P a) ->
  (* A1, weak form: a regular file of the pre-state that is a proper ancestor of such a path
     is not a directory recorded by the old cache, nor a proper ancestor of one *)
  (forall a f t r, lookup (w_fs w) a = Some (NFile f) ->
     (P t \/ t = cf \/ In t (cache_targets (old_cache_of (w_fs w) cf nm svers))) -> below a t = true ->
     In r (c_dirs (old_cache_of (w_fs w) cf nm svers)) -> a <> r /\ below a r = false) ->
  (* E: the directories recorded by the old cache have creatable names *)
  (forall d, In d (c_dirs (old_cache_of (w_fs w) cf nm svers)) -> path_ok d = true) ->
  run_build cf nm vers root w = (w', Done (inr e)) ->
  (* (1) the regular files afterwards are exactly those before, same nodes *)
  (forall p f, lookup (w_fs w') p = Some (NFile f) <-> lookup (w_fs w) p = Some (NFile f)) /\
  (* (2) a directory afterwards was there before, or was recorded by the previous build, or
         is a proper ancestor of a recorded directory that is there afterwards *)
  (forall d, isdir (w_fs w') d = true ->
     isdir (w_fs w) d = true \/ In d (c_dirs (old_cache_of (w_fs w) cf nm svers)) \/
     exists r, In r (c_dirs (old_cache_of (w_fs w) cf nm svers)) /\ below d r = true /\ isdir (w_fs w') r = true) /\
  (* (3) no directory is lost *)
  (forall d, isdir (w_fs w) d = true -> isdir (w_fs w') d = true).
Proof.
  intros cf nm vers svers root w w' e P Hf Hsv Hat Hwf Hnames HA HK HE H.
  set (old := old_cache_of (w_fs w) cf nm svers) in *.
  unfold run_build in H.
  destruct (m_build cf nm vers (fun w0 => run root None [] w0) w) as [w1 r1] eqn:E.
  inversion H; subst w' r1; clear H.
  change (w_fs (end_build w1)) with (w_fs w1).
  assert (Hroot : forall Y, pres (FPO (w_fs w) old cf P Y None) (fun w0 => run root None [] w0)).
  { intro Y. exact (run_F (w_fs w) old cf P HA Y root Hat None []). }
  assert (HK' : forall a f r0, origfile (w_fs w) a f -> AncT old cf P a -> In r0 (c_dirs old) ->
                  a <> r0 /\ below a r0 = false).
  { intros a f r0 Ho (t & Ht & Hb) Hr. exact (HK a f t r0 Ho Ht Hb Hr). }
  assert (G : forall old0, old0 = old -> m_accept cf nm svers (fun w0 => run root None [] w0) w old0 = (w1, Done (inr e)) ->
    (forall p f, lookup (w_fs w1) p = Some (NFile f) <-> lookup (w_fs w) p = Some (NFile f)) /\
    (forall d, isdir (w_fs w1) d = true ->
       isdir (w_fs w) d = true \/ In d (c_dirs old) \/
       exists r, In r (c_dirs old) /\ below d r = true /\ isdir (w_fs w1) r = true) /\
    (forall d, isdir (w_fs w) d = true -> isdir (w_fs w1) d = true)).
  { intros old0 -> Y.
    destruct (m_accept_rollback (w_fs w) old cf P HA Hwf HE nm svers _ w w1 e eq_refl Hf Hroot Y) as (ccd & wx & r0 & HF & Hrb).
    destruct (roll_back_dirs (w_fs w) old cf P Hwf Hnames HE HK' ccd _ _ _ Hrb HF) as (_ & B1 & B2 & B3).
    split; [exact B1|]. split.
    - intros d Hd. apply isdir_lookup in Hd. destruct (B2 d Hd) as [Z|[Z|(r1 & Z1 & Z2 & Z3)]].
      + left. apply isdir_lookup. exact Z.
      + right; left. exact Z.
      + right; right. exists r1. split; [exact Z1|]. split; [exact Z2 | apply isdir_lookup; exact Z3].
    - intros d Hd. apply isdir_lookup. apply B3. apply isdir_lookup. exact Hd. }
  rewrite m_build_unfold, Hsv in E. subst old. unfold old_cache_of in G |- *.
  destruct (lookup (w_fs w) cf) as [[g|]|].
  - destruct (cache_of_json (f_json g)) as [old0| |]; try discriminate E.
    destruct (String.eqb (c_name old0) nm); [|discriminate E]. exact (G old0 eq_refl E).
  - discriminate E.
  - exact (G _ eq_refl E).
Qed.

(* the same under side condition A exactly as in [RollbackLaws.rollback_restores_files] *)
Corollary rollback_leaves_nothing_new_A : forall cf nm vers svers root w w' e (P : path -> Prop),
  w_faults w = [] ->
  sanitize vers = Some svers ->
  AllTargets P root ->
  fs_wf (w_fs w) ->
  (forall p f, lookup (w_fs w) p = Some (NFile f) -> path_ok p = true) ->
  (* A: neither a regular file of the pre-state nor a target is a proper ancestor of a
     target, of the cache file or of a target recorded in the old cache *)
  (forall a t, (P t \/ t = cf \/ In t (cache_targets (old_cache_of (w_fs w) cf nm svers))) ->
     below a t = true -> (forall f, lookup (w_fs w) a <> Some (NFile f)) /\ ~ P a) ->
  (forall d, In d (c_dirs (old_cache_of (w_fs w) cf nm svers)) -> path_ok d = true) ->
  run_build cf nm vers root w = (w', Done (inr e)) ->
  (forall p f, lookup (w_fs w') p = Some (NFile f) <-> lookup (w_fs w) p = Some (NFile f)) /\
  (forall d, isdir (w_fs w') d = true ->
     isdir (w_fs w) d = true \/ In d (c_dirs (old_cache_of (w_fs w) cf nm svers)) \/
     exists r, In r (c_dirs (old_cache_of (w_fs w) cf nm svers)) /\ below d r = true /\ isdir (w_fs w') r = true) /\
  (forall d, isdir (w_fs w) d = true -> isdir (w_fs w') d = true).
Proof.
  intros cf nm vers svers root w w' e P Hf Hsv Hat Hwf Hnames HA HE H.
  eapply (rollback_leaves_nothing_new cf nm vers svers root w w' e P); eauto.
  - intros a t Ht Hb. exact (proj2 (HA a t Ht Hb)).
  - intros a f t r Ho Ht Hb _. exfalso. exact (proj1 (HA a t Ht Hb) f Ho).
Qed.

(* the first half of C02 under the weaker side condition *)
Corollary rollback_restores_files_weak : forall cf nm vers svers root w w' e (P : path -> Prop),
  w_faults w = [] ->
  sanitize vers = Some svers ->
  AllTargets P root ->
  fs_wf (w_fs w) ->
  (forall p f, lookup (w_fs w) p = Some (NFile f) -> path_ok p = true) ->
  (forall a t, (P t \/ t = cf \/ In t (cache_targets (old_cache_of (w_fs w) cf nm svers))) ->
     below a t = true -> ~ P a) ->
  (forall a f t r, lookup (w_fs w) a = Some (NFile f) ->
     (P t \/ t = cf \/ In t (cache_targets (old_cache_of (w_fs w) cf nm svers))) -> below a t = true ->
     In r (c_dirs (old_cache_of (w_fs w) cf nm svers)) -> a <> r /\ below a r = false) ->
  (forall d, In d (c_dirs (old_cache_of (w_fs w) cf nm svers)) -> path_ok d = true) ->
  run_build cf nm vers root w = (w', Done (inr e)) ->
  forall p f, lookup (w_fs w) p = Some (NFile f) -> lookup (w_fs w') p = Some (NFile f).
Proof.
  intros cf nm vers svers root w w' e P Hf Hsv Hat Hwf Hnames HA HK HE H p f Hp.
  destruct (rollback_leaves_nothing_new cf nm vers svers root w w' e P Hf Hsv Hat Hwf Hnames HA HK HE H) as (B1 & _).
  apply B1. exact Hp.
Qed.

(* ---- (4) the exception ---- *)

Lemma effect_p_raises_os : forall what p f w w' e, effect_p what p f w = (w', inr e) -> is_os e = true.
Proof.
  intros what p f w w' e H. unfold effect_p in H. cbv zeta in H.
  destruct (existsb (Nat.eqb (w_effects w)) (w_faults w)); [inversion H; reflexivity|].
  destruct (f (w_fs (set_effects (S (w_effects w)) w))) as [fs' [e0|]]; inversion H; reflexivity.
Qed.

Lemma restore_one_no_raise : forall x, no_raise (restore_one x).
Proof.
  intros [p f] w w' e H. unfold restore_one in H. unfold bind at 1, get in H.
  destruct (isdir (w_fs w) p); [inversion H|].
  apply catch_inv in H. destruct H as [(a & _ & Y) | (w1 & e1 & E1 & H)]; [discriminate Y|].
  assert (Hos : is_os e1 = true).
  { apply bind_inv in E1. destruct E1 as [(w2 & u & _ & E2) | (e2 & E2 & Y)].
    - eapply effect_raises_os; eauto.
    - inversion Y; subst. eapply effect_p_raises_os; eauto. }
  rewrite Hos in H. inversion H.
Qed.

(* _roll_back never raises, with or without injected faults *)
Theorem roll_back_no_raise : forall ccd, no_raise (roll_back ccd).
Proof.
  intros ccd w w' e H. unfold roll_back in H. unfold bind at 1, get in H. cbv zeta in H.
  revert H. apply no_raise_bind; [apply mapM_no_raise; intro; apply try_to_remove_file_no_raise|]. intros _.
  apply no_raise_bind; [apply remove_empty_dirs_no_raise|]. intros _.
  apply no_raise_bind; [|intros _; apply create_dirs_no_raise].
  unfold restore_all. apply no_raise_bind; [apply no_raise_get|]. intro v.
  apply no_raise_bind; [intros a b c Y; inversion Y|]. intros _.
  apply mapM_no_raise. apply restore_one_no_raise.
Qed.

(* if the root function raises, that exception is the outcome of the build *)
Theorem root_exception_propagates : forall cf nm svers root w old0 w1 ccd w2 e2 subs,
  make_dirs (dirname cf) (start_world w cf old0 nm svers) = (w1, inl ccd) ->
  root (set_log (LInvoke "<root>" None PNone PNone :: w_log w1) w1) = (w2, (inr e2, subs)) ->
  m_accept cf nm svers root w old0 = (fst (roll_back ccd w2), Done (inr e2)).
Proof.
  intros cf nm svers root w old0 w1 ccd w2 e2 subs E1 E2. unfold m_accept. cbv zeta. rewrite E1, E2.
  destruct (roll_back ccd w2) as [w3 [u|e']] eqn:E3; [reflexivity|].
  exfalso. exact (roll_back_no_raise _ _ _ _ E3).
Qed.

Theorem failed_build_same_exception : forall cf nm vers svers root w w' e w1 ccd w2 e2 subs,
  sanitize vers = Some svers ->
  run_build cf nm vers root w = (w', Done (inr e)) ->
  make_dirs (dirname cf) (start_world w cf (old_cache_of (w_fs w) cf nm svers) nm svers) = (w1, inl ccd) ->
  run root None [] (set_log (LInvoke "<root>" None PNone PNone :: w_log w1) w1) = (w2, (inr e2, subs)) ->
  e = e2.
Proof.
  intros cf nm vers svers root w w' e w1 ccd w2 e2 subs Hsv H E1 E2.
  unfold run_build in H.
  destruct (m_build cf nm vers (fun w0 => run root None [] w0) w) as [wm r1] eqn:E.
  inversion H; subst w' r1; clear H.
  rewrite m_build_unfold, Hsv in E. unfold old_cache_of in E1.
  destruct (lookup (w_fs w) cf) as [[g|]|].
  - destruct (cache_of_json (f_json g)) as [old0| |]; try discriminate E.
    destruct (String.eqb (c_name old0) nm); [|discriminate E].
    rewrite (root_exception_propagates cf nm svers (fun w0 => run root None [] w0) w old0 w1 ccd w2 e2 subs E1 E2) in E.
    inversion E. reflexivity.
  - discriminate E.
  - rewrite (root_exception_propagates cf nm svers (fun w0 => run root None [] w0) w _ w1 ccd w2 e2 subs E1 E2) in E.
    inversion E. reflexivity.
Qed.
