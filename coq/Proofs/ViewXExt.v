(* Proofs/ViewXExt.v — C04, reachability: XInv only depends on the tree through [lookup]
   (two stores with the same entries are interchangeable), and removing a set of hidden
   regular files keeps XInv. *)
From Coq Require Import List String Ascii NArith ZArith Bool Arith Lia.
From FB.Base Require Import PyVal Fs.
From FB.Model Require Import Types Monad CreatedFiles BuildDirs SimpleOps Builder.
From FB.Proofs Require Import FsLemmas CleanLaws JsonLaws CoreLawsChildren
     ViewDefs ViewLemmas ViewScan ViewQueries ViewFrame ViewXDefs ViewXSteps ViewXRoom1.
Import ListNotations.
Open Scope list_scope.

Section Ext.
  Variables (fs fs' : fsT).
  Hypothesis Hext : forall y, lookup fs' y = lookup fs y.

  Lemma ext_children : forall x, children fs' x = children fs x.
  Proof. intro x. apply children_ext. intro n. unfold lexists. rewrite Hext. reflexivity. Qed.

  Lemma ext_dead_gen : forall tr hd x, dead_gen fs' tr hd x = dead_gen fs tr hd x.
  Proof.
    intros tr hd. apply (depth_ind fs). intros x IH.
    rewrite (dead_gen_unfold fs' tr hd x), (dead_gen_unfold fs tr hd x), Hext, ext_children.
    destruct (tr x); [cbn [andb]|reflexivity]. destruct (lookup fs x) as [[g|]|]; try reflexivity.
    apply forallb_ext_in. intros n Hn. unfold invis_gen. rewrite Hext.
    destruct (lookup fs (n :: x)) as [[g|]|]; try reflexivity. apply IH. exact Hn.
  Qed.
End Ext.

Theorem XInv_fs_ext : forall T w fs', (forall y, lookup fs' y = lookup (w_fs w) y) -> XInv T w -> XInv T (set_fs fs' w).
Proof.
  intros T w fs' Hext HX. pose proof (x_binv _ _ HX) as HB.
  assert (Hd: forall x, dead (set_fs fs' w) x = dead w x).
  { intro x. unfold dead. cbn [w_fs w_bd set_fs]. change (hid (set_fs fs' w)) with (hid w). apply ext_dead_gen. exact Hext. }
  assert (Hi: forall a, invis (set_fs fs' w) a = invis w a).
  { intro a. rewrite !invis_unfold. cbn [w_fs set_fs]. rewrite Hext, Hd. reflexivity. }
  assert (E1: forall y, isdir fs' y = isdir (w_fs w) y) by (intro y; unfold isdir; rewrite Hext; reflexivity).
  assert (E2: forall y, isfile fs' y = isfile (w_fs w) y) by (intro y; unfold isfile; rewrite Hext; reflexivity).
  assert (E3: forall y, lexists fs' y = lexists (w_fs w) y) by (intro y; unfold lexists; rewrite Hext; reflexivity).
  constructor; cbn [w_fs w_bd set_fs].
  - constructor; cbn [w_fs w_bd set_fs].
    + intros p n H. rewrite Hext in *. apply (bi_wf _ HB p n H).
    + apply (bi_root _ HB).
    + apply (bi_counts_up _ HB).
    + intros d H1 H2. rewrite Hd. rewrite E1 in H2. apply (bi_removed _ HB d H1 H2).
    + intros a H1 H2 H3. rewrite E2 in H2. apply (bi_rf_hid _ HB a H1 H2 H3).
    + intros a H1 H2 H3. rewrite E2 in H1. apply (bi_hid_rf _ HB a H1 H2 H3).
    + apply (bi_rf_trk _ HB).
    + intros q x H1 H2. rewrite Hd. apply (bi_exists _ HB q x H1 H2).
  - apply (x_sinv _ _ HX).
  - apply (x_keys _ _ HX).
  - apply (x_pos _ _ HX).
  - apply (x_count _ _ HX).
  - intros x H. rewrite E1, E3. apply (x_cdir _ _ HX x H).
  - intros x H1 H2. rewrite E1. apply (x_ncdir _ _ HX x H1 H2).
  - intros t Ht. rewrite E1, Hd. apply (x_tgt _ _ HX t Ht).
  - intros x n H1 H2. rewrite E3 in H2. rewrite Hi. apply (x_kids _ _ HX x n H1 H2).
  - apply (x_cc _ _ HX).
  - intros a H1 H2 H3. rewrite E2 in H1. apply (x_hid_rf _ _ HX a H1 H2 H3).
  - intros a H1 H2. rewrite E2 in H2. apply (x_rf_hid _ _ HX a H1 H2).
Qed.

(* ------------------------------------------------------------------ removing hidden files *)
Lemma file_no_children : forall fs a, fs_wf fs -> isfile fs a = true -> children fs a = [].
Proof.
  intros fs a W Hf. apply children_nil_iff. intro k. destruct (lookup fs (k :: a)) as [z|] eqn:Ek; [|reflexivity].
  pose proof (W _ _ Ek) as Hp. cbn [dirname tl] in Hp. apply isfile_lookup in Hf. destruct Hf as [g Hg]. congruence.
Qed.

(* one hidden regular file *)
Lemma remove_hidden_file_XInv : forall T w a fs',
  XInv T w -> isfile (w_fs w) a = true -> hid w a = true ->
  lookup fs' a = None -> (forall q, q <> a -> lookup fs' q = lookup (w_fs w) q) ->
  XInv T (set_fs fs' w).
Proof.
  intros T w a fs' HX Hf Hh Hg Ho. pose proof (x_binv _ _ HX) as HB.
  destruct (in_dec (list_eq_dec string_dec) a T) as [Hin|Hnin].
  - apply (remove_target_XInv T w a fs' HX Hin Hf Hg Ho).
  - destruct a as [|m x]; [discriminate|].
    assert (Hnc: in_counts (w_bd w) (m :: x) = false).
    { destruct (in_counts (w_bd w) (m :: x)) eqn:E; [|reflexivity]. exfalso.
      destruct (x_cdir _ _ HX _ E) as [A|[A|A]]; [|contradiction|].
      - unfold isdir, isfile in *. destruct (lookup (w_fs w) (m :: x)) as [[g|]|]; discriminate.
      - unfold lexists, isfile in *. destruct (lookup (w_fs w) (m :: x)) as [[g|]|]; discriminate. }
    apply (remove_leaf_XInv T w m x fs' HX); auto.
    + rewrite invis_unfold. apply isfile_lookup in Hf. destruct Hf as [g Hg']. rewrite Hg'. exact Hh.
    + apply file_no_children; [apply (bi_wf _ HB)|exact Hf].
Qed.

(* a set of them: the tree [fs'] has the entries of the tree of w except those in B *)
Theorem remove_hidden_files_XInv : forall B T w fs',
  XInv T w -> (forall y, In y B -> hid w y = true /\ isdir (w_fs w) y = false) ->
  (forall y, lookup fs' y = if mem_path y B then None else lookup (w_fs w) y) ->
  XInv T (set_fs fs' w).
Proof.
  induction B as [|a B IH]; intros T w fs' HX HB Hl.
  - apply XInv_fs_ext; [|exact HX]. intro y. rewrite Hl. reflexivity.
  - destruct (HB a (or_introl eq_refl)) as [Hh Hnd].
    destruct (isfile (w_fs w) a) eqn:Hf.
    + set (fs1 := upd a None (w_fs w)).
      assert (Hane: a <> []) by (intro; subst; discriminate).
      assert (HX1: XInv T (set_fs fs1 w)).
      { apply (remove_hidden_file_XInv T w a fs1 HX Hf Hh); [apply lookup_upd_eq; exact Hane|].
        intros q Hq. apply lookup_upd_neq. exact Hq. }
      assert (E: set_fs fs' w = set_fs fs' (set_fs fs1 w)) by reflexivity. rewrite E.
      apply (IH T (set_fs fs1 w) fs' HX1).
      * intros y Hy. cbn [w_fs set_fs]. change (hid (set_fs fs1 w) y) with (hid w y).
        destruct (HB y (or_intror Hy)) as [A B'']. split; [exact A|].
        unfold isdir, fs1. destruct (list_eq_dec string_dec y a) as [->|Hne].
        -- rewrite lookup_upd_eq by exact Hane. reflexivity.
        -- rewrite lookup_upd_neq by exact Hne. exact B''.
      * intro y. cbn [w_fs set_fs]. rewrite Hl. cbn [mem_path].
        destruct (path_eqb a y) eqn:Ea.
        -- apply path_eqb_eq in Ea. subst y. cbn [orb]. unfold fs1. rewrite lookup_upd_eq by exact Hane.
           destruct (mem_path a B); reflexivity.
        -- cbn [orb]. apply path_eqb_neq in Ea. unfold fs1. rewrite lookup_upd_neq by (intro; subst; congruence). reflexivity.
    + (* a is absent: nothing to remove *)
      apply (IH T w fs' HX).
      * intros y Hy. apply HB. right. exact Hy.
      * intro y. rewrite Hl. cbn [mem_path]. destruct (path_eqb a y) eqn:Ea; [|reflexivity].
        apply path_eqb_eq in Ea. subst y. cbn [orb].
        unfold isfile in Hf. unfold isdir in Hnd. destruct (lookup (w_fs w) a) as [[g|]|]; try discriminate.
        destruct (mem_path a B); reflexivity.
Qed.

Print Assumptions XInv_fs_ext.
Print Assumptions remove_hidden_files_XInv.
