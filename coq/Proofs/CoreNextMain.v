(* Proofs/CoreNextMain.v — the records a Core run produces are traces of the functions that ran (for the
   oracle extended by the final tree), the records it adopts stay deeply faithful. *)
From Coq Require Import List String Ascii NArith ZArith Bool Arith Lia.
From FB.Base Require Import PyVal Fs.
From FB.Gen Require Import JsonUtilGen.
From FB.Spec Require Import JsonSpec Prog Ref Oracle Faithful.
From FB.Model Require Import Types SimpleOps Builder Persist Core CoreOracle CoreCache.
From FB.Proofs Require Import FsLemmas JsonLaws CleanLaws CoreLawsChildren CoreLawsJson CoreLaws1 CoreLaws2 CoreLaws3 CoreLaws4 CoreLaws5
     CoreLaws7 CoreNextDefs CoreNextJson CoreNextMono CoreNextFollows CoreNextRegs CoreNextState CoreNextAux.
Import ListNotations.
Local Open Scope list_scope.

Section Main.
  Variable kp : kappa.
  Variable F : ftable.
  Variable old : cache.
  Variable vers : pyval.
  Variable clock0 : N.
  Hypothesis HR : Respects F.
  Hypothesis HRS : RespectsS F.
  Hypothesis HW : cache_wf old.
  Hypothesis HD : deep_cache kp F old vers.
  Hypothesis HN : kp_new kp clock0.
  Variable T : fsT.

  Let HF : faithful_cache kp F old vers := deep_faithful kp F old vers HW HD.
  Notation KI := (KInv kp old vers clock0).
  Notation kq := (kpx kp T).

  Definition kpd (q : path) (g : fnode) : Prop := forall c, kp q c (cmp_of c g) = Some (f_bytes g).

  (* every visible file is known to the old oracle or sits at a claimed path; stale files are known *)
  Definition NI (s : kstate) : Prop :=
    (forall q g, lookup (k_fs s) q = Some (NFile g) -> kpd q g \/ mem_path q (k_claimedF s) = true) /\
    (forall q g, stale_get (k_stale s) q = Some g -> kpd q g).

  (* the files at claimed paths are those of T *)
  Definition PersT (s : kstate) : Prop :=
    forall q g, mem_path q (k_claimedF s) = true -> lookup (k_fs s) q = Some (NFile g) -> lookup T q = Some (NFile g).

  Lemma NI_ext : forall s s' cF cS D, NI s -> Ext s s' cF cS D -> NI s'.
  Proof.
    intros s s' cF cS D [N1 N2] [[eF [A1 A1']] _ _ _ _ _ A7 A8 _ _ _]. split.
    - intros q g Hq. destruct (A7 q g Hq) as [H|[H|H]].
      + destruct (N1 q g H) as [X|X]; [left; exact X|right]. rewrite A1, mem_path_app, X. apply orb_true_r.
      + left. apply N2. exact H.
      + right. rewrite A1, mem_path_app. apply A1' in H. apply mem_path_In in H. rewrite H. reflexivity.
    - intros q g Hq. apply N2. apply A8. exact Hq.
  Qed.

  Lemma PersT_back : forall s s' cF cS D, Ext s s' cF cS D -> PersT s' -> PersT s.
  Proof.
    intros s s' cF cS D [[eF [A1 _]] _ _ _ A5 _ _ _ _ _ _] P q g Hq Hl. apply P; [|apply A5; assumption].
    rewrite A1, mem_path_app, Hq. apply orb_true_r.
  Qed.

  Lemma known : forall s, KI s -> NI s -> PersT s -> forall q g,
    lookup (k_fs s) q = Some (NFile g) \/ stale_get (k_stale s) q = Some g -> forall c, kq q c (cmp_of c g) = Some (f_bytes g).
  Proof.
    intros s [_ [_ [K3 _]]] [N1 N2] P q g Hq c. unfold kpx.
    assert (Hd : kpd q g \/ lookup T q = Some (NFile g)).
    { destruct Hq as [Hq|Hq]; [|left; apply N2; exact Hq]. destruct (N1 q g Hq) as [X|X]; [left; exact X|right; apply P; assumption]. }
    destruct Hd as [Hd|Hd]; [rewrite (Hd c); reflexivity|].
    destruct (kp q c (cmp_of c g)) as [x|] eqn:E.
    - f_equal. apply (K3 q g Hq c (cmp_of c g) x E). left. apply cmp_refl.
    - unfold kp_of. rewrite Hd, pyval_same_refl. reflexivity.
  Qed.

  (* the claims [follows] starts with are claimed in the state (keys: those of well-formed arguments) *)
  Definition ClOK (cl : claims) (s : kstate) : Prop :=
    (forall q, mem_path q (fst cl) = true -> mem_path q (k_claimedF s) = true) /\
    (forall f a k, sanitized a = true -> sanitized k = true -> pv_wf a = true -> pv_wf k = true ->
       existsb (py_eq (subbuild_key f a k)) (snd cl) = true -> existsb (py_eq (subbuild_key f a k)) (k_claimedS s) = true).

  Lemma ClOK_ext : forall cl s s' cF cS D, ClOK cl s -> Ext s s' cF cS D -> ClOK (fst cl ++ cF, snd cl ++ cS) s'.
  Proof.
    intros cl s s' cF cS D [C1 C2] [[eF [A1 A1']] [eS [A2 A2']] _ _ _ _ _ _ _ _ _]. split; cbn [fst snd].
    - intros q Hq. rewrite mem_path_app in Hq. rewrite A1, mem_path_app. apply orb_true_iff in Hq. destruct Hq as [Hq|Hq].
      + rewrite (C1 q Hq). apply orb_true_r.
      + apply mem_path_In in Hq. apply A1' in Hq. apply mem_path_In in Hq. rewrite Hq. reflexivity.
    - intros f a k S1 S2 W1 W2 Hq. rewrite existsb_app in Hq. rewrite A2, existsb_app. apply orb_true_iff in Hq. destruct Hq as [Hq|Hq].
      + rewrite (C2 f a k S1 S2 W1 W2 Hq). apply orb_true_r.
      + apply existsb_exists in Hq. destruct Hq as [x [Hx Hp]]. apply A2' in Hx.
        assert (existsb (py_eq (subbuild_key f a k)) eS = true) by (apply existsb_exists; eauto). rewrite H. reflexivity.
  Qed.

  (* ---------------------------------------------------------------- *)
  (* a hit, unpacked: the old record, its trace, and the outputs of the adopted tree *)
  (* ---------------------------------------------------------------- *)
  Lemma hitF_more : forall s r tgt p c fname sa skw fs1 fs1r dirs f subs' ret' rp' (fn : path -> pyval -> pyval -> prog),
    sim s r -> KI s -> RInv' tgt r ->
    claim_check (r_claimedF r) (r_cachefile r) p = None ->
    setup_fs (k_fs s) (k_cachefile s) p = inl (fs1, dirs) ->
    setup_fs (r_fs r) (r_cachefile r) p = inl (fs1r, dirs) -> tree_equiv fs1 fs1r ->
    core_hit s (core_s0 s p fs1 dirs) p fname sa skw = Some (f, subs', ret', rp') ->
    fn p sa skw = ft_file F fname p sa skw ->
    exists r2 res pend2 r3 c' a' k' cmpres',
      ref_run (fn p sa skw) (Some p) None (ref_start r p fname sa skw fs1r dirs) = (r2, (res, pend2)) /\
      ref_finish r2 p res pend2 = (r3, inl ret') /\
      sim (core_put (adopt (core_s0 s p fs1 dirs) rp' (OBuildFile p c fname sa skw subs' ret' (cmp_of c f) false false)) p f) r3 /\
      KI (core_put (adopt (core_s0 s p fs1 dirs) rp' (OBuildFile p c fname sa skw subs' ret' (cmp_of c f) false false)) p f) /\
      RInv' tgt r3 /\ rext r r3 /\
      dfaith kp F (OBuildFile p c' fname a' k' subs' ret' cmpres' false false) /\
      follows kp (Some p) (fn p sa skw) subs' None ([p], []) = Some (res, pend2, [], ([p] ++ fst (cll subs'), [] ++ snd (cll subs'))) /\
      bf_end kp p c' subs' ret' cmpres' false res pend2 ([p] ++ fst (cll subs'), [] ++ snd (cll subs')) = Some (inl ret') /\
      phys (k_fs (core_s0 s p fs1 dirs)) (k_stale (core_s0 s p fs1 dirs)) p = Some f /\
      is_equal cmpres' (cmp_of c' f) = true /\
      kreplay_list (core_s0 s p fs1 dirs) subs' (start_replay (core_s0 s p fs1 dirs)) = Some rp' /\
      (forall q, In q (p :: flat_map tree_outputs subs') -> In q (r_need r3)).
  Proof.
    intros s r tgt p c fname sa skw fs1 fs1r dirs f subs' ret' rp' fn S K I Hcc Hsk Hsr T1 Hhit Hfn.
    destruct (hit_file kp F old vers clock0 HR HW HF s r tgt p c fname sa skw fs1 fs1r dirs f subs' ret' rp' fn S K I Hcc Hsk Hsr T1 Hhit Hfn)
      as (r2 & res & pend2 & r3 & Er2 & Ef & S3 & K3 & I3 & X3).
    exists r2, res, pend2, r3.
    assert (Wk : fs_wf (k_fs s)) by (eapply te_wf; [apply te_sym; exact (proj1 S)|exact (RInv_wf _ _ I)]).
    pose proof (KInv_s0 kp old vers clock0 s p fs1 dirs K Wk Hsk) as K0.
    set (s0 := core_s0 s p fs1 dirs) in *.
    destruct K as [Hold [Hvers [K1 [K2 Kc]]]].
    unfold core_hit in Hhit. rewrite Hold in Hhit.
    destruct (cache_get_file old p) as [orec|] eqn:Eg; [|discriminate].
    destruct orec as [|p' c' fname' a' k' subs0 ret0 cmpres' raised' sf'|]; try discriminate.
    destruct raised'; [discriminate|].
    destruct (negb (String.eqb fname' fname)) eqn:Efn; [discriminate|]. apply negb_false_iff, String.eqb_eq in Efn. subst fname'.
    destruct (negb (kversion_equal s fname)) eqn:Ev; [discriminate|]. apply negb_false_iff in Ev.
    destruct (negb (is_equal a' sa) || negb (is_equal k' skw)) eqn:Ea; [discriminate|].
    apply orb_false_iff in Ea. destruct Ea as [Ea Ek]. apply negb_false_iff in Ea, Ek.
    destruct (phys (k_fs s0) (k_stale s0) p) as [f0|] eqn:Eph; [|discriminate].
    destruct (negb (is_equal cmpres' (cmp_of c' f0))) eqn:Ecmp; [discriminate|]. apply negb_false_iff in Ecmp.
    destruct (kreplay_list s0 subs0 (start_replay s0)) as [rpx|] eqn:Ekr; [|discriminate].
    inversion Hhit; subst f0 subs0 ret0 rpx. clear Hhit.
    pose proof (cache_get_file_files _ _ _ Eg) as Hfiles.
    pose proof HW as [HWf _]. destruct (HWf p _ Hfiles) as (c2 & f2 & a2 & k2 & subs2 & ret2 & cmp2 & ra2 & sf2 & Heq & Hsf).
    inversion Heq; subst p' c2 f2 a2 k2 subs2 ret2 cmp2 ra2 sf2. clear Heq.
    destruct sf'; [specialize (Hsf eq_refl); discriminate|]. clear Hsf.
    assert (Hrep : replayable old vers (OBuildFile p c' fname a' k' subs' ret' cmpres' false false) = true).
    { cbn [replayable negb andb]. rewrite kversion_vers, Hold, Hvers in Ev. rewrite Ev. cbn [andb].
      pose proof (kreplay_list_replayable _ _ _ _ Ekr) as Hx. cbn in Hx. rewrite Hold, Hvers in Hx. exact Hx. }
    exists c', a', k', cmpres'.
    pose proof HD as [HDf _]. pose proof (HDf p _ Hfiles eq_refl Hrep) as Hdf.
    pose proof HF as [HFf _]. pose proof (HFf p _ Hfiles eq_refl Hrep) as Hfa. cbn [faithful_op] in Hfa.
    destruct (follows kp (Some p) (ft_file F fname p a' k') subs' None ([p], [])) as [[[[out_n bytes_n] rest_n] cl2]|] eqn:Efo;
      [|discriminate].
    destruct rest_n; [|discriminate].
    destruct (bf_end kp p c' subs' ret' cmpres' false out_n bytes_n cl2) as [oo|] eqn:Ebe; [|discriminate].
    pose proof (bf_end_nonraised _ _ _ _ _ _ _ _ _ _ Ebe). subst oo. clear Hfa.
    rewrite (HR fname p a' sa k' skw Ea Ek) in Efo. rewrite <- Hfn in Efo.
    destruct (RInv_start tgt r p fname sa skw fs1r dirs I Hcc Hsr) as [I1 X1].
    destruct (claim_check_none _ _ _ Hcc) as [Hpc _].
    assert (Hnf : isfile (k_fs s) p = false).
    { destruct (isfile (k_fs s) p) eqn:Ei; [|reflexivity].
      pose proof (K2 p _ Eg eq_refl Ei) as Hx. rewrite (proj1 (proj2 S) p) in Hx. congruence. }
    assert (Htr : try_remove fs1r p = fs1r).
    { unfold try_remove. rewrite <- (te_isfile _ _ p T1).
      destruct (setup_fs_ok _ _ _ _ _ Wk Hsk) as [_ [_ [_ [_ [_ [_ [_ [_ Hisf]]]]]]]]. rewrite Hisf, Hnf. reflexivity. }
    assert (Hph : forall q g, phys (k_fs s0) (k_stale s0) q = Some g -> agrees kp q g).
    { intros q g Hq. destruct K0 as [_ [_ [K1' _]]]. apply K1'. apply phys_cases. exact Hq. }
    assert (M0 : RM kp s0 (start_replay s0) (ref_start r p fname sa skw fs1r dirs) ([p], [])).
    { destruct S as [Tt [CF [CS [N [Md E]]]]]. constructor; cbn.
      - rewrite Htr. exact T1.
      - rewrite N. reflexivity.
      - rewrite Md. reflexivity.
      - symmetry. exact E.
      - intro q. rewrite (CF q), orb_false_r. apply orb_comm.
      - intro k. rewrite (CS k), orb_false_r. reflexivity.
      - intros q Hq. left. exact Hq.
      - intros q g Hq. destruct K0 as [_ [_ [K1' _]]]. apply K1'. left. exact Hq.
      - intros q Hq. left. exact Hq.
      - reflexivity.
      - reflexivity. }
    destruct (replay_sound kp s0 Hph (fn p sa skw) (Some p) subs' None ([p], []) out_n bytes_n cl2 (start_replay s0) rp' _
                Efo Ekr M0 I1) as [r2' [Er2' [M2 O2]]].
    rewrite Er2 in Er2'. inversion Er2'; subst r2' out_n bytes_n. clear Er2'.
    pose proof (follows_claims _ _ _ _ _ _ _ _ _ Efo) as Hcl2. cbn [fst snd] in Hcl2. subst cl2.
    destruct (ref_run_inv _ _ _ _ _ _ _ I1 Er2) as [I2 X2].
    split; [exact Er2|]. split; [exact Ef|]. split; [exact S3|]. split; [exact K3|]. split; [exact I3|]. split; [exact X3|].
    split; [exact Hdf|]. split; [exact Efo|]. split; [exact Ebe|]. split; [reflexivity|]. split; [exact Ecmp|]. split; [exact Ekr|].
    (* the outputs are needed: the final write succeeded, the need list is that of r2 *)
    assert (Hneed : r_need r3 = r_need r2).
    { unfold ref_finish in Ef. destruct res as [v|e]; [|inversion Ef]. destruct (sanitize v); [|inversion Ef].
      destruct pend2; [|inversion Ef]. destruct (write_file (r_fs r2) p s1 None (r_clock r2) (r_nextid r2)); inversion Ef. reflexivity. }
    rewrite Hneed. intros q [<-|Hq].
    - destruct I2 as [[_ [_ Tg]] _]. apply Tg. reflexivity.
    - exact (proj1 (O2 q Hq)).
  Qed.

  Lemma hitS_more : forall s r tgt fname sa skw subs' ret' rp' (fn : pyval -> pyval -> prog),
    sim s r -> KI s -> RInv' tgt r -> sanitized sa = true -> sanitized skw = true ->
    core_subhit s fname (subbuild_key fname sa skw) = Some (subs', ret', rp') ->
    fn sa skw = ft_sub F fname sa skw ->
    exists r2 res pd a' k',
      ref_run (fn sa skw) None None (ref_substart r fname sa skw) = (r2, (res, pd)) /\
      sub_out res = inl ret' /\
      sim (adopt s rp' (OSubbuild fname sa skw subs' ret' false false)) r2 /\
      KI (adopt s rp' (OSubbuild fname sa skw subs' ret' false false)) /\
      RInv' tgt r2 /\ rext r r2 /\
      dfaith kp F (OSubbuild fname a' k' subs' ret' false false) /\
      is_equal a' sa = true /\ is_equal k' skw = true /\
      follows kp None (fn sa skw) subs' None ([], [subbuild_key fname sa skw]) =
        Some (res, pd, [], ([] ++ fst (cll subs'), [subbuild_key fname sa skw] ++ snd (cll subs'))) /\
      sb_end ret' false res = Some (inl ret') /\
      kreplay_list s subs' (start_replay s) = Some rp' /\
      (forall q, In q (flat_map tree_outputs subs') -> In q (r_need r2)).
  Proof.
    intros s r tgt fname sa skw subs' ret' rp' fn S K I Ssa Sskw Hhit Hfn.
    destruct (hit_sub kp F old vers clock0 HW HF s r tgt fname sa skw subs' ret' rp' fn S K I Ssa Sskw Hhit Hfn)
      as (r2 & res & pd & Er2 & Hout & S3 & K3 & I3 & X3).
    exists r2, res, pd.
    pose proof K as K'. destruct K as [Hold [Hvers [K1 [K2 Kc]]]].
    unfold core_subhit in Hhit. rewrite Hold in Hhit.
    destruct (subs_get (c_subs old) (subbuild_key fname sa skw)) as [[orec|]|] eqn:Eg; try discriminate.
    destruct orec as [| |f' a' k' subs0 ret0 raised' sf']; try discriminate.
    destruct raised'; [discriminate|].
    destruct (negb (kversion_equal s fname)) eqn:Ev; [discriminate|]. apply negb_false_iff in Ev.
    destruct (kreplay_list s subs0 (start_replay s)) as [rpx|] eqn:Ekr; [|discriminate].
    inversion Hhit; subst subs0 ret0 rpx. clear Hhit.
    pose proof HW as [_ HWs]. destruct (HWs _ _ Eg) as (f2 & a2 & k2 & subs2 & ret2 & ra2 & sf2 & Heq & Hsf & Sa' & Sk' & Hkey).
    inversion Heq; subst f2 a2 k2 subs2 ret2 ra2 sf2. clear Heq.
    destruct sf'; [specialize (Hsf eq_refl); discriminate|]. clear Hsf.
    unfold subbuild_key in Hkey. rewrite (subbuild_key_iff f' a' k' fname sa skw Sa' Sk' Ssa Sskw) in Hkey.
    apply andb_true_iff in Hkey. destruct Hkey as [Hkey Ek]. apply andb_true_iff in Hkey. destruct Hkey as [Efn Ea].
    apply String.eqb_eq in Efn. subst f'.
    assert (Hrep : replayable old vers (OSubbuild fname a' k' subs' ret' false false) = true).
    { cbn [replayable negb andb]. rewrite kversion_vers, Hold, Hvers in Ev. rewrite Ev. cbn [andb].
      pose proof (kreplay_list_replayable _ _ _ _ Ekr) as Hx. rewrite Hold, Hvers in Hx. exact Hx. }
    exists a', k'.
    pose proof HD as [_ HDs]. pose proof (HDs _ _ Eg eq_refl Hrep) as Hdf.
    pose proof HF as [_ HFs].
    pose proof (HFs _ _ _ _ _ _ _ _ Eg eq_refl Hrep sa skw Ssa Sskw Ea Ek) as Hfa. cbn [faithful_sub_at] in Hfa.
    destruct (follows kp None (ft_sub F fname sa skw) subs' None ([], [subbuild_key fname sa skw])) as [[[[out_n bytes_n] rest_n] cl2]|] eqn:Efo;
      [|discriminate].
    destruct rest_n; [|discriminate].
    destruct (sb_end ret' false out_n) as [oo|] eqn:Ebe; [|discriminate]. clear Hfa.
    pose proof (sb_end_nonraised _ _ _ Ebe). subst oo.
    rewrite <- Hfn in Efo.
    destruct (RInv_substart tgt r fname sa skw I) as [I1 X1].
    assert (Hph : forall q g, phys (k_fs s) (k_stale s) q = Some g -> agrees kp q g).
    { intros q g Hq. apply K1. apply phys_cases. exact Hq. }
    assert (M0 : RM kp s (start_replay s) (ref_substart r fname sa skw) ([], [subbuild_key fname sa skw])).
    { destruct S as [Tt [CF [CS [N [Md E]]]]]. constructor.
      - exact Tt.
      - exact N.
      - exact Md.
      - symmetry. exact E.
      - cbn. intro q. rewrite (CF q), orb_false_r. reflexivity.
      - intro k. cbn [fst snd]. change (r_claimedS (ref_substart r fname sa skw)) with (subbuild_key fname sa skw :: r_claimedS r).
        cbn [existsb start_replay rp_claimedS]. rewrite (CS k), orb_false_r. apply orb_comm.
      - intros q Hq. left. exact Hq.
      - cbn. intros q g Hq. apply K1. left. exact Hq.
      - intros q Hq. left. exact Hq.
      - reflexivity.
      - reflexivity. }
    destruct (replay_sound kp s Hph (fn sa skw) None subs' None _ out_n bytes_n cl2 (start_replay s) rp' _ Efo Ekr M0 I1)
      as [r2' [Er2' [M2 O2]]].
    rewrite Er2 in Er2'. inversion Er2'; subst r2' out_n bytes_n. clear Er2'.
    pose proof (follows_claims _ _ _ _ _ _ _ _ _ Efo) as Hcl2. cbn [fst snd] in Hcl2. subst cl2.
    split; [exact Er2|]. split; [exact Hout|]. split; [exact S3|]. split; [exact K3|]. split; [exact I3|]. split; [exact X3|].
    split; [exact Hdf|]. split; [exact Ea|]. split; [exact Ek|]. split; [exact Efo|]. split; [exact Ebe|]. split; [exact Ekr|].
    intros q Hq. exact (proj1 (O2 q Hq)).
  Qed.

  (* ---------------------------------------------------------------- *)
  (* the statement                                                    *)
  (* ---------------------------------------------------------------- *)
  Definition Good (s s' : kstate) (tgt : option path) (pr : prog) (pend pend' : option string) (out : outcome)
             (produced : list op) : Prop :=
    (forall cl, ClOK cl s -> tame_list produced (fst cl) = true ->
       follows kq tgt pr produced pend cl =
       Some (out, pend', [], (fst cl ++ fst (cll produced), snd cl ++ snd (cll produced)))) /\
    (forall o, In o (deepl produced) -> tame [] o = true -> dfaith kq F o) /\
    (forall q, In q (flat_map tree_outputs produced) -> In q (k_need s') /\ mem_path q (k_claimedF s) = false) /\
    (forall o, In o (deepl produced) -> wfrec o).

  Definition TN_at (pr : prog) : Prop :=
    forall tgt pend subs s r s' out pend' subs' r' out_r pend_r produced,
      sim s r -> KI s -> RInv' tgt r -> sublog (k_log s) (r_log r) ->
      core_run pr tgt pend subs s = (s', (out, pend', subs')) ->
      ref_run pr tgt pend r = (r', (out_r, pend_r)) ->
      NI s -> PersT s' -> subs' = subs ++ produced ->
      Good s s' tgt pr pend pend' out produced.

  Lemma split_produced : forall (subs produced : list op) o pk, subs ++ produced = (subs ++ [o]) ++ pk -> produced = o :: pk.
  Proof. intros subs produced o pk H. rewrite <- app_assoc in H. apply app_inv_head in H. exact H. Qed.

  Lemma ask_step : forall s q, KI s -> NI s -> PersT s ->
    match spec_answer (k_fs s) q with
    | inl v => exists rv, record_answer (k_fs s) q = inl rv /\ user_value kq q rv = Some v
    | inr c => exists c0, record_answer (k_fs s) q = inr c0 /\ c = user_class q c0
    end.
  Proof.
    intros s q K N P. destruct (record_answer (k_fs s) q) as [rv|c0] eqn:E.
    - assert (Hnr : (forall p c, q <> QRead p c) -> match spec_answer (k_fs s) q with
                | inl v => exists rv0, inl rv = @inl pyval errclass rv0 /\ user_value kq q rv0 = Some v
                | inr c => exists c0, inl rv = @inr pyval errclass c0 /\ c = user_class q c0 end).
      { intro Hq. destruct (answer_val_nonread _ _ _ Hq E) as [H1 H2]. rewrite H1. exists rv. split; [reflexivity|].
        eapply uv_nonread; eauto. }
      destruct q as [p|p|p|p|p td|p|p cm]; try (apply Hnr; intros; discriminate). clear Hnr.
      destruct (answer_val_read _ _ _ _ E) as [f [Hf [Hv Hs]]]. rewrite Hs. exists rv. split; [reflexivity|].
      cbn [user_value]. subst rv. rewrite (known s K N P p f (or_introl Hf) cm). reflexivity.
    - rewrite (answer_err _ _ _ E). exists c0. auto.
  Qed.

  Lemma Good_nil : forall s tgt v pend, Good s s tgt (Ret v) pend pend (inl v) [].
  Proof.
    intros. split; [|split; [|split]].
    - intros cl _ _. cbn. rewrite !app_nil_r. destruct cl; reflexivity.
    - intros o [].
    - intros q [].
    - intros o [].
  Qed.

  Lemma TN_Ret : forall v, TN_at (Ret v).
  Proof.
    intros v tgt pend subs s r s' out pend' subs' r' out_r pend_r produced S K I L Hc Hr N P E.
    subst subs'. cbn [core_run] in Hc. assert (E0 : subs = subs ++ produced) by congruence. rewrite <- (app_nil_r subs) in E0 at 1. apply app_inv_head in E0. subst produced. inversion Hc; subst. apply Good_nil.
  Qed.

  Lemma TN_Raise : forall e, TN_at (Raise e).
  Proof.
    intros e tgt pend subs s r s' out pend' subs' r' out_r pend_r produced S K I L Hc Hr N P E.
    subst subs'. cbn [core_run] in Hc. assert (E0 : subs = subs ++ produced) by congruence. rewrite <- (app_nil_r subs) in E0 at 1. apply app_inv_head in E0. subst produced. inversion Hc; subst.
    split; [|split; [|split]].
    - intros cl _ _. cbn. rewrite !app_nil_r. destruct cl; reflexivity.
    - intros o [].
    - intros q [].
    - intros o [].
  Qed.

  Lemma TN_Ask : forall st q k, (forall o, TN_at (k o)) -> TN_at (Ask st q k).
  Proof.
    intros st q k IHk tgt pend subs s r s' out pend' subs' r' out_r pend_r produced S K I L Hc Hr N P E.
    rewrite core_run_Ask in Hc. rewrite ref_run_Ask in Hr.
    destruct st.
    { destruct (IHk _ _ _ _ _ _ _ _ _ _ _ _ _ _ S K I L Hc Hr N P E) as [G1 [G2 [G3 G4]]].
      split; [|split; [|split]]; auto. }
    cbv zeta in Hc. rewrite <- (spec_answer_te _ _ q (proj1 S)) in Hr.
    assert (Hstep := fun P0 => ask_step s q K N P0).
    destruct (spec_answer (k_fs s) q) as [v|c0] eqn:Esa.
    - destruct (core_run_ext _ _ _ _ _ _ _ _ _ Hc) as [pk [Epk Xk]].
      rewrite Epk in E. symmetry in E. apply split_produced in E. subst produced.
      assert (P0 : PersT s) by (exact (PersT_back _ _ _ _ _ Xk P)).
      destruct (Hstep P0) as [rv [Erv Euv]].
      destruct (IHk (inl v) tgt pend _ _ _ _ _ _ _ _ _ _ pk (sim_klog_rlog _ _ _ _ S) (KInv_klog kp old vers clock0 _ _ K)
                    (RInv_rlog _ _ _ I) (sl_keep _ _ _ L) Hc Hr N P Epk) as [G1 [G2 [G3 G4]]].
      rewrite Erv in *. cbn [record_of] in *.
      split; [|split; [|split]].
      + intros cl Hcl Ht. cbn [tame_list tame andb tree_claims fst] in Ht. rewrite app_nil_r in Ht.
        cbn [follows]. rewrite query_beq_refl. cbn [negb]. rewrite Euv.
        rewrite cll_cons. cbn [tree_claims fst snd app]. apply G1; assumption.
      + intros o [<-|Ho] Hto; [exact Logic.I|]. apply G2; assumption.
      + exact G3.
      + intros o [<-|Ho]; [exact Logic.I|]. apply G4; assumption.
    - destruct (core_run_ext _ _ _ _ _ _ _ _ _ Hc) as [pk [Epk Xk]].
      rewrite Epk in E. symmetry in E. apply split_produced in E. subst produced.
      assert (P0 : PersT s) by (exact (PersT_back _ _ _ _ _ Xk P)).
      destruct (Hstep P0) as [c1 [Erv ->]].
      destruct (IHk (inr (XOS (user_class q c1))) tgt pend _ _ _ _ _ _ _ _ _ _ pk (sim_klog_rlog _ _ _ _ S) (KInv_klog kp old vers clock0 _ _ K)
                    (RInv_rlog _ _ _ I) (sl_keep _ _ _ L) Hc Hr N P Epk) as [G1 [G2 [G3 G4]]].
      rewrite Erv in *. cbn [record_of] in *.
      split; [|split; [|split]].
      + intros cl Hcl Ht. cbn [tame_list tame andb tree_claims fst] in Ht. rewrite app_nil_r in Ht.
        cbn [follows]. rewrite query_beq_refl. cbn [negb].
        rewrite cll_cons. cbn [tree_claims fst snd app]. apply G1; assumption.
      + intros o [<-|Ho] Hto; [exact Logic.I|]. apply G2; assumption.
      + exact G3.
      + intros o [<-|Ho]; [exact Logic.I|]. apply G4; assumption.
  Qed.

  Lemma TN_Write : forall c k, TN_at k -> TN_at (Write c k).
  Proof.
    intros c k IHk tgt pend subs s r s' out pend' subs' r' out_r pend_r produced S K I L Hc Hr N P E.
    rewrite core_run_Write in Hc. rewrite ref_run_Write in Hr.
    destruct tgt as [p|].
    2:{ destruct (IHk _ _ _ _ _ _ _ _ _ _ _ _ _ S K I L Hc Hr N P E) as [G1 [G2 [G3 G4]]]. split; [|split; [|split]]; auto. }
    destruct (path_ok p) eqn:Ep.
    - destruct (IHk _ _ _ _ _ _ _ _ _ _ _ _ _ (sim_tick _ _ S) (KInv_ktick kp old vers clock0 _ K) (RInv_rtick _ _ I) L Hc Hr N P E)
        as [G1 [G2 [G3 G4]]].
      split; [|split; [|split]]; auto.
      intros cl Hcl Ht. cbn [follows]. rewrite Ep. apply G1; assumption.
    - subst subs'. cbn [core_run] in Hc. assert (E0 : subs = subs ++ produced) by congruence. rewrite <- (app_nil_r subs) in E0 at 1. apply app_inv_head in E0. subst produced. inversion Hc; subst.
      split; [|split; [|split]].
      + intros cl _ _. cbn [follows]. rewrite Ep. cbn. rewrite !app_nil_r. destruct cl; reflexivity.
      + intros o [].
      + intros q [].
      + intros o [].
  Qed.

  (* ---------------------------------------------------------------- *)
  (* small facts used in the call cases                               *)
  (* ---------------------------------------------------------------- *)
  Lemma LE : kp_le kp kq.
  Proof. apply kpx_le. Qed.

  Lemma need_mono : forall s3 r3 s' r' q, sim s3 r3 -> sim s' r' -> rext r3 r' -> In q (k_need s3) -> In q (k_need s').
  Proof.
    intros s3 r3 s' r' q [_ [_ [_ [N3 _]]]] [_ [_ [_ [N' _]]]] [X _] H. rewrite N'. apply X. rewrite <- N3. exact H.
  Qed.

  Lemma claimed_false_back : forall s s3 cF cS D q, Ext s s3 cF cS D -> mem_path q (k_claimedF s3) = false -> mem_path q (k_claimedF s) = false.
  Proof.
    intros s s3 cF cS D q [[eF [A1 _]] _ _ _ _ _ _ _ _ _ _] H. rewrite A1, mem_path_app in H. apply orb_false_iff in H. tauto.
  Qed.

  (* what a successful replay of the records of a hit has checked, against the claims of a trace *)
  Lemma hit_free : forall s0 subs1 rp' cl,
    kreplay_list s0 subs1 (start_replay s0) = Some rp' -> ClOK cl s0 ->
    (forall x, In x (deepl subs1) -> wfrec x) ->
    (forall x p', In x (deepl subs1) -> bf_path x = Some p' -> existsb (is_ancestor p') (fst cl) = false) ->
    forallb (free (fst cl) (snd cl)) subs1 = true.
  Proof.
    intros s0 subs1 rp' cl Hkr [C1 C2] Hwf Hanc. apply frees_deep. intros x Hx.
    pose proof (kreplay_list_checks _ _ _ _ Hkr x Hx) as Hc.
    destruct x as [q r e|p' c f a k subs r cr ra sf|f a k subs r ra sf]; cbn [free1]; [reflexivity| |].
    - cbn [start_replay rp_claimedF] in Hc. rewrite (Hanc _ p' Hx eq_refl).
      destruct (mem_path p' (fst cl)) eqn:E; [rewrite (C1 _ E) in Hc; discriminate|reflexivity].
    - cbn [start_replay rp_claimedS] in Hc. destruct (Hwf _ Hx) as [S1 [S2 [W1 W2]]].
      destruct (existsb (py_eq (subbuild_key f a k)) (snd cl)) eqn:E; [|reflexivity].
      rewrite (C2 f a k S1 S2 W1 W2 E) in Hc. discriminate.
  Qed.

  (* the same trace for another presentation of the key the call claimed *)
  Lemma swap_free : forall f sa skw sa2 skw2 subs1,
    sanitized sa = true -> sanitized skw = true -> pv_wf sa = true -> pv_wf skw = true ->
    sanitized sa2 = true -> sanitized skw2 = true -> is_equal sa sa2 = true -> is_equal skw skw2 = true ->
    (forall x, In x (deepl subs1) -> wfrec x) ->
    forallb (free [] [subbuild_key f sa skw]) subs1 = true ->
    forallb (free [] [subbuild_key f sa2 skw2]) subs1 = true.
  Proof.
    intros f sa skw sa2 skw2 subs1 S1 S2 W1 W2 S3 S4 E1 E2 Hwf H. apply frees_deep. intros x Hx.
    pose proof (proj1 (frees_deep _ _ _) H x Hx) as Hf.
    destruct x as [q r e|p' c f' a k subs r cr ra sf|f' a k subs r ra sf]; cbn [free1] in *; [reflexivity|reflexivity|].
    destruct (Hwf _ Hx) as [A1 [A2 [B1 B2]]]. cbn [existsb] in *. rewrite orb_false_r in *.
    destruct (py_eq (subbuild_key f' a k) (subbuild_key f sa2 skw2)) eqn:E; [|reflexivity].
    rewrite (key_transfer f' a k f sa skw sa2 skw2 A1 A2 S1 S2 S3 S4 B1 B2 W1 W2 E1 E2 E) in Hf. discriminate.
  Qed.

  Lemma ClOK_swap : forall s f sa skw sa2 skw2 ks,
    sanitized sa = true -> sanitized skw = true -> pv_wf sa = true -> pv_wf skw = true ->
    sanitized sa2 = true -> sanitized skw2 = true -> is_equal sa sa2 = true -> is_equal skw skw2 = true ->
    k_claimedS s = subbuild_key f sa skw :: ks ->
    ClOK ([], [subbuild_key f sa2 skw2]) s.
  Proof.
    intros s f sa skw sa2 skw2 ks S1 S2 W1 W2 S3 S4 E1 E2 Hk. split; cbn [fst snd].
    - intros q Hq. discriminate.
    - intros f' a k A1 A2 B1 B2 H. cbn [existsb] in H. rewrite orb_false_r in H. rewrite Hk. cbn [existsb].
      rewrite (key_transfer f' a k f sa skw sa2 skw2 A1 A2 S1 S2 S3 S4 B1 B2 W1 W2 E1 E2 H). reflexivity.
  Qed.

  Lemma sb_end_sub_rec : forall f sa skw bsubs res r ra,
    sub_rec f sa skw bsubs res = OSubbuild f sa skw bsubs r ra false -> sb_end r ra res = Some (sub_out res).
  Proof.
    intros f sa skw bsubs res r ra H. unfold sub_rec in H. unfold sb_end, sub_out. destruct res as [v|e].
    - destruct (sanitize v) as [sv|]; inversion H; subst; [|reflexivity]. cbn. rewrite pyval_same_refl. reflexivity.
    - inversion H; subst. reflexivity.
  Qed.

  (* ---------------------------------------------------------------- *)
  (* subbuild                                                         *)
  (* ---------------------------------------------------------------- *)
  Lemma TN_Subbuild : forall st f a kw fn k,
    (forall a' k', fn a' k' = ft_sub F f a' k') ->
    (forall a' k', Obeys F (ft_sub F f a' k')) ->
    (forall a' k', pv_wf a' = true -> pv_wf k' = true -> TN_at (ft_sub F f a' k')) ->
    (forall o, Obeys F (k o)) -> (forall o, TN_at (k o)) ->
    pv_wf a = true -> pv_wf kw = true ->
    TN_at (Subbuild st f a kw fn k).
  Proof.
    intros st f a kw fn k Hfn Hob IHfn Hk IHk Wa Wkw tgt pend subs s r s' out pend' subs' r' out_r pend_r produced S K I L Hc Hr N P E.
    rewrite core_run_Subbuild in Hc. rewrite ref_run_Subbuild in Hr.
    destruct st.
    { destruct (IHk _ _ _ _ _ _ _ _ _ _ _ _ _ _ S K I L Hc Hr N P E) as [G1 [G2 [G3 G4]]]. split; [|split; [|split]]; auto. }
    destruct (sanitize a) as [sa|] eqn:Esa.
    2:{ destruct (IHk _ _ _ _ _ _ _ _ _ _ _ _ _ _ S K I L Hc Hr N P E) as [G1 [G2 [G3 G4]]]. split; [|split; [|split]]; auto.
        intros cl Hcl Ht. cbn [follows]. rewrite Esa. apply G1; assumption. }
    destruct (sanitize kw) as [skw|] eqn:Eskw.
    2:{ destruct (IHk _ _ _ _ _ _ _ _ _ _ _ _ _ _ S K I L Hc Hr N P E) as [G1 [G2 [G3 G4]]]. split; [|split; [|split]]; auto.
        intros cl Hcl Ht. cbn [follows]. rewrite Esa, Eskw. apply G1; assumption. }
    cbv zeta in Hc. rewrite (proj1 (proj2 (proj2 S)) (subbuild_key f sa skw)) in Hc.
    pose proof (sanitize_sanitized _ _ Esa) as Ssa. pose proof (sanitize_sanitized _ _ Eskw) as Sskw.
    pose proof (sanitize_wf _ _ Wa Esa) as Wsa. pose proof (sanitize_wf _ _ Wkw Eskw) as Wskw.
    set (key := subbuild_key f sa skw) in *.
    assert (Hfol : forall cl bs rt rs rest,
              existsb (py_eq key) (snd cl) = false ->
              follows kq tgt (Subbuild false f a kw fn k) (OSubbuild f sa skw bs rt rs false :: rest) pend cl =
              match follows kq None (fn sa skw) bs None (fst cl, snd cl ++ [key]) with
              | Some (out_n, _, [], cl2) =>
                  match sb_end rt rs out_n with
                  | Some o => follows kq tgt (k o) rest pend cl2
                  | None => None
                  end
              | _ => None
              end).
    { intros cl bs rt rs rest Hk0. cbn [follows]. rewrite Esa, Eskw.
      rewrite String.eqb_refl, !pyval_same_refl. cbn [negb andb]. fold key. rewrite Hk0. reflexivity. }
    destruct (existsb (py_eq key) (r_claimedS r)) eqn:Edup.
    - (* duplicate: a setup failure *)
      destruct (core_run_ext _ _ _ _ _ _ _ _ _ Hc) as [pk [Epk Xk]].
      rewrite Epk in E. symmetry in E. apply split_produced in E. subst produced.
      destruct (IHk _ _ _ _ _ _ _ _ _ _ _ _ _ _ S K I L Hc Hr N P Epk) as [G1 [G2 [G3 G4]]].
      split; [|split; [|split]].
      + intros cl Hcl Ht. cbn [tame_list] in Ht. rewrite tame_SB in Ht. discriminate.
      + intros o [<-|Ho] Hto; [rewrite tame_SB in Hto; discriminate|]. apply G2; assumption.
      + exact G3.
      + intros o [<-|Ho]; [cbn; auto|]. apply G4; assumption.
    - assert (Hdup_k : forall cl, ClOK cl s -> existsb (py_eq key) (snd cl) = false).
      { intros cl [_ C2]. destruct (existsb (py_eq key) (snd cl)) eqn:Ex; [|reflexivity].
        pose proof (C2 f sa skw Ssa Sskw Wsa Wskw Ex) as Hx. fold key in Hx.
        rewrite (proj1 (proj2 (proj2 S)) key) in Hx. congruence. }
      destruct (core_subhit s f key) as [[[subs1 ret1] rp1]|] eqn:Ehit.
      + (* served from the cache *)
        destruct (hitS_more s r tgt f sa skw subs1 ret1 rp1 fn S K I Ssa Sskw Ehit (Hfn sa skw))
          as (r2 & res & pd & a' & k' & Er2 & Hout & S3 & K3 & I3 & X3 & Hdf & Ea & Ek & Efo & Ebe & Ekr & Hneed).
        rewrite Er2, Hout in Hr.
        set (o := OSubbuild f sa skw subs1 ret1 false false) in *.
        assert (L3 : sublog (k_log (adopt s rp1 o)) (r_log r2)).
        { destruct X3 as [_ [_ [_ [ex Hex]]]]. rewrite Hex. apply sublog_app_r. exact L. }
        pose proof (Ext_hitS s f sa skw subs1 ret1 rp1 Ehit) as Xh. cbv zeta in Xh. fold o in Xh.
        pose proof (NI_ext _ _ _ _ _ N Xh) as N3.
        destruct (core_run_ext _ _ _ _ _ _ _ _ _ Hc) as [pk [Epk Xk]].
        rewrite Epk in E. symmetry in E. apply split_produced in E. subst produced.
        destruct (IHk _ _ _ _ _ _ _ _ _ _ _ _ _ _ S3 K3 I3 L3 Hc Hr N3 P Epk) as [G1 [G2 [G3 G4]]].
        destruct (T1 kp F old vers clock0 HR HW HF HN _ (Hk (inl ret1)) _ _ _ _ _ _ _ _ _ _ _ _ S3 K3 I3 L3 Hc Hr) as [_ [_ [S' _]]].
        destruct (ref_run_inv _ _ _ _ _ _ _ I3 Hr) as [_ X'].
        apply dfaith_SB in Hdf. destruct Hdf as [_ [_ Hdl]].
        assert (Hwf1 : forall x, In x (deepl subs1) -> wfrec x).
        { intros x Hx. eapply dfaith_wfrec. eapply dfaith_list_deep; eauto. }
        pose proof (follows_mono kp kq LE _ _ _ _ _ _ Efo) as Efq.
        pose proof (follows_free _ _ _ _ _ _ _ _ _ Efo) as Ffree. cbn [fst snd] in Ffree.
        split; [|split; [|split]].
        * intros cl Hcl Ht. cbn [tame_list] in Ht. apply andb_true_iff in Ht. destruct Ht as [Hto Htk].
          unfold o at 1. rewrite (Hfol cl _ _ _ pk (Hdup_k cl Hcl)).
          assert (Hfr : forallb (free (fst cl) (snd cl ++ [key])) subs1 = true).
          { rewrite <- (app_nil_r (fst cl)). apply frees_union; [|exact Ffree].
            apply (hit_free s subs1 rp1 cl Ekr Hcl Hwf1).
            intros x p' Hx Hp. apply (tame_anc o (fst cl) Hto x p'); [right; exact Hx|exact Hp]. }
          pose proof (follows_reclaim kq _ _ _ _ _ _ _ _ (fst cl, snd cl ++ [key]) Efq Hfr) as Hn. cbn [fst snd] in Hn.
          rewrite Hn, Ebe.
          assert (Hcl3 : ClOK (fst cl ++ fst (cll subs1), (snd cl ++ [key]) ++ snd (cll subs1)) (adopt s rp1 o)).
          { pose proof (ClOK_ext _ _ _ _ _ _ Hcl Xh) as Hx. unfold o in Hx. rewrite tree_claims_SB in Hx. cbn [fst snd] in Hx.
            rewrite <- app_assoc. exact Hx. }
          unfold o in Htk. rewrite tree_claims_SB in Htk. cbn [fst] in Htk.
          rewrite (G1 _ Hcl3 Htk). cbn [fst snd]. rewrite cll_cons. unfold o. rewrite tree_claims_SB. cbn [fst snd].
          rewrite <- !app_assoc. reflexivity.
        * intros o0 Ho0 Hto. cbn [deepl flat_map] in Ho0. apply in_app_or in Ho0. destruct Ho0 as [Ho0|Ho0]; [|apply G2; assumption].
          assert (Hdo : dfaith kq F o).
          { apply dfaith_SB. split; [auto|]. split; [|eapply dfaith_list_mono; [apply LE|exact Hdl]].
            right. right. intros sa2 skw2 S1 S2 E1 E2. cbn [faithful_sub_at].
            rewrite <- (HRS f sa sa2 skw skw2 E1 E2), <- Hfn.
            pose proof (swap_free f sa skw sa2 skw2 subs1 Ssa Sskw Wsa Wskw S1 S2 E1 E2 Hwf1 Ffree) as Hfr.
            pose proof (follows_reclaim kq _ _ _ _ _ _ _ _ ([], [subbuild_key f sa2 skw2]) Efq Hfr) as Hn. cbn [fst snd] in Hn.
            rewrite Hn, Ebe. reflexivity. }
          eapply dfaith_deep; eauto.
        * intros q Hq. cbn [flat_map] in Hq. apply in_app_or in Hq. destruct Hq as [Hq|Hq].
          -- cbn [tree_outputs] in Hq. split.
             ++ eapply need_mono; [exact S3|exact S'|exact X'|]. rewrite (proj1 (proj2 (proj2 (proj2 S3)))). apply Hneed. exact Hq.
             ++ destruct (outputs_deepl _ _ Hq) as [x [Hx Hp]]. pose proof (kreplay_list_checks _ _ _ _ Ekr x Hx) as Hc0.
                destruct x; try discriminate. cbn in Hp. inversion Hp; subst. exact Hc0.
          -- destruct (G3 q Hq) as [A B]. split; [exact A|]. eapply claimed_false_back; eauto.
        * intros o0 Ho0. cbn [deepl flat_map] in Ho0. apply in_app_or in Ho0. destruct Ho0 as [Ho0|Ho0]; [|apply G4; assumption].
          cbn [deep] in Ho0. destruct Ho0 as [<-|Ho0]; [cbn; auto|]. apply Hwf1. exact Ho0.
      + (* the function runs *)
        destruct (core_run (fn sa skw) None None [] (core_substart s f sa skw)) as [s2 [[res pd] bsubs]] eqn:Ec2.
        destruct (ref_run (fn sa skw) None None (ref_substart r f sa skw)) as [r2 [res_r pd_r]] eqn:Er2.
        destruct (RInv_substart tgt r f sa skw I) as [I1 X1].
        rewrite Hfn in Ec2, Er2.
        assert (S1 : sim (core_substart s f sa skw) (ref_substart r f sa skw)).
        { destruct S as [Tt [CF [CS [Nn [Md Ecf]]]]]. repeat split; try assumption.
          intro k0. cbn. rewrite (CS k0). reflexivity. }
        assert (K1 : KI (core_substart s f sa skw)) by exact K.
        assert (L1 : sublog (k_log (core_substart s f sa skw)) (r_log (ref_substart r f sa skw)))
          by (cbn; apply sl_keep; exact L).
        destruct (T1 kp F old vers clock0 HR HW HF HN _ (Hob sa skw) _ _ _ _ _ _ _ _ _ _ _ _ S1 K1 I1 L1 Ec2 Er2)
          as [E1 [E2 [S2 [K2 [L2 _]]]]].
        subst res_r.
        destruct (ref_run_inv _ _ _ _ _ _ _ I1 Er2) as [I2 X2].
        assert (I2' : RInv' tgt r2).
        { eapply RInv_target; [exact I2|]. intros q Hq. destruct X2 as [X2 _]. destruct X1 as [X1' _].
          apply X2, X1'. destruct I as [[_ [_ Tg]] _]. apply Tg. exact Hq. }
        set (o := sub_rec f sa skw bsubs res) in *.
        assert (S3 : sim (core_subreg s2 key o) r2) by exact S2.
        assert (K3 : KI (core_subreg s2 key o)) by exact K2.
        destruct (T1 kp F old vers clock0 HR HW HF HN _ (Hk (sub_out res)) _ _ _ _ _ _ _ _ _ _ _ _ S3 K3 I2' L2 Hc Hr) as [_ [_ [S' _]]].
        destruct (ref_run_inv _ _ _ _ _ _ _ I2' Hr) as [_ X'].
        destruct (core_run_ext _ _ _ _ _ _ _ _ _ Ec2) as [pn [Epn Xn]]. cbn [app] in Epn. subst pn.
        destruct (core_run_ext _ _ _ _ _ _ _ _ _ Hc) as [pk [Epk Xk]].
        rewrite Epk in E. symmetry in E. apply split_produced in E. subst produced.
        pose proof (Ext_substart s f sa skw (deepl bsubs)) as Xs.
        assert (P3 : PersT (core_subreg s2 key o)) by (exact (PersT_back _ _ _ _ _ Xk P)).
        assert (P2 : PersT s2) by exact P3.
        pose proof (NI_ext _ _ _ _ _ N Xs) as N1.
        pose proof (NI_ext _ _ _ _ _ N1 Xn) as N2.
        assert (N3 : NI (core_subreg s2 key o)) by exact N2.
        pose proof (IHfn sa skw Wsa Wskw _ _ _ _ _ _ _ _ _ _ _ _ bsubs S1 K1 I1 L1 Ec2 Er2 N1 P2 eq_refl) as [F1 [F2 [F3 F4]]].
        destruct (IHk _ _ _ _ _ _ _ _ _ _ _ _ _ _ S3 K3 I2' L2 Hc Hr N3 P Epk) as [G1 [G2 [G3 G4]]].
        destruct (sub_rec_shape f sa skw bsubs res) as (rr & ra & Hrec). fold o in Hrec.
        pose proof (sb_end_sub_rec _ _ _ _ _ _ _ Hrec) as Hsb.
        assert (Xall : Ext s (core_subreg s2 key o) (fst (cll bsubs)) (key :: snd (cll bsubs)) (o :: deepl bsubs)).
        { apply Ext_subreg; [|left; reflexivity|rewrite Hrec; repeat eexists|left; reflexivity].
          change (fst (cll bsubs)) with ([] ++ fst (cll bsubs)). change (key :: snd (cll bsubs)) with ([key] ++ snd (cll bsubs)).
          eapply Ext_trans; (eapply Ext_D; [|eassumption]); intros x Hx; right; exact Hx. }
        split; [|split; [|split]].
        * intros cl Hcl Ht. cbn [tame_list] in Ht. apply andb_true_iff in Ht. destruct Ht as [Hto Htk].
          rewrite Hrec in Hto, Htk. rewrite tame_SB in Hto. cbn [negb andb] in Hto. rewrite tree_claims_SB in Htk. cbn [fst] in Htk.
          rewrite Hrec at 1. rewrite (Hfol cl _ _ _ pk (Hdup_k cl Hcl)).
          assert (Hcl1 : ClOK (fst cl, snd cl ++ [key]) (core_substart s f sa skw)).
          { pose proof (ClOK_ext _ _ _ _ _ _ Hcl Xs) as Hx. cbn [fst snd] in Hx. rewrite app_nil_r in Hx. exact Hx. }
          rewrite (Hfn sa skw). rewrite (F1 _ Hcl1 Hto). cbn [fst snd]. rewrite Hsb.
          assert (Hcl3 : ClOK (fst cl ++ fst (cll bsubs), (snd cl ++ [key]) ++ snd (cll bsubs)) (core_subreg s2 key o)).
          { pose proof (ClOK_ext _ _ _ _ _ _ Hcl Xall) as Hx. cbn [fst snd] in Hx. rewrite <- app_assoc. exact Hx. }
          rewrite (G1 _ Hcl3 Htk). cbn [fst snd]. rewrite cll_cons, Hrec, tree_claims_SB. cbn [fst snd].
          rewrite <- !app_assoc. reflexivity.
        * intros o0 Ho0 Hto. cbn [deepl flat_map] in Ho0. apply in_app_or in Ho0. destruct Ho0 as [Ho0|Ho0]; [|apply G2; assumption].
          rewrite Hrec in Ho0. cbn [deep] in Ho0. destruct Ho0 as [<-|Ho0]; [|apply F2; assumption].
          rewrite tame_SB in Hto. cbn [negb andb] in Hto.
          apply dfaith_SB. split; [auto|]. split.
          -- destruct ra; [left; reflexivity|right; right]. intros sa2 skw2 Sa2 Sk2 Ea2 Ek2. cbn [faithful_sub_at].
             rewrite <- (HRS f sa sa2 skw skw2 Ea2 Ek2).
             assert (Hcl1 : ClOK ([], [subbuild_key f sa2 skw2]) (core_substart s f sa skw)).
             { eapply (ClOK_swap _ f sa skw sa2 skw2); eauto. reflexivity. }
             rewrite (F1 _ Hcl1 Hto). rewrite Hsb. reflexivity.
          -- apply dfaith_list_of. intros x Hx. apply F2; [apply deepl_top; exact Hx|]. eapply tame_list_top; eauto.
        * intros q Hq. cbn [flat_map] in Hq. apply in_app_or in Hq. destruct Hq as [Hq|Hq].
          -- rewrite Hrec in Hq. cbn [tree_outputs] in Hq. destruct (F3 q Hq) as [A B]. split.
             ++ eapply need_mono; [exact S3|exact S'|exact X'|exact A].
             ++ eapply claimed_false_back; [exact Xs|exact B].
          -- destruct (G3 q Hq) as [A B]. split; [exact A|]. eapply claimed_false_back; [exact Xall|exact B].
        * intros o0 Ho0. cbn [deepl flat_map] in Ho0. apply in_app_or in Ho0. destruct Ho0 as [Ho0|Ho0]; [|apply G4; assumption].
          rewrite Hrec in Ho0. cbn [deep] in Ho0. destruct Ho0 as [<-|Ho0]; [cbn; auto|]. apply F4. exact Ho0.
  Qed.

  (* ---------------------------------------------------------------- *)
  (* the end of a build_file call                                     *)
  (* ---------------------------------------------------------------- *)
  Lemma bf_end_hit : forall p c c' subs1 ret1 cmpres' res pend2 clA clB fh,
    bf_end kp p c' subs1 ret1 cmpres' false res pend2 clA = Some (inl ret1) ->
    agrees kp p fh -> is_equal cmpres' (cmp_of c' fh) = true ->
    kq p c (cmp_of c fh) = Some (f_bytes fh) ->
    (existsb (is_ancestor p) (fst clA) = false -> existsb (is_ancestor p) (fst clB) = false) ->
    bf_end kq p c subs1 ret1 (cmp_of c fh) false res pend2 clB = Some (inl ret1).
  Proof.
    intros p c c' subs1 ret1 cmpres' res pend2 clA clB fh H Ha Hc Hk Hcl. unfold bf_end in *.
    destruct res as [v|e]; [|discriminate]. destruct (sanitize v) as [sv|]; [|discriminate].
    destruct pend2 as [b|]; [|discriminate].
    destruct (existsb (is_ancestor p) (flat_map tree_outputs subs1)); [discriminate|].
    destruct (existsb (is_ancestor p) (fst clA)); [discriminate|]. rewrite (Hcl eq_refl).
    cbn [negb andb] in *. destruct (pyval_same ret1 sv); [|discriminate]. cbn [andb] in *.
    destruct (kp p c' cmpres') as [b'|] eqn:E; [|discriminate].
    destruct (String.eqb b b') eqn:Eb; [|discriminate]. apply String.eqb_eq in Eb. subst b'.
    rewrite Hk. rewrite (Ha c' cmpres' b E (or_introl Hc)). rewrite String.eqb_refl. exact H.
  Qed.

  Lemma finish_keeps : forall s2 p c f sa skw bsubs res pend2 s3 out o,
    core_finish s2 p c f sa skw bsubs res pend2 = (s3, out, o) ->
    k_claimedF s3 = k_claimedF s2 /\
    forall q g, q <> p -> lookup (k_fs s2) q = Some (NFile g) -> lookup (k_fs s3) q = Some (NFile g).
  Proof.
    intros s2 p c f sa skw bsubs res pend2 s3 out o H. unfold core_finish in H.
    assert (Fl : forall e o', (core_prune s2 p o', @inr pyval exn e, o') = (s3, out, o) ->
              k_claimedF s3 = k_claimedF s2 /\
              forall q g, q <> p -> lookup (k_fs s2) q = Some (NFile g) -> lookup (k_fs s3) q = Some (NFile g)).
    { intros e o' E. inversion E; subst. split; [reflexivity|]. intros q g _ Hl.
      apply (prune_fs_file (k_fs s2) (k_need s2) (k_made s2) p q g). exact Hl. }
    destruct res as [v|e]; [|eapply Fl; eauto].
    destruct (sanitize v) as [sv|]; [|eapply Fl; eauto].
    destruct pend2 as [b|]; [|eapply Fl; eauto].
    destruct (write_file (k_fs s2) p b None (k_clock s2) (k_nextid s2)) as [fs3|e1] eqn:Ew; [|eapply Fl; eauto].
    inversion H; subst. split; [reflexivity|]. intros q g Hq Hl. cbn.
    destruct (write_file_ok _ _ _ _ _ _ _ Ew) as [_ [_ [_ Hoth]]]. rewrite Hoth by exact Hq. exact Hl.
  Qed.

  Lemma own_end : forall s2 r2 p c f sa skw bsubs res pend2 s3 out3 o3 rr cr ra clE,
    core_finish s2 p c f sa skw bsubs res pend2 = (s3, out3, o3) ->
    o3 = OBuildFile p c f sa skw bsubs rr cr ra false ->
    sim s2 r2 -> RInv' (Some p) r2 -> KI s3 -> NI s3 -> PersT s3 -> mem_path p (k_claimedF s3) = true ->
    (pend2 = None \/ path_ok p = true) ->
    (forall q, In q (flat_map tree_outputs bsubs) -> In q (k_need s2)) ->
    (isdir (k_fs s2) p = true -> existsb (is_ancestor p) (fst (cll bsubs)) = true) ->
    negb (existsb (is_ancestor p) (fst (cll bsubs))) || existsb (is_ancestor p) (flat_map tree_outputs bsubs) = true ->
    existsb (is_ancestor p) (fst clE) = existsb (is_ancestor p) (fst (cll bsubs)) ->
    bf_end kq p c bsubs rr cr ra res pend2 clE = Some out3.
  Proof.
    intros s2 r2 p c f sa skw bsubs res pend2 s3 out3 o3 rr cr ra clE Ef Ho3 S2 I2 K3 N3 P3 Hcl Hok Hout Hdir Hexit HclE.
    unfold core_finish in Ef. unfold bf_end.
    destruct res as [v|e].
    2:{ inversion Ef; subst s3 out3 o3. inversion H2; subst. reflexivity. }
    destruct (sanitize v) as [sv|].
    2:{ inversion Ef; subst s3 out3 o3. inversion H2; subst. reflexivity. }
    destruct pend2 as [b|].
    2:{ inversion Ef; subst s3 out3 o3. inversion H2; subst. reflexivity. }
    destruct Hok as [Hok|Hok]; [discriminate|].
    destruct I2 as [[W2 [Nd Tg]] C2]. pose proof (Tg p eq_refl) as Hp. destruct (Nd p Hp) as [Hne Hpar].
    destruct S2 as [T2 [_ [_ [Nn _]]]].
    destruct (existsb (is_ancestor p) (flat_map tree_outputs bsubs)) eqn:Eout.
    - (* an output below p: p is a directory, the write fails *)
      apply existsb_exists in Eout. destruct Eout as [q [Hq Ha]].
      pose proof (Hout q Hq) as Hqn. rewrite Nn in Hqn. destruct (Nd q Hqn) as [Hqne Hqpar].
      assert (Hd : isdir (k_fs s2) p = true).
      { rewrite (te_isdir _ _ p T2). unfold isdir. destruct q as [|x d]; [congruence|]. cbn in Hqpar.
        apply is_ancestor_parent in Ha. destruct Ha as [->|Ha]; [rewrite Hqpar; reflexivity|].
        rewrite (wf_ancestor _ W2 _ _ _ Hqpar Ha). reflexivity. }
      rewrite (write_file_isdir _ _ _ _ _ _ Hd) in Ef. inversion Ef; subst s3 out3 o3. inversion H2; subst. reflexivity.
    - rewrite orb_false_r in Hexit. apply negb_true_iff in Hexit. rewrite HclE, Hexit.
      assert (Hnd : isdir (k_fs s2) p = false).
      { destruct (isdir (k_fs s2) p) eqn:Ed; [|reflexivity]. rewrite (Hdir eq_refl) in Hexit. discriminate. }
      assert (Hpark : lookup (k_fs s2) (dirname p) = Some NDir) by (eapply te_dir; [apply te_sym; exact T2|exact Hpar]).
      destruct (write_file_succeeds (k_fs s2) p b None (k_clock s2) (k_nextid s2) Hne Hok Hpark Hnd) as [fs3 Hw].
      rewrite Hw in Ef. inversion Ef; subst s3 out3 o3. inversion H2; subst rr cr ra. clear H2.
      destruct (write_file_ok _ _ _ _ _ _ _ Hw) as [_ [_ [[f3 [Hf3 [Hb3 _]]] _]]].
      rewrite Hf3. cbn [negb andb]. rewrite pyval_same_refl. cbn [andb].
      rewrite (known _ K3 N3 P3 p f3 (or_introl Hf3) c). rewrite Hb3, String.eqb_refl. reflexivity.
  Qed.

  (* ---------------------------------------------------------------- *)
  (* build_file                                                       *)
  (* ---------------------------------------------------------------- *)
  Lemma TN_BuildFile : forall st p c f a kw fn k,
    (forall p' a' k', fn p' a' k' = ft_file F f p' a' k') ->
    (forall p' a' k', Obeys F (ft_file F f p' a' k')) ->
    (forall p' a' k', pv_wf a' = true -> pv_wf k' = true -> TN_at (ft_file F f p' a' k')) ->
    (forall o, Obeys F (k o)) -> (forall o, TN_at (k o)) ->
    pv_wf a = true -> pv_wf kw = true ->
    TN_at (BuildFile st p c f a kw fn k).
  Proof.
    intros st p c f a kw fn k Hfn Hob IHfn Hk IHk Wa Wkw tgt pend subs s r s' out pend' subs' r' out_r pend_r produced S K I L Hc Hr N P E.
    rewrite core_run_BuildFile in Hc. rewrite ref_run_BuildFile in Hr.
    destruct st.
    { destruct (IHk _ _ _ _ _ _ _ _ _ _ _ _ _ _ S K I L Hc Hr N P E) as [G1 [G2 [G3 G4]]]. split; [|split; [|split]]; auto. }
    destruct (sanitize a) as [sa|] eqn:Esa.
    2:{ destruct (IHk _ _ _ _ _ _ _ _ _ _ _ _ _ _ S K I L Hc Hr N P E) as [G1 [G2 [G3 G4]]]. split; [|split; [|split]]; auto.
        intros cl Hcl Ht. cbn [follows]. rewrite Esa. apply G1; assumption. }
    destruct (sanitize kw) as [skw|] eqn:Eskw.
    2:{ destruct (IHk _ _ _ _ _ _ _ _ _ _ _ _ _ _ S K I L Hc Hr N P E) as [G1 [G2 [G3 G4]]]. split; [|split; [|split]]; auto.
        intros cl Hcl Ht. cbn [follows]. rewrite Esa, Eskw. apply G1; assumption. }
    cbv zeta in Hc.
    pose proof (sanitize_wf _ _ Wa Esa) as Wsa. pose proof (sanitize_wf _ _ Wkw Eskw) as Wskw.
    assert (Hfol : forall cl c0 f0 a0 k0 bs rt cr rs rest,
              mem_path p (fst cl) = false -> existsb (is_ancestor p) (fst cl) = false ->
              follows kq tgt (BuildFile false p c f a kw fn k) (OBuildFile p c0 f0 a0 k0 bs rt cr rs false :: rest) pend cl =
              match follows kq (Some p) (fn p sa skw) bs None (fst cl ++ [p], snd cl) with
              | Some (out_n, bytes_n, [], cl2) =>
                  match bf_end kq p c0 bs rt cr rs out_n bytes_n cl2 with
                  | Some o => follows kq tgt (k o) rest pend cl2
                  | None => None
                  end
              | _ => None
              end).
    { intros cl c0 f0 a0 k0 bs rt cr rs rest H1 H2. cbn [follows]. rewrite Esa, Eskw, path_eqb_refl. cbn [negb].
      rewrite H1, H2. cbn [orb]. reflexivity. }
    (* a setup failure: the record is not tame *)
    assert (Hsf : forall e,
              core_run (k (inr e)) tgt pend (subs ++ [OBuildFile p c f sa skw [] PNone PNone true true]) s = (s', (out, pend', subs')) ->
              ref_run (k (inr e)) tgt pend r = (r', (out_r, pend_r)) ->
              Good s s' tgt (BuildFile false p c f a kw fn k) pend pend' out produced).
    { intros e Hc' Hr'.
      destruct (core_run_ext _ _ _ _ _ _ _ _ _ Hc') as [pk [Epk Xk]].
      rewrite Epk in E. symmetry in E. apply split_produced in E. subst produced.
      destruct (IHk _ _ _ _ _ _ _ _ _ _ _ _ _ _ S K I L Hc' Hr' N P Epk) as [G1 [G2 [G3 G4]]].
      split; [|split; [|split]].
      + intros cl Hcl Ht. cbn [tame_list] in Ht. rewrite tame_BF in Ht. discriminate.
      + intros o [<-|Ho] Hto; [rewrite tame_BF in Hto; discriminate|]. apply G2; assumption.
      + exact G3.
      + intros o [<-|Ho]; [exact Logic.I|]. apply G4; assumption. }
    pose proof (claim_check_sim s r p S) as Ecs. rewrite Ecs in Hc.
    destruct (claim_check (r_claimedF r) (r_cachefile r) p) as [ec|] eqn:Ecc; [apply (Hsf ec); assumption|].
    pose proof (setup_sim s r p S) as R.
    destruct (setup_fs (k_fs s) (k_cachefile s) p) as [[fs1 dirs]|e1] eqn:Esk;
      destruct (setup_fs (r_fs r) (r_cachefile r) p) as [[fs1r dirs']|e2] eqn:Esr; simpl in R; try contradiction;
      [|subst e2; apply (Hsf e1); assumption].
    destruct R as [T1' <-]. clear Hsf.
    assert (Wk : fs_wf (k_fs s)) by (eapply te_wf; [apply te_sym; exact (proj1 S)|exact (RInv_wf _ _ I)]).
    destruct (claim_check_none _ _ _ Ecc) as [Hpc _].
    assert (Hpk : mem_path p (k_claimedF s) = false) by (rewrite (proj1 (proj2 S) p); exact Hpc).
    assert (Hchk : forall cl, ClOK cl s -> mem_path p (fst cl) = false).
    { intros cl [C1 _]. destruct (mem_path p (fst cl)) eqn:Ex; [|reflexivity]. rewrite (C1 _ Ex) in Hpk. discriminate. }
    destruct (setup_fs_ok _ _ _ _ _ Wk Esk) as [Hne [Hnotdir _]].
    destruct (core_hit s (core_s0 s p fs1 dirs) p f sa skw) as [[[[fh subs1] ret1] rp1]|] eqn:Ehit.
    - (* served from the cache *)
      destruct (hitF_more s r tgt p c f sa skw fs1 fs1r dirs fh subs1 ret1 rp1 fn S K I Ecc Esk Esr T1' Ehit (Hfn p sa skw))
        as (r2 & res & pend2 & r3 & c' & a' & k' & cmpres' & Er2 & Ef & S3 & K3 & I3 & X3 & Hdf & Efo & Ebe & Eph & Ecmp & Ekr & Hneed).
      rewrite Er2, Ef in Hr.
      set (s0 := core_s0 s p fs1 dirs) in *.
      set (o := OBuildFile p c f sa skw subs1 ret1 (cmp_of c fh) false false) in *.
      assert (L3 : sublog (k_log (core_put (adopt s0 rp1 o) p fh)) (r_log r3)).
      { destruct X3 as [_ [_ [_ [ex Hex]]]]. rewrite Hex. apply sublog_app_r. exact L. }
      pose proof (Ext_hitF s p fs1 dirs c f sa skw fh subs1 ret1 rp1 Ecs Esk Ehit) as Xh. cbv zeta in Xh. fold s0 o in Xh.
      pose proof (NI_ext _ _ _ _ _ N Xh) as N3.
      destruct (core_run_ext _ _ _ _ _ _ _ _ _ Hc) as [pk [Epk Xk]].
      rewrite Epk in E. symmetry in E. apply split_produced in E. subst produced.
      destruct (IHk _ _ _ _ _ _ _ _ _ _ _ _ _ _ S3 K3 I3 L3 Hc Hr N3 P Epk) as [G1 [G2 [G3 G4]]].
      destruct (T1 kp F old vers clock0 HR HW HF HN _ (Hk (inl ret1)) _ _ _ _ _ _ _ _ _ _ _ _ S3 K3 I3 L3 Hc Hr) as [_ [_ [S' _]]].
      destruct (ref_run_inv _ _ _ _ _ _ _ I3 Hr) as [_ X'].
      apply dfaith_BF in Hdf. destruct Hdf as [_ Hdl].
      assert (Hwf1 : forall x, In x (deepl subs1) -> wfrec x).
      { intros x Hx. eapply dfaith_wfrec. eapply dfaith_list_deep; eauto. }
      pose proof (follows_mono kp kq LE _ _ _ _ _ _ Efo) as Efq.
      pose proof (follows_free _ _ _ _ _ _ _ _ _ Efo) as Ffree. cbn [fst snd] in Ffree.
      assert (P3 : PersT (core_put (adopt s0 rp1 o) p fh)) by (exact (PersT_back _ _ _ _ _ Xk P)).
      assert (Hkq : kq p c (cmp_of c fh) = Some (f_bytes fh)).
      { apply (known _ K3 N3 P3 p fh). left. cbn. apply lookup_upd_eq. exact Hne. }
      assert (Hag : agrees kp p fh).
      { pose proof (KInv_s0 kp old vers clock0 s p fs1 dirs K Wk Esk) as [_ [_ [K0 _]]]. apply K0. apply phys_cases. exact Eph. }
      split; [|split; [|split]].
      + intros cl Hcl Ht. cbn [tame_list] in Ht. apply andb_true_iff in Ht. destruct Ht as [Hto Htk].
        pose proof Hto as Hto'. unfold o in Hto'. rewrite tame_BF in Hto'.
        apply andb_true_iff in Hto'. destruct Hto' as [Hto' _]. apply andb_true_iff in Hto'. destruct Hto' as [Hto' _].
        apply andb_true_iff in Hto'. destruct Hto' as [_ Hanc]. apply negb_true_iff in Hanc.
        unfold o at 1. rewrite (Hfol cl _ _ _ _ _ _ _ _ pk (Hchk cl Hcl) Hanc).
        assert (Hfr : forallb (free (fst cl ++ [p]) (snd cl)) subs1 = true).
        { rewrite <- (app_nil_r (snd cl)). apply frees_union; [|exact Ffree].
          apply (hit_free s0 subs1 rp1 cl Ekr Hcl Hwf1).
          intros x p' Hx Hp. apply (tame_anc o (fst cl) Hto x p'); [right; exact Hx|exact Hp]. }
        pose proof (follows_reclaim kq _ _ _ _ _ _ _ _ (fst cl ++ [p], snd cl) Efq Hfr) as Hn. cbn [fst snd] in Hn.
        rewrite Hn.
        rewrite (bf_end_hit p c c' subs1 ret1 cmpres' res pend2 _ ((fst cl ++ [p]) ++ fst (cll subs1), snd cl ++ snd (cll subs1)) fh Ebe Hag Ecmp Hkq).
        2:{ cbn [fst]. rewrite !existsb_app. intro Hx. apply orb_false_iff in Hx. destruct Hx as [Hx Hy].
            rewrite Hanc, Hy. cbn. rewrite is_ancestor_irrefl. reflexivity. }
        assert (Hcl3 : ClOK ((fst cl ++ [p]) ++ fst (cll subs1), snd cl ++ snd (cll subs1)) (core_put (adopt s0 rp1 o) p fh)).
        { pose proof (ClOK_ext _ _ _ _ _ _ Hcl Xh) as Hx. unfold o in Hx. rewrite tree_regs_claims_BF_nonsf in Hx. cbn [fst snd] in Hx.
          rewrite <- app_assoc. exact Hx. }
        unfold o in Htk. rewrite tree_regs_claims_BF_nonsf in Htk. cbn [fst] in Htk.
        assert (Eq : fst cl ++ p :: fst (cll subs1) = (fst cl ++ [p]) ++ fst (cll subs1)) by (rewrite <- app_assoc; reflexivity).
        rewrite Eq in Htk.
        rewrite (G1 _ Hcl3 Htk). cbn [fst snd]. rewrite cll_cons. unfold o. rewrite tree_regs_claims_BF_nonsf. cbn [fst snd].
        rewrite <- !app_assoc. reflexivity.
      + intros o0 Ho0 Hto. cbn [deepl flat_map] in Ho0. apply in_app_or in Ho0. destruct Ho0 as [Ho0|Ho0]; [|apply G2; assumption].
        assert (Hdo : dfaith kq F o).
        { apply dfaith_BF. split; [|eapply dfaith_list_mono; [apply LE|exact Hdl]].
          right. right. cbn [faithful_op]. rewrite <- (Hfn p sa skw). rewrite Efq.
          rewrite (bf_end_hit p c c' subs1 ret1 cmpres' res pend2 _ _ fh Ebe Hag Ecmp Hkq (fun H => H)). reflexivity. }
        eapply dfaith_deep; eauto.
      + intros q Hq. cbn [flat_map] in Hq. apply in_app_or in Hq. destruct Hq as [Hq|Hq].
        * cbn [tree_outputs o app] in Hq. split.
          -- eapply need_mono; [exact S3|exact S'|exact X'|]. rewrite (proj1 (proj2 (proj2 (proj2 S3)))). apply Hneed. exact Hq.
          -- destruct Hq as [<-|Hq]; [exact Hpk|].
             destruct (outputs_deepl _ _ Hq) as [x [Hx Hp]]. pose proof (kreplay_list_checks _ _ _ _ Ekr x Hx) as Hc0.
             destruct x; try discriminate. cbn in Hp. inversion Hp; subst. exact Hc0.
        * destruct (G3 q Hq) as [A B]. split; [exact A|]. eapply claimed_false_back; eauto.
      + intros o0 Ho0. cbn [deepl flat_map] in Ho0. apply in_app_or in Ho0. destruct Ho0 as [Ho0|Ho0]; [|apply G4; assumption].
        cbn [deep] in Ho0. destruct Ho0 as [<-|Ho0]; [exact Logic.I|]. apply Hwf1. exact Ho0.
    - (* the function runs *)
      destruct (core_run (fn p sa skw) (Some p) None [] (core_start (core_s0 s p fs1 dirs) p f sa skw)) as [s2 [[res pend2] bsubs]] eqn:Ec2.
      destruct (ref_run (fn p sa skw) (Some p) None (ref_start r p f sa skw fs1r dirs)) as [r2 [res_r pend2_r]] eqn:Er2.
      destruct (RInv_start tgt r p f sa skw fs1r dirs I Ecc Esr) as [I1 X1].
      pose proof (KInv_start kp old vers clock0 _ p f sa skw (KInv_s0 kp old vers clock0 s p fs1 dirs K Wk Esk)) as K1.
      rewrite Hfn in Ec2, Er2.
      set (s1 := core_start (core_s0 s p fs1 dirs) p f sa skw) in *.
      assert (L1 : sublog (k_log s1) (r_log (ref_start r p f sa skw fs1r dirs))) by (cbn; apply sl_keep; exact L).
      pose proof (start_sim s r p f sa skw fs1 fs1r dirs S T1') as S1. fold s1 in S1.
      destruct (T1 kp F old vers clock0 HR HW HF HN _ (Hob p sa skw) _ _ _ _ _ _ _ _ _ _ _ _ S1 K1 I1 L1 Ec2 Er2)
        as [E1 [E2 [S2 [K2 [L2 [C1 C2]]]]]].
      subst res_r pend2_r.
      destruct (ref_run_inv _ _ _ _ _ _ _ I1 Er2) as [I2 X2].
      destruct (core_finish s2 p c f sa skw bsubs res pend2) as [[s3 out3] o3] eqn:Ef.
      destruct (ref_finish r2 p res pend2) as [r3 out3r] eqn:Efr.
      assert (Hcl2 : mem_path p (k_claimedF s2) = true).
      { rewrite (proj1 (proj2 S2) p). destruct X2 as [_ [X2 _]]. apply X2. cbn. rewrite path_eqb_refl. reflexivity. }
      assert (Hclk : pend2 = None \/ (clock0 < k_clock s2)%N).
      { destruct C2 as [C2|C2]; [left; exact C2|right]. destruct K1 as [_ [_ [_ [_ Kc]]]]. lia. }
      destruct (finish_sim kp F old vers clock0 HW HF HN s2 r2 p c f sa skw bsubs res pend2 s3 out3 o3 r3 out3r S2 K2 Hcl2 Hclk Ef Efr)
        as [E3 [S3 [K3 [Lk [Lr Ck]]]]].
      subst out3r.
      destruct (RInv_finish tgt r r2 p res pend2 r3 out3 I2 (rext_trans _ _ _ X1 X2) I Hpc Efr) as [I3 X3].
      assert (L3 : sublog (k_log s3) (r_log r3)) by (rewrite Lk, Lr; exact L2).
      destruct (T1 kp F old vers clock0 HR HW HF HN _ (Hk out3) _ _ _ _ _ _ _ _ _ _ _ _ S3 K3 I3 L3 Hc Hr) as [_ [_ [S' _]]].
      destruct (ref_run_inv _ _ _ _ _ _ _ I3 Hr) as [_ X'].
      destruct (core_run_ext _ _ _ _ _ _ _ _ _ Ec2) as [pn [Epn Xn]]. cbn [app] in Epn. subst pn.
      destruct (core_run_ext _ _ _ _ _ _ _ _ _ Hc) as [pk [Epk Xk]].
      rewrite Epk in E. symmetry in E. apply split_produced in E. subst produced.
      pose proof (Ext_start s p fs1 dirs f sa skw (deepl bsubs) Ecs Esk) as Xst. fold s1 in Xst.
      pose proof (Ext_wrapBF _ _ _ _ _ _ _ _ _ _ _ _ _ _ _ _ _ _ Ecs Esk Xn Ef) as Xw.
      destruct (core_finish_rec _ _ _ _ _ _ _ _ _ _ _ _ Ef) as (rr & cr & ra & Hrec).
      pose proof (NI_ext _ _ _ _ _ N Xst) as N1.
      pose proof (NI_ext _ _ _ _ _ N1 Xn) as N2.
      pose proof (NI_ext _ _ _ _ _ N Xw) as N3.
      assert (P3 : PersT s3) by (exact (PersT_back _ _ _ _ _ Xk P)).
      destruct (finish_keeps _ _ _ _ _ _ _ _ _ _ _ _ Ef) as [Hcf3 Hkeep].
      assert (Hnofile : forall g, lookup (k_fs s2) p <> Some (NFile g)).
      { intros g Hg. destruct (x_vis _ _ _ _ _ Xn p g Hg) as [H|[H|H]].
        - unfold s1 in H. cbn in H. destruct (try_remove_char fs1 p p) as [E0|[_ [E0 _]]]; [|congruence].
          rewrite E0 in H. assert (Hi : isfile fs1 p = true) by (apply isfile_lookup; eauto).
          rewrite (try_remove_removes _ _ Hi) in E0. congruence.
        - unfold s1 in H. cbn in H. rewrite stale_del_same in H. discriminate.
        - pose proof (x_fresh _ _ _ _ _ Xn p H) as Hx. unfold s1 in Hx. cbn in Hx. rewrite path_eqb_refl in Hx. discriminate. }
      assert (P2 : PersT s2).
      { intros q g Hq Hl. apply P3; [rewrite Hcf3; exact Hq|]. apply Hkeep; [|exact Hl]. intro; subst q. exact (Hnofile g Hl). }
      pose proof (IHfn p sa skw Wsa Wskw _ _ _ _ _ _ _ _ _ _ _ _ bsubs S1 K1 I1 L1 Ec2 Er2 N1 P2 eq_refl) as [F1 [F2 [F3 F4]]].
      destruct (IHk _ _ _ _ _ _ _ _ _ _ _ _ _ _ S3 K3 I3 L3 Hc Hr N3 P Epk) as [G1 [G2 [G3 G4]]].
      assert (Hcl3 : mem_path p (k_claimedF s3) = true) by (rewrite Hcf3; exact Hcl2).
      assert (Hok : pend2 = None \/ path_ok p = true).
      { destruct (core_run_pend _ _ _ _ _ _ _ _ _ Ec2) as [H|H]; auto. }
      assert (Hdir : isdir (k_fs s2) p = true -> existsb (is_ancestor p) (fst (cll bsubs)) = true).
      { intro Hd. destruct (x_dirs _ _ _ _ _ Xn p Hd) as [H|H]; [|exact H]. exfalso.
        unfold s1 in H. cbn in H. apply try_remove_isdir in H. unfold isdir in H, Hnotdir.
        destruct (setup_char _ _ _ _ _ Esk p) as [E0|[E0 _]]; [rewrite E0 in H; congruence|].
        rewrite is_ancestor_irrefl in E0. discriminate. }
      assert (Hout2 : forall q, In q (flat_map tree_outputs bsubs) -> In q (k_need s2)) by (intros q Hq; exact (proj1 (F3 q Hq))).
      assert (BE : forall clE,
                negb (existsb (is_ancestor p) (fst (cll bsubs))) || existsb (is_ancestor p) (flat_map tree_outputs bsubs) = true ->
                existsb (is_ancestor p) (fst clE) = existsb (is_ancestor p) (fst (cll bsubs)) ->
                bf_end kq p c bsubs rr cr ra res pend2 clE = Some out3).
      { intros clE Hex HclE. eapply (own_end s2 r2 p c f sa skw bsubs res pend2 s3 out3 o3 rr cr ra clE); eauto. }
      split; [|split; [|split]].
      + intros cl Hcl Ht. cbn [tame_list] in Ht. apply andb_true_iff in Ht. destruct Ht as [Hto Htk].
        rewrite Hrec in Hto, Htk. rewrite tame_BF in Hto. rewrite tree_regs_claims_BF_nonsf in Htk. cbn [fst] in Htk.
        apply andb_true_iff in Hto. destruct Hto as [Hto Hexit]. apply andb_true_iff in Hto. destruct Hto as [Hto Hsub].
        apply andb_true_iff in Hto. destruct Hto as [_ Hanc]. apply negb_true_iff in Hanc.
        rewrite Hrec at 1. rewrite (Hfol cl _ _ _ _ _ _ _ _ pk (Hchk cl Hcl) Hanc).
        assert (Hcl1 : ClOK (fst cl ++ [p], snd cl) s1).
        { pose proof (ClOK_ext _ _ _ _ _ _ Hcl Xst) as Hx. cbn [fst snd] in Hx. rewrite app_nil_r in Hx. exact Hx. }
        rewrite (Hfn p sa skw). rewrite (F1 _ Hcl1 Hsub). cbn [fst snd].
        rewrite (BE ((fst cl ++ [p]) ++ fst (cll bsubs), snd cl ++ snd (cll bsubs)) Hexit).
        2:{ cbn [fst]. rewrite !existsb_app, Hanc. cbn. rewrite is_ancestor_irrefl. reflexivity. }
        assert (Hcl3' : ClOK ((fst cl ++ [p]) ++ fst (cll bsubs), snd cl ++ snd (cll bsubs)) s3).
        { pose proof (ClOK_ext _ _ _ _ _ _ Hcl Xw) as Hx. cbn [fst snd] in Hx. rewrite <- app_assoc. exact Hx. }
        assert (Eq : fst cl ++ p :: fst (cll bsubs) = (fst cl ++ [p]) ++ fst (cll bsubs)) by (rewrite <- app_assoc; reflexivity).
        rewrite Eq in Htk.
        rewrite (G1 _ Hcl3' Htk). cbn [fst snd]. rewrite cll_cons, Hrec, tree_regs_claims_BF_nonsf. cbn [fst snd].
        rewrite <- !app_assoc. reflexivity.
      + intros o0 Ho0 Hto. cbn [deepl flat_map] in Ho0. apply in_app_or in Ho0. destruct Ho0 as [Ho0|Ho0]; [|apply G2; assumption].
        rewrite Hrec in Ho0. cbn [deep] in Ho0. destruct Ho0 as [<-|Ho0]; [|apply F2; assumption].
        rewrite tame_BF in Hto.
        apply andb_true_iff in Hto. destruct Hto as [Hto Hexit]. apply andb_true_iff in Hto. destruct Hto as [_ Hsub]. cbn [app] in Hsub.
        apply dfaith_BF. split.
        * destruct ra; [left; reflexivity|right; right]. cbn [faithful_op].
          assert (Hcl1 : ClOK ([p], []) s1).
          { split; cbn [fst snd]; [|intros; discriminate]. intros q Hq. cbn in Hq. rewrite orb_false_r in Hq.
            unfold s1. cbn. rewrite Hq. reflexivity. }
          rewrite (F1 _ Hcl1 Hsub). cbn [fst snd]. rewrite (BE _ Hexit); [reflexivity|].
          cbn [fst app existsb]. rewrite is_ancestor_irrefl. reflexivity.
        * apply dfaith_list_of. intros x Hx. apply F2; [apply deepl_top; exact Hx|]. eapply tame_list_top; eauto.
      + intros q Hq. cbn [flat_map] in Hq. apply in_app_or in Hq. destruct Hq as [Hq|Hq].
        * rewrite Hrec in Hq. cbn [tree_outputs] in Hq. apply in_app_or in Hq.
          assert (Hneed3 : forall x, In x (k_need s2) -> x <> p \/ ra = false -> In x (k_need s3)).
          { intros x Hx Hor. unfold core_finish in Ef. rewrite Hrec in Ef.
            assert (Fl : forall e, (core_prune s2 p (OBuildFile p c f sa skw bsubs PNone PNone true false), @inr pyval exn e,
                                    OBuildFile p c f sa skw bsubs PNone PNone true false)
                                   = (s3, out3, OBuildFile p c f sa skw bsubs rr cr ra false) -> In x (k_need s3)).
            { intros e E0. inversion E0; subst. cbn. apply In_del_path. split; [exact Hx|]. destruct Hor as [Hor|Hor]; [exact Hor|discriminate]. }
            destruct res as [v|e]; [|eapply Fl; eauto].
            destruct (sanitize v) as [sv|]; [|eapply Fl; eauto].
            destruct pend2 as [b|]; [|eapply Fl; eauto].
            destruct (write_file (k_fs s2) p b None (k_clock s2) (k_nextid s2)) as [fs3|e1]; [|eapply Fl; eauto].
            inversion Ef; subst. exact Hx. }
          destruct Hq as [Hq|Hq].
          -- destruct ra; [destruct Hq|]. destruct Hq as [<-|[]]. split; [|exact Hpk].
             eapply need_mono; [exact S3|exact S'|exact X'|]. apply Hneed3; [|right; reflexivity].
             rewrite (proj1 (proj2 (proj2 (proj2 S2)))). destruct I2 as [[_ [_ Tg]] _]. apply Tg. reflexivity.
          -- destruct (F3 q Hq) as [A B]. split.
             ++ eapply need_mono; [exact S3|exact S'|exact X'|]. apply Hneed3; [exact A|left].
                intro; subst q. unfold s1 in B. cbn in B. rewrite path_eqb_refl in B. discriminate.
             ++ eapply claimed_false_back; [exact Xst|exact B].
        * destruct (G3 q Hq) as [A B]. split; [exact A|]. eapply claimed_false_back; [exact Xw|exact B].
      + intros o0 Ho0. cbn [deepl flat_map] in Ho0. apply in_app_or in Ho0. destruct Ho0 as [Ho0|Ho0]; [|apply G4; assumption].
        rewrite Hrec in Ho0. cbn [deep] in Ho0. destruct Ho0 as [<-|Ho0]; [exact Logic.I|]. apply F4. exact Ho0.
  Qed.

  Theorem TN : forall pr, Obeys F pr -> WfArgs pr -> TN_at pr.
  Proof.
    induction 1 as [v|e|st q k Hk IHk|c k Hk IHk|st p c f a kw fn k Hfn Hob IHfn Hk IHk|st f a kw fn k Hfn Hob IHfn Hk IHk];
      intro W.
    - apply TN_Ret.
    - apply TN_Raise.
    - inversion W; subst. apply TN_Ask. intro o. apply IHk. auto.
    - inversion W; subst. apply TN_Write. apply IHk. assumption.
    - inversion W; subst. apply TN_BuildFile; auto.
      intros p' a' k' W1 W2. apply IHfn. rewrite <- Hfn. auto.
    - inversion W; subst. apply TN_Subbuild; auto.
      intros a' k' W1 W2. apply IHfn. rewrite <- Hfn. auto.
  Qed.
End Main.

Print Assumptions TN.
