(* Proofs/CoreNextMain.v — the records a Core run produces are traces of the functions that ran (for the
   oracle extended by the final tree), the records it adopts stay deeply faithful. *)
From Coq Require Import List String Ascii NArith ZArith Bool Arith Lia.
From FB.Base Require Import PyVal Fs.
From FB.Gen Require Import JsonUtilGen.
From FB.Spec Require Import JsonSpec Prog Ref Oracle Faithful.
From FB.Model Require Import Types SimpleOps Builder Persist Core CoreOracle CoreCache.
From FB.Proofs Require Import FsLemmas JsonLaws CleanLaws CoreLawsChildren CoreLawsJson CoreLaws1 CoreLaws2 CoreLaws3 CoreLaws4 CoreLaws5
     CoreLaws7 CoreNextDefs CoreNextJson CoreNextMono CoreNextFollows CoreNextRegs CoreNextState CoreNextAux.
Import ListNotations.
Local Open Scope list_scope.

Section Main.
  Variable kp : kappa.
  Variable F : ftable.
  Variable old : cache.
  Variable vers : pyval.
  Variable clock0 : N.
  Hypothesis HR : Respects F.
  Hypothesis HRS : RespectsS F.
  Hypothesis HW : cache_wf old.
  Hypothesis HD : deep_cache kp F old vers.
  Hypothesis HN : kp_new kp clock0.
  Variable T : fsT.

  Let HF : faithful_cache kp F old vers := deep_faithful kp F old vers HW HD.
  Notation KI := (KInv kp old vers clock0).
  Notation kq := (kpx kp T).

  Definition kpd (q : path) (g : fnode) : Prop := forall c, kp q c (cmp_of c g) = Some (f_bytes g).

  (* every visible file is known to the old oracle or sits at a claimed path; stale files are known *)
  Definition NI (s : kstate) : Prop :=
    (forall q g, lookup (k_fs s) q = Some (NFile g) -> kpd q g \/ mem_path q (k_claimedF s) = true) /\
    (forall q g, stale_get (k_stale s) q = Some g -> kpd q g).

  (* the files at claimed paths are those of T *)
  Definition PersT (s : kstate) : Prop :=
    forall q g, mem_path q (k_claimedF s) = true -> lookup (k_fs s) q = Some (NFile g) -> lookup T q = Some (NFile g).

  Lemma NI_ext : forall s s' cF cS D, NI s -> Ext s s' cF cS D -> NI s'.
  Proof.
    intros s s' cF cS D [N1 N2] [[eF [A1 A1']] _ _ _ _ _ A7 A8 _]. split.
    - intros q g Hq. destruct (A7 q g Hq) as [H|[H|H]].
      + destruct (N1 q g H) as [X|X]; [left; exact X|right]. rewrite A1, mem_path_app, X. apply orb_true_r.
      + left. apply N2. exact H.
      + right. rewrite A1, mem_path_app. apply A1' in H. apply mem_path_In in H. rewrite H. reflexivity.
    - intros q g Hq. apply N2. apply A8. exact Hq.
  Qed.

  Lemma PersT_back : forall s s' cF cS D, Ext s s' cF cS D -> PersT s' -> PersT s.
  Proof.
    intros s s' cF cS D [[eF [A1 _]] _ _ _ A5 _ _ _ _] P q g Hq Hl. apply P; [|apply A5; assumption].
    rewrite A1, mem_path_app, Hq. apply orb_true_r.
  Qed.

  Lemma known : forall s, KI s -> NI s -> PersT s -> forall q g,
    lookup (k_fs s) q = Some (NFile g) \/ stale_get (k_stale s) q = Some g -> forall c, kq q c (cmp_of c g) = Some (f_bytes g).
  Proof.
    intros s [_ [_ [K3 _]]] [N1 N2] P q g Hq c. unfold kpx.
    assert (Hd : kpd q g \/ lookup T q = Some (NFile g)).
    { destruct Hq as [Hq|Hq]; [|left; apply N2; exact Hq]. destruct (N1 q g Hq) as [X|X]; [left; exact X|right; apply P; assumption]. }
    destruct Hd as [Hd|Hd]; [rewrite (Hd c); reflexivity|].
    destruct (kp q c (cmp_of c g)) as [x|] eqn:E.
    - f_equal. apply (K3 q g Hq c (cmp_of c g) x E). left. apply cmp_refl.
    - unfold kp_of. rewrite Hd, pyval_same_refl. reflexivity.
  Qed.

  (* the claims [follows] starts with are claimed in the state (keys: those of well-formed arguments) *)
  Definition ClOK (cl : claims) (s : kstate) : Prop :=
    (forall q, mem_path q (fst cl) = true -> mem_path q (k_claimedF s) = true) /\
    (forall f a k, sanitized a = true -> sanitized k = true -> pv_wf a = true -> pv_wf k = true ->
       existsb (py_eq (subbuild_key f a k)) (snd cl) = true -> existsb (py_eq (subbuild_key f a k)) (k_claimedS s) = true).

  Lemma ClOK_ext : forall cl s s' cF cS D, ClOK cl s -> Ext s s' cF cS D -> ClOK (fst cl ++ cF, snd cl ++ cS) s'.
  Proof.
    intros cl s s' cF cS D [C1 C2] [[eF [A1 A1']] [eS [A2 A2']] _ _ _ _ _ _ _]. split; cbn [fst snd].
    - intros q Hq. rewrite mem_path_app in Hq. rewrite A1, mem_path_app. apply orb_true_iff in Hq. destruct Hq as [Hq|Hq].
      + rewrite (C1 q Hq). apply orb_true_r.
      + apply mem_path_In in Hq. apply A1' in Hq. apply mem_path_In in Hq. rewrite Hq. reflexivity.
    - intros f a k S1 S2 W1 W2 Hq. rewrite existsb_app in Hq. rewrite A2, existsb_app. apply orb_true_iff in Hq. destruct Hq as [Hq|Hq].
      + rewrite (C2 f a k S1 S2 W1 W2 Hq). apply orb_true_r.
      + apply existsb_exists in Hq. destruct Hq as [x [Hx Hp]]. apply A2' in Hx.
        assert (existsb (py_eq (subbuild_key f a k)) eS = true) by (apply existsb_exists; eauto). rewrite H. reflexivity.
  Qed.
End Main.
