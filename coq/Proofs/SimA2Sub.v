(* Proofs/SimA2Sub.v — C04, the link to Core, run level: the subbuild node (SimA0.sb_node_statement):
   m_subbuild on the mechanism model against core_sb_node on Core, relative to the two hypotheses
   about cache hits (the decision and the replayed state) and the statement about c_built.

   Parts: (A) the tables of subbuild keys (subs_get / subs_set / ks_get under the key laws);
   (B) along every run the table of the new cache only grows at its end (the entries that exist
   when a run starts are not touched: a claim made further up the call stack survives);
   (C) the node. *)
From Coq Require Import List String Ascii NArith ZArith Bool Arith Lia.
From FB.Base Require Import PyVal Fs.
From FB.Gen Require Import JsonUtilGen.
From FB.Spec Require Import JsonSpec Prog Ref Oracle Faithful.
From FB.Model Require Import Types Monad CreatedFiles BuildDirs SimpleOps Builder Persist Build Run Frame Core CoreOracle.
From FB.Proofs Require Import FsLemmas JsonLaws ReplayLaws CleanLaws BuildFileLaws HashMemoInv HashMemoRun CoreLaws1 CoreLaws2 CoreLaws3
     ViewDefs ViewLemmas ViewFrame ViewInit ViewPres ViewXDefs ViewXFrame ViewXError ViewXQuery ViewXSteps ViewXMake1 ViewXMake2 ViewXFail ViewXSetup ViewXRun
     ViewH7 ViewR1 ViewR2 ViewR3 ViewR9 ViewK1 ViewK2 ViewK3 ViewK4 ViewK5 ViewK7 ViewK8
     SimA0 SimARun SimA1 SimA1Keys SimA1Vlog SimA2Base SimA2 SimA3.
Import ListNotations.
Open Scope list_scope.
Open Scope m_scope.

Local Notation RInv2' := (RInv2 (fun _ => True)).

(* ================================================================== *)
(* (A) tables of subbuild keys                                         *)
(* ================================================================== *)

Definition has_sub (l : list (pyval * option op)) (k : pyval) : bool :=
  match subs_get l k with Some _ => true | None => false end.

Lemma cache_has_subbuild_has : forall c k, cache_has_subbuild c k = has_sub (c_subs c) k.
Proof. reflexivity. Qed.

Lemma subs_get_app : forall l r k,
  subs_get (l ++ r) k = match subs_get l k with Some v => Some v | None => subs_get r k end.
Proof.
  intros l r k. induction l as [|[q v] l IH]; cbn [app subs_get]; [reflexivity|].
  destruct (py_eq q k); [reflexivity|exact IH].
Qed.

Lemma subs_set_app_none : forall l r k v, subs_get l k = None -> subs_set (l ++ r) k v = l ++ subs_set r k v.
Proof.
  intros l r k v. induction l as [|[q x] l IH]; cbn [app subs_get subs_set]; intro H; [reflexivity|].
  destruct (py_eq q k); [discriminate|]. rewrite (IH H). reflexivity.
Qed.

Lemma subs_set_none : forall l k v, subs_get l k = None -> subs_set l k v = l ++ [(k, v)].
Proof.
  intros l k v H. rewrite <- (app_nil_r l) at 1. rewrite (subs_set_app_none l [] k v H). reflexivity.
Qed.

Lemma subs_get_none_all : forall l k, subs_get l k = None -> forall q v, In (q, v) l -> py_eq q k = false.
Proof.
  intros l k. induction l as [|[q0 v0] l IH]; cbn [subs_get]; intros H q v Hin; [destruct Hin|].
  destruct (py_eq q0 k) eqn:E; [discriminate|].
  destruct Hin as [Hin|Hin]; [inversion Hin; subst; exact E|eapply IH; eassumption].
Qed.

Lemma subs_get_some_in : forall l k v, subs_get l k = Some v -> exists q, In (q, v) l /\ py_eq q k = true.
Proof.
  intros l k v. induction l as [|[q0 v0] l IH]; cbn [subs_get]; intro H; [discriminate|].
  destruct (py_eq q0 k) eqn:E.
  - inversion H; subst. exists q0. split; [left; reflexivity|exact E].
  - destruct (IH H) as [q [A B]]. exists q. split; [right; exact A|exact B].
Qed.

Lemma ks_get_app1 : forall l key o k,
  ks_get (l ++ [(key, o)]) k =
  match ks_get l k with Some y => Some y | None => if py_eq key k then Some o else None end.
Proof.
  intros l key o k. induction l as [|[q v] l IH]; cbn [app ks_get]; [reflexivity|].
  destruct (py_eq q k); [reflexivity|exact IH].
Qed.

Lemma KeysSep_app1 : forall l key, KeysSep l ->
  (forall q, In q l -> py_eq q key = false /\ py_eq key q = false) -> KeysSep (l ++ [key]).
Proof.
  induction l as [|q l IH]; intros key H Hk; cbn [app KeysSep].
  - split; [intros q' []|exact I].
  - destruct H as [H1 H2]. split.
    + intros q' Hq. apply in_app_iff in Hq. destruct Hq as [Hq|[<-|[]]]; [apply H1; exact Hq|].
      apply Hk. left. reflexivity.
    + apply IH; [exact H2|]. intros q' Hq. apply Hk. right. exact Hq.
Qed.

(* the key laws (SimA1Keys) *)
Lemma key_refl : forall k, wfkey k -> py_eq k k = true.
Proof. apply key_laws. Qed.
Lemma key_sym : forall k, wfkey k -> forall x, py_eq k x = py_eq x k.
Proof. apply key_laws. Qed.
Lemma key_trans : forall a c, wfkey a -> wfkey c -> forall x, py_eq a x = true -> py_eq c x = true -> py_eq a c = true.
Proof. apply key_laws. Qed.

Lemma wfkey_subbuild_key : forall f a kw sa skw,
  pv_wf a = true -> pv_wf kw = true -> sanitize a = Some sa -> sanitize kw = Some skw ->
  wfkey (subbuild_key f sa skw).
Proof.
  intros f a kw sa skw Wa Wk Sa Sk. exists f, sa, skw. split; [reflexivity|].
  split; [eapply sanitize_sanitized; exact Sa|]. split; [eapply sanitize_sanitized; exact Sk|].
  split; [apply (sanitize_wf a); assumption|apply (sanitize_wf kw); assumption].
Qed.

(* the relation of the two tables (s3_recS) *)
Definition recS_rel (l : list (pyval * option op)) (n : list (pyval * op)) : Prop :=
  forall k, match subs_get l k, ks_get n k with
            | Some (Some o), Some o' => rec_rel o o'
            | Some None, None | None, None => True
            | _, _ => False
            end.

(* ---- the claim: a free key is appended ---- *)
Lemma claim_has : forall l cs key, wfkey key ->
  (forall k, existsb (py_eq k) cs = has_sub l k) ->
  forall k, existsb (py_eq k) (key :: cs) = has_sub (l ++ [(key, None)]) k.
Proof.
  intros l cs key Hw H k. cbn [existsb]. rewrite (H k). unfold has_sub. rewrite subs_get_app.
  rewrite <- (key_sym key Hw k).
  destruct (subs_get l k); [apply orb_true_r|]. cbn [subs_get]. destruct (py_eq key k); reflexivity.
Qed.

Lemma claim_recS : forall l n key, recS_rel l n -> recS_rel (l ++ [(key, None)]) n.
Proof.
  intros l n key H k. specialize (H k). rewrite subs_get_app.
  destruct (subs_get l k) as [v|]; [exact H|]. cbn [subs_get].
  destruct (ks_get n k); [contradiction|]. destruct (py_eq key k); exact I.
Qed.

Lemma claim_sep : forall l key, wfkey key -> subs_get l key = None -> KeysSep (map fst l) ->
  KeysSep (map fst (l ++ [(key, None)])).
Proof.
  intros l key Hw Hn Hs. rewrite map_app. cbn [map fst]. apply KeysSep_app1; [exact Hs|].
  intros q Hq. apply in_map_iff in Hq. destruct Hq as [[q0 v] [E Hin]]. cbn [fst] in E. subst q0.
  pose proof (subs_get_none_all l key Hn q v Hin) as K. split; [exact K|]. rewrite (key_sym key Hw q). exact K.
Qed.

(* ---- the end of the function: the entry of the key (still "in progress") gets its record ---- *)
Lemma subs_get_mid : forall l key v ext k,
  subs_get (l ++ (key, v) :: ext) k =
  match subs_get l k with Some x => Some x | None => if py_eq key k then Some v else subs_get ext k end.
Proof. intros. rewrite subs_get_app. reflexivity. Qed.

Lemma finish_set : forall l key ext v, wfkey key -> subs_get l key = None ->
  subs_set (l ++ (key, None) :: ext) key v = l ++ (key, v) :: ext.
Proof.
  intros l key ext v Hw Hn. rewrite (subs_set_app_none _ _ _ _ Hn). cbn [subs_set].
  rewrite (key_refl key Hw). reflexivity.
Qed.

Lemma finish_has : forall l key ext v v' k,
  has_sub (l ++ (key, v) :: ext) k = has_sub (l ++ (key, v') :: ext) k.
Proof.
  intros. unfold has_sub. rewrite !subs_get_mid. destruct (subs_get l k); [reflexivity|].
  destruct (py_eq key k); reflexivity.
Qed.

Lemma finish_recS : forall l key ext n oo o', wfkey key -> subs_get l key = None ->
  (forall q v, In (q, v) l -> wfkey q) -> rec_rel oo o' ->
  recS_rel (l ++ (key, None) :: ext) n ->
  recS_rel (l ++ (key, Some oo) :: ext) (n ++ [(key, o')]).
Proof.
  intros l key ext n oo o' Hw Hn Hwf Hrel H k. specialize (H k).
  rewrite subs_get_mid in *. rewrite ks_get_app1.
  destruct (subs_get l k) as [x|] eqn:El.
  - (* the first match is an older entry *)
    destruct (ks_get n k) as [y|]; [exact H|].
    destruct (py_eq key k) eqn:Ek; [|exact H]. exfalso.
    destruct (subs_get_some_in l k x El) as [q [Hin Hq]].
    pose proof (key_trans q key (Hwf q x Hin) Hw k Hq Ek) as K.
    rewrite (subs_get_none_all l key Hn q x Hin) in K. discriminate.
  - destruct (py_eq key k).
    + destruct (ks_get n k); [contradiction|exact Hrel].
    + destruct (ks_get n k); exact H.
Qed.

(* ================================================================== *)
(* (B) along a run the table of the new cache grows at its end only    *)
(* ================================================================== *)

Definition sext (w w' : world) : Prop := exists e, c_subs (w_new w') = c_subs (w_new w) ++ e.

Lemma sext_refl : forall w, sext w w.
Proof. intro w. exists []. rewrite app_nil_r. reflexivity. Qed.
Lemma sext_trans : forall a b c, sext a b -> sext b c -> sext a c.
Proof. intros a b c [e1 E1] [e2 E2]. exists (e1 ++ e2). rewrite E2, E1, app_assoc. reflexivity. Qed.
Definition SPO : PO := {| rel := sext; po_refl := sext_refl; po_trans := sext_trans |}.

Lemma new_sext : forall w w', newPO w w' -> SPO w w'.
Proof. cbn. intros w w' (H & _). exists []. rewrite H, app_nil_r. reflexivity. Qed.

Lemma sext_same : forall w w', c_subs (w_new w') = c_subs (w_new w) -> sext w w'.
Proof. intros w w' H. exists []. rewrite H, app_nil_r. reflexivity. Qed.

Lemma sext_set_log : forall l w, sext w (set_log l w).
Proof. intros. apply sext_same. reflexivity. Qed.

#[local] Hint Extern 8 (pres newPO _) => apply (pres_weaken svbPO newPO _ _ svb_new) : pres.
#[local] Hint Extern 9 (pres SPO _) => apply (pres_weaken newPO SPO _ _ new_sext) : pres.
#[local] Hint Resolve new_assert_no_file_svb new_assert_no_subbuild_svb is_cache_file_svb prepare_file_creation_new
  m_bd_started_svb m_bd_error_svb build_file_cache_lookup_svb subbuild_cache_lookup_svb noneable_cmp_svb
  apply_cached_subs_of_new back_up_and_remove_new try_to_remove_file_new : pres.

Lemma new_start_building_file_S : forall p, pres SPO (new_start_building_file p).
Proof.
  intro p. unfold new_start_building_file. pres_auto. apply pres_modify. intro w. apply sext_same. reflexivity.
Qed.
Lemma new_abort_building_file_S : forall p, pres SPO (new_abort_building_file p).
Proof. intro p. unfold new_abort_building_file. apply pres_modify. intro w. apply sext_same. reflexivity. Qed.
Lemma new_finish_building_file_S : forall p o, pres SPO (new_finish_building_file p o).
Proof. intros p o. unfold new_finish_building_file. apply pres_modify. intro w. apply sext_same. reflexivity. Qed.

Definition start_world (k : pyval) (w : world) : world :=
  set_new (cache_with (w_new w) (c_files (w_new w)) (subs_set (c_subs (w_new w)) k None) (c_dirs (w_new w)) (c_built (w_new w))) w.

Lemma new_start_subbuild_free : forall k w, cache_has_subbuild (w_new w) k = false ->
  new_start_subbuild k w = (start_world k w, inl tt).
Proof.
  intros k w H. unfold new_start_subbuild, new_assert_no_subbuild, bind, get, modify. rewrite H. reflexivity.
Qed.

Lemma has_false_none : forall c k, cache_has_subbuild c k = false -> subs_get (c_subs c) k = None.
Proof. intros c k H. unfold cache_has_subbuild in H. destruct (subs_get (c_subs c) k); [discriminate|reflexivity]. Qed.

Lemma start_world_subs : forall k w, cache_has_subbuild (w_new w) k = false ->
  c_subs (w_new (start_world k w)) = c_subs (w_new w) ++ [(k, None)].
Proof. intros k w H. unfold start_world. cbn [w_new set_new c_subs cache_with]. apply subs_set_none. apply has_false_none. exact H. Qed.

Lemma new_start_subbuild_S : forall k, pres SPO (new_start_subbuild k).
Proof.
  intros k w w' r H. destruct (cache_has_subbuild (w_new w) k) eqn:E.
  - unfold new_start_subbuild, new_assert_no_subbuild, bind, get in H. rewrite E in H. cbn in H. inversion H; subst. apply sext_refl.
  - rewrite (new_start_subbuild_free k w E) in H. inversion H; subst. exists [(k, None)]. apply start_world_subs. exact E.
Qed.

(* _use_cached_operation: the keys of the record tree are free in the cache the check looked at *)
Definition cext (c0 c : cache) : Prop := exists e, c_subs c = c_subs c0 ++ e.

Lemma fold_register_ext : forall c0 subs,
  Forall (fun o => forall c, assert_no_repeats c0 o = true -> cext c0 c -> cext c0 (register_op c o)) subs ->
  forallb (assert_no_repeats c0) subs = true ->
  forall c, cext c0 c -> cext c0 (fold_left register_op subs c).
Proof.
  intros c0 subs HF. induction HF as [|s rest Hs HF IH]; intros Hb c Hc; cbn [fold_left]; [exact Hc|].
  cbn [forallb] in Hb. apply andb_true_iff in Hb. destruct Hb as [B1 B2].
  apply IH; [exact B2|]. apply Hs; assumption.
Qed.

Lemma register_op_ext : forall c0 o c, assert_no_repeats c0 o = true -> cext c0 c -> cext c0 (register_op c o).
Proof.
  intros c0. induction o as [q r e | p cm f a k subs r cr ra sf IH | f a k subs r ra sf IH] using op_ind';
    intros c Hb Hc; cbn [register_op assert_no_repeats] in *.
  - exact Hc.
  - apply andb_true_iff in Hb. destruct Hb as [_ B2].
    apply (fold_register_ext c0 subs IH B2). destruct sf; [exact Hc|]. exact Hc.
  - apply andb_true_iff in Hb. destruct Hb as [B1 B2].
    apply (fold_register_ext c0 subs IH B2). destruct sf; [exact Hc|].
    cbn [orb] in B1. apply negb_true_iff in B1. destruct Hc as [e0 E0]. unfold cext. cbn [c_subs cache_with].
    rewrite E0. rewrite (subs_set_app_none _ _ _ _ (has_false_none _ _ B1)). eexists. reflexivity.
Qed.

Lemma new_use_cached_operation_S : forall o, pres SPO (new_use_cached_operation o).
Proof.
  intros o w w' r H. unfold new_use_cached_operation, bind, get in H.
  destruct (assert_no_repeats (w_new w) o) eqn:E.
  - unfold put in H. inversion H; subst. apply (register_op_ext (w_new w) o (w_new w) E). exists []. rewrite app_nil_r. reflexivity.
  - cbn in H. inversion H; subst. apply sext_refl.
Qed.
#[local] Hint Resolve new_start_building_file_S new_abort_building_file_S new_finish_building_file_S
  new_start_subbuild_S new_use_cached_operation_S : pres.

Lemma bf_reuse_S : forall p c f sa skw cached, pres SPO (bf_reuse p c f sa skw cached).
Proof. intros. unfold bf_reuse. pres_auto. Qed.
Lemma bf_claim_S : forall p, pres SPO (bf_claim p).
Proof. intros. unfold bf_claim. pres_auto. Qed.
#[local] Hint Resolve bf_reuse_S bf_claim_S : pres.
Lemma bf_setup_S : forall p c f sa skw, pres SPO (bf_setup p c f sa skw).
Proof. intros. unfold bf_setup. pres_auto. Qed.
Lemma sb_setup_S : forall f sa skw, pres SPO (sb_setup f sa skw).
Proof. intros. unfold sb_setup. cbv zeta. pres_auto. Qed.

Lemma bf_fail_S : forall p c f sa skw subs e, pres SPO (bf_fail p c f sa skw subs e).
Proof.
  intros p c f sa skw subs e w w' r H. unfold bf_fail in H. cbv zeta in H.
  match type of H with (match ?X with _ => _ end) = _ => destruct X as [w1 [u|e1]] eqn:E end;
    inversion H; subst; refine ((_ : pres SPO _) _ _ _ E); pres_auto.
Qed.

Lemma bf_finish_S : forall p c f sa skw res subs, pres SPO (bf_finish p c f sa skw res subs).
Proof.
  intros p c f sa skw res subs w w' r H. unfold bf_finish in H.
  destruct res as [v|e]; [|eapply bf_fail_S; eassumption].
  destruct (sanitize v) as [sv|]; [|eapply bf_fail_S; eassumption].
  destruct (noneable_cmp p c w) as [w4 [cmp|e]] eqn:E.
  - assert (Q : sext w w4) by (apply new_sext, svb_new; exact (noneable_cmp_svb p c w w4 _ E)).
    eapply sext_trans; [exact Q|].
    destruct cmp; try (eapply bf_fail_S; eassumption).
    all: cbv zeta in H;
      match type of H with (match ?X with _ => _ end) = _ => destruct X as [w5 u] eqn:E5 end;
      inversion H; subst; exact (new_finish_building_file_S _ _ _ _ _ E5).
  - assert (Q : sext w w4) by (apply new_sext, svb_new; exact (noneable_cmp_svb p c w w4 _ E)).
    eapply sext_trans; [exact Q|]. eapply bf_fail_S; eassumption.
Qed.

Theorem m_build_file_S : forall p c f a kw (fn : path -> pyval -> pyval -> body),
  (forall sa skw, pres SPO (fn p sa skw)) -> pres SPO (m_build_file p c f a kw fn).
Proof.
  intros p c f a kw fn Hfn w w' r H. rewrite m_build_file_unfold in H.
  destruct (sanitize a) as [sa|]; [|inversion H; subst; apply sext_refl].
  destruct (sanitize kw) as [skw|]; [|inversion H; subst; apply sext_refl].
  destruct (bf_setup p c f sa skw w) as [w1 [[[o|[e o]]|]|e]] eqn:Hs;
    try (inversion H; subst; exact (bf_setup_S _ _ _ _ _ _ _ _ Hs)).
  unfold bf_rebuild in H.
  destruct (fn p sa skw (bf_invoke_world p f sa skw w1)) as [w3 [res subs]] eqn:Ef.
  eapply sext_trans; [exact (bf_setup_S _ _ _ _ _ _ _ _ Hs)|].
  eapply sext_trans; [apply (sext_set_log (LInvoke f (Some p) sa skw :: w_log w1) w1)|].
  eapply sext_trans; [exact (Hfn sa skw _ _ _ Ef)|].
  exact (bf_finish_S _ _ _ _ _ _ _ _ _ _ H).
Qed.

(* ---- the setup of subbuild, by cases ---- *)
Lemma sb_setup_cases : forall f sa skw w w1 r, sb_setup f sa skw w = (w1, r) ->
  (cache_has_subbuild (w_new w) (subbuild_key f sa skw) = true /\ w1 = w /\ r = inr (XRuntime RDupSubbuild)) \/
  (cache_has_subbuild (w_new w) (subbuild_key f sa skw) = false /\
   exists wl x, subbuild_cache_lookup (subbuild_key f sa skw) f w = (wl, x) /\
     match x with
     | inr e => w1 = wl /\ r = inr e
     | inl (Some co) => sb_reuse f sa skw co wl = (w1, r)
     | inl None => w1 = start_world (subbuild_key f sa skw) wl /\ r = inl None
     end).
Proof.
  intros f sa skw w w1 r H. unfold sb_setup in H. cbv zeta in H.
  apply bind_inv in H. destruct H as [[wa [u [E H]]]|[e [E Hr]]].
  2:{ left. unfold new_assert_no_subbuild, bind, get in E.
      destruct (cache_has_subbuild (w_new w) (subbuild_key f sa skw)); cbn in E; inversion E; subst. auto. }
  assert (Hw: wa = w /\ cache_has_subbuild (w_new w) (subbuild_key f sa skw) = false).
  { unfold new_assert_no_subbuild, bind, get in E.
    destruct (cache_has_subbuild (w_new w) (subbuild_key f sa skw)); cbn in E; inversion E; auto. }
  destruct Hw as [-> Hunc]. right. split; [exact Hunc|].
  apply bind_inv in H. destruct H as [[wl [cached [El H]]]|[e [El Hr]]].
  2:{ exists w1, (inr e). split; [exact El|]. split; [reflexivity|exact Hr]. }
  exists wl, (inl cached). split; [exact El|].
  destruct cached as [co|]; [exact H|].
  pose proof (subbuild_cache_lookup_svb _ _ _ _ _ El) as S. apply svb_new in S. destruct S as (N & _).
  assert (Hunc': cache_has_subbuild (w_new wl) (subbuild_key f sa skw) = false) by (rewrite N; exact Hunc).
  unfold bind in H. rewrite (new_start_subbuild_free _ _ Hunc') in H. unfold ret in H. inversion H; subst. auto.
Qed.

Lemma sb_finish_world : forall f sa skw res subs w3 w' r o, sb_finish f sa skw res subs w3 = (w', (r, o)) ->
  exists oo, o = Some oo /\
    w' = set_new (cache_with (w_new w3) (c_files (w_new w3)) (subs_set (c_subs (w_new w3)) (subbuild_key f sa skw) (Some oo))
                             (c_dirs (w_new w3)) (c_built (w_new w3))) w3 /\
    ((exists e, res = inr e /\ r = inr e /\ oo = OSubbuild f sa skw subs PNone true false) \/
     (exists v, res = inl v /\ sanitize v = None /\ r = inr XType /\ oo = OSubbuild f sa skw subs PNone true false) \/
     (exists v sv, res = inl v /\ sanitize v = Some sv /\ r = inl sv /\ oo = OSubbuild f sa skw subs sv false false)).
Proof.
  intros f sa skw res subs w3 w' r o H. unfold sb_finish in H. cbv zeta in H.
  unfold new_finish_subbuild, modify in H.
  destruct res as [v|e].
  - destruct (sanitize v) as [sv|] eqn:Es; inversion H; subst; eexists; (split; [reflexivity|]); (split; [reflexivity|]).
    + right. right. exists v, sv. auto.
    + right. left. exists v. auto.
  - inversion H; subst. eexists. split; [reflexivity|]. split; [reflexivity|]. left. exists e. auto.
Qed.

Theorem m_subbuild_S : forall f a kw (fn : pyval -> pyval -> body),
  (forall sa skw, pres SPO (fn sa skw)) -> pres SPO (m_subbuild f a kw fn).
Proof.
  intros f a kw fn Hfn w w' r H. rewrite m_subbuild_unfold in H.
  destruct (sanitize a) as [sa|]; [|inversion H; subst; apply sext_refl].
  destruct (sanitize kw) as [skw|]; [|inversion H; subst; apply sext_refl].
  destruct (sb_setup f sa skw w) as [w1 [[[o|[e o]]|]|e]] eqn:Hs;
    try (inversion H; subst; exact (sb_setup_S _ _ _ _ _ _ Hs)).
  unfold sb_rebuild in H.
  destruct (fn sa skw (sb_invoke_world f sa skw w1)) as [w3 [res subs]] eqn:Ef.
  destruct (sb_setup_cases _ _ _ _ _ _ Hs) as [(_ & _ & K)|(Hunc & wl & x & El & Hx)]; [discriminate|].
  destruct x as [[co|]|e0].
  - exfalso. unfold sb_reuse in Hx. apply bind_inv in Hx. destruct Hx as [[wd [u [_ Hx]]]|[e [_ Hx]]]; [|discriminate].
    apply bind_inv in Hx. destruct Hx as [[we [u' [_ Hx]]]|[e [_ Hx]]]; [|discriminate].
    destruct u'; inversion Hx.
  - destruct Hx as [-> _].
    pose proof (subbuild_cache_lookup_svb _ _ _ _ _ El) as S. apply svb_new in S. destruct S as (N & _).
    assert (Hunc': cache_has_subbuild (w_new wl) (subbuild_key f sa skw) = false) by (rewrite N; exact Hunc).
    pose proof (start_world_subs _ _ Hunc') as E1. rewrite N in E1.
    pose proof (Hfn sa skw _ _ _ Ef) as [e3 E3]. change (w_new (sb_invoke_world f sa skw (start_world (subbuild_key f sa skw) wl)))
      with (w_new (start_world (subbuild_key f sa skw) wl)) in E3. rewrite E1 in E3.
    destruct r as [r o]. destruct (sb_finish_world _ _ _ _ _ _ _ _ _ H) as (oo & _ & -> & _).
    unfold sext. cbn [w_new set_new c_subs cache_with]. rewrite E3. rewrite <- app_assoc.
    rewrite (subs_set_app_none _ _ _ _ (has_false_none _ _ Hunc)). eexists. reflexivity.
  - destruct Hx as [_ K]. discriminate.
Qed.

Lemma sext_log_answer : forall q r w, sext w (log_answer q r w).
Proof.
  intros q r w. unfold log_answer.
  repeat match goal with |- context [match ?y with _ => _ end] => destruct y end;
    first [apply sext_refl | apply sext_set_log].
Qed.

(* user code and everything it calls *)
Theorem run_S : forall pr target subs, pres SPO (run pr target subs).
Proof.
  induction pr as [v | e | stale q k IH | c k IH | stale p c f a kw fn IHfn k IHk | stale f a kw fn IHfn k IHk];
    intros target subs w w' r H; cbn [run] in H; change (sext w w').
  - inversion H; subst. apply sext_refl.
  - inversion H; subst. apply sext_refl.
  - destruct stale; [eapply IH; eauto|].
    destruct (m_query q w) as [w1 [r1 o]] eqn:E.
    apply m_query_svb in E. apply svb_new, new_sext in E. apply IH in H.
    eapply sext_trans; [exact E|]. eapply sext_trans; [apply sext_log_answer | exact H].
  - destruct target as [t|]; [|eapply IH; eauto].
    destruct (write_file (w_fs w) t c None (N.succ (w_clock w)) (w_nextid w)) as [fs'|e] eqn:E.
    + apply IH in H. eapply sext_trans; [|exact H]. apply sext_same. reflexivity.
    + inversion H; subst. apply sext_refl.
  - destruct stale; [eapply IHk; eauto|].
    match type of H with (let '(_, _) := ?X in _) = _ => destruct X as [w1 [r1 o]] eqn:E end.
    apply m_build_file_S in E.
    + apply IHk in H. eapply sext_trans; [exact E | exact H].
    + intros sa skw. apply IHfn.
  - destruct stale; [eapply IHk; eauto|].
    match type of H with (let '(_, _) := ?X in _) = _ => destruct X as [w1 [r1 o]] eqn:E end.
    apply m_subbuild_S in E.
    + apply IHk in H. eapply sext_trans; [exact E | exact H].
    + intros sa skw. apply IHfn.
Qed.

(* ================================================================== *)
(* (C) the node                                                        *)
(* ================================================================== *)

(* a step that changes only the tables of subbuilds (and the log) *)
Lemma sim3_subs_change : forall W w s w' s',
  Sim3 W w s ->
  (forall a, lookup (view_fs w') a = lookup (view_fs w) a) ->
  w_fs w' = w_fs w -> w_old w' = w_old w -> w_cachefile w' = w_cachefile w ->
  c_files (w_new w') = c_files (w_new w) -> c_fvers (w_new w') = c_fvers (w_new w) ->
  k_fs s' = k_fs s -> k_cachefile s' = k_cachefile s -> k_old s' = k_old s -> k_vers s' = k_vers s ->
  k_claimedF s' = k_claimedF s -> k_newF s' = k_newF s -> k_stale s' = k_stale s ->
  (forall k, existsb (py_eq k) (k_claimedS s') = cache_has_subbuild (w_new w') k) ->
  recS_rel (c_subs (w_new w')) (k_newS s') ->
  vis_log (w_log w') = vis_log (k_log s') ->
  Sim3 W w' s'.
Proof.
  intros W w s w' s' [S1 S2 S3 S4 S5 S6 S7 S8 S9 S10] Hv F1 F2 F3 F4 F5 K1 K2 K3 K4 K5 K6 K7 HcS HrS Hlog.
  constructor.
  - intro p. rewrite (Hv p), K1. apply S1.
  - rewrite K2, F3. exact S2.
  - rewrite K3, F2. exact S3.
  - intro g. rewrite K4. unfold func_version. rewrite F5. apply S4.
  - intro p. rewrite K5. unfold cache_has_file. rewrite F4. apply S5.
  - exact HcS.
  - exact Hlog.
  - intro p. rewrite K6. unfold cache_get_file. rewrite F4. apply S8.
  - exact HrS.
  - intro p. rewrite K7, F1, F2. unfold cache_has_file. rewrite F4. apply S10.
Qed.

Lemma sim4pre_subs_change : forall T W w s w' s',
  Sim4pre T W w s -> Sim3 W w' s' -> RInv2' T w' ->
  k_need s' = k_need s -> k_made s' = k_made s -> k_fs s' = k_fs s ->
  bd_created (w_bd w') = bd_created (w_bd w) -> w_cachefile w' = w_cachefile w ->
  (forall q v, In (q, v) (c_subs (w_new w')) -> wfkey q) ->
  KeysSep (map fst (c_subs (w_new w'))) ->
  (forall q o, In (q, o) (k_newS s') -> wfkey q) ->
  Sim4pre T W w' s'.
Proof.
  intros T W w s w' s' [P1 P2 P3 P4 P5 P6 P7 P8 P9 P10 P11 P12] HS HR K1 K2 K3 B1 C1 Hwf Hsep HnS.
  constructor; try assumption.
  - intro x. rewrite K1. apply P4.
  - intro x. rewrite K2, B1. apply P5.
  - rewrite K3. exact P6.
  - intros t Ht. rewrite K3. apply P7. exact Ht.
  - intros x Hx. rewrite K3. apply P8. rewrite <- C1. exact Hx.
  - intros x Hx. rewrite C1. apply P9. rewrite <- K2. exact Hx.
Qed.

(* ---- the claim of the key when the lookup has missed ---- *)
Lemma sb_claim_sim : forall T W w s f sa skw wl,
  Sim4 T W w s -> wfkey (subbuild_key f sa skw) ->
  cache_has_subbuild (w_new w) (subbuild_key f sa skw) = false ->
  subbuild_cache_lookup (subbuild_key f sa skw) f w = (wl, inl None) ->
  sb_setup f sa skw w = (start_world (subbuild_key f sa skw) wl, inl None) ->
  Sim4 T W (sb_invoke_world f sa skw (start_world (subbuild_key f sa skw) wl)) (core_substart s f sa skw) /\
  w_fs wl = w_fs w /\ w_new wl = w_new w /\ w_old wl = w_old w.
Proof.
  intros T W w s f sa skw wl [[HP HL] [HI [HK HB]]] Hw Hunc El Hs.
  set (key := subbuild_key f sa skw) in *.
  pose proof (s4_rinv _ _ _ _ HP) as HR2. pose proof (RInv2_R' _ _ HR2) as HR. pose proof (RInv_X _ _ HR) as HX.
  pose proof (subbuild_cache_lookup_q _ _ _ _ _ El) as Q.
  destruct (qrel_facts _ _ _ HX Q) as (HXl & Sa & Sv & _).
  pose proof (qrel_RInv _ _ _ Q HR) as HRl.
  pose proof (sv_fs _ _ Sa) as Ffs. pose proof (sv_new _ _ Sa) as Fnew. pose proof (sv_old _ _ Sa) as Fold.
  pose proof (sv_cf _ _ Sa) as Fcf. pose proof (sv_created _ _ Sa) as Fcr.
  assert (Flog: w_log wl = w_log w) by (destruct Sv as (_ & _ & _ & _ & _ & _ & _ & _ & L & _); exact L).
  assert (Hunc': cache_has_subbuild (w_new wl) key = false) by (rewrite Fnew; exact Hunc).
  pose proof (start_world_subs _ _ Hunc') as Esubs. rewrite Fnew in Esubs.
  set (w1 := start_world key wl) in *. set (w2 := sb_invoke_world f sa skw w1).
  assert (N2: w_new w2 = w_new w1) by reflexivity.
  assert (Hview: forall a, lookup (view_fs w2) a = lookup (view_fs w) a).
  { intro a. change (view_fs w2) with (view_fs w1). unfold w1, start_world.
    rewrite (view_subs_change T wl (cache_with (w_new wl) (c_files (w_new wl)) (subs_set (c_subs (w_new wl)) key None)
                                               (c_dirs (w_new wl)) (c_built (w_new wl))) HXl eq_refl a). rewrite (same_view_view_fs _ _ Sa). reflexivity. }
  assert (HS3: Sim3 W w2 (core_substart s f sa skw)).
  { apply (sim3_subs_change W w s); try reflexivity; try assumption.
    - apply (s4_sim _ _ _ _ HP).
    - change (c_files (w_new wl) = c_files (w_new w)). rewrite Fnew. reflexivity.
    - change (c_fvers (w_new wl) = c_fvers (w_new w)). rewrite Fnew. reflexivity.
    - intro k. rewrite N2, cache_has_subbuild_has, Esubs.
      change (k_claimedS (core_substart s f sa skw)) with (key :: k_claimedS s).
      apply claim_has; [exact Hw|]. intro k0. rewrite (s3_claimsS _ _ _ (s4_sim _ _ _ _ HP) k0). reflexivity.
    - rewrite N2, Esubs. change (k_newS (core_substart s f sa skw)) with (k_newS s).
      apply claim_recS. exact (s3_recS _ _ _ (s4_sim _ _ _ _ HP)).
    - change (vis_log (LInvoke f None sa skw :: w_log wl) = vis_log (LInvoke f None sa skw :: k_log s)).
      cbn [vis_log filter]. f_equal. rewrite Flog. exact (s3_log _ _ _ (s4_sim _ _ _ _ HP)). }
  assert (HR21: RInv2' T w1).
  { apply (RInv2_step T T w w1 HR2).
    - destruct HR2 as (_ & _ & HWf & _). apply (sb_setup_gl _ _ _ _ _ _ HWf Hs).
    - unfold w1, start_world. apply subs_change_RInv; [exact HRl|reflexivity]. }
  split; [|split; [exact Ffs|split; [exact Fnew|exact Fold]]].
  split; [split|split; [|split]].
  - apply (sim4pre_subs_change T W w s); try reflexivity; try assumption.
    + apply (RInv2_fields (fun _ => True) T w1); [exact HR21|..]; reflexivity.
    + intros q v Hin. rewrite N2, Esubs in Hin. apply in_app_iff in Hin. destruct Hin as [Hin|[Hin|[]]].
      * apply (s4_subs_wf _ _ _ _ HP q v Hin).
      * inversion Hin; subst. exact Hw.
    + rewrite N2, Esubs. apply claim_sep; [exact Hw|apply has_false_none; exact Hunc|apply (s4_subs_sep _ _ _ _ HP)].
    + apply (s4_newS_wf _ _ _ _ HP).
  - intros x Hx. change (cache_has_file (w_new w2) x) with (cache_has_file (w_new wl) x). rewrite Fnew. apply HL. exact Hx.
  - apply HInv_set_log. apply (sb_setup_B _ _ _ _ _ _ Hs HI).
  - change (old_keys_ok (w_old wl)). rewrite Fold. exact HK.
  - change (Wincl W (c_built (w_new wl))). rewrite Fnew. exact HB.
Qed.

(* ---- the end of the function: the record is entered in both tables ---- *)
Definition finish_world (key : pyval) (oo : op) (w3 : world) : world :=
  set_new (cache_with (w_new w3) (c_files (w_new w3)) (subs_set (c_subs (w_new w3)) key (Some oo))
                      (c_dirs (w_new w3)) (c_built (w_new w3))) w3.

Lemma sb_finish_sim : forall T3 W3 w3 s2 key l ext oo o',
  Sim4 T3 W3 w3 s2 -> wfkey key ->
  c_subs (w_new w3) = l ++ (key, None) :: ext -> subs_get l key = None ->
  rec_rel oo o' ->
  gl walk_fuel w3 (finish_world key oo w3) -> HInv (finish_world key oo w3) ->
  Sim4 T3 W3 (finish_world key oo w3) (core_subreg s2 key o').
Proof.
  intros T3 W3 w3 s2 key l ext oo o' [[HP HL] [HI [HK HB]]] Hw E3 Hn Hrel G HI1.
  pose proof (s4_rinv _ _ _ _ HP) as HR2. pose proof (RInv2_R' _ _ HR2) as HR. pose proof (RInv_X _ _ HR) as HX.
  set (w1 := finish_world key oo w3) in *.
  assert (Esubs: c_subs (w_new w1) = l ++ (key, Some oo) :: ext).
  { unfold w1, finish_world. cbn [w_new set_new c_subs cache_with]. rewrite E3. apply finish_set; assumption. }
  assert (Hlwf: forall q v, In (q, v) l -> wfkey q).
  { intros q v Hin. apply (s4_subs_wf _ _ _ _ HP q v). rewrite E3. apply in_or_app. left. exact Hin. }
  assert (HS3: Sim3 W3 w1 (core_subreg s2 key o')).
  { apply (sim3_subs_change W3 w3 s2); try reflexivity.
    - apply (s4_sim _ _ _ _ HP).
    - intro k. rewrite cache_has_subbuild_has, Esubs. change (k_claimedS (core_subreg s2 key o')) with (k_claimedS s2).
      rewrite (s3_claimsS _ _ _ (s4_sim _ _ _ _ HP) k). rewrite cache_has_subbuild_has, E3. apply finish_has.
    - rewrite Esubs. change (k_newS (core_subreg s2 key o')) with (k_newS s2 ++ [(key, o')]).
      apply finish_recS; try assumption.
      rewrite <- E3. exact (s3_recS _ _ _ (s4_sim _ _ _ _ HP)).
    - exact (s3_log _ _ _ (s4_sim _ _ _ _ HP)). }
  split; [split|split; [|split]].
  - apply (sim4pre_subs_change T3 W3 w3 s2); try reflexivity; try assumption.
    + apply (RInv2_step T3 T3 w3 w1 HR2 G). unfold w1, finish_world. apply subs_change_RInv; [exact HR|reflexivity].
    + intros q v Hin. rewrite Esubs in Hin. apply in_app_iff in Hin. destruct Hin as [Hin|[Hin|Hin]].
      * apply (Hlwf q v Hin).
      * inversion Hin; subst. exact Hw.
      * apply (s4_subs_wf _ _ _ _ HP q v). rewrite E3. apply in_or_app. right. right. exact Hin.
    + rewrite Esubs. pose proof (s4_subs_sep _ _ _ _ HP) as K. rewrite E3 in K.
      rewrite map_app in *. exact K.
    + intros q o Hin. change (k_newS (core_subreg s2 key o')) with (k_newS s2 ++ [(key, o')]) in Hin.
      apply in_app_iff in Hin. destruct Hin as [Hin|[Hin|[]]].
      * apply (s4_newS_wf _ _ _ _ HP q o Hin).
      * inversion Hin; subst. exact Hw.
  - intros x Hx. change (cache_has_file (w_new w1) x) with (cache_has_file (w_new w3) x). apply HL. exact Hx.
  - exact HI1.
  - exact HK.
  - exact HB.
Qed.

(* ---- nothing happened ---- *)
Lemma node_post_same : forall st tg pend T W w s r o o',
  Sim4 T W w s -> Ctx4 st tg pend w -> orec_rel o o' -> node_post st tg pend W w w r o s r o'.
Proof.
  intros st tg pend T W w s r o o' HS HC Ho. exists T, W. split; [exact HS|]. split; [exact HC|].
  split; [intros; reflexivity|]. split; [reflexivity|]. split; [exact Ho|]. split; [apply Wincl_refl|reflexivity].
Qed.

Lemma rec_rel_SB_ret : forall o f sa skw subs' ret' ra sf,
  rec_rel o (OSubbuild f sa skw subs' ret' ra sf) -> op_ret o = ret'.
Proof.
  intros o f sa skw subs' ret' ra sf H. destruct o as [q r e|p c f0 a k subs r cr ra0 sf0|f0 a k subs r ra0 sf0];
    cbn [rec_rel] in H; try contradiction.
  destruct H as (_ & _ & _ & _ & E & _). exact E.
Qed.

Section Node.
  Variable ok : cache -> Prop.
  Hypothesis HBuilt : built_statement.
  Hypothesis HLook : sblookup_agree_hyp_for ok.
  Hypothesis HHit : sbhit_agree_hyp_for ok.

  Lemma sb_setup_built : forall f sa skw w w' r, sb_setup f sa skw w = (w', r) -> c_built (w_new w') = c_built (w_new w).
  Proof. destruct HBuilt as (_ & _ & _ & _ & _ & B & _). exact B. Qed.

  Theorem sb_node_proof : sb_node_statement_for ok.
  Proof.
    intros st f a kw fn T W w s tg pend w1 r o Hokc Wa Wk Hbody HS HC Hm s1 r' o' Hc.
    pose proof HS as [[HP HL] [HI [HK HB]]].
    pose proof (s4_sim _ _ _ _ HP) as HS3. pose proof (s4_rinv _ _ _ _ HP) as HR2.
    (* facts about the whole node, on the mechanism side *)
    assert (HI1: HInv w1).
    { apply (m_subbuild_HInv f a kw (fun sa skw w' => run (fn sa skw) None [] w') w w1 (r, o)); [|exact Hm|exact HI|exact HK].
      intros sa skw w2 w3 r0 Hi2 Hk2 E. apply (run_HInv (fn sa skw) None [] w2 w3 r0 Hi2 Hk2); [|exact E].
      intros t Et. discriminate. }
    assert (HO1: w_old w1 = w_old w).
    { refine (m_subbuild_O f a kw (fun sa skw w' => run (fn sa skw) None [] w') _ w w1 _ Hm).
      intros sa skw. apply run_O. }
    assert (HT1: TSA tg w1).
    { apply (TSA_call tg w w1 HK); [|apply (c4_tsa _ _ _ _ HC)].
      intros t Et. refine (m_subbuild_P t f a kw (fun sa skw w' => run (fn sa skw) None [] w') _ w w1 _ Hm).
      intros sa skw. apply (run_P t (fn sa skw) None []). discriminate. }
    rewrite m_subbuild_unfold in Hm. unfold core_sb_node in Hc.
    destruct (sanitize a) as [sa|] eqn:Sa.
    2:{ inversion Hm; inversion Hc; subst. apply (node_post_same st tg pend T W); [exact HS|exact HC|exact I]. }
    destruct (sanitize kw) as [skw|] eqn:Sk.
    2:{ inversion Hm; inversion Hc; subst. apply (node_post_same st tg pend T W); [exact HS|exact HC|exact I]. }
    cbv zeta in Hc.
    pose proof (wfkey_subbuild_key f a kw sa skw Wa Wk Sa Sk) as Hw.
    pose proof (sanitize_sanitized _ _ Sa) as Ssa. pose proof (sanitize_sanitized _ _ Sk) as Sskw.
    pose proof (sanitize_wf _ _ Wa Sa) as Wsa. pose proof (sanitize_wf _ _ Wk Sk) as Wskw.
    rewrite (s3_claimsS _ _ _ HS3 (subbuild_key f sa skw)) in Hc.
    destruct (sb_setup f sa skw w) as [w1' r1] eqn:Hs.
    destruct (sb_setup_cases _ _ _ _ _ _ Hs) as [(Hdup & -> & ->)|(Hunc & wl & x & El & Hx)].
    - (* the key is claimed: RuntimeError on both sides *)
      rewrite Hdup in Hc. inversion Hm; inversion Hc; subst.
      apply (node_post_same st tg pend T W); [exact HS|exact HC|apply orec_rel_refl].
    - rewrite Hunc in Hc.
      destruct x as [cached|e]; [|exfalso; exact (proj2 (noraise_holds (fun _ => True) T w HR2) _ _ _ _ El)].
      pose proof (HLook st T W w s f sa skw wl cached Hokc HS (c4_prog _ _ _ _ HC) Ssa Sskw Wsa Wskw Hunc El) as Hdec.
      destruct cached as [co|].
      + (* the lookup found a record *)
        destruct (core_subhit s f (subbuild_key f sa skw)) as [[[subs' ret'] rr]|] eqn:Eh.
        2:{ exfalso. destruct Hdec as [_ D]. discriminate (D eq_refl). }
        destruct (HHit st T W w s f sa skw wl co w1' r1 subs' ret' rr Hokc HS (c4_prog _ _ _ _ HC) Ssa Sskw Wsa Wskw Hunc El Eh Hx)
          as (o0 & T' & -> & Hrel & HS' & Hprog & Hfiles & Hold).
        inversion Hm; subst w1' r o. inversion Hc; subst s1 r' o'.
        exists T', W. split; [|split; [|split; [|split; [|split; [|split]]]]].
        * split; [exact HS'|]. split; [exact HI1|]. split; [rewrite Hold; exact HK|].
          rewrite (sb_setup_built _ _ _ _ _ _ Hs). exact HB.
        * apply (ctx4_restore st tg pend w w1 HC Hprog); [|exact HT1].
          intros y Hy. apply Hfiles. apply (c4_prog _ _ _ _ HC). exact Hy.
        * intros y Hy. apply Hfiles. apply (c4_prog _ _ _ _ HC). exact Hy.
        * f_equal. apply (rec_rel_SB_ret _ _ _ _ _ _ _ _ Hrel).
        * exact Hrel.
        * apply Wincl_refl.
        * exact Hold.
      + (* the lookup missed: the function runs *)
        destruct Hx as [-> ->].
        destruct (core_subhit s f (subbuild_key f sa skw)) as [[[subs' ret'] rr]|] eqn:Eh.
        { exfalso. destruct Hdec as [D _]. discriminate (D eq_refl). }
        unfold sb_rebuild in Hm.
        destruct (run (fn sa skw) None [] (sb_invoke_world f sa skw (start_world (subbuild_key f sa skw) wl))) as [w3 [res l3]] eqn:Er.
        destruct (core_run (fn sa skw) None None [] (core_substart s f sa skw)) as [s2 [[res' pend3] l3']] eqn:Ec.
        destruct (sb_claim_sim T W w s f sa skw wl HS Hw Hunc El Hs) as (HS2 & Ffs & Fnew & Fold).
        set (key := subbuild_key f sa skw) in *.
        set (w2 := sb_invoke_world f sa skw (start_world key wl)) in *.
        assert (HC2: Ctx4 st None None w2).
        { constructor.
          - intro y. rewrite <- (c4_prog _ _ _ _ HC y). unfold inprog.
            change (c_files (w_new w2)) with (c_files (w_new wl)). rewrite Fnew. reflexivity.
          - intros p Ep. discriminate.
          - exact I.
          - intros y Hy. change (w_fs w2) with (w_fs wl). rewrite Ffs. apply (c4_nodir _ _ _ _ HC y Hy).
          - intros t Et. discriminate. }
        assert (Hold2: w_old w2 = w_old w) by exact Fold.
        destruct (Hbody sa skw T W w2 (core_substart s f sa skw) w3 res l3 s2 res' pend3 l3' Hold2 HS2 HC2 Er Ec)
          as (T3 & W3 & HS3' & HC3 & Hfr & <- & Hrecs & HWi & Hold3).
        (* the claim of the key is still the entry made before the function started *)
        assert (Hunc': cache_has_subbuild (w_new wl) key = false) by (rewrite Fnew; exact Hunc).
        pose proof (start_world_subs _ _ Hunc') as E2. rewrite Fnew in E2.
        destruct (run_S (fn sa skw) None [] w2 w3 _ Er) as [ext E3].
        change (c_subs (w_new w2)) with (c_subs (w_new (start_world key wl))) in E3. rewrite E2, <- app_assoc in E3.
        cbn [app] in E3.
        pose proof (sb_finish_gl walk_fuel _ _ _ _ _ _ _ _ Hm) as G.
        destruct (sb_finish_world _ _ _ _ _ _ _ _ _ Hm) as (oo & -> & Ew1 & Hcases).
        fold key in Ew1. fold (finish_world key oo w3) in Ew1. subst w1.
        assert (Hrel: rec_rel oo (sub_rec f sa skw l3' res) /\ r = sub_out res).
        { unfold sub_rec, sub_out. destruct Hcases as [(e & -> & -> & ->)|[(v & -> & Ev & -> & ->)|(v & sv & -> & Ev & -> & ->)]].
          - split; [apply rec_rel_SB; exact Hrecs|reflexivity].
          - rewrite Ev. split; [apply rec_rel_SB; exact Hrecs|reflexivity].
          - rewrite Ev. split; [apply rec_rel_SB; exact Hrecs|reflexivity]. }
        destruct Hrel as [Hrel Hr].
        inversion Hc; subst s1 r' o'.
        assert (Hprog: forall y, inprog (finish_world key oo w3) y <-> inprog w y).
        { intro y. rewrite (c4_prog _ _ _ _ HC y). rewrite <- (c4_prog _ _ _ _ HC3 y). reflexivity. }
        assert (Hfiles: forall y, In y st -> lookup (w_fs (finish_world key oo w3)) y = lookup (w_fs w) y).
        { intros y Hy. change (w_fs (finish_world key oo w3)) with (w_fs w3).
          rewrite (Hfr y Hy) by discriminate. change (w_fs w2) with (w_fs wl). rewrite Ffs. reflexivity. }
        exists T3, W3. split; [|split; [|split; [|split; [|split; [|split]]]]].
        * apply (sb_finish_sim T3 W3 w3 s2 key (c_subs (w_new w)) ext oo); try assumption.
          apply has_false_none. exact Hunc.
        * apply (ctx4_restore st tg pend w _ HC Hprog Hfiles HT1).
        * exact Hfiles.
        * exact Hr.
        * exact Hrel.
        * exact HWi.
        * exact HO1.
  Qed.
End Node.

Theorem sb_node_for : forall ok, built_statement -> sblookup_agree_hyp_for ok -> sbhit_agree_hyp_for ok -> sb_node_statement_for ok.
Proof. exact sb_node_proof. Qed.

Theorem sb_node : built_statement -> sblookup_agree_hyp -> sbhit_agree_hyp -> sb_node_statement.
Proof. exact (sb_node_for (fun _ => True)). Qed.

Print Assumptions sb_node.
