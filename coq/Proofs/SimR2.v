(* Proofs/SimR2.v — old_ok of the cache the next build reads (SimN3.next_old_ok_statement), as far as
   the run invariants go.
   Facts about a committed fault-free build under SideH (SimM6), all from existing invariants
   (SimD1.Committed: DInv, EInv.bdZ, RInv) and the new SimR1.run_keys:
     [created_dirs_are_ancestors]  every directory listed by the committed cache (c_dirs, = bd_created
                                   at the end of the run) is a proper ancestor of a target of this
                                   build, of the cache file or of a target recorded in the previous cache;
     [created_keys_are_targets]    every key of the file table of the committed cache is a target of
                                   this build or a target recorded in the previous cache;
     [built_are_targets]           every path in c_built of the committed cache is a target of this build.
   Condition A (sh_below) separates the directories from the outputs that are targets of this build.
   What it does not separate: an output ADOPTED from the previous cache (registered by a hit, not
   rebuilt, not a target of this build) that is a proper ancestor of a target: [AdoptedApart] says
   there is none.  It holds in a first build [adopted_apart_first] and whenever the adopted outputs
   are regular files of the tree the build started in [adopted_apart_of_files] (a hit compares the
   file: this is where the decision mechanism would come in; not proved here).
     [out_dirs_partial]        SimN3.OutDirs from AdoptedApart;
     [out_dirs_first]          SimN3.OutDirs of a first build, outright;
     [next_old_ok_first]       SimN3.next_old_ok_statement restricted to first builds, outright;
     [next_old_ok_partial2]    old_ok of the cache read next from AdoptedApart alone (fs_wf by SimP1);
     [mech_chain_hash_ok]      the chain: old_ok is assumed of NO cache (SideH of every build, the
                               first included, is assumed only UNDER old_ok of the cache it reads);
                               instead AdoptedApart of every build after the first that has a successor;
     [adopted_apart_statement] what remains.
   New file; edits nothing. *)
From Coq Require Import List String Ascii NArith ZArith Bool Arith Lia Permutation.
From FB.Base Require Import PyVal Fs.
From FB.Gen Require Import JsonUtilGen.
From FB.Spec Require Import JsonSpec Prog Ref Oracle Faithful.
From FB.Model Require Import Types Monad CreatedFiles BuildDirs SimpleOps Builder PathNorm Persist PersistSpec Build Run Frame Core CoreOracle.
From FB.Proofs Require Import FsLemmas JsonLaws PersistLaws ReplayLaws BuildFileLaws
     ViewDefs ViewLemmas ViewInit ViewR2 ViewR3 SimA0 SimC0
     RollbackDirsLaws RollbackDirsBase RollbackDirsInv CommitDirsInv CommitDirsMain
     CacheRTDefs CacheRTLaws CacheRTTables CacheRTForest CacheRTOpen CacheRTMain
     SimD1 SimD4 SimF8 SimJ4 SimM5 SimM6 SimN1 SimN2 SimN3 SimP1 SimR1.
Import ListNotations.
Open Scope list_scope.

(* ------------------------------------------------------------------ paths *)
Lemma below_cons_r : forall a x b, below a b = true -> below a (x :: b) = true.
Proof. intros a x b H. cbn [below]. rewrite H. apply orb_true_r. Qed.

Lemma below_app : forall l a, l <> [] -> below a (l ++ a) = true.
Proof.
  induction l as [|n l IH]; intros a H; [contradiction|].
  destruct l as [|m l'].
  - cbn [app]. apply RollbackDirsLaws.below_self_cons.
  - change ((n :: m :: l') ++ a) with (n :: ((m :: l') ++ a)). apply below_cons_r. apply IH. discriminate.
Qed.

(* ------------------------------------------------------------------ the committed build *)
Lemma sideH_committed : forall cf nm b, SideH cf nm b -> WfCache (b_old cf nm b) ->
  exists wfin w1 w2 x, b_w' b = end_build wfin /\
    Committed (w_fs (b_w b)) (b_old cf nm b) cf (b_P b) (b_root b) (b_w b) nm (b_svers b) wfin (b_v b) w1 w2 x.
Proof.
  intros cf nm b S HW.
  exact (run_build_committed cf nm (b_vers b) (b_svers b) (b_root b) (b_w b) (b_w' b) (b_v b) (b_P b)
              (sh_faults _ _ _ S) (sh_vers _ _ _ S) (sh_atP _ _ _ S) (sh_wf _ _ _ S) (sh_below _ _ _ S) (sh_dirs _ _ _ S)
              HW (sh_ok _ _ _ S) (sh_Pt _ _ _ S) (run_build_cf_nodir _ _ _ _ _ _ _ _ (sh_vers _ _ _ S) (sh_run _ _ _ S))
              (sh_len _ _ _ S) (sh_pok _ _ _ S) (sh_vdir _ _ _ S) (sh_run _ _ _ S)).
Qed.

Definition TgtB (cf : path) (nm : string) (b : bstep) (t : path) : Prop :=
  b_P b t \/ t = cf \/ In t (cache_targets (b_old cf nm b)).

Theorem created_dirs_are_ancestors : forall cf nm b, SideH cf nm b -> WfCache (b_old cf nm b) ->
  forall d, In d (c_dirs (w_new (b_w' b))) -> exists t, TgtB cf nm b t /\ below d t = true.
Proof.
  intros cf nm b S HW d Hd.
  destruct (sideH_committed cf nm b S HW) as (wfin & w1 & w2 & x & Ew & HC).
  assert (En : w_new (b_w' b) = w_new wfin) by (rewrite Ew; reflexivity).
  rewrite En in Hd.
  apply (cm_dirs _ _ _ _ _ _ _ _ _ _ _ _ _ HC) in Hd.
  destruct (cm_einv _ _ _ _ _ _ _ _ _ _ _ _ _ HC) as (_ & (Z1 & _) & _).
  destruct (cm_dinv _ _ _ _ _ _ _ _ _ _ _ _ _ HC) as (_ & _ & _ & _ & D5).
  destruct (D5 d (Z1 d Hd)) as (_ & t & Ht & Hb).
  exists t. split; [exact Ht | exact Hb].
Qed.

Theorem created_keys_are_targets : forall cf nm b, SideH cf nm b -> WfCache (b_old cf nm b) ->
  forall a, cache_has_file (w_new (b_w' b)) a = true -> b_P b a \/ In a (cache_targets (b_old cf nm b)).
Proof.
  intros cf nm b S HW a Ha.
  destruct (sideH_committed cf nm b S HW) as (wfin & w1 & w2 & x & Ew & HC).
  assert (En : w_new (b_w' b) = w_new wfin) by (rewrite Ew; reflexivity).
  rewrite En in Ha.
  destruct (cm_new _ _ _ _ _ _ _ _ _ _ _ _ _ HC) as [Ef _].
  unfold cache_has_file in Ha. rewrite Ef in Ha.
  pose proof (make_dirs_new _ _ _ _ (cm_mk _ _ _ _ _ _ _ _ _ _ _ _ _ HC)) as (N1 & O1 & _).
  refine (run_keys (b_old cf nm b) (b_P b) (b_root b) None [] _ w2 _ (sh_atP _ _ _ S)
            (cm_run _ _ _ _ _ _ _ _ _ _ _ _ _ HC) _ _ a Ha).
  - cbn [w_old set_log]. rewrite O1. reflexivity.
  - intro p. cbn [w_new set_log]. rewrite N1. reflexivity.
Qed.

Theorem built_are_targets : forall cf nm b, SideH cf nm b -> WfCache (b_old cf nm b) ->
  forall a, In a (c_built (w_new (b_w' b))) -> b_P b a.
Proof.
  intros cf nm b S HW a Ha.
  destruct (sideH_committed cf nm b S HW) as (wfin & w1 & w2 & x & Ew & HC).
  assert (En : w_new (b_w' b) = w_new wfin) by (rewrite Ew; reflexivity).
  rewrite En in Ha.
  destruct (cm_new _ _ _ _ _ _ _ _ _ _ _ _ _ HC) as [_ Eb]. rewrite Eb in Ha.
  destruct (cm_rinv _ _ _ _ _ _ _ _ _ _ _ _ _ HC) as (_ & _ & _ & _ & _ & _ & _ & I5 & _).
  destruct (I5 a Ha) as (_ & Y & _). exact Y.
Qed.

(* ------------------------------------------------------------------ OutDirs *)
(* no output adopted from the previous cache (not rebuilt, not a target of this build) is a proper
   ancestor of a target *)
Definition AdoptedApart (cf : path) (nm : string) (b : bstep) : Prop :=
  forall a t, cache_created_file (w_new (b_w' b)) a = true -> ~ In a (c_built (w_new (b_w' b))) ->
    In a (cache_targets (b_old cf nm b)) -> ~ b_P b a ->
    TgtB cf nm b t -> below a t = true -> False.

Lemma created_has : forall c a, cache_created_file c a = true -> cache_has_file c a = true.
Proof.
  intros c a H. unfold cache_created_file, cache_get_file in H. unfold cache_has_file.
  destruct (files_get (c_files c) a); [reflexivity | discriminate H].
Qed.

Theorem out_dirs_partial : forall cf nm b, SideH cf nm b -> WfCache (b_old cf nm b) ->
  AdoptedApart cf nm b -> OutDirs b.
Proof.
  intros cf nm b S HW HA a d Ha Hd Hsuf. destruct Hsuf as [l El].
  destruct (created_dirs_are_ancestors cf nm b S HW d Hd) as (t & Ht & Hb).
  assert (Hat : below a t = true).
  { subst d. destruct l as [|n l]; [exact Hb|].
    exact (RollbackDirsLaws.below_trans a _ t (below_app (n :: l) a ltac:(discriminate)) Hb). }
  destruct (sh_below _ _ _ S a t Ht Hat) as [_ HnP].
  destruct (created_keys_are_targets cf nm b S HW a (created_has _ _ Ha)) as [X|X]; [exact (HnP X)|].
  refine (HA a t Ha _ X HnP Ht Hat).
  intro Y. exact (HnP (built_are_targets cf nm b S HW a Y)).
Qed.

Lemma b_old_first : forall cf nm b, lookup (w_fs (b_w b)) cf = None -> b_old cf nm b = empty_cache nm (b_svers b).
Proof. intros cf nm b Hnone. unfold b_old, old_cache_of. rewrite Hnone. reflexivity. Qed.

Lemma adopted_apart_first : forall cf nm b, lookup (w_fs (b_w b)) cf = None -> AdoptedApart cf nm b.
Proof.
  intros cf nm b Hnone a t _ _ Hin. rewrite (b_old_first cf nm b Hnone) in Hin. destruct Hin.
Qed.

Lemma adopted_apart_of_files : forall cf nm b, SideH cf nm b ->
  (forall a, cache_created_file (w_new (b_w' b)) a = true -> ~ In a (c_built (w_new (b_w' b))) ->
     In a (cache_targets (b_old cf nm b)) -> exists g, lookup (w_fs (b_w b)) a = Some (NFile g)) ->
  AdoptedApart cf nm b.
Proof.
  intros cf nm b S H a t Ha Hnb Hin _ Ht Hb.
  destruct (sh_below _ _ _ S a t Ht Hb) as [Hnf _]. destruct (H a Ha Hnb Hin) as [g Hg]. exact (Hnf g Hg).
Qed.

Theorem out_dirs_first : forall cf nm b, lookup (w_fs (b_w b)) cf = None -> SideH cf nm b -> OutDirs b.
Proof.
  intros cf nm b Hnone S. apply (out_dirs_partial cf nm b S).
  - rewrite (b_old_first cf nm b Hnone). split; [intros p rec H0; discriminate | intros k rec H0; discriminate].
  - exact (adopted_apart_first cf nm b Hnone).
Qed.

Theorem next_fs_wf : forall cf nm b, SideH cf nm b -> fs_wf (w_fs (b_w' b)).
Proof. intros cf nm b S. exact (run_build_wf _ _ _ _ _ _ _ (sh_wf _ _ _ S) (sh_run _ _ _ S)). Qed.

(* SimN3.next_old_ok_statement for first builds *)
Theorem next_old_ok_first : forall cf nm b, lookup (w_fs (b_w b)) cf = None -> SideH cf nm b ->
  fs_wf (w_fs (b_w' b)) /\ OutDirs b.
Proof. intros cf nm b Hnone S. split; [exact (next_fs_wf cf nm b S) | exact (out_dirs_first cf nm b Hnone S)]. Qed.

(* ------------------------------------------------------------------ old_ok of the cache read next *)
Theorem next_old_ok_partial2 : forall cf nm b b',
  SideH cf nm b -> CacheOkH cf nm b ->
  path_wf cf = true -> prog_paths_wf (b_root b) -> Written cf nm (w_fs (b_w b)) ->
  lookup (w_fs (b_w b')) cf = lookup (w_fs (b_w' b)) cf ->
  AdoptedApart cf nm b ->
  old_ok (b_old cf nm b') cf.
Proof.
  intros cf nm b b' S HC Hcf Hroot HWr Hsame HA.
  apply (next_old_ok_partial cf nm b b' S HC Hcf Hroot HWr Hsame).
  - exact (next_fs_wf cf nm b S).
  - destruct HC as (_ & HW & _). exact (out_dirs_partial cf nm b S HW HA).
Qed.

Lemma old_ok_first : forall cf nm b, lookup (w_fs (b_w b)) cf = None -> old_ok (b_old cf nm b) cf.
Proof.
  intros cf nm b Hnone. rewrite (b_old_first cf nm b Hnone).
  split.
  - cbn. constructor.
  - cbn. intro H. exact H.
  - intros a d _ H. cbn in H. destruct H.
Qed.

(* ------------------------------------------------------------------ the chain *)
Fixpoint chainR (cf : path) (nm : string) (b : bstep) (l : list bstep) : Prop :=
  match l with
  | [] => True
  | b' :: r =>
      lookup (w_fs (b_w b')) cf = lookup (w_fs (b_w' b)) cf /\
      (w_clock (b_w' b) <= w_clock (b_w b'))%N /\
      (old_ok (b_old cf nm b') cf -> SideH cf nm b') /\ prog_paths_wf (b_root b') /\
      (r <> [] -> AdoptedApart cf nm b') /\ chainR cf nm b' r
  end.

Theorem mech_chain_fromR : forall cf nm l b, path_wf cf = true ->
  SideH cf nm b -> prog_paths_wf (b_root b) -> CacheOkH cf nm b -> Written cf nm (w_fs (b_w b)) ->
  (l <> [] -> AdoptedApart cf nm b) ->
  chainR cf nm b l -> Forall (good cf nm) (b :: l).
Proof.
  intros cf nm l. induction l as [|b' r IH]; intros b Hcf S Hroot HC HWr HA Hch.
  - constructor; [exact (side_goodH cf nm b S HC)|constructor].
  - destruct Hch as (Hsame & Hclk & S' & Hroot' & HA' & Hr). constructor; [exact (side_goodH cf nm b S HC)|].
    destruct (mech_stepN cf nm b b' S HC Hcf Hroot HWr Hsame Hclk) as [HC' HWr'].
    assert (HA0 : AdoptedApart cf nm b) by (apply HA; discriminate).
    exact (IH b' Hcf (S' (next_old_ok_partial2 cf nm b b' S HC Hcf Hroot HWr Hsame HA0)) Hroot' HC' HWr' HA' Hr).
Qed.

(* the first build finds no cache file; old_ok is assumed of no cache *)
Theorem mech_chain_hash_ok : forall cf nm l b, path_wf cf = true ->
  lookup (w_fs (b_w b)) cf = None ->
  (old_ok (b_old cf nm b) cf -> SideH cf nm b) -> prog_paths_wf (b_root b) ->
  chainR cf nm b l -> Forall (good cf nm) (b :: l).
Proof.
  intros cf nm l b Hcf Hnone S Hroot Hch.
  exact (mech_chain_fromR cf nm l b Hcf (S (old_ok_first cf nm b Hnone)) Hroot (CacheOkH_first cf nm b Hnone)
           (or_introl Hnone) (fun _ => adopted_apart_first cf nm b Hnone) Hch).
Qed.

(* two successive builds, the first without a cache file: nothing is assumed about adopted outputs *)
Corollary mech_two_builds_ok : forall cf nm b b', path_wf cf = true ->
  lookup (w_fs (b_w b)) cf = None ->
  (old_ok (b_old cf nm b) cf -> SideH cf nm b) -> prog_paths_wf (b_root b) ->
  lookup (w_fs (b_w b')) cf = lookup (w_fs (b_w' b)) cf -> (w_clock (b_w' b) <= w_clock (b_w b'))%N ->
  (old_ok (b_old cf nm b') cf -> SideH cf nm b') -> prog_paths_wf (b_root b') ->
  good cf nm b /\ good cf nm b'.
Proof.
  intros cf nm b b' Hcf Hnone S Hroot Hsame Hclk S' Hroot'.
  assert (Hch : chainR cf nm b [b']).
  { cbn [chainR]. split; [exact Hsame|]. split; [exact Hclk|]. split; [exact S'|]. split; [exact Hroot'|].
    split; [|exact I]. intro X. exfalso. apply X. reflexivity. }
  pose proof (mech_chain_hash_ok cf nm [b'] b Hcf Hnone S Hroot Hch) as F.
  inversion F as [|? ? G1 F']; subst. inversion F' as [|? ? G2 ?]; subst. split; assumption.
Qed.

(* ------------------------------------------------------------------ what remains *)
(* the corrected remainder of SimN3.next_old_ok_statement: its fs_wf half is [next_fs_wf]; its OutDirs
   half is [out_dirs_partial] applied to this.  It is a statement about the decision mechanism: a record
   is registered by a hit only after the file of every output it lists was compared, so an adopted
   output is a regular file of the tree the build started in ([adopted_apart_of_files]). *)
Definition adopted_apart_statement : Prop :=
  forall cf nm b, SideH cf nm b -> CacheOkH cf nm b -> AdoptedApart cf nm b.

Theorem next_old_ok_from_adopted : adopted_apart_statement -> next_old_ok_statement.
Proof.
  intros H cf nm b S HC _ _ _. split; [exact (next_fs_wf cf nm b S)|].
  destruct HC as (Hokc & HW & HC3). exact (out_dirs_partial cf nm b S HW (H cf nm b S (conj Hokc (conj HW HC3)))).
Qed.

Print Assumptions created_dirs_are_ancestors.
Print Assumptions created_keys_are_targets.
Print Assumptions out_dirs_partial.
Print Assumptions next_old_ok_first.
Print Assumptions next_old_ok_partial2.
Print Assumptions mech_chain_hash_ok.
Print Assumptions mech_two_builds_ok.
Print Assumptions next_old_ok_from_adopted.
