(* Proofs/CoreNextDefs.v — definitions for "faithfulness is an invariant across builds":
   the extended content oracle, the deep form of faithfulness (every nested record is a
   trace of its own function), and the records that Spec/Faithful.v's [follows] does not
   cover ([tame] = covered).  Definitions only. *)
From Coq Require Import List String Ascii NArith ZArith Bool Arith Lia.
From FB.Base Require Import PyVal Fs.
From FB.Gen Require Import JsonUtilGen.
From FB.Spec Require Import JsonSpec Prog Ref Oracle Faithful.
From FB.Model Require Import Types SimpleOps Builder Persist Core CoreOracle CoreCache.
From FB.Proofs Require Import CoreLaws4 CoreLaws7.
Import ListNotations.
Local Open Scope list_scope.

(* ------------------------------------------------------------------ *)
(* the oracle after a build: what it said before, else what the tree T holds *)
(* ------------------------------------------------------------------ *)
Definition kpx (kp : kappa) (T : fsT) : kappa := fun p c r =>
  match kp p c r with Some x => Some x | None => kp_of T p c r end.

Definition kp_le (kp kp' : kappa) : Prop := forall p c r x, kp p c r = Some x -> kp' p c r = Some x.

(* the oracle is defined on every regular file of fs, for the comparison result the file has *)
Definition kp_def (kp : kappa) (fs : fsT) : Prop :=
  forall p f c, lookup fs p = Some (NFile f) -> kp p c (cmp_of c f) = Some (f_bytes f).

(* no regular file of fs is newer than [clock] *)
Definition files_old (fs : fsT) (clock : N) : Prop :=
  forall p f, lookup fs p = Some (NFile f) -> (f_mtime f <= clock)%N.

(* ------------------------------------------------------------------ *)
(* records covered by [follows]                                       *)
(* ------------------------------------------------------------------ *)
(* [follows] gives up (None) in three situations that Core can produce:
   - a nested record of a setup failure;
   - a build_file call whose target is an ancestor of a target claimed earlier in the same trace
     (possible in Core when that earlier target failed and its directories were pruned);
   - the end of a build_file function with targets claimed below its own path, none of which is an output.
   [tame cl o]: none of these occurs in o, [cl] being the targets claimed before o in the trace. *)
Fixpoint tame (cl : list path) (o : op) {struct o} : bool :=
  let go :=
    fix go (subs : list op) (cl : list path) {struct subs} : bool :=
      match subs with
      | [] => true
      | x :: rest => tame cl x && go rest (cl ++ fst (tree_claims x))
      end in
  match o with
  | OSimple _ _ _ => true
  | OBuildFile p _ _ _ _ subs _ _ _ sf =>
      negb sf && negb (existsb (is_ancestor p) cl) && go subs (cl ++ [p]) &&
      (negb (existsb (is_ancestor p) (fst (cll subs))) || existsb (is_ancestor p) (flat_map tree_outputs subs))
  | OSubbuild _ _ _ subs _ _ sf => negb sf && go subs cl
  end.

Fixpoint tame_list (subs : list op) (cl : list path) {struct subs} : bool :=
  match subs with
  | [] => true
  | x :: rest => tame cl x && tame_list rest (cl ++ fst (tree_claims x))
  end.

(* [free eF eS o]: no target inside o is in eF or an ancestor of a path of eF, no subbuild key inside o is
   (Python-)equal to a key of eS: what [follows] checks against the claims it starts with *)
Fixpoint free (eF : list path) (eS : list pyval) (o : op) {struct o} : bool :=
  match o with
  | OSimple _ _ _ => true
  | OBuildFile p _ _ _ _ subs _ _ _ _ =>
      negb (mem_path p eF) && negb (existsb (is_ancestor p) eF) && forallb (free eF eS) subs
  | OSubbuild f a k subs _ _ _ =>
      negb (existsb (py_eq (subbuild_key f a k)) eS) && forallb (free eF eS) subs
  end.

(* ------------------------------------------------------------------ *)
(* deep faithfulness                                                  *)
(* ------------------------------------------------------------------ *)
(* the record itself (unless raised / setup failure) is a trace of its function — a subbuild record for every
   JSON-equal presentation of its arguments — and so is every record nested in it; the arguments recorded for
   subbuild calls are sanitized, well-formed values *)
Fixpoint dfaith (kp : kappa) (F : ftable) (o : op) {struct o} : Prop :=
  let all :=
    fix all (subs : list op) {struct subs} : Prop :=
      match subs with
      | [] => True
      | x :: rest => dfaith kp F x /\ all rest
      end in
  match o with
  | OSimple _ _ _ => True
  | OBuildFile p c f a k subs ret_ cmpres raised sf =>
      (raised = true \/ sf = true \/ faithful_op kp F o = true) /\ all subs
  | OSubbuild f a k subs ret_ raised sf =>
      (sanitized a = true /\ sanitized k = true /\ pv_wf a = true /\ pv_wf k = true) /\
      (raised = true \/ sf = true \/
       forall sa skw, sanitized sa = true -> sanitized skw = true -> is_equal a sa = true -> is_equal k skw = true ->
         faithful_sub_at kp F o sa skw = true) /\ all subs
  end.

Fixpoint dfaith_list (kp : kappa) (F : ftable) (subs : list op) : Prop :=
  match subs with
  | [] => True
  | x :: rest => dfaith kp F x /\ dfaith_list kp F rest
  end.

(* the invariant form of [faithful_cache]: every registered record that could be served is deeply faithful *)
Definition deep_cache (kp : kappa) (F : ftable) (old : cache) (vers : pyval) : Prop :=
  (forall p o, files_get (c_files old) p = Some (Some o) ->
     op_raised o = false -> replayable old vers o = true -> dfaith kp F o) /\
  (forall key o, subs_get (c_subs old) key = Some (Some o) ->
     op_raised o = false -> replayable old vers o = true -> dfaith kp F o).

(* every record of the cache that could be served is covered by [follows] *)
Definition cache_tame (c : cache) (vers : pyval) : Prop :=
  (forall p o, files_get (c_files c) p = Some (Some o) -> op_raised o = false -> replayable c vers o = true -> tame [] o = true) /\
  (forall key o, subs_get (c_subs c) key = Some (Some o) -> op_raised o = false -> replayable c vers o = true -> tame [] o = true).

(* subbuild functions do not distinguish JSON-equal arguments (the cache identity of a subbuild call is its key) *)
Definition RespectsS (F : ftable) : Prop :=
  forall f a a' k k', is_equal a a' = true -> is_equal k k' = true -> ft_sub F f a k = ft_sub F f a' k'.

(* the values handed to subbuild calls are well-formed (floats in normal form): with these JSON equality is
   transitive, so a call that is not a duplicate stays one for every presentation of the claimed keys *)
Inductive WfArgs : prog -> Prop :=
| Wa_Ret : forall v, WfArgs (Ret v)
| Wa_Raise : forall e, WfArgs (Raise e)
| Wa_Ask : forall s q k, (forall o, WfArgs (k o)) -> WfArgs (Ask s q k)
| Wa_Write : forall c k, WfArgs k -> WfArgs (Write c k)
| Wa_BuildFile : forall s p c f a kw fn k,
    pv_wf a = true -> pv_wf kw = true ->
    (forall p' a' k', pv_wf a' = true -> pv_wf k' = true -> WfArgs (fn p' a' k')) ->
    (forall o, WfArgs (k o)) -> WfArgs (BuildFile s p c f a kw fn k)
| Wa_Subbuild : forall s f a kw fn k,
    pv_wf a = true -> pv_wf kw = true ->
    (forall a' k', pv_wf a' = true -> pv_wf k' = true -> WfArgs (fn a' k')) ->
    (forall o, WfArgs (k o)) -> WfArgs (Subbuild s f a kw fn k).
