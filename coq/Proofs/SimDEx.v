(* Proofs/SimDEx.v — validation by evaluation of the statements of SimD3 / SimD4 on the example
   histories (SimCEx.Ex: four builds; SimAEx.Ex: first builds and rebuilds after r2 / r6, with
   failing nested calls; ViewK3.Check: the CacheRTEx history):
   [commit_view]: the tree after a committed build is the view of the world in which the root
   function returned, at every path except the cache file (SimD3.commit_is_view);
   [end_inv]: the two invariants EndInv assumes at the end of the run (CfListed, ErrDead).
   Note (r1, r5 after r2): error_created_dirs does contain directories of the pre-state -- a dead
   directory is "created" again --, so ErrDead cannot be replaced by "error-created directories
   are new". *)
From Coq Require Import List String Ascii NArith ZArith Bool Arith Lia.
From FB.Base Require Import PyVal Fs.
From FB.Gen Require Import JsonUtilGen.
From FB.Spec Require Import JsonSpec Prog Ref Oracle Faithful.
From FB.Model Require Import Types Monad CreatedFiles BuildDirs SimpleOps Builder Persist Build Run Frame Dsl Core CoreOracle.
From FB.Proofs Require Import FsLemmas ViewDefs ViewK2 ViewK3 SimA0 SimAEx SimB1 SimC0 SimCEx.
Import ListNotations.
Open Scope string_scope. Open Scope list_scope.

Definition commit_view (cf : path) (nm : string) (vers : pyval) (root : prog) (w : world) : bool * string :=
  match mech_root cf nm vers root w with
  | Some (_, (w2, (r, _))) =>
      let '(w', res) := run_build cf nm vers root w in
      let ps := map fst (w_fs w') ++ map fst (w_fs w2) in
      (forallb (fun p => path_eqb p cf || node_sameb (lookup (w_fs w') p) (lookup (view_fs w2) p)) ps, show_result res)
  | None => (false, "")
  end.

Definition end_inv (cf : path) (nm : string) (vers : pyval) (root : prog) (w : world) : bool * bool :=
  match mech_root cf nm vers root w with
  | Some (_, (w2, (r, _))) =>
      (mem_path cf (bd_removed_files (w_bd w2)) || isfile (w_fs w2) cf,
       forallb (fun d => negb (mem_path d (c_dirs (w_old w2)) && isdir (w_fs w) d && isdir (w_fs w2) d) || dead w2 d)
               (bd_err_created (w_bd w2)))
  | None => (false, false)
  end.

Example ex_commit_view :
  map (commit_view SimCEx.Ex.CF "n" SimCEx.Ex.V SimCEx.Ex.root) [SimCEx.Ex.w0; SimCEx.Ex.w1; SimCEx.Ex.w2'; SimCEx.Ex.w3]
  = [(true, "ok:'linked'"); (true, "ok:'linked'"); (true, "ok:'linked'"); (true, "ok:'linked'")].
Proof. vm_compute. reflexivity. Qed.

Example ex_end_inv :
  map (end_inv SimCEx.Ex.CF "n" SimCEx.Ex.V SimCEx.Ex.root) [SimCEx.Ex.w0; SimCEx.Ex.w1; SimCEx.Ex.w2'; SimCEx.Ex.w3]
  = [(true, true); (true, true); (true, true); (true, true)].
Proof. vm_compute. reflexivity. Qed.

Import SimAEx.Ex.

(* r2x is rolled back (the tree is the pre-state: C02); every committed build satisfies the equation *)
Example ax_commit_view :
  (map (fun r => fst (commit_view CF0 "n" (PDict []) r init_world)) [r1;r2;r3;r4;r5;r6],
   map (fun r => fst (commit_view CF0 "n" (PDict []) r w_r2)) [r1;r2;r3;r4;r5;r6],
   map (fun r => fst (commit_view CF0 "n" (PDict []) r w_r6)) [r1;r2;r3;r4;r5;r6])
  = ([true;true;true;true;true;true], [true;true;true;true;true;true], [true;true;true;true;true;true]).
Proof. vm_compute. reflexivity. Qed.

Example ax_end_inv :
  (forallb (fun r => let x := end_inv CF0 "n" (PDict []) r init_world in fst x && snd x) [r1;r2;r2x;r3;r4;r5;r6] &&
   forallb (fun r => let x := end_inv CF0 "n" (PDict []) r w_r2 in fst x && snd x) [r1;r2;r2x;r3;r4;r5;r6] &&
   forallb (fun r => let x := end_inv CF0 "n" (PDict []) r w_r6 in fst x && snd x) [r1;r2;r2x;r3;r4;r5;r6])%bool = true.
Proof. vm_compute. reflexivity. Qed.

(* error_created_dirs with directories of the pre-state: r1 after r2 *)
Example err_created_old_dir :
  match mech_root CF0 "n" (PDict []) r1 w_r2 with
  | Some (_, (w2, _)) => existsb (fun d => isdir (w_fs w_r2) d) (bd_err_created (w_bd w2))
  | None => false
  end = true.
Proof. vm_compute. reflexivity. Qed.

Example kx_commit_view :
  map (commit_view ViewK3.Check.CF0 "n" ViewK3.Check.V ViewK3.Check.root) [init_world; ViewK3.Check.pre2; fst ViewK3.Check.h2]
  = [(true, "ok:N"); (true, "ok:N"); (true, "ok:N")].
Proof. vm_compute. reflexivity. Qed.

Example kx_end_inv :
  map (end_inv ViewK3.Check.CF0 "n" ViewK3.Check.V ViewK3.Check.root) [init_world; ViewK3.Check.pre2; fst ViewK3.Check.h2]
  = [(true, true); (true, true); (true, true)].
Proof. vm_compute. reflexivity. Qed.
