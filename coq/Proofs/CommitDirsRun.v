(* Proofs/CommitDirsRun.v — user code keeps the commit-side invariant [EInv] of
   CommitDirsInv (together with [FInv]): the architecture of RollbackDirsRun over the
   preorder [GPO t]. *)
From Coq Require Import List String Ascii NArith ZArith Bool Arith Lia.
From FB.Base Require Import PyVal Fs.
From FB.Gen Require Import JsonUtilGen.
From FB.Spec Require Import Prog.
From FB.Model Require Import Types Monad CreatedFiles BuildDirs SimpleOps Builder Persist Build Run Frame.
From FB.Proofs Require Import FsLemmas ReplayLaws FrameLaws CleanLaws BuildFileLaws RollbackDirsLaws
  RollbackDirsView RollbackDirsBase RollbackDirsInv RollbackDirsMake RollbackDirsRun CommitDirsInv.
Import ListNotations.
Local Open Scope list_scope.

#[local] Hint Resolve m_handle_dir_exists_view m_is_removed_view is_file_no_read_view is_cache_file_view
  file_metadata_view file_hash_view list_dir_superset_view file_comparison_result_view
  m_is_file_view m_is_dir_view m_exists_view exec_query_view noneable_cmp_view version_equal_view
  is_build_file_cached_view dirs_to_make_view is_op_cached_view are_subs_cached_view
  build_file_cache_lookup_view subbuild_cache_lookup_view
  new_assert_no_file_view new_assert_no_subbuild_view m_query_view : pres.

(* the virtual view denies a regular file that is really there only for the cache file, a
   path claimed and in progress, and an output of the previous build that the new cache
   does not hold *)
Lemma m_is_file_false_cases2 : forall a w w', m_is_file a None w = (w', inl false) ->
  isfile (w_fs w) a = true ->
  a = w_cachefile w \/ pending (w_new w) a \/
  (cache_has_file (w_new w) a = false /\ cache_created_file (w_old w) a = true).
Proof.
  intros a w w' H Hf. unfold m_is_file in H.
  apply bind_inv in H. destruct H as [(w1 & x & E1 & H) | (e & E1 & H)]; [|discriminate H].
  unfold is_file_no_read in E1. cbn [cf_has_file cf_has_dir] in E1.
  destruct (path_eqb a (w_cachefile w)) eqn:G1.
  { left. apply path_eqb_eq. exact G1. }
  destruct (cache_has_file (w_new w) a) eqn:G2.
  { unfold cache_get_file in E1. unfold cache_has_file in G2.
    destruct (files_get (c_files (w_new w)) a) as [[o|]|] eqn:G3; try discriminate G2.
    - inversion E1; subst. unfold bind at 1, get in H. rewrite Hf in H.
      apply bind_inv in H. destruct H as [(w2 & y & E2 & H) | (e & E2 & H)]; [inversion H | discriminate H].
    - right; left. exact G3. }
  destruct (cache_created_file (w_old w) a) eqn:G3; [right; right; split; reflexivity|].
  inversion E1; subst. unfold bind at 1, get in H. rewrite Hf in H.
  apply bind_inv in H. destruct H as [(w2 & y & E2 & H) | (e & E2 & H)]; [inversion H | discriminate H].
Qed.

Section RunG.

Variable fs0 : fsT.
Variable old : cache.
Variable cf : path.
Variable P : path -> Prop.
Variable X : list path.

Hypothesis HypA : forall a t, Tgt old cf P t -> below a t = true -> ~ P a.
Hypothesis HS : forall a t, Tgt old cf P t -> below a t = true -> notorig fs0 a.

Notation RI := (RInv fs0 old cf P).
Notation AT := (AncT old cf P).
Notation TG := (Tgt old cf P).
Notation DI := (DInv fs0 old cf P).
Notation FI := (FInv fs0 old cf P X).
Notation EI := (EInv fs0 old cf P).
Notation WP := (Wp fs0 old).
Notation FP := (FPO fs0 old cf P X).
Notation GP := (GPO fs0 old cf P X).
Notation GR := (GRel fs0 old cf P X).

Lemma G_view : forall t Y (m : world -> world * Y), pres viewPO m -> pres (GP t) m.
Proof.
  intros t Y m H. apply G_lift; [apply (F_view fs0 old cf P X); exact H|].
  intros w w' r E _ Ew _ _. apply (ekeep_E fs0 old cf P); [|exact Ew]. apply view_ekeep. exact (H _ _ _ E).
Qed.
Hint Extern 8 (pres (GPO _ _ _ _ _ _) _) => apply G_view : pres.

Lemma G_ekeep : forall t Y (m : world -> world * Y), pres (FP t) m -> pres ekeepPO m -> pres (GP t) m.
Proof.
  intros t Y m H1 H2. apply G_lift; [exact H1|].
  intros w w' r E _ Ew _ _. apply (ekeep_E fs0 old cf P); [|exact Ew]. exact (H2 _ _ _ E).
Qed.

Lemma GRel_set_log : forall t l w, GR t w (set_log l w).
Proof.
  intros t l w. apply GRel_of; [apply FRel_set_log|]. intros _ Ew _ _.
  apply (ekeep_E fs0 old cf P); [|exact Ew]. apply ekeep_same; reflexivity.
Qed.

Lemma GRel_log_answer : forall t q r w, GR t w (log_answer q r w).
Proof.
  intros t q r w. apply GRel_of; [apply FRel_log_answer|]. intros _ Ew _ _.
  apply (ekeep_E fs0 old cf P); [|exact Ew]. unfold log_answer.
  repeat match goal with |- context [match ?x with _ => _ end] => destruct x end;
    first [apply ekeep_refl | apply ekeep_same; reflexivity].
Qed.

(* ---- the BuildDirs bookkeeping ---- *)
Lemma EInv_bd : forall w b, EI w -> bdZ b -> EI (set_bd b w) /\ stable w (set_bd b w).
Proof.
  intros w b (Z1 & _ & XB & XS & X6) HZ. split; [|apply stable_same; reflexivity].
  unfold EInv. cbn [w_new w_bd set_bd]. split; [exact Z1|]. split; [exact HZ|]. split; [exact XB|]. split; [exact XS | exact X6].
Qed.

Lemma m_bd_error_G : forall t p, pres (GP t) (m_bd_error p).
Proof.
  intros t p. apply G_lift; [apply m_bd_error_F|].
  intros w w' r H _ Ew _ _. unfold m_bd_error in H.
  destruct (bd_error (w_bd w) p) as [b|] eqn:E; inversion H; subst; clear H.
  - apply EInv_bd; [exact Ew|]. destruct Ew as (_ & HZ & _). eapply bd_error_Z; eauto.
  - split; [exact Ew | apply stable_refl].
Qed.

(* ---- the new cache ---- *)
Lemma ekeep_newfields : forall w c', c_files c' = c_files (w_new w) -> c_built c' = c_built (w_new w) ->
  c_dirs c' = c_dirs (w_new w) -> ekeep w (set_new c' w).
Proof.
  intros w c' E1 E2 E3. unfold ekeep. cbn [w_new w_backups w_bd set_new]. rewrite E1, E2, E3.
  repeat (split; [reflexivity|]). split; [|repeat split]. intros q g. cbn [w_fs set_new]. tauto.
Qed.

Lemma new_start_subbuild_G : forall t k, pres (GP t) (new_start_subbuild k).
Proof.
  intros t k. apply G_ekeep; [apply new_start_subbuild_F|].
  unfold new_start_subbuild. apply pres_bind; [apply pres_view_ekeep; auto with pres|]. intros _.
  apply pres_modify. intro w. apply ekeep_newfields; reflexivity.
Qed.

Lemma new_finish_subbuild_G : forall t k o, pres (GP t) (new_finish_subbuild k o).
Proof.
  intros t k o. apply G_ekeep; [apply new_finish_subbuild_F|].
  unfold new_finish_subbuild.
  apply pres_modify. intro w. apply ekeep_newfields; reflexivity.
Qed.

(* a world that differs from w only in the entries of the new cache *)
Lemma EInv_new : forall w c', EI w -> RI w ->
  c_built c' = c_built (w_new w) -> c_dirs c' = c_dirs (w_new w) ->
  (forall q, cache_has_file (w_new w) q = true -> files_get (c_files c') q = files_get (c_files (w_new w)) q) ->
  (forall q o, cache_has_file (w_new w) q = false -> cache_get_file c' q = Some o -> TG q) ->
  EI (set_new c' w) /\ stable w (set_new c' w).
Proof.
  intros w c' (Z1 & HZ & XB & XS & X6) Hr Eb Ed Hk Hnew.
  pose proof Hr as (_ & _ & _ & I1 & _ & _ & I4 & I5 & _).
  split; [|intros q Hq; cbn [w_new set_new]; apply Hk; exact Hq].
  unfold EInv, XBc, XSc, X6c. cbn [w_new w_bd w_fs w_backups set_new]. rewrite Eb, Ed.
  split; [exact Z1|]. split; [exact HZ|]. split; [|split; [|exact X6]].
  - intros p o Ho Hb. destruct (I5 p Hb) as (Hh & _). apply (XB p o); [|exact Hb].
    unfold cache_get_file in *. rewrite <- (Hk p Hh). exact Ho.
  - intros p o Ho Hb Hc g. destruct (cache_has_file (w_new w) p) eqn:Eh.
    + apply (XS p o); auto. unfold cache_get_file in *. rewrite <- (Hk p Eh). exact Ho.
    + pose proof (Hnew p o Eh Ho) as Ht. split.
      * intro Hg. destruct (I4 p g Hg) as [Y|Y]; [exact Y | contradiction].
      * intro Ho'. destruct (I1 p g Ho') as [Y|Y]; [exact Y|]. exfalso.
        destruct (X6 p g Y) as [Z|[Z|(_ & q & Z1' & Z2)]]; [contradiction | contradiction|].
        exact (HypA q p Ht Z2 Z1').
Qed.

Lemma new_use_cached_operation_G : forall t o, (forall q, In q (op_targets o) -> TG q) ->
  pres (GP t) (new_use_cached_operation o).
Proof.
  intros t o Ht. apply G_lift; [apply new_use_cached_operation_F|].
  intros w w' r H [Hr _] Ew _ _. unfold new_use_cached_operation in H. unfold bind at 1, get in H.
  destruct (assert_no_repeats (w_new w) o) eqn:Ea.
  - unfold put in H. inversion H; subst; clear H.
    apply EInv_new; auto.
    + apply register_op_built.
    + apply register_op_cdirs.
    + intros q Hq. eapply register_op_keeps_entry; eauto.
    + intros q o' Hq Ho'. apply Ht. destruct (in_dec path_eq_dec q (op_targets o)) as [Y|Y]; [exact Y|exfalso].
      unfold cache_get_file in Ho'. rewrite (register_op_notin q o (w_new w) Y) in Ho'.
      unfold cache_has_file in Hq. destruct (files_get (c_files (w_new w)) q); congruence.
  - inversion H; subst. split; [exact Ew | apply stable_refl].
Qed.

(* ================================================================== *)
(* 1. _make_dirs + started_building_file                               *)
(* ================================================================== *)

Definition make_lock (p : path) : M (list path) :=
  bind (make_dirs (dirname p)) (fun created => bind (m_bd_started p created) (fun l => ret l)).

Lemma make_lock_assoc : forall p A (k : list path -> M A) w,
  bind (make_dirs (dirname p)) (fun created => bind (m_bd_started p created) k) w = bind (make_lock p) k w.
Proof.
  intros p A k w. unfold make_lock, bind. destruct (make_dirs (dirname p) w) as [w1 [c|e]]; [|reflexivity].
  destruct (m_bd_started p c w1) as [w2 [l|e]]; reflexivity.
Qed.

Lemma make_lock_G : forall t p, TG p -> pres (GP t) (make_lock p).
Proof.
  intros t p Ht. apply G_lift.
  - unfold make_lock. apply (make_lock_F fs0 old cf P HypA X); [exact Ht|]. intro l. apply pres_ret.
  - intros w w' r H [Hr _] Ew Tw _. unfold make_lock in H.
    apply bind_inv in H. destruct H as [(w1 & ds & E1 & H) | (e & E1 & _)].
    + pose proof (make_dirs_ekeep fs0 old cf P HypA HS p _ _ _ E1 Ht Hr) as K1.
      destruct (ekeep_E fs0 old cf P _ _ K1 Ew) as [Ew1 S1].
      apply bind_inv in H. destruct H as [(w2 & l & E2 & H) | (e & E2 & _)].
      * inversion H; subst w2; clear H. unfold m_bd_started in E2.
        destruct (bd_started (w_bd w1) p ds) as [b l'] eqn:Eb. inversion E2; subst.
        destruct (EInv_bd w1 b Ew1) as [Ew2 S2].
        { destruct Ew1 as (_ & HZ & _). eapply bd_started_Z; eauto. }
        split; [exact Ew2 | eapply stable_trans; eauto].
      * exfalso. unfold m_bd_started in E2. destruct (bd_started (w_bd w1) p ds). discriminate E2.
    + pose proof (make_dirs_ekeep fs0 old cf P HypA HS p _ _ _ E1 Ht Hr) as K1.
      exact (ekeep_E fs0 old cf P _ _ K1 Ew).
Qed.

(* ================================================================== *)
(* 2. Moving a file to the backup area                                 *)
(* ================================================================== *)

Lemma backup_E : forall a w w' r, back_up_and_remove a w = (w', r) -> w_faults w = [] ->
  isdir (w_fs w) a = false -> EI w -> (forall p, In p (c_built (w_new w)) -> p <> cf) ->
  (forall f, lookup (w_fs w) a = Some (NFile f) ->
     (a = cf \/ cache_get_file (w_new w) a = None) /\
     (In a (c_built (w_new w)) \/ a = cf \/ (cache_created_file old a = true /\ exists q, P q /\ below q a = true))) ->
  EI w' /\ stable w w'.
Proof.
  intros a w w' r H Hf Hd (Z1 & HZ & XB & XS & X6) I5 Hc.
  pose proof (back_up_dkeep _ _ _ _ H Hd) as (Kb & _ & _).
  destruct (back_up_spec _ _ _ _ H Hf Hd) as (_ & _ & _ & F4 & [(f & _ & G1 & G2 & G3 & G4) | (G1 & G2 & _)]).
  - destruct (Hc f G1) as [C1 C2].
    split; [|apply stable_same; rewrite F4; reflexivity].
    unfold EInv, XBc, XSc, X6c. rewrite F4, Kb, G4.
    split; [exact Z1|]. split; [exact HZ|]. split; [|split].
    + intros p o Ho Hb. assert (Np : p <> a).
      { intro E. subst p. destruct C1 as [C1|C1]; [|congruence].
        exact (I5 a Hb C1). }
      pose proof (XB p o Ho Hb) as Y. unfold isfile in *. rewrite (G3 p Np). exact Y.
    + intros p o Ho Hb Hcf g. assert (Np : p <> a).
      { intro E. subst p. destruct C1 as [C1|C1]; congruence. }
      rewrite (G3 p Np). exact (XS p o Ho Hb Hcf g).
    + intros p g Hp. apply in_app_or in Hp. destruct Hp as [Hp|[Hp|[]]]; [exact (X6 p g Hp)|].
      inversion Hp; subst. exact C2.
  - split; [|apply stable_same; rewrite F4; reflexivity].
    unfold EInv, XBc, XSc, X6c. rewrite F4, Kb, G1, G2. exact (conj Z1 (conj HZ (conj XB (conj XS X6)))).
Qed.

Lemma built_not_cf : forall w, RI w -> forall p, In p (c_built (w_new w)) -> p <> cf.
Proof. intros w (_ & _ & _ & _ & _ & _ & _ & I5 & _) p Hp. exact (proj2 (proj2 (I5 p Hp))). Qed.

Lemma get_none_of_pending : forall c a, pending c a -> cache_get_file c a = None.
Proof. intros c a H. unfold pending in H. unfold cache_get_file. rewrite H. reflexivity. Qed.

Lemma get_none_of_free : forall c a, cache_has_file c a = false -> cache_get_file c a = None.
Proof.
  intros c a H. unfold cache_has_file in H. unfold cache_get_file.
  destruct (files_get (c_files c) a); [discriminate H | reflexivity].
Qed.

(* ================================================================== *)
(* 3. _make_room                                                       *)
(* ================================================================== *)

Lemma make_room_G : forall t p0, P p0 -> forall fuel d, WP d -> d = p0 \/ below p0 d = true ->
  pres (GP t) (make_room fuel d).
Proof.
  intros t p0 HP0. induction fuel as [|fuel IH]; intros d Hw Hd; cbn [make_room]; [apply pres_raise|].
  apply pres_bind; [apply pres_get|]. intro w0.
  destruct (listdir (w_fs w0) d) as [names|e]; [|apply pres_raise].
  apply pres_bind.
  - apply pres_mapM_. intro n.
    assert (Hb : below p0 (n :: d) = true).
    { destruct Hd as [->|Hd]; [apply below_self_cons | apply below_cons; exact Hd]. }
    intros w w' r H. change (GR t w w'). unfold bind at 1, get in H.
    destruct (isdir (w_fs w) (n :: d)) eqn:Ed.
    + apply bind_inv in H. destruct H as [(w1 & vd & E1 & H) | (e & E1 & _)].
      2:{ exact (G_view t _ _ (m_is_dir_view _ _) _ _ _ E1). }
      pose proof (G_view t _ _ (m_is_dir_view _ _) _ _ _ E1) as R1. change (GR t w w1) in R1.
      destruct vd; [inversion H; subst; exact R1|].
      intros Fw Ew Tw Gw.
      pose proof (Wp_of_virtual_absent fs0 old cf P X _ _ _ (proj2 Fw) E1) as Hwa.
      pose proof (IH (n :: d) Hwa (or_intror Hb) _ _ _ H) as R2. change (GR t w1 w') in R2.
      exact (GRel_trans fs0 old cf P X t _ _ _ R1 R2 Fw Ew Tw Gw).
    + apply bind_inv in H. destruct H as [(w1 & vf & E1 & H) | (e & E1 & _)].
      2:{ exact (G_view t _ _ (m_is_file_view _ _) _ _ _ E1). }
      pose proof (G_view t _ _ (m_is_file_view _ _) _ _ _ E1) as R1. change (GR t w w1) in R1.
      destruct vf; [inversion H; subst; exact R1|].
      pose proof (m_is_file_view _ _ _ _ _ E1) as V1.
      assert (Ffs : w_fs w1 = w_fs w) by (destruct V1 as ((F & _) & _); exact F).
      assert (Fnew : w_new w1 = w_new w) by (destruct V1 as ((_ & _ & _ & _ & F & _) & _); exact F).
      intros Fw Ew Tw Gw.
      refine (GRel_trans fs0 old cf P X t _ _ _ R1 _ Fw Ew Tw Gw).
      intros [Hr1 HD1] Ew1 Tw1 Gw1.
      pose proof Hr1 as (Hf1 & _).
      assert (Hnb : ~ In (n :: d) (c_built (w_new w1))).
      { intro Y. pose proof Hr1 as (_ & _ & _ & _ & _ & _ & _ & I5 & _). destruct (I5 _ Y) as (_ & HPa & _).
        exact (HypA p0 (n :: d) (or_introl HPa) Hb HP0). }
      assert (Hd1 : isdir (w_fs w1) (n :: d) = false) by (rewrite Ffs; exact Ed).
      assert (Hc : forall f, lookup (w_fs w1) (n :: d) = Some (NFile f) ->
                (n :: d = cf \/ cache_get_file (w_new w1) (n :: d) = None) /\
                (In (n :: d) (c_built (w_new w1)) \/ n :: d = cf \/
                 (cache_created_file old (n :: d) = true /\ exists q, P q /\ below q (n :: d) = true))).
      { intros f Hl. assert (Hif : isfile (w_fs w) (n :: d) = true) by (apply isfile_lookup; exists f; rewrite <- Ffs; exact Hl).
        pose proof (proj1 Fw) as (_ & Bo & Cc & _).
        destruct (m_is_file_false_cases2 _ _ _ E1 Hif) as [Z|[Z|[Z1 Z2]]].
        - rewrite Cc in Z. split; [left; exact Z | right; left; exact Z].
        - rewrite <- Fnew in Z. split; [right; apply get_none_of_pending; exact Z|]. left.
          pose proof Hr1 as (_ & _ & _ & _ & _ & _ & _ & _ & _ & I7). apply I7. exact Z.
        - rewrite <- Fnew in Z1. split; [right; apply get_none_of_free; exact Z1|]. right; right.
          rewrite Bo in Z2. split; [exact Z2|]. exists p0. split; assumption. }
      assert (K : forall w2 b, back_up_and_remove (n :: d) w1 = (w2, b) ->
                FI w2 /\ built_le w1 w2 /\ EI w2 /\ stable w1 w2).
      { intros w2 b E2.
        destruct (back_up_and_remove_T fs0 old cf P _ _ _ _ E2 Hr1 Hd1 Hnb) as [Hr2 L2].
        pose proof (dkeep_D fs0 old cf P X _ _ (back_up_dkeep _ _ _ _ E2 Hd1) HD1) as HD2.
        destruct (backup_E _ _ _ _ E2 Hf1 Hd1 Ew1 (built_not_cf _ Hr1) Hc) as [Ew2 S2].
        split; [split; assumption|]. split; [exact L2|]. split; assumption. }
      apply bind_inv in H. destruct H as [(w2 & b & E2 & H) | (e & E2 & _)].
      * inversion H; subst. exact (K _ _ E2).
      * exact (K _ _ E2).
  - intros _. apply pres_catch; [|intro e; destruct (is_os e); apply pres_raise].
    apply G_ekeep.
    + apply F_lift; [apply effect_rmdir_T|]. apply effect_rmdir_D; [exact Hw|].
      intros a (t1 & Ht1 & Hbt) E. subst a.
      assert (Hpt : below p0 t1 = true).
      { destruct Hd as [->|Hd]; [exact Hbt | eapply below_trans; eauto]. }
      exact (HypA p0 t1 Ht1 Hpt HP0).
    + apply effect_ekeep. intros fs fs'. apply rmdir_files_kept.
Qed.

Lemma pfc_room_G : forall t p, P p -> pres (GP t) (pfc_room p).
Proof.
  intros t p HP w w' r H. change (GR t w w'). unfold pfc_room in H. unfold bind at 1, get in H.
  destruct (isdir (w_fs w) p) eqn:Ed; [|inversion H; subst; apply GRel_refl].
  apply bind_inv in H. destruct H as [(w1 & vd & E1 & H) | (e & E1 & _)].
  2:{ exact (G_view t _ _ (m_is_dir_view _ _) _ _ _ E1). }
  pose proof (G_view t _ _ (m_is_dir_view _ _) _ _ _ E1) as R1. change (GR t w w1) in R1.
  destruct vd; [inversion H; subst; exact R1|].
  intros Fw Ew Tw Gw.
  pose proof (Wp_of_virtual_absent fs0 old cf P X _ _ _ (proj2 Fw) E1) as Hwa.
  pose proof (make_room_G t p HP room_fuel p Hwa (or_introl eq_refl) _ _ _ H) as R2. change (GR t w1 w') in R2.
  exact (GRel_trans fs0 old cf P X t _ _ _ R1 R2 Fw Ew Tw Gw).
Qed.

(* ================================================================== *)
(* 4. Replaying cached suboperations                                   *)
(* ================================================================== *)

Hint Resolve m_bd_error_G new_start_subbuild_G new_finish_subbuild_G : pres.

Lemma apply_step_G : forall t0 s (k : M unit),
  (forall t, In t (op_targets s) -> TG t) -> pres (GP t0) (apply_cached_subs_of s) -> pres (GP t0) k ->
  pres (GP t0)
    (bind (match s with
           | OBuildFile p _ _ _ _ _ _ _ false _ =>
               bind (make_dirs (dirname p)) (fun created =>
               bind (m_bd_started p created) (fun locked =>
               catch (apply_cached_subs_of s) (fun e => bind (m_bd_error p) (fun _ => raise e))))
           | OSimple _ _ _ => ret tt
           | _ => apply_cached_subs_of s
           end) (fun _ => k)).
Proof.
  intros t0 s k Ht Hs Hk. apply pres_bind; [|intros _; exact Hk].
  destruct s as [q r e | p c f a kw subs r cr ra sf | f a kw subs r ra sf]; [apply pres_ret | | exact Hs].
  destruct ra; [exact Hs|].
  eapply pres_ext; [intro; apply make_lock_assoc|].
  apply pres_bind; [apply make_lock_G; apply Ht; left; reflexivity|]. intro locked. pres_auto.
Qed.

Lemma apply_cached_subs_of_G : forall o, (forall t, In t (op_targets o) -> TG t) ->
  forall t0, pres (GP t0) (apply_cached_subs_of o).
Proof.
  induction o as [q r e | p c f a k subs r cr ra sf IH | f a k subs r ra sf IH] using op_ind';
    intros Ht t0; cbn [apply_cached_subs_of].
  - apply pres_ret.
  - assert (Ht' : forall t, In t (flat_map op_targets subs) -> TG t).
    { intros t Y. apply Ht. right. exact Y. }
    clear Ht. induction IH as [|s rest Hs HF IHl]; cbn beta iota fix; [apply pres_ret|].
    apply apply_step_G.
    + intros t Y. apply Ht'. cbn [flat_map]. apply in_or_app. left. exact Y.
    + apply Hs. intros t Y. apply Ht'. cbn [flat_map]. apply in_or_app. left. exact Y.
    + apply IHl. intros t Y. apply Ht'. cbn [flat_map]. apply in_or_app. right. exact Y.
  - assert (Ht' : forall t, In t (flat_map op_targets subs) -> TG t).
    { intros t Y. apply Ht. exact Y. }
    clear Ht. induction IH as [|s rest Hs HF IHl]; cbn beta iota fix; [apply pres_ret|].
    apply apply_step_G.
    + intros t Y. apply Ht'. cbn [flat_map]. apply in_or_app. left. exact Y.
    + apply Hs. intros t Y. apply Ht'. cbn [flat_map]. apply in_or_app. left. exact Y.
    + apply IHl. intros t Y. apply Ht'. cbn [flat_map]. apply in_or_app. right. exact Y.
Qed.

(* ================================================================== *)
(* 5. Claiming a target                                                *)
(* ================================================================== *)

(* a world with the same tree, bookkeeping and backups, and a new cache with the same
   entries, claims and recorded directories *)
Lemma EInv_ext : forall w w', EI w ->
  (forall q, files_get (c_files (w_new w')) q = files_get (c_files (w_new w)) q) ->
  (forall q, In q (c_built (w_new w')) <-> In q (c_built (w_new w))) ->
  c_dirs (w_new w') = c_dirs (w_new w) -> w_backups w' = w_backups w -> w_fs w' = w_fs w -> w_bd w' = w_bd w ->
  EI w' /\ stable w w'.
Proof.
  intros w w' (Z1 & HZ & XB & XS & X6) Ef Eb Ed Ek Es Ebd.
  split; [|intros q _; apply Ef].
  unfold EInv, XBc, XSc, X6c, cache_get_file. rewrite Ed, Ek, Es, Ebd.
  split; [exact Z1|]. split; [exact HZ|]. split; [|split].
  - intros p o Ho Hb. rewrite Ef in Ho. apply Eb in Hb. exact (XB p o Ho Hb).
  - intros p o Ho Hb Hc. rewrite Ef in Ho. apply (XS p o Ho); [|exact Hc]. intro Y. apply Hb. apply Eb. exact Y.
  - intros p f Hp. destruct (X6 p f Hp) as [Y|Y]; [left; apply Eb; exact Y | right; exact Y].
Qed.

(* the claim itself: a new entry "in progress" *)
Lemma claim_E : forall w p, EI w -> cache_has_file (w_new w) p = false ->
  let c1 := cache_with (w_new w) (files_set (c_files (w_new w)) p None) (c_subs (w_new w))
                       (c_dirs (w_new w)) (c_built (w_new w) ++ [p]) in
  EI (set_new c1 w) /\ stable w (set_new c1 w).
Proof.
  intros w p (Z1 & HZ & XB & XS & X6) Hfree c1.
  assert (Hget : forall q o, cache_get_file c1 q = Some o -> q <> p /\ cache_get_file (w_new w) q = Some o).
  { intros q o Ho. unfold cache_get_file in *. subst c1. cbn [c_files cache_with] in Ho. rewrite files_get_set in Ho.
    destruct (path_eqb p q) eqn:E; [discriminate Ho|]. apply path_eqb_neq in E. split; [congruence | exact Ho]. }
  split.
  - unfold EInv, XBc, XSc, X6c. cbn [w_new w_bd w_fs w_backups set_new].
    split; [exact Z1|]. split; [exact HZ|]. split; [|split].
    + intros q o Ho Hb. destruct (Hget q o Ho) as [Nq Ho']. apply (XB q o Ho').
      subst c1. cbn [c_built cache_with] in Hb. apply in_app_or in Hb. destruct Hb as [Hb|[Hb|[]]]; [exact Hb | congruence].
    + intros q o Ho Hb Hc. destruct (Hget q o Ho) as [Nq Ho']. apply (XS q o Ho'); [|exact Hc].
      intro Y. apply Hb. subst c1. cbn [c_built cache_with]. apply in_or_app. left. exact Y.
    + intros q f Hq. destruct (X6 q f Hq) as [Y|Y]; [left | right; exact Y].
      subst c1. cbn [c_built cache_with]. apply in_or_app. left. exact Y.
  - intros q Hq. cbn [w_new set_new]. subst c1. cbn [c_files cache_with]. rewrite files_get_set.
    destruct (path_eqb p q) eqn:E; [|reflexivity]. apply path_eqb_eq in E. subst q. congruence.
Qed.

Lemma bf_claim_G : forall t p, P p -> p <> cf -> pres (GP t) (bf_claim p).
Proof.
  intros t p HP Hcf. apply G_lift; [apply bf_claim_F; assumption|].
  intros w w' r H [Hr HD] Ew Tw Gw. unfold bf_claim in H.
  apply bind_inv in H. destruct H as [(w1 & u & E1 & H) | (e & E1 & _)].
  2:{ apply new_start_building_file_inv in E1. destruct E1 as [(_ & ->) | (Y & _)]; [|discriminate Y].
      split; [exact Ew | apply stable_refl]. }
  apply new_start_building_file_inv in E1. destruct E1 as [(Y & _) | (_ & Hfree & ->)]; [discriminate Y|].
  set (c1 := cache_with (w_new w) (files_set (c_files (w_new w)) p None) (c_subs (w_new w))
                        (c_dirs (w_new w)) (c_built (w_new w) ++ [p])) in *.
  destruct (claim_E w p Ew Hfree) as [Ew1 S1]. fold c1 in Ew1, S1.
  pose proof Hr as (Hf & _).
  assert (Hnb : ~ In p (c_built (w_new w))).
  { intro Y. destruct Hr as (_ & _ & _ & _ & _ & _ & _ & I5 & _). destruct (I5 p Y) as (Z & _). congruence. }
  assert (Hncf : forall q, In q (c_built (w_new (set_new c1 w))) -> q <> cf).
  { intros q Hq. cbn [w_new set_new] in Hq. subst c1. cbn [c_built cache_with] in Hq.
    apply in_app_or in Hq. destruct Hq as [Hq|[<-|[]]]; [exact (built_not_cf _ Hr q Hq) | exact Hcf]. }
  assert (Hclear : forall w2 x, bind get (fun w => if isfile (w_fs w) p then bind (back_up_and_remove p) (fun b => ret tt) else ret tt)
                                  (set_new c1 w) = (w2, inl x) -> EI w2 /\ stable w w2).
  { intros w2 x E. unfold bind at 1, get in E. cbn [w_fs set_new] in E.
    destruct (isfile (w_fs w) p) eqn:Ef; [|inversion E; subst; split; assumption].
    apply bind_inv in E. destruct E as [(w3 & b & E2 & E) | (e & _ & Y)]; [|discriminate Y].
    inversion E; subst w3; clear E.
    destruct (backup_E _ _ _ _ E2 Hf (isfile_not_dir _ _ Ef) Ew1 Hncf) as [Ew2 S2].
    { intros f _. split; [right|left].
      - apply get_none_of_pending. unfold pending. cbn [w_new set_new]. subst c1. cbn [c_files cache_with].
        apply files_get_set_same.
      - cbn [w_new set_new]. subst c1. cbn [c_built cache_with]. apply in_or_app. right. left. reflexivity. }
    split; [exact Ew2 | eapply stable_trans; eauto]. }
  apply bind_inv in H. destruct H as [(w2 & u2 & E2 & H) | (e & E2 & _)].
  - inversion H; subst w2; clear H.
    apply catch_inv in E2. destruct E2 as [(a & E2 & _) | (w3 & e & E2 & E3)]; [exact (Hclear _ _ E2)|].
    apply bind_inv in E3. destruct E3 as [(w4 & u4 & _ & E3) | (e' & _ & Y)]; [inversion E3 | discriminate Y].
  - apply catch_inv in E2. destruct E2 as [(a & _ & Y) | (w3 & e0 & E2 & E3)]; [discriminate Y|].
    apply bind_inv in E3. destruct E3 as [(w4 & u4 & E4 & E3) | (e' & E4 & _)]; [|inversion E4].
    inversion E3; subst w4; clear E3.
    unfold new_abort_building_file, modify in E4. inversion E4; subst w'; clear E4.
    (* the backup failed: the tree and the backups are as before, the claim is released *)
    unfold bind at 1, get in E2. cbn [w_fs set_new] in E2.
    destruct (isfile (w_fs w) p) eqn:Ef; [|inversion E2].
    apply bind_inv in E2. destruct E2 as [(w5 & b & _ & E2) | (e' & E2 & _)]; [inversion E2|].
    assert (D1 : isdir (w_fs (set_new c1 w)) p = false) by (apply isfile_not_dir; exact Ef).
    pose proof (back_up_dkeep _ _ _ _ E2 D1) as (Kb & _ & _).
    destruct (back_up_spec _ _ _ _ E2 Hf D1) as (_ & _ & _ & F4 & [(f & Y & _) | (G1 & G2 & _)]); [discriminate Y|].
    cbn [w_fs w_backups w_new w_bd set_new] in *.
    apply EInv_ext; auto; cbn [w_new w_fs w_backups w_bd set_new c_files c_built c_dirs cache_with]; rewrite ?F4.
    + intro q. subst c1. cbn [c_files cache_with].
      destruct (files_get (c_files (w_new w)) p) eqn:Hg; [unfold cache_has_file in Hfree; rewrite Hg in Hfree; discriminate Hfree|].
      apply files_get_del_set_free. exact Hg.
    + intro q. subst c1. cbn [c_built cache_with]. rewrite del_path_app_self by exact Hnb. tauto.
    + subst c1. reflexivity.
Qed.

Lemma subs_targets_incl : forall co q, In q (flat_map op_targets (op_subs co)) -> In q (op_targets co).
Proof. intros [q0 r e | p c f a k subs r cr ra sf | f a k subs r ra sf] q H; cbn in *; auto. Qed.

Lemma bf_reuse_G : forall t p c fname sargs skw cached, P p ->
  match cached with Some co => forall x, In x (op_targets co) -> TG x | None => True end ->
  pres (GP t) (bf_reuse p c fname sargs skw cached).
Proof.
  intros t p c fname sargs skw cached HP Hc. unfold bf_reuse. cbv zeta. destruct cached as [co|]; [|apply pres_ret].
  pose proof (apply_cached_subs_of_G co Hc t).
  assert (Hreg : forall cmp, pres (GP t) (new_use_cached_operation
                   (OBuildFile p c fname sargs skw (op_subs co) (op_ret co) cmp false false))).
  { intro cmp. apply new_use_cached_operation_G. intros q Hq. cbn [op_targets] in Hq.
    destruct Hq as [<-|Hq]; [left; exact HP | apply Hc; apply subs_targets_incl; exact Hq]. }
  pres_auto.
Qed.

Lemma bf_setup_G : forall t p c fname sargs skw, P p -> pres (GP t) (bf_setup p c fname sargs skw).
Proof.
  intros t p c fname sargs skw HP. unfold bf_setup.
  apply pres_bind; [auto with pres|]. intros _.
  apply (pres_bind_valG fs0 old cf P X t _ _ _ _ (fun icf => icf = path_eqb p cf)); [auto with pres | |].
  { intros w w1 a ((_ & _ & C & _) & _) E. unfold is_cache_file in E.
    assert (Ea : a = path_eqb p (w_cachefile w)) by congruence. rewrite <- C. exact Ea. }
  intros icf ->. destruct (path_eqb p cf) eqn:Ecf; [apply pres_bind_raise|]. apply path_eqb_neq in Ecf.
  apply pres_bind; [apply pres_ret|]. intros _.
  eapply pres_ext; [intro; apply prep_assoc|].
  apply pres_bind; [apply pfc_room_G; exact HP|]. intros _.
  eapply pres_ext; [intro; apply make_lock_assoc|].
  apply pres_bind; [apply make_lock_G; left; exact HP|]. intro locked.
  apply pres_catch; [|intro e; pres_auto].
  apply (pres_bind_valG fs0 old cf P X t _ _ _ _
           (fun cached => match cached with Some co => forall x, In x (op_targets co) -> TG x | None => True end));
    [auto with pres | |].
  { intros w w1 a ((_ & B & _) & _) E. destruct a as [co|]; [|exact I].
    apply lookup_never_raised in E. destruct E as (E & _). rewrite B in E.
    intros x Hx. right. right. eapply cache_get_file_targets; eauto. }
  intros cached Hc. apply pres_bind; [apply bf_reuse_G; assumption|]. intro reused.
  destruct reused as [[o|eo]|]; [pres_auto | pres_auto | apply bf_claim_G; assumption].
Qed.

(* after a setup that ends with the claim, the target is in progress, and it was free before *)
Lemma bf_claim_pending : forall p w w' x, bf_claim p w = (w', inl x) -> pending (w_new w') p.
Proof.
  intros p w w' x H. unfold bf_claim in H.
  apply bind_inv in H. destruct H as [(wb & u & E1 & H) | (e & _ & Y)]; [|discriminate Y].
  apply new_start_building_file_inv in E1. destruct E1 as [(Y & _) | (_ & _ & ->)]; [discriminate Y|].
  apply bind_inv in H. destruct H as [(wc & u2 & E2 & H) | (e & _ & Y)]; [|discriminate Y].
  inversion H; subst wc x; clear H.
  apply catch_inv in E2. destruct E2 as [(a & E2 & _) | (w3 & e & _ & E3)].
  - assert (G : pres newPO (bind get (fun w => if isfile (w_fs w) p then bind (back_up_and_remove p) (fun b => ret tt) else ret tt))).
    { pose proof (back_up_and_remove_new p). pres_auto. }
    destruct (G _ _ _ E2) as (N & _). unfold pending. rewrite N. cbn [w_new set_new c_files cache_with].
    apply files_get_set_same.
  - apply bind_inv in E3. destruct E3 as [(w4 & u4 & _ & E3) | (e' & _ & Y)]; [inversion E3 | discriminate Y].
Qed.

Lemma bf_setup_none_pending : forall p c fname sargs skw w w1,
  bf_setup p c fname sargs skw w = (w1, inl None) -> pending (w_new w1) p.
Proof.
  intros p c fname sargs skw w w1 H. unfold bf_setup in H. minvc H.
  all: try match goal with E : bf_claim _ _ = (_, inl _) |- _ => exact (bf_claim_pending _ _ _ _ E) end.
Qed.

Lemma bf_setup_fresh : forall p c fname sargs skw w w1 x,
  bf_setup p c fname sargs skw w = (w1, inl x) -> cache_has_file (w_new w) p = false.
Proof.
  intros p c fname sargs skw w w1 x H. unfold bf_setup in H.
  apply bind_inv in H. destruct H as [(w0 & u & E0 & _) | (e & _ & Y)]; [|discriminate Y].
  unfold new_assert_no_file, bind, get in E0. destruct (cache_has_file (w_new w) p); [inversion E0 | reflexivity].
Qed.

(* ================================================================== *)
(* 6. The end of a build_file call                                     *)
(* ================================================================== *)

Definition stable_ex (p : path) (w w' : world) : Prop :=
  forall q, q <> p -> cache_has_file (w_new w) q = true ->
            files_get (c_files (w_new w')) q = files_get (c_files (w_new w)) q.

Lemma stable_then_ex : forall p a b c, stable a b -> stable_ex p b c -> stable_ex p a c.
Proof.
  intros p a b c H1 H2 q Nq Hq. rewrite (H2 q Nq (stable_has _ _ _ H1 Hq)). apply H1. exact Hq.
Qed.

Lemma stable_is_ex : forall p a b, stable a b -> stable_ex p a b.
Proof. intros p a b H q _ Hq. apply H. exact Hq. Qed.

Lemma stable_ex_has : forall p w w' q, stable_ex p w w' -> q <> p -> cache_has_file (w_new w) q = true ->
  cache_has_file (w_new w') q = true.
Proof. intros p w w' q H Nq Hq. unfold cache_has_file in *. rewrite (H q Nq Hq). exact Hq. Qed.

Lemma stable_ex_trans : forall p a b c, stable_ex p a b -> stable_ex p b c -> stable_ex p a c.
Proof.
  intros p a b c H1 H2 q Nq Hq. rewrite (H2 q Nq (stable_ex_has _ _ _ _ H1 Nq Hq)). apply H1; assumption.
Qed.

(* the record of the call is written *)
Lemma finish_E : forall w p o, EI w -> In p (c_built (w_new w)) ->
  (if op_raised o then forall g, lookup (w_fs w) p <> Some (NFile g) else isfile (w_fs w) p = true) ->
  let w' := set_new (cache_with (w_new w) (files_set (c_files (w_new w)) p (Some o)) (c_subs (w_new w))
                                (c_dirs (w_new w)) (c_built (w_new w))) w in
  EI w' /\ stable_ex p w w'.
Proof.
  intros w p o (Z1 & HZ & XB & XS & X6) Hb Hrec w'. subst w'.
  assert (Hget : forall q o', cache_get_file (cache_with (w_new w) (files_set (c_files (w_new w)) p (Some o)) (c_subs (w_new w))
                                (c_dirs (w_new w)) (c_built (w_new w))) q = Some o' ->
                 (q = p /\ o' = o) \/ (q <> p /\ cache_get_file (w_new w) q = Some o')).
  { intros q o' Ho. unfold cache_get_file in *. cbn [c_files cache_with] in Ho. rewrite files_get_set in Ho.
    destruct (path_eqb p q) eqn:E.
    - apply path_eqb_eq in E. left. split; [symmetry; exact E | congruence].
    - apply path_eqb_neq in E. right. split; [congruence | exact Ho]. }
  split.
  - unfold EInv, XBc, XSc, X6c. cbn [w_new w_bd w_fs w_backups set_new c_built c_dirs cache_with].
    split; [exact Z1|]. split; [exact HZ|]. split; [|split; [|exact X6]].
    + intros q o' Ho Hq. destruct (Hget q o' Ho) as [[-> ->]|[Nq Ho']]; [exact Hrec | exact (XB q o' Ho' Hq)].
    + intros q o' Ho Hq Hc. destruct (Hget q o' Ho) as [[-> ->]|[Nq Ho']]; [contradiction | exact (XS q o' Ho' Hq Hc)].
  - intros q Nq _. cbn [w_new set_new c_files cache_with]. rewrite files_get_set.
    destruct (path_eqb p q) eqn:E; [|reflexivity]. apply path_eqb_eq in E. congruence.
Qed.

Lemma try_to_remove_file_full : forall p w w' r, try_to_remove_file p w = (w', r) -> w_faults w = [] ->
  r = inl tt /\ w_new w' = w_new w /\ w_backups w' = w_backups w /\ w_bd w' = w_bd w /\
  (forall g, lookup (w_fs w') p <> Some (NFile g)) /\
  (forall q, q <> p -> lookup (w_fs w') q = lookup (w_fs w) q).
Proof.
  intros p w w' r H Hf. unfold try_to_remove_file in H. unfold bind at 1, get in H.
  destruct (isfile (w_fs w) p) eqn:Ef.
  - unfold catch in H. rewrite (effect_nofault' _ _ _ _ Hf) in H.
    apply isfile_lookup in Ef. destruct Ef as [g Hg].
    destruct p as [|n d]; [cbn in Hg; discriminate Hg|].
    unfold remove in H. rewrite Hg in H. inversion H; subst. cbn [w_fs w_new w_backups w_bd set_log set_fs set_effects].
    repeat (split; [reflexivity|]). split.
    + intros g'. rewrite lookup_upd_eq by discriminate. discriminate.
    + intros q Hq. apply lookup_upd_neq. exact Hq.
  - inversion H; subst. repeat (split; [reflexivity|]). split; [|reflexivity].
    intros g Y. unfold isfile in Ef. rewrite Y in Ef. discriminate Ef.
Qed.

(* the target of the call, in progress, is removed *)
Lemma remove_target_E : forall p w w' r, try_to_remove_file p w = (w', r) -> w_faults w = [] ->
  EI w -> pending (w_new w) p -> In p (c_built (w_new w)) ->
  r = inl tt /\ EI w' /\ stable w w' /\ w_new w' = w_new w /\ (forall g, lookup (w_fs w') p <> Some (NFile g)).
Proof.
  intros p w w' r H Hf (Z1 & HZ & XB & XS & X6) Hp Hb.
  destruct (try_to_remove_file_full _ _ _ _ H Hf) as (R0 & F1 & F2 & F3 & G1 & G2).
  split; [exact R0|]. split; [|split; [apply stable_same; rewrite F1; reflexivity | split; [exact F1 | exact G1]]].
  unfold EInv, XBc, XSc, X6c. rewrite F1, F2, F3.
  split; [exact Z1|]. split; [exact HZ|]. split; [|split; [|exact X6]].
  - intros q o Ho Hq. assert (Nq : q <> p) by (intro E; subst q; rewrite (get_none_of_pending _ _ Hp) in Ho; discriminate Ho).
    pose proof (XB q o Ho Hq) as Y. unfold isfile in *. rewrite (G2 q Nq). exact Y.
  - intros q o Ho Hq Hc g. assert (Nq : q <> p) by (intro E; subst q; contradiction).
    rewrite (G2 q Nq). exact (XS q o Ho Hq Hc g).
Qed.

Hint Resolve try_to_remove_file_F m_bd_error_F new_finish_building_file_F : pres.

(* _handle_error_building_file *)
Lemma fail_seq_G : forall p o wf w' r',
  bind (try_to_remove_file p) (fun _ => bind (m_bd_error p) (fun _ => new_finish_building_file p o)) wf = (w', r') ->
  op_raised o = true -> FI wf -> EI wf -> In p (c_built (w_new wf)) -> pending (w_new wf) p ->
  FI w' /\ built_le wf w' /\ EI w' /\ stable_ex p wf w'.
Proof.
  intros p o wf w' r' H Hra Fw Ew Hb Hp.
  assert (HF : pres (FP (Some p)) (bind (try_to_remove_file p) (fun _ => bind (m_bd_error p) (fun _ => new_finish_building_file p o))))
    by pres_auto.
  assert (Tw : tcond (Some p) wf) by (intros q Y; inversion Y; subst; exact Hb).
  destruct (HF _ _ _ H Fw Tw) as [Fw' L]. split; [exact Fw'|]. split; [exact L|].
  pose proof (proj1 Fw) as (Hf & _).
  apply bind_inv in H. destruct H as [(wa & u & E1 & H) | (e & E1 & _)].
  2:{ destruct (remove_target_E _ _ _ _ E1 Hf Ew Hp Hb) as (Y & _). discriminate Y. }
  destruct (remove_target_E _ _ _ _ E1 Hf Ew Hp Hb) as (_ & Ewa & Sa & Na & Ga).
  apply bind_inv in H. destruct H as [(wb & u2 & E2 & H) | (e & E2 & _)].
  - assert (Kb : EI wb /\ stable wa wb /\ w_new wb = w_new wa /\ w_fs wb = w_fs wa).
    { unfold m_bd_error in E2. destruct (bd_error (w_bd wa) p) as [b|] eqn:Eb; inversion E2; subst; clear E2.
      destruct (EInv_bd wa b Ewa) as [Y1 Y2]; [destruct Ewa as (_ & HZ & _); eapply bd_error_Z; eauto|].
      split; [exact Y1|]. split; [exact Y2|]. split; reflexivity. }
    destruct Kb as (Ewb & Sb & Nb & Fb).
    unfold new_finish_building_file, modify in H. inversion H; subst w' r'; clear H.
    destruct (finish_E wb p o Ewb) as [Ew' Sx].
    { rewrite Nb, Na. exact Hb. }
    { rewrite Hra, Fb. exact Ga. }
    split; [exact Ew'|]. eapply stable_then_ex; [eapply stable_trans; eauto | exact Sx].
  - unfold m_bd_error in E2. destruct (bd_error (w_bd wa) p) as [b|] eqn:Eb; inversion E2; subst.
    split; [exact Ewa | apply stable_is_ex; exact Sa].
Qed.

Lemma finish_success_G : forall p o w4, op_raised o = false -> FI w4 -> EI w4 ->
  In p (c_built (w_new w4)) -> isfile (w_fs w4) p = true ->
  let w5 := set_new (cache_with (w_new w4) (files_set (c_files (w_new w4)) p (Some o)) (c_subs (w_new w4))
                                (c_dirs (w_new w4)) (c_built (w_new w4))) w4 in
  FI w5 /\ built_le w4 w5 /\ EI w5 /\ stable_ex p w4 w5.
Proof.
  intros p o w4 Hra Fw Ew Hb Hfile w5.
  assert (HF : pres (FP (Some p)) (new_finish_building_file p o)) by auto with pres.
  assert (Tw : tcond (Some p) w4) by (intros q Y; inversion Y; subst; exact Hb).
  destruct (HF w4 w5 (inl tt) eq_refl Fw Tw) as [Fw' L].
  destruct (finish_E w4 p o Ew Hb) as [Ew' Sx]; [rewrite Hra; exact Hfile|].
  split; [exact Fw'|]. split; [exact L|]. split; [exact Ew' | exact Sx].
Qed.

Lemma bf_tail_none_G : forall p c fname sargs skw fn w1 w' r,
  (forall sa skw', pres (GP (Some p)) (fn p sa skw')) ->
  bf_tail p c fname sargs skw fn (w1, inl None) = (w', r) ->
  FI w1 -> EI w1 -> In p (c_built (w_new w1)) -> pending (w_new w1) p ->
  FI w' /\ built_le w1 w' /\ EI w' /\ stable_ex p w1 w'.
Proof.
  intros p c fname sargs skw fn w1 w' r Hfn H Fw1 Ew1 Hb1 Hp1. unfold bf_tail in H. cbv zeta in H.
  assert (Tw1 : tcond (Some p) w1) by (intros q Y; inversion Y; subst; exact Hb1).
  assert (Gw1 : gcond (Some p) w1) by (intros q Y; inversion Y; subst; exact Hp1).
  destruct (fn p sargs skw (set_log (LInvoke fname (Some p) sargs skw :: w_log w1) w1)) as [w3 [res subs]] eqn:E2.
  assert (R13 : GR (Some p) w1 w3).
  { eapply GRel_trans; [apply GRel_set_log | exact (Hfn _ _ _ _ _ E2)]. }
  destruct (R13 Fw1 Ew1 Tw1 Gw1) as (Fw3 & L3 & Ew3 & S3).
  assert (Hb3 : In p (c_built (w_new w3))) by (apply L3; exact Hb1).
  assert (Hp3 : pending (w_new w3) p) by (exact (gcond_stable _ _ _ Gw1 S3 p eq_refl)).
  (* the failure path, from a world related to w1 *)
  assert (Fail : forall wf o wr rr, FI wf -> EI wf -> built_le w1 wf -> stable w1 wf ->
            bind (try_to_remove_file p) (fun _ => bind (m_bd_error p) (fun _ => new_finish_building_file p o)) wf = (wr, rr) ->
            op_raised o = true ->
            FI wr /\ built_le w1 wr /\ EI wr /\ stable_ex p w1 wr).
  { intros wf o wr rr Ff Ef Lf Sf E Hra.
    destruct (fail_seq_G _ _ _ _ _ E Hra Ff Ef (Lf p Hb1) (gcond_stable _ _ _ Gw1 Sf p eq_refl)) as (A1 & A2 & A3 & A4).
    split; [exact A1|]. split; [eapply built_le_trans; eauto|]. split; [exact A3 | eapply stable_then_ex; eauto]. }
  destruct res as [v|e].
  - destruct (sanitize v) as [sv|].
    + destruct (noneable_cmp p c w3) as [w4 [cmp|e]] eqn:E4.
      * pose proof (G_view (Some p) _ _ (noneable_cmp_view p c) _ _ _ E4) as R34. change (GR (Some p) w3 w4) in R34.
        assert (Tw3 : tcond (Some p) w3) by (intros q Y; inversion Y; subst; exact Hb3).
        assert (Gw3 : gcond (Some p) w3) by (intros q Y; inversion Y; subst; exact Hp3).
        destruct (R34 Fw3 Ew3 Tw3 Gw3) as (Fw4 & L4 & Ew4 & S4).
        assert (L14 : built_le w1 w4) by (eapply built_le_trans; eauto).
        assert (S14 : stable w1 w4) by (eapply stable_trans; eauto).
        destruct cmp;
          try (match type of H with (let (_, _) := ?Z in _) = _ => destruct Z as [wr [u|e']] eqn:E5 end;
               inversion H; subst; exact (Fail _ _ _ _ Fw4 Ew4 L14 S14 E5 eq_refl)).
        all: unfold new_finish_building_file, modify in H; injection H as Hw' Hr'; subst w' r;
             assert (Hfile : isfile (w_fs w4) p = true) by (eapply noneable_cmp_file; [exact E4 | discriminate]);
             match goal with |- FI (set_new (cache_with _ (files_set _ _ (Some ?o)) _ _ _) _) /\ _ =>
               destruct (finish_success_G p o w4 eq_refl Fw4 Ew4 (L14 p Hb1) Hfile) as (A1 & A2 & A3 & A4)
             end;
             (split; [exact A1|]); (split; [eapply built_le_trans; eauto|]); (split; [exact A3 | eapply stable_then_ex; eauto]).
      * pose proof (G_view (Some p) _ _ (noneable_cmp_view p c) _ _ _ E4) as R34. change (GR (Some p) w3 w4) in R34.
        assert (Tw3 : tcond (Some p) w3) by (intros q Y; inversion Y; subst; exact Hb3).
        assert (Gw3 : gcond (Some p) w3) by (intros q Y; inversion Y; subst; exact Hp3).
        destruct (R34 Fw3 Ew3 Tw3 Gw3) as (Fw4 & L4 & Ew4 & S4).
        assert (L14 : built_le w1 w4) by (eapply built_le_trans; eauto).
        assert (S14 : stable w1 w4) by (eapply stable_trans; eauto).
        match type of H with (let (_, _) := ?Z in _) = _ => destruct Z as [wr [u|e']] eqn:E5 end;
          inversion H; subst; exact (Fail _ _ _ _ Fw4 Ew4 L14 S14 E5 eq_refl).
    + match type of H with (let (_, _) := ?Z in _) = _ => destruct Z as [wr [u|e']] eqn:E5 end;
        inversion H; subst; exact (Fail _ _ _ _ Fw3 Ew3 L3 S3 E5 eq_refl).
  - match type of H with (let (_, _) := ?Z in _) = _ => destruct Z as [wr [u|e']] eqn:E5 end;
      inversion H; subst; exact (Fail _ _ _ _ Fw3 Ew3 L3 S3 E5 eq_refl).
Qed.

(* ================================================================== *)
(* 7. build_file, subbuild, user code                                  *)
(* ================================================================== *)

Lemma m_build_file_G : forall p c f a kw fn, P p ->
  (forall sa skw, pres (GP (Some p)) (fn p sa skw)) ->
  forall t, pres (GP t) (m_build_file p c f a kw fn).
Proof.
  intros p c f a kw fn HP Hfn t w w' r H. rewrite m_build_file_unfold in H.
  destruct (sanitize a) as [sa|]; [|inversion H; subst; apply GRel_refl].
  destruct (sanitize kw) as [skw|]; [|inversion H; subst; apply GRel_refl].
  destruct (bf_setup p c f sa skw w) as [w1 sr] eqn:Hs.
  pose proof (bf_setup_G t p c f sa skw HP _ _ _ Hs) as R1. change (GR t w w1) in R1.
  change (GR t w w').
  destruct sr as [[[o|[e o]]|]|e]; try (cbn in H; inversion H; subst; exact R1).
  pose proof (bf_setup_none _ _ _ _ _ _ _ Hs) as Hb.
  pose proof (bf_setup_none_pending _ _ _ _ _ _ _ Hs) as Hp.
  pose proof (bf_setup_fresh _ _ _ _ _ _ _ _ Hs) as Hfree.
  intros Fw Ew Tw Gw. destruct (R1 Fw Ew Tw Gw) as (Fw1 & L1 & Ew1 & S1).
  destruct (bf_tail_none_G _ _ _ _ _ _ _ _ _ Hfn H Fw1 Ew1 Hb Hp) as (Fw' & L2 & Ew' & S2).
  split; [exact Fw'|]. split; [eapply built_le_trans; eauto|]. split; [exact Ew'|].
  intros q Hq. assert (Nq : q <> p) by (intro E; subst q; congruence).
  rewrite (S2 q Nq (stable_has _ _ _ S1 Hq)). apply S1. exact Hq.
Qed.

Ltac relG_facts t :=
  repeat match goal with
  | E : ?m ?w = (?w1, _) |- _ =>
      lazymatch goal with
      | _ : GRel fs0 old cf P X t w w1 |- _ => fail
      | _ => let Y := fresh "RL" in
             assert (Y : GRel fs0 old cf P X t w w1) by (refine ((_ : pres (GP t) m) w w1 _ E); solve [pres_auto])
      end
  end.
Ltac relG_chain :=
  repeat first [ eassumption
               | apply GRel_refl
               | apply GRel_set_log
               | eapply GRel_trans; [eassumption|]
               | eapply GRel_trans; [apply GRel_set_log|];
                 first [ eassumption | eapply GRel_trans; [eassumption|] ] ].

Lemma m_subbuild_G : forall f a kw fn t,
  (forall sa skw, pres (GP t) (fn sa skw)) -> pres (GP t) (m_subbuild f a kw fn).
Proof.
  intros f a kw fn t Hfn w w' r H. unfold m_subbuild in H.
  destruct (sanitize a) as [sa|]; [|inversion H; subst; apply GRel_refl].
  destruct (sanitize kw) as [skw|]; [|inversion H; subst; apply GRel_refl].
  cbv zeta in H.
  assert (Hset : pres (GP t)
    (bind (new_assert_no_subbuild (subbuild_key f sa skw)) (fun _ =>
     bind (subbuild_cache_lookup (subbuild_key f sa skw) f) (fun cached =>
     match cached with
     | Some co =>
         bind (apply_cached_subs_of co) (fun _ =>
         bind (attempt (new_use_cached_operation (OSubbuild f sa skw (op_subs co) (op_ret co) false false))) (fun r =>
         match r with
         | inl _ => ret (Some (inl (OSubbuild f sa skw (op_subs co) (op_ret co) false false)))
         | inr e => ret (Some (inr (e, OSubbuild f sa skw (op_subs co) (op_ret co) true true)))
         end))
     | None => bind (new_start_subbuild (subbuild_key f sa skw)) (fun _ => ret None)
     end)))).
  { apply pres_bind; [auto with pres|]. intros _.
    apply (pres_bind_valG fs0 old cf P X t _ _ _ _
           (fun cached => match cached with Some co => forall x, In x (op_targets co) -> TG x | None => True end));
      [auto with pres | |].
    { intros w0 w1 x ((_ & B & _) & _) E. destruct x as [co|]; [|exact I].
      apply sublookup_never_raised in E. destruct E as (E & _). rewrite B in E.
      intros y Hy. right. right. eapply subs_get_targets; eauto. }
    intros cached Hc. destruct cached as [co|]; [|pres_auto].
    pose proof (apply_cached_subs_of_G co Hc t).
    assert (Hreg : pres (GP t) (new_use_cached_operation (OSubbuild f sa skw (op_subs co) (op_ret co) false false))).
    { apply new_use_cached_operation_G. intros q Hq. cbn [op_targets] in Hq. apply Hc. apply subs_targets_incl. exact Hq. }
    pres_auto. }
  match type of H with (match ?Z with _ => _ end) = _ => destruct Z as [w1 res] eqn:Hs end.
  change (GR t w w').
  repeat dm H; inversion H; subst; relG_facts t; relG_chain.
Qed.

Lemma m_query_G : forall t q, pres (GP t) (m_query q).
Proof. intros t q. apply G_view. apply m_query_view. Qed.

Theorem run_G : forall pr, AllTargets P pr ->
  forall target subs, pres (GP target) (run pr target subs).
Proof.
  intros pr Hat.
  induction Hat as [v | e | s q k Hk IHk | c k Hk IHk | s p c f a kw fn k Hp Hfn IHfn Hk IHk
                    | s f a kw fn k Hfn IHfn Hk IHk];
    intros target subs w w' r H; cbn [run] in H; change (GR target w w').
  - inversion H; subst. apply GRel_refl.
  - inversion H; subst. apply GRel_refl.
  - destruct s; [eapply IHk; eauto|].
    destruct (m_query q w) as [w1 [r1 o]] eqn:E.
    apply (m_query_G target) in E. apply IHk in H.
    eapply GRel_trans; [exact E|]. eapply GRel_trans; [apply GRel_log_answer | exact H].
  - destruct target as [p|]; [|eapply IHk; eauto].
    destruct (write_file (w_fs w) p c None (N.succ (w_clock w)) (w_nextid w)) as [fs'|e] eqn:E.
    + apply IHk in H. eapply GRel_trans; [|exact H].
      apply GRel_of.
      * intros [Hr HD] Ht. split; [|apply built_le_same; reflexivity]. split.
        -- eapply write_target_T; [exact Hr | apply Ht; reflexivity | exact E].
        -- apply (dkeep_D fs0 old cf P X w); [|exact HD]. split; [reflexivity|]. cbn [w_fs set_clock set_fs].
           split; [eapply write_file_dirs_same; eauto | eapply write_file_wf; eauto].
      * intros _ (Z1 & HZ & XB & XS & X6) Tw Gw.
        pose proof (Tw p eq_refl) as Hb. pose proof (Gw p eq_refl) as Hpd.
        apply write_file_frame in E. destruct E as (_ & G2).
        split; [|apply stable_same; reflexivity].
        unfold EInv, XBc, XSc, X6c. cbn [w_new w_bd w_fs w_backups set_clock set_fs].
        split; [exact Z1|]. split; [exact HZ|]. split; [|split; [|exact X6]].
        -- intros q o Ho Hq. assert (Nq : q <> p) by (intro Y; subst q; rewrite (get_none_of_pending _ _ Hpd) in Ho; discriminate Ho).
           pose proof (XB q o Ho Hq) as Y. unfold isfile in *. rewrite (G2 q Nq). exact Y.
        -- intros q o Ho Hq Hc g. assert (Nq : q <> p) by (intro Y; subst q; contradiction).
           rewrite (G2 q Nq). exact (XS q o Ho Hq Hc g).
    + inversion H; subst. apply GRel_refl.
  - destruct s; [eapply IHk; eauto|].
    match type of H with (let '(_, _) := ?Z in _) = _ => destruct Z as [w1 [r1 o]] eqn:E end.
    apply (m_build_file_G p c f a kw _ Hp) with (t := target) in E.
    + apply IHk in H. eapply GRel_trans; [exact E | exact H].
    + intros sa skw. apply IHfn.
  - destruct s; [eapply IHk; eauto|].
    match type of H with (let '(_, _) := ?Z in _) = _ => destruct Z as [w1 [r1 o]] eqn:E end.
    apply (m_subbuild_G f a kw _ target) in E.
    + apply IHk in H. eapply GRel_trans; [exact E | exact H].
    + intros sa skw. apply pres_None_G. apply IHfn.
Qed.

End RunG.
