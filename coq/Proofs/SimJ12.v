(* Proofs/SimJ12.v — HASH records across builds, part 2 (SimC15 with hk = true): every record of
   the NEW cache of a build satisfies SimB7.rec_ok true (in particular: the suboperations of a
   file record satisfy it under the record's own target — the first conjunct of
   SimJ4.subs_staticH), for a previous cache of the class okcH and with NO condition on the
   comparison modes of the program (SimC15.new_cache_rec_ok asks QueriesOk and CmpMeta).     *)
From Coq Require Import List String Ascii NArith ZArith Bool Arith Lia.
From FB.Base Require Import PyVal Fs.
From FB.Gen Require Import JsonUtilGen.
From FB.Spec Require Import JsonSpec Prog Ref Oracle Faithful.
From FB.Model Require Import Types Monad CreatedFiles BuildDirs SimpleOps Builder Persist Build Run Frame Core CoreOracle.
From FB.Proofs Require Import FsLemmas JsonLaws ReplayLaws CleanLaws BuildFileLaws HashMemoInv HashMemoRun CoreLaws1 CoreLaws2 CoreLaws3
     ViewDefs ViewLemmas ViewFrame ViewInit ViewXDefs ViewXQuery ViewXMake1 ViewXMake2 ViewXFail ViewXSetup ViewXRun
     ViewR1 ViewR2 ViewR3 ViewK1 ViewK2 ViewK3 ViewK4 ViewK8
     SimA0 SimARun SimA1 SimA2Base SimA2 SimA3 SimA3Built SimA3Log SimAStart SimAMain
     SimB2 SimB7 SimB11 SimC0 SimC5 SimC9 SimC10 SimC11 SimC12 SimC14 SimC15 SimG5 SimJ4 SimJ9 SimJ11.
Import ListNotations.
Open Scope list_scope.

Lemma RkOkH_of_conditions : forall old pr st,
  AllTargets tgtP pr -> QueriesOkP pr -> NoNest st pr -> RkNew old st pr -> RkOkH old st pr.
Proof.
  intros old. induction pr as [v | e | stale q k IH | c k IH | stale p c f a kw fn IHfn k IHk | stale f a kw fn IHfn k IHk];
    intros st Hat Hqk Hnn Hnew.
  - constructor.
  - constructor.
  - inversion Hat as [| |s0 q0 k0 Hat'| | |]; subst. inversion Hqk as [| |s0 q0 k0 Hp Hqk'| | |]; subst.
    inversion Hnn as [| |st0 s0 q0 k0 Hnn'| | |]; subst.
    inversion Hnew as [| |st0 s0 q0 k0 Hgs Hnew'| | |]; subst.
    constructor; [|intro o; apply IH; auto].
    unfold qry_ok. rewrite Hp. cbn [andb]. destruct q as [x|x|x|x|x tf|x|x cm]; try reflexivity.
    + exfalso. apply (Hgs x). reflexivity.
    + destruct cm; reflexivity.
  - inversion Hat; subst. inversion Hqk; subst. inversion Hnn; subst. inversion Hnew; subst.
    constructor. apply IH; assumption.
  - inversion Hat as [| | | |s0 p0 c1 f0 a0 kw0 fn0 k0 Hp Hatf Hatk|]; subst.
    inversion Hqk as [| | | |s0 p0 c1 f0 a0 kw0 fn0 k0 Hqf Hqkk|]; subst.
    inversion Hnn as [| | | |st0 s0 p0 c1 f0 a0 kw0 fn0 k0 Hnp Hnf Hnk|]; subst.
    inversion Hnew as [| | | |st0 s0 p0 c1 f0 a0 kw0 fn0 k0 Hne Hup Hap Hnewf Hnewk|]; subst.
    constructor.
    + exact Hp.
    + destruct p; [contradiction|reflexivity].
    + apply forallb_forall. intros t Ht. unfold crossb. apply andb_true_iff. split; apply negb_true_iff.
      * apply is_ancestor_false_psuffix. apply Hnp. exact Ht.
      * apply is_ancestor_false_psuffix. apply Hup. exact Ht.
    + exact Hap.
    + intros p' a' k'. apply IHfn; auto.
    + intro o. apply IHk; auto.
  - inversion Hat as [| | | | |s0 f0 a0 kw0 fn0 k0 Hatf Hatk]; subst.
    inversion Hqk as [| | | | |s0 f0 a0 kw0 fn0 k0 Hqf Hqkk]; subst.
    inversion Hnn as [| | | | |st0 s0 f0 a0 kw0 fn0 k0 Hnf Hnk]; subst.
    inversion Hnew as [| | | | |st0 s0 f0 a0 kw0 fn0 k0 Hap Hnewf Hnewk]; subst.
    constructor; [exact Hap|intros a' k'; apply IHfn; auto|intro o; apply IHk; auto].
Qed.

Theorem new_cache_rec_okH : forall w cachefile old nm svers root w1 w2 r l,
  okcH (w_clock w) old -> fs_wf (w_fs w) -> old_ok old cachefile -> WfCache old -> old_keys_ok old -> w_faults w = [] ->
  path_ok (dirname cachefile) = true -> isdir (w_fs w) cachefile = false -> maxlen (w_fs w) < walk_fuel ->
  vdir (Build.start_world w cachefile old nm svers) (dirname cachefile) = true ->
  AllTargets tgtP root -> NoNest [] root -> QueriesOkP root -> WfArgs root ->
  TargetsClear old root -> TargetsApart old root ->
  RkNew old [] root ->
  make_dirs (dirname cachefile) (Build.start_world w cachefile old nm svers) = (w1, inl []) ->
  run root None [] (set_log (LInvoke "<root>"%string None PNone PNone :: w_log w1) w1) = (w2, (r, l)) ->
  (forall p o, cache_get_file (w_new w2) p = Some o -> rec_ok true [] o = true) /\
  (forall k o, subs_get (c_subs (w_new w2)) k = Some (Some o) -> rec_ok true [] o = true) /\
  (forall p p' c' f' a' k' subs' r' cr' ra' sf', cache_get_file (w_new w2) p = Some (OBuildFile p' c' f' a' k' subs' r' cr' ra' sf') ->
     forallb (rec_ok true [p']) subs' = true).
Proof.
  intros w cachefile old nm svers root w1 w2 r l Hokc Hwf Hok HW HKo HF Hp Hnc Hml Hd Hat Hnn Hqk Hwa Hcl Hap Hnew Emk Erun.
  destruct (build_run_hash w cachefile old nm svers root w1 w2 r l Hokc Hwf Hok HW HKo HF Hp Hnc Hml Hd Hat Hnn Hqk Hwa Hcl Hap Emk Erun)
    as (s1 & pd & sb & T' & W' & Ecore & [HS _]).
  pose proof (Sim4_sim3 _ _ _ _ HS) as HS3.
  pose proof (RkOkH_of_conditions old root [] Hat Hqk Hnn Hnew) as Hrk.
  set (s0 := ViewK4.core_start (w_fs w) cachefile old svers (w_clock w) (w_nextid w) (LInvoke "<root>"%string None PNone PNone :: w_log w1)) in *.
  assert (HT0: KTabH s0) by (split; intros q x []).
  destruct (core_run_rkH old (okcH_ClassRkH _ _ Hokc) root [] Hrk None None [] s0 s1 r pd sb (eq_refl : k_old s0 = old) HT0 eq_refl Ecore) as ([T1 T2] & _ & _).
  assert (A: forall p o, cache_get_file (w_new w2) p = Some o -> rec_ok true [] o = true).
  { intros p o Hg. pose proof (s3_recF _ _ _ HS3 p) as K. rewrite Hg in K.
    destruct (kf_get (k_newF s1) p) as [o'|] eqn:E; [|contradiction].
    rewrite <- (rec_rel_rec_ok true o o' [] K). apply (T1 p o'). apply kf_get_in. exact E. }
  split; [exact A|]. split.
  - intros k o Hg. pose proof (s3_recS _ _ _ HS3 k) as K. rewrite Hg in K.
    destruct (ks_get (k_newS s1) k) as [o'|] eqn:E; [|contradiction].
    rewrite <- (rec_rel_rec_ok true o o' [] K). destruct (ks_get_in _ _ _ E) as [q Hq]. apply (T2 q o' Hq).
  - intros p p' c' f' a' k' subs' r' cr' ra' sf' Hg. pose proof (A _ _ Hg) as K. cbn [rec_ok] in K.
    apply andb_true_iff in K. destruct K as [_ K]. exact K.
Qed.

Print Assumptions new_cache_rec_okH.
