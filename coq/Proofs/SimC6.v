(* Proofs/SimC6.v — glue SimA/SimB, part 6: the lookup of build_file.  For a previous cache of the
   class SimC0.okc, in the state after the setup of the target (SimA0.SimSetup), with the
   targets of W claimed and the files written in this build newer than c0:
     file_lookup5   _build_file_cache_lookup returns a record iff Core's hit condition holds
                    (the conclusion of SimA0.lookup_agree_hyp_for);
     file_lookup_rr with the replay relation of SimB4 between the final overlay and the scratch
                    state that Core adopts.                                                *)
From Coq Require Import List String Ascii NArith ZArith Bool Arith Lia.
From FB.Base Require Import PyVal Fs.
From FB.Gen Require Import JsonUtilGen.
From FB.Spec Require Import JsonSpec Prog Ref Oracle Faithful.
From FB.Model Require Import Types Monad CreatedFiles BuildDirs SimpleOps Builder Persist Build Run Frame Core CoreOracle.
From FB.Proofs Require Import FsLemmas JsonLaws ReplayLaws BuildFileLaws CoreLaws1 CoreLaws2 CoreLaws3 CoreLaws4
     ViewDefs ViewLemmas ViewXDefs ViewXFail ViewXSetup ViewH4 ViewH5 ViewH6 ViewR2 ViewR3 ViewK3 ViewK4 ViewK8
     SimA0 SimARun SimA2Base SimB1 SimB2 SimB3 SimB4 SimB7 SimB8 SimB9 SimC0 SimC1 SimC5.
Import ListNotations.
Open Scope list_scope.
Open Scope m_scope.

Local Notation RInv2' := (RInv2 (fun _ => True)).

Lemma core_hit_file_hit : forall s0 p f sa skw, core_hit s0 s0 p f sa skw = core_file_hit s0 p f sa skw.
Proof. reflexivity. Qed.

(* a record that is not a successful build_file record is not served, on either side *)
Lemma lookup_unservable : forall p f sa skw w,
  (forall p' c' f' a' k' subs' r' cr' sf', cache_get_file (w_old w) p <> Some (OBuildFile p' c' f' a' k' subs' r' cr' false sf')) ->
  build_file_cache_lookup p f sa skw w = (w, inl None) /\ forall s, k_old s = w_old w -> core_file_hit s p f sa skw = None.
Proof.
  intros p f sa skw w H. split.
  - unfold build_file_cache_lookup, bind, get.
    destruct (cache_get_file (w_old w) p) as [[q0 r0 e0|p' c' f' a' k' subs' rt' cr' ra' sf'|f0 a0 k0 sb0 r0 ra0 sf0]|] eqn:Eg; try reflexivity.
    destruct ra'; [reflexivity|]. exfalso. eapply H. reflexivity.
  - intros s Es. unfold core_file_hit. rewrite Es.
    destruct (cache_get_file (w_old w) p) as [[q0 r0 e0|p' c' f' a' k' subs' rt' cr' ra' sf'|f0 a0 k0 sb0 r0 ra0 sf0]|] eqn:Eg; try reflexivity.
    destruct ra'; [reflexivity|]. exfalso. eapply H. reflexivity.
Qed.

Section FileLookup.
  Variables (c0 : N) (T W : list path) (w : world) (s0 : kstate) (p : path).
  Hypothesis Hokc : okc c0 (w_old w).
  Hypothesis HSS : SimSetup T W p w s0.
  Hypothesis Htg : tgtP p.
  Hypothesis Hncf : path_eqb p (w_cachefile w) = false.
  Hypothesis HWcl : forall q, mem_path q W = true -> cache_has_file (w_new w) q = true.
  Hypothesis Hnew : forall q g, mem_path q W = true ->
    lookup (w_fs w) q = Some (NFile g) \/ lookup (k_fs s0) q = Some (NFile g) -> (c0 < f_mtime g)%N.

  Let s' := with_sd s0 (sdl w).

  Lemma fl_facts :
    Sim3 W w s' /\ BInv w /\ RInv (p :: T) w /\ maxlen (w_fs w) < walk_fuel /\ KInv s' (Some p) /\
    p <> [] /\ path_ok p = true /\ cache_has_file (w_new w) p = false.
  Proof.
    destruct HSS as (HP & HL & Hunc & Hnd).
    pose proof (s4_rinv _ _ _ _ HP) as HR2. pose proof (RInv2_R' _ _ HR2) as HR. pose proof (RInv_X _ _ HR) as HX.
    split; [apply with_sd_Sim3; apply (s4_sim _ _ _ _ HP)|]. split; [apply (x_binv _ _ HX)|]. split; [exact HR|].
    split; [apply (RInv2_maxlen _ _ HR2)|]. split; [apply with_sd_KInv; apply (kinv_of_setup _ _ _ _ _ HSS)|].
    split; [apply (x_tgt _ _ HX p (or_introl eq_refl))|]. split; [|exact Hunc].
    unfold tgtP, tgt_ok in Htg. apply andb_true_iff in Htg. apply Htg.
  Qed.

  (* the side condition of SimB8 on the record of the target *)
  Lemma fl_rec_ok : forall rec, cache_get_file (w_old w) p = Some rec ->
    (forall p' c' f' a' k' subs' r' cr' sf', rec <> OBuildFile p' c' f' a' k' subs' r' cr' false sf') \/
    (file_rec_ok false W w s' p rec /\ wfrec rec = true /\
     exists p' c' f' a' k' subs' r' cr' sf', rec = OBuildFile p' c' f' a' k' subs' r' cr' false sf' /\
       subs_static (w_old w) c0 (Some p) subs' = true).
  Proof.
    intros rec Eg. pose proof (proj1 Hokc p rec Eg) as Hst.
    destruct rec as [q0 r0 e0|p' c' f' a' k' subs' rt' cr' ra' sf'|f0 a0 k0 sb0 r0 ra0 sf0]; try (left; intros; discriminate).
    destruct ra'; [left; intros; discriminate|]. right.
    cbn [frec_static orb] in Hst. apply andb_true_iff in Hst. destruct Hst as [Hst H].
    apply andb_true_iff in H. destruct H as [H Hsubs]. apply andb_true_iff in H. destruct H as [H Htgt].
    apply andb_true_iff in H. destruct H as [Hpn Hcmp].
    apply path_eqb_eq in Hst. subst p'.
    apply negb_true_iff in Hpn.
    split; [|split].
    - cbn [file_rec_ok]. split; [reflexivity|]. split; [intros _; split; assumption|].
      apply (static_subs_ok c0 W w s'); [|exact Hsubs]. intros q g Hq Hg. apply (Hnew q g Hq). exact Hg.
    - cbn [wfrec]. rewrite Hpn, Htgt. cbn [orb negb andb].
      destruct (static_parts _ _ _ _ Hsubs) as (_ & _ & _ & _ & _ & _ & K). exact K.
    - exists p, c', f', a', k', subs', rt', cr', sf'. split; [reflexivity|exact Hsubs].
  Qed.

  Lemma fl_hit_sd : forall f sa skw, core_file_hit s' p f sa skw = core_file_hit s0 p f sa skw.
  Proof.
    intros f sa skw. apply core_file_hit_sd. intros p' c' f' a' k' subs' r' cr' sf' Eg.
    destruct HSS as (HP & _). rewrite (s3_old _ _ _ (s4_sim _ _ _ _ HP)) in Eg.
    destruct (fl_rec_ok _ Eg) as [K|(_ & _ & (p2 & c2 & f2 & a2 & k2 & sb2 & r2 & cr2 & sf2 & E & Hst))].
    - exfalso. eapply K. reflexivity.
    - inversion E; subst. destruct (static_parts _ _ _ _ Hst) as (_ & K & _). exact K.
  Qed.

  (* the lookup on both sides, with the replay relation when both accept *)
  Theorem file_lookup_rr : forall f sa skw wl res,
    build_file_cache_lookup p f sa skw w = (wl, res) ->
    good w wl /\
    match core_hit s0 s0 p f sa skw with
    | None => res = inl None
    | Some (g, subs', ret', r) =>
        exists rec cf Tl M, res = inl (Some rec) /\ cache_get_file (w_old w) p = Some rec /\
          op_subs rec = subs' /\ op_ret rec = ret' /\ lookup (w_fs w) p = Some (NFile g) /\
          RRel W w s' [] Tl cf r M /\ (forall t, In t Tl -> In t (flat_map regp subs')) /\
          (forall t, In t (flat_map adp subs') -> In t Tl)
    end.
  Proof.
    intros f sa skw wl res H.
    destruct fl_facts as (HS & HB & HR & Hml & HK & Hne & Hpok & Hunc).
    rewrite core_hit_file_hit, <- fl_hit_sd.
    destruct (cache_get_file (w_old w) p) as [rec|] eqn:Eg.
    2:{ destruct (lookup_unservable p f sa skw w) as [A B]; [intros; rewrite Eg; discriminate|].
        rewrite A in H. inversion H; subst. split; [apply good_refl; exact HB|].
        rewrite (B s' (s3_old _ _ _ HS)). reflexivity. }
    destruct (fl_rec_ok rec Eg) as [K|(Hok & Hwf & _)].
    { destruct (lookup_unservable p f sa skw w) as [A B]; [intros; rewrite Eg; intro E; inversion E; subst; eapply K; reflexivity|].
      rewrite A in H. inversion H; subst. split; [apply good_refl; exact HB|].
      rewrite (B s' (s3_old _ _ _ HS)). reflexivity. }
    assert (P: forall rec', cache_get_file (w_old w) p = Some rec' -> file_rec_ok false W w s' p rec').
    { intros rec' E'. rewrite Eg in E'. inversion E'; subst rec'. exact Hok. }
    pose proof (file_lookup_agree false W w s' HS HB HWcl Hml ltac:(discriminate) (fun q => sdl_HSD1 w q HB) (sdl_HSD2 w) p f sa skw wl res HK Hne Hpok Hunc Hncf P H) as Q.
    rewrite Eg in Q. exact Q.
  Qed.

  (* the decision: the conclusion of SimA0.lookup_agree_hyp_for *)
  Theorem file_lookup5 : forall f sa skw wl cached,
    build_file_cache_lookup p f sa skw w = (wl, inl cached) ->
    (cached = None <-> core_hit s0 s0 p f sa skw = None).
  Proof.
    intros f sa skw wl cached H. destruct (file_lookup_rr f sa skw wl (inl cached) H) as [_ P].
    destruct (core_hit s0 s0 p f sa skw) as [[[[g subs'] ret'] r]|].
    - destruct P as (rec & cf & Tl & M & E & _). inversion E; subst. split; discriminate.
    - inversion P; subst. split; reflexivity.
  Qed.
End FileLookup.

Print Assumptions file_lookup5.
