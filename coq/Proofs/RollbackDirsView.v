(* Proofs/RollbackDirsView.v — the read-only routines (queries, cache lookups, the
   virtual view) and the BuildDirs bookkeeping: besides leaving everything but the
   "view" alone (ReplayLaws, [same_but_view]) they keep the lock counts and the two
   lists of created directories, and whatever they put into _removed_dirs /
   _maybe_removed_dirs was in one of the two before.  This is the part of the
   BuildDirs analysis that the directory half of the rollback law (RollbackDirsMain)
   needs. *)
From Coq Require Import List String Ascii NArith ZArith Bool Arith Lia.
From FB.Base Require Import PyVal Fs.
From FB.Gen Require Import JsonUtilGen.
From FB.Spec Require Import Prog.
From FB.Model Require Import Types Monad CreatedFiles BuildDirs SimpleOps Builder Persist Build Run Frame.
From FB.Proofs Require Import FsLemmas ReplayLaws FrameLaws RollbackDirsLaws.
Import ListNotations.
Local Open Scope list_scope.

(* ================================================================== *)
(* 1. The relation on the bookkeeping                                  *)
(* ================================================================== *)

Definition bd_le (b b' : bdirs) : Prop :=
  bd_counts b' = bd_counts b /\ bd_created b' = bd_created b /\ bd_err_created b' = bd_err_created b /\
  (forall d, In d (bd_removed b') \/ In d (bd_maybe b') -> In d (bd_removed b) \/ In d (bd_maybe b)).

Lemma bd_le_refl : forall b, bd_le b b.
Proof. intro b. unfold bd_le. repeat split; auto. Qed.

Lemma bd_le_trans : forall a b c, bd_le a b -> bd_le b c -> bd_le a c.
Proof.
  unfold bd_le. intros a b c (A1 & A2 & A3 & A4) (B1 & B2 & B3 & B4).
  repeat split; try congruence. intros d H. apply A4, B4, H.
Qed.

Lemma In_add_path : forall x p l, In x (add_path p l) <-> x = p \/ In x l.
Proof.
  intros x p l. unfold add_path. destruct (mem_path p l) eqn:E.
  - split; [auto|]. intros [->|H]; [apply mem_path_In; exact E | exact H].
  - rewrite in_app_iff. cbn [In]. split.
    + intros [H|[H|[]]]; [right; exact H | left; symmetry; exact H].
    + intros [H|H]; [right; left; symmetry; exact H | left; exact H].
Qed.

Lemma hde2_le : forall p b, bd_le b (hde2 b p).
Proof.
  induction p as [|n d IH]; intro b; cbn [hde2]; destruct (mem_path _ (bd_exists b)); try apply bd_le_refl.
  - unfold bd_le. cbn. repeat split; auto.
  - eapply bd_le_trans; [|apply IH]. unfold bd_le. cbn. repeat split; auto.
Qed.

Lemma handle_dir_exists_le : forall p b, bd_le b (handle_dir_exists b p).
Proof.
  induction p as [|n d IH]; intro b; cbn [handle_dir_exists];
    destruct (mem_path _ (bd_exists b) || in_counts b _); try apply hde2_le.
  - unfold bd_le. cbn. repeat split; auto. intros x [H|H]; apply In_del_path in H; auto.
  - eapply bd_le_trans; [|apply IH]. unfold bd_le. cbn. repeat split; auto.
    intros x [H|H]; apply In_del_path in H; auto.
Qed.

Definition scan_le (b : bdirs) (r : scanres) : Prop :=
  match r with ScanOk b' _ => bd_le b b' | ScanErr b' _ => bd_le b b' | ScanFuel => True end.

Lemma scan_le_trans : forall a b r, bd_le a b -> scan_le b r -> scan_le a r.
Proof. intros a b r H. destruct r; cbn; intro X; try exact I; eapply bd_le_trans; eauto. Qed.

Lemma check_maybe_le : forall fuel fs b d, mem_path d (bd_maybe b) = true -> scan_le b (check_maybe fuel fs b d).
Proof.
  induction fuel as [|fuel IHf]; intros fs b d Hm; [exact I|].
  cbn [check_maybe]. cbv zeta.
  set (b0 := bd_with b (bd_counts b) (bd_created b) (bd_err_created b) (bd_removed b)
                     (bd_exists b) (del_path d (bd_maybe b)) (bd_removed_files b)).
  apply mem_path_In in Hm.
  assert (L0 : bd_le b b0).
  { subst b0. unfold bd_le. cbn. repeat split; auto. intros x [H|H]; [auto|]. apply In_del_path in H. auto. }
  assert (Hadd : forall b1, bd_le b b1 ->
            bd_le b (bd_with b1 (bd_counts b1) (bd_created b1) (bd_err_created b1) (add_path d (bd_removed b1))
                             (bd_exists b1) (bd_maybe b1) (bd_removed_files b1))).
  { intros b1 (A1 & A2 & A3 & A4). unfold bd_le. cbn. repeat split; auto.
    intros x [H|H]; [|apply A4; auto]. apply In_add_path in H. destruct H as [->|H]; [auto | apply A4; auto]. }
  destruct (listdir fs d) as [names|e].
  - match goal with |- scan_le b (?F names b0) =>
      assert (Hloop : forall ns b1, bd_le b b1 -> scan_le b (F ns b1))
    end.
    { induction ns as [|n ns IHn]; intros b1 Hb1; cbn beta iota fix.
      - cbn [scan_le]. apply Hadd. exact Hb1.
      - cbv zeta.
        destruct (mem_path (n :: d) (bd_removed b1)).
        { destruct (isfile fs (n :: d)); [|apply IHn; exact Hb1].
          cbn [scan_le]. eapply bd_le_trans; [exact Hb1 | apply handle_dir_exists_le]. }
        destruct (mem_path (n :: d) (bd_removed_files b1)).
        { destruct (isdir fs (n :: d)); [|apply IHn; exact Hb1].
          cbn [scan_le]. eapply bd_le_trans; [exact Hb1 | apply handle_dir_exists_le]. }
        destruct (mem_path (n :: d) (bd_maybe b1)) eqn:Em.
        + pose proof (IHf fs b1 (n :: d) Em) as R.
          destruct (check_maybe fuel fs b1 (n :: d)) as [b2 [|]|b2 e2|]; cbn [scan_le] in R |- *.
          * apply IHn. eapply bd_le_trans; eauto.
          * eapply bd_le_trans; eauto.
          * eapply bd_le_trans; eauto.
          * exact I.
        + cbn [scan_le]. destruct (isdir fs (n :: d)); (eapply bd_le_trans; [exact Hb1 | apply handle_dir_exists_le]). }
    apply Hloop. exact L0.
  - destruct e; cbn [scan_le]; try exact L0.
    + apply Hadd. exact L0.
    + eapply bd_le_trans; [exact L0 | apply handle_dir_exists_le].
Qed.

Lemma is_removed_le : forall fs b d, scan_le b (is_removed fs b d).
Proof.
  intros fs b d. unfold is_removed.
  destruct (in_counts b d); [apply bd_le_refl|].
  destruct (mem_path d (bd_removed b)); [apply bd_le_refl|].
  destruct (mem_path d (bd_maybe b)) eqn:E; cbn [negb]; [|apply bd_le_refl].
  apply check_maybe_le. exact E.
Qed.

(* a directory reported as removed was in one of the two lists *)
Lemma is_removed_true : forall fs b d b', is_removed fs b d = ScanOk b' true ->
  In d (bd_removed b) \/ In d (bd_maybe b).
Proof.
  intros fs b d b' H. unfold is_removed in H.
  destruct (in_counts b d); [discriminate H|].
  destruct (mem_path d (bd_removed b)) eqn:E1; [left; apply mem_path_In; exact E1|].
  destruct (mem_path d (bd_maybe b)) eqn:E2; cbn [negb] in H; [|discriminate H].
  right. apply mem_path_In. exact E2.
Qed.

(* ================================================================== *)
(* 2. The relation on worlds                                           *)
(* ================================================================== *)

Definition view_rel (w w' : world) : Prop := same_but_view w w' /\ bd_le (w_bd w) (w_bd w').

Lemma view_refl : forall w, view_rel w w.
Proof. intro w. split; [apply svb_refl | apply bd_le_refl]. Qed.
Lemma view_trans : forall a b c, view_rel a b -> view_rel b c -> view_rel a c.
Proof. intros a b c [A1 A2] [B1 B2]. split; [eapply svb_trans; eauto | eapply bd_le_trans; eauto]. Qed.
Definition viewPO : PO := {| rel := view_rel; po_refl := view_refl; po_trans := view_trans |}.

Lemma view_svb : forall w w', viewPO w w' -> svbPO w w'.
Proof. intros w w' [H _]. exact H. Qed.

Ltac view_solve :=
  lazymatch goal with |- rel viewPO ?a ?b => change (view_rel a b) | _ => idtac end;
  first [ apply view_refl
        | split; [unfold same_but_view; cbn; repeat split; reflexivity | cbn; apply bd_le_refl] ].

Ltac raw_view f :=
  intros w w' r H; unfold f in H; cbv zeta in H; repeat dm H; inversion H; subst; view_solve.

Lemma m_handle_dir_exists_view : forall d, pres viewPO (m_handle_dir_exists d).
Proof.
  intro d. unfold m_handle_dir_exists. apply pres_modify. intro w. split.
  - unfold same_but_view; cbn; repeat split; reflexivity.
  - cbn. apply handle_dir_exists_le.
Qed.

Lemma m_is_removed_view : forall d, pres viewPO (m_is_removed d).
Proof.
  intros d w w' r H. unfold m_is_removed in H. pose proof (is_removed_le (w_fs w) (w_bd w) d) as L.
  destruct (is_removed (w_fs w) (w_bd w) d) as [b x|b e|]; inversion H; subst; cbn [scan_le] in L.
  - split; [unfold same_but_view; cbn; repeat split; reflexivity | exact L].
  - split; [unfold same_but_view; cbn; repeat split; reflexivity | exact L].
  - apply view_refl.
Qed.

Lemma is_file_no_read_view : forall p cf, pres viewPO (is_file_no_read p cf).
Proof. intros p cf. raw_view is_file_no_read. Qed.
Lemma is_cache_file_view : forall p, pres viewPO (is_cache_file p).
Proof. intros p. raw_view is_cache_file. Qed.
Lemma file_metadata_view : forall p, pres viewPO (file_metadata p).
Proof. intros p. raw_view file_metadata. Qed.
Lemma file_hash_view : forall p, pres viewPO (file_hash p).
Proof. intros p. raw_view file_hash. Qed.
Lemma list_dir_superset_view : forall d cf, pres viewPO (list_dir_superset d cf).
Proof. intros d cf. raw_view list_dir_superset. Qed.

#[local] Hint Resolve m_handle_dir_exists_view m_is_removed_view is_file_no_read_view is_cache_file_view
  file_metadata_view file_hash_view list_dir_superset_view : pres.

Lemma file_comparison_result_view : forall p c, pres viewPO (file_comparison_result p c).
Proof. intros p c. unfold file_comparison_result. pres_auto. Qed.
#[local] Hint Resolve file_comparison_result_view : pres.

Lemma m_is_file_view : forall p cf, pres viewPO (m_is_file p cf).
Proof. intros p cf. unfold m_is_file. pres_auto. Qed.
Lemma m_is_dir_view : forall p cf, pres viewPO (m_is_dir p cf).
Proof. intros p cf. unfold m_is_dir. pres_auto. Qed.
#[local] Hint Resolve m_is_file_view m_is_dir_view : pres.

Lemma m_exists_view : forall p cf, pres viewPO (m_exists p cf).
Proof. intros p cf. unfold m_exists. pres_auto. Qed.
#[local] Hint Resolve m_exists_view : pres.

Lemma m_get_size_view : forall p cf, pres viewPO (m_get_size p cf).
Proof. intros p cf. unfold m_get_size. pres_auto. Qed.
Lemma m_read_view : forall p c cf, pres viewPO (m_read p c cf).
Proof. intros p c cf. unfold m_read. pres_auto. Qed.
Lemma m_assert_is_dir_view : forall p cf, pres viewPO (m_assert_is_dir p cf).
Proof. intros p cf. unfold m_assert_is_dir. pres_auto. Qed.
#[local] Hint Resolve m_get_size_view m_read_view m_assert_is_dir_view : pres.

Lemma m_list_dir_view : forall d cf, pres viewPO (m_list_dir d cf).
Proof. intros d cf. unfold m_list_dir. pres_auto. apply filterM_pres. intro; pres_auto. Qed.
Lemma classify_view : forall d cf l, pres viewPO (classify d cf l).
Proof. intros d cf l. induction l as [|n l IH]; cbn [classify]; pres_auto. Qed.
#[local] Hint Resolve m_list_dir_view classify_view : pres.

Lemma append_walk_view : forall fuel d td cf, pres viewPO (append_walk fuel d td cf).
Proof.
  induction fuel as [|fuel IH]; intros d td cf; cbn [append_walk].
  - apply pres_raise.
  - pres_auto.
    generalize (fst a0). intro ds. induction ds as [|n ds IHds].
    + apply pres_ret.
    + pres_auto.
Qed.
#[local] Hint Resolve append_walk_view : pres.

Lemma m_walk_view : forall d td cf, pres viewPO (m_walk d td cf).
Proof. intros d td cf. unfold m_walk. pres_auto. Qed.
#[local] Hint Resolve m_walk_view : pres.

Lemma exec_query_view : forall q cf, pres viewPO (exec_query q cf).
Proof. intros q cf. destruct q; cbn [exec_query]; pres_auto. Qed.
#[local] Hint Resolve exec_query_view : pres.

Lemma noneable_cmp_view : forall p c, pres viewPO (noneable_cmp p c).
Proof. intros p c. unfold noneable_cmp. pres_auto. Qed.
Lemma version_equal_view : forall f, pres viewPO (version_equal f).
Proof. intros f. unfold version_equal. pres_auto. Qed.
#[local] Hint Resolve noneable_cmp_view version_equal_view : pres.

Lemma is_build_file_cached_view : forall p c r, pres viewPO (is_build_file_cached p c r).
Proof. intros p c r. unfold is_build_file_cached. pres_auto. Qed.
Lemma dirs_to_make_view : forall p cf, pres viewPO (dirs_to_make p cf).
Proof. induction p as [|n d IH]; intro cf; cbn [dirs_to_make]; pres_auto. Qed.
Lemma is_simple_operation_cached_view : forall q r ex cf, pres viewPO (is_simple_operation_cached q r ex cf).
Proof. intros q r ex cf. unfold is_simple_operation_cached. pres_auto. Qed.
#[local] Hint Resolve is_build_file_cached_view dirs_to_make_view is_simple_operation_cached_view : pres.

Lemma is_op_cached_view : forall o cf, pres viewPO (is_op_cached o cf).
Proof.
  induction o as [q r e | p c f a k subs r cr ra sf IH | f a k subs r ra sf IH] using op_ind';
    intro cf; cbn [is_op_cached].
  - pres_auto.
  - pres_auto.
    all: try (eapply pres_ext; [intro; apply subs_go_eq | apply are_subs_cached_pres_F; exact IH]).
  - pres_auto.
    all: try (eapply pres_ext; [intro; apply subs_go_eq | apply are_subs_cached_pres_F; exact IH]).
Qed.
#[local] Hint Resolve is_op_cached_view : pres.

Lemma are_subs_cached_view : forall subs cf, pres viewPO (are_subs_cached subs cf).
Proof.
  intros subs cf. apply are_subs_cached_pres_F. apply Forall_forall. intros; apply is_op_cached_view.
Qed.
#[local] Hint Resolve are_subs_cached_view : pres.

Lemma build_file_cache_lookup_view : forall p f a k, pres viewPO (build_file_cache_lookup p f a k).
Proof. intros p f a k. unfold build_file_cache_lookup. pres_auto. Qed.
Lemma subbuild_cache_lookup_view : forall key f, pres viewPO (subbuild_cache_lookup key f).
Proof. intros key f. unfold subbuild_cache_lookup. pres_auto. Qed.

Lemma new_assert_no_file_view : forall p, pres viewPO (new_assert_no_file p).
Proof. intro p. unfold new_assert_no_file. pres_auto. Qed.
Lemma new_assert_no_subbuild_view : forall k, pres viewPO (new_assert_no_subbuild k).
Proof. intro k. unfold new_assert_no_subbuild. pres_auto. Qed.

Lemma m_query_view : forall q, pres viewPO (m_query q).
Proof.
  intros q w w' r H. unfold m_query in H.
  destruct (exec_query q None w) as [w1 x] eqn:E.
  apply exec_query_view in E. repeat dm H; inversion H; subst; exact E.
Qed.

(* what a negative answer of the virtual is_dir means *)
Lemma m_is_dir_false : forall d w w', m_is_dir d None w = (w', inl false) ->
  isdir (w_fs w) d = false \/ In d (bd_removed (w_bd w)) \/ In d (bd_maybe (w_bd w)).
Proof.
  intros d w w' H. unfold m_is_dir in H. cbn [cf_has_dir cf_has_file] in H.
  apply bind_inv in H. destruct H as [(w1 & r & E1 & H) | (e & _ & X)]; [|discriminate X].
  unfold m_is_removed in E1.
  destruct (is_removed (w_fs w) (w_bd w) d) as [b x|b e|] eqn:Er; inversion E1; subst; clear E1.
  destruct r.
  - right. eapply is_removed_true; eauto.
  - unfold bind at 1, get in H. cbn [w_fs set_bd] in H.
    destruct (isdir (w_fs w) d); [|left; reflexivity].
    apply bind_inv in H. destruct H as [(w2 & u & _ & H) | (e & _ & X)]; [inversion H | discriminate X].
Qed.

(* a positive answer: the directory is really there *)
Lemma m_is_dir_true : forall d w w', m_is_dir d None w = (w', inl true) -> isdir (w_fs w) d = true.
Proof.
  intros d w w' H. unfold m_is_dir in H. cbn [cf_has_dir cf_has_file] in H.
  apply bind_inv in H. destruct H as [(w1 & r & E1 & H) | (e & _ & X)]; [|discriminate X].
  pose proof (m_is_removed_view d _ _ _ E1) as [(F & _) _].
  destruct r; [inversion H|].
  unfold bind at 1, get in H. rewrite F in H.
  destruct (isdir (w_fs w) d); [reflexivity | inversion H].
Qed.
