(* Proofs/ViewDefs.v — C04: the virtual file-system VIEW of a world of the mechanism
   model, defined semantically (no use of the caches bd_exists / the split between
   bd_maybe and bd_removed / bd_removed_files), the invariant BInv tying the BuildDirs
   caches to the tree and the two caches, and validation on concrete worlds.

   What the code decides (SimpleOps.is_file_no_read, BuildDirs.is_removed/check_maybe):
   - a regular file on disk is HIDDEN iff it is the cache file, or it is claimed by this
     build and still in progress (w_new maps it to None), or it is not claimed by this
     build and the previous build recorded it as a successfully created output;
   - a directory d on disk is DEAD iff it is a *candidate* (tracked), it is not reserved
     by this build (not a key of bd_counts), and every entry physically in it is a hidden
     regular file or a dead directory.  (For a candidate that is not a directory on disk
     is_removed answers True when listing it fails with ENOENT and False when it fails with
     ENOTDIR; that answer never matters, is_dir then tests the disk: [dead] is false there.)
   DIFFERENCE WITH THE SKETCH OF THE BRIEF: the set of candidates is not the constant
   c_dirs (w_old w).  It is state: the union bd_maybe ∪ bd_removed.  It starts as
   c_dirs (w_old w) (bd_init), loses a directory as soon as that directory has been
   observed alive (handle_dir_exists) -- it then stays visible even if it is emptied
   later, exactly like the reference semantics, which cleans only once, before the build
   -- and gains the directories this build created for a target that failed (bd_error).
   Only the union matters for the view: which of the two lists holds a candidate is a
   cache (proved in ViewScan.v: the scan moves entries without changing the view). *)
From Coq Require Import List String Ascii NArith ZArith Bool Arith Lia.
From FB.Base Require Import PyVal Fs.
From FB.Model Require Import Types Monad CreatedFiles BuildDirs SimpleOps.
Import ListNotations.
Open Scope list_scope.

(* ------------------------------------------------------------------ the view *)

(* hidden regular files: what is_file_no_read answers "not a file" for *)
Definition hid (w : world) (p : path) : bool :=
  path_eqb p (w_cachefile w) ||
  (if cache_has_file (w_new w) p
   then match cache_get_file (w_new w) p with None => true | Some _ => false end
   else cache_created_file (w_old w) p).

(* candidates for removal that are not reserved *)
Definition trk (b : bdirs) (d : path) : bool :=
  (mem_path d (bd_maybe b) || mem_path d (bd_removed b)) && negb (in_counts b d).

Section Dead.
  Variable fs : fsT.
  Variables tr hd : path -> bool.

  Fixpoint deadF (fuel : nat) (d : path) : bool :=
    match fuel with
    | O => false
    | S f =>
        tr d &&
        match lookup fs d with
        | Some NDir =>
            forallb (fun n => match lookup fs (n :: d) with
                              | Some (NFile _) => hd (n :: d)
                              | Some NDir => deadF f (n :: d)
                              | None => true
                              end) (children fs d)
        | _ => false
        end
    end.
End Dead.

(* the longest path stored in the tree bounds the depth of the recursion *)
Definition maxlen (fs : fsT) : nat := fold_right (fun e m => Nat.max (List.length (fst e)) m) 0 fs.

Definition dead_gen (fs : fsT) (tr hd : path -> bool) (d : path) : bool :=
  deadF fs tr hd (S (maxlen fs - List.length d)) d.

Definition dead (w : world) (d : path) : bool := dead_gen (w_fs w) (trk (w_bd w)) (hid w) d.

Definition vfile (w : world) (p : path) : bool := isfile (w_fs w) p && negb (hid w p).
Definition vdir (w : world) (p : path) : bool := isdir (w_fs w) p && negb (dead w p).
Definition visible (w : world) (p : path) : bool :=
  match lookup (w_fs w) p with
  | Some (NFile _) => negb (hid w p)
  | Some NDir => negb (dead w p)
  | None => false
  end.

(* the view as a tree: the physical tree with the invisible entries marked absent *)
Definition view_fs (w : world) : fsT :=
  map (fun e => (fst e, if visible w (fst e) then snd e else None)) (w_fs w).

(* ------------------------------------------------------------------ the invariant *)

Definition suffix (x p : path) : Prop := exists l, p = l ++ x.            (* x is p or an ancestor of p *)
Definition psuffix (x p : path) : Prop := exists n l, p = (n :: l) ++ x.  (* x is a proper ancestor of p *)

Record BInv (w : world) : Prop := {
  (* whatever exists on disk hangs in a directory *)
  bi_wf : fs_wf (w_fs w);
  (* the sandbox root is not a candidate *)
  bi_root : trk (w_bd w) [] = false;
  (* reservations are closed upwards *)
  bi_counts_up : forall n d, in_counts (w_bd w) (n :: d) = true -> in_counts (w_bd w) d = true;
  (* bd_removed: known dead (the entry is kept, and meaningless, while the directory is reserved) *)
  bi_removed : forall d, mem_path d (bd_removed (w_bd w)) = true -> isdir (w_fs w) d = true ->
               in_counts (w_bd w) d = true \/ dead w d = true;
  (* bd_removed_files = the hidden regular files, as far as unreserved directories go *)
  bi_rf_hid : forall a, mem_path a (bd_removed_files (w_bd w)) = true -> isfile (w_fs w) a = true ->
              in_counts (w_bd w) (dirname a) = false -> hid w a = true;
  bi_hid_rf : forall a, isfile (w_fs w) a = true -> hid w a = true ->
              in_counts (w_bd w) (dirname a) = false -> mem_path a (bd_removed_files (w_bd w)) = true;
  (* no candidate directory is, or lies below, a path recorded as a previous output *)
  bi_rf_trk : forall a d, mem_path a (bd_removed_files (w_bd w)) = true ->
              mem_path d (bd_maybe (w_bd w)) = true \/ mem_path d (bd_removed (w_bd w)) = true ->
              ~ suffix a d;
  (* bd_exists: known alive, together with all their ancestors *)
  bi_exists : forall q x, mem_path q (bd_exists (w_bd w)) = true -> suffix x q -> dead w x = false
}.

(* two worlds with the same view (and the same tree and caches) *)
Record same_view (w w' : world) : Prop := {
  sv_fs : w_fs w' = w_fs w;
  sv_old : w_old w' = w_old w;
  sv_new : w_new w' = w_new w;
  sv_cf : w_cachefile w' = w_cachefile w;
  sv_counts : bd_counts (w_bd w') = bd_counts (w_bd w);
  sv_created : bd_created (w_bd w') = bd_created (w_bd w);
  sv_err : bd_err_created (w_bd w') = bd_err_created (w_bd w);
  sv_dead : forall x, dead w' x = dead w x
}.

(* the hash memo is right (only needed for the VALUE returned by read in HASH mode) *)
Definition hash_ok (w : world) : Prop :=
  forall p h bb f, hash_get (w_hash w) p = Some (h, bb) -> lookup (w_fs w) p = Some (NFile f) ->
                   h = hash_of (f_bytes f).

(* what a query leaves behind *)
Definition good (w w' : world) : Prop := BInv w' /\ same_view w w' /\ (hash_ok w -> hash_ok w').

(* ------------------------------------------------------------------ validation *)
Module ViewExamples.
  Open Scope string_scope.

  Definition fnode0 : fnode := {| f_bytes := "x"; f_mtime := 0%N; f_id := 0%N; f_json := None |}.
  Definition ok_op (p : path) : op :=
    OBuildFile p METADATA "f" PNone PNone [] PNone PNone false false.

  (* previous build: created directories a, a/b and the output a/b/o; a foreign file a/f *)
  Definition old1 : cache :=
    {| c_name := "n"; c_files := [(["o"; "b"; "a"], Some (ok_op ["o"; "b"; "a"]))]; c_subs := [];
       c_dirs := [["a"]; ["b"; "a"]]; c_fvers := PDict []; c_built := [] |}.
  Definition new0 : cache :=
    {| c_name := "n"; c_files := []; c_subs := []; c_dirs := []; c_fvers := PDict []; c_built := [] |}.
  Definition fs1 : fsT :=
    [ (["a"], Some NDir); (["b"; "a"], Some NDir); (["o"; "b"; "a"], Some (NFile fnode0));
      (["f"; "a"], Some (NFile fnode0)); (["cache"], Some (NFile fnode0)) ].
  Definition mkw (fs : fsT) (old new : cache) (b : bdirs) : world :=
    {| w_fs := fs; w_clock := 0%N; w_nextid := 0%N; w_old := old; w_new := new; w_bd := b;
       w_backups := []; w_lost := []; w_hash := []; w_cachefile := ["cache"]; w_log := [];
       w_faults := []; w_effects := 0 |}.
  Definition w1 : world := mkw fs1 old1 new0 (bd_init (c_dirs old1) [["o"; "b"; "a"]; ["cache"]]).

  Example a_visible : vdir w1 ["a"] = true. Proof. vm_compute. reflexivity. Qed.
  Example ab_dead : dead w1 ["b"; "a"] = true /\ vdir w1 ["b"; "a"] = false. Proof. vm_compute. auto. Qed.
  Example abo_hidden : vfile w1 ["o"; "b"; "a"] = false. Proof. vm_compute. reflexivity. Qed.
  Example af_visible : vfile w1 ["f"; "a"] = true. Proof. vm_compute. reflexivity. Qed.
  Example cache_hidden : vfile w1 ["cache"] = false. Proof. vm_compute. reflexivity. Qed.
  Example view1 :
    (lookup (view_fs w1) ["a"], lookup (view_fs w1) ["b"; "a"], lookup (view_fs w1) ["o"; "b"; "a"],
     lookup (view_fs w1) ["f"; "a"], lookup (view_fs w1) ["cache"], children (view_fs w1) ["a"], children (view_fs w1) [])
    = (Some NDir, None, None, Some (NFile fnode0), None, ["f"], ["a"]).
  Proof. vm_compute. reflexivity. Qed.

  (* the model gives the same answers, whatever the order of the questions *)
  Definition answers (w : world) (qs : list query) : list (pyval + exn) :=
    snd (fold_left (fun acc q => let '(w0, l) := acc in
                                 let '(w', r) := exec_query q None w0 in (w', (l ++ [r])%list)) qs (w, @nil (pyval + exn))).
  Example model1 :
    answers w1 [QIsDir ["b"; "a"]; QIsDir ["a"]; QListDir ["a"]; QExists ["o"; "b"; "a"]; QListDir []]
    = [inl (PBool false); inl (PBool true); inl (PList [PStr "f"]); inl (PBool false); inl (PList [PStr "a"])].
  Proof. vm_compute. reflexivity. Qed.
  Example model1' :
    answers w1 [QListDir []; QListDir ["a"]; QIsDir ["a"]; QIsDir ["b"; "a"]]
    = [inl (PList [PStr "a"]); inl (PList [PStr "f"]); inl (PBool true); inl (PBool false)].
  Proof. vm_compute. reflexivity. Qed.

  (* without the foreign file everything the previous build made is gone *)
  Definition fs2 : fsT :=
    [ (["a"], Some NDir); (["b"; "a"], Some NDir); (["o"; "b"; "a"], Some (NFile fnode0));
      (["cache"], Some (NFile fnode0)) ].
  Definition w2 : world := mkw fs2 old1 new0 (bd_init (c_dirs old1) [["o"; "b"; "a"]; ["cache"]]).
  Example a_dead2 : dead w2 ["a"] = true /\ children (view_fs w2) [] = [].
  Proof. vm_compute. auto. Qed.
  Example model2 : answers w2 [QIsDir ["a"]; QListDir []; QExists ["b"; "a"]]
    = [inl (PBool false); inl (PList []); inl (PBool false)].
  Proof. vm_compute. reflexivity. Qed.

  (* a reserved directory is never dead; an output in progress is hidden, a finished one visible *)
  Definition new3 : cache :=
    {| c_name := "n"; c_files := [(["o"; "b"; "a"], None)]; c_subs := []; c_dirs := []; c_fvers := PDict [];
       c_built := [["o"; "b"; "a"]] |}.
  Definition w3 : world :=
    mkw fs2 old1 new3 (fst (bd_started (bd_init (c_dirs old1) [["o"; "b"; "a"]; ["cache"]]) ["o"; "b"; "a"] [])).
  Example reserved3 : vdir w3 ["b"; "a"] = true /\ vdir w3 ["a"] = true /\ vfile w3 ["o"; "b"; "a"] = false.
  Proof. vm_compute. auto. Qed.
  Example model3 : answers w3 [QIsDir ["b"; "a"]; QExists ["o"; "b"; "a"]; QListDir ["b"; "a"]]
    = [inl (PBool true); inl (PBool false); inl (PList [])].
  Proof. vm_compute. reflexivity. Qed.
End ViewExamples.
