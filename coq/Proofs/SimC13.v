(* Proofs/SimC13.v — C01 (cache transparency) for the MECHANISM model: the user code run by the
   mechanism model (Model/Run.v [run root], from the world in which Build.m_build starts it) against
   the from-scratch build of the specification (Spec/Ref.v ref_build), up to the return of the root
   function.  SimC12.build_agree_okc (mechanism = Core) composed with CoreLaws6.build_transparent
   (Core = reference build).

   Hypotheses, grouped:
   USER OBLIGATIONS   Obeys F root, Respects F      names denote functions; build_file functions do
                                                    not distinguish JSON-equal arguments
   CONTENT/TIME       kp_init kp (w_fs w), kp_new kp (w_clock w)   METADATA (size + mtime) determines
                      content; the model's hash is injective (Spec/Faithful.v);
                      okc (w_clock w) old: in particular no modification time recorded in the
                      previous cache is later than the clock when the build starts
   PREVIOUS CACHE     cache_wf old, faithful_cache kp F old svers (every servable record is a trace
                      of its function; re-established by every build: CoreNext*.v), WfCache old,
                      old_keys_ok old, old_ok old cachefile (what reading a cache file gives), and
                      the class okc (SimC0: calm records — no nested build_file record that raised —,
                      METADATA comparisons only, no get_size in records, targets creatable and
                      pairwise different, nested outputs registered as outputs, subbuild keys from
                      well-formed arguments and pairwise different)
   THE WORLD          well-formed tree, no injected fault, the cache file is no directory, its
                      directory is visible when the build starts (ViewK3.Differ.cache_dir_invisible),
                      paths shorter than the fuel of walk
   PROGRAM            AllTargets tgtP, NoNest, QueriesOk, WfArgs, CmpMeta, TargetsClear, TargetsApart

   The commit phase (write the cache file, remove what is not needed any more) is NOT covered:
   CommitDirsMain.commit_leaves says which paths hold regular files after the commit, but not that
   the node of a target built in this build is the node of the view when the root function
   returned; [mech_commit_statement] states what remains.                                   *)
From Coq Require Import List String Ascii NArith ZArith Bool Arith Lia.
From FB.Base Require Import PyVal Fs.
From FB.Gen Require Import JsonUtilGen.
From FB.Spec Require Import JsonSpec Prog Ref Oracle Faithful.
From FB.Model Require Import Types Monad CreatedFiles BuildDirs SimpleOps Builder Persist Build Run Frame Core CoreOracle.
From FB.Proofs Require Import FsLemmas JsonLaws BuildFileLaws HashMemoInv CoreLaws1 CoreLaws2 CoreLaws6
     ViewDefs ViewLemmas ViewInit ViewXDefs ViewR2 ViewR3 ViewK3 ViewK4 ViewK8 SimA0 SimAMain SimC0 SimC12.
Import ListNotations.
Open Scope list_scope.

Theorem mech_C01 : forall (kp : kappa) (F : ftable) w cachefile old nm svers root w1 w2 r l,
  (* user obligations *)
  Obeys F root -> Respects F ->
  (* content / time *)
  kp_init kp (w_fs w) -> kp_new kp (w_clock w) ->
  (* the previous cache *)
  cache_wf old -> faithful_cache kp F old svers -> okc (w_clock w) old ->
  old_ok old cachefile -> WfCache old -> old_keys_ok old ->
  (* the world *)
  fs_wf (w_fs w) -> w_faults w = [] ->
  path_ok (dirname cachefile) = true -> isdir (w_fs w) cachefile = false -> maxlen (w_fs w) < walk_fuel ->
  vdir (Build.start_world w cachefile old nm svers) (dirname cachefile) = true ->
  (* the program *)
  AllTargets tgtP root -> NoNest [] root -> QueriesOk root -> WfArgs root -> CmpMeta root ->
  TargetsClear old root -> TargetsApart old root ->
  (* the mechanism model runs the root function *)
  make_dirs (dirname cachefile) (Build.start_world w cachefile old nm svers) = (w1, inl []) ->
  run root None [] (set_log (LInvoke "<root>"%string None PNone PNone :: w_log w1) w1) = (w2, (r, l)) ->
  let rr := ref_build (w_fs w) cachefile (prev_of_cache old) (w_clock w) (w_nextid w) root in
  (* same outcome *)
  r = rr_outcome rr /\
  (* the visible log of this build is a subsequence of the reference log *)
  (exists Lb L0, vis_log (w_log w2) = rev Lb ++ L0 /\ sublog Lb (rr_log rr)) /\
  (* the view is the reference tree up to modification times / inode numbers *)
  tree_equiv (view_fs w2) (rr_tree rr).
Proof.
  intros kp F w cachefile old nm svers root w1 w2 r l HO HR HI HN HCw HF Hokc Hok HW HKo Hwf Hfa Hp Hnc Hml Hd
         Hat Hnn Hqk Hwa Hcm Hcl Hap Emk Erun rr.
  destruct (build_agree_okc w cachefile old nm svers root w1 w2 r l Hokc Hwf Hok HW HKo Hfa Hp Hnc Hml Hd
              Hat Hnn Hqk Hwa Hcm Hcl Hap Emk Erun) as (A1 & (L0 & A2) & A3).
  destruct (build_transparent kp F (w_fs w) cachefile old svers (w_clock w) (w_nextid w) root HO HR HCw HF HI HN Hwf)
    as (B1 & B2 & B3).
  fold rr in B1, B2, B3.
  split; [rewrite <- A1; exact B1|]. split.
  - exists (cr_log (core_build (w_fs w) cachefile old svers (w_clock w) (w_nextid w) root)), L0. split; [exact A2|exact B3].
  - eapply te_trans; [eapply trel_te; exact A3|exact B2].
Qed.

Print Assumptions mech_C01.

(* every first build (no cache file yet): the cache conditions hold of the empty cache *)
Corollary mech_C01_first_build : forall (kp : kappa) (F : ftable) w cachefile nm svers root w1 w2 r l,
  let old := empty_cache nm svers in
  Obeys F root -> Respects F -> kp_init kp (w_fs w) -> kp_new kp (w_clock w) ->
  cache_wf old -> faithful_cache kp F old svers -> old_ok old cachefile ->
  fs_wf (w_fs w) -> w_faults w = [] ->
  path_ok (dirname cachefile) = true -> isdir (w_fs w) cachefile = false -> maxlen (w_fs w) < walk_fuel ->
  vdir (Build.start_world w cachefile old nm svers) (dirname cachefile) = true ->
  AllTargets tgtP root -> NoNest [] root -> QueriesOk root -> WfArgs root -> CmpMeta root ->
  make_dirs (dirname cachefile) (Build.start_world w cachefile old nm svers) = (w1, inl []) ->
  run root None [] (set_log (LInvoke "<root>"%string None PNone PNone :: w_log w1) w1) = (w2, (r, l)) ->
  let rr := ref_build (w_fs w) cachefile (prev_of_cache old) (w_clock w) (w_nextid w) root in
  r = rr_outcome rr /\
  (exists Lb L0, vis_log (w_log w2) = rev Lb ++ L0 /\ sublog Lb (rr_log rr)) /\
  tree_equiv (view_fs w2) (rr_tree rr).
Proof.
  intros kp F w cachefile nm svers root w1 w2 r l old HO HR HI HN HCw HF Hok Hwf Hfa Hp Hnc Hml Hd Hat Hnn Hqk Hwa Hcm Emk Erun.
  apply (mech_C01 kp F w cachefile old nm svers root w1 w2 r l); try assumption.
  - apply okc_empty.
  - split; [intros p rec H; discriminate|intros k rec H; discriminate].
  - intros p p' cm f a k subs r0 cr ra sf H. discriminate.
  - unfold TargetsClear. clear. induction root; constructor; auto; intros a0 [].
  - unfold TargetsApart. clear. induction root; constructor; auto; intros a0 [].
Qed.

(* what remains: the whole build, commit included (cf. SimAEx.commit_agree_statement for the
   link mechanism / Core; checked by evaluation there) *)
Definition mech_commit_statement : Prop :=
  forall (kp : kappa) (F : ftable) w cachefile nm vers svers root w' v,
    let old := old_cache_of (w_fs w) cachefile nm svers in
    sanitize vers = Some svers ->
    Obeys F root -> Respects F -> kp_init kp (w_fs w) -> kp_new kp (w_clock w) ->
    cache_wf old -> faithful_cache kp F old svers -> okc (w_clock w) old ->
    old_ok old cachefile -> WfCache old -> old_keys_ok old ->
    fs_wf (w_fs w) -> w_faults w = [] ->
    path_ok (dirname cachefile) = true -> isdir (w_fs w) cachefile = false -> maxlen (w_fs w) < walk_fuel ->
    vdir (Build.start_world w cachefile old nm svers) (dirname cachefile) = true ->
    AllTargets tgtP root -> NoNest [] root -> QueriesOk root -> WfArgs root -> CmpMeta root ->
    TargetsClear old root -> TargetsApart old root ->
    run_build cachefile nm vers root w = (w', Done (inl v)) ->
    let rr := ref_build (w_fs w) cachefile (prev_of_cache old) (w_clock w) (w_nextid w) root in
    rr_outcome rr = inl v /\
    forall p, p <> cachefile -> node_equiv (lookup (w_fs w') p) (lookup (rr_tree rr) p).
