(* Proofs/CoreLawsJson.v — value-level facts used by the cache transparency proof:
   structural equality is Leibniz, hashes are injective, and what the executor records
   for a query (up to JSON equality), put in the canonical form of [user_value], is the
   answer of the reference. *)
From Coq Require Import List String Ascii NArith ZArith Bool Arith Lia.
From FB.Base Require Import PyVal Fs.
From FB.Gen Require Import JsonUtilGen.
From FB.Spec Require Import JsonSpec Prog Ref Faithful.
From FB.Model Require Import Types SimpleOps Builder Persist Core.
From FB.Proofs Require Import FsLemmas JsonLaws.
Import ListNotations.
Open Scope list_scope.

(* ================================================================== *)
(** * pyval_same is Leibniz equality                                    *)
(* ================================================================== *)

Lemma fl_same_eq : forall a b, fl_same a b = true -> a = b.
Proof.
  destruct a, b; cbn [fl_same]; try discriminate.
  - intro H. apply eqb_prop in H. subst. reflexivity.
  - intro H. apply eqb_prop in H. subst. reflexivity.
  - rewrite !andb_true_iff, Pos.eqb_eq, Z.eqb_eq. intros [[H1 H2] H3].
    apply eqb_prop in H1. subst. reflexivity.
Qed.

Lemma pyval_same_list_eq : forall x y, pyval_same (PList x) (PList y) = all2 pyval_same x y.
Proof. induction x as [|a x IH]; destruct y as [|b y]; reflexivity. Qed.

Lemma pyval_same_tuple_eq : forall x y, pyval_same (PTuple x) (PTuple y) = all2 pyval_same x y.
Proof. induction x as [|a x IH]; destruct y as [|b y]; reflexivity. Qed.

Lemma all2_same_eq : forall l,
  Forall (fun a => forall b, pyval_same a b = true -> a = b) l ->
  forall l', all2 pyval_same l l' = true -> l = l'.
Proof.
  induction 1 as [|x l Hx Hl IH]; destruct l' as [|y l']; cbn [all2]; try discriminate; auto.
  intro H. apply andb_true_iff in H. destruct H as [A B].
  rewrite (Hx _ A), (IH _ B). reflexivity.
Qed.

Lemma dict_same_eq : forall d,
  Forall (fun kv => (forall b, pyval_same (fst kv) b = true -> fst kv = b) /\
                    (forall b, pyval_same (snd kv) b = true -> snd kv = b)) d ->
  forall d', pyval_same (PDict d) (PDict d') = true -> d = d'.
Proof.
  induction 1 as [|[k v] d [Hk Hv] Hd IH]; destruct d' as [|[k' v'] d']; try discriminate; auto.
  change (pyval_same (PDict ((k, v) :: d)) (PDict ((k', v') :: d')))
    with (pyval_same k k' && pyval_same v v' && pyval_same (PDict d) (PDict d')).
  rewrite !andb_true_iff. intros [[A B] C]. cbn [fst snd] in Hk, Hv.
  rewrite (Hk _ A), (Hv _ B), (IH _ C). reflexivity.
Qed.

Lemma pyval_same_eq : forall a b, pyval_same a b = true -> a = b.
Proof.
  induction a using pyval_ind'; intros b0 Hs; destruct b0; try discriminate.
  - reflexivity.
  - cbn in Hs. apply eqb_prop in Hs. subst. reflexivity.
  - cbn in Hs. apply Z.eqb_eq in Hs. subst. reflexivity.
  - cbn in Hs. apply fl_same_eq in Hs. subst. reflexivity.
  - cbn in Hs. apply String.eqb_eq in Hs. subst. reflexivity.
  - rewrite pyval_same_list_eq in Hs. rewrite (all2_same_eq l H _ Hs). reflexivity.
  - rewrite pyval_same_tuple_eq in Hs. rewrite (all2_same_eq l H _ Hs). reflexivity.
  - rewrite (dict_same_eq d H _ Hs). reflexivity.
  - cbn in Hs. apply Nat.eqb_eq in Hs. subst. reflexivity.
Qed.

(* ================================================================== *)
(** * hashes                                                            *)
(* ================================================================== *)

Lemma hash_of_inj : forall a b, hash_of a = hash_of b -> a = b.
Proof.
  intros a b H. unfold hash_of in H. cbn in H. injection H as H. exact H.
Qed.

Lemma is_equal_str_l : forall s v, is_equal (PStr s) v = true -> v = PStr s.
Proof.
  intros s v H. destruct v; try discriminate.
  cbn in H. apply String.eqb_eq in H. subst. reflexivity.
Qed.

Lemma is_equal_str_r : forall s v, is_equal v (PStr s) = true -> v = PStr s.
Proof.
  intros s v H. destruct v; try discriminate.
  cbn in H. apply String.eqb_eq in H. subst. reflexivity.
Qed.

Lemma is_equal_str_either : forall s v,
  is_equal v (PStr s) = true \/ is_equal (PStr s) v = true -> v = PStr s.
Proof. intros s v [H|H]; [apply is_equal_str_r | apply is_equal_str_l]; exact H. Qed.

Lemma is_equal_hash : forall r b b',
  is_equal r (hash_of b) = true \/ is_equal (hash_of b) r = true ->
  is_equal r (hash_of b') = true \/ is_equal (hash_of b') r = true -> b = b'.
Proof.
  intros r b b' H1 H2. apply hash_of_inj.
  apply is_equal_str_either in H1. apply is_equal_str_either in H2.
  unfold hash_of. congruence.
Qed.

(* ================================================================== *)
(** * queries                                                           *)
(* ================================================================== *)

Lemma query_beq_eq : forall q q', query_beq q q' = true -> q = q'.
Proof.
  intros q q' H. destruct q, q'; cbn [query_beq] in H; try discriminate;
    try (apply path_eqb_eq in H; subst; reflexivity).
  - apply andb_true_iff in H. destruct H as [A B].
    apply path_eqb_eq in A. apply eqb_prop in B. subst. reflexivity.
  - apply andb_true_iff in H. destruct H as [A B].
    apply path_eqb_eq in A. subst. destruct c, c0; try discriminate; reflexivity.
Qed.

(* ================================================================== *)
(** * canonical forms                                                   *)
(* ================================================================== *)

Lemma strs_of_all2 : forall ns l ns',
  strs_of l = Some ns' -> all2 is_equal (map PStr ns) l = true -> ns' = ns.
Proof.
  induction ns as [|n ns IH]; intros l ns' Hs Ha; destruct l as [|x l];
    cbn [map all2] in Ha; try discriminate.
  - cbn in Hs. injection Hs as <-. reflexivity.
  - apply andb_true_iff in Ha. destruct Ha as [A B].
    apply is_equal_str_l in A. subst x. cbn [strs_of] in Hs.
    destruct (strs_of l) as [ns0|] eqn:E; [|discriminate].
    injection Hs as <-. rewrite (IH l ns0 E B). reflexivity.
Qed.

Lemma canon_strlist_names : forall ns r u,
  is_equal (names_val ns) r = true -> canon_strlist r = Some u -> u = names_val ns.
Proof.
  intros ns r u He Hc. unfold names_val in He. rewrite is_equal_list_eq in He.
  destruct r; cbn [seq_eqn] in He; try discriminate; cbn [canon_strlist] in Hc;
    destruct (strs_of l) as [ns'|] eqn:E; try discriminate;
    injection Hc as <-; rewrite (strs_of_all2 ns l ns' E He); reflexivity.
Qed.

Lemma all2_three : forall (p q r : pyval) l,
  all2 is_equal [p; q; r] l = true ->
  exists x y z, l = [x; y; z] /\ is_equal p x = true /\ is_equal q y = true /\ is_equal r z = true.
Proof.
  intros p q r l H.
  destruct l as [|x [|y [|z [|w l]]]]; cbn [all2] in H;
    repeat (apply andb_true_iff in H; let A := fresh "A" in destruct H as [A H]);
    try discriminate.
  exists x, y, z. auto.
Qed.

Definition walk_shape (e : pyval) : Prop :=
  exists d a b, e = PTuple [PStr d; names_val a; names_val b].

Lemma canon_entry_shape : forall e e' u,
  walk_shape e -> is_equal e e' = true -> canon_entry e' = Some u -> u = e.
Proof.
  intros e e' u [d [a [b ->]]] He Hc. rewrite is_equal_tuple_eq in He.
  destruct e'; cbn [seq_eqn] in He; try discriminate;
    apply all2_three in He; destruct He as [x [y [z [-> [Hx [Hy Hz]]]]]];
    apply is_equal_str_l in Hx; subst x; cbn [canon_entry] in Hc;
    destruct (canon_strlist y) as [a'|] eqn:Ea; try discriminate;
    destruct (canon_strlist z) as [b'|] eqn:Eb; try discriminate;
    injection Hc as <-;
    rewrite (canon_strlist_names _ _ _ Hy Ea), (canon_strlist_names _ _ _ Hz Eb); reflexivity.
Qed.

Lemma canon_entries_shape : forall l, Forall walk_shape l ->
  forall l' u, all2 is_equal l l' = true -> canon_entries l' = Some u -> u = l.
Proof.
  induction 1 as [|e l He Hl IH]; intros l' u Ha Hc; destruct l' as [|e' l'];
    cbn [all2] in Ha; try discriminate.
  - cbn in Hc. injection Hc as <-. reflexivity.
  - apply andb_true_iff in Ha. destruct Ha as [A B]. cbn [canon_entries] in Hc.
    destruct (canon_entry e') as [e1|] eqn:E1; [|discriminate].
    destruct (canon_entries l') as [r1|] eqn:E2; [|discriminate].
    injection Hc as <-.
    rewrite (canon_entry_shape _ _ _ He A E1), (IH _ _ B E2). reflexivity.
Qed.

Lemma canon_walk_shape : forall l r u, Forall walk_shape l ->
  is_equal (PList l) r = true -> canon_walk r = Some u -> u = PList l.
Proof.
  intros l r u Hl He Hc. rewrite is_equal_list_eq in He.
  destruct r; cbn [seq_eqn] in He; try discriminate; cbn [canon_walk] in Hc;
    destruct (canon_entries l0) as [r1|] eqn:E; try discriminate;
    cbn [option_map] in Hc; injection Hc as <-;
    rewrite (canon_entries_shape l Hl _ _ He E); reflexivity.
Qed.

Lemma ref_walk_shape : forall fuel fs d td, Forall walk_shape (ref_walk fuel fs d td).
Proof.
  induction fuel as [|f IH]; intros fs d td; cbn [ref_walk]; [constructor|].
  assert (Hb : Forall walk_shape
                 (flat_map (fun n => ref_walk f fs (n :: d) td)
                           (filter (fun n => isdir fs (n :: d)) (children fs d)))).
  { apply Forall_forall. intros x Hx. apply in_flat_map in Hx. destruct Hx as [n [_ Hx]].
    pose proof (IH fs (n :: d) td) as HF. rewrite Forall_forall in HF. exact (HF x Hx). }
  assert (He : walk_shape (PTuple [PStr (path_text d);
                                    names_val (filter (fun n => isdir fs (n :: d)) (children fs d));
                                    names_val (filter (fun n => isfile fs (n :: d)) (children fs d))])).
  { do 3 eexists. reflexivity. }
  destruct td.
  - constructor; assumption.
  - apply Forall_app. split; [assumption|]. constructor; [assumption|constructor].
Qed.

(* the shape of what the executor records for the queries other than read: JSON equality with the
   recorded value plus the canonical form chosen by user_value pins the value down *)
Lemma answer_canon : forall (kp : kappa) fs q v r u,
  (forall p c, q <> QRead p c) ->
  spec_answer_raw fs q = inl v -> is_equal v r = true -> user_value kp q r = Some u -> u = v.
Proof.
  intros kp fs q v r u Hnr Hs He Hu. destruct q; cbn [spec_answer_raw user_value] in Hs, Hu.
  - injection Hs as <-. destruct r; try discriminate. injection Hu as <-.
    cbn in He. apply eqb_prop in He. subst. reflexivity.
  - injection Hs as <-. destruct r; try discriminate. injection Hu as <-.
    cbn in He. apply eqb_prop in He. subst. reflexivity.
  - injection Hs as <-. destruct r; try discriminate. injection Hu as <-.
    cbn in He. apply eqb_prop in He. subst. reflexivity.
  - destruct (lookup fs p) as [[f|]|]; try discriminate. injection Hs as <-.
    eapply canon_strlist_names; eassumption.
  - assert (Hw : Forall walk_shape (if isdir fs p then ref_walk 32 fs p top_down else [])).
    { destruct (isdir fs p); [apply ref_walk_shape | constructor]. }
    remember (if isdir fs p then ref_walk 32 fs p top_down else []) as w eqn:Ew. clear Ew.
    injection Hs as <-. eapply canon_walk_shape; eassumption.
  - assert (Hz : exists z, v = PInt z).
    { destruct (lookup fs p) as [[f|]|]; try discriminate; injection Hs as <-; eauto. }
    destruct Hz as [z ->]. destruct r; try discriminate. injection Hu as <-.
    cbn in He. apply Z.eqb_eq in He. subst. reflexivity.
  - exfalso. exact (Hnr p c eq_refl).
Qed.

(* ================================================================== *)
(** * recorded answers vs reference answers                             *)
(* ================================================================== *)

Lemma absent_err_other : forall fs p, absent_err fs p = EOTHER -> path_ok p = false.
Proof.
  intros fs p. induction p as [|n d IH]; cbn [absent_err]; [discriminate|].
  unfold path_ok in *. cbn [forallb].
  destruct (lookup fs d) as [[f|]|].
  - discriminate.
  - destruct (name_ok n); [discriminate|reflexivity].
  - intro H. rewrite (IH H). apply andb_false_r.
Qed.

(* errors: what the executor records as the class determines the class the reference gives the user *)
Lemma answer_err : forall fs q c, record_answer fs q = inr c -> spec_answer fs q = inr (user_class q c).
Proof.
  intros fs q c H. unfold spec_answer, user_class.
  destruct q; cbn [record_answer] in H;
    try (rewrite H; destruct (path_ok _); reflexivity).
  cbn [spec_answer_raw spec_query_path].
  destruct (lookup fs p) as [[f|]|] eqn:El; try discriminate.
  - injection H as <-. destruct (path_ok p); reflexivity.
  - injection H as <-. destruct (path_ok p) eqn:Ep; [|reflexivity].
    destruct (stat_err fs p) eqn:Es; try reflexivity.
    unfold stat_err in Es. apply absent_err_other in Es. congruence.
Qed.

(* values *)
Lemma answer_val_nonread : forall fs q v, (forall p c, q <> QRead p c) ->
  record_answer fs q = inl v -> spec_answer fs q = inl v /\ spec_answer_raw fs q = inl v.
Proof.
  intros fs q v Hnr H.
  assert (Hr : spec_answer_raw fs q = inl v).
  { destruct q; try exact H. exfalso. exact (Hnr p c eq_refl). }
  split; [|exact Hr]. unfold spec_answer. rewrite Hr. reflexivity.
Qed.

Lemma answer_val_read : forall fs p c v, record_answer fs (QRead p c) = inl v ->
  exists f, lookup fs p = Some (NFile f) /\ v = cmp_of c f /\ spec_answer fs (QRead p c) = inl (PStr (f_bytes f)).
Proof.
  intros fs p c v H. cbn [record_answer] in H.
  destruct (lookup fs p) as [[f|]|] eqn:El; try discriminate.
  injection H as <-. exists f. repeat split.
  unfold spec_answer. cbn [spec_answer_raw]. rewrite El. reflexivity.
Qed.

Print Assumptions pyval_same_eq.
Print Assumptions hash_of_inj.
Print Assumptions is_equal_hash.
Print Assumptions query_beq_eq.
Print Assumptions answer_canon.
Print Assumptions absent_err_other.
Print Assumptions answer_err.
Print Assumptions answer_val_nonread.
Print Assumptions answer_val_read.
