(* Proofs/CommitDirs2Bd.v — BuildDirs.error_building_file, seen from the directories it
   releases: a directory whose lock count falls to zero had count 1, it is the parent of the
   failed target or the parent of a directory released just before, and if it was in
   created_dirs it moves to error_created_dirs and becomes a candidate.  Pure facts. *)
From Coq Require Import List String Ascii NArith ZArith Bool Arith Lia.
From FB.Base Require Import PyVal Fs.
From FB.Model Require Import Types Monad CreatedFiles BuildDirs SimpleOps Builder.
From FB.Proofs Require Import ViewXDefs.
From FB.Proofs Require Import FsLemmas FrameLaws RollbackDirsLaws RollbackDirsBase CommitDirsInv.
Import ListNotations.
Local Open Scope list_scope.

Record released (parent : path) (b b' : bdirs) : Prop := {
  rl_removed : bd_removed b' = bd_removed b;
  rl_maybe : forall x, In x (bd_maybe b) -> In x (bd_maybe b');
  rl_created : forall x, In x (bd_created b') -> In x (bd_created b);
  rl_counts : forall x, in_counts b' x = true -> in_counts b x = true;
  rl_gone : forall x, in_counts b x = true -> in_counts b' x = false ->
            cval b x = 1 /\
            (x = parent \/ exists m, in_counts b (m :: x) = true /\ in_counts b' (m :: x) = false) /\
            (In x (bd_created b) -> ~ In x (bd_created b') /\ In x (bd_maybe b'));
  rl_left : forall x, In x (bd_created b) -> ~ In x (bd_created b') ->
            in_counts b x = true /\ in_counts b' x = false
}.

Lemma in_counts_del : forall b counts p cr er rm ex mb rf x,
  in_counts (bd_with b (cnt_del counts p) cr er rm ex mb rf) x =
  if path_eqb p x then false else match cnt_get counts x with Some _ => true | None => false end.
Proof. intros. unfold in_counts. cbn [bd_counts bd_with]. rewrite cnt_get_del. destruct (path_eqb p x); reflexivity. Qed.

Lemma bd_error_from_walk : forall parent b b', bd_error_from b parent = Some b' ->
  (forall y, cnt_get (bd_counts b) y <> Some 0) -> released parent b b'.
Proof.
  (* one step of the walk, when the count of [parent] falls to zero *)
  assert (Step : forall b parent,
            cnt_get (bd_counts b) parent = Some 1 ->
            let b1 := bd_with b (cnt_del (bd_counts b) parent) (bd_created b) (bd_err_created b)
                              (bd_removed b) (bd_exists b) (bd_maybe b) (bd_removed_files b) in
            let b2 := if mem_path parent (bd_created b1)
                      then bd_with b1 (bd_counts b1) (del_path parent (bd_created b1)) (add_path parent (bd_err_created b1))
                                   (bd_removed b1) [] (add_path parent (bd_maybe b1)) (bd_removed_files b1)
                      else b1 in
            bd_removed b2 = bd_removed b /\
            (forall x, In x (bd_maybe b) -> In x (bd_maybe b2)) /\
            (forall x, In x (bd_created b2) -> In x (bd_created b)) /\
            (forall x, in_counts b2 x = (if path_eqb parent x then false else in_counts b x)) /\
            (In parent (bd_created b) -> ~ In parent (bd_created b2) /\ In parent (bd_maybe b2)) /\
            (forall x, In x (bd_created b) -> ~ In x (bd_created b2) -> x = parent) /\
            (forall y, cnt_get (bd_counts b2) y <> Some 0 \/ cnt_get (bd_counts b) y = Some 0) /\
            (forall x, x <> parent -> cnt_get (bd_counts b2) x = cnt_get (bd_counts b) x)).
  { intros b parent Ec. cbv zeta. cbn [bd_created bd_with].
    destruct (mem_path parent (bd_created b)) eqn:Em; cbn [bd_removed bd_maybe bd_created bd_counts bd_with].
    - split; [reflexivity|]. split; [intros x Hx; apply In_add_path'; auto|]. split; [intros x Hx; eapply In_del_path; eauto|].
      split; [intro x; apply in_counts_del|]. split; [intros _; split; [apply notin_del_path | apply In_add_path'; auto]|].
      split.
      + intros x Hx Hn. destruct (path_eq_dec x parent) as [E|N]; [exact E|]. exfalso. apply Hn. apply In_del_path_neq; assumption.
      + split.
        * intro y. rewrite cnt_get_del. destruct (path_eqb parent y); [left; discriminate|].
          destruct (cnt_get (bd_counts b) y) as [[|k]|]; [right; reflexivity | left; discriminate | left; discriminate].
        * intros x Hx. rewrite cnt_get_del. destruct (path_eqb parent x) eqn:E; [|reflexivity].
          apply path_eqb_eq in E. congruence.
    - split; [reflexivity|]. split; [auto|]. split; [auto|].
      split; [intro x; apply in_counts_del|]. split; [intro Y; apply mem_path_In in Y; congruence|].
      split; [intros x Hx Hn; contradiction|]. split.
      + intro y. rewrite cnt_get_del. destruct (path_eqb parent y); [left; discriminate|].
        destruct (cnt_get (bd_counts b) y) as [[|k]|]; [right; reflexivity | left; discriminate | left; discriminate].
      + intros x Hx. rewrite cnt_get_del. destruct (path_eqb parent x) eqn:E; [|reflexivity].
        apply path_eqb_eq in E. congruence. }
  (* the count stays positive: nothing is released *)
  assert (Keep : forall b parent c, cnt_get (bd_counts b) parent = Some c ->
            released parent b (bd_with b (cnt_set (bd_counts b) parent (c - 1)) (bd_created b) (bd_err_created b)
                                       (bd_removed b) (bd_exists b) (bd_maybe b) (bd_removed_files b))).
  { intros b parent c Ec.
    assert (Hc : forall x, in_counts (bd_with b (cnt_set (bd_counts b) parent (c - 1)) (bd_created b) (bd_err_created b)
                                       (bd_removed b) (bd_exists b) (bd_maybe b) (bd_removed_files b)) x = in_counts b x).
    { intro x. rewrite in_counts_set. unfold in_counts. destruct (path_eqb parent x) eqn:E; [|reflexivity].
      apply path_eqb_eq in E. subst x. rewrite Ec. reflexivity. }
    constructor; cbn [bd_removed bd_maybe bd_created bd_with]; auto.
    - intros x Hx. rewrite Hc in Hx. exact Hx.
    - intros x H1 H2. rewrite Hc in H2. congruence.
    - intros x H1 H2. contradiction. }
  induction parent as [|n dd IH]; intros b b' H Hpos; cbn [bd_error_from] in H.
  - destruct (cnt_get (bd_counts b) []) as [c|] eqn:Ec; [|discriminate H].
    destruct (Nat.ltb 0 (c - 1)) eqn:El; [inversion H; subst; apply Keep; exact Ec|].
    assert (c = 1). { apply Nat.ltb_ge in El. specialize (Hpos []). rewrite Ec in Hpos. destruct c as [|[|c]]; [congruence | reflexivity | lia]. }
    subst c. destruct (Step b [] Ec) as (S1 & S2 & S3 & S4 & S5 & S6 & _ & _). cbv zeta in *.
    inversion H; subst b'; clear H.
    constructor; auto.
    + intros x Hx. rewrite S4 in Hx. destruct (path_eqb [] x); [discriminate Hx | exact Hx].
    + intros x H1 H2. rewrite S4 in H2. destruct (path_eqb [] x) eqn:E; [|congruence].
      apply path_eqb_eq in E. subst x. split; [unfold cval; rewrite Ec; reflexivity|]. split; [left; reflexivity | exact S5].
    + intros x H1 H2. pose proof (S6 x H1 H2) as ->. split.
      * unfold in_counts. rewrite Ec. reflexivity.
      * rewrite S4, path_eqb_refl. reflexivity.
  - destruct (cnt_get (bd_counts b) (n :: dd)) as [c|] eqn:Ec; [|discriminate H].
    destruct (Nat.ltb 0 (c - 1)) eqn:El; [inversion H; subst; apply Keep; exact Ec|].
    assert (c = 1). { apply Nat.ltb_ge in El. specialize (Hpos (n :: dd)). rewrite Ec in Hpos. destruct c as [|[|c]]; [congruence | reflexivity | lia]. }
    subst c. destruct (Step b (n :: dd) Ec) as (S1 & S2 & S3 & S4 & S5 & S6 & S7 & S8). cbv zeta in *.
    match type of H with bd_error_from ?B2 dd = _ => set (b2 := B2) in * end.
    assert (Hpos2 : forall y, cnt_get (bd_counts b2) y <> Some 0).
    { intro y. destruct (S7 y) as [Z|Z]; [exact Z | exfalso; exact (Hpos y Z)]. }
    destruct (IH b2 b' H Hpos2) as [R1 R2 R3 R4 R5 R6].
    assert (Cp : in_counts b (n :: dd) = true) by (unfold in_counts; rewrite Ec; reflexivity).
    assert (Cp2 : in_counts b2 (n :: dd) = false) by (rewrite S4, path_eqb_refl; reflexivity).
    assert (Cp' : in_counts b' (n :: dd) = false).
    { destruct (in_counts b' (n :: dd)) eqn:E; [|reflexivity]. apply R4 in E. congruence. }
    constructor.
    + congruence.
    + intros x Hx. apply R2, S2, Hx.
    + intros x Hx. apply S3, R3, Hx.
    + intros x Hx. apply R4 in Hx. rewrite S4 in Hx. destruct (path_eqb (n :: dd) x); [discriminate Hx | exact Hx].
    + intros x H1 H2. destruct (path_eq_dec x (n :: dd)) as [->|Nx].
      * split; [unfold cval; rewrite Ec; reflexivity|]. split; [left; reflexivity|].
        intro Hc. destruct (S5 Hc) as [Z1 Z2]. split; [intro Y; apply Z1; apply R3; exact Y | apply R2; exact Z2].
      * assert (H1' : in_counts b2 x = true).
        { rewrite S4. destruct (path_eqb (n :: dd) x) eqn:E; [apply path_eqb_eq in E; congruence | exact H1]. }
        destruct (R5 x H1' H2) as (Q1 & Q2 & Q3). split; [|split].
        -- unfold cval in *. rewrite <- (S8 x Nx). exact Q1.
        -- right. destruct Q2 as [->|(m & Q2a & Q2b)].
           ++ exists n. split; assumption.
           ++ exists m. split; [|exact Q2b]. rewrite S4 in Q2a. destruct (path_eqb (n :: dd) (m :: x)); [discriminate Q2a | exact Q2a].
        -- intro Hc. apply Q3. destruct (in_dec path_eq_dec x (bd_created b2)) as [Y|Y]; [exact Y|].
           exfalso. exact (Nx (S6 x Hc Y)).
    + intros x H1 H2. destruct (in_dec path_eq_dec x (bd_created b2)) as [Y|Y].
      * destruct (R6 x Y H2) as [Z1 Z2]. split; [|exact Z2].
        rewrite S4 in Z1. destruct (path_eqb (n :: dd) x); [discriminate Z1 | exact Z1].
      * pose proof (S6 x H1 Y) as ->. split; assumption.
Qed.

Lemma bd_error_walk : forall b p b', bd_error b p = Some b' -> p <> [] ->
  (forall y, cnt_get (bd_counts b) y <> Some 0) -> released (dirname p) b b'.
Proof.
  intros b p b' H Hne Hpos. unfold bd_error in H. destruct p as [|n dd]; [contradiction|].
  cbn [dirname tl]. eapply bd_error_from_walk; eauto.
Qed.

(* ---- counting: when the count of x is 1, the locked child / the live target in x is unique ---- *)
Lemma filter_len1_unique : forall (f : path -> bool) l x y, List.length (filter f l) <= 1 ->
  In x l -> f x = true -> In y l -> f y = true -> x = y \/ False.
Proof.
  intros f l x y H Hx Fx Hy Fy. left.
  assert (Ix : In x (filter f l)) by (apply filter_In; auto).
  assert (Iy : In y (filter f l)) by (apply filter_In; auto).
  destruct (filter f l) as [|a [|b r]]; [destruct Ix | | cbn in H; lia].
  destruct Ix as [<-|[]]. destruct Iy as [<-|[]]. reflexivity.
Qed.

Lemma filter_len0_none : forall (f : path -> bool) l x, List.length (filter f l) = 0 -> In x l -> f x = true -> False.
Proof.
  intros f l x H Hx Fx. assert (Ix : In x (filter f l)) by (apply filter_In; auto).
  destruct (filter f l); [destruct Ix | cbn in H; lia].
Qed.

(* ---- started_building_file: what becomes created, what stays counted ---- *)
Definition st_count (b : bdirs) (parent : path) : nat :=
  match cnt_get (bd_counts b) parent with Some n => n | None => 0 end.
Definition st_b1 (b : bdirs) (parent : path) : bdirs :=
  bd_with b (cnt_set (bd_counts b) parent (S (st_count b parent))) (bd_created b) (bd_err_created b)
          (bd_removed b) (bd_exists b) (bd_maybe b) (bd_removed_files b).
Definition st_b2 (b : bdirs) (cds : list path) (parent : path) : bdirs :=
  let b1 := st_b1 b parent in
  if mem_path parent cds then
    bd_with b1 (bd_counts b1) (add_path parent (bd_created b1)) (del_path parent (bd_err_created b1))
            (bd_removed b1) (bd_exists b1) (bd_maybe b1) (del_path parent (bd_removed_files b1))
  else b1.

Lemma bd_started_from_eq : forall parent b cds acc,
  bd_started_from b cds parent acc =
  if Nat.ltb 0 (st_count b parent) then (st_b1 b parent, acc) else
  let acc2 := if mem_path parent cds then acc ++ [parent] else acc in
  match parent with
  | [] => (st_b2 b cds parent, acc2)
  | _ :: d => bd_started_from (st_b2 b cds parent) cds d acc2
  end.
Proof.
  intros parent b cds acc. unfold st_b2, st_b1, st_count.
  destruct parent as [|n d]; cbn [bd_started_from]; cbv zeta;
    destruct (Nat.ltb 0 _); try reflexivity; destruct (mem_path _ cds); reflexivity.
Qed.

Definition nozero (b : bdirs) : Prop := forall y, cnt_get (bd_counts b) y <> Some 0.

Lemma st_b1_counts : forall b parent a,
  in_counts (st_b1 b parent) a = path_eqb parent a || in_counts b a.
Proof.
  intros b parent a. unfold in_counts, st_b1. cbn [bd_counts bd_with]. rewrite cnt_get_set.
  destruct (path_eqb parent a); reflexivity.
Qed.

Lemma st_b2_counts : forall b cds parent, bd_counts (st_b2 b cds parent) = bd_counts (st_b1 b parent).
Proof. intros b cds parent. unfold st_b2. cbv zeta. destruct (mem_path parent cds); reflexivity. Qed.

Lemma st_b1_nozero : forall b parent, nozero b -> nozero (st_b1 b parent).
Proof.
  intros b parent H y. unfold st_b1. cbn [bd_counts bd_with]. rewrite cnt_get_set.
  destruct (path_eqb parent y); [discriminate | apply H].
Qed.

Lemma bd_started_from_more : forall parent b cds acc b' acc',
  bd_started_from b cds parent acc = (b', acc') -> nozero b ->
  (forall x, In x (bd_created b') ->
     In x (bd_created b) \/ (In x cds /\ in_counts b x = false /\ (x = parent \/ below x parent = true))) /\
  (forall a, in_counts b a = true -> in_counts b' a = true) /\
  (forall x, In x (bd_created b) -> In x (bd_created b')).
Proof.
  induction parent as [|n dd IH]; intros b cds acc b' acc' H Hz; rewrite bd_started_from_eq in H; cbv zeta in H.
  - destruct (Nat.ltb 0 (st_count b [])) eqn:El.
    + inversion H; subst; clear H. split; [intros x Hx; left; exact Hx|]. split; [|intros x Hx; exact Hx].
      intros a Ha. rewrite st_b1_counts, Ha. apply orb_true_r.
    + inversion H; subst; clear H.
      assert (Hnc : in_counts b [] = false).
      { unfold in_counts. unfold st_count in El. specialize (Hz []).
        destruct (cnt_get (bd_counts b) []) as [[|c]|]; [congruence | discriminate El | reflexivity]. }
      split; [|split].
      * intros x Hx. unfold st_b2 in Hx. cbv zeta in Hx. destruct (mem_path [] cds) eqn:Em; [|left; exact Hx].
        cbn [bd_created bd_with st_b1] in Hx. apply In_add_path' in Hx. destruct Hx as [->|Hx]; [|left; exact Hx].
        right. split; [apply mem_path_In; exact Em|]. split; [exact Hnc | left; reflexivity].
      * intros a Ha. unfold in_counts. rewrite st_b2_counts. fold (in_counts (st_b1 b []) a).
        rewrite st_b1_counts, Ha. apply orb_true_r.
      * intros x Hx. unfold st_b2. cbv zeta. destruct (mem_path [] cds); [|exact Hx].
        cbn [bd_created bd_with st_b1]. apply In_add_path'. right. exact Hx.
  - destruct (Nat.ltb 0 (st_count b (n :: dd))) eqn:El.
    + inversion H; subst; clear H. split; [intros x Hx; left; exact Hx|]. split; [|intros x Hx; exact Hx].
      intros a Ha. rewrite st_b1_counts, Ha. apply orb_true_r.
    + assert (Hnc : in_counts b (n :: dd) = false).
      { unfold in_counts. unfold st_count in El. specialize (Hz (n :: dd)).
        destruct (cnt_get (bd_counts b) (n :: dd)) as [[|c]|]; [congruence | discriminate El | reflexivity]. }
      assert (Hz2 : nozero (st_b2 b cds (n :: dd))).
      { intro y. rewrite st_b2_counts. apply st_b1_nozero. exact Hz. }
      destruct (IH _ _ _ _ _ H Hz2) as (R1 & R2 & R3).
      assert (C2 : forall a, in_counts (st_b2 b cds (n :: dd)) a = path_eqb (n :: dd) a || in_counts b a).
      { intro a. unfold in_counts at 1. rewrite st_b2_counts. fold (in_counts (st_b1 b (n :: dd)) a). apply st_b1_counts. }
      split; [|split].
      * intros x Hx. destruct (R1 x Hx) as [K|(K1 & K2 & K3)].
        -- unfold st_b2 in K. cbv zeta in K. destruct (mem_path (n :: dd) cds) eqn:Em; [|left; exact K].
           cbn [bd_created bd_with st_b1] in K. apply In_add_path' in K. destruct K as [->|K]; [|left; exact K].
           right. split; [apply mem_path_In; exact Em|]. split; [exact Hnc | left; reflexivity].
        -- right. split; [exact K1|]. rewrite C2 in K2. apply orb_false_iff in K2. split; [exact (proj2 K2)|].
           right. destruct K3 as [->|K3]; [apply below_self_cons | apply below_cons; exact K3].
      * intros a Ha. apply R2. rewrite C2, Ha. apply orb_true_r.
      * intros x Hx. apply R3. unfold st_b2. cbv zeta. destruct (mem_path (n :: dd) cds); [|exact Hx].
        cbn [bd_created bd_with st_b1]. apply In_add_path'. right. exact Hx.
Qed.

Lemma bd_started_more : forall b n d cds b' l, bd_started b (n :: d) cds = (b', l) -> nozero b ->
  (forall x, In x (bd_created b') ->
     In x (bd_created b) \/ (In x cds /\ in_counts b x = false /\ (x = d \/ below x d = true))) /\
  (forall a, in_counts b a = true -> in_counts b' a = true) /\
  (forall x, In x (bd_created b) -> In x (bd_created b')).
Proof.
  intros b n d cds b' l H Hz. unfold bd_started in H.
  apply bd_started_from_more in H; [|intro y; exact (Hz y)]. exact H.
Qed.
