(* Proofs/SimA2Base.v — C04, the link to Core, run level: small facts used by the node lemmas
   (paths, records, tables, trees related up to bytes). *)
From Coq Require Import List String Ascii NArith ZArith Bool Arith Lia.
From FB.Base Require Import PyVal Fs.
From FB.Gen Require Import JsonUtilGen.
From FB.Spec Require Import JsonSpec Prog Ref Oracle Faithful.
From FB.Model Require Import Types Monad CreatedFiles BuildDirs SimpleOps Builder Persist Build Run Frame Core CoreOracle.
From FB.Proofs Require Import FsLemmas JsonLaws ReplayLaws CleanLaws BuildFileLaws HashMemoInv HashMemoRun CoreLaws1 CoreLaws2 CoreLaws3
     ViewDefs ViewLemmas ViewFrame ViewInit ViewXDefs ViewXError ViewXQuery ViewXMake1 ViewXMake2 ViewXFail ViewXSetup ViewXRun
     ViewR1 ViewR2 ViewR3 ViewK1 ViewK2 ViewK3 ViewK4 ViewK5 ViewK7 ViewK8 SimA0 SimARun.
Import ListNotations.
Open Scope list_scope.

(* ------------------------------------------------------------------ paths *)
Lemma is_ancestor_psuffix : forall x q, is_ancestor x q = true <-> psuffix x q.
Proof.
  intros x q. induction q as [|n d IH]; cbn [is_ancestor].
  - split; [discriminate|]. intros [m [l E]]. destruct l; discriminate.
  - rewrite psuffix_cons. rewrite orb_true_iff, IH. split.
    + intros [H|H]; [apply path_eqb_eq in H; subst; apply suffix_refl|apply psuffix_suffix; exact H].
    + intro H. destruct H as [l E]. destruct l as [|m l].
      * left. cbn in E. subst. apply path_eqb_refl.
      * right. exists m, l. exact E.
Qed.

Lemma is_ancestor_false_psuffix : forall x q, is_ancestor x q = false <-> ~ psuffix x q.
Proof.
  intros x q. destruct (is_ancestor x q) eqn:E.
  - split; [discriminate|]. intro H. exfalso. apply H. apply is_ancestor_psuffix. exact E.
  - split; [|reflexivity]. intros _ H. apply is_ancestor_psuffix in H. congruence.
Qed.

Lemma psuffix_cons_iff : forall x n d, psuffix x (n :: d) <-> suffix x d.
Proof. intros. apply psuffix_cons. Qed.

Lemma suffix_dirname_psuffix : forall x p, p <> [] -> (suffix x (dirname p) <-> psuffix x p).
Proof. intros x [|n d] H; [contradiction|]. cbn [dirname tl]. symmetry. apply psuffix_cons. Qed.

Lemma In_rm1_nodup : forall p T t, NoDup T -> (In t (rm1 p T) <-> In t T /\ t <> p).
Proof.
  intros p T t. induction T as [|q T IH]; intro Hnd; cbn [rm1].
  - split; [intros []|intros [[] _]].
  - inversion Hnd as [|x l Hn Hnd']; subst. destruct (path_eqb q p) eqn:E.
    + apply path_eqb_eq in E. subst q. split.
      * intro H. split; [right; exact H|]. intro; subst. contradiction.
      * intros [[H|H] Hne]; [congruence|exact H].
    + apply path_eqb_neq in E. cbn [In]. rewrite (IH Hnd'). split.
      * intros [H|[H1 H2]]; [subst; split; [left; reflexivity|exact E]|split; [right; exact H1|exact H2]].
      * intros [[H|H] Hne]; [left; exact H|right; split; assumption].
Qed.

Lemma NoDup_rm1 : forall p T, NoDup T -> NoDup (rm1 p T).
Proof.
  intros p T. induction T as [|q T IH]; intro H; cbn [rm1]; [constructor|].
  inversion H as [|x l Hn Hnd]; subst. destruct (path_eqb q p); [exact Hnd|].
  constructor; [|apply IH; exact Hnd]. intro K. apply Hn. apply (rm1_in _ _ _ K).
Qed.

Lemma mem_path_filter : forall (g : path -> bool) l x, mem_path x (filter g l) = mem_path x l && g x.
Proof.
  intros g l x. induction l as [|q l IH]; [reflexivity|]. cbn [filter mem_path].
  destruct (g q) eqn:Eg; cbn [mem_path]; rewrite IH.
  - destruct (path_eqb q x) eqn:E; [apply path_eqb_eq in E; subst; rewrite Eg; reflexivity|reflexivity].
  - destruct (path_eqb q x) eqn:E; [apply path_eqb_eq in E; subst; rewrite Eg, andb_false_r; reflexivity|reflexivity].
Qed.

Lemma mem_path_In_iff : forall x l, mem_path x l = true <-> In x l.
Proof. intros. apply ViewLemmas.mem_path_In. Qed.

Lemma mem_path_eq_of_iff : forall a b, (a = true <-> b = true) -> a = b.
Proof. intros [|] [|] [H1 H2]; auto; try (symmetry; auto); try (exfalso; discriminate (H1 eq_refl)); try (discriminate (H2 eq_refl)). Qed.

(* ------------------------------------------------------------------ nodes and trees up to bytes *)
Lemma node_equiv_dir_l : forall x, node_equiv (Some NDir) x -> x = Some NDir.
Proof. intros [[f|]|] H; cbn in H; try contradiction; reflexivity. Qed.
Lemma node_equiv_none_l : forall x, node_equiv None x -> x = None.
Proof. intros [[f|]|] H; cbn in H; try contradiction; reflexivity. Qed.

Lemma trel_dir_l : forall W a b x, trel W a b -> lookup a x = Some NDir -> lookup b x = Some NDir.
Proof.
  intros W a b x H E. specialize (H x). rewrite E in H. destruct (mem_path x W); [apply node_equiv_dir_l; exact H|symmetry; exact H].
Qed.
Lemma trel_dir_r : forall W a b x, trel W a b -> lookup b x = Some NDir -> lookup a x = Some NDir.
Proof.
  intros W a b x H E. specialize (H x). rewrite E in H. destruct (mem_path x W); [apply node_equiv_dir_r; exact H|exact H].
Qed.
Lemma trel_none_l : forall W a b x, trel W a b -> lookup a x = None -> lookup b x = None.
Proof.
  intros W a b x H E. specialize (H x). rewrite E in H. destruct (mem_path x W); [apply node_equiv_none_l; exact H|symmetry; exact H].
Qed.
Lemma trel_none_r : forall W a b x, trel W a b -> lookup b x = None -> lookup a x = None.
Proof.
  intros W a b x H E. specialize (H x). rewrite E in H. destruct (mem_path x W); [apply node_equiv_none_r; exact H|exact H].
Qed.
Lemma trel_lexists : forall W a b x, trel W a b -> lexists a x = lexists b x.
Proof. intros W a b x H. apply te_lexists. eapply trel_te. exact H. Qed.
Lemma trel_isdir : forall W a b x, trel W a b -> isdir a x = isdir b x.
Proof. intros W a b x H. apply te_isdir. eapply trel_te. exact H. Qed.
Lemma trel_isfile : forall W a b x, trel W a b -> isfile a x = isfile b x.
Proof. intros W a b x H. apply te_isfile. eapply trel_te. exact H. Qed.

(* pointwise description of both sides *)
Lemma trel_pointwise : forall W a b a' b' (g : path -> option (option node)),
  trel W a b ->
  (forall x, lookup a' x = match g x with Some n => n | None => lookup a x end) ->
  (forall x, lookup b' x = match g x with Some n => n | None => lookup b x end) ->
  trel W a' b'.
Proof.
  intros W a b a' b' g H Ha Hb x. rewrite Ha, Hb. destruct (g x) as [n|]; [|apply H].
  destruct (mem_path x W); [apply node_equiv_refl|reflexivity].
Qed.

(* ------------------------------------------------------------------ records *)
Lemma val_rel_refl : forall v, val_rel v v.
Proof. intro v. apply vr_eq. Qed.

Lemma rec_rel_refl : forall o, rec_rel o o.
Proof.
  induction o as [q r e | p c f a k subs r cr ra sf IH | f a k subs r ra sf IH] using op_ind'; cbn [rec_rel].
  - repeat split. apply vr_eq.
  - repeat split; try apply vr_eq. induction IH as [|s rest Hs HF IHl]; [exact I|]. split; [exact Hs|exact IHl].
  - repeat split. induction IH as [|s rest Hs HF IHl]; [exact I|]. split; [exact Hs|exact IHl].
Qed.

Lemma recs_rel_all2 : forall a b,
  recs_rel a b ->
  (fix go (xs ys : list op) : Prop :=
     match xs, ys with
     | [], [] => True
     | x :: xs', y :: ys' => rec_rel x y /\ go xs' ys'
     | _, _ => False
     end) a b.
Proof. intros a b H. exact H. Qed.

Lemma rec_rel_BF : forall p c f sa skw subs subs' r cr cr' ra sf,
  recs_rel subs subs' -> val_rel cr cr' ->
  rec_rel (OBuildFile p c f sa skw subs r cr ra sf) (OBuildFile p c f sa skw subs' r cr' ra sf).
Proof.
  intros. cbn [rec_rel]. repeat split; try assumption.
Qed.

Lemma rec_rel_SB : forall f sa skw subs subs' r ra sf,
  recs_rel subs subs' ->
  rec_rel (OSubbuild f sa skw subs r ra sf) (OSubbuild f sa skw subs' r ra sf).
Proof. intros. cbn [rec_rel]. repeat split; assumption. Qed.

(* ------------------------------------------------------------------ tables *)
Lemma kf_get_app1 : forall l p o x,
  kf_get (l ++ [(p, o)]) x = match kf_get l x with Some y => Some y | None => if path_eqb p x then Some o else None end.
Proof.
  intros l p o x. induction l as [|[q v] l IH]; cbn [app kf_get]; [reflexivity|].
  destruct (path_eqb q x); [reflexivity|exact IH].
Qed.

Lemma cache_has_file_set : forall c fs' p v x sb dr bl,
  fs' = files_set (c_files c) p v ->
  cache_has_file (cache_with c fs' sb dr bl) x = (path_eqb x p || cache_has_file c x).
Proof.
  intros c fs' p v x sb dr bl ->. unfold cache_has_file. cbn [c_files cache_with].
  destruct (path_eqb x p) eqn:E.
  - apply path_eqb_eq in E. subst. rewrite files_get_set_same. reflexivity.
  - apply path_eqb_neq in E. rewrite files_get_set_other by exact E. reflexivity.
Qed.

Lemma cache_get_file_set : forall c fs' p v x sb dr bl,
  fs' = files_set (c_files c) p v ->
  cache_get_file (cache_with c fs' sb dr bl) x = if path_eqb x p then v else cache_get_file c x.
Proof.
  intros c fs' p v x sb dr bl ->. unfold cache_get_file. cbn [c_files cache_with].
  destruct (path_eqb x p) eqn:E.
  - apply path_eqb_eq in E. subst. rewrite files_get_set_same. reflexivity.
  - apply path_eqb_neq in E. rewrite files_get_set_other by exact E. reflexivity.
Qed.

Lemma stale_get_del : forall l p x, stale_get (stale_del l p) x = if path_eqb p x then None else stale_get l x.
Proof.
  intros l p x. induction l as [|[q f] l IH]; cbn [stale_del stale_get].
  - destruct (path_eqb p x); reflexivity.
  - destruct (path_eqb q p) eqn:E.
    + apply path_eqb_eq in E. subst q. rewrite IH. destruct (path_eqb p x); reflexivity.
    + cbn [stale_get]. rewrite IH. destruct (path_eqb q x) eqn:Eq; [|reflexivity].
      apply path_eqb_eq in Eq. subst q. rewrite path_eqb_sym, E. reflexivity.
Qed.

(* ------------------------------------------------------------------ Sim4: projections *)
Lemma Sim4_pre : forall T W w s, Sim4 T W w s -> Sim4pre T W w s.
Proof. intros T W w s H. apply H. Qed.
Lemma Sim4_sim3 : forall T W w s, Sim4 T W w s -> Sim3 W w s.
Proof. intros T W w s H. apply (s4_sim _ _ _ _ (Sim4_pre _ _ _ _ H)). Qed.
Lemma Sim4_rinv2 : forall T W w s, Sim4 T W w s -> RInv2 (fun _ => True) T w.
Proof. intros T W w s H. apply (s4_rinv _ _ _ _ (Sim4_pre _ _ _ _ H)). Qed.
Lemma Sim4_rinv : forall T W w s, Sim4 T W w s -> RInv T w.
Proof. intros T W w s H. apply (Sim4_rinv2 _ _ _ _ H). Qed.
Lemma Sim4_xinv : forall T W w s, Sim4 T W w s -> XInv T w.
Proof. intros T W w s H. apply (Sim4_rinv _ _ _ _ H). Qed.
Lemma Sim4_trel : forall T W w s, Sim4 T W w s -> trel W (view_fs w) (k_fs s).
Proof. intros T W w s H. apply Sim3_trel. apply (Sim4_sim3 _ _ _ _ H). Qed.

(* the context after a nested call *)
Lemma ctx4_restore : forall st tg pend w w1,
  Ctx4 st tg pend w ->
  (forall y, inprog w1 y <-> inprog w y) ->
  (forall y, In y st -> lookup (w_fs w1) y = lookup (w_fs w) y) ->
  TSA tg w1 -> Ctx4 st tg pend w1.
Proof.
  intros st tg pend w w1 [C1 C2 C3 C4 C5] Hp Hf Ht. constructor.
  - intro y. rewrite Hp. apply C1.
  - exact C2.
  - unfold pend_rel in *. destruct tg as [p|]; [|exact I]. destruct (C2 p eq_refl) as [Hin _].
    destruct C3 as [A B]. split; [apply Hp; exact A|].
    destruct pend as [bytes|].
    + rewrite (Hf p Hin). exact B.
    + unfold isfile in *. rewrite (Hf p Hin). exact B.
  - intros y Hy. unfold isdir. rewrite (Hf y Hy). apply C4. exact Hy.
  - exact Ht.
Qed.

Lemma orec_rel_refl : forall o, orec_rel o o.
Proof. intros [x|]; cbn; [apply rec_rel_refl|exact I]. Qed.
