(* Proofs/SimC4.v — glue SimA/SimB, part 4: _apply_cached_suboperations on the mechanism model,
   with the EXACT list of live targets and the directories recorded as created afterwards.
   ViewH5.apply_cached_ok / SimB10.apply_cached_view give the run invariant RInv for SOME list T'
   that contains the old live targets and the adopted ones; SimA0.Sim4pre needs to know T' (Core's
   k_need has to be the same set, without repetition) and bd_created (Core's k_made):
     T' = rev (adopted targets) ++ T;
     bd_created afterwards = bd_created before + the proper ancestors of adopted targets that were
     absent in the view (the directories on disk that were dead: _make_dirs "creates" them).  *)
From Coq Require Import List String Ascii NArith ZArith Bool Arith Lia.
From FB.Base Require Import PyVal Fs.
From FB.Gen Require Import JsonUtilGen.
From FB.Spec Require Import Prog Ref Oracle Faithful.
From FB.Model Require Import Types Monad CreatedFiles BuildDirs SimpleOps Builder Persist Core.
From FB.Proofs Require Import FsLemmas CleanLaws JsonLaws CoreLawsChildren ReplayLaws BuildFileLaws CoreLaws1
     ViewDefs ViewLemmas ViewScan ViewQueries ViewAnswers ViewPres ViewFrame ViewPrepare
     ViewXDefs ViewXFrame ViewXQuery ViewXSteps ViewXMake1 ViewXMake2 ViewXFail ViewXSetup ViewH4 ViewH5 ViewR2
     ViewK3 ViewK4 ViewK5 ViewK6 SimA1 SimA1Started SimB3 SimB4 SimB10.
Import ListNotations.
Open Scope list_scope.
Open Scope m_scope.

Definition isnone (x : option node) : bool := match x with None => true | Some _ => false end.

(* ------------------------------------------------------------------ one target *)
Lemma setup_created : forall T w n d w1 ds w2 locked,
  XInv T w -> PInv T w -> isfile (w_fs w) (n :: d) = true ->
  make_dirs d w = (w1, inl ds) -> m_bd_started (n :: d) ds w1 = (w2, inl locked) ->
  forall x, mem_path x (bd_created (w_bd w2)) =
            mem_path x (bd_created (w_bd w)) || (is_ancestor x (n :: d) && isnone (lookup (view_fs w) x)).
Proof.
  intros T w n d w1 ds w2 locked HX HP Hfile Hmk Hstd x.
  pose proof (x_binv _ _ HX) as HB.
  assert (Hd: forall y, suffix y d -> lookup (w_fs w) y = Some NDir).
  { intros y Hy. apply isfile_lookup in Hfile. destruct Hfile as [g Hg].
    eapply wf_suffix_dir; [apply (bi_wf _ HB)|apply (bi_wf _ HB _ _ Hg)|exact Hy]. }
  unfold make_dirs in Hmk. apply bind_inv in Hmk.
  destruct Hmk as [[w0 [ds0 [Eds H]]]|[e [_ H]]]; [|discriminate].
  apply bind_inv in H. destruct H as [[wx [u [Eloop H]]]|[e [_ H]]]; [|discriminate].
  inversion H; subst wx ds0. clear H.
  destruct (dirs_to_make_spec d T w w0 ds HX Eds) as [Q I O].
  destruct (qrel_facts _ _ _ HX Q) as (HX0 & Sa & _ & _).
  destruct (make_dirs_loop_res _ _ _ _ _ Eloop) as [((C1 & C2 & C3 & C4) & Sw2 & Sw3) M].
  assert (Ewb: w2 = set_bd (fst (bd_started (w_bd w1) (n :: d) ds)) w1).
  { unfold m_bd_started in Hstd. destruct (bd_started (w_bd w1) (n :: d) ds) as [b' l]. inversion Hstd; reflexivity. }
  rewrite Ewb. cbn [w_bd set_bd]. rewrite C1.
  rewrite (bd_started_created (w_bd w0) n d ds (x_pos _ _ HX0)).
  - rewrite (sv_created _ _ Sa). f_equal.
    destruct (in_dec (list_eq_dec string_dec) x ds) as [Hin|Hin].
    + rewrite (proj2 (ViewLemmas.mem_path_In x ds) Hin). destruct (I x Hin) as (A & _ & C & D & _).
      rewrite (proj2 (is_ancestor_suffix x n d) A), (view_kind_none w x HB C D). reflexivity.
    + assert (E: mem_path x ds = false).
      { destruct (mem_path x ds) eqn:E; [|reflexivity]. apply ViewLemmas.mem_path_In in E. contradiction. }
      rewrite E. destruct (is_ancestor x (n :: d)) eqn:Ea; [|reflexivity].
      apply is_ancestor_suffix in Ea. destruct (O x Ea Hin) as [_ Vx]. rewrite (view_kind_dir w x HB Vx). reflexivity.
  - intros y Hy. destruct (I y Hy) as (A & _ & C & _). split; [exact A|].
    destruct (in_counts (w_bd w0) y) eqn:Ec; [|reflexivity]. exfalso.
    assert (Ec': in_counts (w_bd w) y = true) by (unfold in_counts in *; rewrite <- (sv_counts _ _ Sa); exact Ec).
    unfold vdir in C. unfold isdir in C. rewrite (Hd y A), (dead_counts _ _ Ec') in C. discriminate.
  - intros y x0 Hy Hyx Hxd. destruct (in_dec (list_eq_dec string_dec) x0 ds) as [Hin|Hin]; [exact Hin|]. exfalso.
    destruct (O x0 Hxd Hin) as [_ Vx]. destruct (I y Hy) as (_ & _ & C & _).
    pose proof (vdir_visible _ _ Vx) as Vv.
    unfold vdir in C. rewrite (visible_alive_up w x0 y (bi_wf _ HB) Vv Hyx) in C.
    unfold vdir in Vx. apply andb_true_iff in Vx. destruct Vx as [Vi _]. apply isdir_lookup in Vi.
    unfold isdir in C. rewrite (wf_suffix_dir _ _ _ (bi_wf _ HB) Vi Hyx) in C. discriminate.
Qed.

(* ------------------------------------------------------------------ the record tree *)
Definition adopt_post3 (L : list path) (T : list path) (w w' : world) (r : unit + exn) : Prop :=
  r = inl tt /\ w_fs w' = w_fs w /\ w_new w' = w_new w /\ w_old w' = w_old w /\ w_cachefile w' = w_cachefile w /\
  RInv (rev L ++ T) w' /\
  (forall a, lookup (view_fs w') a = if existsb (is_ancestor a) L then Some NDir else lookup (view_fs w) a) /\
  (forall x, mem_path x (bd_created (w_bd w')) =
             mem_path x (bd_created (w_bd w)) || (existsb (is_ancestor x) L && isnone (lookup (view_fs w) x))).

Lemma adopt_post3_nil : forall T w, RInv T w -> adopt_post3 [] T w w (inl tt).
Proof.
  intros T w HR. repeat (split; [reflexivity|]). split; [exact HR|]. split; [intro a; reflexivity|].
  intro x. cbn [existsb andb]. rewrite orb_false_r. reflexivity.
Qed.

(* two adoptions in a row *)
Lemma adopt_post3_seq : forall L1 L2 T w wa w',
  adopt_post3 L1 T w wa (inl tt) -> adopt_post3 L2 (rev L1 ++ T) wa w' (inl tt) ->
  adopt_post3 (L1 ++ L2) T w w' (inl tt).
Proof.
  intros L1 L2 T w wa w' (_ & F1 & N1 & O1 & C1 & R1 & V1 & B1) (_ & F2 & N2 & O2 & C2 & R2 & V2 & B2).
  split; [reflexivity|]. split; [congruence|]. split; [congruence|]. split; [congruence|]. split; [congruence|].
  split; [rewrite rev_app_distr, <- app_assoc; exact R2|]. split.
  - intro a. rewrite (V2 a), (V1 a), existsb_app_b.
    destruct (existsb (is_ancestor a) L1), (existsb (is_ancestor a) L2); reflexivity.
  - intro x. rewrite (B2 x), (B1 x), (V1 x), existsb_app_b.
    destruct (mem_path x (bd_created (w_bd w))), (existsb (is_ancestor x) L1), (existsb (is_ancestor x) L2),
      (lookup (view_fs w) x); reflexivity.
Qed.

Section Adopt3.
  Variables (fs0 : fsT) (new0 : cache) (cfp0 : path).
  Hypothesis Hcf : isdir fs0 cfp0 = false.

  Definition adoptable3 (o : op) : Prop :=
    forall T w w' r, forallb (reusable fs0 new0 cfp0) (op_subs o) = true -> forallb wfrec (op_subs o) = true ->
      RInv T w -> at0 fs0 new0 cfp0 w ->
      apply_cached_subs_of o w = (w', r) -> adopt_post3 (flat_map adopted (op_subs o)) T w w' r.

  Lemma adopt_go_ok3 : forall subs, Forall adoptable3 subs ->
    forall T w w' r, forallb (reusable fs0 new0 cfp0) subs = true -> forallb wfrec subs = true ->
      RInv T w -> at0 fs0 new0 cfp0 w ->
      adopt_go subs w = (w', r) -> adopt_post3 (flat_map adopted subs) T w w' r.
  Proof.
    intros subs H. induction H as [|s rest Hs Hrest IH]; intros T w w' r Hr Hwf HR Ha Hgo.
    - cbn in Hgo. inversion Hgo; subst. apply adopt_post3_nil. exact HR.
    - cbn [forallb] in Hr, Hwf. apply andb_true_iff in Hr. destruct Hr as [Hr1 Hr2].
      apply andb_true_iff in Hwf. destruct Hwf as [Hwf1 Hwf2].
      cbn [adopt_go] in Hgo. apply bind_inv in Hgo.
      assert (Hhead: forall wa ra,
                (match s with
                 | OBuildFile p _ _ _ _ _ _ _ false _ =>
                     created <- make_dirs (dirname p) ;; locked <- m_bd_started p created ;;
                     catch (apply_cached_subs_of s) (fun e => m_bd_error p ;;; raise e)
                 | OSimple _ _ _ => ret tt
                 | _ => apply_cached_subs_of s
                 end) w = (wa, ra) -> adopt_post3 (adopted s) T w wa ra).
      { intros wa ra Hh. destruct s as [q rt ex|p c f a k subs' rt cr ra' sf|f a k subs' rt ra' sf].
        - inversion Hh; subst. apply adopt_post3_nil. exact HR.
        - cbn [reusable] in Hr1. repeat (apply andb_true_iff in Hr1; destruct Hr1 as [Hr1 ?]).
          cbn [wfrec] in Hwf1. apply andb_true_iff in Hwf1. destruct Hwf1 as [Hwf1 Hwfs].
          apply andb_true_iff in Hwf1. destruct Hwf1 as [_ Htgt].
          destruct ra'.
          + cbn [adopted app]. apply (Hs T w wa ra); [cbn [op_subs]; assumption|cbn [op_subs]; assumption|exact HR|exact Ha|exact Hh].
          + destruct Ha as (A1 & A2 & A3). rename H0 into Hfile. rewrite <- A1 in Hfile.
            destruct p as [|n d]; [discriminate|]. cbn [dirname tl] in Hh.
            unfold tgt_ok in Htgt. apply andb_true_iff in Htgt. destruct Htgt as [Hpok _].
            assert (Hpd: path_ok d = true) by (cbn [path_ok forallb] in Hpok; apply andb_true_iff in Hpok; apply Hpok).
            apply bind_inv in Hh. destruct Hh as [[w1 [created [Em Hh]]]|[e [Em _]]].
            2:{ exfalso. destruct (make_dirs_existing T n d w wa (inr e) HR Hfile) as (ds & K & _); [rewrite A1, A3; exact Hcf|exact Em|discriminate]. }
            destruct (make_dirs_existing T n d w w1 (inl created) HR Hfile) as (ds & K & Efs); [rewrite A1, A3; exact Hcf|exact Em|].
            apply bind_inv in Hh. destruct Hh as [[w2 [locked [Eb Hh]]]|[e [Eb _]]].
            2:{ unfold m_bd_started in Eb. destruct (bd_started (w_bd w1) (n :: d) created); discriminate. }
            destruct HR as (HX & HP & HF).
            assert (Hnd: isdir (w_fs w) (n :: d) = false).
            { unfold isdir. apply isfile_lookup in Hfile. destruct Hfile as [g Hg]. rewrite Hg. reflexivity. }
            destruct (make_dirs_started_XInv T w n d w1 created w2 locked HX HP Hnd Em Eb) as (HX2 & HP2 & N2 & O2 & C2 & _).
            assert (Efs2: w_fs w2 = w_fs w).
            { unfold m_bd_started in Eb. destruct (bd_started (w_bd w1) (n :: d) created). inversion Eb; subst. cbn. exact Efs. }
            assert (HF2: w_faults w2 = []).
            { pose proof (make_dirs_quiet d _ _ _ Em) as [_ Q1]. unfold m_bd_started in Eb.
              destruct (bd_started (w_bd w1) (n :: d) created). inversion Eb; subst. cbn. congruence. }
            assert (Hview2: forall x, lookup (view_fs w2) x = if is_ancestor x (n :: d) then Some NDir else lookup (view_fs w) x).
            { apply (view_after_setup T w n d w1 created w2 locked HX HP Hnd Hpd Em Eb).
              intros y Hy. rewrite Efs2.
              assert (Hsuf: suffix y d).
              { unfold make_dirs in Em. apply bind_inv in Em. destruct Em as [[wx [ds0 [Eds Em]]]|[e [_ Em]]]; [|discriminate].
                apply bind_inv in Em. destruct Em as [[wy [u [_ Em]]]|[e [_ Em]]]; [|discriminate]. inversion Em; subst.
                eapply dirs_to_make_suffix; eassumption. }
              apply isfile_lookup in Hfile. destruct Hfile as [g Hg].
              pose proof (wf_suffix_dir _ _ _ (bi_wf _ (x_binv _ _ HX)) (bi_wf _ (x_binv _ _ HX) _ _ Hg) Hsuf) as Hd.
              unfold isfile. cbn [dirname tl] in Hd. rewrite Hd. reflexivity. }
            pose proof (setup_created T w n d w1 created w2 locked HX HP Hfile Em Eb) as Hcr2.
            assert (HR2: RInv ((n :: d) :: T) w2) by (split; [exact HX2|split; [exact HP2|exact HF2]]).
            assert (Ha2: at0 fs0 new0 cfp0 w2) by (repeat split; congruence).
            (* the setup of the target, as an adoption of the one-element list *)
            assert (P1: adopt_post3 [n :: d] T w w2 (inl tt)).
            { split; [reflexivity|]. split; [exact Efs2|]. split; [exact N2|]. split; [exact O2|]. split; [exact C2|].
              split; [exact HR2|]. split.
              - intro x. rewrite (Hview2 x). cbn [existsb]. rewrite orb_false_r. reflexivity.
              - intro x. rewrite (Hcr2 x). cbn [existsb]. rewrite orb_false_r. reflexivity. }
            unfold catch in Hh.
            destruct (apply_cached_subs_of (OBuildFile (n :: d) c f a k subs' rt cr false sf) w2) as [w3 r3] eqn:E3.
            pose proof (Hs ((n :: d) :: T) w2 w3 r3) as P. cbn [op_subs] in P.
            pose proof (P ltac:(assumption) Hwfs HR2 Ha2 E3) as P3. pose proof P3 as (R1 & _).
            subst r3. inversion Hh; subst wa ra.
            cbn [adopted app]. change ((n :: d) :: flat_map adopted subs') with ([n :: d] ++ flat_map adopted subs').
            apply (adopt_post3_seq [n :: d] (flat_map adopted subs') T w w2 w3 P1). exact P3.
        - cbn [reusable] in Hr1. repeat (apply andb_true_iff in Hr1; destruct Hr1 as [Hr1 ?]).
          cbn [adopted]. apply (Hs T w wa ra); [cbn [op_subs]; assumption|cbn [op_subs]; exact Hwf1|exact HR|exact Ha|exact Hh]. }
      destruct Hgo as [[wa [u [Eh Hgo]]]|[e [Eh _]]].
      + pose proof (Hhead _ _ Eh) as P1. pose proof P1 as (_ & F1 & N1 & O1 & C1 & HR1 & _).
        assert (Ha1: at0 fs0 new0 cfp0 wa) by (destruct Ha as (A1 & A2 & A3); repeat split; congruence).
        pose proof (IH (rev (adopted s) ++ T) wa w' r Hr2 Hwf2 HR1 Ha1 Hgo) as P2. pose proof P2 as (R2 & _). subst r.
        cbn [flat_map]. destruct u. apply (adopt_post3_seq (adopted s) (flat_map adopted rest) T w wa w' P1 P2).
      + destruct (Hhead _ _ Eh) as (K & _). discriminate.
  Qed.

  Theorem apply_cached_exact : forall o, adoptable3 o.
  Proof.
    induction o as [q r e|p c f a k subs r cr ra sf IH|f a k subs r ra sf IH] using op_ind';
      intros T w w' res Hr Hwf HR Ha H; rewrite apply_cached_subs_of_eq in H; cbn [op_subs] in *.
    - cbn in H. inversion H; subst. apply adopt_post3_nil. exact HR.
    - eapply adopt_go_ok3; eassumption.
    - eapply adopt_go_ok3; eassumption.
  Qed.
End Adopt3.

Print Assumptions apply_cached_exact.
