(* Proofs/ViewC04.v — C04, the virtual file-system view: index of what is proved in
   Proofs/View*.v, a concrete world showing why the hypothesis on the old cache is needed,
   and the statements that are NOT proved (as Definitions of type Prop; nothing is assumed).

   PROVED (all closed under the global context):
     ViewScan    is_removed_sound, m_is_removed_sound      the scan answers [dead], never runs out
                                                           of fuel, fails only on an over-long absent
                                                           candidate; its cache updates keep view + BInv
     ViewQueries m_is_file_view, m_is_dir_view, m_exists_view, m_get_size_view, m_list_dir_view
     ViewAnswers m_walk_view, m_read_view, exec_query_view, exec_query_spec_answer,
                 view_exists_file_or_dir, view_list_dir_names, view_parent_is_dir, view_tree_wf,
                 answers_consistent
     ViewInit    BInv_start_world, start_world_candidates, BInv_root_entry
     ViewClean   view_start_is_ref_clean                   the view at the start of a build is
                                                           Ref.ref_clean, entry by entry
     ViewPres    exec_query_good (any overlay), replay_good, lookup_good, sublookup_good,
                 dirs_to_make_good
     ViewFrame   local_BInv, claim_change_BInv (+ new_start/finish/abort_building_file),
                 write_target_BInv, remove_target_BInv, started_BInv
     ViewPrepare prepare_started_BInv                      _prepare_file_creation (no _make_room)
                                                           + started_building_file *)
From Coq Require Import List String Ascii NArith ZArith Bool Arith Lia.
From FB.Base Require Import PyVal Fs.
From FB.Model Require Import Types Monad CreatedFiles BuildDirs SimpleOps Builder Build.
From FB.Spec Require Import Ref.
From FB.Proofs Require Import ViewDefs ViewLemmas ViewScan ViewQueries ViewAnswers ViewInit ViewClean
     ViewPres ViewFrame ViewPrepare.
Import ListNotations.
Open Scope list_scope.

(* ------------------------------------------------------------------ why old_ok is needed *)
(* A malformed cache that records the path d/a both as a created directory and as an
   output, d/a being an empty directory on disk: the model's answers depend on the order of
   the questions, so no view exists.  (old_ok.oo_dirs excludes it; a cache written by a
   build never has this shape.) *)
Module Malformed.
  Import ViewExamples.
  Open Scope string_scope.
  Definition oldbad : cache :=
    {| c_name := "n"; c_files := [(["a"; "d"], Some (ok_op ["a"; "d"]))]; c_subs := [];
       c_dirs := [["d"]; ["a"; "d"]]; c_fvers := PDict []; c_built := [] |}.
  Definition fsb : fsT := [ (["d"], Some NDir); (["a"; "d"], Some NDir); (["cache"], Some (NFile fnode0)) ].
  Definition wb : world := mkw fsb oldbad new0 (bd_init (c_dirs oldbad) [["a"; "d"]; ["cache"]]).
  Example order_dependent :
    answers wb [QIsDir ["d"]; QIsDir ["a"; "d"]] = [inl (PBool true); inl (PBool true)] /\
    answers wb [QIsDir ["a"; "d"]; QIsDir ["d"]] = [inl (PBool false); inl (PBool false)].
  Proof. vm_compute. auto. Qed.
End Malformed.

(* ------------------------------------------------------------------ not proved *)
(* The error path (BuildDirs.error_building_file) releases reservations: directories leave
   bd_counts and become candidates again.  BInv alone is not inductive there; what is
   missing is an auxiliary invariant about the reserved part of the tree, relative to the
   list T of targets whose reservation is live (started, not failed).  Proposed form: *)
Definition nkids (b : bdirs) (x : path) : nat :=
  List.length (filter (fun k => path_eqb (dirname (fst k)) x && negb (path_eqb (fst k) x)) (bd_counts b)).
Definition ntargets (T : list path) (x : path) : nat :=
  List.length (filter (fun t => path_eqb (dirname t) x) T).

Record XInv (T : list path) (w : world) : Prop := {
  (* bd_counts is a dict and counts what its comment says *)
  xi_keys : NoDup (map fst (bd_counts (w_bd w)));
  xi_count : forall x, cnt_get (bd_counts (w_bd w)) x =
             (let k := nkids (w_bd w) x + ntargets T x in if Nat.eqb k 0 then None else Some k);
  xi_targets : NoDup T /\ forall t, In t T -> t <> [] /\ mem_path t (bd_removed_files (w_bd w)) = false;
  xi_created : forall x, mem_path x (bd_created (w_bd w)) = true -> in_counts (w_bd w) x = true;
  (* a directory found removed, or created by this build, holds nothing but reserved and invisible entries *)
  xi_kids : forall x n,
      mem_path x (bd_removed (w_bd w)) = true \/ mem_path x (bd_created (w_bd w)) = true ->
      lexists (w_fs w) (n :: x) = true ->
      in_counts (w_bd w) (n :: x) = true \/ In (n :: x) T \/ invis w (n :: x) = true;
  (* bd_removed_files = the hidden files that are not live targets, whatever is reserved *)
  xi_hid_rf : forall a, isfile (w_fs w) a = true -> hid w a = true -> ~ In a T ->
              mem_path a (bd_removed_files (w_bd w)) = true;
  xi_rf_hid : forall a, mem_path a (bd_removed_files (w_bd w)) = true -> isfile (w_fs w) a = true -> hid w a = true
}.

(* queries keep it *)
Definition queries_XInv_statement : Prop :=
  forall q cf T w w' r, BInv w -> XInv T w -> exec_query q cf w = (w', r) -> XInv T w'.

(* the error path, once the file of the failed target is gone *)
Definition bd_error_statement : Prop :=
  forall T w p w1 u, BInv w -> XInv T w -> In p T -> lexists (w_fs w) p = false ->
    m_bd_error p w = (w1, inl u) -> BInv w1 /\ XInv (del_path p T) w1.

(* _make_room: physically deleting a dead directory (and what is in it) changes no answer *)
Definition make_room_statement : Prop :=
  forall w p w1 u, BInv w -> isdir (w_fs w) p = true -> dead w p = true -> w_faults w = [] ->
    make_room room_fuel p w = (w1, inl u) ->
    BInv w1 /\ lookup (w_fs w1) p = None /\ forall x, visible w1 x = visible w x.

(* the whole of build_file, for user code that itself keeps the invariants *)
Definition build_file_statement : Prop :=
  forall p c fname args kwargs fn w w' res T,
    BInv w -> XInv T w -> w_faults w = [] ->
    (forall q a k w0 w1 r T0, BInv w0 -> XInv T0 w0 -> fn q a k w0 = (w1, r) -> BInv w1 /\ XInv T0 w1) ->
    m_build_file p c fname args kwargs fn w = (w', res) ->
    BInv w' /\ exists T', XInv T' w'.

(* the world in which the root function starts, when directories have to be made for the
   cache file (the latitude of the property: such directories are not reserved) *)
Definition root_entry_statement : Prop :=
  forall w cachefile old nm vers w1 ccd,
    fs_wf (w_fs w) -> old_ok old cachefile ->
    (forall d, In d (c_dirs old) -> forall x, suffix x d -> x <> [] -> lookup (w_fs w) x = None -> In x (c_dirs old)) ->
    make_dirs (dirname cachefile) (start_world w cachefile old nm vers) = (w1, inl ccd) ->
    BInv w1.

(* ------------------------------------------------------------------ the main theorems, once more *)
Check is_removed_sound.
Check exec_query_view.
Check exec_query_spec_answer.
Check answers_consistent.
Check BInv_start_world.
Check view_start_is_ref_clean.
Check exec_query_good.
Check lookup_good.
Check prepare_started_BInv.
Check write_target_BInv.
Check new_finish_building_file_BInv.

Print Assumptions is_removed_sound.
Print Assumptions exec_query_view.
Print Assumptions exec_query_spec_answer.
Print Assumptions answers_consistent.
Print Assumptions view_parent_is_dir.
Print Assumptions BInv_start_world.
Print Assumptions BInv_root_entry.
Print Assumptions view_start_is_ref_clean.
Print Assumptions exec_query_good.
Print Assumptions lookup_good.
Print Assumptions sublookup_good.
Print Assumptions prepare_started_BInv.
Print Assumptions write_target_BInv.
Print Assumptions remove_target_BInv.
Print Assumptions new_start_building_file_BInv.
Print Assumptions new_finish_building_file_BInv.
Print Assumptions new_abort_building_file_BInv.
Print Assumptions started_BInv.
